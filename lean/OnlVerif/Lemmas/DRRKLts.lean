import OnlVerif.Lemmas.DRRKRun
import OnlVerif.Lemmas.MultiQueueRun
import Mathlib.Algebra.BigOperators.Group.List.Basic
/-!
# The DRR scheduler on the kernel model: every configuration step is accepted by the MultiQueueServer LTS

`toM a hist now` is the LTS state (`Net/MultiQueue.lean` with the record `DRR.sched`) a configuration stands for (`hist` = the
observations so far: the ghost counters `visits`, `sentBytes` and the key orders of the dicts that grow are read off them).
For each constructor of `AStep` the LTS accepts the corresponding action (`init`, `put`, `tokenHandoff`, `wake`, `pktResume`,
`sendInit`, `sendFire`, `sendDone`, or nothing) from `toM a` to `toM a'`; the loops of the LTS (`DRR.micro` under `settle`) are the
functions `innerAt`, `visitFrom`, `passes`; and the clock advance is an accepted `tick`.
-/

set_option linter.unusedSimpArgs false

namespace DRRK
open DRROnK QEntry MQ

/-! ## Python dicts whose keys are the flows seen so far -/

section dict
variable {β : Type}

/-- the dict with keys `keys` (in this order) and values `g` -/
def dictOf (keys : List Nat) (g : Nat → β) : List (Nat × β) := keys.map fun f => (f, g f)

theorem lookup_dictOf (keys : List Nat) (g : Nat → β) (f : Nat) :
    MQ.lookup (dictOf keys g) f = if f ∈ keys then some (g f) else none := by
  induction keys with
  | nil => simp [dictOf, MQ.lookup]
  | cons k r ih =>
    simp only [dictOf, List.map_cons, MQ.lookup, List.mem_cons]
    by_cases hk : k = f
    · subst hk; simp
    · have : ¬ f = k := fun h => hk h.symm
      simp only [hk, if_false, this, false_or]
      exact ih

theorem addKey_cons_ne (k f : Nat) (r : List Nat) (h : k ≠ f) : addKey (k :: r) f = k :: addKey r f := by
  unfold addKey
  have : (k :: r).contains f = r.contains f := by
    simp only [List.contains_cons]
    have : (f == k) = false := by simpa using fun h' => h h'.symm
    simp [this]
  rw [this]
  split <;> rfl

theorem addKey_of_mem (keys : List Nat) (f : Nat) (h : f ∈ keys) : addKey keys f = keys := by
  unfold addKey
  simp [h]

theorem addKey_of_not_mem (keys : List Nat) (f : Nat) (h : f ∉ keys) : addKey keys f = keys ++ [f] := by
  unfold addKey
  simp [h]

theorem setKey_dictOf (keys : List Nat) (hn : keys.Nodup) (g : Nat → β) (f : Nat) (v : β) :
    MQ.setKey (dictOf keys g) f v = dictOf (addKey keys f) (upd g f v) := by
  induction keys with
  | nil => simp [dictOf, MQ.setKey, addKey]
  | cons k r ih =>
    have hk := List.nodup_cons.mp hn
    by_cases hkf : k = f
    · subst hkf
      rw [addKey_of_mem _ _ List.mem_cons_self]
      simp only [dictOf, List.map_cons, MQ.setKey, if_true, upd_same, List.cons.injEq, true_and]
      apply List.map_congr_left
      intro x hx
      have : x ≠ k := fun h => hk.1 (h ▸ hx)
      rw [upd_ne _ _ _ _ this]
    · rw [addKey_cons_ne _ _ _ hkf]
      simp only [dictOf, List.map_cons, MQ.setKey, hkf, if_false, upd_ne _ _ _ _ hkf, List.cons.injEq, true_and]
      exact ih hk.2

theorem bump_dictOf (keys : List Nat) (hn : keys.Nodup) (c : Nat → Int) (f : Nat) (d : Int) (h0 : f ∉ keys → c f = 0) :
    MQ.bump (dictOf keys c) f d = dictOf (addKey keys f) (upd c f (c f + d)) := by
  induction keys with
  | nil => simp [dictOf, MQ.bump, addKey, h0 (by simp)]
  | cons k r ih =>
    have hk := List.nodup_cons.mp hn
    by_cases hkf : k = f
    · subst hkf
      rw [addKey_of_mem _ _ List.mem_cons_self]
      simp only [dictOf, List.map_cons, MQ.bump, if_true, upd_same, List.cons.injEq, true_and]
      apply List.map_congr_left
      intro x hx
      have : x ≠ k := fun h => hk.1 (h ▸ hx)
      rw [upd_ne _ _ _ _ this]
    · rw [addKey_cons_ne _ _ _ hkf]
      simp only [dictOf, List.map_cons, MQ.bump, hkf, if_false, upd_ne _ _ _ _ hkf, List.cons.injEq, true_and]
      exact ih hk.2 (fun h => h0 (by simp [h, Ne.symm hkf]))

theorem total_dictOf (keys : List Nat) (c : Nat → Int) : MQ.total (dictOf keys c) = (keys.map c).sum := by
  induction keys with
  | nil => rfl
  | cons k r ih => simp only [dictOf, List.map_cons, MQ.total, List.sum_cons] at ih ⊢; rw [ih]

theorem sumFrom_succ_right (c : Nat → Int) : ∀ (n f : Nat), sumFrom c f (n + 1) = sumFrom c f n + c (f + n)
  | 0, f => by simp [sumFrom]
  | n + 1, f => by
    have := sumFrom_succ_right c n (f + 1)
    simp only [sumFrom] at this ⊢
    rw [this, show f + 1 + n = f + (n + 1) by omega]
    ring

/-- `sum(queue_count.values())` over the keys is the sum over all flows when the other counters are 0 -/
theorem total_eq (c : Nat → Int) : ∀ (F : Nat) (keys : List Nat), keys.Nodup → (∀ f ∈ keys, f < F) →
    (∀ f, f < F → f ∉ keys → c f = 0) → MQ.total (dictOf keys c) = sumFrom c 0 F
  | 0, keys, _, hlt, _ => by
    cases keys with
    | nil => rfl
    | cons k r => exact absurd (hlt k List.mem_cons_self) (Nat.not_lt_zero _)
  | F + 1, keys, hn, hlt, h0 => by
    rw [sumFrom_succ_right, Nat.zero_add]
    by_cases hF : F ∈ keys
    · have hp := List.perm_cons_erase hF
      have ih := total_eq c F (keys.erase F) (hn.erase F)
        (fun f hf => by
          have h1 := hlt f (List.mem_of_mem_erase hf)
          have h2 : f ≠ F := fun h => (List.Nodup.mem_erase_iff hn).mp hf |>.1 h
          omega)
        (fun f hf hne => h0 f (by omega) (fun h => hne ((List.Nodup.mem_erase_iff hn).mpr ⟨by omega, h⟩)))
      rw [total_dictOf] at ih ⊢
      rw [(hp.map c).sum_eq, List.map_cons, List.sum_cons, ih]
      ring
    · have ih := total_eq c F keys hn
        (fun f hf => by
          have h1 := hlt f hf
          have h2 : f ≠ F := fun h => hF (h ▸ hf)
          omega)
        (fun f hf hne => h0 f (by omega) hne)
      rw [ih, h0 F (by omega) hF]
      ring

end dict


/-! ## what the observations say about the LTS state -/

theorem visitsOf_snoc (h : List (HEv ℚ)) (ev : HEv ℚ) :
    visitsOf (h ++ [ev]) = match ev with | .visit c _ => MQ.bump (visitsOf h) c 1 | _ => visitsOf h := by
  simp only [visitsOf, List.foldl_append, List.foldl_cons, List.foldl_nil]
  cases ev <;> rfl

theorem sentOf_snoc (flow size : Int → Nat) (h : List (HEv ℚ)) (ev : HEv ℚ) :
    sentOf flow size (h ++ [ev]) = match ev with | .done id _ => MQ.bump (sentOf flow size h) (flow id) (size id) | _ => sentOf flow size h := by
  simp only [sentOf, List.foldl_append, List.foldl_cons, List.foldl_nil]
  cases ev <;> rfl

theorem forfKeys_snoc (h : List (HEv ℚ)) (ev : HEv ℚ) :
    forfKeys (h ++ [ev]) = match ev with | .reset c _ => addKey (forfKeys h) c | _ => forfKeys h := by
  simp only [forfKeys, List.foldl_append, List.foldl_cons, List.foldl_nil]
  cases ev <;> rfl

theorem parkKeys_snoc (flow : Int → Nat) (h : List (HEv ℚ)) (ev : HEv ℚ) :
    parkKeys flow (h ++ [ev]) = match ev with | .park id _ => addKey (parkKeys flow h) (flow id) | _ => parkKeys flow h := by
  simp only [parkKeys, List.foldl_append, List.foldl_cons, List.foldl_nil]
  cases ev <;> rfl

theorem putIds_append (l1 l2 : List (HEv ℚ)) : putIds (l1 ++ l2) = putIds l1 ++ putIds l2 := by
  induction l1 with
  | nil => rfl
  | cons x r ih => cases x <;> simp [putIds, ih]

theorem addKey_nodup (l : List Nat) (k : Nat) (h : l.Nodup) : (addKey l k).Nodup := by
  by_cases hk : k ∈ l
  · rw [addKey_of_mem _ _ hk]; exact h
  · rw [addKey_of_not_mem _ _ hk]
    exact List.nodup_append.mpr ⟨h, by simp, by
      intro x hx y hy hxy
      simp only [List.mem_singleton] at hy
      exact hk (hy ▸ hxy ▸ hx)⟩

theorem parkKeys_nodup (flow : Int → Nat) (h : List (HEv ℚ)) : (parkKeys flow h).Nodup := by
  unfold parkKeys
  generalize hacc : ([] : List Nat) = acc
  have hn : acc.Nodup := hacc ▸ List.nodup_nil
  clear hacc
  induction h generalizing acc with
  | nil => exact hn
  | cons ev r ih =>
    simp only [List.foldl_cons]
    apply ih
    cases ev <;> first | exact hn | exact addKey_nodup _ _ hn

theorem forfKeys_nodup (h : List (HEv ℚ)) : (forfKeys h).Nodup := by
  unfold forfKeys
  generalize hacc : ([] : List Nat) = acc
  have hn : acc.Nodup := hacc ▸ List.nodup_nil
  clear hacc
  induction h generalizing acc with
  | nil => exact hn
  | cons ev r ih =>
    simp only [List.foldl_cons]
    apply ih
    cases ev <;> first | exact hn | exact addKey_nodup _ _ hn

/-! ## the LTS state of a configuration -/

section toM
variable (flows : List Nat) (flow size : Int → Nat)

def pcOf : RPhase → DRR.Pc
  | .H _ m _ _ => .gotPkt m
  | .S _ m _ _ => .sent m
  | .T _ _ m _ _ => .sent m
  | .F _ m _ _ => .sent m
  | _ => .top

def phaseOf : RPhase → Phase ℚ
  | .init _ => .idle
  | .W _ => .waitToken
  | .K _ _ => .tokenHanded
  | .H _ _ id _ => .pktHanded (flow id) (pktOf flow size id)
  | .S _ _ id _ => .spawned (pktOf flow size id)
  | .T _ _ _ id q => .sending (pktOf flow size id) q.time
  | .F _ _ id _ => .finished (pktOf flow size id)

/-- the control state of the LTS loop: credits and class counts of the configuration, ghosts of the observations -/
def ctlOf (pc : DRR.Pc) (a : A) (hist : List (HEv ℚ)) : DRR.Ctl ℚ :=
  { pc := pc
    deficit := dictOf flows a.dfc
    classCount := dictOf flows a.ccnt
    visits := visitsOf hist
    sentBytes := sentOf flow size hist
    forfeited := dictOf (forfKeys hist) a.forf }

/-- the LTS state with the attributes of the configuration `a`, at control point `pc` in phase `ph` -/
def mst (a : A) (hist : List (HEv ℚ)) (now : ℚ) (pc : DRR.Pc) (ph : Phase ℚ) : MQState ℚ (DRR.Ctl ℚ) :=
  { now := now
    ctl := ctlOf flows flow size pc a hist
    stores := dictOf a.keys fun f => (a.items f).map (pktOf flow size)
    hol := dictOf (parkKeys flow hist) fun c => (a.hol c).map (pktOf flow size)
    queueCount := dictOf flows a.cnt
    queueBytes := dictOf a.keys a.byt
    tokens := a.tokens
    phase := ph
    currentPacket := a.cur.map (pktOf flow size)
    received := a.recv.toNat }

/-- **the LTS state a configuration stands for** -/
def toM (a : A) (hist : List (HEv ℚ)) (now : ℚ) : MQState ℚ (DRR.Ctl ℚ) :=
  mst flows flow size a hist now (pcOf a.run) (phaseOf flow size a.run)

end toM

/-- the classes of `weights`, in declaration order -/
@[reducible] def _root_.DRR.Cfg.flows (cfg : DRR.Cfg ℚ) : List Nat := cfg.weights.map (·.1)

variable {F : Nat} {flow size : Int → Nat} {cfg : DRR.Cfg ℚ} {Lmax P : Nat}

/-- `sum(queue_count.values())` over the declared classes is `total_packets` -/
theorem total_flows (ht : FlowsOK F cfg) (c : Nat → Int) : MQ.total (dictOf cfg.flows c) = sumFrom c 0 F :=
  total_eq c F cfg.flows (flows_nodup ht) (fun f hf => (mem_flows ht f).mp hf)
    (fun f hf hk => absurd ((mem_flows ht f).mpr hf) hk)

theorem getElem?_dictOf {β : Type} (keys : List Nat) (g : Nat → β) (i : Nat) :
    (dictOf keys g)[i]? = keys[i]?.map fun f => (f, g f) := by
  simp [dictOf]

theorem getElem?_flows {m c w : Nat} (h : cfg.weights[m]? = some (c, w)) : cfg.flows[m]? = some c := by
  simp [DRR.Cfg.flows, h]

theorem lookupD_dictOf {β : Type} (keys : List Nat) (g : Nat → Option β) (c : Nat) (h : c ∉ keys → g c = none) :
    lookupD (dictOf keys g) c none = g c := by
  simp only [lookupD, lookup_dictOf]
  by_cases hk : c ∈ keys
  · simp [hk]
  · simp [hk, h hk]

/-! ## one move of the LTS loop -/

theorem sched_micro : (DRR.sched cfg).micro = DRR.micro cfg (DRR.quantum cfg) := rfl

theorem settle_goto (n : Nat) (s : MQState ℚ (DRR.Ctl ℚ)) (k : DRR.Ctl ℚ)
    (h : DRR.micro cfg (DRR.quantum cfg) s.ctl (view s) = .goto k) :
    settle (DRR.sched cfg) (n + 1) s = settle (DRR.sched cfg) n { s with ctl := k } := by
  simp only [settle, touch, DRR.sched, h]

theorem settle_get (n : Nat) (s : MQState ℚ (DRR.Ctl ℚ)) (c : Nat) (k : DRR.Ctl ℚ)
    (h : DRR.micro cfg (DRR.quantum cfg) s.ctl (view s) = .get c k) :
    settle (DRR.sched cfg) (n + 1) s = issueGet { s with ctl := k } c := by
  simp only [settle, touch, DRR.sched, h]

theorem settle_block (n : Nat) (s : MQState ℚ (DRR.Ctl ℚ)) (k : DRR.Ctl ℚ)
    (h : DRR.micro cfg (DRR.quantum cfg) s.ctl (view s) = .block k) :
    settle (DRR.sched cfg) (n + 1) s = .ok (blockOnToken { s with ctl := k }) := by
  simp only [settle, touch, DRR.sched, h]

theorem settle_take_send (n : Nat) (s : MQState ℚ (DRR.Ctl ℚ)) (c : Nat) (k k' : DRR.Ctl ℚ) (p : MPkt) (early : Bool)
    (h : DRR.micro cfg (DRR.quantum cfg) s.ctl (view s) = .take c k) (hp : lookupD s.hol c none = some p)
    (hd : DRR.onPkt cfg k (view { s with ctl := k, hol := setKey s.hol c none }) c p = .send early k') :
    settle (DRR.sched cfg) (n + 1) s = .ok (spawn { s with ctl := k', hol := setKey s.hol c none } p early) := by
  simp only [settle, touch, DRR.sched, h, hp, hd]

theorem settle_take_park (n : Nat) (s s2 : MQState ℚ (DRR.Ctl ℚ)) (c : Nat) (k k' : DRR.Ctl ℚ) (p : MPkt)
    (h : DRR.micro cfg (DRR.quantum cfg) s.ctl (view s) = .take c k) (hp : lookupD s.hol c none = some p)
    (hd : DRR.onPkt cfg k (view { s with ctl := k, hol := setKey s.hol c none }) c p = .park k')
    (hpk : park { s with ctl := k', hol := setKey s.hol c none } c p = .ok s2) :
    settle (DRR.sched cfg) (n + 1) s = settle (DRR.sched cfg) n s2 := by
  simp only [settle, touch, DRR.sched, h, hp, hd, hpk]

/-! ## the loops of the LTS are `innerAt`, `visitFrom`, `passes` -/

/-- the LTS state in the middle of a burst on the configuration `a1`: the credits are those of `L`, the observations so far
`H ++ L.evs` -/
def lst (cfg : DRR.Cfg ℚ) (flow size : Int → Nat) (a1 : A) (H : List (HEv ℚ)) (L : LS) (t : ℚ) (pc : DRR.Pc) :
    MQState ℚ (DRR.Ctl ℚ) :=
  mst cfg.flows flow size (finA a1 L none) (H ++ L.evs) t pc .running

theorem mem_flows' (ht : FlowsOK F cfg) {c : Nat} (hc : c < F) : c ∈ cfg.flows := (mem_flows ht c).mpr hc

theorem lookup_flows {β : Type} (ht : FlowsOK F cfg) (g : Nat → β) {c : Nat} (hc : c < F) :
    MQ.lookup (dictOf cfg.flows g) c = some (g c) := by
  rw [lookup_dictOf, if_pos (mem_flows' ht hc)]

theorem setKey_flows {β : Type} (ht : FlowsOK F cfg) (g : Nat → β) {c : Nat} (hc : c < F) (v : β) :
    MQ.setKey (dictOf cfg.flows g) c v = dictOf cfg.flows (upd g c v) := by
  rw [setKey_dictOf _ (flows_nodup ht), addKey_of_mem _ _ (mem_flows' ht hc)]

/-- the head of the `for` body -/
theorem lts_visit (ht : FlowsOK F cfg) {a1 : A} {H : List (HEv ℚ)} {L : LS} {t : ℚ} {m c w : Nat}
    (hw : cfg.weights[m]? = some (c, w)) (N : Nat) :
    settle (DRR.sched cfg) (N + 1) (lst cfg flow size a1 H L t (.visit m)) =
      settle (DRR.sched cfg) N (lst cfg flow size a1 H (visitAdd (qOf cfg) a1.ccnt t c L) t (.inner m)) := by
  have hcF : c < F := entry_lt ht (List.mem_of_getElem? hw)
  have hcc : (dictOf cfg.flows a1.ccnt)[m]? = some (c, a1.ccnt c) := by
    rw [getElem?_dictOf, getElem?_flows hw]; rfl
  unfold visitAdd
  by_cases hpos : 0 < a1.ccnt c
  · rw [if_pos hpos]
    rw [settle_goto N _ { DRR.addQuantum (lst cfg flow size a1 H L t (.visit m)).ctl c (L.dfc c) (qOf cfg c) with pc := .inner m }
      (by
        simp only [DRR.micro, lst, mst, ctlOf, finA, hcc, hpos, if_true, lookup_flows ht _ hcF, quantum_eq ht hcF])]
    congr 1
    simp only [lst, mst, ctlOf, finA, DRR.addQuantum, setKey_flows ht _ hcF, ← List.append_assoc, visitsOf_snoc, sentOf_snoc,
      forfKeys_snoc, parkKeys_snoc]
  · rw [if_neg hpos]
    rw [settle_goto N _ { (lst cfg flow size a1 H L t (.visit m)).ctl with pc := .inner m }
      (by simp only [DRR.micro, lst, mst, ctlOf, finA, hcc, hpos, if_false])]
    rfl

theorem setKey_setKey_dictOf {β : Type} (keys : List Nat) (hn : keys.Nodup) (g : Nat → β) (c : Nat) (hc : c ∈ keys) (v : β) :
    MQ.setKey (MQ.setKey (dictOf keys g) c v) c (g c) = dictOf keys g := by
  rw [setKey_dictOf _ hn, addKey_of_mem _ _ hc, setKey_dictOf _ hn, addKey_of_mem _ _ hc, upd_upd_self _ _ _ _ rfl]

/-- what the loop reads of `head_of_line` -/
theorem parked_lst {a1 : A} {H : List (HEv ℚ)} {L : LS} {t : ℚ} {pc : DRR.Pc}
    (hpk : ∀ c', a1.hol c' ≠ none → c' ∈ parkKeys flow (H ++ L.evs)) (c : Nat) :
    lookupD (lst cfg flow size a1 H L t pc).hol c none = (a1.hol c).map (pktOf flow size) := by
  simp only [lst, mst, finA, holAfter]
  rw [lookupD_dictOf]
  intro hc
  have : a1.hol c = none := by
    by_contra hne
    exact hc (hpk c hne)
  rw [this]; rfl

theorem micro_inner (ht : FlowsOK F cfg) {a1 : A} {H : List (HEv ℚ)} {L : LS} {t : ℚ} {m c w : Nat}
    (hw : cfg.weights[m]? = some (c, w)) (hpk : ∀ c', a1.hol c' ≠ none → c' ∈ parkKeys flow (H ++ L.evs)) :
    DRR.micro cfg (DRR.quantum cfg) (lst cfg flow size a1 H L t (.inner m)).ctl (view (lst cfg flow size a1 H L t (.inner m))) =
      if Num.zero < L.dfc c ∧ 0 < a1.ccnt c then
        match a1.hol c with
        | some _ => .take c { (lst cfg flow size a1 H L t (.inner m)).ctl with pc := .gotPkt m }
        | none => .get c { (lst cfg flow size a1 H L t (.inner m)).ctl with pc := .gotPkt m }
      else .goto { (lst cfg flow size a1 H L t (.inner m)).ctl with pc := .visit (m + 1) } := by
  have hcF : c < F := entry_lt ht (List.mem_of_getElem? hw)
  have hcc : (dictOf cfg.flows a1.ccnt)[m]? = some (c, a1.ccnt c) := by
    rw [getElem?_dictOf, getElem?_flows hw]; rfl
  have hp : lookupD (dictOf (parkKeys flow (H ++ L.evs)) fun c => Option.map (pktOf flow size) (holAfter a1.hol none c)) c none =
      (a1.hol c).map (pktOf flow size) := parked_lst (cfg := cfg) (size := size) (t := t) (pc := .inner m) hpk c
  simp only [DRR.micro, lst, mst, ctlOf, finA, hcc, lookup_flows ht _ hcF, view, hp]
  by_cases hcond : Num.zero < L.dfc c ∧ 0 < a1.ccnt c
  · simp only [hcond, and_self, if_true]
    cases a1.hol c <;> rfl
  · simp only [hcond, if_false]

/-- the inner `while` calls `get` -/
theorem lts_inner_get (ht : FlowsOK F cfg) {a1 : A} {H : List (HEv ℚ)} {L L' : LS} {t : ℚ} {m c w m' c' : Nat}
    (hw : cfg.weights[m]? = some (c, w)) (hpk : ∀ c', a1.hol c' ≠ none → c' ∈ parkKeys flow (H ++ L.evs))
    (h : innerAt size a1.ccnt a1.hol t m c L = (L', some (.get m' c'))) (N : Nat) :
    L' = L ∧ m' = m ∧ c' = c ∧
    settle (DRR.sched cfg) (N + 1) (lst cfg flow size a1 H L t (.inner m)) = issueGet (lst cfg flow size a1 H L t (.gotPkt m)) c := by
  unfold innerAt at h
  by_cases hcond : Num.zero < L.dfc c ∧ 0 < a1.ccnt c
  · rw [if_pos hcond] at h
    cases hh : a1.hol c with
    | some id =>
      rw [hh] at h
      by_cases hle : (Num.ofNat (size id) : ℚ) ≤ L.dfc c <;> simp [hle] at h
    | none =>
      rw [hh] at h
      simp only [Prod.mk.injEq, Option.some.injEq, LoopEnd.get.injEq] at h
      obtain ⟨rfl, rfl, rfl⟩ := h
      refine ⟨rfl, rfl, rfl, ?_⟩
      rw [settle_get N _ c { (lst cfg flow size a1 H L t (.inner m)).ctl with pc := .gotPkt m }
        (by rw [micro_inner ht hw hpk, if_pos hcond, hh])]
      rfl
  · rw [if_neg hcond] at h; simp at h

theorem classOf_id (ht : FlowsOK F cfg) (f : Nat) : DRR.classOf cfg f = some f := by
  simp [DRR.classOf, ht.2.2]

/-- the inner `while` sends the parked head -/
theorem lts_inner_send (ht : FlowsOK F cfg) {a1 : A} {H : List (HEv ℚ)} {L L' : LS} {t : ℚ} {m c w m' c' : Nat} {id : Int}
    {pk : Bool} (hw : cfg.weights[m]? = some (c, w)) (hpk : ∀ c', a1.hol c' ≠ none → c' ∈ parkKeys flow (H ++ L.evs))
    (hflow : ∀ id, a1.hol c = some id → flow id = c)
    (h : innerAt size a1.ccnt a1.hol t m c L = (L', some (.send m' c' id pk))) (N : Nat) :
    L' = L ∧ m' = m ∧ c' = c ∧ pk = true ∧ a1.hol c = some id ∧
    settle (DRR.sched cfg) (N + 1) (lst cfg flow size a1 H L t (.inner m)) =
      .ok (spawn { lst cfg flow size a1 H L t (.sent m) with
        hol := setKey (lst cfg flow size a1 H L t (.sent m)).hol c none } (pktOf flow size id) true) := by
  have hcF : c < F := entry_lt ht (List.mem_of_getElem? hw)
  unfold innerAt at h
  by_cases hcond : Num.zero < L.dfc c ∧ 0 < a1.ccnt c
  · rw [if_pos hcond] at h
    cases hh : a1.hol c with
    | none => rw [hh] at h; simp at h
    | some id0 =>
      rw [hh] at h
      by_cases hle : (Num.ofNat (size id0) : ℚ) ≤ L.dfc c
      · simp only [hle, if_true, Prod.mk.injEq, Option.some.injEq, LoopEnd.send.injEq] at h
        obtain ⟨rfl, rfl, rfl, rfl, rfl⟩ := h
        refine ⟨rfl, rfl, rfl, rfl, rfl, ?_⟩
        have hfid := hflow id0 hh
        rw [settle_take_send N _ c { (lst cfg flow size a1 H L t (.inner m)).ctl with pc := .gotPkt m }
          { (lst cfg flow size a1 H L t (.inner m)).ctl with pc := .sent m } (pktOf flow size id0) true
          (by rw [micro_inner ht hw hpk, if_pos hcond, hh])
          (by rw [parked_lst hpk, hh]; rfl)
          (by
            simp only [DRR.onPkt, lst, mst, ctlOf, finA, lookup_flows ht _ hcF, pktOf, classOf_id ht, hfid, if_true]
            rw [if_pos hle])]
        rfl
      · simp [hle] at h
  · rw [if_neg hcond] at h; simp at h

/-- the inner `while` ends the visit: the class is empty, or out of credit, or its parked head is parked again -/
theorem lts_inner_none (ht : FlowsOK F cfg) {a1 : A} {H : List (HEv ℚ)} {L L' : LS} {t : ℚ} {m c w : Nat}
    (hw : cfg.weights[m]? = some (c, w)) (hpk : ∀ c', a1.hol c' ≠ none → c' ∈ parkKeys flow (H ++ L.evs))
    (hflow : ∀ id, a1.hol c = some id → flow id = c)
    (h : innerAt size a1.ccnt a1.hol t m c L = (L', none)) (N : Nat) :
    settle (DRR.sched cfg) (N + 1) (lst cfg flow size a1 H L t (.inner m)) =
      settle (DRR.sched cfg) N (lst cfg flow size a1 H L' t (.visit (m + 1))) := by
  have hcF : c < F := entry_lt ht (List.mem_of_getElem? hw)
  unfold innerAt at h
  by_cases hcond : Num.zero < L.dfc c ∧ 0 < a1.ccnt c
  · rw [if_pos hcond] at h
    cases hh : a1.hol c with
    | none => rw [hh] at h; simp at h
    | some id =>
      rw [hh] at h
      by_cases hle : (Num.ofNat (size id) : ℚ) ≤ L.dfc c
      · simp [hle] at h
      · simp only [hle, if_false, Prod.mk.injEq, and_true] at h
        subst h
        have hfid := hflow id hh
        have hcpk : c ∈ parkKeys flow (H ++ L.evs) := hpk c (by rw [hh]; simp)
        have hnd := parkKeys_nodup flow (H ++ L.evs)
        rw [settle_take_park N _ (lst cfg flow size a1 H { L with evs := L.evs ++ [.park id t] } t (.visit (m + 1))) c
          { (lst cfg flow size a1 H L t (.inner m)).ctl with pc := .gotPkt m }
          { (lst cfg flow size a1 H L t (.inner m)).ctl with pc := .visit (m + 1) } (pktOf flow size id)
          (by rw [micro_inner ht hw hpk, if_pos hcond, hh])
          (by rw [parked_lst hpk, hh]; rfl)
          (by
            simp only [DRR.onPkt, lst, mst, ctlOf, finA, lookup_flows ht _ hcF, pktOf, classOf_id ht, hfid, if_true]
            rw [if_neg hle])
          (by
            have hg : (fun c => Option.map (pktOf flow size) (a1.hol c)) c = some (pktOf flow size id) := by simp [hh]
            simp only [park, lst, mst, finA, holAfter]
            rw [setKey_dictOf _ hnd, addKey_of_mem _ _ hcpk, lookupD_dictOf _ _ _ (fun hc => absurd hcpk hc), upd_same]
            simp only
            congr 2
            · simp only [ctlOf, ← List.append_assoc, visitsOf_snoc, sentOf_snoc, forfKeys_snoc]
            · rw [setKey_dictOf _ hnd, addKey_of_mem _ _ hcpk, upd_upd_self _ _ _ _ hg, ← List.append_assoc, parkKeys_snoc]
              simp only [hfid, addKey_of_mem _ _ hcpk])]
  · rw [if_neg hcond] at h
    simp only [Prod.mk.injEq, and_true] at h
    subst h
    rw [settle_goto N _ { (lst cfg flow size a1 H L t (.inner m)).ctl with pc := .visit (m + 1) }
      (by rw [micro_inner ht hw hpk, if_neg hcond])]
    rfl

theorem mem_parkKeys_snoc (flow : Int → Nat) (h : List (HEv ℚ)) (ev : HEv ℚ) {c : Nat} (hc : c ∈ parkKeys flow h) :
    c ∈ parkKeys flow (h ++ [ev]) := by
  rw [parkKeys_snoc]
  cases ev <;> first | exact hc | exact (mem_addKey _ _ _).mpr (Or.inl hc)

theorem mem_parkKeys_append (flow : Int → Nat) (h : List (HEv ℚ)) : ∀ (l : List (HEv ℚ)) {c : Nat}, c ∈ parkKeys flow h →
    c ∈ parkKeys flow (h ++ l)
  | [], c, hc => by simpa using hc
  | ev :: r, c, hc => by
    have := mem_parkKeys_append flow (h ++ [ev]) r (mem_parkKeys_snoc flow h ev hc)
    simpa using this

/-- how the LTS loop ends when the loops of the configuration end with `e`, the credits being those of `L` -/
def endM (cfg : DRR.Cfg ℚ) (flow size : Int → Nat) (a1 : A) (H : List (HEv ℚ)) (L : LS) (t : ℚ) :
    LoopEnd → Except String (MQState ℚ (DRR.Ctl ℚ))
  | .get m c => issueGet (lst cfg flow size a1 H L t (.gotPkt m)) c
  | .send m c id _ => .ok (spawn { lst cfg flow size a1 H L t (.sent m) with
      hol := setKey (lst cfg flow size a1 H L t (.sent m)).hol c none } (pktOf flow size id) true)
  | .idle => .ok (blockOnToken (lst cfg flow size a1 H L t .top))
  | .hang => .error "hang"

theorem evs_visitAdd (Q : Nat → ℚ) (ccnt : Nat → Int) (t : ℚ) (c : Nat) (L : LS) : ∃ l, (visitAdd Q ccnt t c L).evs = L.evs ++ l := by
  unfold visitAdd
  split
  · exact ⟨_, rfl⟩
  · exact ⟨[], by simp⟩

theorem evs_innerAt (ccnt : Nat → Int) (hol : Nat → Option Int) (t : ℚ) (m c : Nat) (L : LS) :
    ∃ l, (innerAt size ccnt hol t m c L).1.evs = L.evs ++ l := by
  unfold innerAt
  split
  · split
    · split
      · exact ⟨[], by simp⟩
      · exact ⟨_, rfl⟩
    · exact ⟨[], by simp⟩
  · exact ⟨[], by simp⟩

/-- the `for` loop of the LTS from entry `m` -/
theorem lts_visitFrom (ht : FlowsOK F cfg) {a1 : A} {H : List (HEv ℚ)} {t : ℚ} (hpk : ∀ c', a1.hol c' ≠ none → c' ∈ parkKeys flow H)
    (hflow : ∀ c, c < F → ∀ id, a1.hol c = some id → flow id = c) (N : Nat) :
    ∀ (ws' : List (Nat × Nat)) (m : Nat) (L : LS), cfg.weights.drop m = ws' →
      settle (DRR.sched cfg) (2 * ws'.length + 1 + N) (lst cfg flow size a1 H L t (.visit m)) =
        match visitFrom (qOf cfg) size a1.ccnt a1.hol t m ws' L with
        | (L', some e) => endM cfg flow size a1 H L' t e
        | (L', none) => settle (DRR.sched cfg) N (lst cfg flow size a1 H L' t .top)
  | [], m, L, hd => by
    have hnone : cfg.weights[m]? = none := by
      rw [List.getElem?_eq_none_iff]
      exact List.drop_eq_nil_iff.mp hd
    have hcc : (dictOf cfg.flows a1.ccnt)[m]? = none := by
      rw [getElem?_dictOf]; simp [DRR.Cfg.flows, hnone]
    simp only [List.length_nil, Nat.mul_zero, Nat.zero_add, visitFrom]
    rw [show 1 + N = N + 1 by omega, settle_goto N _ { (lst cfg flow size a1 H L t (.visit m)).ctl with pc := .top }
      (by simp only [DRR.micro, lst, mst, ctlOf, finA, hcc])]
    rfl
  | (c, w) :: rest, m, L, hd => by
    have hw : cfg.weights[m]? = some (c, w) := by
      have := congrArg List.head? hd
      simpa [List.head?_drop] using this
    have hd' : cfg.weights.drop (m + 1) = rest := by
      have := congrArg List.tail hd
      simpa [List.tail_drop] using this
    obtain ⟨l1, hl1⟩ := evs_visitAdd (qOf cfg) a1.ccnt t c L
    have hpk1 : ∀ c', a1.hol c' ≠ none → c' ∈ parkKeys flow (H ++ (visitAdd (qOf cfg) a1.ccnt t c L).evs) :=
      fun c' h => mem_parkKeys_append flow H _ (hpk c' h)
    rw [show 2 * ((c, w) :: rest).length + 1 + N = (2 * rest.length + 1 + N + 1) + 1 by simp only [List.length_cons]; omega,
      lts_visit ht hw, visitFrom]
    cases hr : innerAt size a1.ccnt a1.hol t m c (visitAdd (qOf cfg) a1.ccnt t c L) with
    | mk L' oe =>
      cases oe with
      | none =>
        rw [lts_inner_none ht hw hpk1 (hflow c (entry_lt ht (List.mem_of_getElem? hw))) hr]
        exact lts_visitFrom ht hpk hflow N rest (m + 1) L' hd'
      | some e =>
        cases e with
        | get m' c' =>
          obtain ⟨rfl, rfl, rfl, h4⟩ := lts_inner_get ht hw hpk1 hr (2 * rest.length + 1 + N)
          rw [h4]; rfl
        | send m' c' id pk =>
          obtain ⟨rfl, rfl, rfl, rfl, -, h4⟩ := lts_inner_send ht hw hpk1 (hflow c (entry_lt ht (List.mem_of_getElem? hw))) hr (2 * rest.length + 1 + N)
          rw [h4]; rfl
        | idle => exact absurd hr (by unfold innerAt; split <;> (try split) <;> (try split) <;> simp)
        | hang => exact absurd hr (by unfold innerAt; split <;> (try split) <;> (try split) <;> simp)

section
variable {Q : Nat → ℚ} {ccnt : Nat → Int} {hol : Nat → Option Int} {t : ℚ} {total : Int} {ws : List (Nat × Nat)}

/-- more passes allowed change nothing once the burst ends -/
theorem passes_succ : ∀ (k : Nat) (L : LS), (passes Q size ccnt hol t total ws k L).2 ≠ .hang →
    passes Q size ccnt hol t total ws (k + 1) L = passes Q size ccnt hol t total ws k L
  | 0, L, h => absurd rfl h
  | k + 1, L, h => by
    rw [passes] at h
    rw [passes]
    conv_rhs => rw [passes]
    by_cases hpos : 0 < total
    · rw [if_pos hpos] at h ⊢
      rw [if_pos hpos]
      cases hr : visitFrom Q size ccnt hol t 0 ws L with
      | mk L' oe =>
        rw [hr] at h
        cases oe with
        | some e => rfl
        | none => exact passes_succ k L' h
    · rw [if_neg hpos]
      rw [if_neg hpos]

theorem passes_add (k : Nat) (L : LS) (h : (passes Q size ccnt hol t total ws k L).2 ≠ .hang) :
    ∀ j, passes Q size ccnt hol t total ws (k + j) L = passes Q size ccnt hol t total ws k L
  | 0 => rfl
  | j + 1 => by
    have ih := passes_add k L h j
    rw [show k + (j + 1) = (k + j) + 1 by omega, passes_succ (k + j) L (by rw [ih]; exact h), ih]

/-- two pass budgets that both end the burst end it alike -/
theorem passes_agree {k k' : Nat} (L : LS) (h : (passes Q size ccnt hol t total ws k L).2 ≠ .hang)
    (h' : (passes Q size ccnt hol t total ws k' L).2 ≠ .hang) :
    passes Q size ccnt hol t total ws k L = passes Q size ccnt hol t total ws k' L := by
  rcases Nat.le_total k k' with hle | hle
  · obtain ⟨j, rfl⟩ := Nat.exists_eq_add_of_le hle
    exact (passes_add k L h j).symm
  · obtain ⟨j, rfl⟩ := Nat.exists_eq_add_of_le hle
    exact passes_add k' L h' j

end

/-- `while self.total_packets > 0` of the LTS with `k` passes -/
theorem lts_passes (ht : FlowsOK F cfg) {a1 : A} {H : List (HEv ℚ)} {t : ℚ} (hpk : ∀ c', a1.hol c' ≠ none → c' ∈ parkKeys flow H)
    (hflow : ∀ c, c < F → ∀ id, a1.hol c = some id → flow id = c) (N : Nat) :
    ∀ (k : Nat) (L : LS), (passes (qOf cfg) size a1.ccnt a1.hol t (a1.total F) cfg.weights k L).2 ≠ .hang →
      settle (DRR.sched cfg) ((2 * cfg.weights.length + 2) * k + 1 + N) (lst cfg flow size a1 H L t .top) =
        endM cfg flow size a1 H (passes (qOf cfg) size a1.ccnt a1.hol t (a1.total F) cfg.weights k L).1 t
          (passes (qOf cfg) size a1.ccnt a1.hol t (a1.total F) cfg.weights k L).2
  | 0, L, h => absurd rfl h
  | k + 1, L, h => by
    have htot : (view (lst cfg flow size a1 H L t .top)).total = a1.total F := by
      simp only [view, lst, mst, finA]
      exact total_flows ht a1.cnt
    rw [passes] at h ⊢
    by_cases hpos : 0 < a1.total F
    · rw [if_pos hpos] at h ⊢
      rw [show (2 * cfg.weights.length + 2) * (k + 1) + 1 + N =
          (2 * cfg.weights.length + 1 + ((2 * cfg.weights.length + 2) * k + 1 + N)) + 1 by ring,
        settle_goto _ _ { (lst cfg flow size a1 H L t .top).ctl with pc := .visit 0 }
          (by
            have : (lst cfg flow size a1 H L t .top).ctl.pc = .top := rfl
            simp only [DRR.micro, this, htot, hpos, if_true])]
      have hv := lts_visitFrom (size := size) (t := t) ht hpk hflow ((2 * cfg.weights.length + 2) * k + 1 + N) cfg.weights 0 L (by simp)
      rw [show ({ lst cfg flow size a1 H L t .top with ctl := { (lst cfg flow size a1 H L t .top).ctl with pc := .visit 0 } } :
        MQState ℚ (DRR.Ctl ℚ)) = lst cfg flow size a1 H L t (.visit 0) from rfl, hv]
      cases hr : visitFrom (qOf cfg) size a1.ccnt a1.hol t 0 cfg.weights L with
      | mk L' oe =>
        rw [hr] at h
        cases oe with
        | some e => rfl
        | none => exact lts_passes ht hpk hflow N k L' h
    · rw [if_neg hpos] at h ⊢
      by_cases hz : a1.total F = 0
      · rw [if_pos hz]
        rw [show (2 * cfg.weights.length + 2) * (k + 1) + 1 + N = ((2 * cfg.weights.length + 2) * (k + 1) + N) + 1 by ring,
          settle_block _ _ { (lst cfg flow size a1 H L t .top).ctl with pc := .top }
            (by
              have : (lst cfg flow size a1 H L t .top).ctl.pc = .top := rfl
              simp only [DRR.micro, this, htot, hz, lt_irrefl, if_false, if_true])]
        rfl
      · rw [if_neg hz] at h
        exact absurd rfl h

/-! ## the fuel of the LTS loop suffices -/

theorem maxSize_ge : ∀ (l : List (Nat × Option MPkt)) (c : Nat) (p : MPkt), (c, some p) ∈ l → p.size ≤ DRR.maxSize l
  | [], _, _, h => by cases h
  | (c0, some p0) :: r, c, p, h => by
    simp only [DRR.maxSize]
    rcases List.mem_cons.mp h with h | h
    · cases h; split <;> omega
    · have := maxSize_ge r c p h
      split <;> omega
  | (c0, none) :: r, c, p, h => by
    simp only [DRR.maxSize]
    rcases List.mem_cons.mp h with h | h
    · cases h
    · exact maxSize_ge r c p h

theorem maxSize_dictOf (keys : List Nat) (g : Nat → Option MPkt) {c : Nat} {p : MPkt} (hc : c ∈ keys) (hg : g c = some p) :
    p.size ≤ DRR.maxSize (dictOf keys g) :=
  maxSize_ge _ c p (by simp only [dictOf, List.mem_map]; exact ⟨c, hc, by rw [hg]⟩)

variable {now : ℚ}

/-- the passes the LTS budgets for (from the parked packets it sees) end the burst -/
theorem passes_k0 {a1 : A} {H : List (HEv ℚ)} {t : ℚ} (hm : MidInv F flow size cfg Lmax P a1 now)
    (hpk : ∀ c', a1.hol c' ≠ none → c' ∈ parkKeys flow H) (L : LS) (hmono : ∀ f, a1.dfc f ≤ L.dfc f) :
    (passes (qOf cfg) size a1.ccnt a1.hol t (a1.total F) cfg.weights
      (DRR.maxSize (dictOf (parkKeys flow H) fun c => (a1.hol c).map (pktOf flow size)) / 1500 + 2) L).2 ≠ .hang := by
  refine passes_no_hang (size := size) (qOf_ge hm.table) (flows_nodup hm.table) (mid_total_nonneg hm) _ L
    (fun c hc => le_trans (hm.dfcOK c ((mem_flows hm.table c).mp hc)) (hmono c)) ?_
  intro hpos
  obtain ⟨j, -, hj, hcp⟩ := sumFrom_pos _ _ _ hpos
  have hjF : j < F := by omega
  refine ⟨j, (mem_flows hm.table j).mpr hjF, by rw [hm.ccntOK j hjF]; exact hcp, ?_⟩
  intro id hid
  have h1 : (pktOf flow size id).size ≤ DRR.maxSize (dictOf (parkKeys flow H) fun c => (a1.hol c).map (pktOf flow size)) :=
    maxSize_dictOf _ _ (hpk j (by rw [hid]; simp)) (by simp [hid])
  have h2 : (0 : ℚ) ≤ L.dfc j := le_trans (hm.dfcOK j hjF) (hmono j)
  have h3 := Nat.lt_mul_div_succ (DRR.maxSize (dictOf (parkKeys flow H) fun c => (a1.hol c).map (pktOf flow size))) (by norm_num : 0 < 1500)
  have h4 : size id < 1500 * (DRR.maxSize (dictOf (parkKeys flow H) fun c => (a1.hol c).map (pktOf flow size)) / 1500 + 1) :=
    lt_of_le_of_lt h1 h3
  have h5 : ((size id : ℕ) : ℚ) ≤ ((1500 * (DRR.maxSize (dictOf (parkKeys flow H) fun c => (a1.hol c).map (pktOf flow size)) / 1500 + 1) : ℕ) : ℚ) := by
    exact_mod_cast le_of_lt h4
  rw [Num.ofNat_rat]
  push_cast at h5 ⊢
  linarith

/-- **the rest of a burst of the LTS**: after a piece of the `for` loop that takes `X ≤ 2·n + 1` moves, the budget the LTS
computes from its parked packets is enough to reach what `thenPasses` computes -/
theorem lts_rest (ht : FlowsOK F cfg) {a1 : A} {H : List (HEv ℚ)} {t : ℚ} (hm : MidInv F flow size cfg Lmax P a1 now)
    (hpk : ∀ c', a1.hol c' ≠ none → c' ∈ parkKeys flow H) (hflow : ∀ c, c < F → ∀ id, a1.hol c = some id → flow id = c)
    (piece : LS × Option LoopEnd) (hmono : ∀ f, a1.dfc f ≤ piece.1.dfc f) (X : Nat) (hX : X ≤ 2 * cfg.weights.length + 1)
    (S : MQState ℚ (DRR.Ctl ℚ))
    (hsim : ∀ N, settle (DRR.sched cfg) (X + N) S =
      match piece.2 with
      | some e => endM cfg flow size a1 H piece.1 t e
      | none => settle (DRR.sched cfg) N (lst cfg flow size a1 H piece.1 t .top))
    (hne : (thenPasses (qOf cfg) size a1.ccnt a1.hol t (a1.total F) cfg.weights P piece).2 ≠ .hang) :
    settle (DRR.sched cfg)
        ((2 * cfg.weights.length + 3) * (DRR.maxSize (dictOf (parkKeys flow H) fun c => (a1.hol c).map (pktOf flow size)) / 1500 + 3)) S =
      endM cfg flow size a1 H (thenPasses (qOf cfg) size a1.ccnt a1.hol t (a1.total F) cfg.weights P piece).1 t
        (thenPasses (qOf cfg) size a1.ccnt a1.hol t (a1.total F) cfg.weights P piece).2 := by
  generalize hM : DRR.maxSize (dictOf (parkKeys flow H) fun c => (a1.hol c).map (pktOf flow size)) / 1500 = M
  have hfuel : (2 * cfg.weights.length + 3) * (M + 3) =
      (2 * cfg.weights.length + 2) * (M + 2) + (2 * cfg.weights.length + 2) + (M + 2) + 1 := by ring
  obtain ⟨L', oe⟩ := piece
  cases oe with
  | some e =>
    obtain ⟨N, hN⟩ : ∃ N, (2 * cfg.weights.length + 3) * (M + 3) = X + N := ⟨(2 * cfg.weights.length + 3) * (M + 3) - X, by omega⟩
    rw [hN, hsim N]
    rfl
  | none =>
    simp only [thenPasses] at hne ⊢
    have hk0 := passes_k0 (t := t) hm hpk L' hmono
    rw [hM] at hk0
    obtain ⟨N, hN⟩ : ∃ N, (2 * cfg.weights.length + 3) * (M + 3) = X + ((2 * cfg.weights.length + 2) * (M + 2) + 1 + N) :=
      ⟨(2 * cfg.weights.length + 3) * (M + 3) - X - ((2 * cfg.weights.length + 2) * (M + 2) + 1), by omega⟩
    rw [hN, hsim _]
    simp only
    rw [lts_passes ht hpk hflow N (M + 2) L' hk0, passes_agree L' hk0 hne]

/-! ## how a burst of the LTS ends -/

theorem upd_map {β γ : Type} (items : Nat → β) (f : Nat) (v : β) (g : β → γ) :
    upd (fun f' => g (items f')) f (g v) = fun f' => g (upd items f v f') := by
  funext f'
  by_cases h : f' = f
  · subst h; simp
  · simp [upd_ne _ _ _ _ h]

theorem storeOf_dictOf (keys : List Nat) (g : Nat → List MPkt) (f : Nat) (h : f ∉ keys → g f = []) :
    storeOf (dictOf keys g) f = g f := by
  simp only [storeOf, lookupD, lookup_dictOf]
  by_cases hk : f ∈ keys
  · simp [hk]
  · simp [hk, h hk]

variable {n e : Nat}

/-- the loop takes the head of `stores[c']` -/
theorem endM_get {a1 : A} {H : List (HEv ℚ)} {L : LS} {t : ℚ} {m' c' : Nat} {id' : Int} {is : List Int}
    (hn : a1.keys.Nodup) (hk : c' ∈ a1.keys) (hit : a1.items c' = id' :: is) (hfl : flow id' = c') (q' : QEntry ℚ) (g : EvId) :
    endM cfg flow size a1 H L t (.get m' c') =
      .ok (toM cfg.flows flow size
        { (finA a1 L (some (.get m' c'))) with run := .H g m' id' q', items := upd a1.items c' is } (H ++ L.evs) t) := by
  have hs : storeOf (lst cfg flow size a1 H L t (.gotPkt m')).stores c' = pktOf flow size id' :: is.map (pktOf flow size) := by
    simp only [lst, mst, finA]
    rw [storeOf_dictOf _ _ _ (fun h => absurd hk h), hit]; rfl
  simp only [endM, issueGet, hs]
  congr 1
  simp only [lst, toM, mst, ctlOf, finA, holAfter, pcOf, phaseOf, hfl, setKey_dictOf _ hn, addKey_of_mem _ _ hk]
  congr 1
  rw [← upd_map]

/-- the loop sends the parked head of class `c'` -/
theorem endM_send {a1 : A} {H : List (HEv ℚ)} {L : LS} {t : ℚ} {m' c' : Nat} {id' : Int} {pk : Bool}
    (hpk : c' ∈ parkKeys flow (H ++ L.evs)) (q' : QEntry ℚ) (p : EvId) :
    endM cfg flow size a1 H L t (.send m' c' id' pk) =
      .ok (toM cfg.flows flow size
        { (finA a1 L (some (.send m' c' id' true))) with run := .S p m' id' q', cur := some id' } (H ++ L.evs ++ [.serve id' t]) t) := by
  have hnd := parkKeys_nodup flow (H ++ L.evs)
  simp only [endM, spawn, lst, toM, mst, ctlOf, finA, holAfter, pcOf, phaseOf, if_true, visitsOf_snoc, sentOf_snoc, forfKeys_snoc,
    parkKeys_snoc, setKey_dictOf _ hnd, addKey_of_mem _ _ hpk, Option.map_some]
  congr 2
  refine congrArg (dictOf _) (funext fun c => ?_)
  by_cases hc : c = c'
  · subst hc; simp
  · simp [upd_ne _ _ _ _ hc]

/-- the loop blocks on the wake-up store -/
theorem endM_idle_zero {a1 : A} {H : List (HEv ℚ)} {L : LS} {t : ℚ} (htk : a1.tokens = 0) (g : EvId) :
    endM cfg flow size a1 H L t .idle =
      .ok (toM cfg.flows flow size { (finA a1 L (some .idle)) with run := .W g } (H ++ L.evs ++ [.idle t]) t) := by
  simp only [endM, blockOnToken, lst, toM, mst, ctlOf, finA, holAfter, pcOf, phaseOf, htk, visitsOf_snoc, sentOf_snoc, forfKeys_snoc,
    parkKeys_snoc]

/-- the loop takes a token that is there -/
theorem endM_idle_succ {a1 : A} {H : List (HEv ℚ)} {L : LS} {t : ℚ} {k : Nat} (htk : a1.tokens = k + 1) (g : EvId) (q' : QEntry ℚ) :
    endM cfg flow size a1 H L t .idle =
      .ok (toM cfg.flows flow size { (finA a1 L (some .idle)) with run := .K g q', tokens := k } (H ++ L.evs ++ [.idle t]) t) := by
  simp only [endM, blockOnToken, lst, toM, mst, ctlOf, finA, holAfter, pcOf, phaseOf, htk, visitsOf_snoc, sentOf_snoc, forfKeys_snoc,
    parkKeys_snoc]

/-! ## what the loops let observe: visits and parkings -/

/-- an observation of the loops -/
def LoopEv (ev : HEv ℚ) : Prop := (∃ c t, ev = .visit c t) ∨ (∃ id t, ev = .park id t)

section
variable {Q : Nat → ℚ} {ccnt : Nat → Int} {hol : Nat → Option Int} {t : ℚ} {total : Int} {ws : List (Nat × Nat)}

theorem loopEv_visitAdd (c : Nat) (L : LS) (h : ∀ ev ∈ L.evs, LoopEv ev) : ∀ ev ∈ (visitAdd Q ccnt t c L).evs, LoopEv ev := by
  unfold visitAdd
  split
  · intro ev hev
    rcases List.mem_append.mp hev with h1 | h1
    · exact h ev h1
    · simp only [List.mem_singleton] at h1; exact Or.inl ⟨c, t, h1⟩
  · exact h

theorem loopEv_innerAt (m c : Nat) (L : LS) (h : ∀ ev ∈ L.evs, LoopEv ev) :
    ∀ ev ∈ (innerAt size ccnt hol t m c L).1.evs, LoopEv ev := by
  unfold innerAt
  split
  · split
    · split
      · exact h
      · intro ev hev
        rcases List.mem_append.mp hev with h1 | h1
        · exact h ev h1
        · simp only [List.mem_singleton] at h1; exact Or.inr ⟨_, t, h1⟩
    · exact h
  · exact h

theorem loopEv_visitFrom : ∀ (ws' : List (Nat × Nat)) (m : Nat) (L : LS), (∀ ev ∈ L.evs, LoopEv ev) →
    ∀ ev ∈ (visitFrom Q size ccnt hol t m ws' L).1.evs, LoopEv ev
  | [], _, L, h => h
  | (c, w) :: rest, m, L, h => by
    rw [visitFrom]
    have h1 := loopEv_innerAt (size := size) (ccnt := ccnt) (hol := hol) (t := t) m c _ (loopEv_visitAdd (Q := Q) (ccnt := ccnt) (t := t) c L h)
    cases hr : innerAt size ccnt hol t m c (visitAdd Q ccnt t c L) with
    | mk L' oe =>
      rw [hr] at h1
      cases oe with
      | some e => exact h1
      | none => exact loopEv_visitFrom rest (m + 1) L' h1

theorem loopEv_passes : ∀ (k : Nat) (L : LS), (∀ ev ∈ L.evs, LoopEv ev) →
    ∀ ev ∈ (passes Q size ccnt hol t total ws k L).1.evs, LoopEv ev
  | 0, L, h => h
  | k + 1, L, h => by
    rw [passes]
    split
    · have h1 := loopEv_visitFrom (Q := Q) (size := size) (ccnt := ccnt) (hol := hol) (t := t) ws 0 L h
      cases hr : visitFrom Q size ccnt hol t 0 ws L with
      | mk L' oe =>
        rw [hr] at h1
        cases oe with
        | some e => exact h1
        | none => exact loopEv_passes k L' h1
    · split <;> exact h

theorem loopEv_thenPasses (P : Nat) (piece : LS × Option LoopEnd) (h : ∀ ev ∈ piece.1.evs, LoopEv ev) :
    ∀ ev ∈ (thenPasses Q size ccnt hol t total ws P piece).1.evs, LoopEv ev := by
  obtain ⟨L', oe⟩ := piece
  cases oe with
  | some e => exact h
  | none => exact loopEv_passes P L' h

end

/-- the history events of a step as LTS inputs / outputs -/
def putPk (flow size : Int → Nat) : List (HEv ℚ) → List MPkt
  | [] => []
  | .put id _ :: r => pktOf flow size id :: putPk flow size r
  | _ :: r => putPk flow size r

def outPk (flow size : Int → Nat) : List (HEv ℚ) → List MPkt
  | [] => []
  | .out id _ :: r => pktOf flow size id :: outPk flow size r
  | _ :: r => outPk flow size r

theorem putPk_append (l1 l2 : List (HEv ℚ)) : putPk flow size (l1 ++ l2) = putPk flow size l1 ++ putPk flow size l2 := by
  induction l1 with
  | nil => rfl
  | cons x r ih => cases x <;> simp [putPk, ih]

theorem outPk_append (l1 l2 : List (HEv ℚ)) : outPk flow size (l1 ++ l2) = outPk flow size l1 ++ outPk flow size l2 := by
  induction l1 with
  | nil => rfl
  | cons x r ih => cases x <;> simp [outPk, ih]

/-- a list of observations without `put` and `out` -/
def NoIO (l : List (HEv ℚ)) : Prop := ∀ ev ∈ l, (∀ id t, ev ≠ .put id t) ∧ (∀ id t, ev ≠ .out id t)

theorem NoIO.quiet {l : List (HEv ℚ)} (h : NoIO l) : putPk flow size l = [] ∧ outPk flow size l = [] ∧ putIds l = [] := by
  induction l with
  | nil => exact ⟨rfl, rfl, rfl⟩
  | cons x r ih =>
    have ih' := ih (fun ev hev => h ev (List.mem_cons_of_mem _ hev))
    have hx := h x List.mem_cons_self
    cases x with
    | put id t => exact absurd rfl (hx.1 id t)
    | out id t => exact absurd rfl (hx.2 id t)
    | serve id t => exact ih'
    | idle t => exact ih'
    | visit c t => exact ih'
    | park id t => exact ih'
    | done id t => exact ih'
    | reset c t => exact ih'

theorem NoIO.append {l1 l2 : List (HEv ℚ)} (h1 : NoIO l1) (h2 : NoIO l2) : NoIO (l1 ++ l2) := by
  intro ev hev
  rcases List.mem_append.mp hev with h | h
  · exact h1 ev h
  · exact h2 ev h

theorem noIO_of_loopEv {l : List (HEv ℚ)} (h : ∀ ev ∈ l, LoopEv ev) : NoIO l := by
  intro ev hev
  rcases h ev hev with ⟨c, t, rfl⟩ | ⟨id, t, rfl⟩ <;> exact ⟨fun _ _ h => (nomatch h), fun _ _ h => (nomatch h)⟩

theorem noIO_bookEvs (a : A) (c : Nat) (id : Int) (t : ℚ) : NoIO (bookEvs a c id t) := by
  unfold bookEvs
  split
  · intro ev hev
    simp only [List.mem_cons, List.not_mem_nil, or_false] at hev
    rcases hev with rfl | rfl <;> exact ⟨fun _ _ h => (nomatch h), fun _ _ h => (nomatch h)⟩
  · intro ev hev
    simp only [List.mem_singleton] at hev
    subst hev
    exact ⟨fun _ _ h => (nomatch h), fun _ _ h => (nomatch h)⟩

/-! ## what the LTS side needs of a configuration besides `AInv`: what the observations say -/

structure LInv (flow : Int → Nat) (a : A) (hist : List (HEv ℚ)) : Prop where
  keys : a.keys = keysOf flow (putIds hist)
  recv : a.recv = ((putIds hist).length : Nat)
  /-- a parked head has been seen parked -/
  park : ∀ c, a.hol c ≠ none → c ∈ parkKeys flow hist
  /-- a class that was never reset has forgotten no credit -/
  forf : ∀ c, c ∉ forfKeys hist → a.forf c = 0

theorem keysOf_append (ids : List Int) (id : Int) : keysOf flow (ids ++ [id]) = addKey (keysOf flow ids) (flow id) := by
  simp [keysOf, List.foldl_append]

theorem keysOf_nodup (ids : List Int) : (keysOf flow ids).Nodup := by
  have : ∀ (ids : List Int) (acc : List Nat), acc.Nodup → (ids.foldl (fun l id => addKey l (flow id)) acc).Nodup := by
    intro ids
    induction ids with
    | nil => intro acc h; exact h
    | cons x r ih => intro acc h; exact ih _ (addKey_nodup _ _ h)
  exact this ids [] List.nodup_nil

theorem LInv.nodup {a : A} {hist : List (HEv ℚ)} (h : LInv flow a hist) : a.keys.Nodup := by
  rw [h.keys]; exact keysOf_nodup _

theorem LInv.recv_nonneg {a : A} {hist : List (HEv ℚ)} (h : LInv flow a hist) : 0 ≤ a.recv := by
  rw [h.recv]; exact Int.natCast_nonneg _

theorem LInv.congr {a a' : A} {hist : List (HEv ℚ)} (h : LInv flow a hist) (hk : a'.keys = a.keys) (hr : a'.recv = a.recv)
    (hh : a'.hol = a.hol) (hf : a'.forf = a.forf) : LInv flow a' hist :=
  ⟨hk ▸ h.keys, hr ▸ h.recv, hh ▸ h.park, hf ▸ h.forf⟩

theorem lst_nil (a : A) (H : List (HEv ℚ)) (t : ℚ) (pc : DRR.Pc) :
    lst cfg flow size a H ⟨a.dfc, []⟩ t pc = mst cfg.flows flow size a H t pc .running := by
  simp only [lst, List.append_nil]
  rfl

theorem sched_fuel (hol : List (Nat × Option MPkt)) :
    (DRR.sched cfg).fuel hol = (2 * cfg.weights.length + 3) * (DRR.maxSize hol / 1500 + 3) := rfl

theorem hflow_of_mid {a1 : A} (hm : MidInv F flow size cfg Lmax P a1 now) : ∀ c, c < F → ∀ id, a1.hol c = some id → flow id = c :=
  fun c hc id h => (hm.holOK c hc id h).1

/-- **a burst of the LTS that starts at the top of the loops** (`init`, `wake`) -/
theorem lts_burst_top {a : A} {hist : List (HEv ℚ)} {t : ℚ} (hm : MidInv F flow size cfg Lmax P a t) (hl : LInv flow a hist)
    (hpc : pcOf a.run = .top)
    (hne : (passes (qOf cfg) size a.ccnt a.hol t (a.total F) cfg.weights P ⟨a.dfc, []⟩).2 ≠ .hang) :
    resumeLoop (DRR.sched cfg) (toM cfg.flows flow size a hist t) =
      endM cfg flow size a hist (passes (qOf cfg) size a.ccnt a.hol t (a.total F) cfg.weights P ⟨a.dfc, []⟩).1 t
        (passes (qOf cfg) size a.ccnt a.hol t (a.total F) cfg.weights P ⟨a.dfc, []⟩).2 := by
  have h := lts_rest (t := t) hm.table hm (H := hist) hl.park (hflow_of_mid hm) (⟨a.dfc, []⟩, none) (fun f => le_refl _) 0
    (Nat.zero_le _) (lst cfg flow size a hist ⟨a.dfc, []⟩ t .top) (fun N => by simp) hne
  simp only [resumeLoop, sched_fuel]
  rw [show ({ toM cfg.flows flow size a hist t with phase := Phase.running } : MQState ℚ (DRR.Ctl ℚ)) =
    lst cfg flow size a hist ⟨a.dfc, []⟩ t .top by rw [lst_nil]; simp only [toM, mst, hpc]]
  exact h

theorem snoc2 {β : Type} (l : List β) (x y : β) : l ++ [x, y] = (l ++ [x]) ++ [y] := by simp

/-- **a burst of the LTS that starts with a packet the credit does not cover** (`pktResume`): the packet is parked, the `for`
loop goes on -/
theorem lts_burst_got {a : A} {hist : List (HEv ℚ)} {t : ℚ} {g : EvId} {m : Nat} {id : Int} {q : QEntry ℚ} {w : Nat}
    {rest : List (Nat × Nat)} (hi : AInv flow F size cfg Lmax P a t) (hl : LInv flow a hist) (h : a.run = .H g m id q)
    (hd : cfg.weights.drop m = (flow id, w) :: rest) (hle : ¬ (Num.ofNat (size id) : ℚ) ≤ a.dfc (flow id))
    (hm : MidInv F flow size cfg Lmax P { a with hol := upd a.hol (flow id) (some id) } t)
    (hne : (thenPasses (qOf cfg) size a.ccnt (upd a.hol (flow id) (some id)) t
      (A.total F { a with hol := upd a.hol (flow id) (some id) }) cfg.weights P
      (visitFrom (qOf cfg) size a.ccnt (upd a.hol (flow id) (some id)) t (m + 1) rest ⟨a.dfc, []⟩)).2 ≠ .hang) :
    MQ.step (DRR.sched cfg) (toM cfg.flows flow size a hist t) .pktResume =
      withOut .nothing (endM cfg flow size { a with hol := upd a.hol (flow id) (some id) } (hist ++ [.park id t])
        (thenPasses (qOf cfg) size a.ccnt (upd a.hol (flow id) (some id)) t
          (A.total F { a with hol := upd a.hol (flow id) (some id) }) cfg.weights P
          (visitFrom (qOf cfg) size a.ccnt (upd a.hol (flow id) (some id)) t (m + 1) rest ⟨a.dfc, []⟩)).1 t
        (thenPasses (qOf cfg) size a.ccnt (upd a.hol (flow id) (some id)) t
          (A.total F { a with hol := upd a.hol (flow id) (some id) }) cfg.weights P
          (visitFrom (qOf cfg) size a.ccnt (upd a.hol (flow id) (some id)) t (m + 1) rest ⟨a.dfc, []⟩)).2) := by
  have ht := hi.table
  have hrun := hi.run
  rw [h] at hrun
  obtain ⟨-, -, -, hpk, -, hhol, -⟩ := hrun
  have hcF : flow id < F := hpk.1
  have hnd := parkKeys_nodup flow hist
  have hpk1 : ∀ c', upd a.hol (flow id) (some id) c' ≠ none → c' ∈ parkKeys flow (hist ++ [.park id t]) := by
    intro c' hc'
    rw [parkKeys_snoc]
    by_cases hcc : c' = flow id
    · subst hcc; exact (mem_addKey _ _ _).mpr (Or.inr rfl)
    · rw [upd_ne _ _ _ _ hcc] at hc'
      exact (mem_addKey _ _ _).mpr (Or.inl (hl.park c' hc'))
  have hd' : cfg.weights.drop (m + 1) = rest := by
    have := congrArg List.tail hd
    simpa [List.tail_drop] using this
  have hlen : rest.length + 1 ≤ cfg.weights.length := by
    have := congrArg List.length hd
    simp only [List.length_drop, List.length_cons] at this
    omega
  have hQ0 : ∀ c, 0 ≤ qOf cfg c := fun c => by linarith [qOf_ge ht c]
  have hv := visitFrom_ok (Q := qOf cfg) (size := size) (ccnt := a.ccnt) (hol := upd a.hol (flow id) (some id)) (t := t)
    (total := A.total F { a with hol := upd a.hol (flow id) (some id) }) (ws := cfg.weights) hQ0 rest (m + 1) ⟨a.dfc, []⟩ hd'
  have hrest := lts_rest (t := t) ht hm (H := hist ++ [.park id t]) hpk1 (hflow_of_mid hm)
    (visitFrom (qOf cfg) size a.ccnt (upd a.hol (flow id) (some id)) t (m + 1) rest ⟨a.dfc, []⟩) hv.2 (2 * rest.length + 1) (by omega)
    (lst cfg flow size { a with hol := upd a.hol (flow id) (some id) } (hist ++ [.park id t]) ⟨a.dfc, []⟩ t (.visit (m + 1)))
    (fun N => by
      have := lts_visitFrom (size := size) (t := t) ht hpk1 (hflow_of_mid hm) N rest (m + 1) ⟨a.dfc, []⟩ hd'
      rw [this]
      cases visitFrom (qOf cfg) size a.ccnt (upd a.hol (flow id) (some id)) t (m + 1) rest ⟨a.dfc, []⟩ with
      | mk L' oe => cases oe <;> rfl) hne
  have hph : (toM cfg.flows flow size a hist t).phase = .pktHanded (flow id) (pktOf flow size id) := by simp [toM, mst, phaseOf, h]
  have hpar : lookupD (dictOf (parkKeys flow hist) fun c => (a.hol c).map (pktOf flow size)) (flow id) none = none := by
    rw [lookupD_dictOf _ _ _ (fun hc => by rw [hhol]; rfl), hhol]; rfl
  simp only [MQ.step, hph, doPktResume]
  have hon : (DRR.sched cfg).onPkt (toM cfg.flows flow size a hist t).ctl
      (view { toM cfg.flows flow size a hist t with phase := Phase.running }) (flow id) (pktOf flow size id) =
      .park { (toM cfg.flows flow size a hist t).ctl with pc := .visit (m + 1) } := by
    simp only [DRR.sched, DRR.onPkt, toM, mst, ctlOf, pcOf, h, lookup_flows ht _ hcF, pktOf, classOf_id ht, if_true]
    rw [if_neg hle]
  rw [hon]
  simp only [park, toM, mst, hpar]
  simp only [resumeLoop, sched_fuel]
  have hhol2 : setKey (dictOf (parkKeys flow hist) fun c => (a.hol c).map (pktOf flow size)) (flow id) (some (pktOf flow size id)) =
      dictOf (parkKeys flow (hist ++ [.park id t])) fun c => (upd a.hol (flow id) (some id) c).map (pktOf flow size) := by
    rw [setKey_dictOf _ hnd, parkKeys_snoc]
    refine congrArg (dictOf _) (funext fun c => ?_)
    by_cases hc : c = flow id
    · subst hc; simp
    · simp [upd_ne _ _ _ _ hc]
  rw [hhol2]
  refine Eq.trans (congrArg (fun S => withOut MOut.nothing (settle (DRR.sched cfg) _ S)) ?_) (congrArg (withOut MOut.nothing) hrest)
  rw [lst_nil]
  simp only [mst, ctlOf, visitsOf_snoc, sentOf_snoc, forfKeys_snoc]


theorem acc_dictOf (keys : List Nat) (g : Nat → ℚ) (c : Nat) (h : c ∉ keys → g c = 0) : DRR.acc (dictOf keys g) c = g c := by
  simp only [DRR.acc, lookup_dictOf]
  by_cases hk : c ∈ keys
  · simp [hk]
  · simp [hk, h hk, zero_eq']

/-- the piece of the loops a burst after a transmission starts with -/
def donePiece (cfg : DRR.Cfg ℚ) (size : Int → Nat) (a1 : A) (t : ℚ) (m c : Nat) (rest : List (Nat × Nat)) : LS × Option LoopEnd :=
  match innerAt size a1.ccnt a1.hol t m c ⟨a1.dfc, []⟩ with
  | (L', some e) => (L', some e)
  | (L', none) => visitFrom (qOf cfg) size a1.ccnt a1.hol t (m + 1) rest L'

/-- **a burst of the LTS that starts after a transmission** (`sendDone`): the transmission is booked, the inner `while` goes on -/
theorem lts_burst_done {a : A} {hist : List (HEv ℚ)} {t : ℚ} {p : EvId} {m : Nat} {id : Int} {q : QEntry ℚ} {w : Nat}
    {rest : List (Nat × Nat)} (hi : AInv flow F size cfg Lmax P a t) (hl : LInv flow a hist) (h : a.run = .F p m id q)
    (hd : cfg.weights.drop m = (flow id, w) :: rest)
    (hm : MidInv F flow size cfg Lmax P (a.book size (flow id) id) t)
    (hne : (thenPasses (qOf cfg) size (a.book size (flow id) id).ccnt (a.book size (flow id) id).hol t
      ((a.book size (flow id) id).total F) cfg.weights P (donePiece cfg size (a.book size (flow id) id) t m (flow id) rest)).2 ≠ .hang) :
    MQ.step (DRR.sched cfg) (toM cfg.flows flow size a hist t) .sendDone =
      withOut .nothing (endM cfg flow size (a.book size (flow id) id) (hist ++ bookEvs a (flow id) id t)
        (thenPasses (qOf cfg) size (a.book size (flow id) id).ccnt (a.book size (flow id) id).hol t
          ((a.book size (flow id) id).total F) cfg.weights P (donePiece cfg size (a.book size (flow id) id) t m (flow id) rest)).1 t
        (thenPasses (qOf cfg) size (a.book size (flow id) id).ccnt (a.book size (flow id) id).hol t
          ((a.book size (flow id) id).total F) cfg.weights P (donePiece cfg size (a.book size (flow id) id) t m (flow id) rest)).2) := by
  have ht := hi.table
  have hrun := hi.run
  rw [h] at hrun
  obtain ⟨-, -, -, hpk, -, hhol, -⟩ := hrun
  have hcF : flow id < F := hpk.1
  have hw : cfg.weights[m]? = some (flow id, w) := by
    have := congrArg List.head? hd
    simpa [List.head?_drop] using this
  have hd' : cfg.weights.drop (m + 1) = rest := by
    have := congrArg List.tail hd
    simpa [List.tail_drop] using this
  have hlen : rest.length + 1 ≤ cfg.weights.length := by
    have := congrArg List.length hd
    simp only [List.length_drop, List.length_cons] at this
    omega
  have hQ0 : ∀ c, 0 ≤ qOf cfg c := fun c => by linarith [qOf_ge ht c]
  have hbh : (a.book size (flow id) id).hol = a.hol := book_hol a _ id
  have hpk1 : ∀ c', (a.book size (flow id) id).hol c' ≠ none → c' ∈ parkKeys flow (hist ++ bookEvs a (flow id) id t) := by
    intro c' hc'
    rw [hbh] at hc'
    exact mem_parkKeys_append flow hist _ (hl.park c' hc')
  -- the piece of the loops and its simulation
  have hmonoP : ∀ f, (a.book size (flow id) id).dfc f ≤ (donePiece cfg size (a.book size (flow id) id) t m (flow id) rest).1.dfc f := by
    intro f
    unfold donePiece
    have hi2 := innerAt_dfc (size := size) (ccnt := (a.book size (flow id) id).ccnt) (hol := (a.book size (flow id) id).hol) (t := t)
      m (flow id) ⟨(a.book size (flow id) id).dfc, []⟩
    cases hr : innerAt size (a.book size (flow id) id).ccnt (a.book size (flow id) id).hol t m (flow id) ⟨(a.book size (flow id) id).dfc, []⟩ with
    | mk L' oe =>
      rw [hr] at hi2
      cases oe with
      | some e => simp only; rw [hi2]
      | none =>
        simp only
        have hv := visitFrom_ok (Q := qOf cfg) (size := size) (ccnt := (a.book size (flow id) id).ccnt)
          (hol := (a.book size (flow id) id).hol) (t := t) (total := (a.book size (flow id) id).total F) (ws := cfg.weights)
          hQ0 rest (m + 1) L' hd'
        exact le_trans (by rw [hi2]) (hv.2 f)
  have hsim : ∀ N, settle (DRR.sched cfg) (2 * rest.length + 2 + N)
      (lst cfg flow size (a.book size (flow id) id) (hist ++ bookEvs a (flow id) id t) ⟨(a.book size (flow id) id).dfc, []⟩ t (.inner m)) =
      match (donePiece cfg size (a.book size (flow id) id) t m (flow id) rest).2 with
      | some e => endM cfg flow size (a.book size (flow id) id) (hist ++ bookEvs a (flow id) id t)
          (donePiece cfg size (a.book size (flow id) id) t m (flow id) rest).1 t e
      | none => settle (DRR.sched cfg) N (lst cfg flow size (a.book size (flow id) id) (hist ++ bookEvs a (flow id) id t)
          (donePiece cfg size (a.book size (flow id) id) t m (flow id) rest).1 t .top) := by
    intro N
    have hpk2 : ∀ c', (a.book size (flow id) id).hol c' ≠ none →
        c' ∈ parkKeys flow ((hist ++ bookEvs a (flow id) id t) ++ (⟨(a.book size (flow id) id).dfc, []⟩ : LS).evs) := by
      intro c' hc'; simpa using hpk1 c' hc'
    unfold donePiece
    rw [show 2 * rest.length + 2 + N = (2 * rest.length + 1 + N) + 1 by omega]
    cases hr : innerAt size (a.book size (flow id) id).ccnt (a.book size (flow id) id).hol t m (flow id) ⟨(a.book size (flow id) id).dfc, []⟩ with
    | mk L' oe =>
      cases oe with
      | none =>
        rw [lts_inner_none ht hw hpk2 (hflow_of_mid hm _ hcF) hr]
        have := lts_visitFrom (size := size) (t := t) ht hpk1 (hflow_of_mid hm) N rest (m + 1) L' hd'
        rw [this]
        dsimp only
        generalize visitFrom (qOf cfg) size (a.book size (flow id) id).ccnt (a.book size (flow id) id).hol t (m + 1) rest L' = r
        obtain ⟨L'', oe'⟩ := r
        cases oe' <;> rfl
      | some e =>
        cases e with
        | get m' c' =>
          obtain ⟨rfl, rfl, rfl, h4⟩ := lts_inner_get ht hw hpk2 hr (2 * rest.length + 1 + N)
          rw [h4]; rfl
        | send m' c' id' pk =>
          obtain ⟨rfl, rfl, rfl, rfl, -, h4⟩ := lts_inner_send ht hw hpk2 (hflow_of_mid hm _ hcF) hr (2 * rest.length + 1 + N)
          rw [h4]; rfl
        | idle => exact absurd hr (by unfold innerAt; split <;> (try split) <;> (try split) <;> simp)
        | hang => exact absurd hr (by unfold innerAt; split <;> (try split) <;> (try split) <;> simp)
  have hrest := lts_rest (t := t) ht hm (H := hist ++ bookEvs a (flow id) id t) hpk1 (hflow_of_mid hm)
    (donePiece cfg size (a.book size (flow id) id) t m (flow id) rest) hmonoP (2 * rest.length + 2) (by omega) _ hsim hne
  -- the `sendDone` action up to the loops
  have hph : (toM cfg.flows flow size a hist t).phase = .finished (pktOf flow size id) := by simp [toM, mst, phaseOf, h]
  have hcc : (dictOf cfg.flows a.ccnt)[m]? = some (flow id, a.ccnt (flow id)) := by
    rw [getElem?_dictOf, getElem?_flows hw]; rfl
  simp only [MQ.step, hph, doSendDone]
  have hon : (DRR.sched cfg).onDone (toM cfg.flows flow size a hist t).ctl (pktOf flow size id) =
      .ok { DRR.book (toM cfg.flows flow size a hist t).ctl (flow id) (a.dfc (flow id)) (a.ccnt (flow id)) (pktOf flow size id) with
        pc := .inner m } := by
    simp only [DRR.sched, DRR.onDone, toM, mst, ctlOf, pcOf, h, hcc, lookup_flows ht _ hcF]
  rw [hon]
  simp only [resumeLoop, sched_fuel]
  have hfuel : ({ toM cfg.flows flow size a hist t with
      ctl := { DRR.book (toM cfg.flows flow size a hist t).ctl (flow id) (a.dfc (flow id)) (a.ccnt (flow id)) (pktOf flow size id) with
        pc := .inner m } } : MQState ℚ (DRR.Ctl ℚ)).hol =
      dictOf (parkKeys flow (hist ++ bookEvs a (flow id) id t)) fun c => ((a.book size (flow id) id).hol c).map (pktOf flow size) := by
    have : parkKeys flow (hist ++ bookEvs a (flow id) id t) = parkKeys flow hist := by
      unfold bookEvs
      split
      · rw [snoc2, parkKeys_snoc, parkKeys_snoc]
      · rw [parkKeys_snoc]
    rw [this, hbh]
    rfl
  rw [hfuel]
  refine Eq.trans (congrArg (fun S => withOut MOut.nothing (settle (DRR.sched cfg) _ S)) ?_) (congrArg (withOut MOut.nothing) hrest)
  -- the booked state is the configuration `a.book`
  have hfn := forfKeys_nodup hist
  rw [lst_nil]
  unfold A.book bookEvs DRR.book
  by_cases hz : a.ccnt (flow id) + -1 = 0
  · have hz' : a.ccnt (flow id) - 1 = 0 := by omega
    simp only [if_pos hz, if_pos hz']
    simp only [toM, mst, ctlOf, snoc2, visitsOf_snoc, sentOf_snoc, forfKeys_snoc, parkKeys_snoc, setKey_flows ht _ hcF,
      setKey_dictOf _ hfn, acc_dictOf _ _ _ (hl.forf (flow id)), pktOf, zero_eq', Int.sub_eq_add_neg]
  · have hz' : ¬ a.ccnt (flow id) - 1 = 0 := by omega
    simp only [if_neg hz, if_neg hz']
    simp only [toM, mst, ctlOf, visitsOf_snoc, sentOf_snoc, forfKeys_snoc, parkKeys_snoc, setKey_flows ht _ hcF, pktOf,
      Int.sub_eq_add_neg]

/-! ## every burst of `run` is an accepted action of the LTS -/

theorem putIds_noIO {l : List (HEv ℚ)} (h : NoIO l) (hist : List (HEv ℚ)) : putIds (hist ++ l) = putIds hist := by
  rw [putIds_append, (h.quiet (flow := fun _ => 0) (size := fun _ => 0)).2.2, List.append_nil]

theorem forfKeys_loopEv (H : List (HEv ℚ)) : ∀ (l : List (HEv ℚ)), (∀ ev ∈ l, LoopEv ev) → forfKeys (H ++ l) = forfKeys H
  | [], _ => by simp
  | ev :: r, h => by
    have h1 : forfKeys (H ++ [ev]) = forfKeys H := by
      rw [forfKeys_snoc]
      rcases h ev List.mem_cons_self with ⟨c, t, rfl⟩ | ⟨id, t, rfl⟩ <;> rfl
    have := forfKeys_loopEv (H ++ [ev]) r (fun x hx => h x (List.mem_cons_of_mem _ hx))
    rw [List.append_assoc, List.singleton_append] at this
    rw [this, h1]

/-- what a burst of the configuration is for the LTS: the packet in hand is sent at once (`pktResume`), or one action
(`init`, `wake`, `pktResume`, `sendDone`) whose loop ends as `endM` says -/
theorem lts_burst {a : A} {hist : List (HEv ℚ)} {q : QEntry ℚ} {en : Entry} (hi : AInv flow F size cfg Lmax P a q.time)
    (hl : LInv flow a hist) (hst : StartsAt a q en)
    (hne : (a.burst F (qOf cfg) size cfg.weights P q.time en).fin ≠ .hang) :
    (∃ g m id, a.run = .H g m id q ∧ a.burst F (qOf cfg) size cfg.weights P q.time en = ⟨a, [], .send m (flow id) id false⟩ ∧
      ∀ (p : EvId) (q' : QEntry ℚ), MQ.step (DRR.sched cfg) (toM cfg.flows flow size a hist q.time) .pktResume =
        .ok (toM cfg.flows flow size { a with run := .S p m id q', cur := some id } (hist ++ [.serve id q.time]) q.time, .nothing)) ∨
    (∃ a1 e0 L act, MidInv F flow size cfg Lmax P a1 q.time ∧ SameBut a a1 ∧ LInv flow a1 (hist ++ e0) ∧ NoIO e0 ∧
      (∀ ev ∈ L.evs, LoopEv ev) ∧
      a.burst F (qOf cfg) size cfg.weights P q.time en =
        ⟨finA a1 L (some (a.burst F (qOf cfg) size cfg.weights P q.time en).fin), e0 ++ L.evs,
          (a.burst F (qOf cfg) size cfg.weights P q.time en).fin⟩ ∧
      EndOK size a1.ccnt a1.hol (a1.total F) cfg.weights L (some (a.burst F (qOf cfg) size cfg.weights P q.time en).fin) ∧
      (∀ p, act ≠ .put p) ∧
      MQ.step (DRR.sched cfg) (toM cfg.flows flow size a hist q.time) act =
        withOut .nothing (endM cfg flow size a1 (hist ++ e0) L q.time (a.burst F (qOf cfg) size cfg.weights P q.time en).fin)) := by
  have ht := hi.table
  have hQ0 : ∀ c, 0 ≤ qOf cfg c := fun c => by linarith [qOf_ge ht c]
  cases en with
  | top =>
    right
    obtain ⟨hm, -⟩ := mid_top hi hst
    have hb : a.burst F (qOf cfg) size cfg.weights P q.time .top =
        finish a [] (passes (qOf cfg) size a.ccnt a.hol q.time (a.total F) cfg.weights P ⟨a.dfc, []⟩) := rfl
    have hne' : (passes (qOf cfg) size a.ccnt a.hol q.time (a.total F) cfg.weights P ⟨a.dfc, []⟩).2 ≠ .hang := by
      rw [hb] at hne; exact hne
    have hpost := loop_post (t := q.time) hm (⟨a.dfc, []⟩, none) trivial (fun f => le_refl _)
    have hloop := loopEv_passes (Q := qOf cfg) (size := size) (ccnt := a.ccnt) (hol := a.hol) (t := q.time) (total := a.total F)
      (ws := cfg.weights) P ⟨a.dfc, []⟩ (by intro ev hev; cases hev)
    have hpc : pcOf a.run = .top := by rcases hst with h | ⟨g, h⟩ <;> simp [h, pcOf]
    have hres := lts_burst_top (hist := hist) hm hl hpc hne'
    have hnil : NoIO ([] : List (HEv ℚ)) := by intro ev hev; cases hev
    rcases hst with h | ⟨g, h⟩
    · refine ⟨a, [], _, .init, hm, SameBut.rfl' a, (by simpa using hl), hnil, hloop, (by rw [hb]; rfl),
        (by rw [hb]; exact hpost.2.1), (by intro p hh; cases hh), ?_⟩
      rw [hb]
      simp only [finish, List.append_nil]
      have hph : (toM cfg.flows flow size a hist q.time).phase = .idle := by simp [toM, mst, phaseOf, h]
      simp only [MQ.step, hph]
      rw [hres]
    · refine ⟨a, [], _, .wake, hm, SameBut.rfl' a, (by simpa using hl), hnil, hloop, (by rw [hb]; rfl),
        (by rw [hb]; exact hpost.2.1), (by intro p hh; cases hh), ?_⟩
      rw [hb]
      simp only [finish, List.append_nil]
      have hph : (toM cfg.flows flow size a hist q.time).phase = .tokenHanded := by simp [toM, mst, phaseOf, h]
      simp only [MQ.step, hph]
      rw [hres]
  | got m id =>
    obtain ⟨g, h⟩ := hst
    have hrun := hi.run
    rw [h] at hrun
    obtain ⟨-, -, hcur, hpk, ⟨w, hw⟩, hhol, -⟩ := hrun
    obtain ⟨rest, hd⟩ := drop_of_getElem? hw
    have hcF : flow id < F := hpk.1
    by_cases hle : (Num.ofNat (size id) : ℚ) ≤ a.dfc (flow id)
    · left
      refine ⟨g, m, id, h, by simp only [A.burst, hd, hle, if_true], ?_⟩
      intro p q'
      have hph : (toM cfg.flows flow size a hist q.time).phase = .pktHanded (flow id) (pktOf flow size id) := by
        simp [toM, mst, phaseOf, h]
      have hon : (DRR.sched cfg).onPkt (toM cfg.flows flow size a hist q.time).ctl
          (view { toM cfg.flows flow size a hist q.time with phase := Phase.running }) (flow id) (pktOf flow size id) =
          .send true { (toM cfg.flows flow size a hist q.time).ctl with pc := .sent m } := by
        simp only [DRR.sched, DRR.onPkt, toM, mst, ctlOf, pcOf, h, lookup_flows ht _ hcF, pktOf, classOf_id ht, if_true]
        rw [if_pos hle]
      simp only [MQ.step, hph, doPktResume, hon, spawn]
      simp only [toM, mst, ctlOf, pcOf, phaseOf, h, if_true, visitsOf_snoc, sentOf_snoc, forfKeys_snoc, parkKeys_snoc, Option.map_some]
    · right
      obtain ⟨hm, -⟩ := mid_got hi h
      have hd' : cfg.weights.drop (m + 1) = rest := by
        have := congrArg List.tail hd
        simpa [List.tail_drop] using this
      have hb : a.burst F (qOf cfg) size cfg.weights P q.time (.got m id) =
          finish { a with hol := upd a.hol (flow id) (some id) } [.park id q.time]
            (thenPasses (qOf cfg) size a.ccnt (upd a.hol (flow id) (some id)) q.time
              (A.total F { a with hol := upd a.hol (flow id) (some id) }) cfg.weights P
              (visitFrom (qOf cfg) size a.ccnt (upd a.hol (flow id) (some id)) q.time (m + 1) rest ⟨a.dfc, []⟩)) := by
        simp only [A.burst, hd, hle, if_false]
      have hne' : (thenPasses (qOf cfg) size a.ccnt (upd a.hol (flow id) (some id)) q.time
          (A.total F { a with hol := upd a.hol (flow id) (some id) }) cfg.weights P
          (visitFrom (qOf cfg) size a.ccnt (upd a.hol (flow id) (some id)) q.time (m + 1) rest ⟨a.dfc, []⟩)).2 ≠ .hang := by
        rw [hb] at hne; exact hne
      have hv := visitFrom_ok (Q := qOf cfg) (size := size) (ccnt := a.ccnt) (hol := upd a.hol (flow id) (some id)) (t := q.time)
        (total := A.total F { a with hol := upd a.hol (flow id) (some id) }) (ws := cfg.weights) hQ0 rest (m + 1) ⟨a.dfc, []⟩ hd'
      have hpost := loop_post (t := q.time) hm _ hv.1 hv.2
      have hloop := loopEv_thenPasses (Q := qOf cfg) (size := size) (ccnt := a.ccnt) (hol := upd a.hol (flow id) (some id))
        (t := q.time) (total := A.total F { a with hol := upd a.hol (flow id) (some id) }) (ws := cfg.weights) P _
        (loopEv_visitFrom (Q := qOf cfg) (size := size) (ccnt := a.ccnt) (hol := upd a.hol (flow id) (some id)) (t := q.time)
          rest (m + 1) ⟨a.dfc, []⟩ (by intro ev hev; cases hev))
      have hnoio : NoIO [HEv.park id q.time] := by
        intro ev hev
        simp only [List.mem_singleton] at hev
        subst hev
        exact ⟨fun _ _ h => (nomatch h), fun _ _ h => (nomatch h)⟩
      have hl1 : LInv flow { a with hol := upd a.hol (flow id) (some id) } (hist ++ [.park id q.time]) := by
        refine ⟨by rw [putIds_noIO hnoio]; exact hl.keys, by rw [putIds_noIO hnoio]; exact hl.recv, ?_, ?_⟩
        · intro c' hc'
          rw [parkKeys_snoc]
          by_cases hcc : c' = flow id
          · subst hcc; exact (mem_addKey _ _ _).mpr (Or.inr rfl)
          · change upd a.hol (flow id) (some id) c' ≠ none at hc'
            rw [upd_ne _ _ _ _ hcc] at hc'
            exact (mem_addKey _ _ _).mpr (Or.inl (hl.park c' hc'))
        · intro c hc
          rw [forfKeys_snoc] at hc
          exact hl.forf c hc
      refine ⟨_, [.park id q.time], _, .pktResume, hm, ⟨rfl, rfl, rfl, rfl, rfl, rfl, rfl, rfl, rfl, rfl⟩, hl1, hnoio, hloop,
        (by rw [hb]; rfl), (by rw [hb]; exact hpost.2.1), (by intro p hh; cases hh), ?_⟩
      rw [hb]
      exact lts_burst_got hi hl h hd hle hm hne'
  | done m id =>
    obtain ⟨p, h⟩ := hst
    have hrun := hi.run
    rw [h] at hrun
    obtain ⟨-, -, hcur, hpk, ⟨w, hw⟩, hhol, -⟩ := hrun
    obtain ⟨rest, hd⟩ := drop_of_getElem? hw
    have hcF : flow id < F := hpk.1
    right
    obtain ⟨hm, -⟩ := mid_done hi h
    have hd' : cfg.weights.drop (m + 1) = rest := by
      have := congrArg List.tail hd
      simpa [List.tail_drop] using this
    have hb : a.burst F (qOf cfg) size cfg.weights P q.time (.done m id) =
        finish (a.book size (flow id) id) (bookEvs a (flow id) id q.time)
          (thenPasses (qOf cfg) size (a.book size (flow id) id).ccnt (a.book size (flow id) id).hol q.time
            ((a.book size (flow id) id).total F) cfg.weights P (donePiece cfg size (a.book size (flow id) id) q.time m (flow id) rest)) := by
      simp only [A.burst, hd]
      rfl
    have hne' : (thenPasses (qOf cfg) size (a.book size (flow id) id).ccnt (a.book size (flow id) id).hol q.time
        ((a.book size (flow id) id).total F) cfg.weights P (donePiece cfg size (a.book size (flow id) id) q.time m (flow id) rest)).2 ≠ .hang := by
      rw [hb] at hne; exact hne
    have hpieceOK : EndOK size (a.book size (flow id) id).ccnt (a.book size (flow id) id).hol ((a.book size (flow id) id).total F)
        cfg.weights (donePiece cfg size (a.book size (flow id) id) q.time m (flow id) rest).1
        (donePiece cfg size (a.book size (flow id) id) q.time m (flow id) rest).2 ∧
        (∀ f, (a.book size (flow id) id).dfc f ≤ (donePiece cfg size (a.book size (flow id) id) q.time m (flow id) rest).1.dfc f) ∧
        ∀ ev ∈ (donePiece cfg size (a.book size (flow id) id) q.time m (flow id) rest).1.evs, LoopEv ev := by
      unfold donePiece
      have hi1 := innerAt_ok (size := size) (ccnt := (a.book size (flow id) id).ccnt) (hol := (a.book size (flow id) id).hol)
        (t := q.time) (total := (a.book size (flow id) id).total F) hw ⟨(a.book size (flow id) id).dfc, []⟩
      have hi2 := innerAt_dfc (size := size) (ccnt := (a.book size (flow id) id).ccnt) (hol := (a.book size (flow id) id).hol)
        (t := q.time) m (flow id) ⟨(a.book size (flow id) id).dfc, []⟩
      have hi3 := loopEv_innerAt (size := size) (ccnt := (a.book size (flow id) id).ccnt) (hol := (a.book size (flow id) id).hol)
        (t := q.time) m (flow id) ⟨(a.book size (flow id) id).dfc, []⟩ (by intro ev hev; cases hev)
      cases hr : innerAt size (a.book size (flow id) id).ccnt (a.book size (flow id) id).hol q.time m (flow id)
          ⟨(a.book size (flow id) id).dfc, []⟩ with
      | mk L' oe =>
        rw [hr] at hi1 hi2 hi3
        cases oe with
        | some e => exact ⟨hi1, fun f => by rw [hi2], hi3⟩
        | none =>
          have hv := visitFrom_ok (Q := qOf cfg) (size := size) (ccnt := (a.book size (flow id) id).ccnt)
            (hol := (a.book size (flow id) id).hol) (t := q.time) (total := (a.book size (flow id) id).total F) (ws := cfg.weights)
            hQ0 rest (m + 1) L' hd'
          exact ⟨hv.1, fun f => le_trans (by rw [hi2]) (hv.2 f),
            loopEv_visitFrom (Q := qOf cfg) (size := size) rest (m + 1) L' hi3⟩
    have hpost := loop_post (t := q.time) hm _ hpieceOK.1 hpieceOK.2.1
    have hloop := loopEv_thenPasses (Q := qOf cfg) (size := size) (ccnt := (a.book size (flow id) id).ccnt)
      (hol := (a.book size (flow id) id).hol) (t := q.time) (total := (a.book size (flow id) id).total F) (ws := cfg.weights) P _
      hpieceOK.2.2
    have hnoio := noIO_bookEvs a (flow id) id q.time
    have hsb := book_same (size := size) a (flow id) id
    have hl1 : LInv flow (a.book size (flow id) id) (hist ++ bookEvs a (flow id) id q.time) := by
      refine ⟨by rw [putIds_noIO hnoio, hsb.keys]; exact hl.keys, by rw [putIds_noIO hnoio, hsb.recv]; exact hl.recv, ?_, ?_⟩
      · intro c' hc'
        rw [book_hol] at hc'
        exact mem_parkKeys_append flow hist _ (hl.park c' hc')
      · intro c hc
        unfold A.book bookEvs at *
        by_cases hz : a.ccnt (flow id) + -1 = 0
        · simp only [if_pos hz] at hc ⊢
          rw [snoc2, forfKeys_snoc, forfKeys_snoc] at hc
          simp only at hc
          have hcne : c ≠ flow id := fun hh => hc ((mem_addKey _ _ _).mpr (Or.inr hh))
          show upd a.forf (flow id) _ c = 0
          rw [upd_ne _ _ _ _ hcne]
          exact hl.forf c (fun hh => hc ((mem_addKey _ _ _).mpr (Or.inl hh)))
        · simp only [if_neg hz] at hc ⊢
          rw [forfKeys_snoc] at hc
          exact hl.forf c hc
    refine ⟨_, bookEvs a (flow id) id q.time, _, .sendDone, hm, hsb, hl1, hnoio, hloop,
      (by rw [hb]; rfl), (by rw [hb]; exact hpost.2.1), (by intro p hh; cases hh), ?_⟩
    rw [hb]
    exact lts_burst_done hi hl h hd hm hne'

/-! ## every configuration step is accepted by the LTS -/

/-- accepted runs compose -/
theorem runActs_append (sc : Sched ℚ (DRR.Ctl ℚ)) (as bs : List (MAct ℚ)) (s s1 s2 : MQState ℚ (DRR.Ctl ℚ))
    (i1 o1 i2 o2 : List MPkt) (h1 : runActs sc s as = .ok (s1, i1, o1)) (h2 : runActs sc s1 bs = .ok (s2, i2, o2)) :
    runActs sc s (as ++ bs) = .ok (s2, i1 ++ i2, o1 ++ o2) := by
  induction as generalizing s i1 o1 with
  | nil =>
    simp only [runActs, Except.ok.injEq, Prod.mk.injEq] at h1
    obtain ⟨rfl, rfl, rfl⟩ := h1
    simpa using h2
  | cons x xs ih =>
    simp only [runActs, List.cons_append] at h1 ⊢
    split at h1
    · cases h1
    · rename_i s' o hst
      split at h1
      · cases h1
      · rename_i s'' ins outs hr
        simp only [Except.ok.injEq, Prod.mk.injEq] at h1
        obtain ⟨rfl, rfl, rfl⟩ := h1
        rw [ih s' ins outs hr]
        simp

/-- what the LTS side of a configuration step delivers: an accepted action sequence (packets of at most `Lmax` bytes) into
the new configuration's LTS state, with the packets that entered and left -/
def LtsOK (flow size : Int → Nat) (cfg : DRR.Cfg ℚ) (Lmax : Nat) (a : A) (hist : List (HEv ℚ)) (t : ℚ) (a' : A)
    (new : List (HEv ℚ)) : Prop :=
  ∃ acts, acts.length ≤ 1 ∧ (∀ x ∈ acts, DRR.ActOk (Lmax : ℚ) x) ∧
    runActs (DRR.sched cfg) (toM cfg.flows flow size a hist t) acts =
      .ok (toM cfg.flows flow size a' (hist ++ new) t, putPk flow size new, outPk flow size new)

/-- the packet an action brings in / an output sends out -/
def insOf : MAct ℚ → List MPkt
  | .put p => [p]
  | _ => []
def outOf : MOut ℚ → List MPkt
  | .depart p => [p]
  | _ => []

theorem ltsOK_nothing {a a' : A} {hist : List (HEv ℚ)} {t : ℚ}
    (h : toM cfg.flows flow size a' (hist ++ []) t = toM cfg.flows flow size a hist t) : LtsOK flow size cfg Lmax a hist t a' [] :=
  ⟨[], Nat.zero_le _, (by intro x hx; cases hx), (by rw [h]; rfl)⟩

theorem ltsOK_one {a a' : A} {hist new : List (HEv ℚ)} {t : ℚ} (act : MAct ℚ) (o : MOut ℚ) (hact : DRR.ActOk (Lmax : ℚ) act)
    (h : MQ.step (DRR.sched cfg) (toM cfg.flows flow size a hist t) act = .ok (toM cfg.flows flow size a' (hist ++ new) t, o))
    (hin : putPk flow size new = insOf act) (hout : outPk flow size new = outOf o) :
    LtsOK flow size cfg Lmax a hist t a' new := by
  refine ⟨[act], Nat.le_refl _, by intro x hx; simp only [List.mem_singleton] at hx; rw [hx]; exact hact, ?_⟩
  simp only [runActs, h, hin, hout]
  cases act <;> cases o <;> rfl

theorem actOk_of_not_put {act : MAct ℚ} (h : ∀ p, act ≠ .put p) (L : ℚ) : DRR.ActOk L act := fun p hp => absurd hp (h p)

theorem insOf_of_not_put {act : MAct ℚ} (h : ∀ p, act ≠ .put p) : insOf act = [] := by
  cases act <;> first | rfl | exact absurd rfl (h _)

theorem mem_parkKeys_append' (flow : Int → Nat) (h l : List (HEv ℚ)) {c : Nat} (hc : c ∈ parkKeys flow h) :
    c ∈ parkKeys flow (h ++ l) := mem_parkKeys_append flow h l hc

theorem forfKeys_snoc_quiet (h : List (HEv ℚ)) (ev : HEv ℚ) (hq : ∀ c t, ev ≠ .reset c t) : forfKeys (h ++ [ev]) = forfKeys h := by
  rw [forfKeys_snoc]
  cases ev <;> first | rfl | exact absurd rfl (hq _ _)

variable {now : ℚ} {q : QEntry ℚ}

/-- a burst of `run` that ends with a `get` / a transmission / the wait for the token: the LTS accepts it, and what the
observations say of the new configuration holds -/
theorem lts_burst_end {a a' : A} {hist new : List (HEv ℚ)} {en : Entry} (hi : AInv flow F size cfg Lmax P a q.time)
    (hl : LInv flow a hist) (hst : StartsAt a q en) (r : BurstRes)
    (hb : a.burst F (qOf cfg) size cfg.weights P q.time en = r)
    (hend : (∃ m' c' id' is, r.fin = .get m' c' ∧ c' < F ∧ a.items c' = id' :: is ∧
        a' = { r.a with run := .H n m' id' ⟨q.time, NORMAL, e, n⟩, items := upd r.a.items c' is } ∧ new = r.evs) ∨
      (∃ m' c' id' pk, r.fin = .send m' c' id' pk ∧
        a' = { r.a with run := .S n m' id' ⟨q.time, URGENT, e, n + 1⟩, cur := some id' } ∧ new = r.evs ++ [.serve id' q.time]) ∨
      (r.fin = .idle ∧ a.tokens = 0 ∧ a' = { r.a with run := .W n } ∧ new = r.evs ++ [.idle q.time]) ∨
      (∃ k, r.fin = .idle ∧ a.tokens = k + 1 ∧ a' = { r.a with run := .K n ⟨q.time, NORMAL, e, n⟩, tokens := k } ∧
        new = r.evs ++ [.idle q.time])) :
    LtsOK flow size cfg Lmax a hist q.time a' new ∧ LInv flow a' (hist ++ new) := by
  have hne : (a.burst F (qOf cfg) size cfg.weights P q.time en).fin ≠ .hang := by
    rw [hb]
    rcases hend with ⟨_, _, _, _, h, -⟩ | ⟨_, _, _, _, h, -⟩ | ⟨h, -⟩ | ⟨_, h, -⟩ <;> rw [h] <;> exact fun hh => nomatch hh
  rcases lts_burst hi hl hst hne with ⟨g, m, id, hrun, hbe, hstep⟩ | ⟨a1, e0, L, act, hm, hsb, hl1, hnoio, hloop, hbe, hE, hnp, hstep⟩
  · -- the packet in hand is sent at once
    rw [hbe] at hb
    subst hb
    rcases hend with ⟨_, _, _, _, h, -⟩ | ⟨m', c', id', pk, hfin, rfl, rfl⟩ | ⟨h, -⟩ | ⟨_, h, -⟩
    · cases h
    · simp only [LoopEnd.send.injEq] at hfin
      obtain ⟨rfl, rfl, rfl, rfl⟩ := hfin
      have hserve : NoIO [HEv.serve id q.time] := by
        intro ev hev
        simp only [List.mem_singleton] at hev
        subst hev
        exact ⟨fun _ _ h => (nomatch h), fun _ _ h => (nomatch h)⟩
      refine ⟨ltsOK_one .pktResume .nothing (fun p hp => by cases hp) (by simpa using hstep n ⟨q.time, URGENT, e, n + 1⟩) rfl rfl, ?_⟩
      refine ⟨?_, ?_, ?_, ?_⟩
      · show a.keys = _
        rw [List.nil_append, putIds_noIO hserve]; exact hl.keys
      · show a.recv = _
        rw [List.nil_append, putIds_noIO hserve]; exact hl.recv
      · intro c hc
        exact mem_parkKeys_append flow hist _ (hl.park c hc)
      · intro c hc
        rw [List.nil_append, forfKeys_snoc_quiet hist (HEv.serve id q.time) (fun _ _ h => by cases h)] at hc
        exact hl.forf c hc
    · cases h
    · cases h
  · -- the loops run
    rw [hb] at hbe hE hstep
    have hfinA : r.a = finA a1 L (some r.fin) := by rw [hbe]
    have hevs : r.evs = e0 ++ L.evs := by rw [hbe]
    have hnoL := noIO_of_loopEv hloop
    have hactOk : DRR.ActOk (Lmax : ℚ) act := actOk_of_not_put hnp _
    have hkeys : ∀ (l : List (HEv ℚ)), NoIO l → a1.keys = keysOf flow (putIds (hist ++ (e0 ++ L.evs ++ l))) ∧
        a1.recv = ((putIds (hist ++ (e0 ++ L.evs ++ l))).length : Nat) := by
      intro l hl'
      rw [putIds_noIO ((hnoio.append hnoL).append hl'), ← putIds_noIO hnoio hist]
      exact ⟨hl1.keys, hl1.recv⟩
    have hforf : ∀ (l : List (HEv ℚ)), (∀ ev ∈ l, ∀ c t, ev ≠ .reset c t) → forfKeys (hist ++ (e0 ++ L.evs ++ l)) = forfKeys (hist ++ e0) := by
      intro l hl'
      have h1 : forfKeys ((hist ++ e0) ++ L.evs) = forfKeys (hist ++ e0) := forfKeys_loopEv _ _ hloop
      have : ∀ (l : List (HEv ℚ)) (H : List (HEv ℚ)), (∀ ev ∈ l, ∀ c t, ev ≠ .reset c t) → forfKeys (H ++ l) = forfKeys H := by
        intro l
        induction l with
        | nil => intro H _; simp
        | cons ev r ih =>
          intro H hq
          have := ih (H ++ [ev]) (fun x hx => hq x (List.mem_cons_of_mem _ hx))
          rw [List.append_assoc, List.singleton_append] at this
          rw [this, forfKeys_snoc_quiet _ _ (hq ev List.mem_cons_self)]
      rw [show hist ++ (e0 ++ L.evs ++ l) = ((hist ++ e0) ++ L.evs) ++ l by simp, this l _ hl', h1]
    rcases hend with ⟨m', c', id', is, hfin, hc', hit, rfl, rfl⟩ | ⟨m', c', id', pk, hfin, rfl, rfl⟩ | ⟨hfin, htk, rfl, rfl⟩ |
      ⟨k, hfin, htk, rfl, rfl⟩
    · -- `get`
      rw [hfin] at hE hstep hfinA
      rw [← hsb.items] at hit
      have hk : c' ∈ a1.keys := by
        by_contra hk
        have := (hm.keysOK.2 c' hc' hk).1
        rw [hit] at this; cases this
      have hfl' : flow id' = c' := (hm.flowOK c' hc' id' (by rw [hit]; simp)).1
      have hq := (NoIO.append hnoio hnoL).quiet (flow := flow) (size := size)
      refine ⟨ltsOK_one act .nothing hactOk ?_ (by rw [hevs, hq.1, insOf_of_not_put hnp]) (by rw [hevs, hq.2.1]; rfl), ?_⟩
      · rw [hstep, endM_get hl1.nodup hk hit hfl' ⟨q.time, NORMAL, e, n⟩ n, hevs, hfinA, List.append_assoc]
        rfl
      · have hk2 := hkeys [] (by intro ev hev; cases hev)
        simp only [List.append_nil] at hk2
        refine ⟨?_, ?_, ?_, ?_⟩
        · show r.a.keys = _; rw [hfinA, hevs]; exact hk2.1
        · show r.a.recv = _; rw [hfinA, hevs]; exact hk2.2
        · intro c hc
          have hc1 : a1.hol c ≠ none := by rw [hfinA] at hc; exact hc
          rw [hevs, ← List.append_assoc]
          exact mem_parkKeys_append flow _ _ (hl1.park c hc1)
        · intro c hc
          have := hforf [] (by intro ev hev; cases hev)
          simp only [List.append_nil] at this
          rw [hevs, this] at hc
          show r.a.forf c = 0
          rw [hfinA]
          exact hl1.forf c hc
    · -- a transmission
      rw [hfin] at hE hstep hfinA
      obtain ⟨rfl, ⟨w, hw⟩, hhol, hle, hcpos⟩ := hE
      have hc' : c' < F := entry_lt hm.table (List.mem_of_getElem? hw)
      have hpk : c' ∈ parkKeys flow ((hist ++ e0) ++ L.evs) :=
        mem_parkKeys_append flow _ _ (hl1.park c' (by rw [hhol]; simp))
      have hserve : NoIO [HEv.serve id' q.time] := by
        intro ev hev
        simp only [List.mem_singleton] at hev
        subst hev
        exact ⟨fun _ _ h => (nomatch h), fun _ _ h => (nomatch h)⟩
      have hq := ((NoIO.append hnoio hnoL).append hserve).quiet (flow := flow) (size := size)
      refine ⟨ltsOK_one act .nothing hactOk ?_ (by rw [hevs, hq.1, insOf_of_not_put hnp]) (by rw [hevs, hq.2.1]; rfl), ?_⟩
      · rw [hstep, endM_send hpk ⟨q.time, URGENT, e, n + 1⟩ n, hevs, hfinA]
        simp only [withOut, List.append_assoc]
      · have hk2 := hkeys [HEv.serve id' q.time] hserve
        refine ⟨?_, ?_, ?_, ?_⟩
        · show r.a.keys = _; rw [hfinA, hevs]; exact hk2.1
        · show r.a.recv = _; rw [hfinA, hevs]; exact hk2.2
        · intro c hc
          have hc1 : a1.hol c ≠ none := by
            rw [hfinA] at hc
            change upd a1.hol c' none c ≠ none at hc
            by_cases hcc : c = c'
            · subst hcc; rw [upd_same] at hc; exact absurd rfl hc
            · rw [upd_ne _ _ _ _ hcc] at hc; exact hc
          rw [hevs, show hist ++ (e0 ++ L.evs ++ [HEv.serve id' q.time]) = (hist ++ e0) ++ (L.evs ++ [HEv.serve id' q.time]) by simp]
          exact mem_parkKeys_append flow _ _ (hl1.park c hc1)
        · intro c hc
          have := hforf [HEv.serve id' q.time] (by
            intro ev hev
            simp only [List.mem_singleton] at hev
            subst hev
            exact fun _ _ h => nomatch h)
          rw [hevs, this] at hc
          show r.a.forf c = 0
          rw [hfinA]
          exact hl1.forf c hc
    · -- the loop blocks
      rw [hfin] at hE hstep hfinA
      have hidle : NoIO [HEv.idle q.time] := by
        intro ev hev
        simp only [List.mem_singleton] at hev
        subst hev
        exact ⟨fun _ _ h => (nomatch h), fun _ _ h => (nomatch h)⟩
      have hq := ((NoIO.append hnoio hnoL).append hidle).quiet (flow := flow) (size := size)
      refine ⟨ltsOK_one act .nothing hactOk ?_ (by rw [hevs, hq.1, insOf_of_not_put hnp]) (by rw [hevs, hq.2.1]; rfl), ?_⟩
      · rw [hstep, endM_idle_zero (hsb.tokens ▸ htk) n, hevs, hfinA]
        simp only [withOut, List.append_assoc]
      · have hk2 := hkeys [HEv.idle q.time] hidle
        refine ⟨?_, ?_, ?_, ?_⟩
        · show r.a.keys = _; rw [hfinA, hevs]; exact hk2.1
        · show r.a.recv = _; rw [hfinA, hevs]; exact hk2.2
        · intro c hc
          have hc1 : a1.hol c ≠ none := by rw [hfinA] at hc; exact hc
          rw [hevs, show hist ++ (e0 ++ L.evs ++ [HEv.idle q.time]) = (hist ++ e0) ++ (L.evs ++ [HEv.idle q.time]) by simp]
          exact mem_parkKeys_append flow _ _ (hl1.park c hc1)
        · intro c hc
          have := hforf [HEv.idle q.time] (by
            intro ev hev
            simp only [List.mem_singleton] at hev
            subst hev
            exact fun _ _ h => nomatch h)
          rw [hevs, this] at hc
          show r.a.forf c = 0
          rw [hfinA]
          exact hl1.forf c hc
    · -- the loop takes a token
      rw [hfin] at hE hstep hfinA
      have hidle : NoIO [HEv.idle q.time] := by
        intro ev hev
        simp only [List.mem_singleton] at hev
        subst hev
        exact ⟨fun _ _ h => (nomatch h), fun _ _ h => (nomatch h)⟩
      have hq := ((NoIO.append hnoio hnoL).append hidle).quiet (flow := flow) (size := size)
      refine ⟨ltsOK_one act .nothing hactOk ?_ (by rw [hevs, hq.1, insOf_of_not_put hnp]) (by rw [hevs, hq.2.1]; rfl), ?_⟩
      · rw [hstep, endM_idle_succ (hsb.tokens ▸ htk) n ⟨q.time, NORMAL, e, n⟩, hevs, hfinA]
        simp only [withOut, List.append_assoc]
      · have hk2 := hkeys [HEv.idle q.time] hidle
        refine ⟨?_, ?_, ?_, ?_⟩
        · show r.a.keys = _; rw [hfinA, hevs]; exact hk2.1
        · show r.a.recv = _; rw [hfinA, hevs]; exact hk2.2
        · intro c hc
          have hc1 : a1.hol c ≠ none := by rw [hfinA] at hc; exact hc
          rw [hevs, show hist ++ (e0 ++ L.evs ++ [HEv.idle q.time]) = (hist ++ e0) ++ (L.evs ++ [HEv.idle q.time]) by simp]
          exact mem_parkKeys_append flow _ _ (hl1.park c hc1)
        · intro c hc
          have := hforf [HEv.idle q.time] (by
            intro ev hev
            simp only [List.mem_singleton] at hev
            subst hev
            exact fun _ _ h => nomatch h)
          rw [hevs, this] at hc
          show r.a.forf c = 0
          rw [hfinA]
          exact hl1.forf c hc

theorem txTime_eq (id : Int) : MQ.txTime (DRR.sched cfg) (pktOf flow size id) = DRROnK.txTime size cfg.rate id := rfl

theorem hist_quiet (hist : List (HEv ℚ)) (ev : HEv ℚ) (h1 : ∀ c t, ev ≠ .visit c t) (h2 : ∀ id t, ev ≠ .done id t)
    (h3 : ∀ c t, ev ≠ .reset c t) (h4 : ∀ id t, ev ≠ .park id t) :
    visitsOf (hist ++ [ev]) = visitsOf hist ∧ sentOf flow size (hist ++ [ev]) = sentOf flow size hist ∧
    forfKeys (hist ++ [ev]) = forfKeys hist ∧ parkKeys flow (hist ++ [ev]) = parkKeys flow hist := by
  rw [visitsOf_snoc, sentOf_snoc, forfKeys_snoc, parkKeys_snoc]
  cases ev with
  | visit c t => exact absurd rfl (h1 c t)
  | done id t => exact absurd rfl (h2 id t)
  | reset c t => exact absurd rfl (h3 c t)
  | park id t => exact absurd rfl (h4 id t)
  | put id t => exact ⟨rfl, rfl, rfl, rfl⟩
  | serve id t => exact ⟨rfl, rfl, rfl, rfl⟩
  | out id t => exact ⟨rfl, rfl, rfl, rfl⟩
  | idle t => exact ⟨rfl, rfl, rfl, rfl⟩

/-- **every configuration step is accepted by the LTS**, and keeps what the observations say of the configuration -/
theorem lts_step {a a' : A} {hist new : List (HEv ℚ)} (hi : AInv flow F size cfg Lmax P a q.time) (_hmin : IsMin a q)
    (hl : LInv flow a hist) (hs : AStep F flow size cfg P n e a q a' new) :
    LtsOK flow size cfg Lmax a hist q.time a' new ∧ LInv flow a' (hist ++ new) := by
  have hrun := hi.run
  have ht := hi.table
  have hn := hl.nodup
  have hfn := flows_nodup ht
  cases hs with
  | burstGet en r m' c' id' is hst hb hfin hc' hit =>
    exact lts_burst_end (n := n) (e := e) hi hl hst r hb (Or.inl ⟨m', c', id', is, hfin, hc', hit, rfl, rfl⟩)
  | burstSend en r m' c' id' pk hst hb hfin =>
    exact lts_burst_end (n := n) (e := e) hi hl hst r hb (Or.inr (Or.inl ⟨m', c', id', pk, hfin, rfl, rfl⟩))
  | burstBlock en r hst hb hfin htk =>
    exact lts_burst_end (n := n) (e := e) hi hl hst r hb (Or.inr (Or.inr (Or.inl ⟨hfin, htk, rfl, rfl⟩)))
  | burstTok en r k hst hb hfin htk =>
    exact lts_burst_end (n := n) (e := e) hi hl hst r hb (Or.inr (Or.inr (Or.inr ⟨k, hfin, htk, rfl, rfl⟩)))
  | sendInit p m id h =>
    refine ⟨ltsOK_one .sendInit (.started (pktOf flow size id) (q.time + DRROnK.txTime size cfg.rate id)) (fun _ hp => by cases hp)
      ?_ rfl rfl, by rw [List.append_nil]; exact hl.congr rfl rfl rfl rfl⟩
    rw [h] at hrun
    have hph : (toM cfg.flows flow size a hist q.time).phase = .spawned (pktOf flow size id) := by simp [toM, mst, phaseOf, h]
    simp only [MQ.step, hph, txTime_eq]
    simp only [toM, mst, ctlOf, pcOf, phaseOf, h, Option.map_some, List.append_nil, hrun.2.2.1]
  | sendFire p t m id h =>
    rw [h] at hrun
    obtain ⟨-, hcur, hpk, -⟩ := hrun
    have hfid := hpk.1
    have hheld : a.run.held = some id := by simp [h, RPhase.held]
    have hk : flow id ∈ a.keys := by
      by_contra hk
      have h1 := (hi.keysOK.2 _ hfid hk).2.1
      have h2 := hi.cntOK _ hfid
      rw [heldCnt_some hheld, if_pos rfl] at h2
      have h5 : 0 ≤ holCnt a (flow id) := by unfold holCnt; split <;> omega
      omega
    have hkf : flow id ∈ cfg.flows := (mem_flows ht _).mpr hfid
    have hqv := hist_quiet (flow := flow) (size := size) hist (.out id q.time) (fun _ _ h => nomatch h) (fun _ _ h => nomatch h)
      (fun _ _ h => nomatch h) (fun _ _ h => nomatch h)
    refine ⟨ltsOK_one .sendFire (.depart (pktOf flow size id)) (fun _ hp => by cases hp) ?_ rfl rfl, ?_⟩
    · have hph : (toM cfg.flows flow size a hist q.time).phase = .sending (pktOf flow size id) q.time := by simp [toM, mst, phaseOf, h]
      have hnow : (toM cfg.flows flow size a hist q.time).now = q.time := rfl
      simp only [MQ.step, hph, hnow, lt_irrefl, if_false, countOut]
      simp only [toM, mst, ctlOf, pcOf, phaseOf, h, pktOf, bump_dictOf _ hn _ _ _ (fun h0 => absurd hk h0), addKey_of_mem _ _ hk,
        bump_dictOf _ hfn _ _ _ (fun h0 => absurd hkf h0), addKey_of_mem _ _ hkf, Option.map_none, hqv.1, hqv.2.1, hqv.2.2.1, hqv.2.2.2]
    · refine ⟨?_, ?_, ?_, ?_⟩
      · show a.keys = _; rw [putIds_append]; simpa [putIds] using hl.keys
      · show a.recv = _; rw [putIds_append]; simpa [putIds] using hl.recv
      · intro c hc; exact mem_parkKeys_append flow hist _ (hl.park c hc)
      · intro c hc; rw [hqv.2.2.1] at hc; exact hl.forf c hc
  | srcInit arr h => exact ⟨ltsOK_nothing (by simp only [List.append_nil]; rfl), by rw [List.append_nil]; exact hl.congr rfl rfl rfl rfl⟩
  | srcPutTok id arr h htot =>
    have hs := hi.src
    rw [h] at hs
    obtain ⟨hqp, hpk, -⟩ := hs
    have hfid := hpk.1
    have hkf : flow id ∈ cfg.flows := (mem_flows ht _).mpr hfid
    have hst : storeOf (dictOf a.keys fun f => (a.items f).map (pktOf flow size)) (flow id) = (a.items (flow id)).map (pktOf flow size) :=
      storeOf_dictOf _ _ _ (fun hk => by rw [(hi.keysOK.2 _ hfid hk).1]; rfl)
    have h0b : flow id ∉ a.keys → a.byt (flow id) = 0 := fun hk => (hi.keysOK.2 _ hfid hk).2.2
    have hrc : (a.recv + 1).toNat = a.recv.toNat + 1 := by have := hl.recv_nonneg; omega
    have hqv := hist_quiet (flow := flow) (size := size) hist (.put id q.time) (fun _ _ h => nomatch h) (fun _ _ h => nomatch h)
      (fun _ _ h => nomatch h) (fun _ _ h => nomatch h)
    have hactOk : DRR.ActOk (Lmax : ℚ) (.put (pktOf flow size id)) := by
      intro p hp
      cases hp
      exact_mod_cast hpk.2
    refine ⟨ltsOK_one (.put (pktOf flow size id)) .accepted hactOk ?_ rfl rfl, ?_⟩
    · have htt : MQ.total (toM cfg.flows flow size a hist q.time).queueCount = 0 := by
        simp only [toM, mst]; rw [total_flows ht]; exact htot
      have hon : (DRR.sched cfg).onPut (toM cfg.flows flow size a hist q.time).ctl (flow id) (pktOf flow size id) =
          .ok { (toM cfg.flows flow size a hist q.time).ctl with
            classCount := setKey (toM cfg.flows flow size a hist q.time).ctl.classCount (flow id) (a.ccnt (flow id) + 1) } := by
        simp only [DRR.sched, DRR.onPut, toM, mst, ctlOf, lookup_flows ht _ hfid]
      have hcl : (DRR.sched cfg).classOf (pktOf flow size id).flow = some (flow id) := classOf_id ht _
      simp only [MQ.step, MQ.doPut, hcl, hon]
      have htt' : MQ.total ({ toM cfg.flows flow size a hist q.time with
          ctl := { (toM cfg.flows flow size a hist q.time).ctl with
            classCount := setKey (toM cfg.flows flow size a hist q.time).ctl.classCount (flow id) (a.ccnt (flow id) + 1) } } :
          MQState ℚ (DRR.Ctl ℚ)).queueCount = 0 := htt
      simp only [postToken, htt', if_true, countIn, enqueue]
      simp only [toM, mst, ctlOf, pktOf, hst, setKey_dictOf _ hn, bump_dictOf _ hfn _ _ _ (fun h0 => absurd hkf h0), addKey_of_mem _ _ hkf,
        bump_dictOf _ hn _ _ _ h0b, hrc, setKey_flows ht _ hfid, hqv.1, hqv.2.1, hqv.2.2.1, hqv.2.2.2]
      congr 3
      rw [← upd_map]
      simp [pktOf]
    · refine ⟨?_, ?_, ?_, ?_⟩
      · show addKey a.keys _ = _
        rw [putIds_append, hl.keys]
        simp only [putIds]
        rw [keysOf_append]
      · show a.recv + 1 = _
        rw [putIds_append, hl.recv]
        simp [putIds]
      · intro c hc; exact mem_parkKeys_append flow hist _ (hl.park c hc)
      · intro c hc; rw [hqv.2.2.1] at hc; exact hl.forf c hc
  | srcPutPlain id arr h htot =>
    have hs := hi.src
    rw [h] at hs
    obtain ⟨hqp, hpk, -⟩ := hs
    have hfid := hpk.1
    have hkf : flow id ∈ cfg.flows := (mem_flows ht _).mpr hfid
    have hst : storeOf (dictOf a.keys fun f => (a.items f).map (pktOf flow size)) (flow id) = (a.items (flow id)).map (pktOf flow size) :=
      storeOf_dictOf _ _ _ (fun hk => by rw [(hi.keysOK.2 _ hfid hk).1]; rfl)
    have h0b : flow id ∉ a.keys → a.byt (flow id) = 0 := fun hk => (hi.keysOK.2 _ hfid hk).2.2
    have hrc : (a.recv + 1).toNat = a.recv.toNat + 1 := by have := hl.recv_nonneg; omega
    have hqv := hist_quiet (flow := flow) (size := size) hist (.put id q.time) (fun _ _ h => nomatch h) (fun _ _ h => nomatch h)
      (fun _ _ h => nomatch h) (fun _ _ h => nomatch h)
    have hactOk : DRR.ActOk (Lmax : ℚ) (.put (pktOf flow size id)) := by
      intro p hp
      cases hp
      exact_mod_cast hpk.2
    refine ⟨ltsOK_one (.put (pktOf flow size id)) .accepted hactOk ?_ rfl rfl, ?_⟩
    · have htt : ¬ MQ.total (toM cfg.flows flow size a hist q.time).queueCount = 0 := by
        simp only [toM, mst]; rw [total_flows ht]; exact htot
      have hon : (DRR.sched cfg).onPut (toM cfg.flows flow size a hist q.time).ctl (flow id) (pktOf flow size id) =
          .ok { (toM cfg.flows flow size a hist q.time).ctl with
            classCount := setKey (toM cfg.flows flow size a hist q.time).ctl.classCount (flow id) (a.ccnt (flow id) + 1) } := by
        simp only [DRR.sched, DRR.onPut, toM, mst, ctlOf, lookup_flows ht _ hfid]
      have hcl : (DRR.sched cfg).classOf (pktOf flow size id).flow = some (flow id) := classOf_id ht _
      simp only [MQ.step, MQ.doPut, hcl, hon]
      have htt' : ¬ MQ.total ({ toM cfg.flows flow size a hist q.time with
          ctl := { (toM cfg.flows flow size a hist q.time).ctl with
            classCount := setKey (toM cfg.flows flow size a hist q.time).ctl.classCount (flow id) (a.ccnt (flow id) + 1) } } :
          MQState ℚ (DRR.Ctl ℚ)).queueCount = 0 := htt
      simp only [postToken, htt', if_false, countIn, enqueue]
      simp only [toM, mst, ctlOf, pktOf, hst, setKey_dictOf _ hn, bump_dictOf _ hfn _ _ _ (fun h0 => absurd hkf h0), addKey_of_mem _ _ hkf,
        bump_dictOf _ hn _ _ _ h0b, hrc, setKey_flows ht _ hfid, hqv.1, hqv.2.1, hqv.2.2.1, hqv.2.2.2]
      congr 3
      rw [← upd_map]
      simp [pktOf]
    · refine ⟨?_, ?_, ?_, ?_⟩
      · show addKey a.keys _ = _
        rw [putIds_append, hl.keys]
        simp only [putIds]
        rw [keysOf_append]
      · show a.recv + 1 = _
        rw [putIds_append, hl.recv]
        simp [putIds]
      · intro c hc; exact mem_parkKeys_append flow hist _ (hl.park c hc)
      · intro c hc; rw [hqv.2.2.1] at hc; exact hl.forf c hc
  | srcEnd h => exact ⟨ltsOK_nothing (by simp only [List.append_nil]; rfl), by rw [List.append_nil]; exact hl.congr rfl rfl rfl rfl⟩
  | pendNoop r l1 l2 hpe hno => exact ⟨ltsOK_nothing (by simp only [List.append_nil]; rfl), by rw [List.append_nil]; exact hl.congr rfl rfl rfl rfl⟩
  | pendHand g t l1 l2 hpe h htk =>
    refine ⟨ltsOK_one .tokenHandoff .nothing (fun _ hp => by cases hp) ?_ rfl rfl, by rw [List.append_nil]; exact hl.congr rfl rfl rfl rfl⟩
    have hph : (toM cfg.flows flow size a hist q.time).phase = .waitToken := by simp [toM, mst, phaseOf, h]
    have htk' : (toM cfg.flows flow size a hist q.time).tokens = t + 1 := htk
    simp only [MQ.step, hph, htk']
    simp only [toM, mst, ctlOf, pcOf, phaseOf, h, List.append_nil]

/-! ## the clock -/

/-- the LTS accepts the clock advance to the next entry -/
theorem lts_tick {a : A} {hist : List (HEv ℚ)} (hi : AInv flow F size cfg Lmax P a now) (hq : IsMin a q) (h : now < q.time) :
    MQ.step (DRR.sched cfg) (toM cfg.flows flow size a hist now) (.tick q.time) = .ok (toM cfg.flows flow size a hist q.time, .nothing) := by
  have hne : ∀ x ∈ a.entries, x.time ≠ now := fun x hx hxt => absurd (hi.time_eq hq hx hxt) (ne_of_gt h)
  have hp := hi.run
  have hnlt : ¬ q.time < now := not_lt.mpr (le_of_lt h)
  cases hr : a.run with
  | init q0 => rw [hr] at hp; exact absurd hp.1 (hne q0 (mem_run (by simp [hr, RPhase.entries])))
  | K g q0 => rw [hr] at hp; exact absurd hp.1 (hne q0 (mem_run (by simp [hr, RPhase.entries])))
  | H g m id q0 => rw [hr] at hp; exact absurd hp.1 (hne q0 (mem_run (by simp [hr, RPhase.entries])))
  | S p m id q0 => rw [hr] at hp; exact absurd hp.1 (hne q0 (mem_run (by simp [hr, RPhase.entries])))
  | F p m id q0 => rw [hr] at hp; exact absurd hp.1 (hne q0 (mem_run (by simp [hr, RPhase.entries])))
  | T p t m id q0 =>
    have h2 : ¬ q0.time < q.time := not_lt.mpr (not_keyLt_time (hq.2 q0 (mem_run (by simp [hr, RPhase.entries]))))
    simp [MQ.step, doTick, toM, mst, phaseOf, pcOf, hr, hnlt, h2]
  | W g =>
    rw [hr] at hp
    have htk : a.tokens = 0 := by
      by_contra hc
      obtain ⟨u, hu⟩ := hp.2.1 hc
      exact hne u (mem_pend hu) (hi.pend _ hu).1
    simp [MQ.step, doTick, toM, mst, phaseOf, pcOf, hr, hnlt, htk]

/-- zero or one `tick` brings the LTS to the instant of the next entry -/
theorem lts_advance {a : A} {hist : List (HEv ℚ)} (hi : AInv flow F size cfg Lmax P a now) (hq : IsMin a q) :
    ∃ acts, acts.length ≤ 1 ∧ (∀ x ∈ acts, DRR.ActOk (Lmax : ℚ) x) ∧
      runActs (DRR.sched cfg) (toM cfg.flows flow size a hist now) acts = .ok (toM cfg.flows flow size a hist q.time, [], []) := by
  rcases eq_or_lt_of_le (hi.now_le hq) with h | h
  · exact ⟨[], Nat.zero_le _, (by intro x hx; cases hx), (by rw [← h]; rfl)⟩
  · refine ⟨[.tick q.time], Nat.le_refl _, (by intro x hx; simp only [List.mem_singleton] at hx; rw [hx]; exact fun p hp => by cases hp), ?_⟩
    simp only [runActs, lts_tick hi hq h]
    rfl

/-! ## the classes seen parked or reset are declared classes -/

/-- every parked packet of the observations satisfies `Pk`, every class that is reset `Pr` -/
def EvsOK (Pk : Int → Prop) (Pr : Nat → Prop) (l : List (HEv ℚ)) : Prop :=
  ∀ ev ∈ l, (∀ id t, ev = .park id t → Pk id) ∧ (∀ c t, ev = .reset c t → Pr c)

theorem EvsOK.append {Pk : Int → Prop} {Pr : Nat → Prop} {l1 l2 : List (HEv ℚ)} (h1 : EvsOK Pk Pr l1) (h2 : EvsOK Pk Pr l2) :
    EvsOK Pk Pr (l1 ++ l2) := by
  intro ev hev
  rcases List.mem_append.mp hev with h | h
  · exact h1 ev h
  · exact h2 ev h

theorem evsOK_nil {Pk : Int → Prop} {Pr : Nat → Prop} : EvsOK Pk Pr [] := by intro ev hev; cases hev

section
variable {Q : Nat → ℚ} {ccnt : Nat → Int} {hol : Nat → Option Int} {t : ℚ} {total : Int} {ws : List (Nat × Nat)}
variable {Pk : Int → Prop} {Pr : Nat → Prop}

theorem evsOK_visitAdd (c : Nat) (L : LS) (h : EvsOK Pk Pr L.evs) : EvsOK Pk Pr (visitAdd Q ccnt t c L).evs := by
  unfold visitAdd
  split
  · refine h.append ?_
    intro ev hev
    simp only [List.mem_singleton] at hev
    subst hev
    exact ⟨fun _ _ h => (nomatch h), fun _ _ h => (nomatch h)⟩
  · exact h

theorem evsOK_innerAt (m c : Nat) (L : LS) (hP : ∀ id, hol c = some id → Pk id) (h : EvsOK Pk Pr L.evs) :
    EvsOK Pk Pr (innerAt size ccnt hol t m c L).1.evs := by
  unfold innerAt
  split
  · cases hh : hol c with
    | none => exact h
    | some id =>
      simp only
      split
      · exact h
      · refine h.append ?_
        intro ev hev
        simp only [List.mem_singleton] at hev
        subst hev
        refine ⟨fun id' _ heq => ?_, fun _ _ h => (nomatch h)⟩
        cases heq
        exact hP id hh
  · exact h

theorem evsOK_visitFrom (hP : ∀ e ∈ ws, ∀ id, hol e.1 = some id → Pk id) : ∀ (ws' : List (Nat × Nat)) (m : Nat) (L : LS),
    (∀ e ∈ ws', e ∈ ws) → EvsOK Pk Pr L.evs → EvsOK Pk Pr (visitFrom Q size ccnt hol t m ws' L).1.evs
  | [], _, L, _, h => h
  | (c, w) :: rest, m, L, hsub, h => by
    rw [visitFrom]
    have h1 := evsOK_innerAt (size := size) (ccnt := ccnt) (hol := hol) (t := t) (Pk := Pk) (Pr := Pr) m c _
      (hP (c, w) (hsub _ List.mem_cons_self)) (evsOK_visitAdd (Q := Q) (ccnt := ccnt) (t := t) c L h)
    cases hr : innerAt size ccnt hol t m c (visitAdd Q ccnt t c L) with
    | mk L' oe =>
      rw [hr] at h1
      cases oe with
      | some e => exact h1
      | none => exact evsOK_visitFrom hP rest (m + 1) L' (fun e he => hsub e (List.mem_cons_of_mem _ he)) h1

theorem evsOK_passes (hP : ∀ e ∈ ws, ∀ id, hol e.1 = some id → Pk id) : ∀ (k : Nat) (L : LS), EvsOK Pk Pr L.evs →
    EvsOK Pk Pr (passes Q size ccnt hol t total ws k L).1.evs
  | 0, L, h => h
  | k + 1, L, h => by
    rw [passes]
    split
    · have h1 := evsOK_visitFrom (Q := Q) (size := size) (ccnt := ccnt) (t := t) hP ws 0 L (fun e he => he) h
      cases hr : visitFrom Q size ccnt hol t 0 ws L with
      | mk L' oe =>
        rw [hr] at h1
        cases oe with
        | some e => exact h1
        | none => exact evsOK_passes hP k L' h1
    · split <;> exact h

theorem evsOK_thenPasses (hP : ∀ e ∈ ws, ∀ id, hol e.1 = some id → Pk id) (P : Nat) (piece : LS × Option LoopEnd)
    (h : EvsOK Pk Pr piece.1.evs) : EvsOK Pk Pr (thenPasses Q size ccnt hol t total ws P piece).1.evs := by
  obtain ⟨L', oe⟩ := piece
  cases oe with
  | some e => exact h
  | none => exact evsOK_passes hP P L' h

end

/-- **what a burst lets observe**: the packets it parks are packets of declared classes, the classes it resets are declared -/
theorem burst_evs_ok {a : A} {en : Entry} (hi : AInv flow F size cfg Lmax P a now) (hst : StartsAt a q en) :
    EvsOK (fun id => flow id < F) (fun c => c < F) (a.burst F (qOf cfg) size cfg.weights P now en).evs := by
  have ht := hi.table
  have hP0 : ∀ e ∈ cfg.weights, ∀ id, a.hol e.1 = some id → flow id < F := by
    intro e he id h
    have := hi.holOK e.1 (entry_lt ht he) id h
    rw [this.1]; exact entry_lt ht he
  cases en with
  | top =>
    simp only [A.burst, finish, List.nil_append]
    exact evsOK_passes hP0 P _ evsOK_nil
  | got m id =>
    obtain ⟨g, h⟩ := hst
    have hrun := hi.run
    rw [h] at hrun
    obtain ⟨-, -, -, hpk, ⟨w, hw⟩, -⟩ := hrun
    obtain ⟨rest, hd⟩ := drop_of_getElem? hw
    simp only [A.burst, hd]
    split
    · exact evsOK_nil
    · simp only [finish]
      have hP1 : ∀ e ∈ cfg.weights, ∀ id', upd a.hol (flow id) (some id) e.1 = some id' → flow id' < F := by
        intro e he id' h'
        by_cases hec : e.1 = flow id
        · rw [hec, upd_same] at h'; cases h'; exact hpk.1
        · rw [upd_ne _ _ _ _ hec] at h'; exact hP0 e he id' h'
      refine EvsOK.append ?_ (evsOK_thenPasses hP1 P _ (evsOK_visitFrom hP1 rest (m + 1) _
        (fun e he => List.mem_of_mem_drop (by rw [hd]; exact List.mem_cons_of_mem _ he)) evsOK_nil))
      intro ev hev
      simp only [List.mem_singleton] at hev
      subst hev
      refine ⟨fun id' _ heq => ?_, fun _ _ h => (nomatch h)⟩
      cases heq
      exact hpk.1
  | done m id =>
    obtain ⟨p, h⟩ := hst
    have hrun := hi.run
    rw [h] at hrun
    obtain ⟨-, -, -, hpk, ⟨w, hw⟩, -⟩ := hrun
    obtain ⟨rest, hd⟩ := drop_of_getElem? hw
    simp only [A.burst, hd, finish]
    have hP1 : ∀ e ∈ cfg.weights, ∀ id', (a.book size (flow id) id).hol e.1 = some id' → flow id' < F := by
      rw [book_hol]; exact hP0
    refine EvsOK.append ?_ (evsOK_thenPasses hP1 P _ ?_)
    · unfold bookEvs
      split
      · intro ev hev
        simp only [List.mem_cons, List.not_mem_nil, or_false] at hev
        rcases hev with rfl | rfl
        · exact ⟨fun _ _ h => (nomatch h), fun _ _ h => (nomatch h)⟩
        · refine ⟨fun _ _ h => (nomatch h), fun c _ heq => ?_⟩
          cases heq
          exact hpk.1
      · intro ev hev
        simp only [List.mem_singleton] at hev
        subst hev
        exact ⟨fun _ _ h => (nomatch h), fun _ _ h => (nomatch h)⟩
    · have h1 := evsOK_innerAt (size := size) (ccnt := (a.book size (flow id) id).ccnt) (hol := (a.book size (flow id) id).hol)
        (t := now) (Pk := fun id => flow id < F) (Pr := fun c => c < F) m (flow id) ⟨(a.book size (flow id) id).dfc, []⟩
        (hP1 (flow id, w) (List.mem_of_getElem? hw)) evsOK_nil
      cases hr : innerAt size (a.book size (flow id) id).ccnt (a.book size (flow id) id).hol now m (flow id)
          ⟨(a.book size (flow id) id).dfc, []⟩ with
      | mk L' oe =>
        rw [hr] at h1
        cases oe with
        | some e => exact h1
        | none =>
          exact evsOK_visitFrom hP1 rest (m + 1) L'
            (fun e he => List.mem_of_mem_drop (by rw [hd]; exact List.mem_cons_of_mem _ he)) h1

/-- the classes seen parked or reset so far are declared classes -/
def HOK (F : Nat) (flow : Int → Nat) (hist : List (HEv ℚ)) : Prop := EvsOK (fun id => flow id < F) (fun c => c < F) hist

theorem hok_step {a a' : A} {hist new : List (HEv ℚ)} (hi : AInv flow F size cfg Lmax P a q.time) (hh : HOK F flow hist)
    (hs : AStep F flow size cfg P n e a q a' new) : HOK F flow (hist ++ new) := by
  refine EvsOK.append hh ?_
  have one : ∀ (ev : HEv ℚ), (∀ id t, ev ≠ .park id t) → (∀ c t, ev ≠ .reset c t) →
      EvsOK (fun id => flow id < F) (fun c => c < F) [ev] := by
    intro ev h1 h2 x hx
    simp only [List.mem_singleton] at hx
    subst hx
    exact ⟨fun id t h => absurd h (h1 id t), fun c t h => absurd h (h2 c t)⟩
  cases hs with
  | burstGet en r m' c' id' is hst hb hfin hc' hit => exact hb ▸ burst_evs_ok hi hst
  | burstSend en r m' c' id' pk hst hb hfin =>
    exact (hb ▸ burst_evs_ok hi hst).append (one _ (fun _ _ h => nomatch h) (fun _ _ h => nomatch h))
  | burstBlock en r hst hb hfin htk =>
    exact (hb ▸ burst_evs_ok hi hst).append (one _ (fun _ _ h => nomatch h) (fun _ _ h => nomatch h))
  | burstTok en r k hst hb hfin htk =>
    exact (hb ▸ burst_evs_ok hi hst).append (one _ (fun _ _ h => nomatch h) (fun _ _ h => nomatch h))
  | sendInit p m id h => exact evsOK_nil
  | sendFire p t m id h => exact one _ (fun _ _ h => nomatch h) (fun _ _ h => nomatch h)
  | srcInit arr h => exact evsOK_nil
  | srcPutTok id arr h htot => exact one _ (fun _ _ h => nomatch h) (fun _ _ h => nomatch h)
  | srcPutPlain id arr h htot => exact one _ (fun _ _ h => nomatch h) (fun _ _ h => nomatch h)
  | srcEnd h => exact evsOK_nil
  | pendNoop r l1 l2 hpe hno => exact evsOK_nil
  | pendHand g t l1 l2 hpe h htk => exact evsOK_nil

theorem hok_parkKeys {hist : List (HEv ℚ)} (hh : HOK F flow hist) : ∀ c ∈ parkKeys flow hist, c < F := by
  unfold parkKeys
  unfold HOK at hh
  generalize hacc : ([] : List Nat) = acc
  have hlt : ∀ c ∈ acc, c < F := by rw [← hacc]; intro c hc; cases hc
  clear hacc
  induction hist generalizing acc with
  | nil => exact hlt
  | cons ev r ih =>
    simp only [List.foldl_cons]
    apply ih (fun x hx => hh x (List.mem_cons_of_mem _ hx))
    cases ev with
    | park id t =>
      intro c hc
      rcases (mem_addKey _ _ _).mp hc with h | rfl
      · exact hlt c h
      · exact (hh _ List.mem_cons_self).1 id t rfl
    | _ => exact hlt

theorem hok_forfKeys {hist : List (HEv ℚ)} (hh : HOK F flow hist) : ∀ c ∈ forfKeys hist, c < F := by
  unfold forfKeys
  unfold HOK at hh
  generalize hacc : ([] : List Nat) = acc
  have hlt : ∀ c ∈ acc, c < F := by rw [← hacc]; intro c hc; cases hc
  clear hacc
  induction hist generalizing acc with
  | nil => exact hlt
  | cons ev r ih =>
    simp only [List.foldl_cons]
    apply ih (fun x hx => hh x (List.mem_cons_of_mem _ hx))
    cases ev with
    | reset c0 t =>
      intro c hc
      rcases (mem_addKey _ _ _).mp hc with h | rfl
      · exact hlt c h
      · exact (hh _ List.mem_cons_self).2 c t rfl
    | _ => exact hlt

end DRRK
