import Mathlib.Data.List.Perm.Basic
import OnlVerif.Lemmas.StrandScan
/-!
# The resource operations re-establish the loop invariant

`_trigger_put`, `_trigger_get`, `Put.__init__`, `Get.__init__`, `cancel` are the atomic units: each of them ends with
a complete scan of the queue it disturbed.
-/

variable {σ : Type}

theorem J.tail {s : KState ℚ σ} {rem : List Cb} {cb : Cb} (h : J s (cb :: rem)) (hc : cb.isTrig = false) : J s rem := by
  refine ⟨h.pkg, fun c hm => h.chk c (List.mem_cons_of_mem _ hm), fun r => ⟨?_, ?_⟩⟩
  · rcases (h.main r).1 with hb | hp
    · exact Or.inl hb
    · exact Or.inr (hp.tail (by intro heq; rw [← heq] at hc; cases hc))
  · rcases (h.main r).2 with hb | hp
    · exact Or.inl hb
    · exact Or.inr (hp.tail (by intro heq; rw [← heq] at hc; cases hc))

/-- a complete scan of the put queue of `r` restores the invariant, provided it held for everything but the puts of `r` -/
theorem J.scanPuts {s : KState ℚ σ} {rem : List Cb} {r : ResId} (hp : Pkg s none) (hc : ChkRem s rem)
    (hg : ∀ r', MainG s rem r') (hpo : ∀ r', r' ≠ r → MainP s rem r') :
    J (triggerPut s r) rem ∧ Fr s (triggerPut s r) := by
  obtain ⟨a, b, c, d, e⟩ := triggerPut_post hp r
  refine ⟨⟨a, hc.fr b.fr, fun r' => ⟨?_, ?_⟩⟩, b.fr⟩
  · by_cases hr : r' = r
    · subst hr; exact Or.inl d
    · exact (hpo r' hr).mono hp b.fr (SameContents.of_eq (b.other r' hr)) (by rw [b.other r' hr])
  · by_cases hr : r' = r
    · subst hr
      rcases e with e | e
      · rw [e]; exact hg r'
      · exact Or.inr (e rem)
    · exact (hg r').mono hp b.fr (SameContents.of_eq (b.other r' hr)) (by rw [b.other r' hr])

theorem J.scanGets {s : KState ℚ σ} {rem : List Cb} {r : ResId} (hp : Pkg s none) (hc : ChkRem s rem)
    (hpa : ∀ r', MainP s rem r') (hgo : ∀ r', r' ≠ r → MainG s rem r') :
    J (triggerGet s r) rem ∧ Fr s (triggerGet s r) := by
  obtain ⟨a, b, c, d, e⟩ := triggerGet_post hp r
  refine ⟨⟨a, hc.fr b.fr, fun r' => ⟨?_, ?_⟩⟩, b.fr⟩
  · by_cases hr : r' = r
    · subst hr
      rcases e with e | e
      · rw [e]; exact hpa r'
      · exact Or.inr (e rem)
    · exact (hpa r').mono hp b.fr (SameContents.of_eq (b.other r' hr)) (by rw [b.other r' hr])
  · by_cases hr : r' = r
    · subst hr; exact Or.inl d
    · exact (hgo r' hr).mono hp b.fr (SameContents.of_eq (b.other r' hr)) (by rw [b.other r' hr])

/-- the rescan callbacks of a step -/
theorem J.cbTrigPut {s : KState ℚ σ} {rem : List Cb} {r : ResId} (h : J s (.trigPut r :: rem)) :
    J (triggerPut s r) rem ∧ Fr s (triggerPut s r) := by
  refine J.scanPuts h.pkg (fun c hm => h.chk c (List.mem_cons_of_mem _ hm)) ?_ ?_
  · intro r'
    rcases (h.main r').2 with hb | hp
    · exact Or.inl hb
    · exact Or.inr (hp.tail (by simp))
  · intro r' hr
    rcases (h.main r').1 with hb | hp
    · exact Or.inl hb
    · exact Or.inr (hp.tail (by intro heq; injection heq with h1; exact hr h1))

theorem J.cbTrigGet {s : KState ℚ σ} {rem : List Cb} {r : ResId} (h : J s (.trigGet r :: rem)) :
    J (triggerGet s r) rem ∧ Fr s (triggerGet s r) := by
  refine J.scanGets h.pkg (fun c hm => h.chk c (List.mem_cons_of_mem _ hm)) ?_ ?_
  · intro r'
    rcases (h.main r').1 with hb | hp
    · exact Or.inl hb
    · exact Or.inr (hp.tail (by simp))
  · intro r' hr
    rcases (h.main r').2 with hb | hp
    · exact Or.inl hb
    · exact Or.inr (hp.tail (by intro heq; injection heq with h1; exact hr h1))

/-! ## rewriting a queue -/

theorem setPutQ_same (s : KState ℚ σ) (r : ResId) (q : List EvId) (r' : ResId) :
    SameContents ((s.setPutQ r q).res r') (s.res r') ∧ ((s.setPutQ r q).res r').getQ = (s.res r').getQ ∧
    (r' ≠ r → (s.setPutQ r q).res r' = s.res r') := by
  unfold KState.setPutQ
  rw [KState.res_setRes]
  split
  · rename_i hc
    rw [hc.1]
    exact ⟨⟨rfl, rfl, rfl, rfl, rfl⟩, rfl, fun h => absurd rfl h⟩
  · exact ⟨SameContents.rfl' _, rfl, fun _ => rfl⟩

theorem setGetQ_same (s : KState ℚ σ) (r : ResId) (q : List EvId) (r' : ResId) :
    SameContents ((s.setGetQ r q).res r') (s.res r') ∧ ((s.setGetQ r q).res r').putQ = (s.res r').putQ ∧
    (r' ≠ r → (s.setGetQ r q).res r' = s.res r') := by
  unfold KState.setGetQ
  rw [KState.res_setRes]
  split
  · rename_i hc
    rw [hc.1]
    exact ⟨⟨rfl, rfl, rfl, rfl, rfl⟩, rfl, fun h => absurd rfl h⟩
  · exact ⟨SameContents.rfl' _, rfl, fun _ => rfl⟩

theorem insertSorted_perm (s : KState ℚ σ) (e : EvId) : ∀ q : List EvId, (insertSorted s e q).Perm (e :: q)
  | [] => List.Perm.refl _
  | x :: xs => by
    unfold insertSorted
    split
    · exact List.Perm.refl _
    · exact ((insertSorted_perm s e xs).cons x).trans (List.Perm.swap _ _ _)

/-! ## `Put.__init__`, `Get.__init__` -/

theorem J.newPut {s : KState ℚ σ} {rem : List Cb} (h : J s rem) (r : ResId) (rq : ReqData ℚ) :
    J (mkPut s r rq).1 rem ∧ Fr s (mkPut s r rq).1 := by
  have hp1 := Pushed.newLabelled s { kind := .put r, cbs := some [.trigGet r], out := none, req := some rq }
  generalize hs1 : (s.newLabelled { kind := .put r, cbs := some [.trigGet r], out := none, req := some rq }).1 = s1 at hp1
  have hmk : (mkPut s r rq).1 = triggerPut (enqPut s1 r s.events.size) r := by
    rw [← hs1]; rfl
  rw [hmk]
  have pkg1 : Pkg s1 none := hp1.pkg h.pkg (by
    intro l c hl hm
    simp only [Option.some.injEq] at hl
    subst hl; simp at hm)
  have j1 : J s1 rem := h.nr pkg1 hp1.nr
  -- the enqueue
  have hnew : ∀ x ∈ (if isPrioKind (s1.res r).kind then insertSorted s1 s.events.size (s1.res r).putQ
      else (s1.res r).putQ ++ [s.events.size]), x = s.events.size ∨ x ∈ (s1.res r).putQ := by
    intro x hx
    split at hx
    · exact List.mem_cons.mp ((insertSorted_perm s1 _ _).subset hx)
    · rcases List.mem_append.mp hx with hx | hx
      · exact Or.inr hx
      · exact Or.inl (List.mem_singleton.mp hx)
  have hfresh : s.events.size ∉ (s1.res r).putQ := by
    intro hm
    obtain ⟨l, hl, _⟩ := (h.pkg.putQ r _ (hp1.res r ▸ hm)).2.2
    exact Nat.lt_irrefl _ (KState.lt_of_cbs hl)
  have hnd : (if isPrioKind (s1.res r).kind then insertSorted s1 s.events.size (s1.res r).putQ
      else (s1.res r).putQ ++ [s.events.size]).Nodup := by
    have base : (s.events.size :: (s1.res r).putQ).Nodup := List.nodup_cons.mpr ⟨hfresh, pkg1.nodupP r⟩
    split
    · exact (insertSorted_perm s1 _ _).nodup_iff.mpr base
    · exact (List.perm_append_singleton _ _).nodup_iff.mpr base
  have pkg2 : Pkg (enqPut s1 r s.events.size) none := by
    unfold enqPut KState.setPutQ
    refine pkg1.setRes r _ rfl rfl ?_ hnd (fun x hx => Or.inl hx) (pkg1.nodupG r) (pkg1.usersIn r) (pkg1.usersLe r)
    intro x hx
    rcases hnew x hx with rfl | hx
    · right
      rw [hp1.ev_new]
      exact ⟨rfl, rfl, [.trigGet r], rfl, List.mem_singleton.mpr rfl⟩
    · exact Or.inl hx
  have fr2 : Fr s1 (enqPut s1 r s.events.size) := by
    unfold enqPut KState.setPutQ
    exact Fr.setRes s1 r _ rfl rfl
  have hsame := fun r' => setPutQ_same s1 r (if isPrioKind (s1.res r).kind then insertSorted s1 s.events.size (s1.res r).putQ
      else (s1.res r).putQ ++ [s.events.size]) r'
  obtain ⟨j3, f3⟩ := J.scanPuts (r := r) (rem := rem) pkg2 (j1.chk.fr fr2)
    (fun r' => (j1.main r').2.mono pkg1 fr2 (hsame r').1 (hsame r').2.1)
    (fun r' hr => (j1.main r').1.mono pkg1 fr2 (SameContents.of_eq ((hsame r').2.2 hr)) (by
      show ((s1.setPutQ r _).res r').putQ = _
      rw [(hsame r').2.2 hr]))
  exact ⟨j3, (hp1.nr.fr.trans fr2).trans f3⟩

theorem J.newGet {s : KState ℚ σ} {rem : List Cb} (h : J s rem) (r : ResId) (rq : ReqData ℚ) :
    J (mkGet s r rq).1 rem ∧ Fr s (mkGet s r rq).1 := by
  have hp1 := Pushed.newLabelled s { kind := .get r, cbs := some [.trigPut r], out := none, req := some rq }
  generalize hs1 : (s.newLabelled { kind := .get r, cbs := some [.trigPut r], out := none, req := some rq }).1 = s1 at hp1
  have hmk : (mkGet s r rq).1 = triggerGet (enqGet s1 r s.events.size) r := by
    rw [← hs1]; rfl
  rw [hmk]
  have pkg1 : Pkg s1 none := hp1.pkg h.pkg (by
    intro l c hl hm
    simp only [Option.some.injEq] at hl
    subst hl; simp at hm)
  have j1 : J s1 rem := h.nr pkg1 hp1.nr
  have hfresh : s.events.size ∉ (s1.res r).getQ := by
    intro hm
    obtain ⟨l, hl, _⟩ := (h.pkg.getQ r _ (hp1.res r ▸ hm)).2.2
    exact Nat.lt_irrefl _ (KState.lt_of_cbs hl)
  have hnd : ((s1.res r).getQ ++ [s.events.size]).Nodup :=
    (List.perm_append_singleton _ _).nodup_iff.mpr (List.nodup_cons.mpr ⟨hfresh, pkg1.nodupG r⟩)
  have pkg2 : Pkg (enqGet s1 r s.events.size) none := by
    unfold enqGet KState.setGetQ
    refine pkg1.setRes r _ rfl rfl (fun x hx => Or.inl hx) (pkg1.nodupP r) ?_ hnd (pkg1.usersIn r) (pkg1.usersLe r)
    intro x hx
    rcases List.mem_append.mp hx with hx | hx
    · exact Or.inl hx
    · right
      rw [List.mem_singleton.mp hx, hp1.ev_new]
      exact ⟨rfl, rfl, [.trigPut r], rfl, List.mem_singleton.mpr rfl⟩
  have fr2 : Fr s1 (enqGet s1 r s.events.size) := by
    unfold enqGet KState.setGetQ
    exact Fr.setRes s1 r _ rfl rfl
  have hsame := fun r' => setGetQ_same s1 r ((s1.res r).getQ ++ [s.events.size]) r'
  obtain ⟨j3, f3⟩ := J.scanGets (r := r) (rem := rem) pkg2 (j1.chk.fr fr2)
    (fun r' => (j1.main r').1.mono pkg1 fr2 (hsame r').1 (hsame r').2.1)
    (fun r' hr => (j1.main r').2.mono pkg1 fr2 (SameContents.of_eq ((hsame r').2.2 hr)) (by
      show ((s1.setGetQ r _).res r').getQ = _
      rw [(hsame r').2.2 hr]))
  exact ⟨j3, (hp1.nr.fr.trans fr2).trans f3⟩

/-! ## `cancel` -/

theorem J.cancel {s : KState ℚ σ} {rem : List Cb} (h : J s rem) (e : EvId) :
    J (cancelReq s e).1 rem ∧ Fr s (cancelReq s e).1 := by
  unfold cancelReq
  split
  · exact ⟨h, Fr.refl s⟩
  · split
    · rename_i r _
      split
      · obtain ⟨p1, r1⟩ := dropPutQ_pkg h.pkg r e
        have hsame := fun r' => setPutQ_same s r ((s.res r).putQ.erase e) r'
        obtain ⟨j3, f3⟩ := J.scanPuts (r := r) (rem := rem) p1 (h.chk.fr r1.fr)
          (fun r' => (h.main r').2.mono h.pkg r1.fr (hsame r').1 (hsame r').2.1)
          (fun r' hr => (h.main r').1.mono h.pkg r1.fr (SameContents.of_eq (r1.other r' hr)) (by rw [r1.other r' hr]))
        exact ⟨j3, r1.fr.trans f3⟩
      · exact ⟨h, Fr.refl s⟩
    · rename_i r _
      split
      · obtain ⟨p1, r1⟩ := dropGetQ_pkg h.pkg r e
        have hsame := fun r' => setGetQ_same s r ((s.res r).getQ.erase e) r'
        obtain ⟨j3, f3⟩ := J.scanGets (r := r) (rem := rem) p1 (h.chk.fr r1.fr)
          (fun r' => (h.main r').1.mono h.pkg r1.fr (hsame r').1 (hsame r').2.1)
          (fun r' hr => (h.main r').2.mono h.pkg r1.fr (SameContents.of_eq (r1.other r' hr)) (by rw [r1.other r' hr]))
        exact ⟨j3, r1.fr.trans f3⟩
      · exact ⟨h, Fr.refl s⟩
    · exact ⟨h, Fr.refl s⟩
