import OnlVerif.Lemmas.SplitUntil
import OnlVerif.Lemmas.Scalar
/-!
# A concrete split run (non-vacuity of the C03 split-transparency theorems)

Two processes.  `A` creates an event `ev`, publishes it, sleeps 2, succeeds `ev` with 7, sleeps 1, logs.  `B` sleeps 1,
fetches `ev`, waits for it, logs the value it got, sleeps 5, logs.  The run is cut as
`step(); step(); run(until=ev); run(until=6); run()` and compared with the single `run()`.
All states are computed by the model itself; facts about them are checked by kernel evaluation.
-/

deriving instance DecidableEq for Val
deriving instance DecidableEq for Exc
deriving instance DecidableEq for Outcome
deriving instance DecidableEq for Resume
deriving instance DecidableEq for Obs

namespace SplitDemo

abbrev St := Nat × EvId

def prog : Nat → EvId → Resume → Burst ℚ St
  | 0, _, _ => .call .event fun rp => match rp with
      | .ev ev => .call (.store 0 (.ev ev)) fun _ => .call (.timeout 2 .none) fun rp2 => match rp2 with
          | .ev t => .yield t (1, ev)
          | _ => .ret .none
      | _ => .ret .none
  | 1, ev, _ => .call (.succeed ev (.int 7)) fun _ => .call (.timeout 1 .none) fun rp => match rp with
      | .ev t => .yield t (2, ev)
      | _ => .ret .none
  | 2, _, _ => .call (.log "A-done" .none) fun _ => .ret .none
  | 10, _, _ => .call (.timeout 1 .none) fun rp => match rp with
      | .ev t => .yield t (11, 0)
      | _ => .ret .none
  | 11, _, _ => .call (.load 0) fun rp => match rp with
      | .val (.ev ev) => .call (.log "B-wait" (.ev ev)) fun _ => .yield ev (12, ev)
      | _ => .ret .none
  | 12, _, r => .call (.log "B-got" (match r with | .value v => v | _ => .none)) fun _ =>
      .call (.timeout 5 .none) fun rp => match rp with
        | .ev t => .yield t (13, 0)
        | _ => .ret .none
  | 13, _, _ => .call (.log "B-done" .none) fun _ => .ret .none
  | _, _, _ => .ret .none

def body : St → Resume → Burst ℚ St := fun st r => prog st.1 st.2 r

/-- a fresh environment after `env.process(A)`, `env.process(B)` -/
def s0 : KState ℚ St :=
  [Call.spawn (0, 0), Call.spawn (10, 0)].foldl (fun s c => (doCall s 0 c).1) { now := 0 }

def stOf (r : StepResult ℚ St) (d : KState ℚ St) : KState ℚ St := (r.st?).getD d

def RunResult.st : RunResult ℚ St → KState ℚ St
  | .returned _ s => s
  | .raised _ s => s
  | .outOfFuel s => s

def RunResult.val? : RunResult ℚ St → Option Val
  | .returned v _ => some v
  | _ => none

theorem returned_of_val (r : RunResult ℚ St) (v : Val) (h : RunResult.val? r = some v) : r = .returned v (RunResult.st r) := by
  cases r <;> simp only [RunResult.val?, Option.some.injEq] at h <;> first | (subst h; rfl) | cases h

/-- after `step(); step()`: both processes have started, `ev` (event 4) exists -/
def s2 : KState ℚ St := stOf (stepN body 3 2 s0) s0
/-- the event `A` created -/
def ev : EvId := 4
/-- `run(until=ev)` -/
def r5 : RunResult ℚ St := runUntilEvent body 3 20 ev s2
def s5 : KState ℚ St := RunResult.st r5
/-- `run(until=6)` -/
def r6 : RunResult ℚ St := runUntilTime body 3 20 6 s5
def s6 : KState ℚ St := RunResult.st r6
/-- `run()` -/
def r9 : RunResult ℚ St := runAll body 3 20 s6
/-- the single uninterrupted `run()` -/
def rAll : RunResult ℚ St := runAll body 3 20 s0

theorem allStopFree_init : AllStopFree ({ now := 0 } : KState ℚ St) := by
  apply (StopFree.iff _ _).mpr
  intro e _
  exact KState.hasStop_default _ e (Nat.zero_le _)

theorem allStopFree_doCall (s : KState ℚ St) (self : EvId) (c : Call ℚ St) (h : AllStopFree s) :
    AllStopFree (doCall s self c).1 := by
  have := doCall_stripBy (fun _ => true) s self c
  rw [show s.stripBy (fun _ => true) = s from h] at this
  exact (congrArg Prod.fst this).symm

theorem s0_stopFree : AllStopFree s0 :=
  allStopFree_doCall _ _ _ (allStopFree_doCall _ _ _ allStopFree_init)

theorem s2_steps : stepN body 3 2 s0 = .ok s2 := by
  have h : ∀ r : StepResult ℚ St, (match r with | .ok _ => true | _ => false) = true → r = .ok (stOf r s0) := by
    intro r hr; cases r <;> first | rfl | cases hr
  exact h _ (by decide +kernel)

theorem s2_stopFree : AllStopFree s2 := stepN_stopFree _ body 3 2 s0 s2 s0_stopFree s2_steps

theorem ev_pending : s2.processed ev = false := by decide +kernel

theorem r5_returned : runUntilEvent body 3 20 ev s2 = .returned (.int 7) s5 :=
  returned_of_val r5 (.int 7) (by decide +kernel)

/-- the trace of the split run equals the trace of the uninterrupted run (computed) -/
theorem split_trace_eq : (RunResult.st r9).trace = (RunResult.st rAll).trace := by decide +kernel

/-- and it is not empty: 11 observations (7 resumptions, 4 log lines … ) -/
theorem trace_size : (RunResult.st rAll).trace.size = 13 := by decide +kernel

end SplitDemo
