import OnlVerif.Lemmas.StampFair
/-!
# WFQ with a static backlog, along runs

Phase 2 (`Static`): from an empty scheduler, packets arrive at one instant: virtual time stays 0 and every finish
time is the cumulative normalised size of its class.  Phase 3 (`Fair`): no more arrivals; every service decision
takes a minimal stamp.  The fairness bounds are read off `Fair`.
-/

namespace WFQ
open Stamp

/-- no arrival among these actions -/
def NoPut (as : List (StAct ℚ)) : Prop := ∀ a ∈ as, ∀ p, a ≠ .put p

/-! ### phase 3 -/

structure Fair (c : WfqCfg ℚ) (L : Nat) (s : WState) (outs : List SPkt) : Prop where
  shape : Shape s
  fl : FairL c L (outs ++ inHand s) s.items
  hand : ∀ m ∈ inHand s, (0 < m.size ∧ m.size ≤ L) ∧ ∃ k w, clsOf c m.flow = some k ∧ lookup c.weights k = some w
  /-- the class of the packet taken last leads in normalised service taken -/
  lead : ∀ m ∈ inHand s, ∀ km wm, clsOf c m.flow = some km → lookup c.weights km = some wm →
    ∀ k w, lookup c.weights k = some w →
      bitsOf c k (outs ++ inHand s) / w ≤ bitsOf c km (outs ++ inHand s) / wm

theorem fair_pick {c : WfqCfg ℚ} (hp : Pos c) {L : Nat} {s s' : WState} {outs : List SPkt} {id : Nat} {it : Item ℚ}
    {rest : List (Item ℚ)} (h : Fair c L s outs) (hin : inHand s = []) (hpk : Picked s.items id it rest)
    (hs' : Shape s') (hin' : inHand s' = [it.pkt]) (hit' : s'.items = rest) : Fair c L s' outs := by
  obtain ⟨pre, post, hl, rfl, _, hmin⟩ := hpk
  have hfl := h.fl
  rw [hin, List.append_nil, hl] at hfl
  rw [hl] at hmin
  obtain ⟨h1, h2⟩ := fairL_pick hp hfl hmin
  have hmem : it ∈ s.items := by rw [hl]; simp
  refine ⟨hs', ?_, ?_, ?_⟩
  · rw [hin', hit']; exact h1
  · intro m hm
    rw [hin'] at hm
    simp only [List.mem_singleton] at hm
    subst hm
    exact ⟨h.fl.size it hmem, h.fl.conf it hmem⟩
  · intro m hm
    rw [hin'] at hm ⊢
    simp only [List.mem_singleton] at hm
    subst hm
    exact h2

theorem fair_same {c : WfqCfg ℚ} {L : Nat} {s s' : WState} {outs outs' : List SPkt} (h : Fair c L s outs)
    (hs' : Shape s') (hr : outs' ++ inHand s' = outs ++ inHand s) (hit : s'.items = s.items)
    (hsub : ∀ m ∈ inHand s', m ∈ inHand s) : Fair c L s' outs' := by
  refine ⟨hs', ?_, ?_, ?_⟩
  · rw [hr, hit]; exact h.fl
  · intro m hm; exact h.hand m (hsub m hm)
  · intro m hm; rw [hr]; exact h.lead m (hsub m hm)

/-- **`Fair` is kept by every step that is not an arrival.** -/
theorem step_fair {c : WfqCfg ℚ} (hp : Pos c) {L : Nat} {s s' : WState} {a : StAct ℚ} {o : StOut} {outs : List SPkt}
    (h : Fair c L s outs) (ht : Trans (sched c) s a s' o) (hnp : ∀ p, a ≠ .put p) : Fair c L s' (outs ++ left o) := by
  have hs' := step_shape h.shape ht
  have hs := h.shape
  cases ht with
  | put p sch stamp h1 => exact absurd rfl (hnp p)
  | initBlock h1 h2 =>
    exact fair_same h hs' (by simp [left, inHand]) rfl (fun m hm => by simpa [inHand] using hm)
  | initServe id it rest h1 h2 =>
    have hx := hs.of_not_started h1
    simp only [left, List.append_nil]
    exact fair_pick hp h (by simp [inHand, hx]) h2 hs' (by simp [inHand, hx]) rfl
  | handoff id it rest h1 h2 =>
    have hx := hs.of_getPending h1
    simp only [left, List.append_nil]
    exact fair_pick hp h (by simp [inHand, hx]) h2 hs' (by simp [inHand, hx]) rfl
  | resume it h1 =>
    have hx := hs.of_handed h1
    exact fair_same h hs' (by simp [left, inHand, hx, h1]) rfl (fun m hm => by simpa [inHand, hx, h1] using hm)
  | sendInit p h1 h2 h3 =>
    have hx := hs.of_spawned h1
    exact fair_same h hs' (by simp [left, inHand, hx, h1]) rfl (fun m hm => by simpa [inHand, hx, h1] using hm)
  | sendFire p due h1 h2 =>
    have hx := hs.of_tx h1
    exact fair_same h hs' (by simp [left, inHand, hx, h1, release]) rfl
      (fun m hm => by simp [inHand, hx, release] at hm)
  | doneBlock p sch h1 h2 h3 =>
    have hx := hs.of_fin h1
    exact fair_same h hs' (by simp [left, inHand, hx]) rfl (fun m hm => by simpa [inHand, hx] using hm)
  | doneServe p sch id it rest h1 h2 h3 =>
    have hx := hs.of_fin h1
    simp only [left, List.append_nil]
    exact fair_pick hp h (by simp [inHand, hx]) h3 hs' (by simp [inHand, hx]) rfl
  | tick t h1 =>
    exact fair_same h hs' (by simp [left, inHand]) rfl (fun m hm => by simpa [inHand] using hm)
  | sample b =>
    exact fair_same h hs' (by simp [left]) rfl (fun m hm => hm)

theorem run_fair {c : WfqCfg ℚ} (hp : Pos c) {L : Nat} (as : List (StAct ℚ)) (hnp : NoPut as) (s s' : WState)
    (o1 ins outs : List SPkt) (h : Fair c L s o1) (hr : runActs (sched c) s as = .ok (s', ins, outs)) :
    Fair c L s' (o1 ++ outs) := by
  induction as generalizing s o1 ins outs with
  | nil =>
    simp only [runActs, Except.ok.injEq, Prod.mk.injEq] at hr
    obtain ⟨rfl, _, rfl⟩ := hr
    simpa using h
  | cons a as ih =>
    simp only [runActs] at hr
    split at hr
    · cases hr
    · rename_i s1 o hstep
      split at hr
      · cases hr
      · rename_i s2 ins2 outs2 h2
        simp only [Except.ok.injEq, Prod.mk.injEq] at hr
        obtain ⟨rfl, _, rfl⟩ := hr
        have h1 := step_fair hp h (step_trans _ _ _ _ _ hstep) (hnp a (by simp))
        have := ih (fun b hb => hnp b (List.mem_cons_of_mem _ hb)) s1 (o1 ++ left o) ins2 outs2 h1 h2
        simpa [List.append_assoc] using this

/-! ### reading the bounds off `Fair` -/

/-- class `k` still has a packet waiting in the store -/
def Backlogged (c : WfqCfg ℚ) (s : WState) (k : Nat) : Prop := ∃ y ∈ s.items, clsOf c y.pkt.flow = some k

/-- service *taken* (transmission started or completed): one direction -/
theorem fair_started_le {c : WfqCfg ℚ} (hp : Pos c) {L : Nat} {s : WState} {outs : List SPkt} (h : Fair c L s outs)
    (i j : Nat) (wi wj : ℚ) (hwi : lookup c.weights i = some wi) (hwj : lookup c.weights j = some wj)
    (hbj : Backlogged c s j) :
    bitsOf c i (outs ++ inHand s) / wi ≤ bitsOf c j (outs ++ inHand s) / wj + 8 * (L : ℚ) / wj := by
  obtain ⟨y, hy, _, hye⟩ := chain_head c j wj _ s.items (h.fl.chain j wj hwj) hbj
  have hlow := h.fl.low i wi hwi y hy
  have hsz := (h.fl.size y hy).2
  have hwip := hp.w i wi hwi
  have hwjp := hp.w j wj hwj
  have hszq : (y.pkt.size : ℚ) ≤ L := by exact_mod_cast hsz
  have h1 : bitsOf c i (outs ++ inHand s) / wi ≤ y.stamp * c.rate := by
    rw [div_le_iff₀ hwip]; exact hlow
  have h2 : y.stamp * c.rate = (bitsOf c j (outs ++ inHand s) + 8 * (y.pkt.size : ℚ)) / wj := by
    rw [eq_div_iff (ne_of_gt hwjp)]; exact hye
  have h3 : (bitsOf c j (outs ++ inHand s) + 8 * (y.pkt.size : ℚ)) / wj ≤
      bitsOf c j (outs ++ inHand s) / wj + 8 * (L : ℚ) / wj := by
    rw [← add_div]
    apply div_le_div_of_nonneg_right _ (le_of_lt hwjp)
    linarith
  linarith

theorem inHand_cases {σ : Type} {s : StState ℚ σ} (h : Shape s) : inHand s = [] ∨ ∃ m, inHand s = [m] := by
  rcases h with ⟨_, h | h | h | h | h | h⟩
  · left; simp [inHand, h]
  · left; simp [inHand, h]
  · right
    obtain ⟨it, hit⟩ := Option.isSome_iff_exists.mp h.2.2.1
    exact ⟨it.pkt, by simp [inHand, h, hit]⟩
  · right
    obtain ⟨p, hp⟩ := Option.isSome_iff_exists.mp h.2.2.2.1
    exact ⟨p, by simp [inHand, h, hp]⟩
  · right
    obtain ⟨x, hx⟩ := Option.isSome_iff_exists.mp h.2.2.2.2.1
    exact ⟨x.1, by simp [inHand, h, hx]⟩
  · left; simp [inHand, h]

/-- service *completed* (departed packets): one direction -/
theorem fair_completed_le {c : WfqCfg ℚ} (hp : Pos c) {L : Nat} {s : WState} {outs : List SPkt} (h : Fair c L s outs)
    (i j : Nat) (wi wj : ℚ) (hwi : lookup c.weights i = some wi) (hwj : lookup c.weights j = some wj)
    (hbj : Backlogged c s j) :
    bitsOf c i outs / wi ≤ bitsOf c j outs / wj + 8 * (L : ℚ) / wj := by
  have hst := fair_started_le hp h i j wi wj hwi hwj hbj
  have hwip := hp.w i wi hwi
  have hwjp := hp.w j wj hwj
  simp only [bitsOf_append, add_div] at hst
  have hei : 0 ≤ bitsOf c i (inHand s) / wi := div_nonneg (bitsOf_nonneg _ _ _) (le_of_lt hwip)
  have hL : (0 : ℚ) ≤ 8 * (L : ℚ) / wj :=
    div_nonneg (by have : (0 : ℚ) ≤ L := by exact_mod_cast Nat.zero_le _
                   linarith) (le_of_lt hwjp)
  rcases inHand_cases h.shape with hnil | ⟨m, hm⟩
  · simp only [hnil, bitsOf_nil, zero_div, add_zero] at hst
    exact hst
  · by_cases hmj : clsOf c m.flow = some j
    · -- the packet in hand belongs to class j: class j leads in service taken
      have hmem : m ∈ inHand s := by rw [hm]; simp
      have hl := h.lead m hmem j wj hmj hwj i wi hwi
      simp only [bitsOf_append, add_div] at hl
      have hmsz := (h.hand m hmem).1.2
      have hej : bitsOf c j (inHand s) / wj ≤ 8 * (L : ℚ) / wj := by
        apply div_le_div_of_nonneg_right _ (le_of_lt hwjp)
        rw [hm]
        simp only [bitsOf_cons, bitsOf_nil, add_zero, if_pos hmj]
        have : (m.size : ℚ) ≤ L := by exact_mod_cast hmsz
        linarith
      linarith
    · have hej : bitsOf c j (inHand s) = 0 := by
        rw [hm]; simp [hmj]
      rw [hej, zero_div, add_zero] at hst
      linarith

/-! ### phase 2: arrivals at one instant into an empty scheduler -/

structure Static (c : WfqCfg ℚ) (L : Nat) (s : WState) : Prop where
  ginv : GInv s
  winv : WInv c s
  /-- nothing has been taken out of the store (a packet that has already left may still await its booking-out) -/
  idle : inHand s = []
  fl : FairL c L [] s.items
  /-- while packets wait: virtual time is still 0, the last event was now, and the finish time of every class is
  the normalised size of all its packets -/
  live : s.items ≠ [] → s.sch.vtime = 0 ∧ s.sch.lastTime = s.now ∧
    ∀ k w, lookup c.weights k = some w → ∃ F, lookup s.sch.finish k = some F ∧ F * c.rate * w = bitsOf c k (waiting s)

/-- a scheduler with no packet waiting or in transmission is a static backlog of size 0 -/
theorem static_of_empty {c : WfqCfg ℚ} {L : Nat} {s : WState} (hg : GInv s) (hw : WInv c s) (he : held s = []) :
    Static c L s := by
  have hh : inHand s = [] ∧ waiting s = [] := by
    simp only [held, List.append_eq_nil_iff] at he
    exact he
  have hit : s.items = [] := by
    have := hh.2
    simpa [waiting] using this
  refine ⟨hg, hw, hh.1, ?_, fun h => absurd hit h⟩
  rw [hit]
  exact ⟨by simp, by simp, fun _ _ _ => trivial, by simp⟩

theorem chain_snoc (c : WfqCfg ℚ) (k : Nat) (w S : ℚ) (l : List (Item ℚ)) (y : Item ℚ) :
    Chain c k w S (l ++ [y]) ↔ Chain c k w S l ∧
      (clsOf c y.pkt.flow = some k → y.stamp * c.rate * w = S + bitsOf c k (l.map (·.pkt)) + 8 * (y.pkt.size : ℚ)) := by
  rw [chain_append]
  simp only [Chain]
  by_cases h : clsOf c y.pkt.flow = some k
  · simp [h]
  · simp [h]

/-- **One more arrival in the same instant keeps `Static`.** -/
theorem step_static {c : WfqCfg ℚ} (hp : Pos c) {L : Nat} {s s' : WState} {p : SPkt} {o : StOut} (h : Static c L s)
    (hsz : 0 < p.size ∧ p.size ≤ L) (ht : Trans (sched c) s (.put p) s' o) : Static c L s' ∧ o = .accepted := by
  have hg' := (step_ginv h.ginv ht).1
  have hw' := step_winv h.ginv h.winv ht
  cases ht with
  | put _ sch stamp h1 =>
    refine ⟨?_, rfl⟩
    obtain ⟨k, st1, f, w, hk, ha, hf, hwt, hz, rfl, rfl⟩ := put_spec c _ _ _ _ _ _ h1
    have hwpos := hp.w k w hwt
    have hrw := mul_pos hp.rate hwpos
    -- after `advance`: virtual time 0, finish times = normalised class sizes
    have hadv : st1.vtime = 0 ∧ ∀ k' w', lookup c.weights k' = some w' →
        ∃ F, lookup st1.finish k' = some F ∧ F * c.rate * w' = bitsOf c k' (waiting s) := by
      rcases advance_spec c _ _ _ _ ha with ⟨h0, rfl⟩ | ⟨hne, _, _, rfl⟩
      · have hit := h.winv.items_nil_of_total h0
        refine ⟨by simp [resetVtime, zero_eq_q], ?_⟩
        intro k' w' hw'
        exact ⟨0, by simp [resetVtime, lookup_zeroFinish, hw'], by simp [waiting, hit]⟩
      · have hitems : s.items ≠ [] := by
          intro hc
          apply hne
          apply h.winv.tot.zero_iff.mpr
          simp [held, h.idle, waiting, hc]
        obtain ⟨hv, hl, hfin⟩ := h.live hitems
        refine ⟨?_, hfin⟩
        simp only [hv, hl, sub_self, zero_div, add_zero]
    obtain ⟨F0, hF0, hF0e⟩ := hadv.2 k w hwt
    rw [hf] at hF0; cases hF0
    have hf0 : 0 ≤ f := by
      have hb := bitsOf_nonneg c k (waiting s)
      rw [← hF0e] at hb
      by_contra hneg
      have : f * (c.rate * w) < 0 := mul_neg_of_neg_of_pos (not_le.mp hneg) hrw
      linarith [mul_assoc f c.rate w]
    -- the new stamp
    have hstamp : stampOf c f st1.vtime w p.size * c.rate * w = bitsOf c k (waiting s) + 8 * (p.size : ℚ) := by
      rw [stampOf_eq, hadv.1, max_eq_left hf0, ← hF0e]
      have hne : c.rate * w ≠ 0 := ne_of_gt hrw
      have e : 8 * (p.size : ℚ) / (c.rate * w) * (c.rate * w) = 8 * (p.size : ℚ) := div_mul_cancel₀ _ hne
      calc (f + 8 * (p.size : ℚ) / (c.rate * w)) * c.rate * w
          = f * c.rate * w + 8 * (p.size : ℚ) / (c.rate * w) * (c.rate * w) := by ring
        _ = f * c.rate * w + 8 * (p.size : ℚ) := by rw [e]
    have hst0 : 0 ≤ stampOf c f st1.vtime w p.size := by
      have hb := bitsOf_nonneg c k (waiting s)
      have hps : (0 : ℚ) ≤ p.size := by exact_mod_cast Nat.zero_le _
      by_contra hneg
      have : stampOf c f st1.vtime w p.size * (c.rate * w) < 0 := mul_neg_of_neg_of_pos (not_le.mp hneg) hrw
      linarith [mul_assoc (stampOf c f st1.vtime w p.size) c.rate w]
    refine ⟨hg', hw', ?_, ?_, ?_⟩
    · simpa [inHand, enqueue] using h.idle
    · refine ⟨?_, ?_, ?_, ?_⟩
      · intro it hit
        simp only [enqueue, List.mem_append, List.mem_singleton] at hit
        rcases hit with hit | rfl
        · exact h.fl.conf it hit
        · exact ⟨k, w, hk, hwt⟩
      · intro it hit
        simp only [enqueue, List.mem_append, List.mem_singleton] at hit
        rcases hit with hit | rfl
        · exact h.fl.size it hit
        · exact hsz
      · intro k' w' hw'
        simp only [enqueue, bitsOf_nil]
        rw [chain_snoc]
        refine ⟨by simpa using h.fl.chain k' w' hw', ?_⟩
        intro hk'
        simp only [clsOf] at hk'
        rw [hk] at hk'
        cases hk'
        rw [hwt] at hw'; cases hw'
        simp only [zero_add]
        exact hstamp
      · intro k' w' hw' y hy
        simp only [enqueue, List.mem_append, List.mem_singleton] at hy
        rcases hy with hy | rfl
        · exact h.fl.low k' w' hw' y hy
        · simp only [bitsOf_nil]
          exact mul_nonneg (mul_nonneg hst0 (le_of_lt hp.rate)) (le_of_lt (hp.w k' w' hw'))
    · intro _
      refine ⟨hadv.1, rfl, ?_⟩
      intro k' w' hwk
      show ∃ F, lookup (setKey st1.finish k _) k' = some F ∧ _
      rw [lookup_setKey]
      have hwait : waiting (enqueue s (commit st1 k (stampOf c f st1.vtime w p.size) s.now)
          (stampOf c f st1.vtime w p.size) p) = waiting s ++ [p] := by
        simp [waiting, enqueue]
      rw [hwait, bitsOf_append, bitsOf_cons, bitsOf_nil, add_zero]
      by_cases hkk : k' = k
      · subst hkk
        rw [hwt] at hwk; cases hwk
        refine ⟨stampOf c f st1.vtime w p.size, by simp, ?_⟩
        simp only [clsOf, hk, if_true]
        exact hstamp
      · obtain ⟨F', hF', hF'e⟩ := hadv.2 k' w' hwk
        refine ⟨F', by simp [hkk, hF'], ?_⟩
        have : ¬ clsOf c p.flow = some k' := by
          simp only [clsOf, hk, Option.some.injEq]
          exact fun e => hkk e.symm
        rw [if_neg this, add_zero]
        exact hF'e

/-- after the arrivals, `Fair` holds with nothing taken yet -/
theorem Static.fair {c : WfqCfg ℚ} {L : Nat} {s : WState} (h : Static c L s) : Fair c L s [] := by
  refine ⟨h.ginv.shape, ?_, ?_, ?_⟩
  · rw [h.idle]; exact h.fl
  · intro m hm; rw [h.idle] at hm; simp at hm
  · intro m hm; rw [h.idle] at hm; simp at hm

/-- arrivals at one instant into an empty scheduler, then any admissible continuation without arrivals -/
theorem static_run {c : WfqCfg ℚ} (hp : Pos c) {L : Nat} (ps : List SPkt) (hps : ∀ p ∈ ps, 0 < p.size ∧ p.size ≤ L)
    (as : List (StAct ℚ)) (hnp : NoPut as) (s s' : WState) (ins outs : List SPkt) (h : Static c L s)
    (hr : runActs (sched c) s (ps.map .put ++ as) = .ok (s', ins, outs)) : Fair c L s' outs := by
  induction ps generalizing s ins outs with
  | nil =>
    have := run_fair hp as hnp s s' [] ins outs h.fair hr
    simpa using this
  | cons p ps ih =>
    simp only [List.map_cons, List.cons_append, runActs] at hr
    split at hr
    · cases hr
    · rename_i s1 o hstep
      split at hr
      · cases hr
      · rename_i s2 ins2 outs2 h2
        simp only [Except.ok.injEq, Prod.mk.injEq] at hr
        obtain ⟨rfl, _, rfl⟩ := hr
        obtain ⟨hs1, rfl⟩ := step_static hp h (hps p (by simp)) (step_trans _ _ _ _ _ hstep)
        have := ih (fun q hq => hps q (List.mem_cons_of_mem _ hq)) s1 ins2 outs2 hs1 h2
        simpa [left] using this

end WFQ
