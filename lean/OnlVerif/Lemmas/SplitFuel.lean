import OnlVerif.Lemmas.SplitSentOps
/-!
# The fuel of `Condition._build_value` is never the limit in well-formed states (C03, stage 3)

`condBuild s cd` recurses through nested conditions with fuel `cd + 1`.  If the operands of every condition are older than
the condition (`CondWF`), any fuel above `cd` gives the same result; in particular `c.FuelOK s cd` holds.
-/

variable {σ : Type}

/-- operands are created before the condition that waits for them (for the conditions with id below `N`) -/
def CondWFBelow (N : Nat) (s : KState ℚ σ) : Prop :=
  ∀ cd, cd < N → ∀ all ops, (s.ev cd).kind = .cond all ops → ∀ o ∈ ops, @LT.lt Nat _ o cd

/-- operands are created before the condition that waits for them -/
def CondWF (s : KState ℚ σ) : Prop := ∀ N, CondWFBelow N s

theorem kind_eraseCb (s : KState ℚ σ) (e : EvId) (cb : Cb) (x : EvId) : ((s.eraseCb e cb).ev x).kind = (s.ev x).kind := by
  unfold KState.eraseCb
  rw [KState.ev_setEv]
  split
  · rename_i h; rw [h.1]
  · rfl

theorem kind_eraseCheck (s : KState ℚ σ) (c e x : EvId) : ((eraseCheck s c e).ev x).kind = (s.ev x).kind := by
  unfold eraseCheck
  split
  · split
    · exact kind_eraseCb s e _ x
    · rfl
  · rfl

theorem kind_foldl {α : Type} (f : KState ℚ σ → α → KState ℚ σ)
    (hf : ∀ s a x, ((f s a).ev x).kind = (s.ev x).kind) (l : List α) (s : KState ℚ σ) (x : EvId) :
    ((l.foldl f s).ev x).kind = (s.ev x).kind := by
  induction l generalizing s with
  | nil => rfl
  | cons a l ih => rw [List.foldl_cons, ih, hf]

theorem kind_removeChecks (fuel : Nat) (c : EvId) (s : KState ℚ σ) (x : EvId) :
    ((removeChecks fuel c s).ev x).kind = (s.ev x).kind := by
  induction fuel generalizing c s x with
  | zero => rfl
  | succ n ih =>
    unfold removeChecks
    apply kind_foldl
    intro s e x
    split
    · rw [ih, kind_eraseCheck]
    · exact kind_eraseCheck s c e x

theorem CondWFBelow.of_kind {N : Nat} {s s' : KState ℚ σ} (h : CondWFBelow N s)
    (hk : ∀ x, x < N → (s'.ev x).kind = (s.ev x).kind) : CondWFBelow N s' := by
  intro cd hcd all ops hc
  rw [hk cd hcd] at hc
  exact h cd hcd all ops hc

theorem condOps_lt {N : Nat} {s : KState ℚ σ} (h : CondWFBelow N s) (cd : Nat) (hcd : cd < N) :
    ∀ o ∈ (condOps s cd).2, @LT.lt Nat _ o cd := by
  unfold condOps
  cases hk : (s.ev cd).kind with
  | cond all ops => exact h cd hcd all ops hk
  | _ => intro o ho; cases ho

theorem foldl_congr_wf {α : Type} (P : KState ℚ σ → Prop) (f g : KState ℚ σ → α → KState ℚ σ) (l : List α)
    (s : KState ℚ σ) (hfg : ∀ s a, P s → a ∈ l → f s a = g s a) (hf : ∀ s a, P s → P (f s a)) (hs : P s) :
    l.foldl f s = l.foldl g s := by
  induction l generalizing s with
  | nil => rfl
  | cons a l ih =>
    rw [List.foldl_cons, List.foldl_cons, hfg s a hs List.mem_cons_self]
    exact ih _ (fun s b hs hb => hfg s b hs (List.mem_cons_of_mem _ hb)) (hfg s a hs List.mem_cons_self ▸ hf s a hs)

/-- any fuel above the condition's id removes the same check callbacks -/
theorem removeChecks_fuel (N : Nat) (cd : Nat) : ∀ (f1 f2 : Nat) (s : KState ℚ σ), CondWFBelow N s → cd < N → cd < f1 → cd < f2 →
    removeChecks f1 cd s = removeChecks f2 cd s := by
  induction cd using Nat.strong_induction_on with
  | _ cd ih =>
    intro f1 f2 s hs hN h1 h2
    obtain ⟨g1, rfl⟩ : ∃ g, f1 = g + 1 := ⟨f1 - 1, by omega⟩
    obtain ⟨g2, rfl⟩ : ∃ g, f2 = g + 1 := ⟨f2 - 1, by omega⟩
    rw [removeChecks, removeChecks]
    have hlt := condOps_lt hs cd hN
    generalize (condOps s cd).2 = ops at hlt
    apply foldl_congr_wf (CondWFBelow N)
    · intro s' e hs' he
      have hk := fun x (_ : x < N) => kind_eraseCheck s' cd e x
      have hh : @LT.lt Nat _ e cd := hlt e he
      split
      · exact ih e hh g1 g2 _ (hs'.of_kind hk) (by omega) (by omega) (by omega)
      · rfl
    · intro s' e hs'
      split
      · exact hs'.of_kind (fun x _ => by rw [kind_removeChecks, kind_eraseCheck])
      · exact hs'.of_kind (fun x _ => kind_eraseCheck s' cd e x)
    · exact hs

theorem flatMap_congr' {α β : Type} (f g : α → List β) (l : List α) (h : ∀ a ∈ l, f a = g a) :
    l.flatMap f = l.flatMap g := by
  induction l with
  | nil => rfl
  | cons a l ih =>
    rw [List.flatMap_cons, List.flatMap_cons, h a List.mem_cons_self, ih (fun b hb => h b (List.mem_cons_of_mem _ hb))]

/-- any fuel above the condition's id collects the same operands -/
theorem populate_fuel (N : Nat) (s : KState ℚ σ) (hs : CondWFBelow N s) (cd : Nat) : ∀ (f1 f2 : Nat), cd < N → cd < f1 → cd < f2 →
    populate f1 s cd = populate f2 s cd := by
  induction cd using Nat.strong_induction_on with
  | _ cd ih =>
    intro f1 f2 hN h1 h2
    obtain ⟨g1, rfl⟩ : ∃ g, f1 = g + 1 := ⟨f1 - 1, by omega⟩
    obtain ⟨g2, rfl⟩ : ∃ g, f2 = g + 1 := ⟨f2 - 1, by omega⟩
    rw [populate, populate]
    have hlt := condOps_lt hs cd hN
    generalize (condOps s cd).2 = ops at hlt
    apply flatMap_congr'
    intro e he
    have hh : @LT.lt Nat _ e cd := hlt e he
    split
    · exact ih e hh g1 g2 (by omega) (by omega) (by omega)
    · rfl

namespace SplitCfg
variable (c : SplitCfg σ)

/-- **where operands are older than their conditions the fuel hypothesis holds** -/
theorem FuelOK_of_condWFBelow (N : Nat) (s : KState ℚ σ) (hs : CondWFBelow N s) (cd : Nat) (hN : cd < N) : c.FuelOK s cd := by
  have hge : cd < c.ρ cd + 1 := by
    by_cases h : cd < c.u
    · rw [c.ρ_lt h]; omega
    · rw [c.ρ_ge (Nat.not_lt.mp h)]; omega
  refine ⟨removeChecks_fuel N cd _ _ s hs hN hge (Nat.lt_succ_self _), ?_⟩
  exact populate_fuel N _ (hs.of_kind (fun x _ => kind_removeChecks _ _ _ x)) cd _ _ hN hge (Nat.lt_succ_self _)

theorem FuelOK_of_condWF (s : KState ℚ σ) (hs : CondWF s) (cd : Nat) : c.FuelOK s cd :=
  c.FuelOK_of_condWFBelow (cd + 1) s (hs _) cd (Nat.lt_succ_self _)

end SplitCfg
