import OnlVerif.Lemmas.SndKStepRun
/-!
# The TCP sender on the kernel model: every kernel step (the invariant is inductive)
-/

set_option linter.unusedSimpArgs false

namespace SndK
open SenderOnK TcpSender

/-- **one kernel step**: from a state with a configuration that satisfies the invariants, `Environment.step` is normal, the
new state has such a configuration again, and the sender LTS accepts an action sequence between the two LTS states whose
transmissions are the `tx` observations of the step -/
theorem inv_step {cfg : Cfg} (fuel : Nat) {s : KS} {a : A} {q : QEntry ℚ} {rest : List (QEntry ℚ)} (hk : KI none s a)
    (hi : AInv cfg a) (hp : popMin s.agenda = some (q, rest)) : StepGoal cfg fuel s a.S a.txs := by
  refine StepGoal.of_tick hk hi hp (fun hiT => ?_)
  have hq : q ∈ (kernOf a).entries :=
    hk.k.ag.subset ((popMin_spec _ _ _ hp).1.symm.subset List.mem_cons_self)
  simp only [Kern.entries, kernOf, List.mem_append, tmEntries, List.mem_flatMap] at hq
  rcases hq with hq | hq | hq | ⟨seq, hs, hq⟩
  · cases hph : a.run with
    | init q' =>
      rw [hph] at hq; simp only [RPhase.entries, List.mem_singleton] at hq; subst hq
      exact kstep_runInit fuel hk hiT hp hph
    | blocked g t0 => rw [hph] at hq; simp [RPhase.entries] at hq
    | handed g t0 q' =>
      rw [hph] at hq; simp only [RPhase.entries, List.mem_singleton] at hq; subst hq
      exact kstep_runHanded fuel hk hiT hp hph
    | ending q' =>
      rw [hph] at hq; simp only [RPhase.entries, List.mem_singleton] at hq; subst hq
      exact kstep_runEnding fuel hk hiT hp hph
    | done => rw [hph] at hq; simp [RPhase.entries] at hq
    | running => rw [hph] at hq; simp [RPhase.entries] at hq
  · cases hph : a.scr with
    | init q' r =>
      rw [hph] at hq; simp only [SPhase.entries, List.mem_singleton] at hq; subst hq
      exact kstep_scrInit fuel hk hiT hp hph
    | wait x r q' =>
      rw [hph] at hq; simp only [SPhase.entries, List.mem_singleton] at hq; subst hq
      exact kstep_scrWait fuel hk hiT hp hph
    | ending q' =>
      rw [hph] at hq; simp only [SPhase.entries, List.mem_singleton] at hq; subst hq
      exact kstep_scrEnding fuel hk hiT hp hph
    | done => rw [hph] at hq; simp [SPhase.entries] at hq
    | running => rw [hph] at hq; simp [SPhase.entries] at hq
  · exact kstep_pend fuel hk hiT hp hq
  · cases hph : a.tph seq with
    | init q' =>
      rw [hph] at hq; simp only [TPh.entries, List.mem_singleton] at hq; subst hq
      exact kstep_tmInit fuel hk hiT hp hs hph
    | sleep t q' =>
      rw [hph] at hq; simp only [TPh.entries, List.mem_singleton] at hq; subst hq
      exact kstep_tmWake fuel hk hiT hp hs hph
    | ending q' =>
      rw [hph] at hq; simp only [TPh.entries, List.mem_singleton] at hq; subst hq
      exact kstep_tmEnding fuel hk hiT hp hs hph
    | gone => rw [hph] at hq; simp [TPh.entries] at hq
    | running => rw [hph] at hq; simp [TPh.entries] at hq

end SndK
