import OnlVerif.Lemmas.SndKBasic
/-!
# The TCP sender on the kernel model: what a kernel operation leaves alone

`Frame s S X P`: `S` has all events of `s`, unchanged outside `X` (and of the same kind everywhere), and the same process
records outside `P`.  The facts a configuration states about a generator survive a frame that avoids its events and its
process.  Different generators have different events: their process events by the tag of the generator (`ProcTag`), the
others by kind and callbacks.
-/

set_option linter.unusedSimpArgs false

namespace SndK
open SenderOnK

structure Frame (s S : KS) (X P : List EvId) : Prop where
  size : s.events.size ≤ S.events.size
  ev : ∀ e, e < s.events.size → e ∉ X → S.ev e = s.ev e
  kind : ∀ e, e < s.events.size → (S.ev e).kind = (s.ev e).kind
  proc : ∀ p, p ∉ P → S.proc? p = s.proc? p

namespace Frame

theorem refl (s : KS) : Frame s s [] [] := ⟨Nat.le_refl _, fun _ _ _ => rfl, fun _ _ => rfl, fun _ _ => rfl⟩

theorem trans {s1 s2 s3 : KS} {X1 X2 P1 P2 : List EvId} (a : Frame s1 s2 X1 P1) (b : Frame s2 s3 X2 P2) :
    Frame s1 s3 (X1 ++ X2) (P1 ++ P2) := by
  refine ⟨Nat.le_trans a.size b.size, ?_, ?_, ?_⟩
  · intro e he hX
    simp only [List.mem_append, not_or] at hX
    rw [b.ev e (Nat.lt_of_lt_of_le he a.size) hX.2, a.ev e he hX.1]
  · intro e he
    rw [b.kind e (Nat.lt_of_lt_of_le he a.size), a.kind e he]
  · intro p hP
    simp only [List.mem_append, not_or] at hP
    rw [b.proc p hP.2, a.proc p hP.1]

theorem mono {s S : KS} {X X' P P' : List EvId} (a : Frame s S X P) (hX : ∀ e ∈ X, e ∈ X') (hP : ∀ e ∈ P, e ∈ P') :
    Frame s S X' P' :=
  ⟨a.size, fun e he h => a.ev e he (fun h' => h (hX e h')), a.kind, fun p h => a.proc p (fun h' => h (hP p h'))⟩

/-- nothing but cells, trace, clock, agenda, active process, resources changed -/
theorem of_eq {s S : KS} (he : S.events = s.events) (hp : S.procs = s.procs) : Frame s S [] [] := by
  refine ⟨by rw [he], fun e _ _ => by simp [KState.ev, he], fun e _ => by simp [KState.ev, he], fun p _ => ?_⟩
  simp [KState.proc?, hp]

end Frame

/-! ## keeping the facts of a generator -/

theorem EvIs.lt {s : KS} {e : EvId} {k : Kind} {c : List Cb} {o : Option Outcome} (h : EvIs s e k c o) :
    e < s.events.size := KState.lt_of_cbs h.2.1

theorem EvIs.keep {s S : KS} {X P : List EvId} {e : EvId} {k : Kind} {c : List Cb} {o : Option Outcome}
    (h : EvIs s e k c o) (fr : Frame s S X P) (he : e ∉ X) : EvIs S e k c o := by
  unfold EvIs
  rw [fr.ev e h.lt he]
  exact h

theorem ProcTag.lt {s : KS} {p : EvId} {n : Nat} (h : ProcTag s p n) : p < s.events.size :=
  KState.lt_of_kind (by rw [h.1]; simp)

theorem ProcTag.keep {s S : KS} {X P : List EvId} {p : EvId} {n : Nat} (h : ProcTag s p n) (fr : Frame s S X P)
    (hp : p ∉ P) : ProcTag S p n := by
  refine ⟨by rw [fr.kind p h.lt]; exact h.1, ?_⟩
  rw [fr.proc p hp]
  exact h.2

/-- a process record may change as long as it stays with its generator -/
theorem ProcTag.set {s S : KS} {X P : List EvId} {p : EvId} {n : Nat} (h : ProcTag s p n) (fr : Frame s S X P)
    (pr : ProcRec St) (hS : S.proc? p = some pr) (ht : tagOf pr.st = n) : ProcTag S p n :=
  ⟨by rw [fr.kind p h.lt]; exact h.1, pr, hS, ht⟩

theorem ProcTag.ne {s : KS} {p p' : EvId} {n n' : Nat} (h : ProcTag s p n) (h' : ProcTag s p' n') (hn : n ≠ n') :
    p ≠ p' := by
  rintro rfl
  obtain ⟨_, pr, h1, h2⟩ := h
  obtain ⟨_, pr', h1', h2'⟩ := h'
  rw [h1] at h1'
  cases h1'
  exact hn (h2.symm.trans h2')

def RPhase.ids : RPhase → List EvId
  | .init _ => [0, 1]
  | .blocked g _ => [0, g]
  | .handed g _ _ => [0, g]
  | .ending _ => [0]
  | .done => [0]
  | .running => [0]

def SPhase.ids : SPhase → List EvId
  | .init _ _ => [2, 3]
  | .wait _ _ q => [2, q.ev]
  | .ending _ => [2]
  | .done => []
  | .running => [2]

def TPh.ids (p : EvId) : TPh → List EvId
  | .init _ => [p, p + 1]
  | .sleep t _ => [p, t]
  | .ending _ => [p]
  | .gone => []
  | .running => [p]

theorem RunEv.keep {s S : KS} {X P : List EvId} {ph : RPhase} (h : RunEv s ph) (fr : Frame s S X P)
    (hX : ∀ e ∈ ph.ids, e ∉ X) (hP : 0 ∉ P) : RunEv S ph := by
  cases ph with
  | init q =>
    obtain ⟨h1, h2, h3, h4⟩ := h
    exact ⟨h1, h2.keep fr (hX _ (by simp [RPhase.ids])), fr.proc 0 hP ▸ h3, h4.keep fr (hX _ (by simp [RPhase.ids]))⟩
  | blocked g t0 =>
    obtain ⟨h2, h3, h4⟩ := h
    exact ⟨h2.keep fr (hX _ (by simp [RPhase.ids])), fr.proc 0 hP ▸ h3, h4.keep fr (hX _ (by simp [RPhase.ids]))⟩
  | handed g t0 q =>
    obtain ⟨h1, h2, h3, h4⟩ := h
    exact ⟨h1, h2.keep fr (hX _ (by simp [RPhase.ids])), fr.proc 0 hP ▸ h3, h4.keep fr (hX _ (by simp [RPhase.ids]))⟩
  | ending q =>
    obtain ⟨h1, h2⟩ := h
    exact ⟨h1, h2.keep fr (hX _ (by simp [RPhase.ids]))⟩
  | done =>
    obtain ⟨h1, h2⟩ := h
    have hlt : 0 < s.events.size := KState.lt_of_kind (by rw [h1]; simp)
    show (S.ev 0).kind = .proc ∧ (S.ev 0).out = okNone
    rw [fr.ev 0 hlt (hX _ (by simp [RPhase.ids]))]
    exact ⟨h1, h2⟩
  | running => exact EvIs.keep h fr (hX _ (by simp [RPhase.ids]))

theorem ScrEv.keep {s S : KS} {X P : List EvId} {ph : SPhase} (h : ScrEv s ph) (fr : Frame s S X P)
    (hX : ∀ e ∈ ph.ids, e ∉ X) (hP : 2 ∉ P) : ScrEv S ph := by
  cases ph with
  | init q rest =>
    obtain ⟨h1, h2, h3, h4⟩ := h
    exact ⟨h1, h2.keep fr (hX _ (by simp [SPhase.ids])), fr.proc 2 hP ▸ h3, h4.keep fr (hX _ (by simp [SPhase.ids]))⟩
  | wait a rest q =>
    obtain ⟨h2, h3, h4⟩ := h
    exact ⟨h2.keep fr (hX _ (by simp [SPhase.ids])), fr.proc 2 hP ▸ h3, h4.keep fr (hX _ (by simp [SPhase.ids]))⟩
  | ending q =>
    obtain ⟨h1, h2⟩ := h
    exact ⟨h1, h2.keep fr (hX _ (by simp [SPhase.ids]))⟩
  | done => trivial
  | running => exact EvIs.keep h fr (hX _ (by simp [SPhase.ids]))

theorem TmEv.keep {s S : KS} {X P : List EvId} {seq : Nat} {p : EvId} {ph : TPh} (h : TmEv s seq p ph)
    (fr : Frame s S X P) (hX : ∀ e ∈ ph.ids p, e ∉ X) (hP : p ∉ P) : TmEv S seq p ph := by
  cases ph with
  | init q =>
    obtain ⟨h1, h2, h3, h4⟩ := h
    exact ⟨h1, h2.keep fr (hX _ (by simp [TPh.ids])), fr.proc p hP ▸ h3, h4.keep fr (hX _ (by simp [TPh.ids]))⟩
  | sleep t q =>
    obtain ⟨h1, h2, h3, h4⟩ := h
    exact ⟨h1, h2.keep fr (hX _ (by simp [TPh.ids])), fr.proc p hP ▸ h3, h4.keep fr (hX _ (by simp [TPh.ids]))⟩
  | ending q =>
    obtain ⟨h1, h2⟩ := h
    exact ⟨h1, h2.keep fr (hX _ (by simp [TPh.ids]))⟩
  | gone => trivial
  | running => exact EvIs.keep h fr (hX _ (by simp [TPh.ids]))

/-! ## what the events of a generator look like (used to tell them apart) -/

/-- an event of `run`: its process event, its `Initialize`, or a `get` of the wake-up store -/
theorem RunEv.spec {s : KS} {ph : RPhase} (h : RunEv s ph) {e : EvId} (he : e ∈ ph.ids) :
    e = 0 ∨ (s.ev e).kind = .init 0 ∨ (s.ev e).kind = .get 0 := by
  cases ph <;> simp only [RPhase.ids, List.mem_cons, List.not_mem_nil, or_false] at he
  · rcases he with rfl | rfl
    · exact Or.inl rfl
    · exact Or.inr (Or.inl h.2.1.1)
  · rcases he with rfl | rfl
    · exact Or.inl rfl
    · exact Or.inr (Or.inr h.1.1)
  · rcases he with rfl | rfl
    · exact Or.inl rfl
    · exact Or.inr (Or.inr h.2.1.1)
  all_goals exact Or.inl he

theorem ScrEv.spec {s : KS} {ph : SPhase} (h : ScrEv s ph) {e : EvId} (he : e ∈ ph.ids) :
    e = 2 ∨ (s.ev e).kind = .init 2 ∨ ((s.ev e).kind = .timeout ∧ (s.ev e).cbs = some [.resume 2]) := by
  cases ph <;> simp only [SPhase.ids, List.mem_cons, List.not_mem_nil, or_false] at he
  · rcases he with rfl | rfl
    · exact Or.inl rfl
    · exact Or.inr (Or.inl h.2.1.1)
  · rcases he with rfl | rfl
    · exact Or.inl rfl
    · exact Or.inr (Or.inr ⟨h.1.1, h.1.2.1⟩)
  all_goals exact Or.inl he

theorem TmEv.spec {s : KS} {seq : Nat} {p : EvId} {ph : TPh} (h : TmEv s seq p ph) {e : EvId} (he : e ∈ ph.ids p) :
    e = p ∨ (s.ev e).kind = .init p ∨ ((s.ev e).kind = .timeout ∧ (s.ev e).cbs = some [.resume p]) := by
  cases ph <;> simp only [TPh.ids, List.mem_cons, List.not_mem_nil, or_false] at he
  · rcases he with rfl | rfl
    · exact Or.inl rfl
    · exact Or.inr (Or.inl h.2.1.1)
  · rcases he with rfl | rfl
    · exact Or.inl rfl
    · exact Or.inr (Or.inr ⟨h.2.1.1, h.2.1.2.1⟩)
  all_goals exact Or.inl he

end SndK
