import Lean.Meta.Tactic.Simp.RegisterCommand
/-! simp sets used to execute the kernel model symbolically on the WFQ program (`wfqk`) and to take the list of the
events of a configuration apart (`wfqids`) -/
register_simp_attr wfqk
register_simp_attr wfqids
