import OnlVerif.Lemmas.CondRun
/-!
# The additional domain hypothesis is decidable; finite runs; programs that never trigger by hand

`DomStep body fuel s` can be evaluated for a concrete program and state (`decide +kernel`), and a run that ends
(empty agenda) after `N` steps satisfies `DomRun` as soon as its `N` states satisfy `DomStep`.
-/

namespace Cond
variable {σ : Type}

instance instDecDomCall (s : KState ℚ σ) : (c : Call ℚ σ) → Decidable (DomCall s c)
  | .succeed e _ => inferInstanceAs (Decidable (s.triggered e = true ∨ isCond s e = false))
  | .fail e _ => inferInstanceAs (Decidable (s.triggered e = true ∨ isCond s e = false))
  | .cond _ l => inferInstanceAs (Decidable (∀ e ∈ l, e < s.events.size))
  | .timeout _ _ => isTrue trivial
  | .event => isTrue trivial
  | .spawn _ => isTrue trivial
  | .interrupt _ _ => isTrue trivial
  | .probe _ _ => isTrue trivial
  | .request _ _ _ => isTrue trivial
  | .release _ _ => isTrue trivial
  | .cancel _ => isTrue trivial
  | .cput _ _ => isTrue trivial
  | .cget _ _ => isTrue trivial
  | .sput _ _ => isTrue trivial
  | .sget _ _ => isTrue trivial
  | .log _ _ => isTrue trivial
  | .load _ => isTrue trivial
  | .store _ _ => isTrue trivial

def DomBurst.dec (self : EvId) : (b : Burst ℚ σ) → (s : KState ℚ σ) → Decidable (DomBurst self b s)
  | .call c k, s => @instDecidableAnd _ _ (instDecDomCall s c) (DomBurst.dec self (k _) _)
  | .yield _ _, _ => isTrue trivial
  | .ret _, _ => isTrue trivial
  | .raise _, _ => isTrue trivial

instance (self : EvId) (b : Burst ℚ σ) (s : KState ℚ σ) : Decidable (DomBurst self b s) := DomBurst.dec self b s

def DomResume.dec (body : σ → Resume → Burst ℚ σ) (p : EvId) : (fuel : Nat) → (e : EvId) → (s : KState ℚ σ) →
    Decidable (DomResume body p fuel e s)
  | 0, _, _ => isTrue trivial
  | fuel + 1, e, s => by
    unfold DomResume
    split
    · exact isTrue trivial
    · refine @instDecidableAnd _ _ inferInstance ?_
      split
      · split
        · exact isTrue trivial
        · exact DomResume.dec body p fuel _ _
      · exact isTrue trivial

instance (body : σ → Resume → Burst ℚ σ) (p : EvId) (fuel : Nat) (e : EvId) (s : KState ℚ σ) :
    Decidable (DomResume body p fuel e s) := DomResume.dec body p fuel e s

instance (body : σ → Resume → Burst ℚ σ) (fuel : Nat) (iv p : EvId) (s : KState ℚ σ) : Decidable (DomIntr body fuel iv p s) := by
  unfold DomIntr
  split
  · exact isTrue trivial
  · split
    · exact isTrue trivial
    · split <;> exact inferInstance

instance instDecDomCb (body : σ → Resume → Burst ℚ σ) (fuel : Nat) (e : EvId) (s : KState ℚ σ) : (cb : Cb) → Decidable (DomCb body fuel e s cb)
  | .resume p => inferInstanceAs (Decidable (DomResume body p fuel e s))
  | .intr iv => by
    simp only [DomCb]
    split
    · exact inferInstance
    · exact isTrue trivial
  | .probe _ => isTrue trivial
  | .stop => isTrue trivial
  | .check _ => isTrue trivial
  | .build _ => isTrue trivial
  | .trigPut _ => isTrue trivial
  | .trigGet _ => isTrue trivial

def DomCbs.dec (body : σ → Resume → Burst ℚ σ) (fuel : Nat) (e : EvId) : (cbs : List Cb) → (l : LoopSt ℚ σ) → Decidable (DomCbs body fuel e cbs l)
  | [], _ => isTrue trivial
  | cb :: cbs, l => @instDecidableAnd _ _ (instDecDomCb body fuel e l.s cb) (DomCbs.dec body fuel e cbs _)

instance (body : σ → Resume → Burst ℚ σ) (fuel : Nat) (s : KState ℚ σ) : Decidable (DomStep body fuel s) := by
  unfold DomStep
  split
  · exact isTrue trivial
  · split
    · exact isTrue trivial
    · exact DomCbs.dec body fuel _ _ _

/-- what has to be evaluated for a run that ends within `N` steps: every step is safe in both senses -/
def SafeUpTo (body : σ → Resume → Burst ℚ σ) (fuel : Nat) (s0 : KState ℚ σ) (N : Nat) : Prop :=
  (Once.iter body fuel N s0).isNone = true ∧
  ∀ n, n < N → match Once.iter body fuel n s0 with
    | some s => Once.SafeStep body fuel s ∧ DomStep body fuel s
    | none => True

instance (body : σ → Resume → Burst ℚ σ) (fuel : Nat) (s0 : KState ℚ σ) (N : Nat) : Decidable (SafeUpTo body fuel s0 N) := by
  unfold SafeUpTo
  refine @instDecidableAnd _ _ inferInstance (@Nat.decidableBallLT N _ (fun n _ => ?_))
  split
  · exact inferInstance
  · exact isTrue trivial

/-- **a run that ends after `N` steps, each of them safe, is a safe run** -/
theorem SafeUpTo.safeRun {body : σ → Resume → Burst ℚ σ} {fuel : Nat} {s0 : KState ℚ σ} {N : Nat}
    (h : SafeUpTo body fuel s0 N) : SafeRun body fuel s0 := by
  have key : ∀ s, KReach body fuel s0 s → Once.SafeStep body fuel s ∧ DomStep body fuel s := by
    intro s hr
    obtain ⟨n, hn⟩ := Once.reach_iter hr
    have hend : Once.iter body fuel N s0 = none := by
      cases hc : Once.iter body fuel N s0 with
      | none => rfl
      | some x => have := h.1; rw [hc] at this; cases this
    by_cases hlt : n < N
    · have := h.2 n hlt
      rw [hn] at this
      exact this
    · have := Once.iter_none_of_le hend n (by omega)
      rw [hn] at this; cases this
  exact ⟨fun s hr => (key s hr).1, fun s hr => (key s hr).2⟩

/-! ## programs that never call `succeed`/`fail` and build conditions only over events they hold -/

theorem DomProg.resume {body : σ → Resume → Burst ℚ σ} (h : DomProg body) (p : EvId) :
    ∀ (fuel : Nat) (e : EvId) (s : KState ℚ σ), DomResume body p fuel e s
  | 0, _, _ => trivial
  | fuel + 1, e, s => by
    unfold DomResume
    split
    · trivial
    · refine ⟨h _ _ _ _, ?_⟩
      split
      · split
        · trivial
        · exact DomProg.resume h p fuel _ _
      · trivial

theorem DomProg.step {body : σ → Resume → Burst ℚ σ} (h : DomProg body) (fuel : Nat) (s : KState ℚ σ) : DomStep body fuel s := by
  have hcb : ∀ (e : EvId) (x : KState ℚ σ) (cb : Cb), DomCb body fuel e x cb := by
    intro e x cb
    cases cb with
    | resume p => exact DomProg.resume h p fuel e x
    | intr iv =>
      simp only [DomCb]
      split
      · unfold DomIntr
        split
        · trivial
        · split
          · trivial
          · split <;> exact DomProg.resume h _ fuel _ _
      · trivial
    | _ => trivial
  have hcbs : ∀ (e : EvId) (cbs : List Cb) (l : LoopSt ℚ σ), DomCbs body fuel e cbs l := by
    intro e cbs
    induction cbs with
    | nil => intro _; trivial
    | cons cb cbs ih => intro l; exact ⟨hcb e l.s cb, ih _⟩
  unfold DomStep
  split
  · trivial
  · split
    · trivial
    · exact hcbs _ _ _

theorem DomProg.run {body : σ → Resume → Burst ℚ σ} (h : DomProg body) (fuel : Nat) (s0 : KState ℚ σ) : DomRun body fuel s0 :=
  fun s _ => h.step fuel s

/-! ## helpers for concrete runs -/

theorem reach_of_iter {body : σ → Resume → Burst ℚ σ} {fuel : Nat} {s0 : KState ℚ σ} :
    ∀ (n : Nat) (s : KState ℚ σ), Once.iter body fuel n s0 = some s → KReach body fuel s0 s
  | 0, s, h => by simp only [Once.iter, Option.some.injEq] at h; subst h; exact KReach.init
  | n + 1, s, h => by
    simp only [Once.iter] at h
    cases hn : Once.iter body fuel n s0 with
    | none => rw [hn] at h; cases h
    | some x =>
      rw [hn] at h
      exact KReach.step (reach_of_iter n x hn) h

/-- in a state without a processed condition nothing is detached (a decidable sufficient condition) -/
theorem not_gone_of_no_built {rem : List Cb} {s : KState ℚ σ} (d : EvId)
    (h : ∀ a, a < s.events.size → isCond s a = true → (s.ev a).cbs.isSome = true) : ¬ Gone rem s d := by
  rintro ⟨a, _, h1, h2, _⟩
  have := h a (Once.lt_of_isCond s a h1) h1
  rw [h2] at this; cases this

end Cond
