import OnlVerif.Lemmas.ConserveLevel
import Mathlib.Data.List.Perm.Basic
/-!
# C07: every item a store accepts is handed to exactly one getter exactly once, along every run

For each store `r` and each value `x`:
`count x items + #{granted gets of r that received x} = count x (initial items) + #{granted puts of r that carry x}`.
-/

variable {σ : Type}

namespace Conserve

/-- the item a granted get request received (`none` while it is pending) -/
def gotOf (o : Option Outcome) : Option Int :=
  match o with
  | some (.ok (.int x)) => some x
  | _ => none

/-- the items handed to the getters of store `r` so far, by creation order of the get requests -/
def gotItems (s : KState ℚ σ) (r : ResId) : List Int :=
  (List.range s.events.size).filterMap (fun e => if (s.ev e).kind = .get r then gotOf (s.ev e).out else none)

/-- the items store `r` has accepted so far (the items of its granted put requests), by creation order of the puts -/
def putItems (s : KState ℚ σ) (r : ResId) : List Int := (grantedPuts s r).map (fun e => (reqOf s e).item)

def wPutItem (r : ResId) (x : Int) : Weight := fun k o c => if k = .put r ∧ o.isSome = true ∧ c.item = x then 1 else 0
def wGotItem (r : ResId) (x : Int) : Weight := fun k o _ => if k = .get r ∧ gotOf o = some x then 1 else 0

theorem succ_le_of_not_lt_ne {a n : Nat} (h1 : ¬ a < n) (h2 : ¬ a = n) : n + 1 ≤ a := by omega

theorem wPutItem_ok (r : ResId) (x : Int) : (wPutItem r x).Ok := by
  constructor
  · intro k o c hk
    unfold wPutItem
    rw [if_neg]
    rintro ⟨h, _⟩; subst h; cases hk
  · intro k c
    unfold wPutItem
    rw [if_neg]
    rintro ⟨_, h, _⟩; cases h

theorem wGotItem_ok (r : ResId) (x : Int) : (wGotItem r x).Ok := by
  constructor
  · intro k o c hk
    unfold wGotItem
    rw [if_neg]
    rintro ⟨h, _⟩; subst h; cases hk
  · intro k c
    unfold wGotItem
    rw [if_neg]
    rintro ⟨_, h⟩; cases h

theorem sumTo_eq_count_filterMap (f : Nat → Option Int) (x : Int) : ∀ n,
    sumTo (fun i => if f i = some x then 1 else 0) n = (((List.range n).filterMap f).count x : Int)
  | 0 => rfl
  | n + 1 => by
    rw [sumTo_succ, sumTo_eq_count_filterMap f x n, List.range_succ, List.filterMap_append, List.count_append]
    push_cast
    congr 1
    cases hf : f n with
    | none => simp [hf]
    | some y =>
      by_cases hy : y = x
      · subst hy; simp [hf]
      · simp [hf, hy]

theorem sumTo_eq_count_map_filter (p : Nat → Bool) (g : Nat → Int) (x : Int) : ∀ n,
    sumTo (fun i => if p i = true ∧ g i = x then 1 else 0) n = ((((List.range n).filter p).map g).count x : Int)
  | 0 => rfl
  | n + 1 => by
    rw [sumTo_succ, sumTo_eq_count_map_filter p g x n, List.range_succ, List.filter_append, List.map_append,
      List.count_append]
    push_cast
    congr 1
    by_cases hp : p n = true
    · by_cases hg : g n = x
      · simp [hp, hg]
      · simp [hp, hg]
    · simp [hp]

theorem tot_wGotItem (s : KState ℚ σ) (r : ResId) (x : Int) : tot (wGotItem r x) s = ((gotItems s r).count x : Int) := by
  unfold tot gotItems
  rw [← sumTo_eq_count_filterMap]
  apply sumTo_congr
  intro a _
  unfold wt wGotItem
  by_cases h1 : (s.ev a).kind = .get r
  · simp [h1]
  · simp [h1]

theorem tot_wPutItem (s : KState ℚ σ) (r : ResId) (x : Int) : tot (wPutItem r x) s = ((putItems s r).count x : Int) := by
  unfold tot putItems grantedPuts
  rw [← sumTo_eq_count_map_filter]
  apply sumTo_congr
  intro a _
  unfold wt wPutItem KState.triggered
  by_cases h1 : (s.ev a).kind = .put r <;> by_cases h2 : (s.ev a).out.isSome = true <;> simp [h1, h2] <;> rfl

/-! ## the conserved quantity -/

/-- `count x items + #gets that received x − #granted puts carrying x` -/
def itemPot (s : KState ℚ σ) (r : ResId) (x : Int) : Int :=
  ((s.res r).items.count x : Int) + tot (wGotItem r x) s - tot (wPutItem r x) s

def StoreCons (s s' : KState ℚ σ) : Prop := ∀ r x, isStoreKind (s.res r).kind = true → itemPot s' r x = itemPot s r x

/-- every granted get of a store carries exactly one item -/
def GotInt (s : KState ℚ σ) : Prop :=
  ∀ r e, isStoreKind (s.res r).kind = true → (s.ev e).kind = .get r → (s.ev e).out ≠ none →
    ∃ x, (s.ev e).out = some (.ok (.int x))

def StoreRel (s s' : KState ℚ σ) : Prop := Base s s' ∧ (WF s → StoreCons s s' ∧ (GotInt s → GotInt s'))

theorem itemPot_of_same {s s' : KState ℚ σ} {r : ResId} {x : Int} (hl : (s'.res r).items = (s.res r).items)
    (hp : tot (wGotItem r x) s' = tot (wGotItem r x) s) (hg : tot (wPutItem r x) s' = tot (wPutItem r x) s) :
    itemPot s' r x = itemPot s r x := by
  unfold itemPot; rw [hl, hp, hg]

/-- a unit after which every event that has an outcome had the same kind and outcome before, and stores are the same stores -/
theorem gotInt_of_same {s s' : KState ℚ σ} (hk : ∀ r, (s'.res r).kind = (s.res r).kind)
    (h : ∀ e, (s'.ev e).out ≠ none → (s'.ev e).kind = (s.ev e).kind ∧ (s'.ev e).out = (s.ev e).out) :
    GotInt s → GotInt s' := by
  intro hG r e hs hke ho
  obtain ⟨h1, h2⟩ := h e ho
  rw [h2]
  exact hG r e (by rw [← hk]; exact hs) (by rw [← h1]; exact hke) (by rw [← h2]; exact ho)

theorem StoreRel.crel : CRel (StoreRel (σ := σ)) where
  refl s := ⟨Base.refl s, fun _ => ⟨fun _ _ _ => rfl, fun h => h⟩⟩
  trans := by
    intro s1 s2 s3 h12 h23
    refine ⟨h12.1.trans h23.1, ?_⟩
    intro hW
    obtain ⟨c12, g12⟩ := h12.2 hW
    obtain ⟨c23, g23⟩ := h23.2 (h12.1.keepWF hW)
    refine ⟨?_, fun h => g23 (g12 h)⟩
    intro r x hk
    have hk2 : isStoreKind (s2.res r).kind = true := by rw [h12.1.resKind]; exact hk
    rw [c23 r x hk2, c12 r x hk]
  toBase h := h.1
  frame s s' _ h := ⟨Base.of_frame h, fun _ =>
    ⟨fun r x _ => itemPot_of_same (h.res r).items (tot_frame h) (tot_frame h),
     gotInt_of_same (fun r => (h.res r).kind) (fun e _ => ⟨h.kind e, h.out e⟩)⟩⟩
  alloc s s' x _ he hk hc hr hp := by
    refine ⟨Base.of_alloc x he hk hc hr hp, fun _ => ⟨fun r y _ => itemPot_of_same ?_ (tot_alloc (wGotItem_ok r y) x he hk)
      (tot_alloc (wPutItem_ok r y) x he hk), ?_⟩⟩
    · simp only [KState.res, hr]
    · intro hG r e hs hke ho
      have hres : ∀ r, s'.res r = s.res r := fun r => by simp only [KState.res, hr]
      rw [Base.ev_of_push he] at hke ho ⊢
      split at hke
      · rw [hke] at hk; cases hk
      · rename_i hne
        rw [if_neg hne] at ho ⊢
        exact hG r e (by rw [← hres]; exact hs) hke ho
  trigNR s e o _ hn := by
    refine ⟨Base.of_trigNR s e o hn, fun _ => ⟨fun r x _ =>
      itemPot_of_same rfl (tot_trigNR (wGotItem_ok r x) s e o hn) (tot_trigNR (wPutItem_ok r x) s e o hn), ?_⟩⟩
    intro hG r a hs hka ho
    rw [kind_setOut] at hka
    have hne : a ≠ e := by
      intro hc; subst hc
      rw [isReq_of_get hka] at hn; cases hn
    rw [out_setOut_other _ _ _ _ hne] at ho ⊢
    exact hG r a hs hka ho
  grantPut s r0 e rest hW hq _ := by
    have hE := Base.putEffect_of_guard hW hq
    have hmem : e ∈ (s.res r0).putQ := by rw [hq]; exact List.mem_cons_self
    have hew := hW.putQ r0 e hmem
    have hlt : e < s.events.size := lt_size_of_kind (by rw [hew.1]; simp)
    have hB := Base.of_putEffect hW hmem hE
    refine ⟨hB, fun _ => ⟨?_, ?_⟩⟩
    · intro r x hk
      have hp := tot_grant (wPutItem_ok r x) hE.size hlt hE.kind hE.core hE.outE hE.outOther hew.2
      have hg := tot_grant (wGotItem_ok r x) hE.size hlt hE.kind hE.core hE.outE hE.outOther hew.2
      unfold itemPot
      rw [hp, hg, hew.1]
      have hg0 : wGotItem r x (.put r0) (some (.ok .none)) (coreOf s e) = 0 := by
        unfold wGotItem; rw [if_neg]; rintro ⟨h, _⟩; cases h
      rw [hg0]
      by_cases hrr : r = r0
      · subst hrr
        rw [hE.itemsS hk, List.count_append, List.count_singleton]
        have hp1 : wPutItem r x (.put r) (some (.ok .none)) (coreOf s e) = if (reqOf s e).item = x then 1 else 0 := by
          unfold wPutItem
          by_cases hx : (reqOf s e).item = x
          · rw [if_pos hx, if_pos ⟨rfl, rfl, hx⟩]
          · rw [if_neg hx, if_neg]; rintro ⟨_, _, h⟩; exact hx h
        rw [hp1]
        by_cases hx : (reqOf s e).item = x
        · simp [hx]; ring
        · simp [hx]
      · have hp0 : wPutItem r x (.put r0) (some (.ok .none)) (coreOf s e) = 0 := by
          unfold wPutItem; rw [if_neg]; rintro ⟨h, _⟩; injection h with h; exact hrr h.symm
        rw [hp0, hE.resOther r hrr]; ring
    · intro hG r a hs hka ho
      rw [hE.kind] at hka
      have hne : a ≠ e := by
        intro hc; subst hc; rw [hew.1] at hka; cases hka
      rw [hE.outOther a hne] at ho ⊢
      exact hG r a (by rw [← hB.resKind]; exact hs) hka ho
  grantGet s r0 e v pre rest hW hq hgi _ := by
    have hE := Base.getEffect_of_guard hW hq hgi
    have hmem : e ∈ (s.res r0).getQ := by rw [hq]; simp
    have hew := hW.getQ r0 e hmem
    have hlt : e < s.events.size := lt_size_of_kind (by rw [hew.1]; simp)
    have hB := Base.of_getEffect hW hmem hE
    refine ⟨hB, fun _ => ⟨?_, ?_⟩⟩
    · intro r x hk
      have hp := tot_grant (wPutItem_ok r x) hE.size hlt hE.kind hE.core hE.outE hE.outOther hew.2
      have hg := tot_grant (wGotItem_ok r x) hE.size hlt hE.kind hE.core hE.outE hE.outOther hew.2
      unfold itemPot
      rw [hp, hg, hew.1]
      have hp0 : wPutItem r x (.get r0) (some (.ok v)) (coreOf s e) = 0 := by
        unfold wPutItem; rw [if_neg]; rintro ⟨h, _⟩; cases h
      rw [hp0]
      by_cases hrr : r = r0
      · subst hrr
        obtain ⟨y, hv, hy, hit⟩ := hE.itemsS hk
        subst hv
        rw [hit, List.count_erase]
        have hg1 : wGotItem r x (.get r) (some (.ok (.int y))) (coreOf s e) = if y = x then 1 else 0 := by
          unfold wGotItem gotOf
          by_cases hx : y = x
          · rw [if_pos hx, if_pos ⟨rfl, by rw [hx]⟩]
          · rw [if_neg hx, if_neg]; rintro ⟨_, h⟩; injection h with h; exact hx h
        rw [hg1]
        by_cases hx : y = x
        · subst hx
          have hpos : 0 < (s.res r).items.count y := List.count_pos_iff.mpr hy
          simp only [beq_self_eq_true, if_true]
          omega
        · have : (y == x) = false := by simpa using hx
          simp [this, hx]
      · have hg0 : wGotItem r x (.get r0) (some (.ok v)) (coreOf s e) = 0 := by
          unfold wGotItem; rw [if_neg]; rintro ⟨h, _⟩; injection h with h; exact hrr h.symm
        rw [hg0, hE.resOther r hrr]; ring
    · intro hG r a hs hka ho
      rw [hE.kind] at hka
      by_cases hae : a = e
      · subst hae
        have hr : r = r0 := by rw [hew.1] at hka; injection hka with h; exact h.symm
        subst hr
        obtain ⟨y, hv, _, _⟩ := hE.itemsS (by rw [← hB.resKind]; exact hs)
        exact ⟨y, by rw [hE.outE, hv]⟩
      · rw [hE.outOther a hae] at ho ⊢
        exact hG r a (by rw [← hB.resKind]; exact hs) hka ho
  newPut s r0 rq _ := by
    have hB := Base.of_newPut s r0 rq
    have hN := newPut_ev s r0 rq
    refine ⟨hB, fun _ => ⟨fun r x _ => itemPot_of_same (newPut_resLI s r0 rq r).2
      (tot_newReq (wGotItem_ok r x) hN rfl) (tot_newReq (wPutItem_ok r x) hN rfl), ?_⟩⟩
    intro hG r a hs hka ho
    by_cases ha : a < s.events.size
    · rw [hN.old a ha] at hka ho ⊢
      exact hG r a (by rw [← hB.resKind]; exact hs) hka ho
    · exfalso
      by_cases ha2 : a = s.events.size
      · subst ha2; rw [hN.new] at ho; exact ho rfl
      · have hge : (newPutSt s r0 rq).events.size ≤ a := by rw [hN.size]; exact succ_le_of_not_lt_ne ha ha2
        have : (newPutSt s r0 rq).ev a = default := by
          simp only [KState.ev, Array.getD_eq_getD_getElem?]
          rw [Array.getElem?_eq_none hge]; rfl
        rw [this] at ho; exact ho rfl
  newGet s r0 rq _ := by
    have hB := Base.of_newGet s r0 rq
    have hN := newGet_ev s r0 rq
    refine ⟨hB, fun _ => ⟨fun r x _ => itemPot_of_same (newGet_resLI s r0 rq r).2
      (tot_newReq (wGotItem_ok r x) hN rfl) (tot_newReq (wPutItem_ok r x) hN rfl), ?_⟩⟩
    intro hG r a hs hka ho
    by_cases ha : a < s.events.size
    · rw [hN.old a ha] at hka ho ⊢
      exact hG r a (by rw [← hB.resKind]; exact hs) hka ho
    · exfalso
      by_cases ha2 : a = s.events.size
      · subst ha2; rw [hN.new] at ho; exact ho rfl
      · have hge : (newGetSt s r0 rq).events.size ≤ a := by rw [hN.size]; exact succ_le_of_not_lt_ne ha ha2
        have : (newGetSt s r0 rq).ev a = default := by
          simp only [KState.ev, Array.getD_eq_getD_getElem?]
          rw [Array.getElem?_eq_none hge]; rfl
        rw [this] at ho; exact ho rfl
  cancelPut s r0 e _ _ _ _ := ⟨Base.of_cancelPut s r0 e, fun _ =>
    ⟨fun r x _ => itemPot_of_same (dropPutQ_resLI s r0 e r).2 (tot_sameEv (fun _ => rfl) rfl) (tot_sameEv (fun _ => rfl) rfl),
     gotInt_of_same (Base.of_cancelPut s r0 e).resKind (fun _ _ => ⟨rfl, rfl⟩)⟩⟩
  cancelGet s r0 e _ _ _ _ := ⟨Base.of_cancelGet s r0 e, fun _ =>
    ⟨fun r x _ => itemPot_of_same (dropGetQ_resLI s r0 e r).2 (tot_sameEv (fun _ => rfl) rfl) (tot_sameEv (fun _ => rfl) rfl),
     gotInt_of_same (Base.of_cancelGet s r0 e).resKind (fun _ _ => ⟨rfl, rfl⟩)⟩⟩

theorem gotItems_noReq (s : KState ℚ σ) (r : ResId) (h : ∀ e, isReq s e = false) : gotItems s r = [] := by
  unfold gotItems
  rw [List.filterMap_eq_nil_iff]
  intro a _
  have := h a
  unfold isReq at this
  by_cases hk : (s.ev a).kind = .get r
  · rw [hk] at this; cases this
  · simp [hk]

theorem gotInt_noReq (s : KState ℚ σ) (h : ∀ e, isReq s e = false) : GotInt s := by
  intro r e _ hk _
  have := h e
  rw [isReq_of_get hk] at this; cases this

/-- the multiset equation between any two states of a run inside the domain -/
theorem reach_storeCons (body : σ → Resume → Burst ℚ σ) (fuel : Nat) (s0 s : KState ℚ σ) (hW : WF s0)
    (hr : SafeReach body fuel s0 s) (r : ResId) (hk : isStoreKind (s.res r).kind = true) :
    ((s.res r).items ++ gotItems s r ++ putItems s0 r).Perm ((s0.res r).items ++ gotItems s0 r ++ putItems s r) := by
  have h := StoreRel.crel.reach body fuel s0 s hW hr
  have hk0 : isStoreKind (s0.res r).kind = true := by rw [← h.1.resKind]; exact hk
  rw [List.perm_iff_count]
  intro x
  have := (h.2 hW).1 r x hk0
  unfold itemPot at this
  rw [tot_wGotItem, tot_wPutItem, tot_wGotItem, tot_wPutItem] at this
  simp only [List.count_append]
  omega

end Conserve
