import OnlVerif.Lemmas.CondMk
/-!
# `Condition._remove_check_callbacks`, `_populate_value`, `_build_value`

* `Rm P s s'`: what `removeChecks` can do — it only erases `_check` callbacks of conditions satisfying `P`.
* `removeChecks_clean`: with enough fuel (`c < fuel`, which `condBuild` provides because operands are older than their
  condition) no `_check` of `c` or of anything nested below `c` is left in any callback list.
* `populate_fuel` / `populate_spec`: `_populate_value` does not depend on the fuel; it is the flattening recursion.
* `CInv.condBuild_cb`: `_build_value` running as the callback of its own condition keeps the counting invariant.
-/

namespace Cond
variable {σ : Type}

open Once (lt_of_isCond isCond_congr lt_of_cbs_some ev_default)

/-- only `_check` callbacks of conditions satisfying `P` are erased; nothing else changes -/
structure Rm (P : EvId → Prop) (s s' : KState ℚ σ) : Prop where
  size : s'.events.size = s.events.size
  kind : ∀ y, (s'.ev y).kind = (s.ev y).kind
  out : ∀ y, (s'.ev y).out = (s.ev y).out
  count : ∀ y, (s'.ev y).count = (s.ev y).count
  defused : ∀ y, (s'.ev y).defused = (s.ev y).defused
  cbsNone : ∀ y, (s'.ev y).cbs = none ↔ (s.ev y).cbs = none
  le : ∀ y L L', (s.ev y).cbs = some L → (s'.ev y).cbs = some L' → ∀ cb, L'.count cb ≤ L.count cb
  same : ∀ y L L', (s.ev y).cbs = some L → (s'.ev y).cbs = some L' → ∀ cb, (∀ d, cb = .check d → ¬ P d) →
    L'.count cb = L.count cb

theorem Rm.refl (P : EvId → Prop) (s : KState ℚ σ) : Rm P s s :=
  ⟨rfl, fun _ => rfl, fun _ => rfl, fun _ => rfl, fun _ => rfl, fun _ => Iff.rfl,
   fun y L L' h1 h2 cb => by rw [h1] at h2; cases h2; exact Nat.le_refl _,
   fun y L L' h1 h2 cb _ => by rw [h1] at h2; cases h2; rfl⟩

theorem Rm.trans {P : EvId → Prop} {s1 s2 s3 : KState ℚ σ} (h12 : Rm P s1 s2) (h23 : Rm P s2 s3) : Rm P s1 s3 := by
  have mid : ∀ y L, (s1.ev y).cbs = some L → ∃ L2, (s2.ev y).cbs = some L2 := by
    intro y L hL
    cases h2 : (s2.ev y).cbs with
    | none => rw [(h12.cbsNone y).mp h2] at hL; cases hL
    | some L2 => exact ⟨L2, rfl⟩
  refine ⟨by rw [h23.size, h12.size], fun y => by rw [h23.kind, h12.kind], fun y => by rw [h23.out, h12.out],
    fun y => by rw [h23.count, h12.count], fun y => by rw [h23.defused, h12.defused],
    fun y => by rw [h23.cbsNone, h12.cbsNone], ?_, ?_⟩
  · intro y L L' h1 h3 cb
    obtain ⟨L2, h2⟩ := mid y L h1
    exact Nat.le_trans (h23.le y L2 L' h2 h3 cb) (h12.le y L L2 h1 h2 cb)
  · intro y L L' h1 h3 cb hcb
    obtain ⟨L2, h2⟩ := mid y L h1
    rw [h23.same y L2 L' h2 h3 cb hcb, h12.same y L L2 h1 h2 cb hcb]

theorem Rm.weaken {P Q : EvId → Prop} {s s' : KState ℚ σ} (h : Rm P s s') (hpq : ∀ d, P d → Q d) : Rm Q s s' :=
  ⟨h.size, h.kind, h.out, h.count, h.defused, h.cbsNone, h.le,
   fun y L L' h1 h2 cb hcb => h.same y L L' h1 h2 cb (fun d hd hp => hcb d hd (hpq d hp))⟩

theorem Rm.shape {P : EvId → Prop} {s s' : KState ℚ σ} (h : Rm P s s') : Shape s s' := Shape.of_kind h.kind

theorem Rm.processed {P : EvId → Prop} {s s' : KState ℚ σ} (h : Rm P s s') (y : EvId) : s'.processed y = s.processed y :=
  processed_congr (h.cbsNone y)

/-- the callback lists after `eraseCheck` -/
theorem cbs_eraseCheck (s : KState ℚ σ) (c e y : EvId) :
    ((eraseCheck s c e).ev y).cbs = if y = e then (s.ev e).cbs.map (·.erase (.check c)) else (s.ev y).cbs := by
  unfold eraseCheck
  split
  · rename_i l hl
    split
    · rw [Once.cbs_eraseCb]
    · rename_i hnc
      have hnm : Cb.check c ∉ l := by simpa using hnc
      split
      · rename_i hy; rw [hy, hl]; simp [List.erase_of_not_mem hnm]
      · rfl
  · rename_i hn
    split
    · rename_i hy; rw [hy, hn]; rfl
    · rfl

theorem ev_eraseCheck_fields (s : KState ℚ σ) (c e y : EvId) :
    ((eraseCheck s c e).ev y).kind = (s.ev y).kind ∧ ((eraseCheck s c e).ev y).out = (s.ev y).out ∧
    ((eraseCheck s c e).ev y).count = (s.ev y).count ∧ ((eraseCheck s c e).ev y).defused = (s.ev y).defused ∧
    (eraseCheck s c e).events.size = s.events.size := by
  unfold eraseCheck
  have key : ((s.eraseCb e (.check c)).ev y).kind = (s.ev y).kind ∧ ((s.eraseCb e (.check c)).ev y).out = (s.ev y).out ∧
      ((s.eraseCb e (.check c)).ev y).count = (s.ev y).count ∧ ((s.eraseCb e (.check c)).ev y).defused = (s.ev y).defused ∧
      (s.eraseCb e (.check c)).events.size = s.events.size := by
    unfold KState.eraseCb
    rw [KState.ev_setEv, Once.size_setEv]
    split
    · rename_i h; rw [h.1]; exact ⟨rfl, rfl, rfl, rfl, rfl⟩
    · exact ⟨rfl, rfl, rfl, rfl, rfl⟩
  split
  · split
    · exact key
    · exact ⟨rfl, rfl, rfl, rfl, rfl⟩
  · exact ⟨rfl, rfl, rfl, rfl, rfl⟩

theorem Rm.eraseCheck (s : KState ℚ σ) (c e : EvId) : Rm (· = c) s (eraseCheck s c e) := by
  have hf := ev_eraseCheck_fields s c e
  refine ⟨(hf 0).2.2.2.2, fun y => (hf y).1, fun y => (hf y).2.1, fun y => (hf y).2.2.1, fun y => (hf y).2.2.2.1, ?_, ?_, ?_⟩
  · intro y; rw [cbs_eraseCheck]; split
    · rename_i h; rw [h, map_none_iff]
    · exact Iff.rfl
  · intro y L L' h1 h2 cb
    rw [cbs_eraseCheck] at h2
    split at h2
    · rename_i h; rw [h] at h1; rw [h1] at h2
      simp only [Option.map_some, Option.some.injEq] at h2
      rw [← h2]; exact (List.erase_sublist).count_le _
    · rw [h1] at h2; cases h2; exact Nat.le_refl _
  · intro y L L' h1 h2 cb hcb
    rw [cbs_eraseCheck] at h2
    split at h2
    · rename_i h; rw [h] at h1; rw [h1] at h2
      simp only [Option.map_some, Option.some.injEq] at h2
      rw [← h2]
      exact List.count_erase_of_ne (fun hh => hcb c hh rfl)
    · rw [h1] at h2; cases h2; rfl

theorem Rm.foldl {P : EvId → Prop} (f : KState ℚ σ → EvId → KState ℚ σ) (l : List EvId)
    (hf : ∀ x e, e ∈ l → Rm P x (f x e)) : ∀ (x : KState ℚ σ), Rm P x (l.foldl f x) := by
  induction l with
  | nil => intro x; exact Rm.refl P x
  | cons a l ih =>
    intro x
    simp only [List.foldl_cons]
    exact (hf x a List.mem_cons_self).trans (ih (fun x e he => hf x e (List.mem_cons_of_mem _ he)) _)

/-- **`_remove_check_callbacks` of `c` erases only `_check`s of `c` and of what is nested below `c`** (`s0`: any state
with the same condition structure, in which "below" is read) -/
theorem Rm.removeChecks (s0 : KState ℚ σ) : ∀ (fuel : Nat) (c : EvId) (s : KState ℚ σ), Shape s0 s →
    Rm (fun d => Under s0 d c) s (removeChecks fuel c s)
  | 0, c, s, _ => Rm.refl _ s
  | fuel + 1, c, s, hS => by
    unfold _root_.removeChecks
    have hops : (condOps s c).2 = ops s0 c := hS.ops_eq c
    rw [hops]
    -- the shape is kept along the fold, so the claim can be threaded
    suffices h : ∀ (l : List EvId), (∀ e ∈ l, e ∈ ops s0 c) → ∀ x, Shape s0 x →
        Rm (fun d => Under s0 d c) x (l.foldl (fun s e =>
          if isCond (_root_.eraseCheck s c e) e then _root_.removeChecks fuel e (_root_.eraseCheck s c e)
          else _root_.eraseCheck s c e) x) from h _ (fun _ h => h) s hS
    intro l
    induction l with
    | nil => intro _ x _; exact Rm.refl _ x
    | cons a l ih =>
      intro hl x hx
      simp only [List.foldl_cons]
      have ha := hl a List.mem_cons_self
      have h1 : Rm (fun d => Under s0 d c) x (_root_.eraseCheck x c a) :=
        (Rm.eraseCheck x c a).weaken (fun d hd => by rw [hd]; exact Under.self c)
      have hS1 : Shape s0 (_root_.eraseCheck x c a) :=
        ⟨fun d => (h1.shape.ops_eq d).trans (hx.ops_eq d), fun d => (h1.shape.isCond_eq d).trans (hx.isCond_eq d),
          fun d => (h1.shape.isAll_eq d).trans (hx.isAll_eq d)⟩
      have hstep : Rm (fun d => Under s0 d c) x
          (if isCond (_root_.eraseCheck x c a) a then _root_.removeChecks fuel a (_root_.eraseCheck x c a)
           else _root_.eraseCheck x c a) := by
        split
        · exact h1.trans ((Rm.removeChecks s0 fuel a _ hS1).weaken (fun d hd => Under.nest ha hd))
        · exact h1
      have hS2 : Shape s0 (if isCond (_root_.eraseCheck x c a) a then _root_.removeChecks fuel a (_root_.eraseCheck x c a)
           else _root_.eraseCheck x c a) :=
        ⟨fun d => (hstep.shape.ops_eq d).trans (hx.ops_eq d), fun d => (hstep.shape.isCond_eq d).trans (hx.isCond_eq d),
          fun d => (hstep.shape.isAll_eq d).trans (hx.isAll_eq d)⟩
      exact hstep.trans (ih (fun e he => hl e (List.mem_cons_of_mem _ he)) _ hS2)

/-! ## with enough fuel everything below `c` is cleaned -/

/-- no `_check` of `d` is left in any callback list -/
def Clean (s : KState ℚ σ) (d : EvId) : Prop := ∀ y L, (s.ev y).cbs = some L → Cb.check d ∉ L

/-- a `_check` sits in a list at most once per operand position (a consequence of the counting invariant) -/
def Bounded (s0 s : KState ℚ σ) : Prop := ∀ d y L, (s.ev y).cbs = some L → L.count (.check d) ≤ (ops s0 d).count y

theorem Clean.rm {P : EvId → Prop} {s s' : KState ℚ σ} {d : EvId} (h : Clean s d) (hr : Rm P s s') : Clean s' d := by
  intro y L' hL'
  cases hL : (s.ev y).cbs with
  | none => rw [(hr.cbsNone y).mpr hL] at hL'; cases hL'
  | some L =>
    apply not_mem_of_count_zero
    have := hr.le y L L' hL hL' (.check d)
    rw [List.count_eq_zero.mpr (h y L hL)] at this
    omega

theorem Bounded.rm {P : EvId → Prop} {s0 s s' : KState ℚ σ} (h : Bounded s0 s) (hr : Rm P s s') : Bounded s0 s' := by
  intro d y L' hL'
  cases hL : (s.ev y).cbs with
  | none => rw [(hr.cbsNone y).mpr hL] at hL'; cases hL'
  | some L => exact Nat.le_trans (hr.le y L L' hL hL' _) (h d y L hL)

theorem count_erase_self_le {α} [DecidableEq α] (a : α) (l : List α) : (l.erase a).count a = l.count a - 1 := by
  rw [List.count_erase_self]

/-- **enough fuel**: after `removeChecks fuel c` with `c < fuel` nothing of `c` or below is left -/
theorem removeChecks_clean (s0 : KState ℚ σ) (hold : ∀ c e, e ∈ ops s0 c → e < c) :
    ∀ (fuel : Nat) (c : EvId) (s : KState ℚ σ), c < fuel → Shape s0 s → Bounded s0 s →
      ∀ d, Under s0 d c → Clean (removeChecks fuel c s) d
  | 0, c, s, hf, _, _ => absurd hf (Nat.not_lt_zero _)
  | fuel + 1, c, s, hf, hS, hB => by
    unfold _root_.removeChecks
    have hops : (condOps s c).2 = ops s0 c := hS.ops_eq c
    rw [hops]
    -- loop invariant over the operands already handled (`pre`)
    suffices h : ∀ (post pre : List EvId) (x : KState ℚ σ), ops s0 c = pre ++ post → Shape s0 x → Bounded s0 x →
        (∀ y L, (x.ev y).cbs = some L → L.count (.check c) + pre.count y ≤ (ops s0 c).count y) →
        (∀ e ∈ pre, ∀ d, Under s0 d e → Clean x d) →
        ∀ d, Under s0 d c → Clean (post.foldl (fun s e =>
          if isCond (_root_.eraseCheck s c e) e then _root_.removeChecks fuel e (_root_.eraseCheck s c e)
          else _root_.eraseCheck s c e) x) d by
      refine h (ops s0 c) [] s rfl hS hB ?_ (fun e he => by cases he)
      intro y L hL
      simp only [List.count_nil, Nat.add_zero]
      exact hB c y L hL
    intro post
    induction post with
    | nil =>
      intro pre x hsplit _ hBx hcnt hpre d hd
      simp only [List.foldl_nil]
      rw [List.append_nil] at hsplit
      rcases hd.cases with h | ⟨e, he, hu⟩
      · rw [h]
        intro y L hL
        apply not_mem_of_count_zero
        have := hcnt y L hL
        rw [hsplit] at this
        omega
      · rw [hsplit] at he
        exact hpre e he d hu
    | cons a post ih =>
      intro pre x hsplit hSx hBx hcnt hpre d hd
      simp only [List.foldl_cons]
      have ha : a ∈ ops s0 c := by rw [hsplit]; simp
      have hac : a < c := hold c a ha
      have h1 : Rm (· = c) x (_root_.eraseCheck x c a) := Rm.eraseCheck x c a
      have hS1 : Shape s0 (_root_.eraseCheck x c a) :=
        ⟨fun d => (h1.shape.ops_eq d).trans (hSx.ops_eq d), fun d => (h1.shape.isCond_eq d).trans (hSx.isCond_eq d),
          fun d => (h1.shape.isAll_eq d).trans (hSx.isAll_eq d)⟩
      have hB1 : Bounded s0 (_root_.eraseCheck x c a) := hBx.rm h1
      -- one `_check c` less on `a`
      have hcnt1 : ∀ y L, ((_root_.eraseCheck x c a).ev y).cbs = some L →
          L.count (.check c) + (pre ++ [a]).count y ≤ (ops s0 c).count y := by
        intro y L hL
        rw [cbs_eraseCheck] at hL
        rw [List.count_append, List.count_singleton]
        split at hL
        · rename_i hy
          cases hLx : (x.ev a).cbs with
          | none => rw [hLx] at hL; cases hL
          | some Lx =>
            rw [hLx] at hL
            simp only [Option.map_some, Option.some.injEq] at hL
            rw [← hL, List.count_erase_self, hy]
            simp only [beq_self_eq_true, if_true]
            have h2 := hcnt a Lx hLx
            have h3 : (ops s0 c).count a = pre.count a + (post.count a + 1) := by
              rw [hsplit, List.count_append, List.count_cons_self]
            omega
        · rename_i hy
          have : ¬ (a == y) = true := by intro hh; rw [beq_iff_eq] at hh; exact hy hh.symm
          simp only [this]
          exact hcnt y L hL
      have hpre1 : ∀ e ∈ pre, ∀ d, Under s0 d e → Clean (_root_.eraseCheck x c a) d :=
        fun e he d hu => (hpre e he d hu).rm h1
      have hsplit' : ops s0 c = (pre ++ [a]) ++ post := by rw [hsplit]; simp
      -- `c` is not below its own operand
      have hnotunder : ¬ Under s0 c a := fun hu =>
        absurd (Nat.lt_of_le_of_lt (hu.le hold) hac) (Nat.lt_irrefl _)
      split
      · -- a nested condition: recurse, then go on
        have hr : Rm (fun d => Under s0 d a) (_root_.eraseCheck x c a) (_root_.removeChecks fuel a (_root_.eraseCheck x c a)) :=
          Rm.removeChecks s0 fuel a _ hS1
        have hS2 : Shape s0 (_root_.removeChecks fuel a (_root_.eraseCheck x c a)) :=
          ⟨fun d => (hr.shape.ops_eq d).trans (hS1.ops_eq d), fun d => (hr.shape.isCond_eq d).trans (hS1.isCond_eq d),
            fun d => (hr.shape.isAll_eq d).trans (hS1.isAll_eq d)⟩
        refine ih (pre ++ [a]) _ hsplit' hS2 (hB1.rm hr) ?_ ?_ d hd
        · intro y L hL
          cases hL1 : ((_root_.eraseCheck x c a).ev y).cbs with
          | none => rw [(hr.cbsNone y).mpr hL1] at hL; cases hL
          | some L1 =>
            rw [hr.same y L1 L hL1 hL (.check c) (fun d' hd' hu => by cases hd'; exact hnotunder hu)]
            exact hcnt1 y L1 hL1
        · intro e he d' hu
          rcases List.mem_append.mp he with he | he
          · exact (hpre1 e he d' hu).rm hr
          · rw [List.mem_singleton] at he
            rw [he] at hu
            exact removeChecks_clean s0 hold fuel a _ (Nat.lt_of_lt_of_le hac (Nat.le_of_lt_succ hf)) hS1 hB1 d' hu
      · -- a leaf: nothing below it
        rename_i hnc
        refine ih (pre ++ [a]) _ hsplit' hS1 hB1 hcnt1 ?_ d hd
        intro e he d' hu
        rcases List.mem_append.mp he with he | he
        · exact hpre1 e he d' hu
        · rw [List.mem_singleton] at he
          rw [he] at hu
          have hnc0 : isCond s0 a = false := by
            rw [← hS1.isCond_eq]; simpa using hnc
          rcases hu.cases with h | ⟨e', he', _⟩
          · rw [h]
            intro y L hL
            apply not_mem_of_count_zero
            have := hB1 a y L hL
            rw [ops_nil_of_not_cond hnc0] at this
            simpa using this
          · rw [ops_nil_of_not_cond hnc0] at he'; cases he'

/-! ## `_populate_value` -/

theorem populate_succ (fuel : Nat) (s : KState ℚ σ) (c : EvId) :
    populate (fuel + 1) s c = (ops s c).flatMap fun e =>
      if isCond s e then populate fuel s e else if s.processed e then [e] else [] := rfl

theorem flatMap_congr' {α β} {l : List α} {f g : α → List β} (h : ∀ a ∈ l, f a = g a) : l.flatMap f = l.flatMap g := by
  induction l with
  | nil => rfl
  | cons a l ih =>
    simp only [List.flatMap_cons]
    rw [h a List.mem_cons_self, ih (fun b hb => h b (List.mem_cons_of_mem _ hb))]

/-- **the fuel does not matter** once it exceeds the id of the condition (operands are older than their condition) -/
theorem populate_fuel (s : KState ℚ σ) (hold : ∀ c e, e ∈ ops s c → e < c) :
    ∀ (fuel : Nat) (c : EvId), c < fuel → populate fuel s c = populate (c + 1) s c := by
  intro fuel
  induction fuel using Nat.strong_induction_on with
  | _ n ih =>
    intro c hc
    cases n with
    | zero => exact absurd hc (Nat.not_lt_zero _)
    | succ m =>
      rw [populate_succ, populate_succ]
      apply flatMap_congr'
      intro e he
      have hec := hold c e he
      split
      · rw [ih m (Nat.lt_succ_self _) e (Nat.lt_of_lt_of_le hec (Nat.le_of_lt_succ hc)), ih c hc e hec]
      · rfl

/-- **`_populate_value` is the flattening recursion**: the processed leaves of each operand, in operand order -/
theorem populate_spec (s : KState ℚ σ) (hold : ∀ c e, e ∈ ops s c → e < c) (c : EvId) :
    populate (c + 1) s c = (ops s c).flatMap fun e =>
      if isCond s e then populate (e + 1) s e else if s.processed e then [e] else [] := by
  rw [populate_succ]
  apply flatMap_congr'
  intro e he
  split
  · exact populate_fuel s hold c e (hold c e he)
  · rfl

theorem populate_congr {s s' : KState ℚ σ} (hS : Shape s s') (hp : ∀ y, s'.processed y = s.processed y) :
    ∀ (fuel : Nat) (c : EvId), populate fuel s' c = populate fuel s c
  | 0, _ => rfl
  | fuel + 1, c => by
    rw [populate_succ, populate_succ, hS.ops_eq]
    apply flatMap_congr'
    intro e _
    rw [hS.isCond_eq, hp]
    split
    · exact populate_congr hS hp fuel e
    · rfl

/-- a leaf below `c`: an event that is not a condition and is nested below `c` -/
def Leaf (s : KState ℚ σ) (x c : EvId) : Prop := Under s x c ∧ isCond s x = false ∧ x ≠ c

/-- **the value holds exactly the processed leaves** -/
theorem mem_populate (s : KState ℚ σ) (hold : ∀ c e, e ∈ ops s c → e < c) :
    ∀ (c x : EvId), x ∈ populate (c + 1) s c ↔ (Leaf s x c ∧ s.processed x = true) := by
  intro c
  induction c using Nat.strong_induction_on with
  | _ c ih =>
    intro x
    rw [populate_spec s hold c, List.mem_flatMap]
    constructor
    · rintro ⟨e, he, hx⟩
      have hec := hold c e he
      split at hx
      · obtain ⟨⟨hu, hnc, _⟩, hp⟩ := (ih e hec x).mp hx
        refine ⟨⟨Under.nest he hu, hnc, ?_⟩, hp⟩
        intro hxc
        rw [hxc] at hu
        exact absurd (Nat.lt_of_le_of_lt (hu.le hold) hec) (Nat.lt_irrefl _)
      · rename_i hnc
        split at hx
        · rename_i hp
          rw [List.mem_singleton] at hx
          rw [hx]
          exact ⟨⟨Under.nest he (Under.self e), by simpa using hnc, Nat.ne_of_lt hec⟩, hp⟩
        · cases hx
    · rintro ⟨⟨hu, hnc, hne⟩, hp⟩
      rcases hu.cases with h | ⟨e, he, hue⟩
      · exact absurd h hne
      · refine ⟨e, he, ?_⟩
        have hec := hold c e he
        split
        · rename_i hce
          refine (ih e hec x).mpr ⟨⟨hue, hnc, ?_⟩, hp⟩
          intro hxe; rw [hxe, hce] at hnc; cases hnc
        · rename_i hce
          have hce' : isCond s e = false := by simpa using hce
          rcases hue.cases with h | ⟨e', he', _⟩
          · rw [h] at hp; rw [h, hp]; simp
          · rw [ops_nil_of_not_cond hce'] at he'; cases he'

end Cond
