import Mathlib.Tactic.Ring
import Mathlib.Tactic.NormNum
import OnlVerif.Lemmas.TimerInv
/-!
# Timer LTS: when the callback fires

`Armed s E`: the timer is not stopped and `self.proc` is on its way to wake at exactly `E`.
`Dead s`: every process has finished and nothing is pending.
`Quiet a`: the action is neither a `stop`/`restart` call nor a wake whose callback touches the timer.
-/

namespace Timer

/-! ### field projections of the small state transformers -/

section fields
variable (pid : Nat) (s : State ℚ)

@[simp] theorem loopTest_now : (loopTest pid s).now = s.now := by unfold loopTest; split <;> rfl
@[simp] theorem loopTest_timeout : (loopTest pid s).timeout = s.timeout := by unfold loopTest; split <;> rfl
@[simp] theorem loopTest_expire : (loopTest pid s).expire = s.expire := by unfold loopTest; split <;> rfl
@[simp] theorem loopTest_stopped : (loopTest pid s).stopped = s.stopped := by unfold loopTest; split <;> rfl
@[simp] theorem loopTest_auto : (loopTest pid s).auto = s.auto := by unfold loopTest; split <;> rfl
@[simp] theorem loopTest_args : (loopTest pid s).args = s.args := by unfold loopTest; split <;> rfl
@[simp] theorem loopTest_proc : (loopTest pid s).proc = s.proc := by unfold loopTest; split <;> rfl
@[simp] theorem loopTest_uq : (loopTest pid s).uq = s.uq := by unfold loopTest; split <;> rfl

theorem loopTest_procs_lt (h : s.now < s.expire) :
    (loopTest pid s).procs = s.procs.set pid (PStat.sleeping s.expire) := by
  unfold loopTest
  rw [if_pos h]
  show s.procs.set pid (PStat.sleeping (s.now + (s.expire - s.now))) = _
  rw [add_sub_cancel]

theorem loopTest_procs_ge (h : ¬ s.now < s.expire) :
    (loopTest pid s).procs = s.procs.set pid PStat.finished := by
  unfold loopTest
  rw [if_neg h]
  rfl

@[simp] theorem autoRebase_now : (autoRebase s).now = s.now := by unfold autoRebase; split <;> rfl
@[simp] theorem autoRebase_timeout : (autoRebase s).timeout = s.timeout := by unfold autoRebase; split <;> rfl
@[simp] theorem autoRebase_stopped : (autoRebase s).stopped = s.stopped := by unfold autoRebase; split <;> rfl
@[simp] theorem autoRebase_auto : (autoRebase s).auto = s.auto := by unfold autoRebase; split <;> rfl
@[simp] theorem autoRebase_args : (autoRebase s).args = s.args := by unfold autoRebase; split <;> rfl
@[simp] theorem autoRebase_proc : (autoRebase s).proc = s.proc := by unfold autoRebase; split <;> rfl
@[simp] theorem autoRebase_uq : (autoRebase s).uq = s.uq := by unfold autoRebase; split <;> rfl
@[simp] theorem autoRebase_procs : (autoRebase s).procs = s.procs := by unfold autoRebase; split <;> rfl
theorem autoRebase_expire : (autoRebase s).expire = if s.auto then s.now + s.timeout else s.expire := by
  unfold autoRebase; split <;> rfl

end fields

/-- sleeping processes after `loopTest`: the process itself sleeps until `expire > now`, the others are as before -/
theorem loopTest_sleeping {pid : Nat} {s : State ℚ} {q : Nat} {w : ℚ}
    (h : (loopTest pid s).procs[q]? = some (PStat.sleeping w)) :
    (q = pid ∧ w = s.expire ∧ s.now < s.expire) ∨ (q ≠ pid ∧ s.procs[q]? = some (PStat.sleeping w)) := by
  by_cases hlt : s.now < s.expire
  · rw [loopTest_procs_lt pid s hlt] at h
    rcases get_set_cases h with ⟨hq, he⟩ | ⟨hq, hold⟩
    · cases he; exact Or.inl ⟨hq, rfl, hlt⟩
    · exact Or.inr ⟨hq, hold⟩
  · rw [loopTest_procs_ge pid s hlt] at h
    rcases get_set_cases h with ⟨_, he⟩ | ⟨hq, hold⟩
    · cases he
    · exact Or.inr ⟨hq, hold⟩

/-! ### who may wake -/

/-- **Only `self.proc` can wake, and then every other process has finished.** -/
theorem wake_only_proc {s s' : State ℚ} {o : List (Out ℚ)} {pid : Nat} {cb : List (CbOp ℚ)} (h : Inv s)
    (hs : step s (.wake pid cb) = .ok s' o) :
    pid = s.proc ∧ s.uq = [] ∧ s.procs[pid]? = some (PStat.sleeping s.now) ∧
      ∀ (q : Nat) (st : PStat ℚ), q ≠ pid → s.procs[q]? = some st → st = PStat.finished := by
  obtain ⟨huq, hsl, _⟩ := doWake_ok hs
  have hp : pid = s.proc := by
    by_contra hne
    have := h.old_intr pid _ hsl hne (by intro hc; cases hc)
    rw [huq] at this
    cases this
  refine ⟨hp, huq, hsl, ?_⟩
  intro q st hq hg
  by_contra hfin
  have := h.old_intr q st hg (by rw [← hp]; exact hq) hfin
  rw [huq] at this
  cases this

/-! ### quiet continuations -/

def Quiet : Action ℚ → Prop
  | .init _ => True
  | .intr _ => True
  | .tick _ => True
  | .wake _ cb => cb = []
  | .stop => False
  | .restart _ => False

structure Armed (s : State ℚ) (E : ℚ) : Prop where
  inv : Inv s
  not_stopped : s.stopped = false
  expire_eq : s.expire = E
  timeout_pos : 0 < s.timeout
  pending : (s.procs[s.proc]? = some PStat.notStarted ∧ s.now < E) ∨
    (s.procs[s.proc]? = some (PStat.sleeping E) ∧ s.now ≤ E)

theorem Armed.now_le {s : State ℚ} {E : ℚ} (h : Armed s E) : s.now ≤ E := by
  rcases h.pending with ⟨_, h⟩ | ⟨_, h⟩
  · exact le_of_lt h
  · exact h

structure Dead (s : State ℚ) : Prop where
  inv : Inv s
  uq_nil : s.uq = []
  all_fin : ∀ (pid : Nat) (st : PStat ℚ), s.procs[pid]? = some st → st = PStat.finished

/-- one quiet action from an armed state: either nothing fires and the timer stays armed for the same instant, or
the callback fires exactly at `E` with the stored arguments; a one-shot timer is then dead, an auto-restart timer
is armed for `E + timeout`. -/
theorem armed_step {s s' : State ℚ} {o : List (Out ℚ)} {a : Action ℚ} {E : ℚ} (h : Armed s E) (hq : Quiet a)
    (hs : step s a = .ok s' o) :
    s'.auto = s.auto ∧ s'.args = s.args ∧ s'.timeout = s.timeout ∧
    ((o = [] ∧ Armed s' E) ∨
     (o = [.fire E s.args] ∧ s'.now = E ∧
       ((s.auto = false ∧ Dead s') ∨ (s.auto = true ∧ Armed s' (E + s.timeout))))) := by
  have hinv' : Inv s' := step_inv h.inv hs
  cases a with
  | stop => exact absurd hq id
  | restart tau => exact absurd hq id
  | init pid =>
    obtain ⟨rest, huq, h0, rfl, rfl⟩ := doInit_ok hs
    refine ⟨by simp [popUq], by simp [popUq], by simp [popUq], Or.inl ⟨rfl, ?_⟩⟩
    refine ⟨hinv', by simpa [popUq] using h.not_stopped, by simpa [popUq] using h.expire_eq,
      by simpa [popUq] using h.timeout_pos, ?_⟩
    have hE : (popUq s rest).expire = E := h.expire_eq
    by_cases hp : pid = s.proc
    · subst hp
      rcases h.pending with ⟨_, hlt⟩ | ⟨hsl, _⟩
      · right
        have hlt' : (popUq s rest).now < (popUq s rest).expire := by rw [hE]; exact hlt
        refine ⟨?_, by simpa [popUq] using le_of_lt hlt⟩
        rw [loopTest_procs_lt _ _ hlt', hE]
        simp only [loopTest_proc]
        exact get_set_self (b := PStat.notStarted) h0
      · rw [h0] at hsl; cases hsl
    · have hsame : (loopTest pid (popUq s rest)).procs[s.proc]? = s.procs[s.proc]? := by
        by_cases hlt' : (popUq s rest).now < (popUq s rest).expire
        · rw [loopTest_procs_lt _ _ hlt']; exact get_set_ne hp
        · rw [loopTest_procs_ge _ _ hlt']; exact get_set_ne hp
      simp only [loopTest_proc, loopTest_now]
      show ((loopTest pid (popUq s rest)).procs[s.proc]? = _ ∧ s.now < E) ∨
        ((loopTest pid (popUq s rest)).procs[s.proc]? = _ ∧ s.now ≤ E)
      rw [hsame]
      exact h.pending
  | intr pid =>
    obtain ⟨rest, huq, rfl, hc⟩ := doIntr_ok hs
    have hp : pid ≠ s.proc := by
      intro hc'
      subst hc'
      exact h.inv.no_intr_proc (by rw [huq]; exact List.mem_cons_self)
    rcases hc with ⟨_, rfl⟩ | ⟨w, _, rfl⟩
    · exact ⟨rfl, rfl, rfl, Or.inl ⟨rfl, hinv', h.not_stopped, h.expire_eq, h.timeout_pos, h.pending⟩⟩
    · refine ⟨rfl, rfl, rfl, Or.inl ⟨rfl, hinv', h.not_stopped, h.expire_eq, h.timeout_pos, ?_⟩⟩
      show ((s.procs.set pid PStat.finished)[s.proc]? = _ ∧ s.now < E) ∨
        ((s.procs.set pid PStat.finished)[s.proc]? = _ ∧ s.now ≤ E)
      rw [get_set_ne hp]
      exact h.pending
  | tick t =>
    obtain ⟨huq, _, hd, rfl, rfl⟩ := doTick_ok hs
    refine ⟨rfl, rfl, rfl, Or.inl ⟨rfl, hinv', h.not_stopped, h.expire_eq, h.timeout_pos, ?_⟩⟩
    rcases h.pending with ⟨hns, _⟩ | ⟨hsl, _⟩
    · obtain ⟨a, b, hab, _⟩ := h.inv.init_first _ hns
      rw [huq] at hab
      simp at hab
    · exact Or.inr ⟨hsl, hd _ _ hsl⟩
  | wake pid cb =>
    have hcb : cb = [] := hq
    subst hcb
    obtain ⟨hp, huq, hsl, hothers⟩ := wake_only_proc h.inv hs
    obtain ⟨_, _, hw⟩ := doWake_ok hs
    subst hp
    have hnow : s.now = E := by
      rcases h.pending with ⟨hns, _⟩ | ⟨hsl', _⟩
      · rw [hns] at hsl; cases hsl
      · rw [hsl'] at hsl; cases hsl; rfl
    rcases wakeBody_ok hw with ⟨hst, _⟩ | ⟨_, s1, hrun, rfl, rfl⟩
    · rw [h.not_stopped] at hst; cases hst
    · simp only [runCb, Except.ok.injEq] at hrun
      subst hrun
      refine ⟨by simp, by simp, by simp, Or.inr ⟨by rw [hnow], by simpa using hnow, ?_⟩⟩
      cases hauto : s.auto with
      | false =>
        left
        refine ⟨rfl, hinv', by simpa using huq, ?_⟩
        have hge : ¬ (autoRebase s).now < (autoRebase s).expire := by
          rw [autoRebase_expire, hauto]
          simp only [autoRebase_now, Bool.false_eq_true, if_false, h.expire_eq, hnow]
          exact lt_irrefl _
        rw [loopTest_procs_ge _ _ hge]
        intro q st hg
        simp only [autoRebase_procs] at hg
        rcases get_set_cases hg with ⟨_, he⟩ | ⟨hqp, hold⟩
        · exact he
        · exact hothers q st hqp hold
      | true =>
        right
        have hexp : (autoRebase s).expire = E + s.timeout := by
          rw [autoRebase_expire, hauto, hnow]; rfl
        have hlt : (autoRebase s).now < (autoRebase s).expire := by
          rw [hexp, autoRebase_now, hnow]
          have := h.timeout_pos
          linarith
        refine ⟨rfl, hinv', by simpa using h.not_stopped, by simpa using hexp, by simpa using h.timeout_pos, ?_⟩
        right
        refine ⟨?_, ?_⟩
        · rw [loopTest_procs_lt _ _ hlt, hexp]
          simp only [loopTest_proc, autoRebase_proc, autoRebase_procs]
          exact get_set_self hsl
        · simp only [loopTest_now, autoRebase_now, hnow]
          have := h.timeout_pos
          linarith

theorem dead_step {s s' : State ℚ} {o : List (Out ℚ)} {a : Action ℚ} (h : Dead s) (hq : Quiet a)
    (hs : step s a = .ok s' o) : o = [] ∧ Dead s' ∧ s.now ≤ s'.now := by
  cases a with
  | stop => exact absurd hq id
  | restart tau => exact absurd hq id
  | init pid =>
    obtain ⟨rest, huq, _⟩ := doInit_ok hs
    rw [h.uq_nil] at huq; cases huq
  | intr pid =>
    obtain ⟨rest, huq, _⟩ := doIntr_ok hs
    rw [h.uq_nil] at huq; cases huq
  | wake pid cb =>
    obtain ⟨_, hsl, _⟩ := doWake_ok hs
    have := h.all_fin _ _ hsl
    cases this
  | tick t =>
    obtain ⟨_, hlt, hd, rfl, rfl⟩ := doTick_ok hs
    exact ⟨rfl, ⟨inv_tick h.inv hd, h.uq_nil, h.all_fin⟩, le_of_lt hlt⟩

theorem dead_run : ∀ {acts : List (Action ℚ)} {s s' : State ℚ} {o : List (Out ℚ)}, Dead s → (∀ a ∈ acts, Quiet a) →
    run s acts = .ok s' o → o = [] ∧ Dead s' ∧ s.now ≤ s'.now
  | [], s, s', o, h, _, hr => by cases hr; exact ⟨rfl, h, le_refl _⟩
  | a :: as, s, s', o, h, hq, hr => by
    obtain ⟨s1, o1, o2, hs, hr', rfl⟩ := run_cons_ok hr
    obtain ⟨rfl, hd, hle⟩ := dead_step h (hq a List.mem_cons_self) hs
    obtain ⟨rfl, hd', hle'⟩ := dead_run hd (fun x hx => hq x (List.mem_cons_of_mem _ hx)) hr'
    exact ⟨rfl, hd', le_trans hle hle'⟩

/-- **one-shot**: along a quiet run from a state armed for `E` the callback is invoked at most once, exactly at `E`,
with the stored arguments; as long as it has not been invoked the clock has not passed `E`. -/
theorem armed_run_oneshot : ∀ {acts : List (Action ℚ)} {s s' : State ℚ} {o : List (Out ℚ)} {E : ℚ}, Armed s E →
    s.auto = false → (∀ a ∈ acts, Quiet a) → run s acts = .ok s' o →
    (o = [] ∧ Armed s' E) ∨ (o = [.fire E s.args] ∧ Dead s' ∧ E ≤ s'.now)
  | [], s, s', o, E, h, _, _, hr => by cases hr; exact Or.inl ⟨rfl, h⟩
  | a :: as, s, s', o, E, h, hauto, hq, hr => by
    obtain ⟨s1, o1, o2, hs, hr', rfl⟩ := run_cons_ok hr
    have hq' : ∀ x ∈ as, Quiet x := fun x hx => hq x (List.mem_cons_of_mem _ hx)
    obtain ⟨ha, hargs, _, hc⟩ := armed_step h (hq a List.mem_cons_self) hs
    rcases hc with ⟨rfl, harm⟩ | ⟨rfl, hnow, hd⟩
    · have := armed_run_oneshot harm (ha.trans hauto) hq' hr'
      rw [hargs] at this
      simpa using this
    · rcases hd with ⟨_, hd⟩ | ⟨ht, _⟩
      · obtain ⟨rfl, hd', hle⟩ := dead_run hd hq' hr'
        exact Or.inr ⟨rfl, hd', by rw [← hnow]; exact hle⟩
      · rw [hauto] at ht; cases ht

/-- the firings of an auto-restart timer armed for `E`: `E, E + T, …, E + (k-1)·T` -/
def firesFrom (E T : ℚ) (args : List Int) (k : Nat) : List (Out ℚ) :=
  (List.range k).map fun i : Nat => Out.fire (E + (i : ℚ) * T) args

theorem firesFrom_succ (E T : ℚ) (args : List Int) (k : Nat) :
    firesFrom E T args (k + 1) = Out.fire E args :: firesFrom (E + T) T args k := by
  unfold firesFrom
  rw [List.range_succ_eq_map, List.map_cons, List.map_map]
  congr 1
  · simp
  · apply List.map_congr_left
    intro i _
    simp only [Function.comp, Nat.succ_eq_add_one, Nat.cast_add, Nat.cast_one]
    congr 1
    ring

/-- **auto-restart**: along a quiet run from a state armed for `E` the callback is invoked exactly at
`E, E + T, E + 2T, …` (`T` the timeout) with the stored arguments, and the timer is armed for the next of them. -/
theorem armed_run_auto : ∀ {acts : List (Action ℚ)} {s s' : State ℚ} {o : List (Out ℚ)} {E : ℚ}, Armed s E →
    s.auto = true → (∀ a ∈ acts, Quiet a) → run s acts = .ok s' o →
    ∃ k : Nat, o = firesFrom E s.timeout s.args k ∧ Armed s' (E + (k : ℚ) * s.timeout)
  | [], s, s', o, E, h, _, _, hr => by
    cases hr
    exact ⟨0, rfl, by simpa using h⟩
  | a :: as, s, s', o, E, h, hauto, hq, hr => by
    obtain ⟨s1, o1, o2, hs, hr', rfl⟩ := run_cons_ok hr
    have hq' : ∀ x ∈ as, Quiet x := fun x hx => hq x (List.mem_cons_of_mem _ hx)
    obtain ⟨ha, hargs, htmo, hc⟩ := armed_step h (hq a List.mem_cons_self) hs
    rcases hc with ⟨rfl, harm⟩ | ⟨rfl, _, hd⟩
    · obtain ⟨k, hk, harm'⟩ := armed_run_auto harm (ha.trans hauto) hq' hr'
      rw [hargs, htmo] at hk
      rw [htmo] at harm'
      exact ⟨k, by simpa using hk, harm'⟩
    · rcases hd with ⟨hf, _⟩ | ⟨_, harm⟩
      · rw [hauto] at hf; cases hf
      · obtain ⟨k, hk, harm'⟩ := armed_run_auto harm (ha.trans hauto) hq' hr'
        rw [hargs, htmo] at hk
        rw [htmo] at harm'
        refine ⟨k + 1, ?_, ?_⟩
        · rw [firesFrom_succ, hk]; rfl
        · have : E + ((k + 1 : Nat) : ℚ) * s.timeout = E + s.timeout + (k : ℚ) * s.timeout := by
            push_cast; ring
          rw [this]; exact harm'

/-! ### stop is final -/

theorem step_stopped {s s' : State ℚ} {o : List (Out ℚ)} {a : Action ℚ} (h : Inv s) (hst : s.stopped = true)
    (hs : step s a = .ok s' o) : o = [] ∧ s'.stopped = true := by
  cases a with
  | init pid =>
    obtain ⟨rest, _, _, rfl, rfl⟩ := doInit_ok hs
    exact ⟨rfl, by simpa [popUq] using hst⟩
  | intr pid =>
    obtain ⟨rest, _, rfl, hc⟩ := doIntr_ok hs
    rcases hc with ⟨_, rfl⟩ | ⟨w, _, rfl⟩ <;> exact ⟨rfl, hst⟩
  | wake pid cb =>
    obtain ⟨_, _, hw⟩ := doWake_ok hs
    rcases wakeBody_ok hw with ⟨_, _, rfl, rfl⟩ | ⟨hns, _⟩
    · exact ⟨rfl, by simpa using hst⟩
    · rw [hst] at hns; cases hns
  | stop =>
    simp only [step, Res.ok.injEq] at hs
    exact ⟨hs.2.symm, by rw [← hs.1]; rfl⟩
  | restart tau =>
    simp only [step] at hs
    cases hr : restartCall none tau s with
    | ok s1 =>
      rw [hr] at hs; simp only [ofExcept, Res.ok.injEq] at hs
      exact ⟨hs.2.symm, by rw [← hs.1]; exact (restartCall_frame h hr).stopped_mono hst⟩
    | error e => rw [hr] at hs; cases hs
  | tick t =>
    obtain ⟨_, _, _, rfl, rfl⟩ := doTick_ok hs
    exact ⟨rfl, hst⟩

theorem run_stopped : ∀ {acts : List (Action ℚ)} {s s' : State ℚ} {o : List (Out ℚ)}, Inv s → s.stopped = true →
    run s acts = .ok s' o → o = [] ∧ s'.stopped = true
  | [], s, s', o, _, hst, hr => by cases hr; exact ⟨rfl, hst⟩
  | a :: as, s, s', o, h, hst, hr => by
    obtain ⟨s1, o1, o2, hs, hr', rfl⟩ := run_cons_ok hr
    obtain ⟨rfl, hst1⟩ := step_stopped h hst hs
    obtain ⟨rfl, hst2⟩ := run_stopped (step_inv h hs) hst1 hr'
    exact ⟨rfl, hst2⟩

/-- a callback that calls `stop()` leaves the timer stopped, whatever else it calls -/
theorem runCb_stop_mem {pid : Nat} : ∀ {cb : List (CbOp ℚ)} {s s' : State ℚ}, Inv s → runCb pid cb s = .ok s' →
    (CbOp.stop ∈ cb ∨ s.stopped = true) → s'.stopped = true
  | [], s, s', _, hr, hm => by
    simp only [runCb, Except.ok.injEq] at hr
    subst hr
    rcases hm with hm | hm
    · cases hm
    · exact hm
  | op :: ops, s, s', h, hr, hm => by
    rw [runCb] at hr
    cases hop : cbOp pid s op with
    | error e => rw [hop] at hr; cases hr
    | ok s1 =>
      rw [hop] at hr
      have h1 := cbOp_inv h hop
      refine runCb_stop_mem h1.1 hr ?_
      rcases hm with hm | hm
      · rcases List.mem_cons.mp hm with hm | hm
        · subst hm
          simp only [cbOp, Except.ok.injEq] at hop
          subst hop
          exact Or.inr rfl
        · exact Or.inl hm
      · exact Or.inr (h1.2.stopped_mono hm)

/-! ### firing instants strictly increase -/

theorem step_bound {s s' : State ℚ} {o : List (Out ℚ)} {a : Action ℚ} {b : ℚ} (h : Inv s) (hb : b ≤ s.now)
    (hsl : ∀ (pid : Nat) (w : ℚ), s.procs[pid]? = some (PStat.sleeping w) → b < w) (hs : step s a = .ok s' o) :
    (o = [] ∧ b ≤ s'.now ∧ ∀ (pid : Nat) (w : ℚ), s'.procs[pid]? = some (PStat.sleeping w) → b < w) ∨
    (∃ args, o = [.fire s.now args] ∧ b < s.now ∧ s'.now = s.now ∧
      ∀ (pid : Nat) (w : ℚ), s'.procs[pid]? = some (PStat.sleeping w) → s.now < w) := by
  cases a with
  | init pid =>
    obtain ⟨rest, _, _, rfl, rfl⟩ := doInit_ok hs
    refine Or.inl ⟨rfl, by simpa [popUq] using hb, ?_⟩
    intro q w hg
    rcases loopTest_sleeping hg with ⟨_, rfl, hlt⟩ | ⟨_, hold⟩
    · exact lt_of_le_of_lt hb hlt
    · exact hsl q w hold
  | intr pid =>
    obtain ⟨rest, _, rfl, hc⟩ := doIntr_ok hs
    rcases hc with ⟨_, rfl⟩ | ⟨w', _, rfl⟩
    · exact Or.inl ⟨rfl, hb, hsl⟩
    · refine Or.inl ⟨rfl, hb, ?_⟩
      intro q w hg
      rcases get_set_cases hg with ⟨_, he⟩ | ⟨_, hold⟩
      · cases he
      · exact hsl q w hold
  | stop =>
    simp only [step, Res.ok.injEq] at hs
    obtain ⟨rfl, rfl⟩ := hs
    exact Or.inl ⟨rfl, hb, hsl⟩
  | restart tau =>
    simp only [step] at hs
    cases hr : restartCall none tau s with
    | error e => rw [hr] at hs; cases hs
    | ok s1 =>
      rw [hr] at hs; simp only [ofExcept, Res.ok.injEq] at hs
      obtain ⟨rfl, rfl⟩ := hs
      have hf := restartCall_frame h hr
      refine Or.inl ⟨rfl, by rw [hf.now_eq]; exact hb, ?_⟩
      intro q w hg
      rcases hf.new_unstarted q _ hg with hold | hc
      · exact hsl q w hold
      · cases hc
  | tick t =>
    obtain ⟨_, hlt, _, rfl, rfl⟩ := doTick_ok hs
    exact Or.inl ⟨rfl, le_trans hb (le_of_lt hlt), hsl⟩
  | wake pid cb =>
    obtain ⟨hp, huq, hsl', hothers⟩ := wake_only_proc h hs
    obtain ⟨_, _, hw⟩ := doWake_ok hs
    rcases wakeBody_ok hw with ⟨_, _, rfl, rfl⟩ | ⟨_, s1, hrun, rfl, rfl⟩
    · refine Or.inl ⟨rfl, by simpa using hb, ?_⟩
      intro q w hg
      rcases loopTest_sleeping hg with ⟨_, rfl, hlt⟩ | ⟨_, hold⟩
      · exact lt_of_le_of_lt hb hlt
      · exact hsl q w hold
    · obtain ⟨_, hf⟩ := runCb_inv h hrun
      refine Or.inr ⟨s.args, rfl, hsl pid _ hsl', by simp [hf.now_eq], ?_⟩
      intro q w hg
      rcases loopTest_sleeping hg with ⟨_, rfl, hlt⟩ | ⟨hq, hold⟩
      · simpa [hf.now_eq] using hlt
      · simp only [autoRebase_procs] at hold
        rcases hf.new_unstarted q _ hold with hold' | hc
        · have := hothers q _ hq hold'
          cases this
        · cases hc

/-- along every run all firings happen strictly after `b` and at strictly increasing instants -/
theorem run_bound : ∀ {acts : List (Action ℚ)} {s s' : State ℚ} {o : List (Out ℚ)} {b : ℚ}, Inv s → b ≤ s.now →
    (∀ (pid : Nat) (w : ℚ), s.procs[pid]? = some (PStat.sleeping w) → b < w) → run s acts = .ok s' o →
    (∀ x ∈ o, b < x.time) ∧ (o.map Out.time).Pairwise (· < ·)
  | [], s, s', o, b, _, _, _, hr => by
    cases hr
    exact ⟨fun x hx => by simp at hx, List.Pairwise.nil⟩
  | a :: as, s, s', o, b, h, hb, hsl, hr => by
    obtain ⟨s1, o1, o2, hs, hr', rfl⟩ := run_cons_ok hr
    have hi := step_inv h hs
    rcases step_bound h hb hsl hs with ⟨rfl, hb1, hsl1⟩ | ⟨args, rfl, hbn, hn1, hsl1⟩
    · simpa using run_bound hi hb1 hsl1 hr'
    · obtain ⟨hall, hpw⟩ := run_bound hi (le_of_eq hn1.symm) hsl1 hr'
      refine ⟨?_, ?_⟩
      · intro x hx
        rcases List.mem_cons.mp hx with rfl | hx
        · exact hbn
        · exact lt_trans hbn (hall x hx)
      · show ((Out.fire s.now args :: o2).map Out.time).Pairwise (· < ·)
        rw [List.map_cons, List.pairwise_cons]
        refine ⟨?_, hpw⟩
        intro t ht
        obtain ⟨x, hx, rfl⟩ := List.mem_map.mp ht
        exact hall x hx

/-! ### restart re-bases -/

/-- `restart(tau)` from another process on a timer that is pending (not stopped, process alive) -/
theorem armed_after_restart {s : State ℚ} {tau : ℚ} (h : Inv s) (hns : s.stopped = false)
    (hal : ∃ st, s.procs[s.proc]? = some st ∧ st ≠ PStat.finished) (htau : 0 < tau) :
    ∃ s1, step s (.restart tau) = .ok s1 [] ∧ Armed s1 (s.now + tau) ∧ s1.auto = s.auto ∧ s1.args = s.args ∧
      s1.timeout = tau ∧ s1.now = s.now := by
  rcases restartCall_spec h none tau with ⟨_, hc⟩ | ⟨_, _, he⟩
  · exfalso
    rcases hc with hc | hc
    · cases hc
    · obtain ⟨st, hg, hne⟩ := hal
      rw [hc] at hg
      exact hne (Option.some.inj hg).symm
  · refine ⟨_, by simp only [step, he, ofExcept], ⟨restartCall_inv h he, hns, rfl, htau, ?_⟩, rfl, rfl, rfl, rfl⟩
    left
    refine ⟨?_, ?_⟩
    · show (s.procs ++ [PStat.notStarted])[s.procs.length]? = some PStat.notStarted
      exact List.getElem?_concat_length
    · show s.now < s.now + tau
      linarith

theorem cbOp_self_restart {s : State ℚ} {pid : Nat} (hp : s.proc = pid) (tau : ℚ) :
    cbOp pid s (.restart tau) = .ok (rebase tau s) := by
  simp only [cbOp, restartCall]
  rw [if_pos (by rw [← hp]; rfl)]

theorem runCb_append {pid : Nat} : ∀ (a b : List (CbOp ℚ)) (s : State ℚ),
    runCb pid (a ++ b) s = match runCb pid a s with
      | .ok s' => runCb pid b s'
      | .error e => .error e
  | [], b, s => by simp [runCb]
  | op :: a, b, s => by
    rw [List.cons_append, runCb, runCb]
    cases cbOp pid s op with
    | ok s1 => simp only; exact runCb_append a b s1
    | error e => rfl

/-- calls of `restart` made by the callback of `self.proc` only re-base -/
theorem runCb_self_restarts {pid : Nat} : ∀ (ops : List (CbOp ℚ)) (s : State ℚ), s.proc = pid →
    (∀ op ∈ ops, op ≠ CbOp.stop) →
    ∃ s', runCb pid ops s = .ok s' ∧ s'.procs = s.procs ∧ s'.proc = s.proc ∧ s'.uq = s.uq ∧ s'.now = s.now ∧
      s'.auto = s.auto ∧ s'.args = s.args ∧ s'.stopped = s.stopped
  | [], s, _, _ => ⟨s, rfl, rfl, rfl, rfl, rfl, rfl, rfl, rfl⟩
  | op :: ops, s, hp, hno => by
    cases op with
    | stop => exact absurd rfl (hno _ List.mem_cons_self)
    | restart tau =>
      rw [runCb, cbOp_self_restart hp tau]
      obtain ⟨s', hr, h1, h2, h3, h4, h5, h6, h7⟩ :=
        runCb_self_restarts ops (rebase tau s) hp (fun op hop => hno op (List.mem_cons_of_mem _ hop))
      exact ⟨s', hr, h1, h2, h3, h4, h5, h6, h7⟩

/-- `restart(tau)` as the last timer call of the callback (no `stop()` before it) -/
theorem armed_after_cb_restart {s s1 : State ℚ} {o : List (Out ℚ)} {pid : Nat} {ops : List (CbOp ℚ)} {tau : ℚ}
    (h : Inv s) (hno : ∀ op ∈ ops, op ≠ CbOp.stop) (htau : 0 < tau)
    (hs : step s (.wake pid (ops ++ [.restart tau])) = .ok s1 o) :
    o = [.fire s.now s.args] ∧ Armed s1 (s.now + tau) ∧ s1.auto = s.auto ∧ s1.args = s.args ∧
      s1.timeout = tau ∧ s1.now = s.now := by
  have hinv1 := step_inv h hs
  obtain ⟨hp, _, hsl, _⟩ := wake_only_proc h hs
  obtain ⟨_, _, hw⟩ := doWake_ok hs
  rcases wakeBody_ok hw with ⟨_, hnil, _⟩ | ⟨hns, s2, hrun, rfl, rfl⟩
  · simp at hnil
  · obtain ⟨s3, hr3, h1, h2, h3, h4, h5, h6, h7⟩ := runCb_self_restarts ops s hp.symm hno
    rw [runCb_append, hr3] at hrun
    simp only [runCb] at hrun
    rw [cbOp_self_restart (h2.trans hp.symm) tau] at hrun
    simp only [Except.ok.injEq] at hrun
    subst hrun
    have hexp : (autoRebase (rebase tau s3)).expire = s.now + tau := by
      rw [autoRebase_expire]
      split <;> simp [rebase, h4]
    have hlt : (autoRebase (rebase tau s3)).now < (autoRebase (rebase tau s3)).expire := by
      rw [hexp]; simp only [autoRebase_now, rebase, h4]; linarith
    refine ⟨rfl, ⟨hinv1, ?_, ?_, ?_, ?_⟩, ?_, ?_, ?_, ?_⟩
    · simp [rebase, h7, hns]
    · simpa using hexp
    · simpa [rebase] using htau
    · right
      refine ⟨?_, by simp [rebase, h4]; linarith⟩
      rw [loopTest_procs_lt _ _ hlt, hexp]
      simp only [loopTest_proc, autoRebase_proc, autoRebase_procs, rebase, h1, h2, ← hp]
      exact get_set_self hsl
    · simp [rebase, h5]
    · simp [rebase, h6]
    · simp [rebase]
    · simp [rebase, h4]

/-! ### frame: the arguments never change, the clock never goes back, a firing is stamped with the current instant -/

theorem step_frame {s s' : State ℚ} {o : List (Out ℚ)} {a : Action ℚ} (h : Inv s) (hs : step s a = .ok s' o) :
    s'.args = s.args ∧ s'.auto = s.auto ∧ s.now ≤ s'.now ∧ ∀ x ∈ o, x = Out.fire s.now s.args := by
  cases a with
  | init pid =>
    obtain ⟨rest, _, _, rfl, rfl⟩ := doInit_ok hs
    exact ⟨by simp [popUq], by simp [popUq], by simp [popUq], fun x hx => by simp at hx⟩
  | intr pid =>
    obtain ⟨rest, _, rfl, hc⟩ := doIntr_ok hs
    rcases hc with ⟨_, rfl⟩ | ⟨w, _, rfl⟩ <;> exact ⟨rfl, rfl, le_refl _, fun x hx => by simp at hx⟩
  | stop =>
    simp only [step, Res.ok.injEq] at hs
    obtain ⟨rfl, rfl⟩ := hs
    exact ⟨rfl, rfl, le_refl _, fun x hx => by simp at hx⟩
  | restart tau =>
    simp only [step] at hs
    cases hr : restartCall none tau s with
    | error e => rw [hr] at hs; cases hs
    | ok s1 =>
      rw [hr] at hs; simp only [ofExcept, Res.ok.injEq] at hs
      obtain ⟨rfl, rfl⟩ := hs
      have hf := restartCall_frame h hr
      exact ⟨hf.args_eq, hf.auto_eq, le_of_eq hf.now_eq.symm, fun x hx => by simp at hx⟩
  | tick t =>
    obtain ⟨_, hlt, _, rfl, rfl⟩ := doTick_ok hs
    exact ⟨rfl, rfl, le_of_lt hlt, fun x hx => by simp at hx⟩
  | wake pid cb =>
    obtain ⟨_, _, hw⟩ := doWake_ok hs
    rcases wakeBody_ok hw with ⟨_, _, rfl, rfl⟩ | ⟨_, s1, hrun, rfl, rfl⟩
    · exact ⟨by simp, by simp, by simp, fun x hx => by simp at hx⟩
    · obtain ⟨_, hf⟩ := runCb_inv h hrun
      refine ⟨by simp [hf.args_eq], by simp [hf.auto_eq], by simp [hf.now_eq], ?_⟩
      intro x hx
      simpa using hx

/-- along every run: the stored arguments and the mode never change, the clock never goes back, every firing carries
the stored arguments and an instant between the start and the end of the run -/
theorem run_frame : ∀ {acts : List (Action ℚ)} {s s' : State ℚ} {o : List (Out ℚ)}, Inv s → run s acts = .ok s' o →
    s'.args = s.args ∧ s'.auto = s.auto ∧ s.now ≤ s'.now ∧
      ∀ x ∈ o, ∃ t, x = Out.fire t s.args ∧ s.now ≤ t ∧ t ≤ s'.now
  | [], s, s', o, _, hr => by cases hr; exact ⟨rfl, rfl, le_refl _, fun x hx => by simp at hx⟩
  | a :: as, s, s', o, h, hr => by
    obtain ⟨s1, o1, o2, hs, hr', rfl⟩ := run_cons_ok hr
    obtain ⟨ha, hau, hn, hf⟩ := step_frame h hs
    obtain ⟨ha', hau', hn', hf'⟩ := run_frame (step_inv h hs) hr'
    refine ⟨ha'.trans ha, hau'.trans hau, le_trans hn hn', ?_⟩
    intro x hx
    rcases List.mem_append.mp hx with hx | hx
    · exact ⟨s.now, hf x hx, le_refl _, le_trans hn hn'⟩
    · obtain ⟨t, rfl, h1, h2⟩ := hf' x hx
      exact ⟨t, by rw [ha], le_trans hn h1, h2⟩

/-! ### reachable states -/

/-- the states of a timer: created with a positive timeout, then any enabled actions (any callbacks, any `restart`
arguments, any interleaving the kernel admits) -/
inductive Reachable : State ℚ → Prop
  | create {t0 T : ℚ} {auto : Bool} {a : ArgSpec} {s : State ℚ} : create t0 T auto a = .ok s → Reachable s
  | step {s s' : State ℚ} {act : Action ℚ} {o : List (Out ℚ)} : Reachable s → step s act = .ok s' o → Reachable s'

theorem Reachable.inv {s : State ℚ} (h : Reachable s) : Inv s := by
  induction h with
  | create hc => exact create_inv hc
  | step _ hs ih => exact step_inv ih hs

theorem Reachable.run : ∀ {acts : List (Action ℚ)} {s s' : State ℚ} {o : List (Out ℚ)}, Reachable s →
    run s acts = .ok s' o → Reachable s'
  | [], s, s', o, h, hr => by cases hr; exact h
  | a :: as, s, s', o, h, hr => by
    obtain ⟨s1, o1, o2, hs, hr', _⟩ := run_cons_ok hr
    exact Reachable.run (Reachable.step h hs) hr'

theorem create_armed {t0 T : ℚ} {auto : Bool} {a : ArgSpec} {s : State ℚ} (h : create t0 T auto a = .ok s) :
    Armed s (t0 + T) ∧ s.args = normArgs a ∧ s.auto = auto ∧ s.timeout = T ∧ s.now = t0 := by
  have hinv := create_inv h
  have hT : 0 < T := (create_ok_iff t0 T auto a).mp ⟨s, h⟩
  unfold create at h
  split at h
  · cases h
  · cases h
    refine ⟨⟨hinv, rfl, rfl, hT, Or.inl ⟨rfl, ?_⟩⟩, rfl, rfl, rfl, rfl⟩
    show t0 < t0 + T
    linarith

/-- what a quiet continuation of a state armed for `E` does, in both modes -/
theorem armed_run {acts : List (Action ℚ)} {s s' : State ℚ} {o : List (Out ℚ)} {E : ℚ} (h : Armed s E)
    (hq : ∀ a ∈ acts, Quiet a) (hr : run s acts = .ok s' o) :
    (s.auto = false → (o = [] ∧ s'.now ≤ E) ∨ (o = [.fire E s.args] ∧ E ≤ s'.now)) ∧
    (s.auto = true → ∃ k : Nat, o = firesFrom E s.timeout s.args k ∧ s'.now ≤ E + (k : ℚ) * s.timeout) := by
  constructor
  · intro ha
    rcases armed_run_oneshot h ha hq hr with ⟨h1, h2⟩ | ⟨h1, _, h3⟩
    · exact Or.inl ⟨h1, h2.now_le⟩
    · exact Or.inr ⟨h1, h3⟩
  · intro ha
    obtain ⟨k, h1, h2⟩ := armed_run_auto h ha hq hr
    exact ⟨k, h1, h2.now_le⟩

/-! ### evaluating concrete runs (for the non-vacuity examples) -/

/-- the outputs of a run that ended normally -/
def outsOf : Res ℚ → Option (List (Out ℚ))
  | .ok _ o => some o
  | _ => none

/-- the final state of a run that ended normally -/
def stateOf : Res ℚ → Option (State ℚ)
  | .ok s _ => some s
  | _ => none

/-- evaluate a concrete run by unfolding the model -/
macro "timer_eval" : tactic =>
  `(tactic| repeat (first
    | simp [run, step, create, normArgs, zero_eq, doInit, doIntr, loopTest, popUq, setStat, doTick, doWake, Num.eqb,
        wakeBody, runCb, autoRebase, outsOf, stateOf, restartCall, rebase, interruptReq, spawn, PStat.alive,
        Timer.ofExcept, cbOp, stopBody]
    | norm_num [run, step, create, normArgs, zero_eq, doInit, doIntr, loopTest, popUq, setStat, doTick, doWake, Num.eqb,
        wakeBody, runCb, autoRebase, outsOf, stateOf, restartCall, rebase, interruptReq, spawn, PStat.alive,
        Timer.ofExcept, cbOp, stopBody]))

end Timer
