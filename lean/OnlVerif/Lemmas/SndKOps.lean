import OnlVerif.Lemmas.SndKFrame
/-!
# The TCP sender on the kernel model: the kernel operations of a step, one at a time

`Environment.step` pops an entry and opens its event (`openEvent`); a `_resume` callback delivers the event to the process
(`startSt`), runs the burst, and then registers the process with the event it yielded (`yieldSt`) or ends it
(`finishProc`).  Each lemma says what one of these operations does to the facts of `KK`.
-/

set_option linter.unusedSimpArgs false

namespace SndK
open SenderOnK

/-! ## the agenda after an operation -/

theorem wf_same {s1 S : KS} (h : AgendaWF s1) (hn : S.now = s1.now) (ha : S.agenda = s1.agenda) (he : S.eid = s1.eid) :
    AgendaWF S := by
  refine ⟨?_, ?_, ?_⟩
  · rw [ha, hn]; exact h.due
  · rw [ha, he]; exact h.eid_lt
  · rw [ha]; exact h.distinct

theorem wf_push1 {s1 S : KS} (h : AgendaWF s1) (x : QEntry ℚ) (hn : S.now = s1.now) (ha : S.agenda = x :: s1.agenda)
    (he : S.eid = s1.eid + 1) (hx : x.eid = s1.eid) (ht : s1.now ≤ x.time) : AgendaWF S := by
  refine ⟨?_, ?_, ?_⟩
  · rw [ha, hn]; intro y hy
    rcases List.mem_cons.mp hy with rfl | hy
    · exact ht
    · exact h.due y hy
  · rw [ha, he]; intro y hy
    rcases List.mem_cons.mp hy with rfl | hy
    · omega
    · have := h.eid_lt y hy; omega
  · rw [ha, List.pairwise_cons]
    refine ⟨?_, h.distinct⟩
    intro y hy
    have := h.eid_lt y hy; omega

/-! ## telling events apart -/

theorem ne_of_kind {s : KS} {e e0 : EvId} {k k0 : Kind} (h : (s.ev e).kind = k) (h0 : (s.ev e0).kind = k0) (hk : k ≠ k0) :
    e ≠ e0 := by
  rintro rfl; exact hk (h.symm.trans h0)

theorem ne_of_cbs {s : KS} {e e0 : EvId} {c c0 : Option (List Cb)} (h : (s.ev e).cbs = c) (h0 : (s.ev e0).cbs = c0)
    (hk : c ≠ c0) : e ≠ e0 := by
  rintro rfl; exact hk (h.symm.trans h0)

/-- what is known about an event that is not a process event and that a step touches: its kind and callbacks -/
structure Sig (s : KS) (e0 : EvId) (k0 : Kind) (c0 : Option (List Cb)) : Prop where
  kind : (s.ev e0).kind = k0
  cbs : (s.ev e0).cbs = c0

theorem RunEv.avoid {s : KS} {ph : RPhase} (h : RunEv s ph) (pt : ProcTag s 0 1) {e0 : EvId} {k0 : Kind}
    {c0 : Option (List Cb)} (sg : Sig s e0 k0 c0) (h1 : k0 ≠ .proc) (h2 : k0 ≠ .init 0) (h3 : k0 ≠ .get 0) :
    ∀ e ∈ ph.ids, e ∉ [e0] := by
  intro e he
  simp only [List.mem_singleton]
  rcases h.spec he with rfl | hk | hk
  · exact ne_of_kind pt.1 sg.kind (Ne.symm h1)
  · exact ne_of_kind hk sg.kind (Ne.symm h2)
  · exact ne_of_kind hk sg.kind (Ne.symm h3)

theorem ScrEv.avoid {s : KS} {ph : SPhase} (h : ScrEv s ph) (pt : ProcTag s 2 0) {e0 : EvId} {k0 : Kind}
    {c0 : Option (List Cb)} (sg : Sig s e0 k0 c0) (h1 : k0 ≠ .proc) (h2 : k0 ≠ .init 2)
    (h3 : k0 = .timeout → c0 ≠ some [.resume 2]) : ∀ e ∈ ph.ids, e ∉ [e0] := by
  intro e he
  simp only [List.mem_singleton]
  rcases h.spec he with rfl | hk | ⟨hk, hc⟩
  · exact ne_of_kind pt.1 sg.kind (Ne.symm h1)
  · exact ne_of_kind hk sg.kind (Ne.symm h2)
  · by_cases hk0 : k0 = .timeout
    · exact ne_of_cbs hc sg.cbs (Ne.symm (h3 hk0))
    · exact ne_of_kind hk sg.kind (Ne.symm hk0)

theorem TmEv.avoid {s : KS} {seq : Nat} {p : EvId} {ph : TPh} (h : TmEv s seq p ph) (pt : ProcTag s p (2 + seq))
    {e0 : EvId} {k0 : Kind} {c0 : Option (List Cb)} (sg : Sig s e0 k0 c0) (h1 : k0 ≠ .proc) (h2 : k0 ≠ .init p)
    (h3 : k0 = .timeout → c0 ≠ some [.resume p]) : ∀ e ∈ ph.ids p, e ∉ [e0] := by
  intro e he
  simp only [List.mem_singleton]
  rcases h.spec he with rfl | hk | ⟨hk, hc⟩
  · exact ne_of_kind pt.1 sg.kind (Ne.symm h1)
  · exact ne_of_kind hk sg.kind (Ne.symm h2)
  · by_cases hk0 : k0 = .timeout
    · exact ne_of_cbs hc sg.cbs (Ne.symm (h3 hk0))
    · exact ne_of_kind hk sg.kind (Ne.symm hk0)

/-- the events of a generator and the process event of another one -/
theorem RunEv.avoidP {s : KS} {ph : RPhase} (h : RunEv s ph) (pt : ProcTag s 0 1) {p0 n0 : Nat} (pt0 : ProcTag s p0 n0)
    (hn : n0 ≠ 1) : ∀ e ∈ ph.ids, e ∉ [p0] := by
  intro e he
  simp only [List.mem_singleton]
  rcases h.spec he with rfl | hk | hk
  · exact ProcTag.ne pt pt0 (Ne.symm hn)
  · exact ne_of_kind hk pt0.1 (by simp)
  · exact ne_of_kind hk pt0.1 (by simp)

theorem ScrEv.avoidP {s : KS} {ph : SPhase} (h : ScrEv s ph) (pt : ProcTag s 2 0) {p0 n0 : Nat} (pt0 : ProcTag s p0 n0)
    (hn : n0 ≠ 0) : ∀ e ∈ ph.ids, e ∉ [p0] := by
  intro e he
  simp only [List.mem_singleton]
  rcases h.spec he with rfl | hk | ⟨hk, _⟩
  · exact ProcTag.ne pt pt0 (Ne.symm hn)
  · exact ne_of_kind hk pt0.1 (by simp)
  · exact ne_of_kind hk pt0.1 (by simp)

theorem TmEv.avoidP {s : KS} {seq : Nat} {p : EvId} {ph : TPh} (h : TmEv s seq p ph) (pt : ProcTag s p (2 + seq))
    {p0 n0 : Nat} (pt0 : ProcTag s p0 n0) (hn : n0 ≠ 2 + seq) : ∀ e ∈ ph.ids p, e ∉ [p0] := by
  intro e he
  simp only [List.mem_singleton]
  rcases h.spec he with rfl | hk | ⟨hk, _⟩
  · exact ProcTag.ne pt pt0 (Ne.symm hn)
  · exact ne_of_kind hk pt0.1 (by simp)
  · exact ne_of_kind hk pt0.1 (by simp)

theorem PendEv.avoid {s : KS} {u : QEntry ℚ} (h : PendEv s u) {e0 : EvId} {k0 : Kind} {c0 : Option (List Cb)}
    (sg : Sig s e0 k0 c0) (h1 : k0 ≠ .put 0) : u.ev ∉ [e0] := by
  simp only [List.mem_singleton]
  exact ne_of_kind h.1 sg.kind (Ne.symm h1)

theorem PendEv.keep {s S : KS} {X P : List EvId} {u : QEntry ℚ} (h : PendEv s u) (fr : Frame s S X P) (hX : u.ev ∉ X) :
    PendEv S u := EvIs.keep h fr hX

/-! ## `openEvent` -/

theorem openEvent_ev (s : KS) (q : QEntry ℚ) (rest : List (QEntry ℚ)) (e : EvId) :
    (openEvent s q rest).ev e = if e = q.ev ∧ q.ev < s.events.size then { s.ev q.ev with cbs := none } else s.ev e := by
  have : openEvent s q rest = { (s.setEv q.ev { s.ev q.ev with cbs := none }) with now := q.time, agenda := rest } := rfl
  rw [this]
  exact KState.ev_setEv s q.ev e _

theorem openEvent_frame (s : KS) (q : QEntry ℚ) (rest : List (QEntry ℚ)) : Frame s (openEvent s q rest) [q.ev] [] := by
  refine ⟨by simp [openEvent], ?_, ?_, fun p _ => rfl⟩
  · intro e _ hX
    rw [openEvent_ev, if_neg]
    simp only [List.mem_singleton] at hX
    exact fun h => hX h.1
  · intro e _
    rw [openEvent_ev]
    split
    · rename_i h; rw [h.1]
    · rfl

/-- the popped event after `openEvent` -/
theorem openEvent_cur (s : KS) (q : QEntry ℚ) (rest : List (QEntry ℚ)) (hlt : q.ev < s.events.size) :
    ((openEvent s q rest).ev q.ev).cbs = none ∧ ((openEvent s q rest).ev q.ev).out = (s.ev q.ev).out ∧
    ((openEvent s q rest).ev q.ev).kind = (s.ev q.ev).kind := by
  rw [openEvent_ev, if_pos ⟨rfl, hlt⟩]
  exact ⟨rfl, rfl, rfl⟩

/-- the rest of the agenda is the rest of the configuration's entries -/
theorem rest_perm {l : List (QEntry ℚ)} {q : QEntry ℚ} {rest ents ents' : List (QEntry ℚ)}
    (hp : popMin l = some (q, rest)) (hag : l.Perm ents) (he : ents.Perm (q :: ents')) : rest.Perm ents' := by
  have h1 := (popMin_spec _ _ _ hp).1
  exact List.Perm.cons_inv ((h1.symm.trans hag).trans he)

/-! ## a `_resume` callback: from the pop to the start of the burst -/

/-- the state in which the burst of `p` starts when the popped event `q.ev` (successful) resumes it -/
def startSt (s : KS) (q : QEntry ℚ) (rest : List (QEntry ℚ)) (p : EvId) (arg : Resume) : KS :=
  { s with now := q.time, agenda := rest, events := s.events.setIfInBounds q.ev { s.ev q.ev with cbs := none },
           active := some p, trace := s.trace.push (.resumed p arg q.time) }

theorem startSt_frame (s : KS) (q : QEntry ℚ) (rest : List (QEntry ℚ)) (p : EvId) (arg : Resume) :
    Frame s (startSt s q rest p arg) [q.ev] [] := by
  have h := openEvent_frame s q rest
  exact ⟨h.size, h.ev, h.kind, h.proc⟩

/-- what `_resume` sends into the generator for a successful event -/
def argOf (s : KS) (p e : EvId) (v : Val) : Resume := if (s.ev e).kind = Kind.init p then Resume.start else Resume.value v

/-- `Environment.step` on an entry whose event is successful and has the single callback `_resume` of process `p` -/
theorem step_resume (body : St → Resume → Burst ℚ St) (fuel : Nat) {s : KS} {q : QEntry ℚ} {rest : List (QEntry ℚ)}
    {p : EvId} {pr : ProcRec St} {v : Val} (hp : popMin s.agenda = some (q, rest))
    (hc : (s.ev q.ev).cbs = some [.resume p]) (ho : (s.ev q.ev).out = some (.ok v)) (hpr : s.proc? p = some pr) :
    step body (fuel + 1) s =
      closeEvent { s := (TimerK.afterBurst body p fuel pr
        (runBurst p (body pr.st (argOf s p q.ev v)) (startSt s q rest p (argOf s p q.ev v)))) } q.ev := by
  have hlt : q.ev < s.events.size := KState.lt_of_cbs hc
  obtain ⟨_, h2, h3⟩ := openEvent_cur s q rest hlt
  rw [TimerK.step_eq _ _ _ _ _ _ hp hc]
  simp only [List.foldl, runCb]
  rw [TimerK.resume_eq _ _ _ _ _ _ (show (openEvent s q rest).proc? p = some pr from hpr)]
  have e1 : resumeArg (openEvent s q rest) p q.ev = argOf s p q.ev v := by
    unfold resumeArg argOf
    rw [h2, ho, h3]
  have e2 : deliverSt (openEvent s q rest) p q.ev = { openEvent s q rest with active := some p } := by
    unfold deliverSt
    rw [h2, ho]
  rw [e1, e2]
  rfl

/-- the generic part of `KK` at the start of a burst -/
theorem KK.start {s : KS} {κ κ1 : Kern} {q : QEntry ℚ} {rest : List (QEntry ℚ)} {p : EvId} {arg : Resume} {v : Val}
    (h : KK none s κ) (hp : popMin s.agenda = some (q, rest)) (hlt : q.ev < s.events.size)
    (ho : (s.ev q.ev).out = some (.ok v)) (hent : κ.entries.Perm (q :: κ1.entries))
    (hnow : κ1.now = q.time) (hcur : κ1.cur = some q.ev) (htok : κ1.tokens = κ.tokens)
    (hgetQ : κ1.run.getQ = κ.run.getQ) (hpend : κ1.pend = κ.pend) (hkeys : κ1.keys = κ.keys) (htmp : κ1.tmp = κ.tmp)
    (htxs : κ1.txs = κ.txs)
    (hrun : RunEv (startSt s q rest p arg) κ1.run) (hscr : ScrEv (startSt s q rest p arg) κ1.scr)
    (hpd : ∀ u ∈ κ.pend, u.ev ≠ q.ev)
    (htm : ∀ seq ∈ κ.keys, TmEv (startSt s q rest p arg) seq (κ.tmp seq) (κ1.tph seq)) :
    KK (some p) (startSt s q rest p arg) κ1 := by
  have fr := startSt_frame s q rest p arg
  have hwf := openEvent_wf s q rest h.wf hp
  refine ⟨rfl, hnow.symm, ⟨hwf.1.due, hwf.1.eid_lt, hwf.1.distinct⟩, rest_perm hp h.ag hent, h.rsz, ?_, hrun, hscr, ?_, ?_, ?_,
    ?_, ?_, ?_, ?_, ?_, ?_⟩
  · rw [hgetQ, htok]; exact h.tok
  · rw [hpend]; intro u hu
    exact (h.pend u hu).keep fr (by simpa using hpd u hu)
  · rw [hpend]; exact h.pnd
  · rw [hkeys, htmp]; exact htm
  · exact h.pt0.keep fr (by simp)
  · exact h.pt2.keep fr (by simp)
  · rw [hkeys, htmp]; intro seq hs; exact (h.ptm seq hs).keep fr (by simp)
  · rw [hkeys]; exact h.knd
  · rw [htxs]
    show txsOf (s.trace.push _) = κ.txs
    rw [txsOf_push]; simpa using h.tx
  · intro e he
    rw [hcur] at he
    cases he
    have := openEvent_cur s q rest hlt
    exact ⟨this.1, v, this.2.1.trans ho⟩

/-! ## the end of a burst: `yield env.timeout(d)` -/

/-- the generator `yield`s a fresh timeout of `d`: the state after `_resume` has registered it -/
def sleepSt (s : KS) (p : EvId) (d : ℚ) (st : St) : KS :=
  { s with
    events := s.events.push { kind := .timeout, cbs := some [.resume p], out := some (.ok .none), label := s.nlabel + 1 }
    nlabel := s.nlabel + 1
    agenda := { time := s.now + d, prio := NORMAL, eid := s.eid, ev := s.events.size } :: s.agenda
    eid := s.eid + 1
    procs := (p, { st := st, target := some s.events.size }) :: s.procs.filter (·.1 != p)
    active := none }

theorem afterBurst_sleep (body : St → Resume → Burst ℚ St) (p : EvId) (fuel : Nat) (pr : ProcRec St) (s : KS) (d : ℚ)
    (hd : 0 ≤ d) (st : St) :
    TimerK.afterBurst body p fuel pr
      (runBurst p (.call (.timeout d .none) fun rp => match rp with
        | .ev t => .yield t st
        | rp => bad rp) s) = sleepSt s p d st := by
  simp [-Array.getD_eq_getD_getElem?, runBurst, doCall_timeout _ _ _ _ hd, noteErr, TimerK.afterBurst, register,
    KState.processed, KState.setProc, KState.addCb, KState.ev, KState.setEv, getD_push, TimerK.push_setIfInBounds_size, sleepSt]

theorem sleepSt_frame (s : KS) (p : EvId) (d : ℚ) (st : St) : Frame s (sleepSt s p d st) [] [p] := by
  refine ⟨by simp [sleepSt], ?_, ?_, ?_⟩
  · intro e he _
    simp only [KState.ev, sleepSt, getD_push, Nat.ne_of_lt he, if_false]
  · intro e he
    simp only [KState.ev, sleepSt, getD_push, Nat.ne_of_lt he, if_false]
  · intro p' hp'
    simp only [List.mem_singleton] at hp'
    rw [TimerK.proc?_eq, TimerK.proc?_eq]
    show TimerK.plookup ((p, _) :: s.procs.filter (·.1 != p)) p' = _
    rw [TimerK.plookup_set, if_neg hp']

theorem sleepSt_new (s : KS) (p : EvId) (d : ℚ) (st : St) :
    EvIs (sleepSt s p d st) s.events.size .timeout [.resume p] okNone ∧
    (sleepSt s p d st).proc? p = some { st := st, target := some s.events.size } := by
  refine ⟨?_, ?_⟩
  · simp [EvIs, KState.ev, sleepSt, getD_push, okNone]
  · rw [TimerK.proc?_eq]
    show TimerK.plookup ((p, _) :: s.procs.filter (·.1 != p)) p = _
    rw [TimerK.plookup_set, if_pos rfl]

/-- two tags of one process are equal -/
theorem ProcTag.unique {s : KS} {p : EvId} {n n' : Nat} (h : ProcTag s p n) (h' : ProcTag s p n') : n = n' := by
  by_contra hn
  exact ProcTag.ne h h' hn rfl

/-- the generic part of `KK` after `yield env.timeout(d)` by process `p` -/
theorem KK.sleep {s : KS} {κ κ' : Kern} {p : EvId} {n : Nat} {d : ℚ} {st : St} (h : KK (some p) s κ) (hd : 0 ≤ d)
    (pt : ProcTag s p n) (htag : tagOf st = n)
    (hent : κ'.entries.Perm (⟨s.now + d, NORMAL, s.eid, s.events.size⟩ :: κ.entries))
    (hnow : κ'.now = κ.now) (hcur : κ'.cur = none) (htok : κ'.tokens = κ.tokens)
    (hgetQ : κ'.run.getQ = κ.run.getQ) (hpend : κ'.pend = κ.pend) (hkeys : κ'.keys = κ.keys) (htmp : κ'.tmp = κ.tmp)
    (htxs : κ'.txs = κ.txs)
    (hrun : RunEv (sleepSt s p d st) κ'.run) (hscr : ScrEv (sleepSt s p d st) κ'.scr)
    (htm : ∀ seq ∈ κ.keys, TmEv (sleepSt s p d st) seq (κ.tmp seq) (κ'.tph seq)) :
    KK none (sleepSt s p d st) κ' := by
  have fr := sleepSt_frame s p d st
  have hnew := sleepSt_new s p d st
  have ptk : ∀ p' n', ProcTag s p' n' → ProcTag (sleepSt s p d st) p' n' := by
    intro p' n' h'
    by_cases hp : p' = p
    · subst hp
      exact h'.set fr _ hnew.2 (htag.trans (pt.unique h'))
    · exact h'.keep fr (by simpa using hp)
  refine ⟨rfl, ?_, ?_, ?_, h.rsz, ?_, hrun, hscr, ?_, ?_, ?_, ptk _ _ h.pt0, ptk _ _ h.pt2, ?_, ?_, ?_, ?_⟩
  · rw [hnow]; exact h.now
  · exact wf_push1 h.wf _ rfl rfl rfl rfl (by show s.now ≤ s.now + d; linarith)
  · show (_ :: s.agenda).Perm κ'.entries
    exact (List.Perm.cons _ h.ag).trans hent.symm
  · rw [hgetQ, htok]; exact h.tok
  · rw [hpend]; intro u hu; exact (h.pend u hu).keep fr (by simp)
  · rw [hpend]; exact h.pnd
  · rw [hkeys, htmp]; exact htm
  · rw [hkeys, htmp]; intro seq hs; exact ptk _ _ (h.ptm seq hs)
  · rw [hkeys]; exact h.knd
  · rw [htxs]; exact h.tx
  · intro e he; rw [hcur] at he; cases he

/-! ## the end of a burst: `return` -/

/-- the generator returns `v`: the state after `_resume` has triggered the process event -/
def finishSt (s : KS) (p : EvId) (pr : ProcRec St) (v : Val) : KS :=
  { s with
    events := s.events.setIfInBounds p { s.ev p with out := some (.ok v) }
    agenda := { time := s.now + Num.zero, prio := NORMAL, eid := s.eid, ev := p } :: s.agenda
    eid := s.eid + 1
    trace := s.trace.push (.ended p (.ok v) s.now)
    procs := (p, { pr with target := none }) :: s.procs.filter (·.1 != p)
    active := none }

theorem afterBurst_ret (body : St → Resume → Burst ℚ St) (p : EvId) (fuel : Nat) (pr : ProcRec St) (s : KS) (v : Val) :
    TimerK.afterBurst body p fuel pr (runBurst p (.ret v) s) = finishSt s p pr v := by
  simp [-Array.getD_eq_getD_getElem?, runBurst, TimerK.afterBurst, finishProc, KState.trigger, KState.setOut, KState.schedule,
    KState.emit, KState.setProc, KState.setEv, KState.ev, finishSt]

theorem finishSt_ev (s : KS) (p : EvId) (pr : ProcRec St) (v : Val) (e : EvId) :
    (finishSt s p pr v).ev e = if e = p ∧ p < s.events.size then { s.ev p with out := some (.ok v) } else s.ev e :=
  KState.ev_setEv s p e _

theorem finishSt_frame (s : KS) (p : EvId) (pr : ProcRec St) (v : Val) : Frame s (finishSt s p pr v) [p] [p] := by
  refine ⟨by simp [finishSt], ?_, ?_, ?_⟩
  · intro e _ hX
    simp only [List.mem_singleton] at hX
    rw [finishSt_ev, if_neg (fun h => hX h.1)]
  · intro e _
    rw [finishSt_ev]
    split
    · rename_i h; rw [h.1]
    · rfl
  · intro p' hp'
    simp only [List.mem_singleton] at hp'
    rw [TimerK.proc?_eq, TimerK.proc?_eq]
    show TimerK.plookup ((p, _) :: s.procs.filter (·.1 != p)) p' = _
    rw [TimerK.plookup_set, if_neg hp']

theorem finishSt_new (s : KS) (p : EvId) (pr : ProcRec St) (v : Val) (h : EvIs s p .proc [] none) :
    EvIs (finishSt s p pr v) p .proc [] (some (.ok v)) ∧
    (finishSt s p pr v).proc? p = some { pr with target := none } := by
  refine ⟨?_, ?_⟩
  · unfold EvIs
    rw [finishSt_ev, if_pos ⟨rfl, h.lt⟩]
    exact ⟨h.1, h.2.1, rfl⟩
  · rw [TimerK.proc?_eq]
    show TimerK.plookup ((p, _) :: s.procs.filter (·.1 != p)) p = _
    rw [TimerK.plookup_set, if_pos rfl]

/-- the generic part of `KK` after the `return` of process `p` -/
theorem KK.finish {s : KS} {κ κ' : Kern} {p : EvId} {n : Nat} {pr : ProcRec St} {v : Val} (h : KK (some p) s κ)
    (pt : ProcTag s p n) (htag : tagOf pr.st = n)
    (hent : κ'.entries.Perm (⟨s.now + Num.zero, NORMAL, s.eid, p⟩ :: κ.entries))
    (hnow : κ'.now = κ.now) (hcur : κ'.cur = none) (htok : κ'.tokens = κ.tokens)
    (hgetQ : κ'.run.getQ = κ.run.getQ) (hpend : κ'.pend = κ.pend) (hkeys : κ'.keys = κ.keys) (htmp : κ'.tmp = κ.tmp)
    (htxs : κ'.txs = κ.txs)
    (hrun : RunEv (finishSt s p pr v) κ'.run) (hscr : ScrEv (finishSt s p pr v) κ'.scr)
    (htm : ∀ seq ∈ κ.keys, TmEv (finishSt s p pr v) seq (κ.tmp seq) (κ'.tph seq)) :
    KK none (finishSt s p pr v) κ' := by
  have fr := finishSt_frame s p pr v
  have hproc : (finishSt s p pr v).proc? p = some { pr with target := none } := by
    rw [TimerK.proc?_eq]
    show TimerK.plookup ((p, _) :: s.procs.filter (·.1 != p)) p = _
    rw [TimerK.plookup_set, if_pos rfl]
  have ptk : ∀ p' n', ProcTag s p' n' → ProcTag (finishSt s p pr v) p' n' := by
    intro p' n' h'
    by_cases hp : p' = p
    · subst hp
      exact h'.set fr _ hproc (htag.trans (pt.unique h'))
    · exact h'.keep fr (by simpa using hp)
  refine ⟨rfl, ?_, ?_, ?_, h.rsz, ?_, hrun, hscr, ?_, ?_, ?_, ptk _ _ h.pt0, ptk _ _ h.pt2, ?_, ?_, ?_, ?_⟩
  · rw [hnow]; exact h.now
  · exact wf_push1 h.wf _ rfl rfl rfl rfl (by show s.now ≤ s.now + Num.zero; rw [zero_eq']; linarith)
  · show (_ :: s.agenda).Perm κ'.entries
    exact (List.Perm.cons _ h.ag).trans hent.symm
  · rw [hgetQ, htok]; exact h.tok
  · rw [hpend]; intro u hu
    exact (h.pend u hu).keep fr (by simpa using ne_of_kind (h.pend u hu).1 pt.1 (by simp))
  · rw [hpend]; exact h.pnd
  · rw [hkeys, htmp]; exact htm
  · rw [hkeys, htmp]; intro seq hs; exact ptk _ _ (h.ptm seq hs)
  · rw [hkeys]; exact h.knd
  · rw [htxs]
    show txsOf (s.trace.push _) = κ.txs
    rw [txsOf_push]; simpa using h.tx
  · intro e he; rw [hcur] at he; cases he

/-! ## the end of a burst of `run`: `yield self.cwnd_avaialbe.get()` -/

/-- a token was there: the `get` is triggered at once -/
def getHitSt (s : KS) (t0 : ℚ) (is : List Int) : KS :=
  { s with
    events := s.events.push { kind := .get 0, cbs := some [.trigPut 0, .resume 0], out := some (.ok (.int 1)),
                               label := s.nlabel + 1, req := some { res := 0, time := s.now, proc := s.active } }
    nlabel := s.nlabel + 1
    resources := s.resources.setIfInBounds 0 (storeRec [] is)
    agenda := { time := s.now, prio := NORMAL, eid := s.eid, ev := s.events.size } :: s.agenda
    eid := s.eid + 1
    procs := (0, { st := .runGet t0, target := some s.events.size }) :: s.procs.filter (·.1 != 0)
    active := none }

/-- no token: the `get` waits in the queue of the store -/
def getMissSt (s : KS) (t0 : ℚ) : KS :=
  { s with
    events := s.events.push { kind := .get 0, cbs := some [.trigPut 0, .resume 0], out := none,
                               label := s.nlabel + 1, req := some { res := 0, time := s.now, proc := s.active } }
    nlabel := s.nlabel + 1
    resources := s.resources.setIfInBounds 0 (storeRec [s.events.size] [])
    procs := (0, { st := .runGet t0, target := some s.events.size }) :: s.procs.filter (·.1 != 0)
    active := none }

theorem afterBurst_getHit (body : St → Resume → Burst ℚ St) (fuel : Nat) (pr : ProcRec St) (s : KS) (t0 : ℚ)
    (is : List Int) (hsz : 0 < s.resources.size) (hr : s.resources.getD 0 default = storeRec [] (1 :: is)) :
    TimerK.afterBurst body 0 fuel pr (runBurst 0 (sndWait t0) s) = getHitSt s t0 is := by
  simp [-Array.getD_eq_getD_getElem?, sndWait, tokStore, runBurst, doCall_sget_hit _ _ _ _ _ hsz hr, noteErr, TimerK.afterBurst,
    register, KState.processed, KState.setProc, KState.addCb, KState.ev, KState.setEv, getD_push,
    TimerK.push_setIfInBounds_size, getHitSt]

theorem afterBurst_getMiss (body : St → Resume → Burst ℚ St) (fuel : Nat) (pr : ProcRec St) (s : KS) (t0 : ℚ)
    (hsz : 0 < s.resources.size) (hr : s.resources.getD 0 default = storeRec [] []) :
    TimerK.afterBurst body 0 fuel pr (runBurst 0 (sndWait t0) s) = getMissSt s t0 := by
  simp [-Array.getD_eq_getD_getElem?, sndWait, tokStore, runBurst, doCall_sget_miss _ _ _ hsz hr, noteErr, TimerK.afterBurst,
    register, KState.processed, KState.setProc, KState.addCb, KState.ev, KState.setEv, getD_push,
    TimerK.push_setIfInBounds_size, getMissSt]

end SndK
