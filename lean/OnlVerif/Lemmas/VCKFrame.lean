import OnlVerif.Lemmas.VCKBasic
/-!
# The VirtualClock scheduler on the kernel model: what a kernel step leaves alone

The events a configuration talks about are pairwise different (`KInv.nd`); a step that only touches the events in `X`
(and allocates new ones) keeps everything the invariant says about the others.
-/

set_option linter.unusedSimpArgs false

namespace VCK
open VCOnK
open TimerK (lookup plookup afterBurst resume_eq step_eq)

attribute [vck] prog runServe VCOnK.runLoop sendBegin sendEnd vcPut addPacket srcLoop
  addInt loadInt loadKey bad curVal doCall_log_none doCall_log_enc
  doCall_load doCall_store doCall_log doCall_timeout doCall_spawn getD_set_same

/-- symbolic execution of the kernel model on flat states -/
syntax "ssimp" (" [" Lean.Parser.Tactic.simpLemma,* "]")? (Lean.Parser.Tactic.location)? : tactic
macro_rules
  | `(tactic| ssimp $[$loc]?) =>
    `(tactic| simp [-Array.getD_eq_getD_getElem?, -List.filter_filter, timerk, vck] $[$loc]?)
  | `(tactic| ssimp [$args,*] $[$loc]?) =>
    `(tactic| simp [-Array.getD_eq_getD_getElem?, -List.filter_filter, timerk, vck, $args,*] $[$loc]?)

/-- the events outside `X` are the same in `S` -/
def EvKeep (s S : KS) (X : List EvId) : Prop := ∀ e, e < s.events.size → e ∉ X → S.ev e = s.ev e

theorem EvIs.lt {s : KS} {e : EvId} {k : Kind} {c : List Cb} {o : Option Outcome} (h : EvIs s e k c o) :
    e < s.events.size := KState.lt_of_cbs h.2.1

theorem EvIs.keep {s S : KS} {X : List EvId} {e : EvId} {k : Kind} {c : List Cb} {o : Option Outcome}
    (h : EvIs s e k c o) (hk : EvKeep s S X) (he : e ∉ X) : EvIs S e k c o := by
  unfold EvIs
  rw [hk e h.lt he]
  exact h

variable {N scale : Nat}

theorem RunEv.keep {s S : KS} {X : List EvId} {ph : RPhase} (h : RunEv N scale s ph) (hk : EvKeep s S X)
    (hX : ∀ e ∈ ph.ids, e ∉ X) (hp : ∀ e ∈ ph.ids, S.proc? e = s.proc? e) : RunEv N scale S ph := by
  cases ph with
  | init q =>
    obtain ⟨h1, h2, h3, h4⟩ := h
    exact ⟨h1, h2.keep hk (hX _ (by simp [RPhase.ids])), hp 0 (by simp [RPhase.ids]) ▸ h3, h4.keep hk (hX _ (by simp [RPhase.ids]))⟩
  | W g =>
    obtain ⟨h2, h3, h4⟩ := h
    exact ⟨h2.keep hk (hX _ (by simp [RPhase.ids])), hp 0 (by simp [RPhase.ids]) ▸ h3, h4.keep hk (hX _ (by simp [RPhase.ids]))⟩
  | H g w q =>
    obtain ⟨h1, h2, h3, h4⟩ := h
    exact ⟨h1, h2.keep hk (hX _ (by simp [RPhase.ids])), hp 0 (by simp [RPhase.ids]) ▸ h3, h4.keep hk (hX _ (by simp [RPhase.ids]))⟩
  | S p id q =>
    obtain ⟨h1, h2, h3, h4, h5, h6⟩ := h
    exact ⟨h1, h2.keep hk (hX _ (by simp [RPhase.ids])), hp p (by simp [RPhase.ids]) ▸ h3, h4.keep hk (hX _ (by simp [RPhase.ids])),
      hp 0 (by simp [RPhase.ids]) ▸ h5, h6.keep hk (hX _ (by simp [RPhase.ids]))⟩
  | T p t id q =>
    obtain ⟨h1, h2, h3, h4, h5, h6⟩ := h
    exact ⟨h1, h2.keep hk (hX _ (by simp [RPhase.ids])), hp p (by simp [RPhase.ids]) ▸ h3, h4.keep hk (hX _ (by simp [RPhase.ids])),
      hp 0 (by simp [RPhase.ids]) ▸ h5, h6.keep hk (hX _ (by simp [RPhase.ids]))⟩
  | F p id q =>
    obtain ⟨h1, h2, h3, h4⟩ := h
    exact ⟨h1, h2.keep hk (hX _ (by simp [RPhase.ids])), hp 0 (by simp [RPhase.ids]) ▸ h3, h4.keep hk (hX _ (by simp [RPhase.ids]))⟩

theorem SrcEv.keep {s S : KS} {X : List EvId} {ph : SPhase} (h : SrcEv s ph) (hk : EvKeep s S X)
    (hX : ∀ e ∈ ph.ids, e ∉ X) (hp : ∀ e ∈ ph.ids, S.proc? e = s.proc? e) : SrcEv S ph := by
  cases ph with
  | init q arr =>
    obtain ⟨h1, h2, h3, h4⟩ := h
    exact ⟨h1, h2.keep hk (hX _ (by simp [SPhase.ids])), hp 2 (by simp [SPhase.ids]) ▸ h3, h4.keep hk (hX _ (by simp [SPhase.ids]))⟩
  | wait id rest q =>
    obtain ⟨h2, h3, h4⟩ := h
    exact ⟨h2.keep hk (hX _ (by simp [SPhase.ids])), hp 2 (by simp [SPhase.ids]) ▸ h3, h4.keep hk (hX _ (by simp [SPhase.ids]))⟩
  | ending q =>
    obtain ⟨h1, h2⟩ := h
    exact ⟨h1, h2.keep hk (hX _ (by simp [SPhase.ids]))⟩
  | done => trivial

/-! ## the events of a configuration are allocated -/

theorem mem_pendIds {l : List (QEntry ℚ)} {e : EvId} : e ∈ pendIds l ↔ ∃ u ∈ l, u.ev = e := by
  simp [pendIds]

theorem mem_pendIds_of {l : List (QEntry ℚ)} {u : QEntry ℚ} (h : u ∈ l) : u.ev ∈ pendIds l :=
  mem_pendIds.mpr ⟨u, h, rfl⟩

@[vcids] theorem pendIds_nil : pendIds [] = [] := rfl
@[vcids] theorem pendIds_cons (u : QEntry ℚ) (l : List (QEntry ℚ)) : pendIds (u :: l) = u.ev :: pendIds l := rfl
@[vcids] theorem pendIds_append (l l' : List (QEntry ℚ)) : pendIds (l ++ l') = pendIds l ++ pendIds l' := by
  simp [pendIds]

@[vcids] theorem RPhase.ids_init (q : QEntry ℚ) : (RPhase.init q).ids = [0, 1] := rfl
@[vcids] theorem RPhase.ids_W (g : EvId) : (RPhase.W g).ids = [0, g] := rfl
@[vcids] theorem RPhase.ids_H (g : EvId) (w : PutRec) (q : QEntry ℚ) : (RPhase.H g w q).ids = [0, g] := rfl
@[vcids] theorem RPhase.ids_S (p : EvId) (id : Int) (q : QEntry ℚ) : (RPhase.S p id q).ids = [0, p, p + 1] := rfl
@[vcids] theorem RPhase.ids_T (p t : EvId) (id : Int) (q : QEntry ℚ) : (RPhase.T p t id q).ids = [0, p, t] := rfl
@[vcids] theorem RPhase.ids_F (p : EvId) (id : Int) (q : QEntry ℚ) : (RPhase.F p id q).ids = [0, p] := rfl
@[vcids] theorem SPhase.ids_init (q : QEntry ℚ) (arr : List (ℚ × Int)) : (SPhase.init q arr).ids = [2, 3] := rfl
@[vcids] theorem SPhase.ids_wait (id : Int) (rest : List (ℚ × Int)) (q : QEntry ℚ) : (SPhase.wait id rest q).ids = [2, q.ev] := rfl
@[vcids] theorem SPhase.ids_ending (q : QEntry ℚ) : (SPhase.ending q).ids = [2] := rfl
@[vcids] theorem SPhase.ids_done : SPhase.done.ids = [] := rfl

attribute [vcids] A.ids List.nil_append List.cons_append List.append_nil
  List.nodup_cons List.nodup_nil List.mem_cons List.mem_append List.not_mem_nil List.mem_singleton not_or List.nodup_append
  forall_eq_or_imp or_false false_or not_false_eq_true true_and and_true ne_eq imp_false List.append_assoc
  forall_const implies_true forall_eq

theorem KInv.idlt {F : Nat} {s : KS} {a : A} (hk : KInv N scale F s a) : ∀ e ∈ a.ids, e < s.events.size := by
  intro e he
  simp only [A.ids, List.mem_append] at he
  rcases he with he | he | he
  · have hr := hk.run
    cases hph : a.run with
    | init q =>
      rw [hph] at hr he
      simp only [RPhase.ids, List.mem_cons, List.not_mem_nil, or_false] at he
      rcases he with rfl | rfl
      · exact hr.2.2.2.lt
      · exact hr.2.1.lt
    | W g =>
      rw [hph] at hr he
      simp only [RPhase.ids, List.mem_cons, List.not_mem_nil, or_false] at he
      rcases he with rfl | rfl
      · exact hr.2.2.lt
      · exact hr.1.lt
    | H g w q =>
      rw [hph] at hr he
      simp only [RPhase.ids, List.mem_cons, List.not_mem_nil, or_false] at he
      rcases he with rfl | rfl
      · exact hr.2.2.2.lt
      · exact hr.2.1.lt
    | S p id q =>
      rw [hph] at hr he
      simp only [RPhase.ids, List.mem_cons, List.not_mem_nil, or_false] at he
      rcases he with rfl | rfl | rfl
      · exact hr.2.2.2.2.2.lt
      · exact hr.2.2.2.1.lt
      · exact hr.2.1.lt
    | T p t id q =>
      rw [hph] at hr he
      simp only [RPhase.ids, List.mem_cons, List.not_mem_nil, or_false] at he
      rcases he with rfl | rfl | rfl
      · exact hr.2.2.2.2.2.lt
      · exact hr.2.2.2.1.lt
      · exact hr.2.1.lt
    | F p id q =>
      rw [hph] at hr he
      simp only [RPhase.ids, List.mem_cons, List.not_mem_nil, or_false] at he
      rcases he with rfl | rfl
      · exact hr.2.2.2.lt
      · exact hr.2.1.lt
  · have hs := hk.src
    cases hph : a.src with
    | init q arr =>
      rw [hph] at hs he
      simp only [SPhase.ids, List.mem_cons, List.not_mem_nil, or_false] at he
      rcases he with rfl | rfl
      · exact hs.2.2.2.lt
      · exact hs.2.1.lt
    | wait id rest q =>
      rw [hph] at hs he
      simp only [SPhase.ids, List.mem_cons, List.not_mem_nil, or_false] at he
      rcases he with rfl | rfl
      · exact hs.2.2.lt
      · exact hs.1.lt
    | ending q =>
      rw [hph] at hs he
      simp only [SPhase.ids, List.mem_cons, List.not_mem_nil, or_false] at he
      subst he
      exact hs.2.lt
    | done => rw [hph] at he; simp [SPhase.ids] at he
  · obtain ⟨u, hu, rfl⟩ := mem_pendIds.mp he
    exact (hk.pend u hu).lt

/-- the events of a configuration are pairwise different: component by component -/
theorem ids_nodup_iff (a : A) : a.ids.Nodup ↔
    a.run.ids.Nodup ∧ a.src.ids.Nodup ∧ (pendIds a.pend).Nodup ∧
    (∀ x ∈ a.run.ids, x ∉ a.src.ids ∧ x ∉ pendIds a.pend) ∧ (∀ x ∈ a.src.ids, x ∉ pendIds a.pend) := by
  simp only [A.ids, List.nodup_append, List.mem_append]
  constructor
  · rintro ⟨h1, ⟨h2, h3, h4⟩, h5⟩
    refine ⟨h1, h2, h3, ?_, ?_⟩
    · intro x hx
      exact ⟨fun h => h5 x hx x (Or.inl h) rfl, fun h => h5 x hx x (Or.inr h) rfl⟩
    · intro x hx h
      exact h4 x hx x h rfl
  · rintro ⟨h1, h2, h3, h4, h5⟩
    refine ⟨h1, ⟨h2, h3, ?_⟩, ?_⟩
    · rintro x hx y hy rfl; exact h5 x hx hy
    · rintro x hx y hy rfl
      rcases hy with hy | hy
      · exact (h4 x hx).1 hy
      · exact (h4 x hx).2 hy

/-- a step that touches only the events in `X` and the process records of processes outside the source keeps what the
invariant says about the source and the pending `StorePut` events -/
theorem KInv.keep_src_pend {F : Nat} {s S : KS} {a : A} (hk : KInv N scale F s a) (X : List EvId) (hkeep : EvKeep s S X)
    (hX : ∀ e, e ∈ a.src.ids ∨ e ∈ pendIds a.pend → e ∉ X) (hp : ∀ e ∈ a.src.ids, S.proc? e = s.proc? e) :
    SrcEv S a.src ∧ ∀ u ∈ a.pend, EvIs S u.ev (.put 0) [.trigGet 0] (some (.ok .none)) :=
  ⟨hk.src.keep hkeep (fun e he => hX e (Or.inl he)) hp,
   fun u hu => (hk.pend u hu).keep hkeep (hX _ (Or.inr (mem_pendIds_of hu)))⟩

/-- the same for the server and the pending `StorePut` events -/
theorem KInv.keep_run_pend {F : Nat} {s S : KS} {a : A} (hk : KInv N scale F s a) (X : List EvId) (hkeep : EvKeep s S X)
    (hX : ∀ e, e ∈ a.run.ids ∨ e ∈ pendIds a.pend → e ∉ X) (hp : ∀ e ∈ a.run.ids, S.proc? e = s.proc? e) :
    RunEv N scale S a.run ∧ ∀ u ∈ a.pend, EvIs S u.ev (.put 0) [.trigGet 0] (some (.ok .none)) :=
  ⟨hk.run.keep hkeep (fun e he => hX e (Or.inl he)) hp,
   fun u hu => (hk.pend u hu).keep hkeep (hX _ (Or.inr (mem_pendIds_of hu)))⟩

/-- an event that is not allocated yet is none of the listed ones -/
theorem fresh_notin {l : List Nat} {n : Nat} (h : ∀ e ∈ l, e < n) (k : Nat) : n + k ∉ l := by
  intro hm
  have := h _ hm
  omega

/-- discharge `EvKeep s S X` on a flat state `S` -/
macro "evkeep" : tactic =>
  `(tactic| (intro e he hX
             simp only [List.mem_cons, List.mem_singleton, List.not_mem_nil, or_false, not_or] at hX
             ssimp [TimerK.ne_fresh he, hX]))

/-- a permutation goal about explicit concatenations, from a permutation hypothesis, by counting -/
macro "perm_count" h:ident : tactic =>
  `(tactic| (classical
             rw [List.perm_iff_count] at $h:ident ⊢
             intro z
             have hz := $h:ident z
             simp only [List.count_append, List.count_cons, List.count_nil] at hz ⊢
             omega))

/-! ## the agenda after a step -/

theorem wf_same {s1 S : KS} (h : AgendaWF s1) (hn : S.now = s1.now) (ha : S.agenda = s1.agenda) (he : S.eid = s1.eid) :
    AgendaWF S := by
  refine ⟨?_, ?_, ?_⟩
  · rw [ha, hn]; exact h.due
  · rw [ha, he]; exact h.eid_lt
  · rw [ha]; exact h.distinct

theorem wf_push1 {s1 S : KS} (h : AgendaWF s1) (x : QEntry ℚ) (hn : S.now = s1.now) (ha : S.agenda = x :: s1.agenda)
    (he : S.eid = s1.eid + 1) (hx : x.eid = s1.eid) (ht : s1.now ≤ x.time) : AgendaWF S := by
  refine ⟨?_, ?_, ?_⟩
  · rw [ha, hn]; intro y hy
    rcases List.mem_cons.mp hy with rfl | hy
    · exact ht
    · exact h.due y hy
  · rw [ha, he]; intro y hy
    rcases List.mem_cons.mp hy with rfl | hy
    · omega
    · have := h.eid_lt y hy; omega
  · rw [ha, List.pairwise_cons]
    refine ⟨?_, h.distinct⟩
    intro y hy
    have := h.eid_lt y hy; omega

theorem wf_push2 {s1 S : KS} (h : AgendaWF s1) (x y : QEntry ℚ) (hn : S.now = s1.now)
    (ha : S.agenda = x :: y :: s1.agenda) (he : S.eid = s1.eid + 2) (hx : x.eid = s1.eid + 1) (hy : y.eid = s1.eid)
    (htx : s1.now ≤ x.time) (hty : s1.now ≤ y.time) : AgendaWF S := by
  have h1 : AgendaWF ({ s1 with agenda := y :: s1.agenda, eid := s1.eid + 1 } : KS) :=
    wf_push1 (S := { s1 with agenda := y :: s1.agenda, eid := s1.eid + 1 }) h y rfl rfl rfl hy hty
  exact wf_push1 h1 x hn ha he hx htx

theorem wf_push3 {s1 S : KS} (h : AgendaWF s1) (x y z : QEntry ℚ) (hn : S.now = s1.now)
    (ha : S.agenda = x :: y :: z :: s1.agenda) (he : S.eid = s1.eid + 3) (hx : x.eid = s1.eid + 2) (hy : y.eid = s1.eid + 1)
    (hz : z.eid = s1.eid) (htx : s1.now ≤ x.time) (hty : s1.now ≤ y.time) (htz : s1.now ≤ z.time) : AgendaWF S := by
  have h1 : AgendaWF ({ s1 with agenda := y :: z :: s1.agenda, eid := s1.eid + 2 } : KS) :=
    wf_push2 (S := { s1 with agenda := y :: z :: s1.agenda, eid := s1.eid + 2 }) h y z rfl rfl rfl hy hz hty htz
  exact wf_push1 h1 x hn ha he hx htx

/-! ## observations -/

theorem histOf_push (tr : Array (Obs ℚ)) (o : Obs ℚ) : histOf (tr.push o) = histOf tr ++ (histOf1 o).toList := by
  unfold histOf
  rw [Array.toList_push, List.filterMap_append]
  cases h : histOf1 o <;> simp [List.filterMap, h]

@[simp] theorem histOf1_resumed (p : EvId) (r : Resume) (t : ℚ) : histOf1 (Obs.resumed p r t) = none := rfl
@[simp] theorem histOf1_ended (p : EvId) (o : Outcome) (t : ℚ) : histOf1 (Obs.ended p o t) = none := rfl
@[simp] theorem histOf1_callErr (p : EvId) (x : Exc) (t : ℚ) : histOf1 (Obs.callErr p x t) = none := rfl
@[simp] theorem histOf1_put (p : EvId) (i : Int) (t : ℚ) : histOf1 (Obs.log p "put" (.int i) t) = some (.put i t) := by
  simp [histOf1]
@[simp] theorem histOf1_stamp (p : EvId) (x t : ℚ) : histOf1 (Obs.log p "stamp" (TimeCell.enc x) t) = some (.stamp x) := by
  simp [histOf1, TimerK.dec_enc]
@[simp] theorem histOf1_get (p : EvId) (v : Val) (t : ℚ) : histOf1 (Obs.log p "get" v t) = some (.get t) := by
  simp [histOf1]
@[simp] theorem histOf1_serve (p : EvId) (i : Int) (t : ℚ) : histOf1 (Obs.log p "serve" (.int i) t) = some (.serve i t) := by
  simp [histOf1]
@[simp] theorem histOf1_out (p : EvId) (i : Int) (t : ℚ) : histOf1 (Obs.log p "out" (.int i) t) = some (.out i t) := by
  simp [histOf1]

end VCK
