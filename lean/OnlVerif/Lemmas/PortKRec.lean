import OnlVerif.Lemmas.PortKDefs
/-! # The departure recurrence, by index -/

namespace PortK
open PortOnK

variable (size : Int → Nat) (rate : ℚ)

theorem departures_length : ∀ (arr : List (ℚ × Int)) (prev : Option ℚ) (t : ℚ),
    (departures size rate prev t arr).length = arr.length
  | [], _, _ => rfl
  | (gap, id) :: rest, prev, t => by
    simp only [departures, List.length_cons, departures_length rest]

/-- packet `k` of `arr` leaves `departures prev t arr` at `max(a_k, d_{k-1}) + tx_k`, where `d_{-1} = prev` -/
theorem departures_getD : ∀ (arr : List (ℚ × Int)) (prev : Option ℚ) (t : ℚ) (k : Nat), k < arr.length →
    ((departures size rate prev t arr).getD k (0, 0)).1 = (arr.getD k (0, 0)).2 ∧
    ((departures size rate prev t arr).getD k (0, 0)).2 =
      (match (if k = 0 then prev else some ((departures size rate prev t arr).getD (k - 1) (0, 0)).2) with
        | none => arrivalAt t arr k
        | some d => max (arrivalAt t arr k) d) + txDelay size rate (arr.getD k (0, 0)).2
  | [], _, _, k, hk => absurd hk (Nat.not_lt_zero _)
  | (gap, id) :: rest, prev, t, 0, _ => by
    cases prev with
    | none => simp [departures, arrivalAt]
    | some d => simp [departures, arrivalAt, Num.pymax_eq]
  | (gap, id) :: rest, prev, t, k + 1, hk => by
    have hk' : k < rest.length := by simpa using hk
    cases prev with
    | none =>
      have ih := departures_getD rest (some (t + gap + txDelay size rate id)) (t + gap) k hk'
      simp only [departures, List.getD_cons_succ, arrivalAt, Nat.add_sub_cancel, Nat.succ_ne_zero, if_false] at ih ⊢
      refine ⟨ih.1, ?_⟩
      rw [ih.2]
      cases k with
      | zero => simp
      | succ j => simp
    | some d =>
      have ih := departures_getD rest (some (Num.pymax (t + gap) d + txDelay size rate id)) (t + gap) k hk'
      simp only [departures, List.getD_cons_succ, arrivalAt, Nat.add_sub_cancel, Nat.succ_ne_zero, if_false] at ih ⊢
      refine ⟨ih.1, ?_⟩
      rw [ih.2]
      cases k with
      | zero => simp
      | succ j => simp

end PortK
