import OnlVerif.Lemmas.DRRKRefine
import Mathlib.Data.List.Nodup
/-!
# The DRR scheduler on the kernel model: the history of observations of every run passes the property's oracle

`OInv` relates the state of the oracle (`DRROnK.ostep`) after the history so far to the configuration: its waiting queues are
the per-class stores (plus the packet `run` has taken and not yet decided on), its parked heads are `head_of_line`, its credits
and counts are `deficit` and `class_count`, its packet in transmission is the sender's, and what the next observation must
satisfy is already determined by the phase of `run`.  `OL` is the same for the configurations the loops of a burst work on,
`Pos` says where the `for` loop stands relative to the visit the oracle has seen last.
-/

set_option linter.unusedSimpArgs false

namespace DRRK
open DRROnK QEntry

variable (F : Nat) (flow size : Int → Nat) (cfg : DRR.Cfg ℚ) (Lmax P : Nat)

/-- the packet `run` has taken from `stores[f]` and not yet sent or parked -/
def heldH (a : A) (f : Nat) : List Int :=
  match a.run with
  | .H _ _ id _ => if flow id = f then [id] else []
  | _ => []

/-- the arrivals the source has still to make -/
def srcFuture (now : ℚ) : SPhase → List (Int × ℚ)
  | .init _ arr => arrivalsFrom now arr
  | .wait id rest q => (id, q.time) :: arrivalsFrom q.time rest
  | _ => []

/-- the `put` observations of a history -/
def obsPuts : List (HEv ℚ) → List (Int × ℚ)
  | [] => []
  | .put id t :: r => (id, t) :: obsPuts r
  | _ :: r => obsPuts r

/-- every packet that waits or is parked was put in this instant -/
def AllNow (now : ℚ) (o : OSt ℚ) : Prop :=
  ∀ f, f < F → (∀ x ∈ o.waiting f, x.2 = now) ∧ ∀ x, o.parked f = some x → x.2 = now

/-- a decision taken now is not late: a packet has just left, or everything that waits has just arrived -/
def Fresh (now : ℚ) (o : OSt ℚ) : Prop := o.lastOut = some now ∨ AllNow F now o

def QuietE (o : OSt ℚ) : Prop := o.busy = none ∧ o.toBook = none ∧ o.toReset = none

/-- the visit of entry `m` is in progress -/
def CurAt (o : OSt ℚ) (m : Nat) : Prop := o.cur = some m ∧ o.closed = false

/-- what the phase of `run` says about the oracle -/
def PhO (now : ℚ) (o : OSt ℚ) : RPhase → Prop
  | .init _ => QuietE o ∧ AllNow F now o ∧ o.cur = none
  | .W _ => QuietE o ∧ AllNow F now o ∧ o.cur = none
  | .K _ _ => QuietE o ∧ AllNow F now o ∧ o.cur = none
  | .H _ m _ _ => QuietE o ∧ Fresh F now o ∧ CurAt o m
  | .S _ m id _ => o.busy = some (id, now) ∧ o.toBook = none ∧ o.toReset = none ∧ CurAt o m
  | .T _ _ m id q => ∃ s0, o.busy = some (id, s0) ∧ q.time = s0 + txTime size cfg.rate id ∧ o.toBook = none ∧ o.toReset = none ∧
      CurAt o m
  | .F _ m id _ => o.busy = none ∧ o.toBook = some id ∧ o.toReset = none ∧ o.lastOut = some now ∧ CurAt o m

/-- the oracle has accepted the history and is in the state the configuration stands for -/
structure OInv (arrivals : List (ℚ × Int)) (a : A) (now : ℚ) (hist : List (HEv ℚ)) (o : OSt ℚ) : Prop where
  run : orun F flow size cfg oInit hist = some o
  wq : ∀ f, f < F → (o.waiting f).map (·.1) = heldH flow a f ++ a.items f
  pk : ∀ f, f < F → (o.parked f).map (·.1) = a.hol f
  cr : ∀ f, f < F → o.credit f = a.dfc f
  ct : ∀ f, f < F → o.count f = a.ccnt f
  ph : PhO F size cfg now o a.run
  fut : obsPuts hist ++ srcFuture now a.src = arrivalsFrom 0 arrivals

/-- the same inside a burst: the loops work on the configuration `a1` (in which `run` holds no packet), have brought the
credits to `L.dfc` and let observe `L.evs` after `base` -/
structure OL (arrivals : List (ℚ × Int)) (a1 : A) (base : List (HEv ℚ)) (now : ℚ) (L : LS) (o : OSt ℚ) : Prop where
  run : orun F flow size cfg oInit (base ++ L.evs) = some o
  quiet : QuietE o
  cr : ∀ f, f < F → o.credit f = L.dfc f
  ct : ∀ f, f < F → o.count f = a1.ccnt f
  wq : ∀ f, f < F → (o.waiting f).map (·.1) = a1.items f
  pk : ∀ f, f < F → (o.parked f).map (·.1) = a1.hol f
  fresh : Fresh F now o
  fut : obsPuts (base ++ L.evs) ++ srcFuture now a1.src = arrivalsFrom 0 arrivals

/-- the `for` loop stands at entry `m`: the visit the oracle has seen last is over, and every entry the cyclic order passes
from the one after it to `m` is not backlogged -/
def Pos (ws : List (Nat × Nat)) (o : OSt ℚ) (m : Nat) : Prop :=
  VisitOver ws o ∧ ∀ j' ∈ skipped ws.length (nextOf o) m, ¬ 0 < o.count (flowAt ws j')

/-- what the way a piece of the loops ends says about the oracle: the visit of that entry is in progress -/
def EndCur (o : OSt ℚ) : Option LoopEnd → Prop
  | some (.get m _) => CurAt o m
  | some (.send m c _ _) => CurAt o m ∧ 0 < o.credit c
  | _ => True

variable {F flow size cfg Lmax P}

/-! ## the oracle's functions -/

theorem orun_append (o : OSt ℚ) (l1 l2 : List (HEv ℚ)) :
    orun F flow size cfg o (l1 ++ l2) = (orun F flow size cfg o l1).bind fun o' => orun F flow size cfg o' l2 := by
  induction l1 generalizing o with
  | nil => rfl
  | cons x r ih =>
    simp only [List.cons_append, orun]
    cases ostep F flow size cfg o x with
    | none => rfl
    | some o' => simp [ih]

theorem orun_snoc {base : List (HEv ℚ)} {o o' : OSt ℚ} {ev : HEv ℚ} (h : orun F flow size cfg oInit base = some o)
    (hs : ostep F flow size cfg o ev = some o') : orun F flow size cfg oInit (base ++ [ev]) = some o' := by
  rw [orun_append, h]
  simp [orun, hs]

theorem obsPuts_append (l1 l2 : List (HEv ℚ)) : obsPuts (l1 ++ l2) = obsPuts l1 ++ obsPuts l2 := by
  induction l1 with
  | nil => rfl
  | cons x r ih => cases x <;> simp [obsPuts, ih]

theorem eqT_iff (x y : ℚ) : eqT x y ↔ x = y := by
  unfold eqT
  constructor
  · intro h; exact le_antisymm (not_lt.mp h.2) (not_lt.mp h.1)
  · rintro rfl; exact ⟨lt_irrefl _, lt_irrefl _⟩

theorem srcFuture_srcNext (t : ℚ) (eid ev : Nat) (arr : List (ℚ × Int)) (now : ℚ) :
    srcFuture now (srcNext t eid ev arr) = arrivalsFrom t arr := by
  cases arr with
  | nil => rfl
  | cons x r => obtain ⟨gap, id⟩ := x; rfl

theorem setQ_same {β : Type} (w : Nat → β) (f : Nat) (l : β) : setQ w f l f = l := by simp [setQ]
theorem setQ_ne {β : Type} (w : Nat → β) (f f' : Nat) (l : β) (h : f' ≠ f) : setQ w f l f' = w f' := by simp [setQ, h]

theorem quiet_of {o : OSt ℚ} (h : QuietE o) : Quiet o := by
  obtain ⟨h1, h2, h3⟩ := h
  simp [Quiet, h1, h2, h3]

theorem takeHead_parked {o : OSt ℚ} {id : Int} {x : Int × ℚ} (h : o.parked (flow id) = some x) :
    takeHead flow o id = ({ o with parked := setQ o.parked (flow id) none }, some x) := by
  simp only [takeHead, h]

theorem takeHead_waiting {o : OSt ℚ} {id : Int} (h : o.parked (flow id) = none) :
    takeHead flow o id =
      ({ o with waiting := setQ o.waiting (flow id) (o.waiting (flow id)).tail }, (o.waiting (flow id)).head?) := by
  simp only [takeHead, h]

theorem getD_of_lt (ws : List (Nat × Nat)) {j : Nat} (h : j < ws.length) : ws[j]? = some (ws.getD j (0, 0)) := by
  rw [List.getD_eq_getElem?_getD, List.getElem?_eq_getElem h]; rfl

theorem flowAt_eq {ws : List (Nat × Nat)} {m c w : Nat} (hw : ws[m]? = some (c, w)) : flowAt ws m = c := by
  unfold flowAt
  rw [List.getD_eq_getElem?_getD, hw]; rfl

theorem weightAt_eq {ws : List (Nat × Nat)} {m c w : Nat} (hw : ws[m]? = some (c, w)) : weightAt ws m = w := by
  unfold weightAt
  rw [List.getD_eq_getElem?_getD, hw]; rfl

theorem posOf_eq (ht : FlowsOK F cfg) {m c w : Nat} (hw : cfg.weights[m]? = some (c, w)) : posOf cfg.weights c = m := by
  have hmlt : m < cfg.weights.length := (List.getElem?_eq_some_iff.mp hw).1
  have hget : (cfg.weights.map (·.1))[m]? = some c := by simp [hw]
  have hlt' : m < (cfg.weights.map (·.1)).length := by simpa using hmlt
  have hg : (cfg.weights.map (·.1))[m] = c := (List.getElem?_eq_some_iff.mp hget).2
  unfold posOf
  rw [← hg]
  exact List.Nodup.idxOf_getElem (flows_nodup ht) m hlt'

theorem quantumOf_eq (ht : FlowsOK F cfg) {m c w : Nat} (hw : cfg.weights[m]? = some (c, w)) : quantumOf cfg c = qOf cfg c := by
  unfold quantumOf qOf DRR.quantum
  rw [posOf_eq ht hw, weightAt_eq hw, DRR.lookup_of_getElem cfg.weights (flows_nodup ht) m c w hw]
  rfl

/-- the oracle's side condition of a `serve` or `park` observation -/
theorem takeOK_of (ht : FlowsOK F cfg) {o : OSt ℚ} {m w : Nat} {id : Int} {now : ℚ} (hq : QuietE o) (hc : CurAt o m)
    (hw : cfg.weights[m]? = some (flow id, w)) (hcr : 0 < o.credit (flow id)) (hh : IsHead flow o id) (hf : Fresh F now o) :
    TakeOK F flow cfg.weights o id now := by
  have hpos := posOf_eq ht hw
  refine ⟨quiet_of hq, by rw [hpos]; exact hc.1, by rw [hpos]; exact (List.getElem?_eq_some_iff.mp hw).1, hc.2,
    by rw [zero_eq']; exact hcr, hh, ?_⟩
  rcases hf with hf | hf
  · left; rw [hf]; exact (eqT_iff _ _).mpr rfl
  · right
    intro f hfm
    have := hf f (List.mem_range.mp hfm)
    refine ⟨fun x hx => (eqT_iff _ _).mpr (this.1 x hx), fun x hx => (eqT_iff _ _).mpr (this.2 x ?_)⟩
    simpa using hx

/-! ## where the `for` loop stands -/

theorem pos_skip {ws : List (Nat × Nat)} {o : OSt ℚ} {m : Nat} (hp : Pos ws o m) (hc : ¬ 0 < o.count (flowAt ws m)) :
    Pos ws o (m + 1) := by
  refine ⟨hp.1, ?_⟩
  intro j' hj'
  by_cases hjm : j' = m
  · subst hjm; exact hc
  · apply hp.2 j'
    unfold skipped at hj' ⊢
    split at hj'
    · rename_i h1
      have := List.mem_range'_1.mp hj'
      rw [if_pos (by omega : nextOf o ≤ m)]
      exact List.mem_range'_1.mpr (by omega)
    · rename_i h1
      rcases List.mem_append.mp hj' with h | h
      · have := List.mem_range'_1.mp h
        rw [if_neg (by omega : ¬ nextOf o ≤ m)]
        exact List.mem_append.mpr (Or.inl h)
      · have := List.mem_range.mp h
        rw [if_neg (by omega : ¬ nextOf o ≤ m)]
        exact List.mem_append.mpr (Or.inr (List.mem_range.mpr (by omega)))

theorem pos_wrap {ws : List (Nat × Nat)} {o : OSt ℚ} (hp : Pos ws o ws.length) : Pos ws o 0 := by
  refine ⟨hp.1, ?_⟩
  intro j' hj'
  apply hp.2 j'
  unfold skipped at hj' ⊢
  split at hj'
  · rename_i h1
    have := List.mem_range'_1.mp hj'
    omega
  · rename_i h1
    rcases List.mem_append.mp hj' with h | h
    · have := List.mem_range'_1.mp h
      rw [if_pos (by omega : nextOf o ≤ ws.length)]
      exact h
    · simp at h

theorem pos_after {ws : List (Nat × Nat)} {o : OSt ℚ} {m : Nat} (hc : o.cur = some m) (hv : VisitOver ws o) : Pos ws o (m + 1) := by
  refine ⟨hv, ?_⟩
  intro j' hj'
  have hn : nextOf o = m + 1 := by simp [nextOf, hc]
  rw [hn] at hj'
  simp [skipped] at hj'

theorem pos_start {ws : List (Nat × Nat)} {o : OSt ℚ} (hc : o.cur = none) : Pos ws o 0 := by
  refine ⟨by simp [VisitOver, hc], ?_⟩
  intro j' hj'
  have hn : nextOf o = 0 := by simp [nextOf, hc]
  rw [hn] at hj'
  simp [skipped] at hj'

/-! ## the loops of a burst, seen by the oracle -/

variable {arrivals : List (ℚ × Int)} {a a1 : A} {now : ℚ} {q : QEntry ℚ} {hist base : List (HEv ℚ)} {o : OSt ℚ} {L : LS}

/-- the oracle after an observation that is not a `put` and changes neither queues nor counts nor the departure record -/
theorem ol_snoc {ev : HEv ℚ} {o' : OSt ℚ} {dfc' : Nat → ℚ} (hl : OL F flow size cfg arrivals a1 base now L o)
    (hs : ostep F flow size cfg o ev = some o') (hnp : obsPuts [ev] = [])
    (hq : QuietE o') (hcr : ∀ f, f < F → o'.credit f = dfc' f) (hct : o'.count = o.count) (hwq : o'.waiting = o.waiting)
    (hpk : ∀ f, f < F → o'.parked f = o.parked f) (hlo : o'.lastOut = o.lastOut) :
    OL F flow size cfg arrivals a1 base now ⟨dfc', L.evs ++ [ev]⟩ o' := by
  refine ⟨?_, hq, hcr, fun f hf => by rw [hct]; exact hl.ct f hf, fun f hf => by rw [hwq]; exact hl.wq f hf,
    fun f hf => by rw [hpk f hf]; exact hl.pk f hf, ?_, ?_⟩
  · show orun F flow size cfg oInit (base ++ (L.evs ++ [ev])) = some o'
    rw [← List.append_assoc]
    exact orun_snoc hl.run hs
  · rcases hl.fresh with h | h
    · exact Or.inl (by rw [hlo]; exact h)
    · right
      intro f hf
      rw [hwq, hpk f hf]
      exact h f hf
  · show obsPuts (base ++ (L.evs ++ [ev])) ++ _ = _
    rw [← List.append_assoc, obsPuts_append, hnp, List.append_nil]
    exact hl.fut

/-- `if count > 0: deficit += quantum` on a backlogged class: the oracle sees the visit begin -/
theorem ol_visit (hm : MidInv F flow size cfg Lmax P a1 now) {m c w : Nat} (hw : cfg.weights[m]? = some (c, w))
    (hl : OL F flow size cfg arrivals a1 base now L o) (hp : Pos cfg.weights o m) (hc : 0 < a1.ccnt c) :
    ∃ o', OL F flow size cfg arrivals a1 base now (visitAdd (qOf cfg) a1.ccnt now c L) o' ∧ CurAt o' m := by
  have hcF : c < F := entry_lt hm.table (List.mem_of_getElem? hw)
  have hpos := posOf_eq hm.table hw
  have hmlt : m < cfg.weights.length := (List.getElem?_eq_some_iff.mp hw).1
  have hok : VisitOK cfg.weights o c := by
    refine ⟨quiet_of hl.quiet, by rw [hpos]; exact hmlt, by rw [hl.ct c hcF]; exact hc, hp.1, ?_⟩
    rw [hpos]; exact hp.2
  have hs : ostep F flow size cfg o (.visit c now) =
      some { o with credit := setQ o.credit c (o.credit c + quantumOf cfg c), cur := some (posOf cfg.weights c), closed := false } := by
    simp only [ostep]; exact if_pos hok
  have hva : visitAdd (qOf cfg) a1.ccnt now c L = ⟨upd L.dfc c (L.dfc c + qOf cfg c), L.evs ++ [.visit c now]⟩ := by
    unfold visitAdd; rw [if_pos hc]
  rw [hva]
  refine ⟨_, ol_snoc hl hs rfl hl.quiet ?_ rfl rfl (fun _ _ => rfl) rfl, by rw [hpos], rfl⟩
  intro f hf
  show setQ o.credit c (o.credit c + quantumOf cfg c) f = upd L.dfc c (L.dfc c + qOf cfg c) f
  by_cases hfc : f = c
  · subst hfc; rw [setQ_same, upd_same, hl.cr f hf, quantumOf_eq hm.table hw]
  · rw [setQ_ne _ _ _ _ hfc, upd_ne _ _ _ _ hfc, hl.cr f hf]

/-- the inner `while` of the entry whose visit is in progress -/
theorem ol_inner (hm : MidInv F flow size cfg Lmax P a1 now) {m c w : Nat} (hw : cfg.weights[m]? = some (c, w))
    (hl : OL F flow size cfg arrivals a1 base now L o) (hc : CurAt o m) :
    ∃ o', OL F flow size cfg arrivals a1 base now (innerAt size a1.ccnt a1.hol now m c L).1 o' ∧
      ((innerAt size a1.ccnt a1.hol now m c L).2 = none → Pos cfg.weights o' (m + 1)) ∧
      EndCur o' (innerAt size a1.ccnt a1.hol now m c L).2 := by
  have hcF : c < F := entry_lt hm.table (List.mem_of_getElem? hw)
  have hfa := flowAt_eq hw
  unfold innerAt
  by_cases hcond : Num.zero < L.dfc c ∧ 0 < a1.ccnt c
  · rw [if_pos hcond]
    have hpos : 0 < o.credit c := by rw [hl.cr c hcF, ← zero_eq']; exact hcond.1
    cases hh : a1.hol c with
    | none => exact ⟨o, hl, (fun h => by cases h), hc⟩
    | some id =>
      simp only []
      by_cases hle : (Num.ofNat (size id) : ℚ) ≤ L.dfc c
      · rw [if_pos hle]
        exact ⟨o, hl, (fun h => by cases h), hc, hpos⟩
      · rw [if_neg hle]
        have hfl : flow id = c := (hm.holOK c hcF id hh).1
        have hpk := hl.pk c hcF
        rw [hh] at hpk
        obtain ⟨x, hx, hxid⟩ := Option.map_eq_some_iff.mp hpk
        have hxf : o.parked (flow id) = some x := by rw [hfl]; exact hx
        have hok : TakeOK F flow cfg.weights o id now :=
          takeOK_of hm.table hl.quiet hc (by rw [hfl]; exact hw) (by rw [hfl]; exact hpos)
            (by unfold IsHead; rw [hxf]; exact hxid) hl.fresh
        have hncr : ¬ (Num.ofNat (size id) : ℚ) ≤ o.credit (flow id) := by rw [hfl, hl.cr c hcF]; exact hle
        have hs : ostep F flow size cfg o (.park id now) =
            some { (takeHead flow o id).1 with
                     parked := setQ (takeHead flow o id).1.parked (flow id) (takeHead flow o id).2, closed := true } := by
          simp only [ostep]; exact if_pos ⟨hok, hncr⟩
        rw [takeHead_parked hxf] at hs
        have hl' := ol_snoc (dfc' := L.dfc) hl hs rfl hl.quiet hl.cr rfl rfl (by
          intro f hf
          show setQ (setQ o.parked (flow id) none) (flow id) (some x) f = o.parked f
          by_cases hff : f = flow id
          · subst hff; rw [setQ_same, hxf]
          · rw [setQ_ne _ _ _ _ hff, setQ_ne _ _ _ _ hff]) rfl
        exact ⟨_, hl', fun _ => pos_after hc.1 (by simp [VisitOver, hc.1]), trivial⟩
  · rw [if_neg hcond]
    refine ⟨o, hl, fun _ => pos_after hc.1 ?_, trivial⟩
    simp only [VisitOver, hc.1, hfa]
    right
    rw [hl.cr c hcF, hl.ct c hcF]
    by_cases h1 : Num.zero < L.dfc c
    · exact Or.inr (fun h2 => hcond ⟨h1, h2⟩)
    · exact Or.inl h1

/-- one iteration of the `for` loop -/
theorem ol_iter (hm : MidInv F flow size cfg Lmax P a1 now) {m c w : Nat} (hw : cfg.weights[m]? = some (c, w))
    (hl : OL F flow size cfg arrivals a1 base now L o) (hp : Pos cfg.weights o m) :
    ∃ o', OL F flow size cfg arrivals a1 base now (innerAt size a1.ccnt a1.hol now m c (visitAdd (qOf cfg) a1.ccnt now c L)).1 o' ∧
      ((innerAt size a1.ccnt a1.hol now m c (visitAdd (qOf cfg) a1.ccnt now c L)).2 = none → Pos cfg.weights o' (m + 1)) ∧
      EndCur o' (innerAt size a1.ccnt a1.hol now m c (visitAdd (qOf cfg) a1.ccnt now c L)).2 := by
  have hcF : c < F := entry_lt hm.table (List.mem_of_getElem? hw)
  by_cases hc : 0 < a1.ccnt c
  · obtain ⟨o1, hl1, hc1⟩ := ol_visit hm hw hl hp hc
    exact ol_inner hm hw hl1 hc1
  · rw [visitAdd_dfc_skip c L hc]
    have hin : innerAt size a1.ccnt a1.hol now m c L = (L, none) := by
      unfold innerAt
      rw [if_neg (fun h => hc h.2)]
    rw [hin]
    exact ⟨o, hl, fun _ => pos_skip hp (by rw [flowAt_eq hw, hl.ct c hcF]; exact hc), trivial⟩

/-- the `for` loop from entry `m` on -/
theorem ol_visitFrom (hm : MidInv F flow size cfg Lmax P a1 now) : ∀ (rest : List (Nat × Nat)) (m : Nat) (L : LS) (o : OSt ℚ),
    cfg.weights.drop m = rest → m ≤ cfg.weights.length → OL F flow size cfg arrivals a1 base now L o → Pos cfg.weights o m →
    ∃ o', OL F flow size cfg arrivals a1 base now (visitFrom (qOf cfg) size a1.ccnt a1.hol now m rest L).1 o' ∧
      ((visitFrom (qOf cfg) size a1.ccnt a1.hol now m rest L).2 = none → Pos cfg.weights o' cfg.weights.length) ∧
      EndCur o' (visitFrom (qOf cfg) size a1.ccnt a1.hol now m rest L).2 := by
  intro rest
  induction rest with
  | nil =>
    intro m L o hd hmn hl hp
    have : cfg.weights.length ≤ m := List.drop_eq_nil_iff.mp hd
    have hmm : m = cfg.weights.length := by omega
    subst hmm
    exact ⟨o, hl, fun _ => hp, trivial⟩
  | cons e rest' ih =>
    intro m L o hd hmn hl hp
    obtain ⟨c, w⟩ := e
    have hw : cfg.weights[m]? = some (c, w) := by
      have := List.getElem?_drop (xs := cfg.weights) (i := m) (j := 0)
      rw [hd] at this
      simpa using this.symm
    have hmlt : m < cfg.weights.length := (List.getElem?_eq_some_iff.mp hw).1
    have hd' : cfg.weights.drop (m + 1) = rest' := by
      have := congrArg List.tail hd
      simpa [List.tail_drop] using this
    obtain ⟨o1, hl1, hp1, he1⟩ := ol_iter hm hw hl hp
    simp only [visitFrom]
    cases hr : innerAt size a1.ccnt a1.hol now m c (visitAdd (qOf cfg) a1.ccnt now c L) with
    | mk L1 oe =>
      rw [hr] at hl1 hp1 he1
      cases oe with
      | some e => exact ⟨o1, hl1, (fun h => by cases h), he1⟩
      | none => exact ih (m + 1) L1 o1 hd' (by omega) hl1 (hp1 rfl)

/-- `run` at `while self.total_packets > 0` -/
theorem ol_passes (hm : MidInv F flow size cfg Lmax P a1 now) : ∀ (k : Nat) (L : LS) (o : OSt ℚ),
    OL F flow size cfg arrivals a1 base now L o → Pos cfg.weights o 0 →
    ∃ o', OL F flow size cfg arrivals a1 base now (passes (qOf cfg) size a1.ccnt a1.hol now (a1.total F) cfg.weights k L).1 o' ∧
      EndCur o' (some (passes (qOf cfg) size a1.ccnt a1.hol now (a1.total F) cfg.weights k L).2) := by
  intro k
  induction k with
  | zero => intro L o hl _; exact ⟨o, hl, trivial⟩
  | succ k ih =>
    intro L o hl hp
    simp only [DRRK.passes]
    by_cases htot : 0 < a1.total F
    · rw [if_pos htot]
      obtain ⟨o1, hl1, hp1, he1⟩ := ol_visitFrom hm cfg.weights 0 L o rfl (Nat.zero_le _) hl hp
      cases hr : visitFrom (qOf cfg) size a1.ccnt a1.hol now 0 cfg.weights L with
      | mk L1 oe =>
        rw [hr] at hl1 hp1 he1
        cases oe with
        | some e => exact ⟨o1, hl1, he1⟩
        | none => exact ih L1 o1 hl1 (pos_wrap (hp1 rfl))
    · rw [if_neg htot]
      split
      · exact ⟨o, hl, trivial⟩
      · exact ⟨o, hl, trivial⟩

/-- the rest of the burst after a piece of the `for` loop -/
theorem ol_then (hm : MidInv F flow size cfg Lmax P a1 now) (piece : LS × Option LoopEnd)
    (hl : OL F flow size cfg arrivals a1 base now piece.1 o)
    (hp : piece.2 = none → Pos cfg.weights o 0) (he : EndCur o piece.2) :
    ∃ o', OL F flow size cfg arrivals a1 base now (thenPasses (qOf cfg) size a1.ccnt a1.hol now (a1.total F) cfg.weights P piece).1 o' ∧
      EndCur o' (some (thenPasses (qOf cfg) size a1.ccnt a1.hol now (a1.total F) cfg.weights P piece).2) := by
  obtain ⟨L', oe⟩ := piece
  cases oe with
  | some e => exact ⟨o, hl, he⟩
  | none => exact ol_passes hm P L' o hl (hp rfl)

/-- the rest of a burst after a piece of the `for` loop: how it ends, and what the oracle has seen -/
theorem ol_tail (hm : MidInv F flow size cfg Lmax P a1 now) (piece : LS × Option LoopEnd)
    (hE : EndOK size a1.ccnt a1.hol (a1.total F) cfg.weights piece.1 piece.2) (hmono : ∀ f, a1.dfc f ≤ piece.1.dfc f)
    (hl : OL F flow size cfg arrivals a1 base now piece.1 o)
    (hp : piece.2 = none → Pos cfg.weights o 0) (he : EndCur o piece.2) :
    ∃ Lf fin o', thenPasses (qOf cfg) size a1.ccnt a1.hol now (a1.total F) cfg.weights P piece = (Lf, fin) ∧ fin ≠ .hang ∧
      EndOK size a1.ccnt a1.hol (a1.total F) cfg.weights Lf (some fin) ∧
      OL F flow size cfg arrivals a1 base now Lf o' ∧ EndCur o' (some fin) := by
  obtain ⟨h1, h2, -⟩ := loop_post (t := now) hm piece hE hmono
  obtain ⟨o', hl', he'⟩ := ol_then (P := P) hm piece hl hp he
  exact ⟨_, _, o', rfl, h1, h2, hl', he'⟩

/-- the loops resume in the inner `while` of entry `m` -/
theorem ol_resume (hm : MidInv F flow size cfg Lmax P a1 now) {m c w : Nat} {rest : List (Nat × Nat)}
    (hw : cfg.weights[m]? = some (c, w)) (hd' : cfg.weights.drop (m + 1) = rest)
    (hl : OL F flow size cfg arrivals a1 base now L o) (hc : CurAt o m) :
    ∃ o', OL F flow size cfg arrivals a1 base now
        (match innerAt size a1.ccnt a1.hol now m c L with
          | (L', some e) => (L', some e)
          | (L', none) => visitFrom (qOf cfg) size a1.ccnt a1.hol now (m + 1) rest L').1 o' ∧
      ((match innerAt size a1.ccnt a1.hol now m c L with
          | (L', some e) => (L', some e)
          | (L', none) => visitFrom (qOf cfg) size a1.ccnt a1.hol now (m + 1) rest L').2 = none →
        Pos cfg.weights o' cfg.weights.length) ∧
      EndCur o' (match innerAt size a1.ccnt a1.hol now m c L with
          | (L', some e) => (L', some e)
          | (L', none) => visitFrom (qOf cfg) size a1.ccnt a1.hol now (m + 1) rest L').2 := by
  have hmlt : m < cfg.weights.length := (List.getElem?_eq_some_iff.mp hw).1
  obtain ⟨o1, hl1, hp1, he1⟩ := ol_inner hm hw hl hc
  cases hr : innerAt size a1.ccnt a1.hol now m c L with
  | mk L1 oe =>
    rw [hr] at hl1 hp1 he1
    cases oe with
    | some e => exact ⟨o1, hl1, (fun h => by cases h), he1⟩
    | none => exact ol_visitFrom hm rest (m + 1) L1 o1 hd' (by omega) hl1 (hp1 rfl)

theorem heldH_none {a : A} (h : ∀ g m id q0, a.run ≠ .H g m id q0) (f : Nat) : heldH flow a f = [] := by
  unfold heldH
  cases hr : a.run <;> first | rfl | exact absurd hr (h _ _ _ _)

theorem book_dfc (a : A) (c : Nat) (id : Int) : (a.book size c id).dfc =
    if a.ccnt c + -1 = 0 then upd a.dfc c 0 else upd a.dfc c (a.dfc c - Num.ofNat (size id)) := by
  unfold A.book; split <;> rfl

/-- **a burst of `run`, seen by the oracle**: it sends the packet it has just taken, or the loops work on a configuration in
which `run` holds nothing and the oracle accepts what they let observe -/
theorem ol_burst {en : Entry} (hi : AInv flow F size cfg Lmax P a q.time) (hst : StartsAt a q en)
    (ho : OInv F flow size cfg arrivals a q.time hist o) :
    (∃ g m id, en = .got m id ∧ a.run = .H g m id q ∧ (Num.ofNat (size id) : ℚ) ≤ a.dfc (flow id) ∧
      a.burst F (qOf cfg) size cfg.weights P q.time en = ⟨a, [], .send m (flow id) id false⟩) ∨
    (∃ a1 e0 Lf fin o', MidInv F flow size cfg Lmax P a1 q.time ∧ SameBut a a1 ∧ fin ≠ .hang ∧
      EndOK size a1.ccnt a1.hol (a1.total F) cfg.weights Lf (some fin) ∧
      a.burst F (qOf cfg) size cfg.weights P q.time en = ⟨finA a1 Lf (some fin), e0 ++ Lf.evs, fin⟩ ∧
      OL F flow size cfg arrivals a1 (hist ++ e0) q.time Lf o' ∧ EndCur o' (some fin)) := by
  have hQ0 : ∀ c, 0 ≤ qOf cfg c := fun c => by linarith [qOf_ge hi.table c]
  have hph := ho.ph
  cases en with
  | top =>
    right
    obtain ⟨hm, -⟩ := mid_top hi hst
    have hH : ∀ g m id q0, a.run ≠ .H g m id q0 := by
      rcases hst with h | ⟨g, h⟩ <;> simp [h]
    have hph' : QuietE o ∧ AllNow F q.time o ∧ o.cur = none := by
      rcases hst with h | ⟨g, h⟩ <;> (rw [h] at hph; exact hph)
    obtain ⟨hq, han, hcur⟩ := hph'
    have hl0 : OL F flow size cfg arrivals a (hist ++ []) q.time ⟨a.dfc, []⟩ o :=
      ⟨by simpa using ho.run, hq, ho.cr, ho.ct, fun f hf => by have := ho.wq f hf; rwa [heldH_none hH, List.nil_append] at this,
        ho.pk, Or.inr han, by simpa using ho.fut⟩
    obtain ⟨Lf, fin, o', h1, h2, h3, h4, h5⟩ := ol_tail (P := P) hm (⟨a.dfc, []⟩, none) trivial (fun f => le_refl _) hl0
      (fun _ => pos_start hcur) trivial
    refine ⟨a, [], Lf, fin, o', hm, SameBut.rfl' a, h2, h3, ?_, h4, h5⟩
    show finish a [] (passes (qOf cfg) size a.ccnt a.hol q.time (a.total F) cfg.weights P ⟨a.dfc, []⟩) = _
    have h1' : passes (qOf cfg) size a.ccnt a.hol q.time (a.total F) cfg.weights P ⟨a.dfc, []⟩ = (Lf, fin) := h1
    rw [h1']; rfl
  | got m id =>
    obtain ⟨g, h⟩ := hst
    have hrun := hi.run
    rw [h] at hrun hph
    obtain ⟨-, -, -, hpk, ⟨w, hw⟩, hhol, hdpos⟩ := hrun
    obtain ⟨hq, hfr, hc⟩ := hph
    obtain ⟨rest, hd⟩ := drop_of_getElem? hw
    by_cases hle : (Num.ofNat (size id) : ℚ) ≤ a.dfc (flow id)
    · left
      refine ⟨g, m, id, rfl, h, hle, ?_⟩
      simp only [A.burst, hd, hle, if_true]
    · right
      obtain ⟨hm, -⟩ := mid_got hi h
      have hmlt : m < cfg.weights.length := (List.getElem?_eq_some_iff.mp hw).1
      have hd' : cfg.weights.drop (m + 1) = rest := by
        have := congrArg List.tail hd
        simpa [List.tail_drop] using this
      -- the oracle sees the packet parked
      have hwq := ho.wq (flow id) hpk.1
      simp only [heldH, h, if_true, List.singleton_append] at hwq
      have hpn : o.parked (flow id) = none := by
        have := ho.pk (flow id) hpk.1
        rw [hhol] at this
        exact Option.map_eq_none_iff.mp this
      obtain ⟨x, r, hxr, hxid⟩ : ∃ x r, o.waiting (flow id) = x :: r ∧ x.1 = id := by
        cases hwt : o.waiting (flow id) with
        | nil => rw [hwt] at hwq; simp at hwq
        | cons x r => rw [hwt] at hwq; simp only [List.map_cons, List.cons.injEq] at hwq; exact ⟨x, r, rfl, hwq.1⟩
      have hrmap : r.map (·.1) = a.items (flow id) := by
        rw [hxr] at hwq; simp only [List.map_cons, List.cons.injEq] at hwq; exact hwq.2
      have hok : TakeOK F flow cfg.weights o id q.time :=
        takeOK_of hi.table hq hc hw (by rw [ho.cr _ hpk.1]; exact hdpos)
          (by unfold IsHead; rw [hpn]; simp [hxr, hxid]) hfr
      have hncr : ¬ (Num.ofNat (size id) : ℚ) ≤ o.credit (flow id) := by rw [ho.cr _ hpk.1]; exact hle
      have hs : ostep F flow size cfg o (.park id q.time) =
          some { (takeHead flow o id).1 with
                   parked := setQ (takeHead flow o id).1.parked (flow id) (takeHead flow o id).2, closed := true } := by
        simp only [ostep]; exact if_pos ⟨hok, hncr⟩
      rw [takeHead_waiting hpn, hxr] at hs
      simp only [List.tail_cons, List.head?_cons] at hs
      have hl1 : OL F flow size cfg arrivals { a with hol := upd a.hol (flow id) (some id) } (hist ++ [.park id q.time]) q.time
          ⟨a.dfc, []⟩
          { o with waiting := setQ o.waiting (flow id) r, parked := setQ o.parked (flow id) (some x), closed := true } := by
        refine ⟨by simpa using orun_snoc ho.run hs, hq, ho.cr, ho.ct, ?_, ?_, ?_, ?_⟩
        · intro f hf
          show (setQ o.waiting (flow id) r f).map (·.1) = a.items f
          by_cases hff : f = flow id
          · subst hff; rw [setQ_same]; exact hrmap
          · rw [setQ_ne _ _ _ _ hff]
            have := ho.wq f hf
            simpa [heldH, h, Ne.symm hff] using this
        · intro f hf
          show (setQ o.parked (flow id) (some x) f).map (·.1) = upd a.hol (flow id) (some id) f
          by_cases hff : f = flow id
          · subst hff; rw [setQ_same, upd_same]; simp [hxid]
          · rw [setQ_ne _ _ _ _ hff, upd_ne _ _ _ _ hff]; exact ho.pk f hf
        · rcases hfr with hfr | hfr
          · exact Or.inl hfr
          · right
            intro f hf
            have hx2 : x.2 = q.time := (hfr _ hpk.1).1 x (by rw [hxr]; simp)
            refine ⟨?_, ?_⟩
            · intro y hy
              change y ∈ setQ o.waiting (flow id) r f at hy
              by_cases hff : f = flow id
              · subst hff; rw [setQ_same] at hy
                exact (hfr _ hf).1 y (by rw [hxr]; exact List.mem_cons_of_mem _ hy)
              · rw [setQ_ne _ _ _ _ hff] at hy; exact (hfr f hf).1 y hy
            · intro y hy
              change setQ o.parked (flow id) (some x) f = some y at hy
              by_cases hff : f = flow id
              · subst hff; rw [setQ_same] at hy; cases hy; exact hx2
              · rw [setQ_ne _ _ _ _ hff] at hy; exact (hfr f hf).2 y hy
        · simpa [obsPuts_append, obsPuts] using ho.fut
      have hp1 := pos_after (ws := cfg.weights)
        (o := { o with waiting := setQ o.waiting (flow id) r, parked := setQ o.parked (flow id) (some x), closed := true })
        hc.1 (by simp [VisitOver, hc.1])
      obtain ⟨o2, hl2, hp2, he2⟩ := ol_visitFrom hm rest (m + 1) _ _ hd' (by omega) hl1 hp1
      have hv := visitFrom_ok (Q := qOf cfg) (size := size) (ccnt := a.ccnt) (hol := upd a.hol (flow id) (some id)) (t := q.time)
        (total := A.total F { a with hol := upd a.hol (flow id) (some id) }) (ws := cfg.weights) hQ0 rest (m + 1)
        ⟨a.dfc, []⟩ hd'
      obtain ⟨Lf, fin, o', h1, h2, h3, h4, h5⟩ := ol_tail (P := P) hm _ hv.1 hv.2 hl2 (fun h => pos_wrap (hp2 h)) he2
      refine ⟨_, [.park id q.time], Lf, fin, o', hm, ⟨rfl, rfl, rfl, rfl, rfl, rfl, rfl, rfl, rfl, rfl⟩, h2, h3, ?_, h4, h5⟩
      simp only [A.burst, hd, hle, if_false]
      exact congrArg (finish { a with hol := upd a.hol (flow id) (some id) } [.park id q.time]) h1
  | done m id =>
    obtain ⟨p, h⟩ := hst
    have hrun := hi.run
    rw [h] at hrun hph
    obtain ⟨-, -, -, hpk, ⟨w, hw⟩, hhol, hle⟩ := hrun
    obtain ⟨hb, htb, htr, hlo, hc⟩ := hph
    obtain ⟨rest, hd⟩ := drop_of_getElem? hw
    right
    obtain ⟨hm, -⟩ := mid_done hi h
    have hd' : cfg.weights.drop (m + 1) = rest := by
      have := congrArg List.tail hd
      simpa [List.tail_drop] using this
    have hH : ∀ g m id q0, a.run ≠ .H g m id q0 := by simp [h]
    have hsb := book_same (size := size) a (flow id) id
    have hcnt : o.count (flow id) = a.ccnt (flow id) := ho.ct _ hpk.1
    -- the oracle sees the packet booked (and the class reset when it has emptied)
    have hs1 : ostep F flow size cfg o (.done id q.time) =
        some { o with credit := setQ o.credit (flow id) (o.credit (flow id) - Num.ofNat (size id)),
                      count := setQ o.count (flow id) (o.count (flow id) - 1), toBook := none,
                      toReset := if o.count (flow id) - 1 = 0 then some (flow id) else none } := by
      simp only [ostep]; exact if_pos ⟨htb, by rw [htr]; rfl⟩
    have hl1 : ∃ o1, OL F flow size cfg arrivals (a.book size (flow id) id) (hist ++ bookEvs a (flow id) id q.time) q.time
        ⟨(a.book size (flow id) id).dfc, []⟩ o1 ∧ CurAt o1 m := by
      by_cases hz : a.ccnt (flow id) + -1 = 0
      · have hz' : o.count (flow id) - 1 = 0 := by rw [hcnt]; omega
        rw [if_pos hz'] at hs1
        have hs2 : ostep F flow size cfg
            { o with credit := setQ o.credit (flow id) (o.credit (flow id) - Num.ofNat (size id)),
                     count := setQ o.count (flow id) (o.count (flow id) - 1), toBook := none, toReset := some (flow id) }
            (.reset (flow id) q.time) =
            some { o with credit := setQ (setQ o.credit (flow id) (o.credit (flow id) - Num.ofNat (size id))) (flow id) Num.zero,
                          count := setQ o.count (flow id) (o.count (flow id) - 1), toBook := none, toReset := none } := by
          simp [ostep]
        have hrun2 := orun_snoc (orun_snoc ho.run hs1) hs2
        rw [List.append_assoc] at hrun2
        refine ⟨{ o with credit := setQ (setQ o.credit (flow id) (o.credit (flow id) - Num.ofNat (size id))) (flow id) Num.zero,
                         count := setQ o.count (flow id) (o.count (flow id) - 1), toBook := none, toReset := none },
          ⟨?_, ⟨hb, rfl, rfl⟩, ?_, ?_, ?_, ?_, Or.inl hlo, ?_⟩, hc⟩
        · simpa [bookEvs, hz] using hrun2
        · intro f hf
          rw [book_dfc, if_pos hz]
          show setQ (setQ o.credit (flow id) _) (flow id) Num.zero f = upd a.dfc (flow id) 0 f
          by_cases hff : f = flow id
          · subst hff; rw [setQ_same, upd_same, zero_eq']
          · rw [setQ_ne _ _ _ _ hff, setQ_ne _ _ _ _ hff, upd_ne _ _ _ _ hff]; exact ho.cr f hf
        · intro f hf
          rw [book_ccnt]
          show setQ o.count (flow id) (o.count (flow id) - 1) f = upd a.ccnt (flow id) (a.ccnt (flow id) + -1) f
          by_cases hff : f = flow id
          · subst hff; rw [setQ_same, upd_same, hcnt]; ring
          · rw [setQ_ne _ _ _ _ hff, upd_ne _ _ _ _ hff]; exact ho.ct f hf
        · intro f hf
          rw [hsb.items]
          have := ho.wq f hf
          rwa [heldH_none hH, List.nil_append] at this
        · intro f hf; rw [book_hol]; exact ho.pk f hf
        · rw [hsb.src]
          simpa [bookEvs, hz, obsPuts_append, obsPuts] using ho.fut
      · have hz' : ¬ o.count (flow id) - 1 = 0 := by rw [hcnt]; omega
        rw [if_neg hz'] at hs1
        have hrun1 := orun_snoc ho.run hs1
        refine ⟨{ o with credit := setQ o.credit (flow id) (o.credit (flow id) - Num.ofNat (size id)),
                         count := setQ o.count (flow id) (o.count (flow id) - 1), toBook := none, toReset := none },
          ⟨?_, ⟨hb, rfl, rfl⟩, ?_, ?_, ?_, ?_, Or.inl hlo, ?_⟩, hc⟩
        · simpa [bookEvs, hz] using hrun1
        · intro f hf
          rw [book_dfc, if_neg hz]
          show setQ o.credit (flow id) _ f = upd a.dfc (flow id) _ f
          by_cases hff : f = flow id
          · subst hff; rw [setQ_same, upd_same, ho.cr _ hf]
          · rw [setQ_ne _ _ _ _ hff, upd_ne _ _ _ _ hff]; exact ho.cr f hf
        · intro f hf
          rw [book_ccnt]
          show setQ o.count (flow id) (o.count (flow id) - 1) f = upd a.ccnt (flow id) (a.ccnt (flow id) + -1) f
          by_cases hff : f = flow id
          · subst hff; rw [setQ_same, upd_same, hcnt]; ring
          · rw [setQ_ne _ _ _ _ hff, upd_ne _ _ _ _ hff]; exact ho.ct f hf
        · intro f hf
          rw [hsb.items]
          have := ho.wq f hf
          rwa [heldH_none hH, List.nil_append] at this
        · intro f hf; rw [book_hol]; exact ho.pk f hf
        · rw [hsb.src]
          simpa [bookEvs, hz, obsPuts_append, obsPuts] using ho.fut
    obtain ⟨o1, hl1, hc1⟩ := hl1
    obtain ⟨o2, hl2, hp2, he2⟩ := ol_resume hm hw hd' hl1 hc1
    -- what the piece of the loops is known to be
    have hi1 := innerAt_ok (size := size) (ccnt := (a.book size (flow id) id).ccnt) (hol := (a.book size (flow id) id).hol) (t := q.time)
      (total := (a.book size (flow id) id).total F) hw ⟨(a.book size (flow id) id).dfc, []⟩
    have hi2 := innerAt_dfc (size := size) (ccnt := (a.book size (flow id) id).ccnt) (hol := (a.book size (flow id) id).hol) (t := q.time)
      m (flow id) ⟨(a.book size (flow id) id).dfc, []⟩
    have hpiece : EndOK size (a.book size (flow id) id).ccnt (a.book size (flow id) id).hol ((a.book size (flow id) id).total F) cfg.weights
          (match innerAt size (a.book size (flow id) id).ccnt (a.book size (flow id) id).hol q.time m (flow id)
              ⟨(a.book size (flow id) id).dfc, []⟩ with
            | (L', some e) => (L', some e)
            | (L', none) => visitFrom (qOf cfg) size (a.book size (flow id) id).ccnt (a.book size (flow id) id).hol q.time (m + 1) rest L').1
          (match innerAt size (a.book size (flow id) id).ccnt (a.book size (flow id) id).hol q.time m (flow id)
              ⟨(a.book size (flow id) id).dfc, []⟩ with
            | (L', some e) => (L', some e)
            | (L', none) => visitFrom (qOf cfg) size (a.book size (flow id) id).ccnt (a.book size (flow id) id).hol q.time (m + 1) rest L').2 ∧
        ∀ f, (a.book size (flow id) id).dfc f ≤
          (match innerAt size (a.book size (flow id) id).ccnt (a.book size (flow id) id).hol q.time m (flow id)
              ⟨(a.book size (flow id) id).dfc, []⟩ with
            | (L', some e) => (L', some e)
            | (L', none) => visitFrom (qOf cfg) size (a.book size (flow id) id).ccnt (a.book size (flow id) id).hol q.time (m + 1) rest L').1.dfc f := by
      cases hr : innerAt size (a.book size (flow id) id).ccnt (a.book size (flow id) id).hol q.time m (flow id)
          ⟨(a.book size (flow id) id).dfc, []⟩ with
      | mk L' oe =>
        rw [hr] at hi1 hi2
        cases oe with
        | some e => exact ⟨hi1, fun f => by rw [hi2]⟩
        | none =>
          have hv := visitFrom_ok (Q := qOf cfg) (size := size) (ccnt := (a.book size (flow id) id).ccnt)
            (hol := (a.book size (flow id) id).hol) (t := q.time) (total := (a.book size (flow id) id).total F) (ws := cfg.weights)
            hQ0 rest (m + 1) L' hd'
          exact ⟨hv.1, fun f => le_trans (by rw [hi2]) (hv.2 f)⟩
    obtain ⟨Lf, fin, o', h1, h2, h3, h4, h5⟩ := ol_tail (P := P) hm _ hpiece.1 hpiece.2 hl2 (fun h => pos_wrap (hp2 h)) he2
    refine ⟨_, bookEvs a (flow id) id q.time, Lf, fin, o', hm, hsb, h2, h3, ?_, h4, h5⟩
    simp only [A.burst, hd]
    exact congrArg (finish (a.book size (flow id) id) (bookEvs a (flow id) id q.time)) h1

/-! ## every configuration step keeps the oracle's invariant -/

/-- the loops end with `total_packets == 0`: the oracle notes the idle period -/
theorem oinv_idle (hm : MidInv F flow size cfg Lmax P a1 now) {Lf : LS} {o' : OSt ℚ}
    (hl : OL F flow size cfg arrivals a1 base now Lf o') (htot : a1.total F = 0) (r : RPhase)
    (hr : (∃ g, r = .W g) ∨ ∃ g q0, r = .K g q0) (tk : Nat) :
    ∃ o'', OInv F flow size cfg arrivals { (finA a1 Lf (some .idle)) with run := r, tokens := tk } now
      (base ++ Lf.evs ++ [.idle now]) o'' := by
  have hemp := mid_empty hm htot
  have hw : ∀ f, f < F → o'.waiting f = [] := by
    intro f hf
    have := hl.wq f hf
    rw [(hemp f hf).1] at this
    exact List.map_eq_nil_iff.mp this
  have hpn : ∀ f, f < F → o'.parked f = none := by
    intro f hf
    have := hl.pk f hf
    rw [(hemp f hf).2] at this
    exact Option.map_eq_none_iff.mp this
  have hok : IdleOK F o' := by
    refine ⟨quiet_of hl.quiet, ?_⟩
    intro f hf
    rw [hw f (List.mem_range.mp hf), hpn f (List.mem_range.mp hf)]
    exact ⟨rfl, rfl⟩
  have hs : ostep F flow size cfg o' (.idle now) = some { o' with cur := none, closed := false } := by
    simp only [ostep]; exact if_pos hok
  have hH : ∀ f, heldH flow ({ (finA a1 Lf (some .idle)) with run := r, tokens := tk } : A) f = [] := by
    intro f
    rcases hr with ⟨g, rfl⟩ | ⟨g, q0, rfl⟩ <;> rfl
  have han : AllNow F now { o' with cur := none, closed := false } := by
    intro f hf
    refine ⟨?_, ?_⟩
    · intro x hx
      change x ∈ o'.waiting f at hx
      rw [hw f hf] at hx; cases hx
    · intro x hx
      change o'.parked f = some x at hx
      rw [hpn f hf] at hx; cases hx
  refine ⟨_, orun_snoc hl.run hs, ?_, hl.pk, hl.cr, hl.ct, ?_, ?_⟩
  · intro f hf
    rw [hH f, List.nil_append]
    exact hl.wq f hf
  · rcases hr with ⟨g, rfl⟩ | ⟨g, q0, rfl⟩ <;> exact ⟨hl.quiet, han, rfl⟩
  · rw [obsPuts_append]
    have := hl.fut
    simpa [obsPuts, finA] using this

/-- the oracle after a `put` -/
theorem oinv_put (ho : OInv F flow size cfg arrivals a q.time hist o) {id : Int}
    {arr : List (ℚ × Int)} (h : a.src = .wait id arr q) (a' : A) (hrun : a'.run = a.run)
    (hitems : a'.items = upd a.items (flow id) (a.items (flow id) ++ [id])) (hhol : a'.hol = a.hol) (hdfc : a'.dfc = a.dfc)
    (hccnt : a'.ccnt = upd a.ccnt (flow id) (a.ccnt (flow id) + 1)) (eid ev : Nat)
    (hsrc : a'.src = srcNext q.time eid ev arr) :
    ∃ o', OInv F flow size cfg arrivals a' q.time (hist ++ [.put id q.time]) o' := by
  have hph := ho.ph
  have htr : o.toReset = none := by
    cases hr : a.run <;> rw [hr] at hph
    · exact hph.1.2.2
    · exact hph.1.2.2
    · exact hph.1.2.2
    · exact hph.1.2.2
    · exact hph.2.2.1
    · obtain ⟨s0, -, -, -, h4, -⟩ := hph; exact h4
    · exact hph.2.2.1
  have hs : ostep F flow size cfg o (.put id q.time) =
      some { o with waiting := setQ o.waiting (flow id) (o.waiting (flow id) ++ [(id, q.time)]),
                    count := setQ o.count (flow id) (o.count (flow id) + 1) } := by
    simp only [ostep]; exact if_pos (by rw [htr]; rfl)
  have hmem : ∀ f, ∀ x ∈ setQ o.waiting (flow id) (o.waiting (flow id) ++ [(id, q.time)]) f, x ∈ o.waiting f ∨ x.2 = q.time := by
    intro f x hx
    by_cases hff : f = flow id
    · subst hff
      simp only [setQ_same, List.mem_append, List.mem_singleton] at hx
      rcases hx with hx | rfl
      · exact Or.inl hx
      · exact Or.inr rfl
    · simp only [setQ_ne _ _ _ _ hff] at hx
      exact Or.inl hx
  have han : AllNow F q.time o → AllNow F q.time { o with
      waiting := setQ o.waiting (flow id) (o.waiting (flow id) ++ [(id, q.time)]),
      count := setQ o.count (flow id) (o.count (flow id) + 1) } := by
    intro h0 f hf
    exact ⟨fun x hx => (hmem f x hx).elim ((h0 f hf).1 x) (fun h => h), (h0 f hf).2⟩
  refine ⟨_, orun_snoc ho.run hs, ?_, ?_, ?_, ?_, ?_, ?_⟩
  · intro f hf
    have hH : heldH flow a' f = heldH flow a f := by simp [heldH, hrun]
    rw [hH, hitems]
    show (setQ o.waiting (flow id) (o.waiting (flow id) ++ [(id, q.time)]) f).map (·.1) = _
    by_cases hff : f = flow id
    · subst hff
      simp only [setQ_same, upd_same, List.map_append, List.map_cons, List.map_nil, ho.wq _ hf, List.append_assoc]
    · simp only [setQ_ne _ _ _ _ hff, upd_ne _ _ _ _ hff, ho.wq f hf]
  · intro f hf; rw [hhol]; exact ho.pk f hf
  · intro f hf; rw [hdfc]; exact ho.cr f hf
  · intro f hf
    rw [hccnt]
    show setQ o.count (flow id) (o.count (flow id) + 1) f = _
    by_cases hff : f = flow id
    · subst hff; rw [setQ_same, upd_same, ho.ct _ hf]
    · rw [setQ_ne _ _ _ _ hff, upd_ne _ _ _ _ hff, ho.ct f hf]
  · rw [hrun]
    cases hr : a.run with
    | init q0 => rw [hr] at hph; exact ⟨hph.1, han hph.2.1, hph.2.2⟩
    | W g => rw [hr] at hph; exact ⟨hph.1, han hph.2.1, hph.2.2⟩
    | K g q0 => rw [hr] at hph; exact ⟨hph.1, han hph.2.1, hph.2.2⟩
    | H g m0 id0 q0 =>
      rw [hr] at hph
      refine ⟨hph.1, ?_, hph.2.2⟩
      rcases hph.2.1 with h2 | h2
      · exact Or.inl h2
      · exact Or.inr (han h2)
    | S p m0 id0 q0 => rw [hr] at hph; exact hph
    | T p t m0 id0 q0 => rw [hr] at hph; exact hph
    | F p m0 id0 q0 => rw [hr] at hph; exact hph
  · rw [obsPuts_append, hsrc, srcFuture_srcNext]
    have := ho.fut
    rw [h] at this
    simp only [srcFuture] at this
    simp only [obsPuts, List.append_assoc, List.cons_append, List.nil_append]
    exact this

/-- **every configuration step keeps the oracle's invariant**: the observations of the step are accepted -/
theorem oinv_step {a' : A} {new : List (HEv ℚ)} {n e : Nat} (hi : AInv flow F size cfg Lmax P a q.time)
    (ho : OInv F flow size cfg arrivals a q.time hist o) (hs : AStep F flow size cfg P n e a q a' new) :
    ∃ o', OInv F flow size cfg arrivals a' q.time (hist ++ new) o' := by
  have hrun := hi.run
  have hph := ho.ph
  cases hs with
  | burstGet en r m' c' id' is hst hb hfin hc' hit =>
    rcases ol_burst hi hst ho with ⟨g, m, id, rfl, h, hle, hbe⟩ | ⟨a1, e0, Lf, fin, o', hm, hsb, hnh, hE, hbe, hl, hec⟩
    · rw [hbe] at hb; subst hb; cases hfin
    · rw [hbe] at hb; subst hb
      simp only at hfin
      subst hfin
      obtain ⟨⟨w, hw⟩, hhol, hdpos, hcpos⟩ := hE
      have hfl : flow id' = c' := (hm.flowOK c' hc' id' (by rw [hsb.items, hit]; simp)).1
      refine ⟨o', by rw [← List.append_assoc]; exact hl.run, ?_, hl.pk, hl.cr, hl.ct, ⟨hl.quiet, hl.fresh, hec⟩,
        by rw [← List.append_assoc]; exact hl.fut⟩
      intro f hf
      show _ = heldH flow _ f ++ upd a1.items c' is f
      simp only [heldH, hfl]
      by_cases hff : f = c'
      · subst hff
        rw [if_pos rfl, upd_same, hl.wq f hf, hsb.items, hit]; rfl
      · rw [if_neg (Ne.symm hff), upd_ne _ _ _ _ hff, List.nil_append]
        exact hl.wq f hf
  | burstSend en r m' c' id' pk hst hb hfin =>
    rcases ol_burst hi hst ho with ⟨g, m, id, rfl, h, hle, hbe⟩ | ⟨a1, e0, Lf, fin, o', hm, hsb, hnh, hE, hbe, hl, hec⟩
    · -- the packet just taken from its store is sent
      rw [hbe] at hb; subst hb
      simp only [LoopEnd.send.injEq] at hfin
      obtain ⟨rfl, rfl, rfl, rfl⟩ := hfin
      rw [h] at hrun hph
      obtain ⟨-, -, -, hpk, ⟨w, hw⟩, hhol, hdpos⟩ := hrun
      obtain ⟨hq, hfr, hc⟩ := hph
      have hwq := ho.wq (flow id) hpk.1
      simp only [heldH, h, if_true, List.singleton_append] at hwq
      have hpn : o.parked (flow id) = none := by
        have := ho.pk (flow id) hpk.1
        rw [hhol] at this
        exact Option.map_eq_none_iff.mp this
      obtain ⟨x, r, hxr, hxid⟩ : ∃ x r, o.waiting (flow id) = x :: r ∧ x.1 = id := by
        cases hwt : o.waiting (flow id) with
        | nil => rw [hwt] at hwq; simp at hwq
        | cons x r => rw [hwt] at hwq; simp only [List.map_cons, List.cons.injEq] at hwq; exact ⟨x, r, rfl, hwq.1⟩
      have hrmap : r.map (·.1) = a.items (flow id) := by
        rw [hxr] at hwq; simp only [List.map_cons, List.cons.injEq] at hwq; exact hwq.2
      have hok : TakeOK F flow cfg.weights o id q.time :=
        takeOK_of hi.table hq hc hw (by rw [ho.cr _ hpk.1]; exact hdpos)
          (by unfold IsHead; rw [hpn]; simp [hxr, hxid]) hfr
      have hcr : (Num.ofNat (size id) : ℚ) ≤ o.credit (flow id) := by rw [ho.cr _ hpk.1]; exact hle
      have hs : ostep F flow size cfg o (.serve id q.time) = some { (takeHead flow o id).1 with busy := some (id, q.time) } := by
        simp only [ostep]; exact if_pos ⟨hok, hcr⟩
      rw [takeHead_waiting hpn, hxr] at hs
      simp only [List.tail_cons] at hs
      refine ⟨{ o with waiting := setQ o.waiting (flow id) r, busy := some (id, q.time) }, by simpa using orun_snoc ho.run hs, ?_,
        ho.pk, ho.cr, ho.ct, ⟨rfl, hq.2.1, hq.2.2, hc⟩, ?_⟩
      · intro f hf
        show (setQ o.waiting (flow id) r f).map (·.1) = _
        simp only [heldH, List.nil_append]
        by_cases hff : f = flow id
        · subst hff; rw [setQ_same]; exact hrmap
        · rw [setQ_ne _ _ _ _ hff]
          have := ho.wq f hf
          simpa [heldH, h, Ne.symm hff] using this
      · simpa [obsPuts_append, obsPuts] using ho.fut
    · -- the parked head of the class is sent
      rw [hbe] at hb; subst hb
      simp only at hfin
      subst hfin
      obtain ⟨rfl, ⟨w, hw⟩, hhol, hle, hcpos⟩ := hE
      obtain ⟨hc, hcrpos⟩ := hec
      have hcF : c' < F := entry_lt hm.table (List.mem_of_getElem? hw)
      have hfl : flow id' = c' := (hm.holOK c' hcF id' hhol).1
      have hpk := hl.pk c' hcF
      rw [hhol] at hpk
      obtain ⟨x, hx, hxid⟩ := Option.map_eq_some_iff.mp hpk
      have hxf : o'.parked (flow id') = some x := by rw [hfl]; exact hx
      have hok : TakeOK F flow cfg.weights o' id' q.time :=
        takeOK_of hm.table hl.quiet hc (by rw [hfl]; exact hw) (by rw [hfl]; exact hcrpos)
          (by unfold IsHead; rw [hxf]; exact hxid) hl.fresh
      have hcr : (Num.ofNat (size id') : ℚ) ≤ o'.credit (flow id') := by rw [hfl, hl.cr c' hcF]; exact hle
      have hs : ostep F flow size cfg o' (.serve id' q.time) = some { (takeHead flow o' id').1 with busy := some (id', q.time) } := by
        simp only [ostep]; exact if_pos ⟨hok, hcr⟩
      rw [takeHead_parked hxf] at hs
      refine ⟨{ o' with parked := setQ o'.parked (flow id') none, busy := some (id', q.time) }, ?_, ?_, ?_, hl.cr, hl.ct,
        ⟨rfl, hl.quiet.2.1, hl.quiet.2.2, hc⟩, ?_⟩
      · have := orun_snoc hl.run hs
        simpa [List.append_assoc] using this
      · intro f hf
        simp only [heldH, List.nil_append]
        exact hl.wq f hf
      · intro f hf
        show (setQ o'.parked (flow id') none f).map (·.1) = upd a1.hol c' none f
        rw [hfl]
        by_cases hff : f = c'
        · subst hff; rw [setQ_same, upd_same]; rfl
        · rw [setQ_ne _ _ _ _ hff, upd_ne _ _ _ _ hff]; exact hl.pk f hf
      · have := hl.fut
        simp only [obsPuts_append, obsPuts, List.append_nil, List.append_assoc] at this ⊢
        exact this
  | burstBlock en r hst hb hfin htk =>
    rcases ol_burst hi hst ho with ⟨g, m, id, rfl, h, hle, hbe⟩ | ⟨a1, e0, Lf, fin, o', hm, hsb, hnh, hE, hbe, hl, hec⟩
    · rw [hbe] at hb; subst hb; cases hfin
    · rw [hbe] at hb; subst hb
      simp only at hfin
      subst hfin
      obtain ⟨o'', h''⟩ := oinv_idle hm hl hE (.W n) (Or.inl ⟨n, rfl⟩) a1.tokens
      have heq : hist ++ (e0 ++ Lf.evs ++ [.idle q.time]) = hist ++ e0 ++ Lf.evs ++ [.idle q.time] := by
        simp [List.append_assoc]
      rw [heq]; exact ⟨o'', h''⟩
  | burstTok en r t hst hb hfin htk =>
    rcases ol_burst hi hst ho with ⟨g, m, id, rfl, h, hle, hbe⟩ | ⟨a1, e0, Lf, fin, o', hm, hsb, hnh, hE, hbe, hl, hec⟩
    · rw [hbe] at hb; subst hb; cases hfin
    · rw [hbe] at hb; subst hb
      simp only at hfin
      subst hfin
      obtain ⟨o'', h''⟩ := oinv_idle hm hl hE (.K n ⟨q.time, NORMAL, e, n⟩) (Or.inr ⟨_, _, rfl⟩) t
      have heq : hist ++ (e0 ++ Lf.evs ++ [.idle q.time]) = hist ++ e0 ++ Lf.evs ++ [.idle q.time] := by
        simp [List.append_assoc]
      rw [heq]; exact ⟨o'', h''⟩
  | sendInit p m id h =>
    rw [h] at hph
    refine ⟨o, by simpa using ho.run, ?_, ho.pk, ho.cr, ho.ct, ⟨q.time, hph.1, rfl, hph.2⟩, by simpa using ho.fut⟩
    intro f hf
    have := ho.wq f hf
    simp only [heldH, h] at this
    simpa [heldH] using this
  | sendFire p t m id h =>
    rw [h] at hph
    obtain ⟨s0, hb, hq0, htb, htr, hcur⟩ := hph
    have hok : OutOK size cfg.rate o id q.time := by
      simp only [OutOK, hb, htb, htr, true_and]
      exact ⟨(eqT_iff _ _).mpr hq0, rfl, rfl⟩
    have hs : ostep F flow size cfg o (.out id q.time) = some { o with busy := none, lastOut := some q.time, toBook := some id } := by
      simp only [ostep]; exact if_pos hok
    refine ⟨_, orun_snoc ho.run hs, ?_, ho.pk, ho.cr, ho.ct, ⟨rfl, rfl, htr, rfl, hcur⟩, ?_⟩
    · intro f hf
      have := ho.wq f hf
      simp only [heldH, h] at this
      simpa [heldH] using this
    · simpa [obsPuts_append, obsPuts] using ho.fut
  | srcInit arr h =>
    refine ⟨o, by simpa using ho.run, ho.wq, ho.pk, ho.cr, ho.ct, ho.ph, ?_⟩
    have := ho.fut
    rw [h] at this
    simp only [List.append_nil, srcFuture_srcNext]
    simp only [srcFuture] at this
    exact this
  | srcPutTok id arr h htot => exact oinv_put ho h _ rfl rfl rfl rfl rfl _ _ rfl
  | srcPutPlain id arr h htot => exact oinv_put ho h _ rfl rfl rfl rfl rfl _ _ rfl
  | srcEnd h =>
    refine ⟨o, by simpa using ho.run, ho.wq, ho.pk, ho.cr, ho.ct, ho.ph, ?_⟩
    have := ho.fut
    rw [h] at this
    simpa [srcFuture] using this
  | pendNoop r l1 l2 hpe hno => exact ⟨o, by simpa using ho.run, ho.wq, ho.pk, ho.cr, ho.ct, ho.ph, by simpa using ho.fut⟩
  | pendHand g t l1 l2 hpe h htk =>
    rw [h] at hph
    refine ⟨o, by simpa using ho.run, ?_, ho.pk, ho.cr, ho.ct, hph, by simpa using ho.fut⟩
    intro f hf
    have := ho.wq f hf
    simp only [heldH, h] at this
    simpa [heldH] using this

/-- **letting the clock advance to the next entry changes nothing** -/
theorem OInv.advance (hi : AInv flow F size cfg Lmax P a now) (hq : IsMin a q) (ho : OInv F flow size cfg arrivals a now hist o) :
    OInv F flow size cfg arrivals a q.time hist o := by
  rcases eq_or_lt_of_le (hi.now_le hq) with h | h
  · rw [← h]; exact ho
  have hne : ∀ x ∈ a.entries, x.time ≠ now := fun x hx hxt => absurd (hi.time_eq hq hx hxt) (ne_of_gt h)
  have hp := hi.run
  have hph := ho.ph
  refine ⟨ho.run, ho.wq, ho.pk, ho.cr, ho.ct, ?_, ?_⟩
  · cases hr : a.run with
    | init q0 => rw [hr] at hp; exact absurd hp.1 (hne q0 (mem_run (by simp [hr, RPhase.entries])))
    | K g q0 => rw [hr] at hp; exact absurd hp.1 (hne q0 (mem_run (by simp [hr, RPhase.entries])))
    | H g m id q0 => rw [hr] at hp; exact absurd hp.1 (hne q0 (mem_run (by simp [hr, RPhase.entries])))
    | S p m id q0 => rw [hr] at hp; exact absurd hp.1 (hne q0 (mem_run (by simp [hr, RPhase.entries])))
    | F p m id q0 => rw [hr] at hp; exact absurd hp.1 (hne q0 (mem_run (by simp [hr, RPhase.entries])))
    | T p t m id q0 => rw [hr] at hph; exact hph
    | W g =>
      rw [hr] at hp hph
      have htk : a.tokens = 0 := by
        by_contra hc
        obtain ⟨u, hu⟩ := hp.2.1 hc
        exact hne u (mem_pend hu) (hi.pend _ hu).1
      refine ⟨hph.1, ?_, hph.2.2⟩
      intro f hf
      have hH : heldH flow a f = [] := by simp [heldH, hr]
      have hw0 : o.waiting f = [] := by
        have := ho.wq f hf
        rw [hH, hp.1 htk f hf] at this
        exact List.map_eq_nil_iff.mp this
      have hp0 : o.parked f = none := by
        have := ho.pk f hf
        rw [hp.2.2.2 f hf] at this
        exact Option.map_eq_none_iff.mp this
      refine ⟨fun x hx => ?_, fun x hx => ?_⟩
      · rw [hw0] at hx; cases hx
      · rw [hp0] at hx; cases hx
  · have hs := hi.src
    cases hsrc : a.src with
    | init q0 arr => rw [hsrc] at hs; exact absurd hs.1 (hne q0 (mem_src (by simp [hsrc, SPhase.entries])))
    | wait id rest q0 => have := ho.fut; rw [hsrc] at this; exact this
    | ending q0 => have := ho.fut; rw [hsrc] at this; exact this
    | done => have := ho.fut; rw [hsrc] at this; exact this

/-! ## whole runs -/

/-- the kernel state is a sound configuration, the run so far an admissible run of the LTS, and its history is accepted by
the oracle, which stands where the configuration says -/
structure Inv3 (F : Nat) (flow size : Int → Nat) (cfg : DRR.Cfg ℚ) (Lmax P : Nat) (arrivals : List (ℚ × Int)) (s : KS) (a : A) :
    Prop where
  i : Inv2 F flow size cfg Lmax P s a
  o : ∃ o, OInv F flow size cfg arrivals a s.now (histOf s.trace) o

theorem oinv_init (arrivals : List (ℚ × Int)) :
    OInv F flow size cfg arrivals (a0 arrivals) (initState F cfg arrivals : KS).now (histOf (initState F cfg arrivals : KS).trace) oInit := by
  rw [initState_now, initState_trace, histOf_empty]
  refine ⟨rfl, fun f _ => rfl, fun f _ => rfl, fun f _ => zero_eq', fun f _ => rfl, ⟨⟨rfl, rfl, rfl⟩, ?_, rfl⟩, rfl⟩
  intro f _
  exact ⟨fun x hx => (by cases hx), fun x hx => (by cases hx)⟩

/-- every state reachable by kernel steps -/
theorem reach_inv3 (fuel : Nat) {arrivals : List (ℚ × Int)} (hw : WorkOK flow F size Lmax arrivals) (ht : FlowsOK F cfg)
    (hr : 0 < cfg.rate) (hP : ∃ k, P = k + 1 ∧ Lmax ≤ 1500 * k) {s : KS}
    (h : KReach (prog F flow size cfg P) (fuel + 1) (initState F cfg arrivals) s) :
    ∃ a, Inv3 F flow size cfg Lmax P arrivals s a := by
  induction h with
  | init =>
    refine ⟨a0 arrivals, ⟨inv_init arrivals hw ht hr hP, ?_, ?_⟩, oInit, oinv_init arrivals⟩
    · rw [initState_trace, histOf_empty]
      exact ⟨rfl, rfl, fun c hc => absurd rfl hc, fun _ _ => rfl⟩
    · rw [initState_trace, histOf_empty]; exact evsOK_nil
  | @step s s' _ hs ih =>
    obtain ⟨a, hi, o, ho⟩ := ih
    cases hp : popMin s.agenda with
    | none => simp [_root_.step, hp, StepResult.state?] at hs
    | some qr =>
      obtain ⟨q, rest⟩ := qr
      obtain ⟨s'', a', new, h1, h2, -, h4, h5, h6, -⟩ := inv_step_lts fuel hi hp
      rw [h1] at hs
      simp only [StepResult.state?, Option.some.injEq] at hs
      subst hs
      have hmin := (isMin_of_pop hi.i.k hp).1
      obtain ⟨o', ho'⟩ := oinv_step (hi.i.a.advance hmin) (ho.advance hi.i.a hmin) h4
      exact ⟨a', h2, o', by rw [h5, h6]; exact ho'⟩

/-- a state with an empty agenda: the oracle is drained and has seen exactly the workload -/
theorem oinv_final {s : KS} (hi : Inv2 F flow size cfg Lmax P s a) {arrivals : List (ℚ × Int)}
    (ho : OInv F flow size cfg arrivals a s.now (histOf s.trace) o) (hag : s.agenda = []) :
    drained F o = true ∧ obsPuts (histOf s.trace) = arrivalsFrom 0 arrivals ∧
      ∀ c, MQ.heldC (DRR.sched cfg) (toM cfg.flows flow size a (histOf s.trace) s.now) c = [] := by
  have hperm := hi.i.k.ag
  rw [hag] at hperm
  have hent : a.entries = [] := hperm.nil_eq.symm
  simp only [A.entries, List.append_eq_nil_iff] at hent
  obtain ⟨hre, hse, hpe⟩ := hent
  have hpend : a.pend = [] := by simpa [pendEntries] using hpe
  have hrun := hi.i.a.run
  have hph := ho.ph
  cases hr : a.run with
  | init q0 => rw [hr] at hre; simp [RPhase.entries] at hre
  | K g q0 => rw [hr] at hre; simp [RPhase.entries] at hre
  | H g m id q0 => rw [hr] at hre; simp [RPhase.entries] at hre
  | S p m id q0 => rw [hr] at hre; simp [RPhase.entries] at hre
  | T p t m id q0 => rw [hr] at hre; simp [RPhase.entries] at hre
  | F p m id q0 => rw [hr] at hre; simp [RPhase.entries] at hre
  | W g =>
    rw [hr] at hrun hph
    obtain ⟨⟨hb, htb, htr⟩, -, -⟩ := hph
    have htk : a.tokens = 0 := by
      by_contra hc
      obtain ⟨u, hu⟩ := hrun.2.1 hc
      rw [hpend] at hu; cases hu
    have hH : ∀ f, heldH flow a f = [] := fun f => by simp [heldH, hr]
    have hw0 : ∀ f, f < F → o.waiting f = [] := by
      intro f hf
      have := ho.wq f hf
      rw [hH, hrun.1 htk f hf] at this
      exact List.map_eq_nil_iff.mp this
    have hp0 : ∀ f, f < F → o.parked f = none := by
      intro f hf
      have := ho.pk f hf
      rw [hrun.2.2.2 f hf] at this
      exact Option.map_eq_none_iff.mp this
    refine ⟨?_, ?_⟩
    · simp only [drained, hb, htb, htr, Option.isNone_none, Bool.and_self, Bool.true_and, List.all_eq_true, List.mem_range,
        Bool.and_eq_true]
      intro f hf
      rw [hw0 f hf, hp0 f hf]
      exact ⟨rfl, rfl⟩
    · have := ho.fut
      cases hs : a.src with
      | init q0 arr => rw [hs] at hse; simp [SPhase.entries] at hse
      | wait id rest q0 => rw [hs] at hse; simp [SPhase.entries] at hse
      | ending q0 => rw [hs] at hse; simp [SPhase.entries] at hse
      | done =>
        rw [hs] at this
        refine ⟨by simpa [srcFuture] using this, ?_⟩
        intro c
        have hst : MQ.storeOf (toM cfg.flows flow size a (histOf s.trace) s.now).stores c = [] := by
          simp only [MQ.storeOf, MQ.lookupD, toM, mst, lookup_dictOf]
          by_cases hc : c ∈ a.keys
          · simp [hc, hrun.1 htk c (hi.i.a.keysOK.1 c hc)]
          · simp [hc]
        have hho : MQ.lookupD (toM cfg.flows flow size a (histOf s.trace) s.now).hol c none = none := by
          simp only [MQ.lookupD, toM, mst, lookup_dictOf]
          by_cases hc : c ∈ parkKeys flow (histOf s.trace)
          · simp [hc, hrun.2.2.2 c (hok_parkKeys hi.h c hc)]
          · simp [hc]
        simp only [MQ.heldC, hst, hho]
        simp [MQ.inHand, toM, mst, phaseOf, hr]

end DRRK
