import OnlVerif.Lemmas.SplitWFStep
/-!
# What well-scopedness gives the split theorems (C03, stage 3)

* `closed_of_ws` — a well-scoped state with a sorted agenda is `Closed` for the split made in it;
* `condWF_of_ws`, `buildAlloc_of_ws`, `fuelAlong_of_ws` — the fuel hypothesis of `Condition._build_value`;
* `ws_T` — the state of the split run that corresponds to a well-scoped state is well-scoped (so the invariants of the
  *uninterrupted* run carry over to every split run, however many numeric stops it has made);
* `sortedAg_T_false`, and the irrelevance of the clock.
-/

variable {σ : Type}

namespace SplitWF
variable {I : IdSt σ} {s : KState ℚ σ}

/-! ## renaming at or above the bound changes nothing -/

theorem map_shAt_of_lt (u : Nat) (l : List EvId) (h : ∀ e ∈ l, e < u) : l.map (shAt u) = l := by
  induction l with
  | nil => rfl
  | cons x xs ih =>
    rw [List.map_cons, shAt_of_lt (h x List.mem_cons_self), ih (fun e he => h e (List.mem_cons_of_mem _ he))]

theorem rnVal_of_below (u : Nat) (v : Val) (h : valBelow u v) : rnVal (shAt u) v = v := by
  cases v <;> simp only [rnVal, valBelow] at h ⊢
  case ev e => rw [shAt_of_lt h]
  case cv keys => rw [map_shAt_of_lt u keys h]
  case preempted b r res =>
    rw [shAt_of_lt h.2]
    cases b with
    | none => rfl
    | some p => rw [Option.map_some, shAt_of_lt (h.1 p rfl)]

theorem map_rnVal_of_below (u : Nat) (l : List Val) (h : ∀ v ∈ l, valBelow u v) : l.map (rnVal (shAt u)) = l := by
  induction l with
  | nil => rfl
  | cons x xs ih =>
    rw [List.map_cons, rnVal_of_below u x (h x List.mem_cons_self), ih (fun e he => h e (List.mem_cons_of_mem _ he))]

theorem rnExc_of_below (u : Nat) (x : Exc) (h : excBelow u x) : rnExc (shAt u) x = x := by
  unfold rnExc
  rw [map_rnVal_of_below u x.args h]

theorem rnOutcome_of_below (u : Nat) (o : Outcome) (h : outBelow u o) : rnOutcome (shAt u) o = o := by
  cases o with
  | ok v => simp only [rnOutcome, rnVal_of_below u v h]
  | fail x => simp only [rnOutcome, rnExc_of_below u x h]

theorem rnCb_of_below (u : Nat) (cb : Cb) (h : cbBelow u cb) : rnCb (shAt u) cb = cb := by
  cases cb <;> simp only [rnCb, cbBelow] at h ⊢ <;> rw [shAt_of_lt h]

theorem rnKind_of_below (u i : Nat) (k : Kind) (h : kindBelow u i k) (hi : i ≤ u) : rnKind (shAt u) k = k := by
  cases k <;> simp only [rnKind, kindBelow] at h ⊢
  case init p => rw [shAt_of_lt h]
  case intr p => rw [shAt_of_lt h]
  case cond all ops => rw [map_shAt_of_lt u ops (fun o ho => Nat.lt_of_lt_of_le (h o ho) hi)]

theorem rnReq_of_below (u : Nat) (rq : ReqData ℚ) (h : reqBelow u rq) : rnReq (shAt u) rq = rq := by
  unfold rnReq
  rw [shAt_of_lt h.2]
  cases hp : rq.proc with
  | none => simp only [Option.map_none]; cases rq; simp_all
  | some p => simp only [Option.map_some, shAt_of_lt (h.1 p hp)]; cases rq; simp_all

theorem rnRec_of_below (u i : Nat) (r : EvRec ℚ) (h : recBelow u i r) (hi : i ≤ u) : rnRec (shAt u) r = r := by
  obtain ⟨kind, cbs, out, defused, count, label, req⟩ := r
  unfold rnRec
  simp only
  have h1 := rnKind_of_below u i kind h.kind hi
  have h2 : cbs.map (·.map (rnCb (shAt u))) = cbs := by
    cases cbs with
    | none => rfl
    | some l =>
      simp only [Option.map_some]
      congr 1
      have := h.cbs l rfl
      clear h
      induction l with
      | nil => rfl
      | cons x xs ih =>
        rw [List.map_cons, rnCb_of_below u x (this x List.mem_cons_self), ih (fun e he => this e (List.mem_cons_of_mem _ he))]
  have h3 : out.map (rnOutcome (shAt u)) = out := by
    cases out with
    | none => rfl
    | some o => simp only [Option.map_some, rnOutcome_of_below u o (h.out o rfl)]
  have h4 : req.map (rnReq (shAt u)) = req := by
    cases req with
    | none => rfl
    | some rq => simp only [Option.map_some, rnReq_of_below u rq (h.req rq rfl)]
  rw [h1, h2, h3, h4]

theorem rnRes_of_below (u : Nat) (x : ResRec) (h : resBelow u x) : rnRes (shAt u) x = x := by
  unfold rnRes
  rw [map_shAt_of_lt u _ h.putQ, map_shAt_of_lt u _ h.getQ, map_shAt_of_lt u _ h.users]

theorem rnResume_of_below (u : Nat) (r : Resume) (h : resumeBelow u r) : rnResume (shAt u) r = r := by
  cases r with
  | start => rfl
  | value v => simp only [rnResume, rnVal_of_below u v h]
  | exc x => simp only [rnResume, rnExc_of_below u x h]

theorem rnObs_of_below (u : Nat) (o : Obs ℚ) (h : obsBelow u o) : rnObs (shAt u) o = o := by
  cases o <;> simp only [rnObs, obsBelow] at h ⊢
  case resumed p r t => rw [shAt_of_lt h.1, rnResume_of_below u r h.2]
  case log p w v t => rw [shAt_of_lt h.1, rnVal_of_below u v h.2]
  case probe tag e o t => rw [shAt_of_lt h.1, rnOutcome_of_below u o h.2]
  case callErr p x t => rw [shAt_of_lt h.1, rnExc_of_below u x h.2]
  case ended p o t => rw [shAt_of_lt h.1, rnOutcome_of_below u o h.2]

theorem list_map_eq_self {α : Type} (f : α → α) (l : List α) (h : ∀ a ∈ l, f a = a) : l.map f = l := by
  induction l with
  | nil => rfl
  | cons x xs ih => rw [List.map_cons, h x List.mem_cons_self, ih (fun a ha => h a (List.mem_cons_of_mem _ ha))]

/-- **a well-scoped state with a sorted agenda is `Closed`** for the numeric split made in it -/
theorem closed_of_ws (c : SplitCfg σ) (h : WS I s) (hs : SortedAg s) (hu : c.u = s.events.size) (he : c.eid0 = s.eid)
    (hrσ : c.rσ = I.rn c.u) : c.Closed s := by
  have hρ : c.ρ = shAt s.events.size := by unfold SplitCfg.ρ; rw [hu]
  refine ⟨?_, ?_, ?_, ?_, ?_, ?_, ?_⟩
  · rw [hρ]
    apply Array.ext
    · simp
    · intro i h1 h2
      rw [Array.getElem_map]
      have hi : i < s.events.size := h2
      have hev : s.ev i = s.events[i] := by
        unfold KState.ev
        rw [Array.getD_eq_getD_getElem?, Array.getElem?_eq_getElem hi]
        rfl
      have := rnRec_of_below s.events.size i (s.ev i) (h.events i) (Nat.le_of_lt hi)
      rw [hev] at this
      exact this
  · apply list_map_eq_self
    intro q hq
    unfold SplitCfg.rnEntry
    rw [hρ, shAt_of_lt (h.agenda q hq), if_neg (by rw [he]; exact Nat.not_le.mpr (hs.below q hq))]
  · apply list_map_eq_self
    intro pr hpr
    obtain ⟨h1, h2, h3⟩ := h.procs pr hpr
    rw [hρ, shAt_of_lt h1]
    have : rnProc (shAt s.events.size) c.rσ pr.2 = pr.2 := by
      obtain ⟨p, ⟨st, tg⟩⟩ := pr
      simp only at h2 h3 ⊢
      unfold rnProc
      simp only
      rw [hrσ, I.rn_below h3 (Nat.le_of_eq hu.symm)]
      cases tg with
      | none => rfl
      | some t => rw [Option.map_some, shAt_of_lt (h2 t rfl)]
    rw [this]
  · cases ha : s.active with
    | none => rfl
    | some p => rw [Option.map_some, hρ, shAt_of_lt (h.active p ha)]
  · rw [hρ]
    apply Array.ext
    · simp
    · intro i h1 h2
      rw [Array.getElem_map]
      exact rnObs_of_below _ _ (h.trace _ (Array.getElem_mem_toList h2))
  · apply list_map_eq_self
    intro kv hkv
    rw [hρ, rnVal_of_below _ _ (h.shared kv hkv)]
  · rw [hρ]
    apply Array.ext
    · simp
    · intro i h1 h2
      rw [Array.getElem_map]
      have hi : i < s.resources.size := h2
      have hr : s.res i = s.resources[i] := by
        unfold KState.res
        rw [Array.getD_eq_getD_getElem?, Array.getElem?_eq_getElem hi]
        rfl
      have := rnRes_of_below s.events.size (s.res i) (h.resources i)
      rw [hr] at this
      exact this

/-! ## the fuel of `Condition._build_value` -/

/-- operands are older than their condition -/
theorem condWF_of_ws (h : WS I s) : CondWF s := by
  intro N cd _ all ops hk o ho
  have := (h.events cd).kind
  rw [hk] at this
  exact this o ho

/-- a `_build_value` callback belongs to an allocated condition -/
theorem buildAlloc_of_ws (h : WS I s) : BuildAlloc s := by
  intro e cbs cd hc hm
  exact (h.events e).cbs cbs hc _ hm

theorem kreach_of_stepN (body : σ → Resume → Burst ℚ σ) (fuel : Nat) : ∀ (j : Nat) (s sj : KState ℚ σ),
    stepN body fuel j s = .ok sj → KReach body fuel s sj
  | 0, s, sj, h => by cases h; exact KReach.init
  | j + 1, s, sj, h => by
    rw [stepN_succ] at h
    cases hs : step body fuel s with
    | ok s1 =>
      rw [hs] at h
      exact kreach_trans (KReach.step KReach.init (by rw [hs]; rfl)) (kreach_of_stepN body fuel j s1 sj h)
    | stopped o s1 => rw [hs] at h; cases h
    | crash x s1 => rw [hs] at h; cases h
    | empty => rw [hs] at h; cases h

/-- **the fuel hypothesis holds along every run that names existing ids only** -/
theorem fuelAlong_of_ws (c : SplitCfg σ) (body : σ → Resume → Burst ℚ σ) (fuel : Nat) (h : WS I s)
    (hS : ScopedRun I body fuel s) : c.FuelAlong body fuel s := by
  intro j sj hj
  have hw := ws_reach body fuel s sj h hS (kreach_of_stepN body fuel j s sj hj)
  exact c.stepFuelOK_of_wf body fuel sj (condWF_of_ws hw) (buildAlloc_of_ws hw)

/-! ## the clock is irrelevant -/

theorem sb_withNow {n : Nat} (h : SB I n s) (x : ℚ) : SB I n ({ s with now := x } : KState ℚ σ) :=
  ⟨h.events, h.agenda, h.procs, h.active, h.trace, h.shared, h.resources⟩

theorem ws_withNow (h : WS I s) (x : ℚ) : WS I ({ s with now := x } : KState ℚ σ) := sb_withNow h x

theorem sortedAg_withNow (h : SortedAg s) (x : ℚ) : SortedAg ({ s with now := x } : KState ℚ σ) := ⟨h.sorted, h.below⟩

/-! ## the split-run image of a well-scoped state is well-scoped -/

theorem shAt_lt_succ (u : Nat) {i n : Nat} (h : i < n) : shAt u i < n + 1 := by
  unfold shAt
  split
  · exact Nat.lt_succ_of_lt h
  · exact Nat.succ_lt_succ h

theorem valBelow_rn (u n : Nat) (v : Val) (h : valBelow n v) : valBelow (n + 1) (rnVal (shAt u) v) := by
  cases v <;> simp only [rnVal, valBelow] at h ⊢
  case ev e => exact shAt_lt_succ u h
  case cv keys =>
    intro k hk
    obtain ⟨k0, hk0, rfl⟩ := List.mem_map.mp hk
    exact shAt_lt_succ u (h k0 hk0)
  case preempted b r res =>
    refine ⟨?_, shAt_lt_succ u h.2⟩
    intro p hp
    cases b with
    | none => cases hp
    | some p0 =>
      simp only [Option.map_some, Option.some.injEq] at hp
      subst hp
      exact shAt_lt_succ u (h.1 p0 rfl)

theorem excBelow_rn (u n : Nat) (x : Exc) (h : excBelow n x) : excBelow (n + 1) (rnExc (shAt u) x) := by
  intro v hv
  obtain ⟨v0, hv0, rfl⟩ := List.mem_map.mp hv
  exact valBelow_rn u n v0 (h v0 hv0)

theorem outBelow_rn (u n : Nat) (o : Outcome) (h : outBelow n o) : outBelow (n + 1) (rnOutcome (shAt u) o) := by
  cases o with
  | ok v => exact valBelow_rn u n v h
  | fail x => exact excBelow_rn u n x h

theorem cbBelow_rn (u n : Nat) (cb : Cb) (h : cbBelow n cb) : cbBelow (n + 1) (rnCb (shAt u) cb) := by
  cases cb <;> simp only [rnCb, cbBelow] at h ⊢ <;> exact shAt_lt_succ u h

theorem kindBelow_rn (u n i : Nat) (k : Kind) (h : kindBelow n i k) : kindBelow (n + 1) (shAt u i) (rnKind (shAt u) k) := by
  cases k <;> simp only [rnKind, kindBelow] at h ⊢
  case init p => exact shAt_lt_succ u h
  case intr p => exact shAt_lt_succ u h
  case cond all ops =>
    intro o ho
    obtain ⟨o0, ho0, rfl⟩ := List.mem_map.mp ho
    exact (shAt_lt_iff u o0 i).mpr (h o0 ho0)

theorem reqBelow_rn (u n : Nat) (rq : ReqData ℚ) (h : reqBelow n rq) : reqBelow (n + 1) (rnReq (shAt u) rq) := by
  refine ⟨?_, shAt_lt_succ u h.2⟩
  intro p hp
  simp only [rnReq_proc] at hp
  cases hq : rq.proc with
  | none => rw [hq] at hp; cases hp
  | some p0 =>
    rw [hq] at hp
    simp only [Option.map_some, Option.some.injEq] at hp
    subst hp
    exact shAt_lt_succ u (h.1 p0 hq)

theorem recBelow_rn (u n i : Nat) (r : EvRec ℚ) (h : recBelow n i r) : recBelow (n + 1) (shAt u i) (rnRec (shAt u) r) := by
  refine ⟨kindBelow_rn u n i _ h.kind, ?_, ?_, ?_⟩
  · intro l hl cb hcb
    simp only [rnRec_cbs] at hl
    cases hc : r.cbs with
    | none => rw [hc] at hl; cases hl
    | some l0 =>
      rw [hc] at hl
      simp only [Option.map_some, Option.some.injEq] at hl
      subst hl
      obtain ⟨cb0, hcb0, rfl⟩ := List.mem_map.mp hcb
      exact cbBelow_rn u n cb0 (h.cbs l0 hc cb0 hcb0)
  · intro o ho
    simp only [rnRec_out] at ho
    cases hc : r.out with
    | none => rw [hc] at ho; cases ho
    | some o0 =>
      rw [hc] at ho
      simp only [Option.map_some, Option.some.injEq] at ho
      subst ho
      exact outBelow_rn u n o0 (h.out o0 hc)
  · intro rq hrq
    simp only [rnRec_req] at hrq
    cases hc : r.req with
    | none => rw [hc] at hrq; cases hrq
    | some rq0 =>
      rw [hc] at hrq
      simp only [Option.map_some, Option.some.injEq] at hrq
      subst hrq
      exact reqBelow_rn u n rq0 (h.req rq0 hc)

theorem resumeBelow_rn (u n : Nat) (r : Resume) (h : resumeBelow n r) : resumeBelow (n + 1) (rnResume (shAt u) r) := by
  cases r with
  | start => trivial
  | value v => exact valBelow_rn u n v h
  | exc x => exact excBelow_rn u n x h

theorem obsBelow_rn (u n : Nat) (o : Obs ℚ) (h : obsBelow n o) : obsBelow (n + 1) (rnObs (shAt u) o) := by
  cases o <;> simp only [rnObs, obsBelow] at h ⊢
  case resumed p r t => exact ⟨shAt_lt_succ u h.1, resumeBelow_rn u n r h.2⟩
  case log p w v t => exact ⟨shAt_lt_succ u h.1, valBelow_rn u n v h.2⟩
  case probe tag e o t => exact ⟨shAt_lt_succ u h.1, outBelow_rn u n o h.2⟩
  case callErr p x t => exact ⟨shAt_lt_succ u h.1, excBelow_rn u n x h.2⟩
  case ended p o t => exact ⟨shAt_lt_succ u h.1, outBelow_rn u n o h.2⟩

theorem mem_map_shAt_lt (u n : Nat) (l : List EvId) (h : ∀ e ∈ l, e < n) : ∀ e ∈ l.map (shAt u), e < n + 1 := by
  intro e he
  obtain ⟨e0, he0, rfl⟩ := List.mem_map.mp he
  exact shAt_lt_succ u (h e0 he0)

theorem mem_insSent (c : SplitCfg σ) : ∀ (l : List (QEntry ℚ)) (x : QEntry ℚ), x ∈ c.insSent l →
    x = c.sentEntry ∨ ∃ y ∈ l, x = c.rnEntry y
  | [], x, h => by
    simp only [SplitCfg.insSent, List.mem_singleton] at h
    exact Or.inl h
  | y :: ys, x, h => by
    unfold SplitCfg.insSent at h
    split at h
    · rcases List.mem_cons.mp h with h | h
      · exact Or.inl h
      · obtain ⟨y0, hy0, rfl⟩ := List.mem_map.mp h
        exact Or.inr ⟨y0, hy0, rfl⟩
    · rcases List.mem_cons.mp h with h | h
      · exact Or.inr ⟨y, List.mem_cons_self, h⟩
      · rcases mem_insSent c ys x h with h | ⟨y0, hy0, rfl⟩
        · exact Or.inl h
        · exact Or.inr ⟨y0, List.mem_cons_of_mem _ hy0, rfl⟩

/-- every index of the split-run table is the sentinel's or the image of an index -/
theorem idx_T (c : SplitCfg σ) (j : Nat) : j = c.u ∨ ∃ e, c.ρ e = j := by
  by_cases hj : j = c.u
  · exact Or.inl hj
  · right
    by_cases hlt : j < c.u
    · exact ⟨j, c.ρ_lt hlt⟩
    · obtain ⟨i, hi⟩ : ∃ i : Nat, j = i + 1 := ⟨j - 1, by have := c.upos; omega⟩
      exact ⟨i, by rw [c.ρ_ge (by omega), hi]⟩

/-- **the state of the split run that corresponds to a well-scoped state is well-scoped** -/
theorem ws_T (c : SplitCfg σ) (q : Bool) (h : WS I s) (hi : c.Inv s) (hrσ : c.rσ = I.rn c.u) : WS I (c.T q s) := by
  have hsz := c.size_T q s hi
  have hρ : c.ρ = shAt c.u := rfl
  show SB I (c.T q s).events.size (c.T q s)
  rw [hsz]
  refine ⟨?_, ?_, ?_, ?_, ?_, ?_, ?_⟩
  · intro j
    rcases idx_T c j with rfl | ⟨e, rfl⟩
    · rw [c.ev_T_u q s hi]
      refine ⟨trivial, ?_, ?_, fun rq hrq => (by cases hrq)⟩
      · intro l hl cb hcb
        cases q with
        | false => simp [SplitCfg.deadRec] at hl
        | true =>
          simp only [SplitCfg.deadRec, if_true, Option.some.injEq] at hl
          subst hl
          rw [List.mem_singleton] at hcb
          subst hcb
          trivial
      · intro o ho
        simp only [SplitCfg.deadRec, Option.some.injEq] at ho
        subst ho
        trivial
    · rw [c.ev_T q s hi e, hρ]
      exact recBelow_rn c.u _ e _ (h.events e)
  · intro x hx
    have hx' : x ∈ c.agT q s.agenda := hx
    unfold SplitCfg.agT at hx'
    have hmap : ∀ y ∈ s.agenda, (c.rnEntry y).ev < s.events.size + 1 := fun y hy => shAt_lt_succ c.u (h.agenda y hy)
    cases q with
    | true =>
      simp only [if_true] at hx'
      rcases mem_insSent c _ x hx' with rfl | ⟨y, hy, rfl⟩
      · exact Nat.lt_succ_of_le hi.size
      · exact hmap y hy
    | false =>
      simp only [Bool.false_eq_true, if_false] at hx'
      obtain ⟨y, hy, rfl⟩ := List.mem_map.mp hx'
      exact hmap y hy
  · intro pr hpr
    have hpr' : pr ∈ s.procs.map (fun pr => (c.ρ pr.1, rnProc c.ρ c.rσ pr.2)) := hpr
    obtain ⟨pr0, hpr0, rfl⟩ := List.mem_map.mp hpr'
    obtain ⟨h1, h2, h3⟩ := h.procs pr0 hpr0
    refine ⟨shAt_lt_succ c.u h1, ?_, ?_⟩
    · intro t ht
      simp only [rnProc_target] at ht
      cases htg : pr0.2.target with
      | none => rw [htg] at ht; cases ht
      | some t0 =>
        rw [htg] at ht
        simp only [Option.map_some, Option.some.injEq] at ht
        subst ht
        exact shAt_lt_succ c.u (h2 t0 htg)
    · simp only [rnProc_st]
      rw [hrσ]
      exact I.below_rn h3
  · intro p hp
    have hp' : s.active.map c.ρ = some p := hp
    cases ha : s.active with
    | none => rw [ha] at hp'; cases hp'
    | some p0 =>
      rw [ha] at hp'
      simp only [Option.map_some, Option.some.injEq] at hp'
      subst hp'
      exact shAt_lt_succ c.u (h.active p0 ha)
  · intro o ho
    have ho' : o ∈ (s.trace.map (rnObs c.ρ)).toList := ho
    rw [Array.toList_map] at ho'
    obtain ⟨o0, ho0, rfl⟩ := List.mem_map.mp ho'
    exact obsBelow_rn c.u _ o0 (h.trace o0 ho0)
  · intro kv hkv
    have hkv' : kv ∈ s.shared.map (fun kv => (kv.1, rnVal c.ρ kv.2)) := hkv
    obtain ⟨kv0, hkv0, rfl⟩ := List.mem_map.mp hkv'
    exact valBelow_rn c.u _ kv0.2 (h.shared kv0 hkv0)
  · intro r
    rw [c.res_T q s r]
    exact ⟨mem_map_shAt_lt c.u _ _ (h.resources r).putQ, mem_map_shAt_lt c.u _ _ (h.resources r).getQ,
      mem_map_shAt_lt c.u _ _ (h.resources r).users⟩

/-- the agenda of the split-run image stays newest-first -/
theorem sortedAg_T_false (c : SplitCfg σ) (hs : SortedAg s) : SortedAg (c.T false s) := by
  refine ⟨?_, ?_⟩
  · show (s.agenda.map c.rnEntry).Pairwise _
    rw [List.pairwise_map]
    exact hs.sorted.imp (fun h => (c.rnEntry_eid_lt _ _).mpr h)
  · intro x hx
    have hx' : x ∈ s.agenda.map c.rnEntry := hx
    obtain ⟨y, hy, rfl⟩ := List.mem_map.mp hx'
    show (c.rnEntry y).eid < s.eid + 1
    have := hs.below y hy
    unfold SplitCfg.rnEntry
    simp only
    split <;> omega

end SplitWF
