import OnlVerif.Lemmas.TimerKFrame
import OnlVerif.Lemmas.SchedRR
import OnlVerif.Lemmas.RRKAttr
import OnlVerif.Net.RROnK
/-!
# The RR scheduler on the kernel model: canonical configurations (definitions)

`A` is an abstract description of a kernel state of the program `RROnK.prog`: where `RR.run` (and the sender process it has
spawned) and the source are suspended, which agenda entries exist, what the stores hold, the attribute cells.  `KInv s a`
says that the kernel state `s` *is* the configuration `a`: it pins down every part of `s` that `Environment.step` and the
generators can read.  `AInv` is what holds of the configurations of a run.
-/

namespace RRK
open RROnK
open TimerK (lookup)

abbrev St := RrSt ℚ
abbrev KS := KState ℚ St

/-- where `RR.run` (with the sender it waits for) is -/
inductive RPhase where
  /-- not started: its `Initialize` entry `q` is in the agenda -/
  | init (q : QEntry ℚ)
  /-- blocked in `packets_available.get()` (event `g`) -/
  | W (g : EvId)
  /-- that `get` has been served with a token: entry `q` -/
  | K (g : EvId) (q : QEntry ℚ)
  /-- `stores[flow id].get()` (event `g`, issued at table entry `i`) has been served with packet `id`: entry `q` -/
  | H (g : EvId) (i : Nat) (id : Int) (q : QEntry ℚ)
  /-- the sender process `p` of packet `id` (taken at entry `i`) has been created: its `Initialize` entry `q` -/
  | S (p : EvId) (i : Nat) (id : Int) (q : QEntry ℚ)
  /-- the sender `p` sleeps on timeout `t` (entry `q`, due at `q.time`) -/
  | T (p t : EvId) (i : Nat) (id : Int) (q : QEntry ℚ)
  /-- the sender's generator has returned: its process event `p` is triggered (entry `q`) -/
  | F (p : EvId) (i : Nat) (id : Int) (q : QEntry ℚ)

/-- where the source is -/
inductive SPhase where
  | init (q : QEntry ℚ) (arr : List (ℚ × Int))
  /-- sleeping on the timeout (entry `q`) after which it puts packet `id`; `rest` still to come -/
  | wait (id : Int) (rest : List (ℚ × Int)) (q : QEntry ℚ)
  /-- the generator has returned: the process event (entry `q`) is triggered -/
  | ending (q : QEntry ℚ)
  | done

/-- `g x := v` -/
def upd {β : Type} (g : Nat → β) (f : Nat) (v : β) : Nat → β := fun x => if x = f then v else g x

@[simp] theorem upd_same {β : Type} (g : Nat → β) (f : Nat) (v : β) : upd g f v f = v := by simp [upd]
theorem upd_ne {β : Type} (g : Nat → β) (f f' : Nat) (v : β) (h : f' ≠ f) : upd g f v f' = g f' := by simp [upd, h]
theorem upd_apply {β : Type} (g : Nat → β) (f f' : Nat) (v : β) : upd g f v f' = if f' = f then v else g f' := rfl

structure A where
  run : RPhase
  src : SPhase
  /-- the `StorePut` events that are triggered and not yet processed, with their store -/
  pend : List (QEntry ℚ × ResId)
  /-- `len(packets_available.items)` -/
  tokens : Nat
  /-- `stores[f].items` -/
  items : Nat → List Int
  /-- `queue_count[f]` -/
  cnt : Nat → Int
  /-- `queue_byte_size[f]` -/
  byt : Nat → Int
  /-- `packets_received` -/
  recv : Int
  /-- `current_packet` -/
  cur : Option Int
  /-- the keys of the dicts, in insertion order -/
  keys : List Nat

def RPhase.entries : RPhase → List (QEntry ℚ)
  | .init q => [q]
  | .W _ => []
  | .K _ q => [q]
  | .H _ _ _ q => [q]
  | .S _ _ _ q => [q]
  | .T _ _ _ _ q => [q]
  | .F _ _ _ q => [q]

def SPhase.entries : SPhase → List (QEntry ℚ)
  | .init q _ => [q]
  | .wait _ _ q => [q]
  | .ending q => [q]
  | .done => []

def pendEntries (l : List (QEntry ℚ × ResId)) : List (QEntry ℚ) := l.map (·.1)

def A.entries (a : A) : List (QEntry ℚ) := a.run.entries ++ (a.src.entries ++ pendEntries a.pend)

/-- the events a configuration talks about (pairwise different); the process event of `SP.run` is 0, of the source 2 -/
def RPhase.ids : RPhase → List EvId
  | .init _ => [0, 1]
  | .W g => [0, g]
  | .K g _ => [0, g]
  | .H g _ _ _ => [0, g]
  | .S p _ _ _ => [0, p, p + 1]
  | .T p t _ _ _ => [0, p, t]
  | .F p _ _ _ => [0, p]

def SPhase.ids : SPhase → List EvId
  | .init _ _ => [2, 3]
  | .wait _ _ q => [2, q.ev]
  | .ending _ => [2]
  | .done => []

def pendIds (l : List (QEntry ℚ × ResId)) : List EvId := l.map (·.1.ev)

def A.ids (a : A) : List EvId := a.run.ids ++ (a.src.ids ++ pendIds a.pend)

/-- the `get_queue` of the wake-up store -/
def RPhase.getQ : RPhase → List EvId
  | .W g => [g]
  | _ => []

/-- the packet `run` holds or has in transmission (taken from its store, not yet counted out) -/
def RPhase.held : RPhase → Option Int
  | .H _ _ id _ => some id
  | .S _ _ id _ => some id
  | .T _ _ _ id _ => some id
  | _ => none

/-- kind, callbacks and outcome of a live event -/
def EvIs (s : KS) (e : EvId) (k : Kind) (cbs : List Cb) (out : Option Outcome) : Prop :=
  (s.ev e).kind = k ∧ (s.ev e).cbs = some cbs ∧ (s.ev e).out = out

/-- the record of an unbounded `Store` -/
def storeRec (getQ : List EvId) (items : List Int) : ResRec :=
  { kind := .store, capacity := none, getQ := getQ, items := items }

/-! ## the kernel side of a configuration -/

variable (flow : Int → Nat)

def RunEv (s : KS) : RPhase → Prop
  | .init q => q.ev = 1 ∧ EvIs s 1 (.init 0) [.resume 0] (some (.ok .none)) ∧
      s.proc? 0 = some { st := .runStart, target := some 1 } ∧ EvIs s 0 .proc [] none
  | .W g => EvIs s g (.get 0) [.trigPut 0, .resume 0] none ∧
      s.proc? 0 = some { st := .runTok, target := some g } ∧ EvIs s 0 .proc [] none
  | .K g q => q.ev = g ∧ EvIs s g (.get 0) [.trigPut 0, .resume 0] (some (.ok (.int 1))) ∧
      s.proc? 0 = some { st := .runTok, target := some g } ∧ EvIs s 0 .proc [] none
  | .H g i id q => q.ev = g ∧
      EvIs s g (.get (flowStore (flow id))) [.trigPut (flowStore (flow id)), .resume 0] (some (.ok (.int id))) ∧
      s.proc? 0 = some { st := .runGet i, target := some g } ∧ EvIs s 0 .proc [] none
  | .S p i id q => q.ev = p + 1 ∧ EvIs s (p + 1) (.init p) [.resume p] (some (.ok .none)) ∧
      s.proc? p = some { st := .sendStart id, target := some (p + 1) } ∧ EvIs s p .proc [.resume 0] none ∧
      s.proc? 0 = some { st := .runSend id i, target := some p } ∧ EvIs s 0 .proc [] none
  | .T p t i id q => q.ev = t ∧ EvIs s t .timeout [.resume p] (some (.ok .none)) ∧
      s.proc? p = some { st := .sendTx id, target := some t } ∧ EvIs s p .proc [.resume 0] none ∧
      s.proc? 0 = some { st := .runSend id i, target := some p } ∧ EvIs s 0 .proc [] none
  | .F p i id q => q.ev = p ∧ EvIs s p .proc [.resume 0] (some (.ok .none)) ∧
      s.proc? 0 = some { st := .runSend id i, target := some p } ∧ EvIs s 0 .proc [] none

def SrcEv (s : KS) : SPhase → Prop
  | .init q arr => q.ev = 3 ∧ EvIs s 3 (.init 2) [.resume 2] (some (.ok .none)) ∧
      s.proc? 2 = some { st := .src none arr, target := some 3 } ∧ EvIs s 2 .proc [] none
  | .wait id rest q => EvIs s q.ev .timeout [.resume 2] (some (.ok .none)) ∧
      s.proc? 2 = some { st := .src (some id) rest, target := some q.ev } ∧ EvIs s 2 .proc [] none
  | .ending q => q.ev = 2 ∧ EvIs s 2 .proc [] (some (.ok .none))
  | .done => True

/-- the value of the `current_packet` cell -/
def curVal : Option Int → Val
  | some id => .int id
  | none => .none

/-- the kernel state `s` has the configuration `a` -/
structure KInv (F : Nat) (s : KS) (a : A) : Prop where
  wf : AgendaWF s
  ag : s.agenda.Perm a.entries
  rsz : s.resources.size = F + 1
  tok : s.res 0 = storeRec a.run.getQ (List.replicate a.tokens 1)
  st : ∀ f, f < F → s.res (flowStore f) = storeRec [] (a.items f)
  run : RunEv flow s a.run
  src : SrcEv s a.src
  pend : ∀ u ∈ a.pend, EvIs s u.1.ev (.put u.2) [.trigGet u.2] (some (.ok .none)) ∧ u.2 < F + 1
  nd : a.ids.Nodup
  c0 : lookup s.shared cRecv = .int a.recv
  c1 : lookup s.shared cCur = curVal a.cur
  cc : ∀ f, f < F → lookup s.shared (cCount f) = .int (a.cnt f)
  cb : ∀ f, f < F → lookup s.shared (cBytes f) = .int (a.byt f)
  /-- `stores` has the key `f` iff a packet of flow `f` has been put -/
  ch : ∀ f, f < F → lookup s.shared (cHas f) = .int (if f ∈ a.keys then 1 else 0)

/-! ## the abstract side -/

/-- `sum(queue_count.values())` over flows `f, …, f + n - 1` -/
def sumFrom (c : Nat → Int) : Nat → Nat → Int
  | _, 0 => 0
  | f, n + 1 => c f + sumFrom c (f + 1) n

/-- `total_packets` of a configuration -/
def A.total (F : Nat) (a : A) : Int := sumFrom a.cnt 0 F

/-- the `for` loop of `RR.run` from entry `i` on (`fl` = the entries still to look at): the first backlogged entry -/
def firstHit (c : Nat → Int) : Nat → List Nat → Option (Nat × Nat)
  | _, [] => none
  | i, f :: rest => if 0 < c f then some (i, f) else firstHit c (i + 1) rest

/-- how a burst of `RR.run` that starts its `for` loop at entry `i` ends -/
inductive LoopEnd where
  /-- it takes the head packet of `stores[f]` at entry `j` -/
  | hit (j f : Nat)
  /-- `total_packets == 0`: it waits for the wake-up token -/
  | idle
  /-- a whole pass serves nothing although `total_packets != 0`: it would spin for ever -/
  | hang
deriving DecidableEq

/-- what a burst of `run` that resumes its `for` loop at entry `i` does: the rest of this pass; if that serves nothing and
packets are left, the next pass from the top -/
def A.loop (F : Nat) (a : A) (flows : List Nat) (i : Nat) : LoopEnd :=
  match firstHit a.cnt i (flows.drop i) with
  | some (j, f) => .hit j f
  | none =>
    if a.total F = 0 then .idle else
    match firstHit a.cnt 0 flows with
    | some (j, f) => .hit j f
    | none => .hang

variable (F : Nat) (size : Int → Nat) (cfg : RR.Cfg ℚ)

/-- a packet of the workload: its flow is one of the `F` flows -/
def PktOK (id : Int) : Prop := flow id < F

/-- gaps are not negative, packets belong to the `F` flows -/
def WorkOK (l : List (ℚ × Int)) : Prop := ∀ x ∈ l, 0 ≤ x.1 ∧ PktOK flow F x.2

/-- `flows` declares exactly the flows `0 … F-1`, each once, in any order -/
def FlowsOK : Prop := cfg.flows.Perm (List.range F)

def RunA (a : A) (now : ℚ) : RPhase → Prop
  | .init q => q.time = now ∧ q.prio = URGENT ∧ a.tokens = 0 ∧ a.pend = [] ∧ (∀ f, a.items f = []) ∧ (∀ f, a.cnt f = 0) ∧
      a.cur = none ∧ a.recv = 0
  | .W _ => (a.tokens = 0 → ∀ f, f < F → a.items f = []) ∧ (a.tokens ≠ 0 → ∃ u, (u, 0) ∈ a.pend) ∧ a.cur = none
  | .K _ q => q.time = now ∧ q.prio = NORMAL ∧ a.cur = none
  | .H _ i id q => q.time = now ∧ q.prio = NORMAL ∧ a.cur = none ∧ flow id < F ∧ cfg.flows[i]? = some (flow id)
  | .S _ _ id q => q.time = now ∧ q.prio = URGENT ∧ a.cur = none ∧ flow id < F
  | .T _ _ _ id q => q.prio = NORMAL ∧ a.cur = some id ∧ flow id < F
  | .F _ _ _ q => q.time = now ∧ q.prio = NORMAL ∧ a.cur = none

def SrcA (now : ℚ) : SPhase → Prop
  | .init q arr => q.time = now ∧ q.prio = URGENT ∧ WorkOK flow F arr
  | .wait id rest q => q.prio = NORMAL ∧ PktOK flow F id ∧ WorkOK flow F rest
  | .ending q => q.time = now ∧ q.prio = NORMAL
  | .done => True

/-- the number of packets of flow `f` the server holds (taken from the store, not yet counted out) -/
def heldCnt (a : A) (f : Nat) : Int :=
  match a.run.held with
  | some id => if flow id = f then 1 else 0
  | none => 0

/-- what holds of a configuration at instant `now` -/
structure AInv (a : A) (now : ℚ) : Prop where
  run : RunA flow F cfg a now a.run
  src : SrcA flow F now a.src
  pend : ∀ u ∈ a.pend, u.1.time = now ∧ u.1.prio = NORMAL
  due : ∀ x ∈ a.entries, now ≤ x.time
  /-- the counters are exact -/
  cntOK : ∀ f, f < F → a.cnt f = ((a.items f).length : Nat) + heldCnt flow a f
  /-- the packets in `stores[f]` are packets of flow `f` -/
  flowOK : ∀ f, f < F → ∀ i ∈ a.items f, flow i = f
  /-- the dict keys are flows; a flow that is not a key yet has empty records -/
  keysOK : (∀ f ∈ a.keys, f < F) ∧ ∀ f, f < F → f ∉ a.keys → a.items f = [] ∧ a.cnt f = 0 ∧ a.byt f = 0
  table : FlowsOK F cfg
  rate : 0 < cfg.rate

/-- number of kernel steps a configuration still needs (an upper bound) -/
def RPhase.mu : RPhase → Nat
  | .init _ => 1
  | .W _ => 0
  | .K _ _ => 1
  | .H _ _ _ _ => 4
  | .S _ _ _ _ => 3
  | .T _ _ _ _ _ => 2
  | .F _ _ _ _ => 1

def SPhase.mu : SPhase → Nat
  | .init _ arr => 10 * arr.length + 2
  | .wait _ rest _ => 10 * rest.length + 11
  | .ending _ => 1
  | .done => 0

/-- the packets waiting in the stores of flows `f, …, f + n - 1` -/
def waitingFrom (items : Nat → List Int) : Nat → Nat → Nat
  | _, 0 => 0
  | f, n + 1 => (items f).length + waitingFrom items (f + 1) n

def A.mu (F : Nat) (a : A) : Nat := a.run.mu + a.src.mu + a.pend.length + 2 * a.tokens + 4 * waitingFrom a.items 0 F

end RRK
