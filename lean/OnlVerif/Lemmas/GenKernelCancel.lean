import OnlVerif.Lemmas.GenKernelDefs
import OnlVerif.Lemmas.KAccess
import OnlVerif.Generated.KernelCancel
/-!
# Bridge lemmas (C06 and C07): generated `Put.cancel` / `Get.cancel` (`Generated/KernelCancel.lean`) = `cancelReq` of model `K`
-/

namespace GenKernel
variable {τ σ : Type} [Num τ]

/-- `Put.cancel()` -/
def runPutCancel (cx : Cx) (s : KState τ σ) : Option (KState τ σ) :=
  runEff cx (Gen.Put.cancel reqObj (s.triggered cx.e)).eff s

/-- `Get.cancel()` -/
def runGetCancel (cx : Cx) (s : KState τ σ) : Option (KState τ σ) :=
  runEff cx (Gen.Get.cancel reqObj (s.triggered cx.e)).eff s

theorem put_cancel_run (s : KState τ σ) (e : EvId) (r : ResId) (hk : (s.ev e).kind = .put r)
    (hq : s.triggered e = false → (s.res r).putQ.contains e = true) :
    runPutCancel { r := r, e := e } s = some (cancelReq s e).1 ∧ (cancelReq s e).2 = none := by
  unfold cancelReq runPutCancel Gen.Put.cancel
  by_cases ht : s.triggered e = true
  · simp [ht, runEff, reqObj]
  · have ht' : s.triggered e = false := by simpa using ht
    have hm := hq ht'
    simp only [List.contains_iff_mem] at hm
    simp [ht', hk, hm, runEff, applyEff, reqObj]

theorem get_cancel_run (s : KState τ σ) (e : EvId) (r : ResId) (hk : (s.ev e).kind = .get r)
    (hq : s.triggered e = false → (s.res r).getQ.contains e = true) :
    runGetCancel { r := r, e := e } s = some (cancelReq s e).1 ∧ (cancelReq s e).2 = none := by
  unfold cancelReq runGetCancel Gen.Get.cancel
  by_cases ht : s.triggered e = true
  · simp [ht, runEff, reqObj]
  · have ht' : s.triggered e = false := by simpa using ht
    have hm := hq ht'
    simp only [List.contains_iff_mem] at hm
    simp [ht', hk, hm, runEff, applyEff, reqObj]

end GenKernel
