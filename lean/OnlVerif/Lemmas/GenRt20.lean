import OnlVerif.Generated.Rt20
import OnlVerif.Util.Rt
/-!
# Bridge lemmas: `Generated/Rt20.lean` (py2lean's translation of `onl/sim/rt.py`) against the model `Util/Rt.lean`

Everything here is polymorphic in the scalar (`[Num α]`): the generated definitions and the model perform the same operations in
the same order, no arithmetic identity is used, so the equalities hold at `Float` (the driver) as well as at `ℚ` (the theorems).
-/

namespace GenRt20
open Rt
variable {α κ ρ : Type} [Num α]

/-- a model state as the Python object (`_factor`, `_strict` are the attributes behind the properties `factor`, `strict`) -/
def rtObj (s : RtState α κ) : Gen.RtObj α :=
  { env_start := s.envStart, real_start := s.realStart, _factor := s.factor, _strict := s.strict }

/-- the outcome of the translated `step` read as an outcome of the model's `rtStep` on kernel state `k`: exception 6
(`EmptySchedule`) without a value, exception 5 (`RuntimeError`) with the formatted `delta`, the delegation = `Environment.step`
runs on the untouched kernel state; `step` never returns without delegating and raises nothing else (`none`) -/
def toModel (kstep : κ → ρ) (k : κ) : Gen.RtRes α → Option (RtResult α ρ)
  | .starved => some .starved
  | .raised exc _ => if exc = 6 then some .emptySchedule else none
  | .raisedWith exc d rest => if exc = 5 then some (.tooSlow d rest) else none
  | .delegated sleeps last rest => some (.stepped (kstep k) sleeps last rest)
  | .returned _ _ => none

/-- the translated sleep loop (with the delegation that follows it) is the model's `sleepLoop` followed by the kernel step -/
theorem loop_eq (kstep : κ → ρ) (k : κ) (o : Gen.RtObj α) (due : α) :
    ∀ (clock acc : List α), toModel kstep k (Gen.RealtimeEnvironment.step_loop1 o due clock acc) =
      some (match sleepLoop due clock acc with
            | .done sleeps last rest => .stepped (kstep k) sleeps last rest
            | .starved _ => .starved)
  | [], acc => by simp only [Gen.RealtimeEnvironment.step_loop1, sleepLoop, toModel]
  | c :: cs, acc => by
    rw [Gen.RealtimeEnvironment.step_loop1, sleepLoop]
    by_cases h : due - c ≤ (Num.ofNat 0 : α)
    · simp only [h, if_true, toModel]
    · simp only [h, if_false]
      exact loop_eq kstep k o due cs (acc ++ [due - c])

theorem step_eq (peek : κ → Option α) (kstep : κ → ρ) (s : RtState α κ) (clock : List α) :
    toModel kstep s.k (Gen.RealtimeEnvironment.step (rtObj s) (peek s.k) clock) = some (rtStep peek kstep s clock) := by
  obtain ⟨rs, es, f, st, k⟩ := s
  unfold Gen.RealtimeEnvironment.step rtStep
  cases peek k with
  | none => simp only [toModel, if_true]
  | some t =>
    cases st with
    | false =>
      simp only [strictPhase, sleepThenStep, rtObj, dueTime, Bool.false_eq_true, if_false]
      exact loop_eq kstep k _ _ clock []
    | true =>
      simp only [strictPhase, sleepThenStep, rtObj, dueTime, if_true]
      cases clock with
      | nil => simp only [toModel]
      | cons c1 cs =>
        simp only
        by_cases h : f < c1 - (rs + (t - es) * f)
        · simp only [h, if_true]
          cases cs with
          | nil => simp only [toModel]
          | cons c2 rest => simp only [toModel, if_true]
        · simp only [h, if_false]
          exact loop_eq kstep k _ _ cs []

theorem sync_eq (s : RtState α κ) (clock : List α) :
    Gen.RealtimeEnvironment.sync (rtObj s) clock =
      match clock with
      | [] => .starved
      | c :: rest => .returned (rtObj (Rt.sync s c)) rest := by
  cases clock <;> rfl

theorem init_eq (o : Gen.RtObj α) (initialTime factor : α) (strict : Bool) (k : κ) (clock : List α) :
    Gen.RealtimeEnvironment.init o initialTime factor strict clock =
      match clock with
      | [] => .starved
      | c :: rest => .returned (rtObj (Rt.create initialTime factor strict c k)) rest := by
  cases clock <;> rfl

end GenRt20
