import Mathlib.Tactic.SplitIfs
import OnlVerif.Lemmas.GenScalar
import OnlVerif.Net.TokenBucket
import OnlVerif.Net.TwoRate
import OnlVerif.Generated.Bucket
/-!
# Bridge between the *generated* token-bucket code and the hand-written models (`Net/TokenBucket.lean`, `Net/TwoRate.lean`)

`Generated/Bucket.lean` is rewritten from `onl/netdev/token_bucket.py` and `two_level_token_bucket.py` on every `./check C11`:
`put`, and one round of the server generator `run` split at its `yield env.timeout(…)` statements (`run_resume`: from the
`get` to the first yield or to the end of the round; `run_after_i`: from the resumption after yield `i` on).  The model has
the same bursts as `onResume` / `onFire` / `onDone` returning `(state, packet, Next)`.  `GenBucket.tbObj` encodes a model
state as the Python object (an `out` is attached, nothing raised), `GenBucket.tbAfter` encodes the result of a burst:
`.wait dt` ↦ suspended in the yield with `yield_dt = dt`, `.emit` ↦ round complete after `onDone`, one more `out.put`.
The model's ghost fields (`log`, `outLog`) have no counterpart in the object.  Over exact rationals.
-/

namespace GenBucket
open TokenBucket

/-- the `TokenBucket` object for model configuration `c` and state `d`, with `out` attached and nothing raised -/
def tbObj (c : TbCfg ℚ) (d : TbSt ℚ) (puts outs ya : Nat) (ydt : ℚ) : Gen.TbObj ℚ :=
  { rate := c.rate, bucket_size := c.bucket, peak := c.peak, out := true, current_bucket := d.level,
    update_time := d.upd, packets_received := d.received, packets_sent := d.sent,
    eff_store_put := puts, eff_out_put := outs, raised := 0, yield_at := ya, yield_dt := ydt }

/-- what a burst of the model's server (`onResume` / `onFire`) leaves, as the Python object: sleeping in the token wait
(yield 1) or the peak-rate wait (yield 2), or the round complete with the packet forwarded -/
def tbAfter (c : TbCfg ℚ) (r : TbSt ℚ × Pkt ℚ × Next ℚ) (puts outs : Nat) : Option (Gen.TbObj ℚ) :=
  match r.2.2 with
  | .wait dt => some (tbObj c r.1 puts outs (if r.1.tokWait then 1 else 2) dt)
  | .emit => some (tbObj c (TokenBucket.onDone r.1 r.2.1) puts (outs + 1) 0 0)
  | _ => none

theorem tb_put_eq (c : TbCfg ℚ) (d : TbSt ℚ) (puts outs ya : Nat) (ydt now : ℚ) (w : Nat) (p : Pkt ℚ) :
    Gen.TokenBucket.put (tbObj c d puts outs ya ydt) = tbObj c (TokenBucket.admitPkt d now w p).1 (puts + 1) outs ya ydt := by
  unfold Gen.TokenBucket.put TokenBucket.admitPkt tbObj
  simp

theorem tb_resume_eq (c : TbCfg ℚ) (d : TbSt ℚ) (puts outs ya : Nat) (ydt now x y : ℚ) (p : Pkt ℚ) (hw : d.tokWait = false) :
    some (Gen.TokenBucket.run_resume (tbObj c d puts outs ya ydt) now p.size) =
      tbAfter c (TokenBucket.onResume c d now x y p) puts outs := by
  unfold Gen.TokenBucket.run_resume TokenBucket.onResume tbAfter
  unfold TokenBucket.afterDebit TokenBucket.peakOn TokenBucket.refill TokenBucket.startWait TokenBucket.debitNow
    TokenBucket.refillLevel TokenBucket.tokenWait TokenBucket.peakWait TokenBucket.logOut TokenBucket.onDone tbObj
  simp only [Num.ofInt_rat, Num.ofNat_rat', Int.cast_natCast, Nat.cast_ofNat, Nat.cast_zero]
  cases hp : Num.optOn c.peak <;> (split <;> simp [hw])

/-- after the token wait (`yield` 1): the level is zeroed, then the peak-rate spacing or the forwarding -/
theorem tb_after_token_wait_eq (c : TbCfg ℚ) (d : TbSt ℚ) (puts outs ya : Nat) (ydt now : ℚ) (k : Nat) (p : Pkt ℚ)
    (hw : d.tokWait = true) :
    some (Gen.TokenBucket.run_after_1 (tbObj c d puts outs ya ydt) now p.size) =
      tbAfter c (TokenBucket.onFire c d now k p) puts outs := by
  unfold Gen.TokenBucket.run_after_1 TokenBucket.onFire tbAfter
  unfold TokenBucket.afterDebit TokenBucket.peakOn TokenBucket.debitAfterWait TokenBucket.peakWait TokenBucket.logOut
    TokenBucket.onDone tbObj
  simp only [Num.ofInt_rat, Num.ofNat_rat', Int.cast_natCast, Nat.cast_ofNat, Nat.cast_zero, Num.zero]
  cases hp : Num.optOn c.peak <;> simp [hw]

/-- after the peak-rate wait (`yield` 2): the packet is forwarded -/
theorem tb_after_peak_wait_eq (c : TbCfg ℚ) (d : TbSt ℚ) (puts outs ya : Nat) (ydt now : ℚ) (k : Nat) (p : Pkt ℚ)
    (hw : d.tokWait = false) :
    some (Gen.TokenBucket.run_after_2 (tbObj c d puts outs ya ydt) now p.size) =
      tbAfter c (TokenBucket.onFire c d now k p) puts outs := by
  unfold Gen.TokenBucket.run_after_2 TokenBucket.onFire tbAfter TokenBucket.logOut TokenBucket.onDone tbObj
  simp [hw]

/-! ### TwoRateTokenBucket -/

/-- the `TwoRateTokenBucket` object for model configuration `c` and state `d`: `out` attached; `col` = the colour last
written to `packet.color`, `paints` the number of such writes; `raised`, `yield_at`, `yield_dt` as given -/
def trObj (c : TrCfg ℚ) (d : TrSt ℚ) (puts outs paints : Nat) (col : Int) (raised ya : Nat) (ydt : ℚ) : Gen.TrObj ℚ :=
  { cir := c.cir, cbs := c.cbs, pir := c.pir, pbs := c.pbs, out := true, current_bucket_commit := d.commit,
    current_bucket_peak := d.peak, update_time := d.upd, packets_received := d.received, packets_sent := d.sent,
    color := col, eff_store_put := puts, eff_out_put := outs, eff_paint := paints, raised := raised, yield_at := ya,
    yield_dt := ydt }

/-- Python exception ↦ the code the generated `raised` field carries -/
def raisedCode (m : String) : Nat :=
  if m = "AssertionError" then 1 else if m = "ValueError" then 2 else if m = "TypeError" then 3 else 0

/-- the object `g` is what a burst of the model's server leaves: sleeping (in yield 1 with PIR, yield 2 without) with the
model's state and timeout; or the round complete after `onDone`, the packet painted with the model's colour and forwarded;
or the round ended by the exception the model names -/
def TrAgrees (c : TrCfg ℚ) (g : Gen.TrObj ℚ) (r : TrSt ℚ × Pkt ℚ × Next ℚ) (puts outs paints : Nat) (col : Int) : Prop :=
  match r.2.2 with
  | .wait dt => g = trObj c r.1 puts outs paints col 0 (if (TwoRate.pirOn c).isSome then 1 else 2) dt
  | .emit => g = trObj c (TwoRate.onDone r.1 r.2.1) puts (outs + 1) (paints + 1) r.2.1.color 0 0 0
  | .fail m => g.raised = raisedCode m ∧ raisedCode m ≠ 0 ∧ g.yield_at = 0 ∧ g.eff_out_put = outs
  | .lose => False

theorem tr_put_eq (c : TrCfg ℚ) (d : TrSt ℚ) (puts outs paints : Nat) (col : Int) (ra ya : Nat) (ydt now : ℚ) (w : Nat)
    (p : Pkt ℚ) :
    Gen.TwoRateTokenBucket.put (trObj c d puts outs paints col ra ya ydt) =
      trObj c (TwoRate.admitPkt d now w p).1 (puts + 1) outs paints col ra ya ydt := by
  unfold Gen.TwoRateTokenBucket.put TwoRate.admitPkt trObj
  simp

theorem tr_resume_agrees (c : TrCfg ℚ) (d : TrSt ℚ) (puts outs paints : Nat) (col : Int) (ya : Nat) (ydt now x y : ℚ)
    (p : Pkt ℚ) :
    TrAgrees c (Gen.TwoRateTokenBucket.run_resume (trObj c d puts outs paints col 0 ya ydt) now p.size)
      (TwoRate.onResume c d now x y p) puts outs paints col := by
  unfold TrAgrees Gen.TwoRateTokenBucket.run_resume TwoRate.onResume
  unfold TwoRate.pirOn TwoRate.pbsOn
  cases hpir : Num.optOn c.pir with
  | none =>
    simp only [trObj, hpir]
    unfold TwoRate.resumeCir TwoRate.refillLevel TwoRate.tokenWait TwoRate.setLevels TwoRate.payCommit TwoRate.logDebit
      TwoRate.paint TwoRate.onDone TwoRate.green
    simp only [Num.ofInt_rat, Num.ofNat_rat', Int.cast_natCast, Nat.cast_ofNat, Nat.cast_zero, Num.zero]
    split_ifs <;> simp_all [TwoRate.setLevels]
  | some k =>
    cases hpbs : Num.optOn c.pbs with
    | none => simp [trObj, hpir, hpbs, raisedCode]
    | some b =>
      cases hpk : d.peak with
      | none => simp [trObj, hpir, hpbs, hpk, raisedCode]
      | some pl =>
        simp only [trObj, hpir, hpbs, hpk]
        unfold TwoRate.resumePir TwoRate.refillLevel TwoRate.tokenWait TwoRate.setLevels TwoRate.payPeak TwoRate.payBoth
          TwoRate.logDebit TwoRate.paint TwoRate.onDone TwoRate.green TwoRate.yellow
        simp only [Num.ofInt_rat, Num.ofNat_rat', Int.cast_natCast, Nat.cast_ofNat, Nat.cast_zero, Num.zero]
        split_ifs <;> simp_all [TwoRate.setLevels]

/-- after the wait with PIR (`yield` 1): peak bucket emptied, red -/
theorem tr_after_pir_wait_agrees (c : TrCfg ℚ) (d : TrSt ℚ) (puts outs paints : Nat) (col : Int) (ya : Nat) (ydt now : ℚ)
    (n : Nat) (p : Pkt ℚ) (h : (TwoRate.pirOn c).isSome) :
    TrAgrees c (Gen.TwoRateTokenBucket.run_after_1 (trObj c d puts outs paints col 0 ya ydt) now p.size)
      (TwoRate.onFire c d now n p) puts outs paints col := by
  unfold TrAgrees Gen.TwoRateTokenBucket.run_after_1 TwoRate.onFire
  cases hpir : TwoRate.pirOn c with
  | none => simp [hpir] at h
  | some k =>
    simp only [trObj]
    unfold TwoRate.fireRed TwoRate.logDebit TwoRate.paint TwoRate.onDone TwoRate.red
    simp [Num.zero]

/-- after the wait without PIR (`yield` 2): committed bucket emptied, yellow -/
theorem tr_after_cir_wait_agrees (c : TrCfg ℚ) (d : TrSt ℚ) (puts outs paints : Nat) (col : Int) (ya : Nat) (ydt now : ℚ)
    (n : Nat) (p : Pkt ℚ) (h : TwoRate.pirOn c = none) :
    TrAgrees c (Gen.TwoRateTokenBucket.run_after_2 (trObj c d puts outs paints col 0 ya ydt) now p.size)
      (TwoRate.onFire c d now n p) puts outs paints col := by
  unfold TrAgrees Gen.TwoRateTokenBucket.run_after_2 TwoRate.onFire
  simp only [h, trObj]
  unfold TwoRate.fireYellow TwoRate.logDebit TwoRate.paint TwoRate.onDone TwoRate.yellow
  simp [Num.zero]

end GenBucket
