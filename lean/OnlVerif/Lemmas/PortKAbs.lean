import OnlVerif.Lemmas.PortKDefs
/-!
# The Port on the kernel model: configurations are well-behaved (no kernel terms here)

One kernel step seen on configurations (`AStep`) keeps the abstract invariant `AInv` (in particular the prediction
`departed so far ++ still to come = the departure recurrence`), needs exactly one unit of the step budget, and is a
(possibly empty) sequence of transitions the FifoServer LTS of the port accepts.
-/

set_option linter.unusedSimpArgs false

namespace PortK
open PortOnK QEntry

variable (size : Int → Nat) (rate : ℚ)

/-! ## transmission delays and the recurrence -/

theorem tx_nonneg (id : Int) : 0 ≤ tx size rate id := by
  unfold tx txDelay
  rw [zero_eq']
  split
  · rename_i h
    unfold txTime
    rw [Num.ofNat_rat]
    exact div_nonneg (Nat.cast_nonneg _) (le_of_lt h)
  · exact le_refl _

theorem tx_eq_txTime (hr : 0 < rate) (id : Int) : tx size rate id = txTime size rate id := by
  unfold tx txDelay
  rw [zero_eq', if_pos hr]

theorem serve_append (f : ℚ) (is : List Int) (i : Int) :
    serve size rate f (is ++ [i]) = serve size rate f is ++ [(i, serveEnd size rate f is + tx size rate i)] := by
  induction is generalizing f with
  | nil => simp [serve, serveEnd]
  | cons j js ih => simp [serve, serveEnd, ih]

theorem serveEnd_append (f : ℚ) (is : List Int) (i : Int) :
    serveEnd size rate f (is ++ [i]) = serveEnd size rate f is + tx size rate i := by
  induction is generalizing f with
  | nil => simp [serveEnd]
  | cons j js ih => simp [serveEnd, ih]

theorem le_serveEnd (f : ℚ) (is : List Int) : f ≤ serveEnd size rate f is := by
  induction is generalizing f with
  | nil => exact le_refl _
  | cons j js ih =>
    simp only [serveEnd]
    have := tx_nonneg size rate j
    exact le_trans (by linarith) (ih _)

/-- the next arrival (at `t`, the loop instant) finds the server busy until `e ≥ t`: it leaves at `e + tx` -/
theorem departures_busy (e t : ℚ) (id : Int) (rest : List (ℚ × Int)) (h : t ≤ e) :
    departures size rate (some e) t ((0, id) :: rest) =
      (id, e + tx size rate id) :: departures size rate (some (e + tx size rate id)) t rest := by
  simp only [departures, add_zero, Num.pymax_eq, max_eq_right h, tx]

/-- the next arrival finds the server idle since `l ≤ t`: it leaves at `t + tx` -/
theorem departures_idle (l : Option ℚ) (t : ℚ) (id : Int) (rest : List (ℚ × Int)) (h : ∀ d, l = some d → d ≤ t) :
    departures size rate l t ((0, id) :: rest) =
      (id, t + tx size rate id) :: departures size rate (some (t + tx size rate id)) t rest := by
  cases l with
  | none => simp only [departures, add_zero, tx]
  | some d => simp only [departures, add_zero, Num.pymax_eq, max_eq_left (h d rfl), tx]

/-- sleeping `gap` first = being at `t + gap` with no gap left -/
theorem departures_shift (p : Option ℚ) (t gap : ℚ) (id : Int) (rest : List (ℚ × Int)) :
    departures size rate p t ((gap, id) :: rest) = departures size rate p (t + gap) ((0, id) :: rest) := by
  simp only [departures, add_zero]

/-! ## agenda entries of a configuration -/

variable {size rate} {ql : Option Int}

theorem mem_port {a : A} {x : QEntry ℚ} (h : x ∈ a.port.entries) : x ∈ a.entries := by
  simp [A.entries, h]

theorem mem_src {a : A} {x : QEntry ℚ} (h : x ∈ a.src.entries) : x ∈ a.entries := by
  simp [A.entries, h]

theorem mem_pend {a : A} {x : QEntry ℚ} (h : a.pend = some x) : x ∈ a.entries := by
  simp [A.entries, h]

/-- an entry due now with a smaller priority number or an older `eid` goes first -/
theorem keyLt_of_now {x q : QEntry ℚ} {now : ℚ} (hx : x.time = now) (hq : now ≤ q.time)
    (h : now < q.time ∨ x.prio < q.prio ∨ (x.prio = q.prio ∧ x.eid < q.eid)) : KeyLt x q := by
  unfold KeyLt
  rcases lt_or_eq_of_le hq with h1 | h1
  · exact Or.inl (hx ▸ h1)
  · rcases h with h | h | h
    · exact Or.inl (hx ▸ h)
    · exact Or.inr ⟨hx.trans h1, Or.inl h⟩
    · exact Or.inr ⟨hx.trans h1, Or.inr h⟩

/-- `q` is a minimal entry of the configuration: what `popMin` returns -/
def IsMin (a : A) (q : QEntry ℚ) : Prop := q ∈ a.entries ∧ ∀ x ∈ a.entries, ¬ KeyLt x q

variable {arrivals : List (ℚ × Int)} {a : A} {now : ℚ} {outs : List (Int × ℚ)} {q : QEntry ℚ}

theorem AInv.now_le (hi : AInv size rate ql arrivals a now outs) (hq : IsMin a q) : now ≤ q.time := hi.due q hq.1

/-- an entry due now forces the minimal entry to be due now -/
theorem AInv.time_eq (hi : AInv size rate ql arrivals a now outs) (hq : IsMin a q) {x : QEntry ℚ} (hx : x ∈ a.entries)
    (hxt : x.time = now) : q.time = now :=
  le_antisymm (hxt ▸ not_keyLt_time (hq.2 x hx)) (hi.due q hq.1)

/-- an entry due now precedes a minimal entry with a larger priority number: impossible -/
theorem AInv.not_prio_lt (hi : AInv size rate ql arrivals a now outs) (hq : IsMin a q) {x : QEntry ℚ} (hx : x ∈ a.entries)
    (hxt : x.time = now) (hp : x.prio < q.prio) : False :=
  hq.2 x hx (keyLt_of_now hxt (hi.now_le hq) (Or.inr (Or.inl hp)))

theorem AInv.not_eid_lt (hi : AInv size rate ql arrivals a now outs) (hq : IsMin a q) {x : QEntry ℚ} (hx : x ∈ a.entries)
    (hxt : x.time = now) (hp : x.prio = q.prio) (he : x.eid < q.eid) : False :=
  hq.2 x hx (keyLt_of_now hxt (hi.now_le hq) (Or.inr (Or.inr ⟨hp, he⟩)))

/-- the loop instant and the arrivals of the source do not depend on `now` once the clock can advance -/
theorem todo_advance (hi : AInv size rate ql arrivals a now outs) (hq : IsMin a q) (p : Option ℚ) :
    departures size rate p (a.src.todo q.time).1 (a.src.todo q.time).2 =
      departures size rate p (a.src.todo now).1 (a.src.todo now).2 := by
  have hs := hi.src
  cases hsrc : a.src with
  | init q0 arr =>
    rw [hsrc] at hs
    have : q.time = now := hi.time_eq hq (mem_src (by simp [hsrc, SPhase.entries])) hs.1
    rw [this]
  | wait id rest q0 => rfl
  | ending q0 => simp [SPhase.todo, departures]
  | done => simp [SPhase.todo, departures]

/-- **letting the clock advance to the next entry changes nothing else** -/
theorem AInv.advance (hi : AInv size rate ql arrivals a now outs) (hq : IsMin a q) :
    AInv size rate ql arrivals a q.time outs := by
  rcases eq_or_lt_of_le (hi.now_le hq) with h | h
  · rw [← h]; exact hi
  have hne : ∀ x ∈ a.entries, x.time ≠ now := fun x hx hxt => absurd (hi.time_eq hq hx hxt) (ne_of_gt h)
  refine ⟨?_, ?_, ?_, hi.idle, ?_, ?_, ?_, hi.puts, hi.nput, hi.nacc, hi.accnone⟩
  · have hp := hi.port
    cases hport : a.port with
    | init q0 => rw [hport] at hp; exact absurd hp.1 (hne q0 (mem_port (by simp [hport, PPhase.entries])))
    | W g => trivial
    | H g id q0 => rw [hport] at hp; exact absurd hp.1 (hne q0 (mem_port (by simp [hport, PPhase.entries])))
    | T t id q0 => rw [hport] at hp; exact hp
  · have hs := hi.src
    cases hsrc : a.src with
    | init q0 arr => rw [hsrc] at hs; exact absurd hs.1 (hne q0 (mem_src (by simp [hsrc, SPhase.entries])))
    | wait id rest q0 => rw [hsrc] at hs; exact hs
    | ending q0 => rw [hsrc] at hs; exact absurd hs.1 (hne q0 (mem_src (by simp [hsrc, SPhase.entries])))
    | done => trivial
  · intro u hu; exact absurd (hi.pend u hu).1 (hne u (mem_pend hu))
  · intro d hd; exact le_trans (hi.last d hd) (le_of_lt h)
  · intro x hx; exact not_keyLt_time (hq.2 x hx)
  · intro hql
    rw [← hi.ghost hql]
    congr 1
    have hp := hi.port
    unfold pred
    cases hport : a.port with
    | init q0 => rw [hport] at hp; exact absurd hp.1 (hne q0 (mem_port (by simp [hport, PPhase.entries])))
    | H g id q0 => rw [hport] at hp; exact absurd hp.1 (hne q0 (mem_port (by simp [hport, PPhase.entries])))
    | T t id q0 => simp only [afterQ, todo_advance hi hq]
    | W g =>
      cases hit : a.items with
      | nil => simp only [todo_advance hi hq]
      | cons i is =>
        have := hi.idle (by simp [hport, PPhase.idle]) (by simp [hit])
        obtain ⟨u, hu⟩ := Option.isSome_iff_exists.mp this
        exact absurd (hi.pend u hu).1 (hne u (mem_pend hu))

/-! ## the LTS side -/

open Fifo in
/-- the LTS accepts the clock advance to the next entry -/
theorem lts_tick (hi : AInv size rate ql arrivals a now outs) (hq : IsMin a q) (h : now < q.time) :
    Fifo.step (Port.dev (cfg rate ql)) (toF size a now) (.tick q.time) = .ok (toF size a q.time, .nothing) := by
  have hne : ∀ x ∈ a.entries, x.time ≠ now := fun x hx hxt => absurd (hi.time_eq hq hx hxt) (ne_of_gt h)
  have hp := hi.port
  cases hport : a.port with
  | init q0 => rw [hport] at hp; exact absurd hp.1 (hne q0 (mem_port (by simp [hport, PPhase.entries])))
  | H g id q0 => rw [hport] at hp; exact absurd hp.1 (hne q0 (mem_port (by simp [hport, PPhase.entries])))
  | T t id q0 =>
    have h2 : ¬ q0.time < q.time := not_lt.mpr (not_keyLt_time (hq.2 q0 (mem_port (by simp [hport, PPhase.entries]))))
    simp [Fifo.step, toF, hport, not_lt.mpr (le_of_lt h), h2]
  | W g =>
    have hit : a.items = [] := by
      by_contra hc
      have := hi.idle (by simp [hport, PPhase.idle]) hc
      obtain ⟨u, hu⟩ := Option.isSome_iff_exists.mp this
      exact absurd (hi.pend u hu).1 (hne u (mem_pend hu))
    simp [Fifo.step, toF, hport, not_lt.mpr (le_of_lt h), hit]

/-- zero or one `tick` brings the LTS to the instant of the next entry -/
theorem lts_advance (hi : AInv size rate ql arrivals a now outs) (hq : IsMin a q) :
    ∃ acts, Fifo.runActs (Port.dev (cfg rate ql)) (toF size a now) acts = .ok (toF size a q.time, [], []) := by
  rcases eq_or_lt_of_le (hi.now_le hq) with h | h
  · exact ⟨[], by rw [← h]; rfl⟩
  · refine ⟨[.tick q.time], ?_⟩
    simp [Fifo.runActs, lts_tick hi hq h, Fifo.entered, Fifo.left]

end PortK
