import Mathlib.Tactic.Ring
import Mathlib.Tactic.FieldSimp
import Mathlib.Tactic.Linarith
import OnlVerif.Lemmas.Scalar
import OnlVerif.Lemmas.Truthy
import OnlVerif.Basic.PyNum
/-! # The scalar helpers of generated code (`Basic/PyNum.lean`) at `ℚ` -/

@[simp] theorem Num.ofInt_rat (i : Int) : (Num.ofInt i : ℚ) = (i : ℚ) := by
  cases i with
  | ofNat n => show ((n : ℕ) : ℚ) = ((Int.ofNat n : ℤ) : ℚ); simp
  | negSucc n =>
    show -(((n + 1 : ℕ)) : ℚ) = ((Int.negSucc n : ℤ) : ℚ)
    rw [Int.cast_negSucc]

@[simp] theorem Num.ofNat_rat' (n : ℕ) : (Num.ofNat n : ℚ) = (n : ℚ) := rfl

theorem Num.powNeg_rat (b w : ℕ) : (Num.powNeg b w : ℚ) = 1 / (b : ℚ) ^ w := by
  unfold Num.powNeg
  simp

theorem Num.nonzero_iff (x : ℚ) : Num.nonzero x = true ↔ x ≠ 0 := by
  unfold Num.nonzero
  rw [Bool.not_eq_true', ← Bool.not_eq_true, Num.eqb_iff, zero_eq']
