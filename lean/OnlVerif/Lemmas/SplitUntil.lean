import OnlVerif.Lemmas.SplitStripStep
/-!
# `run(until=event)` is transparent (C03, stage 2): the composition

`runUntilEvent e` plants one `.stop` on `e` and then steps.  By the simulation lemma the steps are, up to that stop,
the steps of the uninterrupted run; the step that processes `e` ends with `StopSimulation`, and since `e` is processed
by then, the state in which `run` returns carries no stop any more: it *is* the state of the uninterrupted run.
-/

variable {τ σ : Type} [Num τ]
variable (body : σ → Resume → Burst τ σ) (fuel : Nat)

/-- no stop callback anywhere -/
abbrev AllStopFree (s : KState τ σ) : Prop := StopFree (fun _ => true) s

omit [Num τ] in
theorem addCb_stop_strip (s : KState τ σ) (e : EvId) : (s.addCb e .stop).strip = s.strip :=
  KState.addCb_stop_stripBy_of_P (fun _ => true) s e rfl

omit [Num τ] in
/-- after `run(until=e)` has registered its stop, `e` is the only event that carries one -/
theorem addCb_stop_stopFree_except (s : KState τ σ) (e : EvId) (hf : AllStopFree s) :
    StopFree (fun i => i != e) (s.addCb e .stop) := by
  rw [StopFree.iff]
  intro i hi
  have hne : i ≠ e := by simpa using hi
  have : (s.addCb e .stop).ev i = s.ev i := by
    unfold KState.addCb
    rw [KState.ev_setEv, if_neg (fun h => hne h.1)]
  unfold KState.hasStop
  rw [this]
  exact (StopFree.iff _ s).mp hf i rfl

omit [Num τ] in
theorem addCb_stop_hasStop (s : KState τ σ) (e : EvId) (hp : s.processed e = false) : (s.addCb e .stop).hasStop e = true := by
  unfold KState.processed at hp
  have hlt : e < s.events.size := by
    apply Classical.byContradiction
    intro hge
    have : s.ev e = default := by
      unfold KState.ev
      rw [Array.getD_eq_getD_getElem?, Array.getElem?_eq_none (Nat.le_of_not_lt hge)]; rfl
    rw [this] at hp
    cases hp
  unfold KState.hasStop KState.addCb
  rw [KState.ev_setEv, if_pos ⟨rfl, hlt⟩]
  cases hc : (s.ev e).cbs with
  | none => rw [hc] at hp; cases hp
  | some l => simp

/-- **The relational form of the simulation lemma** (`KSim`): if `s2` is `s1` plus stop callbacks on `P`-events
(`s1` itself free of them) and `s1` does a normal step to `s1'`, then `s2` does the same step — to a state that is again
`s1'` plus stop callbacks — ending normally or with `StopSimulation`; the latter exactly when the event it processed
carried a stop in `s2`. -/
theorem step_sim (P : EvId → Bool) (s1 s2 s1' : KState τ σ) (hf : StopFree P s1) (heq : StopEq P s1 s2)
    (h : step body fuel s1 = .ok s1') :
    ∃ s2', (step body fuel s2 = .ok s2' ∨ ∃ o, step body fuel s2 = .stopped o s2') ∧
      StopEq P s1' s2' ∧ StopFree P s1' := by
  have h1 : s1 = s2.stripBy P := heq.eq_stripBy hf
  have hf' : StopFree P s1' := step_stopFree P body fuel s1 s1' hf (by rw [h]; rfl)
  have hs := step_stripBy_st P body fuel s2
  cases hr : step body fuel s2 with
  | ok s2' =>
    have := hs s2' (by rw [hr]; rfl)
    rw [← h1, h] at this
    refine ⟨s2', Or.inl rfl, ?_, hf'⟩
    have e1 : s1' = s2'.stripBy P := Option.some.inj this
    show s1'.stripBy P = s2'.stripBy P
    rw [e1, KState.stripBy_idem]
  | stopped o s2' =>
    have := hs s2' (by rw [hr]; rfl)
    rw [← h1, h] at this
    refine ⟨s2', Or.inr ⟨o, rfl⟩, ?_, hf'⟩
    have e1 : s1' = s2'.stripBy P := Option.some.inj this
    show s1'.stripBy P = s2'.stripBy P
    rw [e1, KState.stripBy_idem]
  | crash x s2' =>
    have h2 := step_stripBy P body fuel s2
    rw [← h1, h, hr] at h2
    cases hq : popMin s2.agenda with
    | none => rw [hq] at h2; cases h2
    | some qr =>
      rw [hq] at h2
      simp only at h2
      split at h2 <;> cases h2
  | empty =>
    have h2 := step_stripBy P body fuel s2
    rw [← h1, h, hr] at h2
    cases hq : popMin s2.agenda with
    | none => rw [hq] at h2; cases h2
    | some qr =>
      rw [hq] at h2
      simp only at h2
      split at h2 <;> cases h2

/-- the last step of `run(until=e)`: it ends with the `StopSimulation` of `e`, and without the stop it is the normal step
of the uninterrupted run to the same state -/
theorem last_step_until (s2 s' : KState τ σ) (e : EvId) (o : Outcome)
    (hf : StopFree (fun i => i != e) s2) (h : step body fuel s2 = .stopped o s')
    (hout : ∀ x, (s'.ev e).out ≠ some (.fail x)) :
    step body fuel s2.strip = .ok s' ∧ AllStopFree s' := by
  obtain ⟨q, rest, hq, hs⟩ := (step_stopped_iff body fuel s2).mp ⟨o, s', h⟩
  have hqe : q.ev = e := by
    apply Classical.byContradiction
    intro hne
    have := (StopFree.iff _ s2).mp hf q.ev (by simpa using hne)
    rw [this] at hs
    cases hs
  subst hqe
  have hfree : AllStopFree s' := step_stopFree_after body fuel s2 s' q rest hq hf (by rw [h]; rfl)
  refine ⟨?_, hfree⟩
  have h2 := step_stripBy (fun _ => true) body fuel s2
  rw [hq, h] at h2
  simp only [if_true] at h2
  rw [show s2.stripBy (fun _ => true) = s2.strip from rfl] at h2
  rw [h2]
  show (closeEvent { s := s' } q.ev).mapState _ = _
  have hc : closeEvent { s := s' } q.ev = .ok s' := by
    unfold closeEvent
    cases ho : (s'.ev q.ev).out with
    | none => rfl
    | some oc =>
      cases oc with
      | ok v => rfl
      | fail x => exact absurd ho (hout x)
  rw [hc]
  show StepResult.ok (s'.stripBy (fun _ => true)) = _
  rw [show s'.stripBy (fun _ => true) = s' from hfree]

/-- **`run(until=event)` is transparent.**  From a state without stale stops and for an event that is not processed
yet: if `run(until=e)` returns, it returns in exactly the state that `k + 1` uninterrupted `step()` calls reach
(`k + 1 ≤` the step budget) — same events, agenda, clock, processes, resources, **same trace** — and that state
carries no stop callback, so whatever is run next continues the uninterrupted run. -/
theorem runUntilEvent_transparent (n : Nat) (e : EvId) (s s' : KState τ σ) (v : Val)
    (hf : AllStopFree s) (hp : s.processed e = false)
    (h : runUntilEvent body fuel n e s = .returned v s') :
    ∃ k, k < n ∧ stepN body fuel (k + 1) s = .ok s' ∧ AllStopFree s' := by
  unfold runUntilEvent at h
  rw [if_neg (by simp [hp])] at h
  obtain ⟨k, s2, hk, h1, h2, _⟩ := runLoop_ended body fuel (some e) n (s.addCb e .stop)
    (by intro s'' hc; rw [hc] at h; cases h)
  rw [h2] at h
  have h3 : stepN body fuel k s = .ok s2.strip := by
    have := stepN_stripBy_ok (fun _ => true) body fuel k _ _ h1
    rw [show (s.addCb e .stop).stripBy (fun _ => true) = (s.addCb e .stop).strip from rfl, addCb_stop_strip,
      show s.strip = s from hf] at this
    exact this
  have hf2 : StopFree (fun i => i != e) s2 :=
    stepN_stopFree _ body fuel k _ _ (addCb_stop_stopFree_except s e hf) h1
  simp only [runLoop] at h
  cases hs : step body fuel s2 with
  | ok s3 => rw [hs] at h; cases h
  | crash x s3 => rw [hs] at h; cases h
  | empty => rw [hs] at h; simp only [Option.isSome_some, if_true] at h; cases h
  | stopped o s3 =>
    rw [hs] at h
    simp only at h
    unfold onStop at h
    simp only [Option.bind_some] at h
    have hout : ∀ x, (s3.ev e).out ≠ some (.fail x) := by
      intro x hx
      rw [hx] at h
      cases h
    have hs3 : s3 = s' := by
      split at h
      · cases h
      · split at h <;> cases h <;> rfl
    subst hs3
    obtain ⟨h4, h5⟩ := last_step_until body fuel s2 s3 e o hf2 hs hout
    exact ⟨k, hk, by rw [stepN_succ_last body fuel k s s2.strip h3]; exact h4, h5⟩

/-- while `run(until=e)` is still running, its state is the state of the uninterrupted run plus the one stop on `e` -/
theorem runUntilEvent_lockstep (k : Nat) (e : EvId) (s s2 : KState τ σ) (hf : AllStopFree s)
    (h : stepN body fuel k (s.addCb e .stop) = .ok s2) :
    stepN body fuel k s = .ok s2.strip ∧ StopFree (fun i => i != e) s2 := by
  constructor
  · have := stepN_stripBy_ok (fun _ => true) body fuel k _ _ h
    rw [show (s.addCb e .stop).stripBy (fun _ => true) = (s.addCb e .stop).strip from rfl, addCb_stop_strip,
      show s.strip = s from hf] at this
    exact this
  · exact stepN_stopFree _ body fuel k _ _ (addCb_stop_stopFree_except s e hf) h

/-- **`run(until=e)` that ends with an exception** (a crashing callback, an empty agenda, a failed until-event) has also
followed the uninterrupted run: `k` normal steps in lockstep, then either a step that ends in the same state up to stops
(however it ends), or an empty agenda in the same state. -/
theorem runUntilEvent_raised (n : Nat) (e : EvId) (s s' : KState τ σ) (x : Exc)
    (hf : AllStopFree s) (hp : s.processed e = false)
    (h : runUntilEvent body fuel n e s = .raised x s') :
    ∃ k s1, k < n ∧ stepN body fuel k s = .ok s1 ∧
      ((step body fuel s1).st? = some s'.strip ∨ (step body fuel s1 = .empty ∧ s1 = s'.strip)) := by
  unfold runUntilEvent at h
  rw [if_neg (by simp [hp])] at h
  obtain ⟨k, s2, hk, h1, h2, _⟩ := runLoop_ended body fuel (some e) n (s.addCb e .stop)
    (by intro s'' hc; rw [hc] at h; cases h)
  rw [h2] at h
  have h3 := (runUntilEvent_lockstep body fuel k e s s2 hf h1).1
  refine ⟨k, s2.strip, hk, h3, ?_⟩
  simp only [runLoop] at h
  cases hs : step body fuel s2 with
  | ok s3 => rw [hs] at h; cases h
  | crash y s3 =>
    rw [hs] at h
    cases h
    exact Or.inl (step_stripBy_st _ body fuel s2 s' (by rw [hs]; rfl))
  | empty =>
    rw [hs] at h
    simp only [Option.isSome_some, if_true] at h
    cases h
    right
    refine ⟨?_, rfl⟩
    have := step_stripBy (fun _ => true) body fuel s'
    unfold step at hs
    cases hq : popMin s'.agenda with
    | none => rw [hq] at this; exact this
    | some qr =>
      rw [hq] at hs
      simp only at hs
      split at hs
      · cases hs
      · have := closeEvent_st (List.foldl (runCb body fuel qr.1.ev) { s := openEvent s' qr.1 qr.2 } ‹List Cb›) qr.1.ev
        rw [hs] at this
        cases this
  | stopped o s3 =>
    rw [hs] at h
    simp only at h
    have hs3 : s3 = s' := by
      unfold onStop at h
      split at h
      · cases h; rfl
      · split at h <;> cases h
    subst hs3
    exact Or.inl (step_stripBy_st _ body fuel s2 s3 (by rw [hs]; rfl))
