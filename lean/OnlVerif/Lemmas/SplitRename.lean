import OnlVerif.Lemmas.SplitAttr
import OnlVerif.Lemmas.KAccess
/-!
# Renaming event ids (C03, stage 3): definitions

`run(until=t)` allocates one event record (its sentinel) at index `u = events.size`.  Every event created afterwards
has, in the split run, the index it has in the uninterrupted run plus one.  `shAt u` is that order-preserving renaming;
the `rn…` functions apply a renaming to everything that mentions event ids: values, exceptions, callbacks, kinds,
request data, event records, resource records, API calls and replies, observations.
-/

variable {τ σ : Type}

/-- the renaming of a split at index `u`: ids below `u` stay, ids from `u` on move up by one -/
def shAt (u : Nat) (i : Nat) : Nat := if i < u then i else i + 1

theorem shAt_of_lt {u i : Nat} (h : i < u) : shAt u i = i := by unfold shAt; rw [if_pos h]
theorem shAt_of_ge {u i : Nat} (h : u ≤ i) : shAt u i = i + 1 := by unfold shAt; rw [if_neg (Nat.not_lt.mpr h)]

theorem shAt_inj (u : Nat) {a b : Nat} (h : shAt u a = shAt u b) : a = b := by
  by_cases ha : a < u <;> by_cases hb : b < u
  · rwa [shAt_of_lt ha, shAt_of_lt hb] at h
  · rw [shAt_of_lt ha, shAt_of_ge (Nat.not_lt.mp hb)] at h; omega
  · rw [shAt_of_ge (Nat.not_lt.mp ha), shAt_of_lt hb] at h; omega
  · rw [shAt_of_ge (Nat.not_lt.mp ha), shAt_of_ge (Nat.not_lt.mp hb)] at h; omega

theorem shAt_ne (u : Nat) (a : Nat) : shAt u a ≠ u := by
  by_cases ha : a < u
  · rw [shAt_of_lt ha]; omega
  · rw [shAt_of_ge (Nat.not_lt.mp ha)]; omega

theorem shAt_lt_iff (u a b : Nat) : shAt u a < shAt u b ↔ a < b := by
  by_cases ha : a < u <;> by_cases hb : b < u
  · rw [shAt_of_lt ha, shAt_of_lt hb]
  · rw [shAt_of_lt ha, shAt_of_ge (Nat.not_lt.mp hb)]; omega
  · rw [shAt_of_ge (Nat.not_lt.mp ha), shAt_of_lt hb]; omega
  · rw [shAt_of_ge (Nat.not_lt.mp ha), shAt_of_ge (Nat.not_lt.mp hb)]; omega

def rnVal (ρ : EvId → EvId) : Val → Val
  | .none => .none
  | .int i => .int i
  | .str s => .str s
  | .ev e => .ev (ρ e)
  | .cv keys => .cv (keys.map ρ)
  | .preempted b r res => .preempted (b.map ρ) (ρ r) res
  | .frozen s => .frozen s

def rnExc (ρ : EvId → EvId) (x : Exc) : Exc := ⟨x.ty, x.args.map (rnVal ρ)⟩

def rnOutcome (ρ : EvId → EvId) : Outcome → Outcome
  | .ok v => .ok (rnVal ρ v)
  | .fail x => .fail (rnExc ρ x)

def rnCb (ρ : EvId → EvId) : Cb → Cb
  | .resume p => .resume (ρ p)
  | .intr iv => .intr (ρ iv)
  | .probe tag => .probe tag
  | .stop => .stop
  | .check c => .check (ρ c)
  | .build c => .build (ρ c)
  | .trigPut r => .trigPut r
  | .trigGet r => .trigGet r

def rnKind (ρ : EvId → EvId) : Kind → Kind
  | .plain => .plain
  | .timeout => .timeout
  | .init p => .init (ρ p)
  | .intr p => .intr (ρ p)
  | .proc => .proc
  | .cond all ops => .cond all (ops.map ρ)
  | .put r => .put r
  | .get r => .get r
  | .sentinel => .sentinel

def rnReq (ρ : EvId → EvId) (rq : ReqData τ) : ReqData τ :=
  { rq with proc := rq.proc.map ρ, releaseOf := ρ rq.releaseOf }

def rnRec (ρ : EvId → EvId) (r : EvRec τ) : EvRec τ :=
  { kind := rnKind ρ r.kind, cbs := r.cbs.map (·.map (rnCb ρ)), out := r.out.map (rnOutcome ρ),
    defused := r.defused, count := r.count, label := r.label, req := r.req.map (rnReq ρ) }

def rnRes (ρ : EvId → EvId) (x : ResRec) : ResRec :=
  { x with putQ := x.putQ.map ρ, getQ := x.getQ.map ρ, users := x.users.map ρ }

def rnResume (ρ : EvId → EvId) : Resume → Resume
  | .start => .start
  | .value v => .value (rnVal ρ v)
  | .exc x => .exc (rnExc ρ x)

def rnReply (ρ : EvId → EvId) : Reply → Reply
  | .ev e => .ev (ρ e)
  | .unit => .unit
  | .err x => .err (rnExc ρ x)
  | .val v => .val (rnVal ρ v)

def rnCall (ρ : EvId → EvId) (rσ : σ → σ) : Call τ σ → Call τ σ
  | .timeout d v => .timeout d (rnVal ρ v)
  | .event => .event
  | .succeed e v => .succeed (ρ e) (rnVal ρ v)
  | .fail e x => .fail (ρ e) (rnExc ρ x)
  | .spawn s => .spawn (rσ s)
  | .interrupt p cause => .interrupt (ρ p) (rnVal ρ cause)
  | .probe e tag => .probe (ρ e) tag
  | .cond all ops => .cond all (ops.map ρ)
  | .request r prio preempt => .request r prio preempt
  | .release r req => .release r (ρ req)
  | .cancel e => .cancel (ρ e)
  | .cput r a => .cput r a
  | .cget r a => .cget r a
  | .sput r it => .sput r it
  | .sget r f => .sget r f
  | .log what v => .log what (rnVal ρ v)
  | .load k => .load k
  | .store k v => .store k (rnVal ρ v)

def rnObs (ρ : EvId → EvId) : Obs τ → Obs τ
  | .resumed p r now => .resumed (ρ p) (rnResume ρ r) now
  | .log p what v now => .log (ρ p) what (rnVal ρ v) now
  | .probe tag e o now => .probe tag (ρ e) (rnOutcome ρ o) now
  | .callErr p x now => .callErr (ρ p) (rnExc ρ x) now
  | .ended p o now => .ended (ρ p) (rnOutcome ρ o) now

def rnProc (ρ : EvId → EvId) (rσ : σ → σ) (r : ProcRec σ) : ProcRec σ := { st := rσ r.st, target := r.target.map ρ }

/-- **programs that treat event ids as opaque tokens**: the burst `b'` is the burst `b` with every event id `e` it
mentions replaced by `ρ e` — it issues the renamed calls, and when it is given the renamed reply it continues as the
renamed continuation; `rσ` renames the ids kept in a local state. -/
inductive BurstSim (ρ : EvId → EvId) (rσ : σ → σ) : Burst τ σ → Burst τ σ → Prop
  | call (c : Call τ σ) (k k' : Reply → Burst τ σ) :
      (∀ r, BurstSim ρ rσ (k r) (k' (rnReply ρ r))) → BurstSim ρ rσ (.call c k) (.call (rnCall ρ rσ c) k')
  | yield (e : EvId) (st : σ) : BurstSim ρ rσ (.yield e st) (.yield (ρ e) (rσ st))
  | ret (v : Val) : BurstSim ρ rσ (.ret v) (.ret (rnVal ρ v))
  | raise (x : Exc) : BurstSim ρ rσ (.raise x) (.raise (rnExc ρ x))

/-- a program whose every resumption is renaming-equivariant -/
def BodySim (ρ : EvId → EvId) (rσ : σ → σ) (body : σ → Resume → Burst τ σ) : Prop :=
  ∀ st r, BurstSim ρ rσ (body st r) (body (rσ st) (rnResume ρ r))

/-! ## evaluation on constructors and projections (simp set `ksent`) -/

section eval
variable (ρ : EvId → EvId)

@[ksent] theorem rnVal_none : rnVal ρ .none = .none := rfl
@[ksent] theorem rnVal_int (i : Int) : rnVal ρ (.int i) = .int i := rfl
@[ksent] theorem rnVal_str (s : String) : rnVal ρ (.str s) = .str s := rfl
@[ksent] theorem rnVal_ev (e : EvId) : rnVal ρ (.ev e) = .ev (ρ e) := rfl
@[ksent] theorem rnVal_cv (l : List EvId) : rnVal ρ (.cv l) = .cv (l.map ρ) := rfl
@[ksent] theorem rnVal_preempted (b : Option EvId) (r : EvId) (res : ResId) :
    rnVal ρ (.preempted b r res) = .preempted (b.map ρ) (ρ r) res := rfl
@[ksent] theorem rnVal_frozen (s : String) : rnVal ρ (.frozen s) = .frozen s := rfl
@[ksent] theorem rnExc_mk (ty : String) (args : List Val) : rnExc ρ ⟨ty, args⟩ = ⟨ty, args.map (rnVal ρ)⟩ := rfl
@[ksent] theorem rnExc_ty (x : Exc) : (rnExc ρ x).ty = x.ty := rfl
@[ksent] theorem rnExc_args (x : Exc) : (rnExc ρ x).args = x.args.map (rnVal ρ) := rfl
@[ksent] theorem rnExc_runtimeErr (m : String) : rnExc ρ (runtimeErr m) = runtimeErr m := rfl
@[ksent] theorem rnExc_valueErr (m : String) : rnExc ρ (valueErr m) = valueErr m := rfl
@[ksent] theorem rnOutcome_ok (v : Val) : rnOutcome ρ (.ok v) = .ok (rnVal ρ v) := rfl
@[ksent] theorem rnOutcome_fail (x : Exc) : rnOutcome ρ (.fail x) = .fail (rnExc ρ x) := rfl
@[ksent] theorem rnCb_resume (p : EvId) : rnCb ρ (.resume p) = .resume (ρ p) := rfl
@[ksent] theorem rnCb_intr (p : EvId) : rnCb ρ (.intr p) = .intr (ρ p) := rfl
@[ksent] theorem rnCb_probe (t : Nat) : rnCb ρ (.probe t) = .probe t := rfl
@[ksent] theorem rnCb_stop : rnCb ρ .stop = .stop := rfl
@[ksent] theorem rnCb_check (p : EvId) : rnCb ρ (.check p) = .check (ρ p) := rfl
@[ksent] theorem rnCb_build (p : EvId) : rnCb ρ (.build p) = .build (ρ p) := rfl
@[ksent] theorem rnCb_trigPut (r : ResId) : rnCb ρ (.trigPut r) = .trigPut r := rfl
@[ksent] theorem rnCb_trigGet (r : ResId) : rnCb ρ (.trigGet r) = .trigGet r := rfl
@[ksent] theorem rnKind_plain : rnKind ρ .plain = .plain := rfl
@[ksent] theorem rnKind_timeout : rnKind ρ .timeout = .timeout := rfl
@[ksent] theorem rnKind_init (p : EvId) : rnKind ρ (.init p) = .init (ρ p) := rfl
@[ksent] theorem rnKind_intr (p : EvId) : rnKind ρ (.intr p) = .intr (ρ p) := rfl
@[ksent] theorem rnKind_proc : rnKind ρ .proc = .proc := rfl
@[ksent] theorem rnKind_cond (a : Bool) (l : List EvId) : rnKind ρ (.cond a l) = .cond a (l.map ρ) := rfl
@[ksent] theorem rnKind_put (r : ResId) : rnKind ρ (.put r) = .put r := rfl
@[ksent] theorem rnKind_get (r : ResId) : rnKind ρ (.get r) = .get r := rfl
@[ksent] theorem rnKind_sentinel : rnKind ρ .sentinel = .sentinel := rfl
@[ksent] theorem rnReq_mk (res : ResId) (a i p : Int) (pre : Bool) (tm : τ) (pr : Option EvId) (us : Option τ) (f : Nat)
    (ro : EvId) : rnReq ρ (⟨res, a, i, p, pre, tm, pr, us, f, ro⟩ : ReqData τ) = ⟨res, a, i, p, pre, tm, pr.map ρ, us, f, ρ ro⟩ := rfl
@[ksent] theorem rnReq_res (rq : ReqData τ) : (rnReq ρ rq).res = rq.res := rfl
@[ksent] theorem rnReq_amount (rq : ReqData τ) : (rnReq ρ rq).amount = rq.amount := rfl
@[ksent] theorem rnReq_item (rq : ReqData τ) : (rnReq ρ rq).item = rq.item := rfl
@[ksent] theorem rnReq_prio (rq : ReqData τ) : (rnReq ρ rq).prio = rq.prio := rfl
@[ksent] theorem rnReq_preempt (rq : ReqData τ) : (rnReq ρ rq).preempt = rq.preempt := rfl
@[ksent] theorem rnReq_time (rq : ReqData τ) : (rnReq ρ rq).time = rq.time := rfl
@[ksent] theorem rnReq_proc (rq : ReqData τ) : (rnReq ρ rq).proc = rq.proc.map ρ := rfl
@[ksent] theorem rnReq_usageSince (rq : ReqData τ) : (rnReq ρ rq).usageSince = rq.usageSince := rfl
@[ksent] theorem rnReq_filter (rq : ReqData τ) : (rnReq ρ rq).filter = rq.filter := rfl
@[ksent] theorem rnReq_releaseOf (rq : ReqData τ) : (rnReq ρ rq).releaseOf = ρ rq.releaseOf := rfl
@[ksent] theorem rnRec_mk (k : Kind) (cbs : Option (List Cb)) (o : Option Outcome) (d : Bool) (n l : Nat)
    (rq : Option (ReqData τ)) :
    rnRec ρ (⟨k, cbs, o, d, n, l, rq⟩ : EvRec τ) =
      ⟨rnKind ρ k, cbs.map (·.map (rnCb ρ)), o.map (rnOutcome ρ), d, n, l, rq.map (rnReq ρ)⟩ := rfl
@[ksent] theorem rnRec_kind (r : EvRec τ) : (rnRec ρ r).kind = rnKind ρ r.kind := rfl
@[ksent] theorem rnRec_cbs (r : EvRec τ) : (rnRec ρ r).cbs = r.cbs.map (·.map (rnCb ρ)) := rfl
@[ksent] theorem rnRec_out (r : EvRec τ) : (rnRec ρ r).out = r.out.map (rnOutcome ρ) := rfl
@[ksent] theorem rnRec_defused (r : EvRec τ) : (rnRec ρ r).defused = r.defused := rfl
@[ksent] theorem rnRec_count (r : EvRec τ) : (rnRec ρ r).count = r.count := rfl
@[ksent] theorem rnRec_label (r : EvRec τ) : (rnRec ρ r).label = r.label := rfl
@[ksent] theorem rnRec_req (r : EvRec τ) : (rnRec ρ r).req = r.req.map (rnReq ρ) := rfl
@[ksent] theorem rnRes_kind (x : ResRec) : (rnRes ρ x).kind = x.kind := rfl
@[ksent] theorem rnRes_capacity (x : ResRec) : (rnRes ρ x).capacity = x.capacity := rfl
@[ksent] theorem rnRes_putQ (x : ResRec) : (rnRes ρ x).putQ = x.putQ.map ρ := rfl
@[ksent] theorem rnRes_getQ (x : ResRec) : (rnRes ρ x).getQ = x.getQ.map ρ := rfl
@[ksent] theorem rnRes_users (x : ResRec) : (rnRes ρ x).users = x.users.map ρ := rfl
@[ksent] theorem rnRes_level (x : ResRec) : (rnRes ρ x).level = x.level := rfl
@[ksent] theorem rnRes_items (x : ResRec) : (rnRes ρ x).items = x.items := rfl
@[ksent] theorem rnProc_mk (rσ : σ → σ) (st : σ) (tg : Option EvId) : rnProc ρ rσ ⟨st, tg⟩ = ⟨rσ st, tg.map ρ⟩ := rfl
@[ksent] theorem rnProc_st (rσ : σ → σ) (r : ProcRec σ) : (rnProc ρ rσ r).st = rσ r.st := rfl
@[ksent] theorem rnProc_target (rσ : σ → σ) (r : ProcRec σ) : (rnProc ρ rσ r).target = r.target.map ρ := rfl
@[ksent] theorem rnResume_start : rnResume ρ .start = .start := rfl
@[ksent] theorem rnResume_value (v : Val) : rnResume ρ (.value v) = .value (rnVal ρ v) := rfl
@[ksent] theorem rnResume_exc (x : Exc) : rnResume ρ (.exc x) = .exc (rnExc ρ x) := rfl
@[ksent] theorem rnReply_ev (e : EvId) : rnReply ρ (.ev e) = .ev (ρ e) := rfl
@[ksent] theorem rnReply_unit : rnReply ρ .unit = .unit := rfl
@[ksent] theorem rnReply_err (x : Exc) : rnReply ρ (.err x) = .err (rnExc ρ x) := rfl
@[ksent] theorem rnReply_val (v : Val) : rnReply ρ (.val v) = .val (rnVal ρ v) := rfl
@[ksent] theorem rnObs_resumed (p : EvId) (r : Resume) (n : τ) : rnObs ρ (.resumed p r n) = .resumed (ρ p) (rnResume ρ r) n := rfl
@[ksent] theorem rnObs_log (p : EvId) (w : String) (v : Val) (n : τ) : rnObs ρ (.log p w v n) = .log (ρ p) w (rnVal ρ v) n := rfl
@[ksent] theorem rnObs_probe (t : Nat) (e : EvId) (o : Outcome) (n : τ) :
    rnObs ρ (.probe t e o n) = .probe t (ρ e) (rnOutcome ρ o) n := rfl
@[ksent] theorem rnObs_callErr (p : EvId) (x : Exc) (n : τ) : rnObs ρ (.callErr p x n) = .callErr (ρ p) (rnExc ρ x) n := rfl
@[ksent] theorem rnObs_ended (p : EvId) (o : Outcome) (n : τ) : rnObs ρ (.ended p o n) = .ended (ρ p) (rnOutcome ρ o) n := rfl

end eval

/-! ## injectivity -/

section inj
variable {ρ : EvId → EvId} (hρ : ∀ a b, ρ a = ρ b → a = b)
include hρ

theorem list_map_inj {l1 l2 : List EvId} (h : l1.map ρ = l2.map ρ) : l1 = l2 :=
  (List.map_inj_right (fun a b => hρ a b)).mp h

theorem rnCb_inj {a b : Cb} (h : rnCb ρ a = rnCb ρ b) : a = b := by
  cases a <;> cases b <;> simp only [rnCb, reduceCtorEq, Cb.resume.injEq, Cb.intr.injEq, Cb.check.injEq, Cb.build.injEq,
    Cb.probe.injEq, Cb.trigPut.injEq, Cb.trigGet.injEq] at h ⊢ <;> first | exact hρ _ _ h | exact h

theorem rnKind_inj {a b : Kind} (h : rnKind ρ a = rnKind ρ b) : a = b := by
  cases a <;> cases b <;> simp only [rnKind, reduceCtorEq, Kind.init.injEq, Kind.intr.injEq, Kind.cond.injEq,
    Kind.put.injEq, Kind.get.injEq] at h ⊢ <;> first | exact hρ _ _ h | exact h | exact ⟨h.1, list_map_inj hρ h.2⟩

theorem rnKind_eq_iff (a b : Kind) : rnKind ρ a = rnKind ρ b ↔ a = b :=
  ⟨rnKind_inj hρ, fun h => by rw [h]⟩

theorem map_erase_inj (l : List EvId) (a : EvId) : (l.map ρ).erase (ρ a) = (l.erase a).map ρ := by
  induction l with
  | nil => rfl
  | cons x xs ih =>
    by_cases hx : x = a
    · subst hx; simp
    · have : ρ x ≠ ρ a := fun h => hx (hρ _ _ h)
      rw [List.map_cons, List.erase_cons_tail (by simpa using this), List.erase_cons_tail (by simpa using hx),
        List.map_cons, ih]

theorem map_contains_inj (l : List EvId) (a : EvId) : (l.map ρ).contains (ρ a) = l.contains a := by
  rw [Bool.eq_iff_iff]
  simp only [List.contains_iff_mem, List.mem_map]
  constructor
  · rintro ⟨b, hb, h⟩; rw [← hρ _ _ h]; exact hb
  · intro h; exact ⟨a, h, rfl⟩

theorem mapCb_erase_inj (l : List Cb) (a : Cb) : (l.map (rnCb ρ)).erase (rnCb ρ a) = (l.erase a).map (rnCb ρ) := by
  induction l with
  | nil => rfl
  | cons x xs ih =>
    by_cases hx : x = a
    · subst hx; simp
    · have : rnCb ρ x ≠ rnCb ρ a := fun h => hx (rnCb_inj hρ h)
      rw [List.map_cons, List.erase_cons_tail (by simpa using this), List.erase_cons_tail (by simpa using hx),
        List.map_cons, ih]

theorem mapCb_contains_inj (l : List Cb) (a : Cb) : (l.map (rnCb ρ)).contains (rnCb ρ a) = l.contains a := by
  rw [Bool.eq_iff_iff]
  simp only [List.contains_iff_mem, List.mem_map]
  constructor
  · rintro ⟨b, hb, h⟩; rw [← rnCb_inj hρ h]; exact hb
  · intro h; exact ⟨a, h, rfl⟩

end inj
