import Lean.Meta.Tactic.Simp.RegisterCommand
/-! simp sets used to execute the kernel model symbolically on the token-bucket program (`trk`) and to take the list of the
events of a configuration apart (`trids`) -/
register_simp_attr trk
register_simp_attr trids
