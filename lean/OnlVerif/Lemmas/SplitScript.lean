import OnlVerif.Lemmas.SplitRename
import OnlVerif.Kernel.Script
/-!
# Script programs treat event ids as opaque tokens (C03, stage 3)

Every program of the script language of `Kernel/Script.lean` — the programs the correspondence check generates and runs
on the real kernel — satisfies `BodySim ρ id` for every renaming `ρ`: event ids flow only from API replies into the shared
slots and from there into API calls; a script's local state holds no id.  The only proviso is that the value literals
written in the program text are not event ids (`ProgsClosed`; the generator writes integers and `None`).
-/

set_option linter.unusedSectionVars false

variable {τ : Type} [Num τ]

/-- a value that mentions no event id -/
def Val.idFree : Val → Bool
  | .ev _ => false
  | .cv _ => false
  | .preempted _ _ _ => false
  | _ => true

theorem rnVal_idFree (ρ : EvId → EvId) (v : Val) (h : v.idFree = true) : rnVal ρ v = v := by
  cases v <;> first | rfl | cases h

/-- the value literals of an instruction mention no event id -/
def Instr.closed : Instr τ → Bool
  | .timeout _ _ v => v.idFree
  | .succeed _ v => v.idFree
  | .ret v => v.idFree
  | _ => true

def ProgsClosed (progs : Progs τ) : Prop := ∀ p, ∀ i ∈ (progs.getD p #[]).toList, Instr.closed i = true

variable (ρ : EvId → EvId)

theorem logS_sim (what : String) (v : Val) (k k' : Burst τ SSt) (h : BurstSim ρ id k k') :
    BurstSim ρ id (logS what v k) (logS what (rnVal ρ v) k') :=
  BurstSim.call (.log what v) _ _ (fun _ => h)

theorem bindSlot_sim (slot : Nat) (r : Reply) (next next' : Burst τ SSt) (h : BurstSim ρ id next next') :
    BurstSim ρ id (bindSlot slot r next) (bindSlot slot (rnReply ρ r) next') := by
  cases r with
  | ev e => exact BurstSim.call (.store slot (.ev e)) _ _ (fun _ => h)
  | unit => exact h
  | err x => exact h
  | val v => exact h

theorem withSlot_sim (slot : Nat) (next next' : Burst τ SSt) (f f' : EvId → Burst τ SSt)
    (hn : BurstSim ρ id next next') (hf : ∀ e, BurstSim ρ id (f e) (f' (ρ e))) :
    BurstSim ρ id (withSlot slot next f) (withSlot slot next' f') := by
  refine BurstSim.call (.load slot) _ _ ?_
  intro r
  cases r with
  | val v => cases v <;> first | exact hn | exact hf _
  | ev e => exact hn
  | unit => exact hn
  | err x => exact hn

theorem loadAll_sim (sl : List Nat) (acc : List EvId) (k k' : List EvId → Burst τ SSt)
    (hk : ∀ es, BurstSim ρ id (k es) (k' (es.map ρ))) :
    BurstSim ρ id (loadAll sl acc k) (loadAll sl (acc.map ρ) k') := by
  induction sl generalizing acc with
  | nil =>
    have := hk acc.reverse
    rw [List.map_reverse] at this
    exact this
  | cons s rest ih =>
    refine BurstSim.call (.load s) _ _ ?_
    intro r
    cases r with
    | val v =>
      cases v with
      | ev e => exact ih (e :: acc)
      | none => exact ih acc
      | int i => exact ih acc
      | str s => exact ih acc
      | cv l => exact ih acc
      | preempted a b c => exact ih acc
      | frozen s => exact ih acc
    | ev e => exact ih acc
    | unit => exact ih acc
    | err x => exact ih acc

theorem execL_sim (name prog : Nat) (pc : Nat) (is : List (Instr τ)) (hc : ∀ i ∈ is, Instr.closed i = true) :
    BurstSim ρ id (execL name prog pc is) (execL name prog pc is) := by
  induction is generalizing pc with
  | nil => exact BurstSim.ret .none
  | cons i is ih =>
    have hnext := ih (pc + 1) (fun j hj => hc j (List.mem_cons_of_mem _ hj))
    have hi := hc i List.mem_cons_self
    cases i with
    | timeout slot d v =>
      have hv := rnVal_idFree ρ v hi
      have := BurstSim.call (ρ := ρ) (rσ := id) (.timeout d v) (fun r => bindSlot slot r (execL name prog (pc + 1) is))
        (fun r => bindSlot slot r (execL name prog (pc + 1) is)) (fun r => bindSlot_sim ρ slot r _ _ hnext)
      simp only [rnCall, hv] at this
      exact this
    | event slot => exact BurstSim.call .event _ _ (fun r => bindSlot_sim ρ slot r _ _ hnext)
    | succeed slot v =>
      have hv := rnVal_idFree ρ v hi
      refine withSlot_sim ρ slot _ _ _ _ hnext ?_
      intro e
      have := BurstSim.call (ρ := ρ) (rσ := id) (.succeed e v) (fun _ => execL name prog (pc + 1) is)
        (fun _ => execL name prog (pc + 1) is) (fun _ => hnext)
      simp only [rnCall, hv] at this
      exact this
    | fail slot ty arg =>
      refine withSlot_sim ρ slot _ _ _ _ hnext ?_
      intro e
      exact BurstSim.call (.fail e ⟨ty, [.int arg]⟩) _ _ (fun _ => hnext)
    | spawn slot p nm =>
      exact BurstSim.call (Call.spawn ({ name := nm, prog := p, pc := 0 } : SSt)) _ _
        (fun r => bindSlot_sim ρ slot r _ _ hnext)
    | interrupt slot cause =>
      refine withSlot_sim ρ slot _ _ _ _ hnext ?_
      intro e
      exact BurstSim.call (.interrupt e (.int cause)) _ _ (fun _ => hnext)
    | probe slot tag =>
      refine withSlot_sim ρ slot _ _ _ _ hnext ?_
      intro e
      exact BurstSim.call (.probe e tag) _ _ (fun _ => hnext)
    | log tag => exact logS_sim ρ "log" (.int tag) _ _ hnext
    | yield slot h =>
      refine withSlot_sim ρ slot _ _ _ _ hnext ?_
      intro e
      exact BurstSim.yield e _
    | cond all slot ops =>
      refine loadAll_sim ρ ops [] _ _ ?_
      intro es
      exact BurstSim.call (.cond all es) _ _ (fun r => bindSlot_sim ρ slot r _ _ hnext)
    | request slot res prio pre =>
      exact BurstSim.call (.request res prio pre) _ _ (fun r => bindSlot_sim ρ slot r _ _ hnext)
    | release slot res rs =>
      refine withSlot_sim ρ rs _ _ _ _ hnext ?_
      intro e
      exact BurstSim.call (.release res e) _ _ (fun r => bindSlot_sim ρ slot r _ _ hnext)
    | cancel slot =>
      refine withSlot_sim ρ slot _ _ _ _ hnext ?_
      intro e
      exact BurstSim.call (.cancel e) _ _ (fun _ => hnext)
    | exit slot res =>
      refine withSlot_sim ρ slot _ _ _ _ hnext ?_
      intro e
      refine BurstSim.call (.cancel e) _ _ ?_
      intro r
      cases r with
      | err x => exact hnext
      | ev e' => exact BurstSim.call (.release res e) _ _ (fun _ => hnext)
      | unit => exact BurstSim.call (.release res e) _ _ (fun _ => hnext)
      | val v => exact BurstSim.call (.release res e) _ _ (fun _ => hnext)
    | cput slot res a => exact BurstSim.call (.cput res a) _ _ (fun r => bindSlot_sim ρ slot r _ _ hnext)
    | cget slot res a => exact BurstSim.call (.cget res a) _ _ (fun r => bindSlot_sim ρ slot r _ _ hnext)
    | sput slot res it => exact BurstSim.call (.sput res it) _ _ (fun r => bindSlot_sim ρ slot r _ _ hnext)
    | sget slot res f => exact BurstSim.call (.sget res f) _ _ (fun r => bindSlot_sim ρ slot r _ _ hnext)
    | ret v =>
      have hv := rnVal_idFree ρ v hi
      have := BurstSim.ret (τ := τ) (σ := SSt) (ρ := ρ) (rσ := id) v
      rw [hv] at this
      exact this
    | raise ty arg => exact BurstSim.raise ⟨ty, [.int arg]⟩
    | retev slot =>
      refine withSlot_sim ρ slot _ _ _ _ (BurstSim.ret .none) ?_
      intro e
      exact BurstSim.ret (.ev e)

theorem cont_sim (progs : Progs τ) (h : ProgsClosed progs) (st : SSt) : BurstSim ρ id (cont progs st) (cont progs st) := by
  unfold cont
  apply execL_sim
  intro i hi
  exact h st.prog i (List.mem_of_mem_drop hi)

/-- **every script program is renaming-equivariant**, for every renaming of event ids -/
theorem script_bodySim (progs : Progs τ) (h : ProgsClosed progs) : BodySim ρ id (body progs) := by
  intro st r
  show BurstSim ρ id (body progs st r) (body progs st (rnResume ρ r))
  cases r with
  | start => exact logS_sim ρ "start" .none _ _ (cont_sim ρ progs h st)
  | value v => exact logS_sim ρ "got" v _ _ (cont_sim ρ progs h st)
  | exc x =>
    show BurstSim ρ id (logS s!"exc {x.ty}" (x.args.headD .none) _) (logS s!"exc {(rnExc ρ x).ty}" ((rnExc ρ x).args.headD .none) _)
    have hh : (rnExc ρ x).args.headD .none = rnVal ρ (x.args.headD .none) := by
      show (x.args.map (rnVal ρ)).headD .none = _
      cases x.args <;> rfl
    rw [hh]
    refine logS_sim ρ _ _ _ _ ?_
    cases hp : st.pend with
    | none => exact cont_sim ρ progs h st
    | some sh =>
      obtain ⟨slot, hd⟩ := sh
      split
      · refine withSlot_sim ρ _ _ _ _ _ (cont_sim ρ progs h st) ?_
        intro e
        exact BurstSim.yield e _
      · exact BurstSim.ret (.int 0)
      · exact BurstSim.raise x
      · split
        · exact cont_sim ρ progs h _
        · exact cont_sim ρ progs h st
      · exact cont_sim ρ progs h st
