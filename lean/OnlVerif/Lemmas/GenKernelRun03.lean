import OnlVerif.Lemmas.GenKernelDefs
import OnlVerif.Lemmas.KAccess
import OnlVerif.Generated.KernelRun03
/-!
# Bridge lemmas (C03): generated refusal test and sentinel entry of `Environment.run(until=<number>)` (`Generated/KernelRun03.lean`)
= `runUntilTime` of model `K`
-/

namespace GenKernel
variable {τ σ : Type} [Num τ]

/-- the stop event of `run(until=<number>)` is pushed as the generated tuple -/
theorem scheduleAt_eq (s : KState τ σ) (e : EvId) (t : τ) :
    s.scheduleAt e URGENT t = pushEntry s (Gen.Environment.run_sentinel_entry t s.eid e) := rfl

theorem run_until (body : σ → Resume → Burst τ σ) (fuel n : Nat) (at_ : τ) (s : KState τ σ) :
    runUntilTime body fuel n at_ s =
      (if Gen.Environment.run_refuse at_ s.now = true then
         .raised (valueErr "until must be > the current simulation time") s
       else
         let u := s.events.size
         let s1 := (s.newEv { kind := .sentinel, cbs := some [], out := some (.ok .none) }).1
         runLoop body fuel (some u) n ((pushEntry s1 (Gen.Environment.run_sentinel_entry at_ s1.eid u)).addCb u .stop)) := by
  unfold runUntilTime Gen.Environment.run_refuse
  by_cases h : at_ ≤ s.now
  · simp only [h, decide_true, if_true]
  · simp only [h, decide_false, Bool.false_eq_true, if_false]; rfl

end GenKernel
