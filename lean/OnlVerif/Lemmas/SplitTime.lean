import OnlVerif.Lemmas.SplitSentStep
import OnlVerif.Lemmas.SplitUntil
/-!
# `run(until=t)` is transparent up to the renaming of event ids (C03, stage 3): the composition
-/

variable {σ : Type}

/-- the configuration of a numeric split made in state `s`: the sentinel gets index `events.size` and `eid` `s.eid` -/
def SplitCfg.at (s : KState ℚ σ) (hpos : 0 < s.events.size) (t : ℚ) (rσ : σ → σ) : SplitCfg σ :=
  { u := s.events.size, upos := hpos, eid0 := s.eid, t := t, rσ := rσ }

namespace SplitCfg
variable (c : SplitCfg σ)

/-- **well-scoped state**: every event id mentioned anywhere in `s` is below `c.u` (renaming changes nothing) and every
agenda entry was pushed before `c.eid0`.  Holds in every reachable state of an API-only program at `u = events.size`,
`eid0 = eid` (not proved here: it is the invariant "ids are allocated before they are used"). -/
structure Closed (s : KState ℚ σ) : Prop where
  events : s.events.map (rnRec c.ρ) = s.events
  agenda : s.agenda.map c.rnEntry = s.agenda
  procs : s.procs.map (fun pr => (c.ρ pr.1, rnProc c.ρ c.rσ pr.2)) = s.procs
  active : s.active.map c.ρ = s.active
  trace : s.trace.map (rnObs c.ρ) = s.trace
  shared : s.shared.map (fun kv => (kv.1, rnVal c.ρ kv.2)) = s.shared
  resources : s.resources.map (rnRes c.ρ) = s.resources

/-- what `run(until=t)` does before it starts stepping -/
def plant (t : ℚ) (s : KState ℚ σ) : KState ℚ σ :=
  (((s.newEv { kind := .sentinel, cbs := some [], out := some (.ok .none) }).1.scheduleAt s.events.size URGENT t).addCb
    s.events.size .stop)

omit c in
theorem runUntilTime_eq (body : σ → Resume → Burst ℚ σ) (fuel n : Nat) (t : ℚ) (s : KState ℚ σ) (h : s.now < t) :
    runUntilTime body fuel n t s = runLoop body fuel (some s.events.size) n (plant t s) := by
  unfold runUntilTime
  rw [if_neg (not_le.mpr h)]
  rfl

/-- **the planted state is the `T`-image of the state before**, for a well-scoped state with a sorted agenda -/
theorem plant_eq_T (s : KState ℚ σ) (hu : c.u = s.events.size) (he : c.eid0 = s.eid) (hc : c.Closed s)
    (hs : SortedAg s) : plant c.t s = c.T true s := by
  have hag : c.insSent s.agenda = c.sentEntry :: s.agenda := by
    rw [c.insSent_of_old s.agenda (fun x hx => he ▸ hs.below x hx), hc.agenda]
  have hevs : ((s.events.push { kind := .sentinel, cbs := some [], out := some (.ok .none) }).setIfInBounds s.events.size
      { kind := .sentinel, cbs := some [.stop], out := some (.ok .none) } : Array (EvRec ℚ)) =
      (s.events.map (rnRec c.ρ)).insertIdxIfInBounds c.u (deadRec true) := by
    rw [hc.events, hu]
    unfold Array.insertIdxIfInBounds
    rw [dif_pos (Nat.le_refl _), Array.insertIdx_size_self]
    apply Array.ext_getElem?
    intro j
    rw [Array.getElem?_setIfInBounds, Array.getElem?_push, Array.getElem?_push]
    by_cases hj : s.events.size = j
    · subst hj
      simp only [Array.size_push, Nat.lt_succ_self, if_true]
      rfl
    · have : ¬ j = s.events.size := fun h => hj h.symm
      simp only [hj, this, if_false]
  unfold plant T
  unfold KState.addCb
  have hev : ((s.newEv { kind := .sentinel, cbs := some [], out := some (.ok .none) }).1.scheduleAt s.events.size URGENT c.t).ev
      s.events.size = { kind := .sentinel, cbs := some [], out := some (.ok .none) } := by
    show (s.newEv _).1.ev s.events.size = _
    rw [KState.ev_newEv, if_pos rfl]
  rw [hev]
  unfold KState.setEv KState.scheduleAt KState.newEv agT
  simp only [if_true, hag, hc.procs, hc.active, hc.trace, hc.shared, hc.resources, ← hevs]
  unfold sentEntry
  rw [he, hu]
  rfl

/-! ## invariants along steps -/

omit c in
theorem grow_step (body : σ → Resume → Burst ℚ σ) (fuel : Nat) (s s' : KState ℚ σ)
    (h : (step body fuel s).st? = some s') : Grow s s' := by
  unfold step at h
  split at h
  · cases h
  · rename_i m rest _
    have ho : Grow s (openEvent s m rest) := ⟨Nat.le_of_eq (grow_openEvent s m rest).2.symm, (grow_openEvent s m rest).1⟩
    split at h
    · cases h; exact ho
    · rename_i cbs _
      rw [closeEvent_st] at h
      cases h
      exact Grow.krel.trans ho (Grow.krel.foldCbs body fuel m.ev cbs { s := openEvent s m rest })

omit c in
theorem sortedAg_step (body : σ → Resume → Burst ℚ σ) (fuel : Nat) (s s' : KState ℚ σ) (hs : SortedAg s)
    (h : (step body fuel s).st? = some s') : SortedAg s' := by
  unfold step at h
  split at h
  · cases h
  · rename_i m rest hp
    have hsub := popMin_sublist _ _ _ hp
    have ho : SortedAg (openEvent s m rest) := ⟨hs.sorted.sublist hsub, fun x hx => hs.below x (hsub.subset hx)⟩
    split at h
    · cases h; exact ho
    · rename_i cbs _
      rw [closeEvent_st] at h
      cases h
      exact SortedAg.krel.foldCbs body fuel m.ev cbs { s := openEvent s m rest } ho

/-- the facts about the state of the uninterrupted run that the lockstep needs, and that every step keeps -/
structure Good (s : KState ℚ σ) : Prop where
  inv : c.Inv s
  sorted : SortedAg s
  nostop : AllStopFree s

theorem Good.step {s s' : KState ℚ σ} (body : σ → Resume → Burst ℚ σ) (fuel : Nat) (g : c.Good s)
    (h : (step body fuel s).st? = some s') : c.Good s' :=
  ⟨g.inv.mono (grow_step body fuel s s' h), sortedAg_step body fuel s s' g.sorted h,
    step_stopFree _ body fuel s s' g.nostop h⟩

omit c in
theorem step_not_stopped_of_allStopFree (body : σ → Resume → Burst ℚ σ) (fuel : Nat) (s : KState ℚ σ)
    (hf : AllStopFree s) (o : Outcome) (s' : KState ℚ σ) : step body fuel s ≠ .stopped o s' := by
  intro h
  obtain ⟨m, rest, hp, hs⟩ := (step_stopped_iff body fuel s).mp ⟨o, s', h⟩
  rw [(StopFree.iff _ s).mp hf m.ev rfl] at hs
  cases hs

/-- the fuel hypothesis along the uninterrupted run -/
def FuelAlong (body : σ → Resume → Burst ℚ σ) (fuel : Nat) (s : KState ℚ σ) : Prop :=
  ∀ j sj, stepN body fuel j s = .ok sj → c.stepFuelOK body fuel sj

theorem FuelAlong.tail {body : σ → Resume → Burst ℚ σ} {fuel : Nat} {s s1 : KState ℚ σ}
    (hf : c.FuelAlong body fuel s) (h : step body fuel s = .ok s1) : c.FuelAlong body fuel s1 := by
  intro j sj hj
  apply hf (j + 1) sj
  rw [Nat.add_comm, stepN_add, stepN_one, h]
  exact hj

/-- **lockstep while the sentinel is queued**: `k` normal steps of the split run are `k` normal steps of the
uninterrupted run, ending in corresponding states -/
theorem stepN_T_true (body : σ → Resume → Burst ℚ σ) (hB : BodySim c.ρ c.rσ body) (fuel : Nat) (k : Nat)
    (s S : KState ℚ σ) (g : c.Good s) (hf : c.FuelAlong body fuel s)
    (h : stepN body fuel k (c.T true s) = .ok S) :
    ∃ sk, stepN body fuel k s = .ok sk ∧ S = c.T true sk ∧ c.Good sk ∧ c.FuelAlong body fuel sk := by
  induction k generalizing s with
  | zero => cases h; exact ⟨s, rfl, rfl, g, hf⟩
  | succ k ih =>
    rw [stepN_succ] at h ⊢
    have hst := c.step_T_true s body hB fuel g.inv g.sorted (hf 0 s rfl)
    rw [hst] at h
    cases hp : popMin s.agenda with
    | none => rw [hp] at h; cases h
    | some mr =>
      obtain ⟨m, rest⟩ := mr
      rw [hp] at h
      simp only at h
      split at h
      · cases hs : step body fuel s with
        | ok s1 =>
          rw [hs] at h
          exact ih s1 (g.step c body fuel (by rw [hs]; rfl)) (hf.tail c hs) h
        | stopped o s1 => rw [hs] at h; cases h
        | crash x s1 => rw [hs] at h; cases h
        | empty => rw [hs] at h; cases h
      · cases h

/-- **lockstep after the sentinel is gone** -/
theorem stepN_T_false (body : σ → Resume → Burst ℚ σ) (hB : BodySim c.ρ c.rσ body) (fuel : Nat) (k : Nat)
    (s sk : KState ℚ σ) (hi : c.Inv s) (hf : c.FuelAlong body fuel s) (h : stepN body fuel k s = .ok sk) :
    stepN body fuel k (c.T false s) = .ok (c.T false sk) := by
  induction k generalizing s with
  | zero => cases h; rfl
  | succ k ih =>
    rw [stepN_succ] at h ⊢
    rw [c.step_T_false s body hB fuel hi (hf 0 s rfl)]
    cases hs : step body fuel s with
    | ok s1 =>
      rw [hs] at h
      exact ih s1 (hi.mono (grow_step body fuel s s1 (by rw [hs]; rfl))) (hf.tail c hs) h
    | stopped o s1 => rw [hs] at h; cases h
    | crash x s1 => rw [hs] at h; cases h
    | empty => rw [hs] at h; cases h

omit c in
/-- `step` overwrites the clock before anything reads it -/
theorem step_now_irrelevant (body : σ → Resume → Burst ℚ σ) (fuel : Nat) (s : KState ℚ σ) (x : ℚ) :
    step body fuel { s with now := x } = step body fuel s := rfl

/-- **after `run(until=t)` has returned, every continuation is the uninterrupted run with renamed ids**: `j + 1`
further normal steps of the uninterrupted run are `j + 1` normal steps from the returned state, to the corresponding
state (the first step overwrites the clock, the only field in which the returned state differs from `T false sk`) -/
theorem after_split_lockstep (body : σ → Resume → Burst ℚ σ) (hB : BodySim c.ρ c.rσ body) (fuel : Nat) (j : Nat)
    (sk sj : KState ℚ σ) (hi : c.Inv sk) (hf : c.FuelAlong body fuel sk) (h : stepN body fuel (j + 1) sk = .ok sj) :
    stepN body fuel (j + 1) (c.afterSentinel sk) = .ok (c.T false sj) := by
  have := c.stepN_T_false body hB fuel (j + 1) sk sj hi hf h
  rw [stepN_succ] at this ⊢
  exact this

/-! ## discharging the fuel hypothesis when no `Condition._build_value` is pending -/

def notBuild : Cb → Bool
  | .build _ => false
  | _ => true

theorem loopFuelOK_of_noBuild (body : σ → Resume → Burst ℚ σ) (fuel : Nat) (e : EvId) (cbs : List Cb) (l : LoopSt ℚ σ)
    (h : cbs.all notBuild = true) : c.loopFuelOK body fuel e cbs l := by
  induction cbs generalizing l with
  | nil => trivial
  | cons cb cs ih =>
    simp only [List.all_cons, Bool.and_eq_true] at h
    refine ⟨?_, ih _ h.2⟩
    cases cb <;> first | trivial | (simp [notBuild] at h)

/-- a decidable sufficient condition for the fuel hypothesis of one step: the event about to be processed carries no
`_build_value` callback -/
def noBuildNext (s : KState ℚ σ) : Bool :=
  match popMin s.agenda with
  | none => true
  | some (m, _) =>
    match (s.ev m.ev).cbs with
    | none => true
    | some cbs => cbs.all notBuild

theorem stepFuelOK_of_noBuild (body : σ → Resume → Burst ℚ σ) (fuel : Nat) (s : KState ℚ σ) (h : noBuildNext s = true) :
    c.stepFuelOK body fuel s := by
  unfold stepFuelOK
  unfold noBuildNext at h
  cases hp : popMin s.agenda with
  | none => trivial
  | some mr =>
    obtain ⟨m, rest⟩ := mr
    rw [hp] at h
    simp only at h ⊢
    cases hc : (s.ev m.ev).cbs with
    | none => trivial
    | some cbs =>
      rw [hc] at h
      exact c.loopFuelOK_of_noBuild body fuel m.ev cbs _ h

/-! ## what has been processed when `run(until=t)` returns -/

/-- the key order against the sentinel in plain terms: strictly earlier, or at `t` itself, URGENT and pushed earlier -/
theorem lt_sent_iff (m : QEntry ℚ) :
    (c.rnEntry m).lt c.sentEntry = true ↔ m.time < c.t ∨ (m.time = c.t ∧ m.prio = URGENT ∧ m.eid < c.eid0) := by
  rw [QEntry.lt_iff]
  unfold QEntry.KeyLt
  show m.time < c.t ∨ (m.time = c.t ∧ (m.prio < URGENT ∨ (m.prio = URGENT ∧ (c.rnEntry m).eid < c.eid0))) ↔ _
  have he : (c.rnEntry m).eid < c.eid0 ↔ m.eid < c.eid0 := by
    unfold rnEntry
    show (if c.eid0 ≤ m.eid then m.eid + 1 else m.eid) < c.eid0 ↔ _
    split <;> omega
  rw [he]
  constructor
  · rintro (h | ⟨h1, h2 | h2⟩)
    · exact Or.inl h
    · exact absurd h2 (Nat.not_lt_zero _)
    · exact Or.inr ⟨h1, h2⟩
  · rintro (h | ⟨h1, h2⟩)
    · exact Or.inl h
    · exact Or.inr ⟨h1, Or.inr h2⟩

/-- **every entry the split run processed before it returned was due before the sentinel** -/
theorem processed_before_sentinel (body : σ → Resume → Burst ℚ σ) (hB : BodySim c.ρ c.rσ body) (fuel : Nat) (k : Nat)
    (s S : KState ℚ σ) (g : c.Good s) (hf : c.FuelAlong body fuel s)
    (h : stepN body fuel k (c.T true s) = .ok S) :
    ∀ j, j < k → ∀ sj m rest, stepN body fuel j s = .ok sj → popMin sj.agenda = some (m, rest) →
      (c.rnEntry m).lt c.sentEntry = true := by
  induction k generalizing s with
  | zero => intro j hj; exact absurd hj (Nat.not_lt_zero _)
  | succ k ih =>
    rw [stepN_succ] at h
    have hst := c.step_T_true s body hB fuel g.inv g.sorted (hf 0 s rfl)
    rw [hst] at h
    cases hp : popMin s.agenda with
    | none => rw [hp] at h; cases h
    | some mr =>
      obtain ⟨m0, rest0⟩ := mr
      rw [hp] at h
      simp only at h
      by_cases hlt : (c.rnEntry m0).lt c.sentEntry = true
      · rw [if_pos hlt] at h
        cases hs : step body fuel s with
        | ok s1 =>
          rw [hs] at h
          intro j hj sj m rest hsj hm
          cases j with
          | zero =>
            cases hsj
            rw [hp] at hm
            cases hm
            exact hlt
          | succ j =>
            rw [stepN_succ, hs] at hsj
            exact ih s1 (g.step c body fuel (by rw [hs]; rfl)) (hf.tail c hs) h j (Nat.lt_of_succ_lt_succ hj) sj m rest hsj hm
        | stopped o s1 => rw [hs] at h; cases h
        | crash x s1 => rw [hs] at h; cases h
        | empty => rw [hs] at h; cases h
      · rw [if_neg hlt] at h; cases h

/-! ## the returned state carries no stop -/

theorem hasStop_T_false (s : KState ℚ σ) (h : c.Inv s) (hns : AllStopFree s) : AllStopFree (c.T false s) := by
  apply (StopFree.iff _ _).mpr
  intro (j : Nat) _
  unfold KState.hasStop
  by_cases hj : j = c.u
  · rw [hj, c.ev_T_u false s h]; rfl
  · -- `j` is the image of some id
    have hex : ∃ e, c.ρ e = j := by
      by_cases hlt : j < c.u
      · exact ⟨j, c.ρ_lt hlt⟩
      · have hpos := c.upos
        obtain ⟨i, hi⟩ : ∃ i : Nat, j = i + 1 := ⟨j - 1, by omega⟩
        have hge : c.u ≤ i := by omega
        exact ⟨i, by rw [c.ρ_ge hge, hi]⟩
    obtain ⟨e, rfl⟩ := hex
    rw [c.cbs_T false s h]
    have := (StopFree.iff _ s).mp hns e rfl
    unfold KState.hasStop at this
    cases hc : (s.ev e).cbs with
    | none => rfl
    | some l =>
      rw [hc] at this
      simp only [Option.map_some]
      simp only at this
      rw [Bool.eq_false_iff] at this ⊢
      intro hm
      apply this
      simp only [List.contains_iff_mem, List.mem_map] at hm ⊢
      obtain ⟨cb, hcb, hst⟩ := hm
      cases cb <;> first | exact hcb | (simp [rnCb] at hst)

theorem afterSentinel_stopFree (s : KState ℚ σ) (h : c.Inv s) (hns : AllStopFree s) : AllStopFree (c.afterSentinel s) := by
  have := c.hasStop_T_false s h hns
  apply (StopFree.iff _ _).mpr
  intro j hj
  exact (StopFree.iff _ _).mp this j hj

/-- **`run(until=t)` is transparent up to the renaming of event ids.** -/
theorem runUntilTime_transparent (body : σ → Resume → Burst ℚ σ) (fuel n : Nat) (s s' : KState ℚ σ) (v : Val)
    (hu : c.u = s.events.size) (he : c.eid0 = s.eid) (hlt : s.now < c.t)
    (hc : c.Closed s) (hs : SortedAg s) (hns : AllStopFree s) (hB : BodySim c.ρ c.rσ body)
    (hf : c.FuelAlong body fuel s)
    (h : runUntilTime body fuel n c.t s = .returned v s') :
    v = .none ∧ ∃ k sk, k < n ∧ stepN body fuel k s = .ok sk ∧ s' = c.afterSentinel sk ∧ c.Inv sk ∧
      c.FuelAlong body fuel sk ∧ AllStopFree s' ∧
      (∀ j, j < k → ∀ sj m rest, stepN body fuel j s = .ok sj → popMin sj.agenda = some (m, rest) →
        (m.time < c.t ∨ (m.time = c.t ∧ m.prio = URGENT ∧ m.eid < c.eid0))) ∧
      (∀ m rest, popMin sk.agenda = some (m, rest) →
        ¬ (m.time < c.t ∨ (m.time = c.t ∧ m.prio = URGENT ∧ m.eid < c.eid0))) := by
  rw [runUntilTime_eq body fuel n c.t s hlt, c.plant_eq_T s hu he hc hs] at h
  have g : c.Good s := ⟨⟨Nat.le_of_eq hu, Nat.le_of_eq he⟩, hs, hns⟩
  obtain ⟨k, S, hk, h1, h2, _⟩ := runLoop_ended body fuel (some s.events.size) n (c.T true s)
    (by intro s'' hc'; rw [hc'] at h; cases h)
  rw [h2] at h
  have hbefore := c.processed_before_sentinel body hB fuel k s S g hf h1
  obtain ⟨sk, h3, rfl, gk, hfk⟩ := c.stepN_T_true body hB fuel k s S g hf h1
  have hbefore' : ∀ j, j < k → ∀ sj m rest, stepN body fuel j s = .ok sj → popMin sj.agenda = some (m, rest) →
      (m.time < c.t ∨ (m.time = c.t ∧ m.prio = URGENT ∧ m.eid < c.eid0)) :=
    fun j hj sj m rest h1 h2 => (c.lt_sent_iff m).mp (hbefore j hj sj m rest h1 h2)
  have hfree := c.afterSentinel_stopFree sk gk.inv gk.nostop
  simp only [runLoop] at h
  have hst := c.step_T_true sk body hB fuel gk.inv gk.sorted (hfk 0 sk rfl)
  have hret : onStop (some s.events.size) (.ok .none) (c.afterSentinel sk) = .returned v s' →
      v = .none ∧ s' = c.afterSentinel sk := by
    intro hr
    unfold onStop at hr
    simp only [Option.bind_some] at hr
    have hout : ((c.afterSentinel sk).ev s.events.size).out = some (.ok .none) := by
      have h2 : (c.afterSentinel sk).ev s.events.size = (c.T false sk).ev c.u := by rw [hu]; rfl
      rw [h2, c.ev_T_u false sk gk.inv]
      rfl
    rw [hout] at hr
    simp only at hr
    cases hr
    exact ⟨rfl, rfl⟩
  cases hp : popMin sk.agenda with
  | none =>
    rw [hp] at hst
    rw [hst] at h
    obtain ⟨hv, hs'⟩ := hret h
    exact ⟨hv, k, sk, hk, h3, hs', gk.inv, hfk, hs' ▸ hfree, hbefore', by intro m rest hm; rw [hp] at hm; cases hm⟩
  | some mr =>
    obtain ⟨m, rest⟩ := mr
    rw [hp] at hst
    simp only at hst
    by_cases hlt' : (c.rnEntry m).lt c.sentEntry = true
    · rw [if_pos hlt'] at hst
      rw [hst] at h
      cases hs1 : step body fuel sk with
      | ok s1 => rw [hs1] at h; cases h
      | stopped o s1 => exact absurd hs1 (step_not_stopped_of_allStopFree body fuel sk gk.nostop o s1)
      | crash x s1 => rw [hs1] at h; cases h
      | empty => rw [hs1] at h; simp only [mapT, Option.isSome_some, if_true] at h; cases h
    · rw [if_neg hlt'] at hst
      rw [hst] at h
      obtain ⟨hv, hs'⟩ := hret h
      refine ⟨hv, k, sk, hk, h3, hs', gk.inv, hfk, hs' ▸ hfree, hbefore', ?_⟩
      intro m' rest' hm
      rw [hp] at hm
      cases hm
      exact fun hc' => hlt' ((c.lt_sent_iff m).mpr hc')


end SplitCfg
