import OnlVerif.Lemmas.TimerKFrame
import OnlVerif.Net.WireOnK
/-!
# The Wire on the kernel model: canonical configurations (definitions)

`A` is an abstract description of a kernel state of the program `WireOnK.body`: where the two processes are suspended,
which agenda entries exist, what the store holds, the arrival stamp of every packet.  `KInv s a` says that the kernel
state `s` *is* the configuration `a`.  `pred a` = the deliveries still to come, computed by `deliv` (the wire's own
arithmetic: taken from the store at `max(arrival, instant the server became free)`, then sleep `d - queued` if that is
positive) from the packets the configuration still holds and the source has still to send.
-/

namespace WireK
open WireOnK
open TimerK (lookup)

abbrev St := WSt ℚ
abbrev KS := KState ℚ St

/-- where `Wire.run` is -/
inductive WPhase where
  /-- not started: its `Initialize` entry `q` is in the agenda -/
  | init (q : QEntry ℚ)
  /-- blocked in `store.get()` (event `g`), called at `t0` -/
  | W (g : EvId) (t0 : ℚ) (nl nd : Nat)
  /-- `store.get()` (event `g`, called at `t0`) has been served with packet `id`: entry `q` -/
  | H (g : EvId) (id : Int) (q : QEntry ℚ) (t0 : ℚ) (nl nd : Nat)
  /-- propagating packet `id`: sleeping on timeout `t`, entry `q` -/
  | T (t : EvId) (id : Int) (q : QEntry ℚ) (nl nd : Nat)

/-- where the source is -/
inductive SPhase where
  | init (q : QEntry ℚ) (arr : List ℚ)
  /-- sleeping on the timeout (entry `q`) after which it puts packet `next`; `rest` still to come -/
  | wait (next : Nat) (rest : List ℚ) (q : QEntry ℚ)
  /-- the generator has returned: the process event (entry `q`) is triggered -/
  | ending (q : QEntry ℚ)
  | done

structure A where
  wire : WPhase
  src : SPhase
  /-- the `StorePut` event of the last `store.put`, triggered and not yet processed -/
  pend : Option (QEntry ℚ)
  /-- `store.items` -/
  items : List Int
  /-- `current_time` of the packets handed to `put` so far (packet `k` is the `k`-th) -/
  cts : List ℚ

def WPhase.entries : WPhase → List (QEntry ℚ)
  | .init q => [q]
  | .W _ _ _ _ => []
  | .H _ _ q _ _ _ => [q]
  | .T _ _ q _ _ => [q]

def SPhase.entries : SPhase → List (QEntry ℚ)
  | .init q _ => [q]
  | .wait _ _ q => [q]
  | .ending q => [q]
  | .done => []

def A.entries (a : A) : List (QEntry ℚ) := a.wire.entries ++ (a.src.entries ++ a.pend.toList)

def WPhase.getQ : WPhase → List EvId
  | .W g _ _ _ => [g]
  | _ => []

/-- kind, callbacks and outcome of a live event -/
def EvIs (s : KS) (e : EvId) (k : Kind) (cbs : List Cb) (out : Option Outcome) : Prop :=
  (s.ev e).kind = k ∧ (s.ev e).cbs = some cbs ∧ (s.ev e).out = out

/-- the store record of the wire -/
def storeRec (getQ : List EvId) (items : List Int) : ResRec :=
  { kind := .store, capacity := none, getQ := getQ, items := items }

/-! ## the kernel side of a configuration -/

def WireEv (s : KS) : WPhase → Prop
  | .init q => q.ev = 1 ∧ EvIs s 1 (.init 0) [.resume 0] (some (.ok .none)) ∧
      s.proc? 0 = some { st := .wStart q.time, target := some 1 }
  | .W g t0 nl nd => EvIs s g (.get 0) [.trigPut 0, .resume 0] none ∧
      s.proc? 0 = some { st := .wGet t0 nl nd, target := some g }
  | .H g id q t0 nl nd => q.ev = g ∧ EvIs s g (.get 0) [.trigPut 0, .resume 0] (some (.ok (.int id))) ∧
      s.proc? 0 = some { st := .wGet t0 nl nd, target := some g }
  | .T t id q nl nd => q.ev = t ∧ EvIs s t .timeout [.resume 0] (some (.ok .none)) ∧
      s.proc? 0 = some { st := .wTx id q.time nl nd, target := some t }

def SrcEv (s : KS) : SPhase → Prop
  | .init q arr => q.ev = 3 ∧ EvIs s 3 (.init 2) [.resume 2] (some (.ok .none)) ∧
      s.proc? 2 = some { st := .src q.time false 0 arr, target := some 3 } ∧ EvIs s 2 .proc [] none
  | .wait next rest q => EvIs s q.ev .timeout [.resume 2] (some (.ok .none)) ∧
      s.proc? 2 = some { st := .src q.time true next rest, target := some q.ev } ∧ EvIs s 2 .proc [] none
  | .ending q => q.ev = 2 ∧ EvIs s 2 .proc [] (some (.ok .none))
  | .done => True

/-- the kernel state `s` has the configuration `a` -/
structure KInv (s : KS) (a : A) : Prop where
  wf : AgendaWF s
  ag : s.agenda.Perm a.entries
  rsz : 0 < s.resources.size
  res : s.res 0 = storeRec a.wire.getQ a.items
  wire : WireEv s a.wire
  src : SrcEv s a.src
  pend : ∀ u, a.pend = some u → EvIs s u.ev (.put 0) [.trigGet 0] (some (.ok .none))
  c0 : lookup s.shared 0 = .int a.cts.length
  /-- `packet.current_time` of every packet handed to `put` so far -/
  ct : ∀ k, k < a.cts.length → lookup s.shared (10 + k) = TimeCell.enc (a.cts.getD k 0)

/-! ## the abstract side -/

variable (cfg : WireCfg ℚ) (losses delays : List ℚ)

/-- `current_time` of packet `id` -/
def A.ctOf (a : A) (id : Int) : ℚ := a.cts.getD id.toNat 0

/-- **the wire's own arithmetic**: the server is free from `fr`; it takes packet `(id, a)` at `max(a, fr)`; a lost packet
is dropped at once; another one leaves after `d - queued` more if that is positive, at once otherwise -/
def deliv : ℚ → Nat → Nat → List (Int × ℚ) → List (Int × ℚ)
  | _, _, _, [] => []
  | fr, nl, nd, (id, a) :: rest =>
    if isLost cfg (draw losses nl) then deliv (max fr a) (nlNext cfg nl) nd rest
    else
      let g := max fr a
      let t := if g - a < draw delays nd then a + draw delays nd else g
      (id, t) :: deliv t (nlNext cfg nl) (nd + 1) rest

/-- the packets a source at instant `t` whose next packet is `k` has still to send -/
def futureOf : ℚ → Nat → List ℚ → List (Int × ℚ)
  | _, _, [] => []
  | t, k, gap :: rest => ((k : Int), t + gap) :: futureOf (t + gap) (k + 1) rest

def SPhase.future (now : ℚ) : SPhase → List (Int × ℚ)
  | .init _ arr => futureOf now 0 arr
  | .wait next rest q => futureOf q.time next (0 :: rest)
  | _ => []

/-- the packets still to be served that the wire does not hold yet: those in the store, then those to come -/
def A.waiting (a : A) (now : ℚ) : List (Int × ℚ) := a.items.map (fun i => (i, a.ctOf i)) ++ a.src.future now

/-- **the deliveries still to come**, as determined by the configuration -/
def pred (a : A) (now : ℚ) : List (Int × ℚ) :=
  match a.wire with
  | .init _ => deliv cfg losses delays 0 0 0 (a.waiting now)
  | .W _ t0 nl nd => deliv cfg losses delays t0 nl nd (a.waiting now)
  | .H _ id _ t0 nl nd => deliv cfg losses delays t0 nl nd ((id, a.ctOf id) :: a.waiting now)
  | .T _ id q nl nd => (id, q.time) :: deliv cfg losses delays q.time nl nd (a.waiting now)

def GapsOK (l : List ℚ) : Prop := ∀ x ∈ l, 0 ≤ x

/-- the server is idle (blocked in `get` or not started) -/
def WPhase.idle : WPhase → Bool
  | .init _ => true
  | .W _ _ _ _ => true
  | _ => false

def WireA (a : A) (now : ℚ) : WPhase → Prop
  | .init q => q.time = now ∧ q.prio = URGENT ∧ a.items = [] ∧ a.pend = none ∧ now = 0
  | .W _ t0 _ _ => t0 ≤ now ∧ ∀ i ∈ a.items, a.ctOf i = now
  | .H _ id q t0 _ _ => q.time = now ∧ q.prio = NORMAL ∧ max t0 (a.ctOf id) = now ∧ 0 ≤ id ∧ id.toNat < a.cts.length
  | .T _ id q _ _ => q.prio = NORMAL ∧ 0 ≤ id ∧ id.toNat < a.cts.length

def SrcA (a : A) (now : ℚ) : SPhase → Prop
  | .init q arr => q.time = now ∧ q.prio = URGENT ∧ GapsOK arr ∧ a.pend = none ∧ a.cts = []
  | .wait next rest q => q.prio = NORMAL ∧ GapsOK rest ∧ next = a.cts.length ∧ ∀ u, a.pend = some u → u.eid < q.eid
  | .ending q => q.time = now ∧ q.prio = NORMAL
  | .done => True

/-- what holds of a configuration at instant `now` when `outs` have been delivered so far -/
structure AInv (arrivals : List ℚ) (a : A) (now : ℚ) (outs : List (Int × ℚ)) : Prop where
  wire : WireA a now a.wire
  src : SrcA a now a.src
  pend : ∀ u, a.pend = some u → u.time = now ∧ u.prio = NORMAL
  /-- a waiting packet beside an idle server means the `StorePut` event that will hand it over is pending -/
  idle : a.wire.idle = true → a.items ≠ [] → a.pend.isSome = true
  due : ∀ x ∈ a.entries, now ≤ x.time
  /-- the packets in the store are known packets, stamped no later than now -/
  its : ∀ i ∈ a.items, 0 ≤ i ∧ i.toNat < a.cts.length ∧ a.ctOf i ≤ now
  /-- delivered so far ++ still to come = what the wire's arithmetic gives for the whole workload -/
  ghost : outs ++ pred cfg losses delays a now = deliv cfg losses delays 0 0 0 (futureOf 0 0 arrivals)

/-- number of kernel steps a configuration still needs -/
def WPhase.mu : WPhase → Nat
  | .init _ => 1
  | .W _ _ _ _ => 0
  | .H _ _ _ _ _ _ => 2
  | .T _ _ _ _ _ => 1

def SPhase.mu : SPhase → Nat
  | .init _ arr => 4 * arr.length + 2
  | .wait _ rest _ => 4 * rest.length + 5
  | .ending _ => 1
  | .done => 0

def A.mu (a : A) : Nat := a.wire.mu + a.src.mu + (if a.pend.isSome then 1 else 0) + 2 * a.items.length

end WireK
