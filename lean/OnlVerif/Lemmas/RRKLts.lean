import OnlVerif.Lemmas.RRKRun
import OnlVerif.Lemmas.MultiQueueRun
import Mathlib.Algebra.BigOperators.Group.List.Basic
/-!
# The RR scheduler on the kernel model: every configuration step is accepted by the MultiQueueServer LTS

`toM a now` is the LTS state (`Net/MultiQueue.lean` with the record `RR.sched`) a configuration stands for.  For each
constructor of `AStep` the LTS accepts the corresponding action (`init`, `put`, `tokenHandoff`, `wake`, `pktResume`,
`sendInit`, `sendFire`, `sendDone`, or nothing) from `toM a` to `toM a'`; and the clock advance is an accepted `tick`.
-/

set_option linter.unusedSimpArgs false

namespace RRK
open RROnK QEntry MQ

/-! ## Python dicts whose keys are the flows seen so far -/

section dict
variable {β : Type}

/-- the dict with keys `keys` (in this order) and values `g` -/
def dictOf (keys : List Nat) (g : Nat → β) : List (Nat × β) := keys.map fun f => (f, g f)

theorem lookup_dictOf (keys : List Nat) (g : Nat → β) (f : Nat) :
    MQ.lookup (dictOf keys g) f = if f ∈ keys then some (g f) else none := by
  induction keys with
  | nil => simp [dictOf, MQ.lookup]
  | cons k r ih =>
    simp only [dictOf, List.map_cons, MQ.lookup, List.mem_cons]
    by_cases hk : k = f
    · subst hk; simp
    · have : ¬ f = k := fun h => hk h.symm
      simp only [hk, if_false, this, false_or]
      exact ih

theorem addKey_cons_ne (k f : Nat) (r : List Nat) (h : k ≠ f) : addKey (k :: r) f = k :: addKey r f := by
  unfold addKey
  have : (k :: r).contains f = r.contains f := by
    simp only [List.contains_cons]
    have : (f == k) = false := by simpa using fun h' => h h'.symm
    simp [this]
  rw [this]
  split <;> rfl

theorem addKey_of_mem (keys : List Nat) (f : Nat) (h : f ∈ keys) : addKey keys f = keys := by
  unfold addKey
  simp [h]

theorem addKey_of_not_mem (keys : List Nat) (f : Nat) (h : f ∉ keys) : addKey keys f = keys ++ [f] := by
  unfold addKey
  simp [h]

theorem setKey_dictOf (keys : List Nat) (hn : keys.Nodup) (g : Nat → β) (f : Nat) (v : β) :
    MQ.setKey (dictOf keys g) f v = dictOf (addKey keys f) (upd g f v) := by
  induction keys with
  | nil => simp [dictOf, MQ.setKey, addKey]
  | cons k r ih =>
    have hk := List.nodup_cons.mp hn
    by_cases hkf : k = f
    · subst hkf
      rw [addKey_of_mem _ _ List.mem_cons_self]
      simp only [dictOf, List.map_cons, MQ.setKey, if_true, upd_same, List.cons.injEq, true_and]
      apply List.map_congr_left
      intro x hx
      have : x ≠ k := fun h => hk.1 (h ▸ hx)
      rw [upd_ne _ _ _ _ this]
    · rw [addKey_cons_ne _ _ _ hkf]
      simp only [dictOf, List.map_cons, MQ.setKey, hkf, if_false, upd_ne _ _ _ _ hkf, List.cons.injEq, true_and]
      exact ih hk.2

theorem bump_dictOf (keys : List Nat) (hn : keys.Nodup) (c : Nat → Int) (f : Nat) (d : Int) (h0 : f ∉ keys → c f = 0) :
    MQ.bump (dictOf keys c) f d = dictOf (addKey keys f) (upd c f (c f + d)) := by
  induction keys with
  | nil => simp [dictOf, MQ.bump, addKey, h0 (by simp)]
  | cons k r ih =>
    have hk := List.nodup_cons.mp hn
    by_cases hkf : k = f
    · subst hkf
      rw [addKey_of_mem _ _ List.mem_cons_self]
      simp only [dictOf, List.map_cons, MQ.bump, if_true, upd_same, List.cons.injEq, true_and]
      apply List.map_congr_left
      intro x hx
      have : x ≠ k := fun h => hk.1 (h ▸ hx)
      rw [upd_ne _ _ _ _ this]
    · rw [addKey_cons_ne _ _ _ hkf]
      simp only [dictOf, List.map_cons, MQ.bump, hkf, if_false, upd_ne _ _ _ _ hkf, List.cons.injEq, true_and]
      exact ih hk.2 (fun h => h0 (by simp [h, Ne.symm hkf]))

theorem total_dictOf (keys : List Nat) (c : Nat → Int) : MQ.total (dictOf keys c) = (keys.map c).sum := by
  induction keys with
  | nil => rfl
  | cons k r ih => simp only [dictOf, List.map_cons, MQ.total, List.sum_cons] at ih ⊢; rw [ih]

theorem sumFrom_succ_right (c : Nat → Int) : ∀ (n f : Nat), sumFrom c f (n + 1) = sumFrom c f n + c (f + n)
  | 0, f => by simp [sumFrom]
  | n + 1, f => by
    have := sumFrom_succ_right c n (f + 1)
    simp only [sumFrom] at this ⊢
    rw [this, show f + 1 + n = f + (n + 1) by omega]
    ring

/-- `sum(queue_count.values())` over the keys is the sum over all flows when the other counters are 0 -/
theorem total_eq (c : Nat → Int) : ∀ (F : Nat) (keys : List Nat), keys.Nodup → (∀ f ∈ keys, f < F) →
    (∀ f, f < F → f ∉ keys → c f = 0) → MQ.total (dictOf keys c) = sumFrom c 0 F
  | 0, keys, _, hlt, _ => by
    cases keys with
    | nil => rfl
    | cons k r => exact absurd (hlt k List.mem_cons_self) (Nat.not_lt_zero _)
  | F + 1, keys, hn, hlt, h0 => by
    rw [sumFrom_succ_right, Nat.zero_add]
    by_cases hF : F ∈ keys
    · have hp := List.perm_cons_erase hF
      have ih := total_eq c F (keys.erase F) (hn.erase F)
        (fun f hf => by
          have h1 := hlt f (List.mem_of_mem_erase hf)
          have h2 : f ≠ F := fun h => (List.Nodup.mem_erase_iff hn).mp hf |>.1 h
          omega)
        (fun f hf hne => h0 f (by omega) (fun h => hne ((List.Nodup.mem_erase_iff hn).mpr ⟨by omega, h⟩)))
      rw [total_dictOf] at ih ⊢
      rw [(hp.map c).sum_eq, List.map_cons, List.sum_cons, ih]
      ring
    · have ih := total_eq c F keys hn
        (fun f hf => by
          have h1 := hlt f hf
          have h2 : f ≠ F := fun h => hF (h ▸ hf)
          omega)
        (fun f hf hne => h0 f (by omega) hne)
      rw [ih, h0 F (by omega) hF]
      ring

end dict

/-! ## the LTS state of a configuration -/

theorem foldl_addKey_mem (kc : List Nat) : ∀ (l : List Nat), (∀ f ∈ l, f ∈ kc) → l.foldl addKey kc = kc
  | [], _ => rfl
  | f :: r, h => by
    simp only [List.foldl_cons, addKey_of_mem _ _ (h f List.mem_cons_self)]
    exact foldl_addKey_mem kc r (fun x hx => h x (List.mem_cons_of_mem _ hx))

theorem foldl_addKey_append (kc : List Nat) : ∀ (l : List Nat), (kc ++ l).Nodup → l.foldl addKey kc = kc ++ l
  | [], _ => by simp
  | f :: r, h => by
    have hf : f ∉ kc := by
      intro hm
      have := List.nodup_append.mp h
      exact this.2.2 f hm f List.mem_cons_self rfl
    simp only [List.foldl_cons, addKey_of_not_mem _ _ hf]
    rw [foldl_addKey_append (kc ++ [f]) r (by simpa using h)]
    simp

theorem foldl_addKey_nil (l : List Nat) (h : l.Nodup) : l.foldl addKey [] = l := by
  simpa using foldl_addKey_append [] l (by simpa using h)

section toM
variable (flows : List Nat) (flow size : Int → Nat)

def ctlOf : RPhase → RR.Pc
  | .H _ i _ _ => .got i
  | .S _ i _ _ => .sent i
  | .T _ _ i _ _ => .sent i
  | .F _ i _ _ => .sent i
  | _ => .at 0

def phaseOf : RPhase → Phase ℚ
  | .init _ => .idle
  | .W _ => .waitToken
  | .K _ _ => .tokenHanded
  | .H _ _ id _ => .pktHanded (flow id) (pktOf flow size id)
  | .S _ _ id _ => .spawned (pktOf flow size id)
  | .T _ _ _ id q => .sending (pktOf flow size id) q.time
  | .F _ _ id _ => .finished (pktOf flow size id)

/-- the keys of `queue_count`: none before the first burst of `run`, the declared flows from then on -/
def ckeys : RPhase → List Nat
  | .init _ => []
  | _ => flows

@[simp] theorem ckeys_init (q : QEntry ℚ) : ckeys flows (.init q) = [] := rfl
@[simp] theorem ckeys_W (g : EvId) : ckeys flows (.W g) = flows := rfl
@[simp] theorem ckeys_K (g : EvId) (q : QEntry ℚ) : ckeys flows (.K g q) = flows := rfl
@[simp] theorem ckeys_H (g : EvId) (i : Nat) (id : Int) (q : QEntry ℚ) : ckeys flows (.H g i id q) = flows := rfl
@[simp] theorem ckeys_S (p : EvId) (i : Nat) (id : Int) (q : QEntry ℚ) : ckeys flows (.S p i id q) = flows := rfl
@[simp] theorem ckeys_T (p t : EvId) (i : Nat) (id : Int) (q : QEntry ℚ) : ckeys flows (.T p t i id q) = flows := rfl
@[simp] theorem ckeys_F (p : EvId) (i : Nat) (id : Int) (q : QEntry ℚ) : ckeys flows (.F p i id q) = flows := rfl

/-- **the LTS state a configuration stands for** -/
def toM (a : A) (now : ℚ) : MQState ℚ RR.Pc :=
  { now := now
    ctl := ctlOf a.run
    stores := dictOf a.keys fun f => (a.items f).map (pktOf flow size)
    hol := []
    queueCount := dictOf (ckeys flows a.run) a.cnt
    queueBytes := dictOf a.keys a.byt
    tokens := a.tokens
    phase := phaseOf flow size a.run
    currentPacket := a.cur.map (pktOf flow size)
    received := a.recv.toNat }

end toM

variable {F : Nat} {flow size : Int → Nat} {cfg : RR.Cfg ℚ}
variable {a : A} {now : ℚ} {q : QEntry ℚ}

theorem storeOf_toM (hi : AInv flow F cfg a now) (t : ℚ) (f : Nat) (hf : f < F) :
    storeOf (toM cfg.flows flow size a t).stores f = (a.items f).map (pktOf flow size) := by
  simp only [storeOf, lookupD, toM, lookup_dictOf]
  by_cases hk : f ∈ a.keys
  · simp [hk]
  · simp [hk, (hi.keysOK.2 f hf hk).1]

theorem flows_nodup (hi : AInv flow F cfg a now) : cfg.flows.Nodup :=
  hi.table.nodup_iff.mpr List.nodup_range

/-- `sum(queue_count.values())` over the declared flows is `total_packets` -/
theorem total_flows (hi : AInv flow F cfg a now) : MQ.total (dictOf cfg.flows a.cnt) = a.total F :=
  total_eq a.cnt F cfg.flows (flows_nodup hi) (fun f hf => (mem_flows hi f).mp hf)
    (fun f hf hk => absurd ((mem_flows hi f).mpr hf) hk)

theorem total_toM (hi : AInv flow F cfg a now) (t : ℚ) :
    MQ.total (toM cfg.flows flow size a t).queueCount = a.total F := by
  simp only [toM]
  cases hr : a.run with
  | init q0 =>
    have := hi.run
    rw [hr] at this
    have hz : a.total F = 0 := sumFrom_all_zero _ _ _ (fun j _ _ => this.2.2.2.2.2.1 j)
    rw [hz]; rfl
  | W g => exact total_flows hi
  | K g q0 => exact total_flows hi
  | H g i id q0 => exact total_flows hi
  | S p i id q0 => exact total_flows hi
  | T p t0 i id q0 => exact total_flows hi
  | F p i id q0 => exact total_flows hi

/-- a flow with a waiting or counted packet is a key -/
theorem mem_keys_of_items (hi : AInv flow F cfg a now) {f : Nat} (hf : f < F) (h : a.items f ≠ []) : f ∈ a.keys := by
  by_contra hk
  exact h (hi.keysOK.2 f hf hk).1

/-! ## the scan of the LTS loop -/

theorem sched_micro : (RR.sched cfg).micro = RR.micro cfg := rfl
theorem sched_reads : (RR.sched cfg).reads = RR.reads cfg := rfl

theorem settle_goto (n : Nat) (s : MQState ℚ RR.Pc) (k : RR.Pc)
    (h : RR.micro cfg (touch (RR.sched cfg) s).ctl (view (touch (RR.sched cfg) s)) = .goto k) :
    settle (RR.sched cfg) (n + 1) s = settle (RR.sched cfg) n { touch (RR.sched cfg) s with ctl := k } := by
  simp only [settle, sched_micro, h]

theorem settle_get (n : Nat) (s : MQState ℚ RR.Pc) (c : Nat) (k : RR.Pc)
    (h : RR.micro cfg (touch (RR.sched cfg) s).ctl (view (touch (RR.sched cfg) s)) = .get c k) :
    settle (RR.sched cfg) (n + 1) s = issueGet { touch (RR.sched cfg) s with ctl := k } c := by
  simp only [settle, sched_micro, h]

theorem settle_block (n : Nat) (s : MQState ℚ RR.Pc) (k : RR.Pc)
    (h : RR.micro cfg (touch (RR.sched cfg) s).ctl (view (touch (RR.sched cfg) s)) = .block k) :
    settle (RR.sched cfg) (n + 1) s = .ok (blockOnToken { touch (RR.sched cfg) s with ctl := k }) := by
  simp only [settle, sched_micro, h]

theorem upd_self (c : Nat → Int) (f : Nat) : upd c f (c f + 0) = c := by
  funext x
  by_cases h : x = f
  · subst h; simp
  · simp [upd_ne _ _ _ _ h]

/-- reading `queue_count[f]` for a key that is there changes nothing -/
theorem bump_zero_mem (kc : List Nat) (hn : kc.Nodup) (c : Nat → Int) (f : Nat) (hf : f ∈ kc) :
    MQ.bump (dictOf kc c) f 0 = dictOf kc c := by
  rw [bump_dictOf kc hn c f 0 (fun h => absurd hf h), addKey_of_mem _ _ hf, upd_self]

theorem cnt_dictOf (kc : List Nat) (c : Nat → Int) (f : Nat) (h0 : f ∉ kc → c f = 0) : MQ.cnt (dictOf kc c) f = c f := by
  simp only [MQ.cnt, lookup_dictOf]
  by_cases hk : f ∈ kc
  · simp [hk]
  · simp [hk, h0 hk]

/-- at entry `i` of the `for` loop the LTS reads `queue_count[flows[i]]`; the key is there: nothing changes -/
theorem touch_at (S : MQState ℚ RR.Pc) (kc : List Nat) (c : Nat → Int) (hS : S.queueCount = dictOf kc c) (hn : kc.Nodup)
    {i f : Nat} (hsome : cfg.flows[i]? = some f) (hf : f ∈ kc) :
    touch (RR.sched cfg) { S with ctl := .at i } = { S with ctl := .at i } := by
  have : MQ.bump S.queueCount f 0 = S.queueCount := by rw [hS]; exact bump_zero_mem kc hn c f hf
  simp only [touch, sched_reads, RR.reads, hsome, this]

theorem touch_at_end (S : MQState ℚ RR.Pc) {i : Nat} (hnone : cfg.flows[i]? = none) :
    touch (RR.sched cfg) { S with ctl := .at i } = { S with ctl := .at i } := by
  simp only [touch, sched_reads, RR.reads, hnone]

theorem touch_endPass (S : MQState ℚ RR.Pc) (h : S.ctl = .endPass) : touch (RR.sched cfg) S = S := by
  simp only [touch, sched_reads, RR.reads, h]

/-- the `for` loop of the LTS (`RR.micro` under `settle`) from entry `i`, all keys being there: it stops at the first
backlogged entry, or goes on to `endPass` -/
theorem settle_scan (c : Nat → Int) (kc : List Nat) (hn : kc.Nodup) (m : Nat) :
    ∀ (suffix : List Nat) (i : Nat) (S : MQState ℚ RR.Pc),
    cfg.flows.drop i = suffix → S.queueCount = dictOf kc c → (∀ f ∈ suffix, f ∈ kc) →
    (∀ f ∈ suffix, 0 < c f → (MQ.lookup S.stores f).isSome = true) →
    settle (RR.sched cfg) (suffix.length + 1 + m) { S with ctl := .at i } =
      match firstHit c i suffix with
      | some (j, f) => issueGet { S with ctl := .got j } f
      | none => settle (RR.sched cfg) m { S with ctl := .endPass }
  | [], i, S, hd, _, _, _ => by
    have hnone : cfg.flows[i]? = none := by
      rw [List.getElem?_eq_none_iff]
      exact List.drop_eq_nil_iff.mp hd
    simp only [List.length_nil, Nat.zero_add, firstHit]
    rw [show 1 + m = m + 1 by omega, settle_goto m _ .endPass (by rw [touch_at_end S hnone]; simp only [RR.micro, hnone]),
      touch_at_end S hnone]
  | f :: rest, i, S, hd, hS, hk, hst => by
    have hsome : cfg.flows[i]? = some f := by
      have := congrArg List.head? hd
      simpa [List.head?_drop] using this
    have hd' : cfg.flows.drop (i + 1) = rest := by
      have := congrArg List.tail hd
      simpa [List.tail_drop] using this
    have ih := settle_scan c kc hn m rest (i + 1) S hd' hS (fun x hx => hk x (List.mem_cons_of_mem _ hx))
      (fun x hx => hst x (List.mem_cons_of_mem _ hx))
    have hfk := hk f List.mem_cons_self
    have ht := touch_at S kc c hS hn hsome hfk
    have hcnt : MQ.cnt S.queueCount f = c f := by rw [hS]; exact cnt_dictOf kc c f (fun h => absurd hfk h)
    simp only [List.length_cons]
    rw [show rest.length + 1 + 1 + m = (rest.length + 1 + m) + 1 by omega]
    simp only [firstHit]
    by_cases hpos : 0 < c f
    · have hs := hst f List.mem_cons_self hpos
      rw [settle_get _ _ f (.got i) (by rw [ht]; simp only [RR.micro, hsome, view, hcnt, hpos, if_true, hs]), ht]
      simp only [hpos, if_true]
    · rw [settle_goto _ _ (.at (i + 1)) (by rw [ht]; simp only [RR.micro, hsome, view, hcnt, hpos, if_false]), ht]
      simp only [hpos, if_false]
      exact ih

/-- the first burst of `run`: every counter is 0, every read inserts its key -/
theorem settle_scan_init (c : Nat → Int) (hz : ∀ f, c f = 0) (hn : cfg.flows.Nodup) (m : Nat) :
    ∀ (suffix : List Nat) (i : Nat) (S : MQState ℚ RR.Pc),
    cfg.flows.drop i = suffix → S.queueCount = dictOf (cfg.flows.take i) c →
    settle (RR.sched cfg) (suffix.length + 1 + m) { S with ctl := .at i } =
      settle (RR.sched cfg) m { S with ctl := .endPass, queueCount := dictOf cfg.flows c }
  | [], i, S, hd, hS => by
    have hlen : cfg.flows.length ≤ i := List.drop_eq_nil_iff.mp hd
    have hnone : cfg.flows[i]? = none := by rw [List.getElem?_eq_none_iff]; exact hlen
    simp only [List.length_nil, Nat.zero_add]
    rw [show 1 + m = m + 1 by omega, settle_goto m _ .endPass (by rw [touch_at_end S hnone]; simp only [RR.micro, hnone]),
      touch_at_end S hnone]
    have : S.queueCount = dictOf cfg.flows c := by rw [hS, List.take_of_length_le hlen]
    rw [← this]
  | f :: rest, i, S, hd, hS => by
    have hsome : cfg.flows[i]? = some f := by
      have := congrArg List.head? hd
      simpa [List.head?_drop] using this
    have hd' : cfg.flows.drop (i + 1) = rest := by
      have := congrArg List.tail hd
      simpa [List.tail_drop] using this
    have hilt : i < cfg.flows.length := (List.getElem?_eq_some_iff.mp hsome).1
    have hfi : cfg.flows[i] = f := (List.getElem?_eq_some_iff.mp hsome).2
    have htake : cfg.flows.take (i + 1) = cfg.flows.take i ++ [f] := by
      rw [List.take_add_one, hsome]; rfl
    have hnk : f ∉ cfg.flows.take i := by
      intro hm
      have hnd : (cfg.flows.take (i + 1)).Nodup := hn.sublist (List.take_sublist _ _)
      rw [htake] at hnd
      exact (List.nodup_append.mp hnd).2.2 f hm f (by simp) rfl
    have hnt : (cfg.flows.take i).Nodup := hn.sublist (List.take_sublist _ _)
    have hb : MQ.bump S.queueCount f 0 = dictOf (cfg.flows.take (i + 1)) c := by
      rw [hS, bump_dictOf _ hnt c f 0 (fun _ => hz f), addKey_of_not_mem _ _ hnk, upd_self, htake]
    have ht : touch (RR.sched cfg) { S with ctl := .at i } =
        { S with ctl := .at i, queueCount := dictOf (cfg.flows.take (i + 1)) c } := by
      simp only [touch, sched_reads, RR.reads, hsome, hb]
    have hcnt : MQ.cnt (dictOf (cfg.flows.take (i + 1)) c) f = c f := cnt_dictOf _ c f (fun _ => hz f)
    have hnpos : ¬ 0 < c f := by rw [hz f]; exact lt_irrefl _
    simp only [List.length_cons]
    rw [show rest.length + 1 + 1 + m = (rest.length + 1 + m) + 1 by omega]
    rw [settle_goto _ _ (.at (i + 1)) (by rw [ht]; simp only [RR.micro, hsome, view, hcnt, hnpos, if_false]), ht]
    exact settle_scan_init c hz hn m rest (i + 1) { S with queueCount := dictOf (cfg.flows.take (i + 1)) c } hd' rfl

/-! ## runs of the LTS -/

/-- accepted runs compose -/
theorem runActs_append (sc : Sched ℚ RR.Pc) (as bs : List (MAct ℚ)) (s s1 s2 : MQState ℚ RR.Pc)
    (i1 o1 i2 o2 : List MPkt) (h1 : runActs sc s as = .ok (s1, i1, o1)) (h2 : runActs sc s1 bs = .ok (s2, i2, o2)) :
    runActs sc s (as ++ bs) = .ok (s2, i1 ++ i2, o1 ++ o2) := by
  induction as generalizing s i1 o1 with
  | nil =>
    simp only [runActs, Except.ok.injEq, Prod.mk.injEq] at h1
    obtain ⟨rfl, rfl, rfl⟩ := h1
    simpa using h2
  | cons x xs ih =>
    simp only [runActs, List.cons_append] at h1 ⊢
    split at h1
    · cases h1
    · rename_i s' o hst
      split at h1
      · cases h1
      · rename_i s'' ins outs hr
        simp only [Except.ok.injEq, Prod.mk.injEq] at h1
        obtain ⟨rfl, rfl, rfl⟩ := h1
        rw [ih s' ins outs hr]
        simp

/-- what the LTS side of a configuration step delivers: an accepted action sequence into the new configuration's LTS
state, with the packets that entered and left -/
def LtsOK (flow size : Int → Nat) (cfg : RR.Cfg ℚ) (a : A) (t : ℚ) (a' : A) (ins outs : List MPkt) : Prop :=
  ∃ acts, runActs (RR.sched cfg) (toM cfg.flows flow size a t) acts = .ok (toM cfg.flows flow size a' t, ins, outs)

theorem ltsOK_nothing {a' : A} {t : ℚ} (h : toM cfg.flows flow size a' t = toM cfg.flows flow size a t) : LtsOK flow size cfg a t a' [] [] :=
  ⟨[], by rw [h]; rfl⟩

/-- the packet an action brings in / an output sends out -/
def insOf : MAct ℚ → List MPkt
  | .put p => [p]
  | _ => []
def outOf : MOut ℚ → List MPkt
  | .depart p => [p]
  | _ => []

theorem ltsOK_one {a' : A} {t : ℚ} (act : MAct ℚ) (o : MOut ℚ)
    (h : MQ.step (RR.sched cfg) (toM cfg.flows flow size a t) act = .ok (toM cfg.flows flow size a' t, o)) :
    LtsOK flow size cfg a t a' (insOf act) (outOf o) := by
  refine ⟨[act], ?_⟩
  simp only [runActs, h]
  cases act <;> cases o <;> rfl

/-! ### the three ways a burst of the loop ends -/

theorem upd_map (items : Nat → List Int) (f : Nat) (is : List Int) (g : Int → MPkt) :
    upd (fun f' => (items f').map g) f (is.map g) = fun f' => (upd items f is f').map g := by
  funext f'
  by_cases h : f' = f
  · subst h; simp
  · simp [upd_ne _ _ _ _ h]

variable {n e : Nat} {t : ℚ}

theorem hasStore_toM (hi : AInv flow F cfg a now) (S : MQState ℚ RR.Pc) (hst : S.stores = (toM cfg.flows flow size a t).stores) :
    ∀ f ∈ cfg.flows, 0 < a.cnt f → (MQ.lookup S.stores f).isSome = true := by
  intro f hf hpos
  have hk := key_of_cnt hi f ((mem_flows hi f).mp hf) hpos
  rw [hst]
  simp [toM, lookup_dictOf, hk]

/-- a burst of the LTS loop from entry `i` that takes a packet -/
theorem settle_pass_hit (hi : AInv flow F cfg a now) (S : MQState ℚ RR.Pc) (hq : S.queueCount = dictOf cfg.flows a.cnt)
    (hst : S.stores = (toM cfg.flows flow size a t).stores) {i j f : Nat} (hs : a.loop F cfg.flows i = .hit j f) (N : Nat)
    (hN : 2 * cfg.flows.length + 4 ≤ N) :
    settle (RR.sched cfg) N { S with ctl := .at i } = issueGet { S with ctl := .got j } f := by
  have hn := flows_nodup hi
  have hlen : (cfg.flows.drop i).length ≤ cfg.flows.length := by simp
  have hstore := hasStore_toM hi S hst
  unfold A.loop at hs
  cases h1 : firstHit a.cnt i (cfg.flows.drop i) with
  | some jf =>
    rw [h1] at hs
    obtain ⟨j', f'⟩ := jf
    simp only [LoopEnd.hit.injEq] at hs
    obtain ⟨rfl, rfl⟩ := hs
    obtain ⟨m, rfl⟩ : ∃ m, N = (cfg.flows.drop i).length + 1 + m := ⟨N - ((cfg.flows.drop i).length + 1), by omega⟩
    rw [settle_scan a.cnt cfg.flows hn m _ i S rfl hq (fun f hf => List.mem_of_mem_drop hf)
      (fun f hf => hstore f (List.mem_of_mem_drop hf)), h1]
  | none =>
    rw [h1] at hs
    simp only at hs
    by_cases ht : a.total F = 0
    · rw [if_pos ht] at hs; cases hs
    · rw [if_neg ht] at hs
      cases h2 : firstHit a.cnt 0 cfg.flows with
      | none => rw [h2] at hs; cases hs
      | some jf =>
        rw [h2] at hs
        obtain ⟨j', f'⟩ := jf
        simp only [LoopEnd.hit.injEq] at hs
        obtain ⟨rfl, rfl⟩ := hs
        obtain ⟨m, rfl⟩ : ∃ m, N = (cfg.flows.drop i).length + 1 + (cfg.flows.length + 1 + m + 1) :=
          ⟨N - ((cfg.flows.drop i).length + 1 + (cfg.flows.length + 1 + 1)), by omega⟩
        rw [settle_scan a.cnt cfg.flows hn _ _ i S rfl hq (fun f hf => List.mem_of_mem_drop hf)
          (fun f hf => hstore f (List.mem_of_mem_drop hf)), h1]
        simp only
        have htot : ¬ MQ.total ({ S with ctl := RR.Pc.endPass } : MQState ℚ RR.Pc).queueCount = 0 := by
          show ¬ MQ.total S.queueCount = 0
          rw [hq, total_flows hi]; exact ht
        rw [settle_goto _ _ (.at 0) (by rw [touch_endPass _ rfl]; simp only [RR.micro, view, htot, if_false]), touch_endPass _ rfl]
        have := settle_scan (cfg := cfg) a.cnt cfg.flows hn m cfg.flows 0 S (by simp) hq (fun f hf => hf) hstore
        rw [h2] at this
        exact this

/-- a burst of the LTS loop from entry `i` that finds `total_packets == 0` -/
theorem settle_pass_idle (hi : AInv flow F cfg a now) (S : MQState ℚ RR.Pc) (hq : S.queueCount = dictOf cfg.flows a.cnt)
    (hst : S.stores = (toM cfg.flows flow size a t).stores) {i : Nat} (hs : a.loop F cfg.flows i = .idle) (N : Nat)
    (hN : 2 * cfg.flows.length + 4 ≤ N) :
    settle (RR.sched cfg) N { S with ctl := .at i } = .ok (blockOnToken { S with ctl := .at 0 }) := by
  have hn := flows_nodup hi
  have hlen : (cfg.flows.drop i).length ≤ cfg.flows.length := by simp
  have hstore := hasStore_toM hi S hst
  have ht := loop_idle_total hs
  unfold A.loop at hs
  cases h1 : firstHit a.cnt i (cfg.flows.drop i) with
  | some jf => rw [h1] at hs; cases hs
  | none =>
    obtain ⟨m, rfl⟩ : ∃ m, N = (cfg.flows.drop i).length + 1 + (m + 1) :=
      ⟨N - ((cfg.flows.drop i).length + 1 + 1), by omega⟩
    rw [settle_scan a.cnt cfg.flows hn _ _ i S rfl hq (fun f hf => List.mem_of_mem_drop hf)
      (fun f hf => hstore f (List.mem_of_mem_drop hf)), h1]
    simp only
    have htot : MQ.total ({ S with ctl := RR.Pc.endPass } : MQState ℚ RR.Pc).queueCount = 0 := by
      show MQ.total S.queueCount = 0
      rw [hq, total_flows hi]; exact ht
    rw [settle_block _ _ (.at 0) (by rw [touch_endPass _ rfl]; simp only [RR.micro, view, htot, if_true]), touch_endPass _ rfl]

/-- the loop takes the head of `stores[f]` -/
theorem issueGet_toM (hi : AInv flow F cfg a now) (hn : a.keys.Nodup) (hck : ckeys cfg.flows a.run = cfg.flows) {i f : Nat}
    {id : Int} {is : List Int} (hf : f < F) (hit : a.items f = id :: is) (q' : QEntry ℚ) (g : EvId) :
    issueGet { toM cfg.flows flow size a t with phase := .running, ctl := .got i } f =
      .ok (toM cfg.flows flow size { a with run := .H g i id q', items := upd a.items f is } t) := by
  have hfl : flow id = f := hi.flowOK f hf id (by rw [hit]; simp)
  have hk : f ∈ a.keys := mem_keys_of_items hi hf (by rw [hit]; simp)
  have hs : storeOf (toM cfg.flows flow size a t).stores f = pktOf flow size id :: is.map (pktOf flow size) := by
    rw [storeOf_toM hi t f hf, hit]; rfl
  have hs' : storeOf ({ toM cfg.flows flow size a t with phase := Phase.running, ctl := RR.Pc.got i } : MQState ℚ RR.Pc).stores f =
      pktOf flow size id :: is.map (pktOf flow size) := hs
  simp only [issueGet, hs']
  congr 1
  simp only [toM, ctlOf, phaseOf, hck, ckeys_init, ckeys_W, ckeys_K, ckeys_H, ckeys_S, ckeys_T, ckeys_F, hfl, setKey_dictOf _ hn, addKey_of_mem _ _ hk, upd_map]

/-- the loop blocks on the wake-up store or takes a token that is there -/
theorem blockOnToken_toM_zero (hck : ckeys cfg.flows a.run = cfg.flows) (htk : a.tokens = 0) (g : EvId) :
    blockOnToken { toM cfg.flows flow size a t with phase := .running, ctl := .at 0 } =
      toM cfg.flows flow size { a with run := .W g } t := by
  simp only [blockOnToken, toM, htk, ctlOf, phaseOf, hck, ckeys_init, ckeys_W, ckeys_K, ckeys_H, ckeys_S, ckeys_T, ckeys_F]

theorem blockOnToken_toM_succ {k : Nat} (hck : ckeys cfg.flows a.run = cfg.flows) (htk : a.tokens = k + 1) (g : EvId)
    (q' : QEntry ℚ) :
    blockOnToken { toM cfg.flows flow size a t with phase := .running, ctl := .at 0 } =
      toM cfg.flows flow size { a with run := .K g q', tokens := k } t := by
  simp only [blockOnToken, toM, htk, ctlOf, phaseOf, hck, ckeys_init, ckeys_W, ckeys_K, ckeys_H, ckeys_S, ckeys_T, ckeys_F]

/-- a burst of the loop of a configuration, from entry `i` -/
theorem settle_toM_hit (hi : AInv flow F cfg a now) (hck : ckeys cfg.flows a.run = cfg.flows) {i j f : Nat}
    (hs : a.loop F cfg.flows i = .hit j f) (N : Nat) (hN : 2 * cfg.flows.length + 4 ≤ N) :
    settle (RR.sched cfg) N { toM cfg.flows flow size a t with phase := .running, ctl := .at i } =
      issueGet { toM cfg.flows flow size a t with phase := .running, ctl := .got j } f :=
  settle_pass_hit (size := size) (t := t) hi { toM cfg.flows flow size a t with phase := .running }
    (by simp only [toM, hck]) rfl hs N hN

theorem settle_toM_idle (hi : AInv flow F cfg a now) (hck : ckeys cfg.flows a.run = cfg.flows) {i : Nat}
    (hs : a.loop F cfg.flows i = .idle) (N : Nat) (hN : 2 * cfg.flows.length + 4 ≤ N) :
    settle (RR.sched cfg) N { toM cfg.flows flow size a t with phase := .running, ctl := .at i } =
      .ok (blockOnToken { toM cfg.flows flow size a t with phase := .running, ctl := .at 0 }) :=
  settle_pass_idle (size := size) (t := t) hi { toM cfg.flows flow size a t with phase := .running }
    (by simp only [toM, hck]) rfl hs N hN

/-- the first burst of the loop: it reads every counter (the keys appear in declaration order) and blocks -/
theorem settle_toM_init (hi : AInv flow F cfg a now) {q0 : QEntry ℚ} (h : a.run = .init q0) (hcn : ∀ f, a.cnt f = 0)
    (htk : a.tokens = 0) (g : EvId) (N : Nat) (hN : cfg.flows.length + 2 ≤ N) :
    settle (RR.sched cfg) N { toM cfg.flows flow size a t with phase := .running, ctl := .at 0 } =
      .ok (toM cfg.flows flow size { a with run := .W g } t) := by
  obtain ⟨m, rfl⟩ : ∃ m, N = cfg.flows.length + 1 + (m + 1) := ⟨N - (cfg.flows.length + 2), by omega⟩
  have := settle_scan_init (cfg := cfg) a.cnt hcn (flows_nodup hi) (m + 1) cfg.flows 0
    { toM cfg.flows flow size a t with phase := .running } (by simp) (by simp [toM, h, dictOf])
  refine this.trans ?_
  have htot : MQ.total (dictOf cfg.flows a.cnt) = 0 := by
    rw [total_flows hi]; exact sumFrom_all_zero _ _ _ (fun j _ _ => hcn j)
  rw [settle_block _ _ (.at 0) (by rw [touch_endPass _ rfl]; simp only [RR.micro, view, htot, if_true]), touch_endPass _ rfl]
  simp only [blockOnToken, toM, htk, ctlOf, phaseOf, h, ckeys_init, ckeys_W, ckeys_K, ckeys_H, ckeys_S, ckeys_T, ckeys_F]

/-- the history events of a step as LTS inputs / outputs -/
def putPk (flow size : Int → Nat) : List (HEv ℚ) → List MPkt
  | [] => []
  | .put id _ :: r => pktOf flow size id :: putPk flow size r
  | _ :: r => putPk flow size r

def outPk (flow size : Int → Nat) : List (HEv ℚ) → List MPkt
  | [] => []
  | .out id _ :: r => pktOf flow size id :: outPk flow size r
  | _ :: r => outPk flow size r

theorem txTime_eq (id : Int) : MQ.txTime (RR.sched cfg) (pktOf flow size id) = RROnK.txTime size cfg.rate id := rfl

/-- **every configuration step is accepted by the LTS** -/
theorem lts_step {a' : A} {new : List (HEv ℚ)} (hi : AInv flow F cfg a q.time) (hmin : IsMin a q) (hn : a.keys.Nodup)
    (hrecv : 0 ≤ a.recv) (hs : AStep F flow size cfg n e a q a' new) :
    LtsOK flow size cfg a q.time a' (putPk flow size new) (outPk flow size new) := by
  have hrun := hi.run
  have hfuel : 2 * cfg.flows.length + 4 ≤ 2 * cfg.flows.length + 6 := by omega
  have hfn := flows_nodup hi
  cases hs with
  | runInit h =>
    rw [h] at hrun
    obtain ⟨-, -, htk, -, hit, hcn, -, -⟩ := hrun
    refine ltsOK_one .init .nothing ?_
    have hph : (toM cfg.flows flow size a q.time).phase = .idle := by simp [toM, phaseOf, h]
    have hctl : ({ toM cfg.flows flow size a q.time with phase := Phase.running } : MQState ℚ RR.Pc) =
        { toM cfg.flows flow size a q.time with phase := .running, ctl := .at 0 } := by simp [toM, ctlOf, h]
    simp only [MQ.step, hph, resumeLoop, RR.sched, hctl]
    show withOut _ (settle (RR.sched cfg) (2 * cfg.flows.length + 6) _) = _
    rw [settle_toM_init hi h hcn htk n _ (by omega)]
    rfl
  | wakeHit g j f id is h hs hf hit =>
    refine ltsOK_one .wake .nothing ?_
    have hck : ckeys cfg.flows a.run = cfg.flows := by simp [h]
    have hph : (toM cfg.flows flow size a q.time).phase = .tokenHanded := by simp [toM, phaseOf, h]
    have hctl : ({ toM cfg.flows flow size a q.time with phase := Phase.running } : MQState ℚ RR.Pc) =
        { toM cfg.flows flow size a q.time with phase := .running, ctl := .at 0 } := by simp [toM, ctlOf, h]
    simp only [MQ.step, hph, resumeLoop, RR.sched, hctl]
    show withOut _ (settle (RR.sched cfg) (2 * cfg.flows.length + 6) _) = _
    rw [settle_toM_hit hi hck hs _ hfuel, issueGet_toM hi hn hck hf hit]
    rfl
  | wakeBlock g h hs htk =>
    refine ltsOK_one .wake .nothing ?_
    have hck : ckeys cfg.flows a.run = cfg.flows := by simp [h]
    have hph : (toM cfg.flows flow size a q.time).phase = .tokenHanded := by simp [toM, phaseOf, h]
    have hctl : ({ toM cfg.flows flow size a q.time with phase := Phase.running } : MQState ℚ RR.Pc) =
        { toM cfg.flows flow size a q.time with phase := .running, ctl := .at 0 } := by simp [toM, ctlOf, h]
    simp only [MQ.step, hph, resumeLoop, RR.sched, hctl]
    show withOut _ (settle (RR.sched cfg) (2 * cfg.flows.length + 6) _) = _
    rw [settle_toM_idle hi hck hs _ hfuel, blockOnToken_toM_zero hck htk n]
    rfl
  | wakeTok g t h hs htk =>
    refine ltsOK_one .wake .nothing ?_
    have hck : ckeys cfg.flows a.run = cfg.flows := by simp [h]
    have hph : (toM cfg.flows flow size a q.time).phase = .tokenHanded := by simp [toM, phaseOf, h]
    have hctl : ({ toM cfg.flows flow size a q.time with phase := Phase.running } : MQState ℚ RR.Pc) =
        { toM cfg.flows flow size a q.time with phase := .running, ctl := .at 0 } := by simp [toM, ctlOf, h]
    simp only [MQ.step, hph, resumeLoop, RR.sched, hctl]
    show withOut _ (settle (RR.sched cfg) (2 * cfg.flows.length + 6) _) = _
    rw [settle_toM_idle hi hck hs _ hfuel, blockOnToken_toM_succ hck htk n _]
    rfl
  | pktResume g i id h =>
    refine ltsOK_one .pktResume .nothing ?_
    have hph : (toM cfg.flows flow size a q.time).phase = .pktHanded (flow id) (pktOf flow size id) := by simp [toM, phaseOf, h]
    have hc : (toM cfg.flows flow size a q.time).ctl = .got i := by simp [toM, ctlOf, h]
    simp only [MQ.step, hph, doPktResume, RR.sched, RR.onPkt, hc, spawn]
    simp only [toM, ctlOf, phaseOf, h, ckeys_init, ckeys_W, ckeys_K, ckeys_H, ckeys_S, ckeys_T, ckeys_F, Bool.false_eq_true, if_false]
  | sendInit p i id h =>
    refine ltsOK_one .sendInit (.started (pktOf flow size id) (q.time + RROnK.txTime size cfg.rate id)) ?_
    have hph : (toM cfg.flows flow size a q.time).phase = .spawned (pktOf flow size id) := by simp [toM, phaseOf, h]
    simp only [MQ.step, hph, txTime_eq]
    simp only [toM, ctlOf, phaseOf, h, ckeys_init, ckeys_W, ckeys_K, ckeys_H, ckeys_S, ckeys_T, ckeys_F, Option.map_some]
  | sendFire p t i id h =>
    rw [h] at hrun
    obtain ⟨-, hcur, hfid⟩ := hrun
    have hheld : a.run.held = some id := by simp [h, RPhase.held]
    have hk : flow id ∈ a.keys := by
      by_contra hk
      have h1 := (hi.keysOK.2 _ hfid hk).2.1
      have h2 := hi.cntOK _ hfid
      simp only [heldCnt, hheld, if_true] at h2
      omega
    have hkf : flow id ∈ cfg.flows := (mem_flows hi _).mpr hfid
    refine ltsOK_one .sendFire (.depart (pktOf flow size id)) ?_
    have hph : (toM cfg.flows flow size a q.time).phase = .sending (pktOf flow size id) q.time := by simp [toM, phaseOf, h]
    have hnow : (toM cfg.flows flow size a q.time).now = q.time := rfl
    simp only [MQ.step, hph, hnow, lt_irrefl, if_false, countOut]
    simp only [toM, ctlOf, phaseOf, h, ckeys_init, ckeys_W, ckeys_K, ckeys_H, ckeys_S, ckeys_T, ckeys_F, pktOf, bump_dictOf _ hn _ _ _ (fun h0 => absurd hk h0), addKey_of_mem _ _ hk,
      bump_dictOf _ hfn _ _ _ (fun h0 => absurd hkf h0), addKey_of_mem _ _ hkf, Option.map_none]
  | doneHit p i id0 j f id is h hs hf hit =>
    refine ltsOK_one .sendDone .nothing ?_
    have hck : ckeys cfg.flows a.run = cfg.flows := by simp [h]
    have hph : (toM cfg.flows flow size a q.time).phase = .finished (pktOf flow size id0) := by simp [toM, phaseOf, h]
    have hc : (toM cfg.flows flow size a q.time).ctl = .sent i := by simp [toM, ctlOf, h]
    simp only [MQ.step, hph, doSendDone, RR.sched, RR.onDone, hc, resumeLoop]
    show withOut _ (settle (RR.sched cfg) (2 * cfg.flows.length + 6)
      { toM cfg.flows flow size a q.time with phase := .running, ctl := .at (i + 1) }) = _
    rw [settle_toM_hit hi hck hs _ hfuel, issueGet_toM hi hn hck hf hit]
    rfl
  | doneBlock p i id0 h hs htk =>
    refine ltsOK_one .sendDone .nothing ?_
    have hck : ckeys cfg.flows a.run = cfg.flows := by simp [h]
    have hph : (toM cfg.flows flow size a q.time).phase = .finished (pktOf flow size id0) := by simp [toM, phaseOf, h]
    have hc : (toM cfg.flows flow size a q.time).ctl = .sent i := by simp [toM, ctlOf, h]
    simp only [MQ.step, hph, doSendDone, RR.sched, RR.onDone, hc, resumeLoop]
    show withOut _ (settle (RR.sched cfg) (2 * cfg.flows.length + 6)
      { toM cfg.flows flow size a q.time with phase := .running, ctl := .at (i + 1) }) = _
    rw [settle_toM_idle hi hck hs _ hfuel, blockOnToken_toM_zero hck htk n]
    rfl
  | doneTok p i id0 t h hs htk =>
    refine ltsOK_one .sendDone .nothing ?_
    have hck : ckeys cfg.flows a.run = cfg.flows := by simp [h]
    have hph : (toM cfg.flows flow size a q.time).phase = .finished (pktOf flow size id0) := by simp [toM, phaseOf, h]
    have hc : (toM cfg.flows flow size a q.time).ctl = .sent i := by simp [toM, ctlOf, h]
    simp only [MQ.step, hph, doSendDone, RR.sched, RR.onDone, hc, resumeLoop]
    show withOut _ (settle (RR.sched cfg) (2 * cfg.flows.length + 6)
      { toM cfg.flows flow size a q.time with phase := .running, ctl := .at (i + 1) }) = _
    rw [settle_toM_idle hi hck hs _ hfuel, blockOnToken_toM_succ hck htk n _]
    rfl
  | srcInit arr h => exact ltsOK_nothing rfl
  | srcPutTok id arr h htot =>
    have hs := hi.src
    rw [h] at hs
    obtain ⟨hqp, hfid, -⟩ := hs
    have hck : ckeys cfg.flows a.run = cfg.flows := by
      cases hr : a.run with
      | init q0 =>
        rw [hr] at hrun
        exact (hi.not_prio_lt hmin (mem_run (by simp [hr, RPhase.entries])) hrun.1 (by rw [hrun.2.1, hqp]; decide)).elim
      | _ => rfl
    have hkf : flow id ∈ cfg.flows := (mem_flows hi _).mpr hfid
    have hst := storeOf_toM (size := size) hi q.time (flow id) hfid
    have h0b : flow id ∉ a.keys → a.byt (flow id) = 0 := fun hk => (hi.keysOK.2 _ hfid hk).2.2
    have hrc : (a.recv + 1).toNat = a.recv.toNat + 1 := by omega
    show LtsOK flow size cfg a q.time _ (insOf (.put (pktOf flow size id))) (outOf .accepted)
    refine ltsOK_one (.put (pktOf flow size id)) .accepted ?_
    have ht : MQ.total (toM cfg.flows flow size a q.time).queueCount = 0 := by rw [total_toM hi]; exact htot
    have ht' : MQ.total ({ toM cfg.flows flow size a q.time with ctl := (toM cfg.flows flow size a q.time).ctl } : MQState ℚ RR.Pc).queueCount = 0 := ht
    have hst' : storeOf (dictOf a.keys fun f => List.map (pktOf flow size) (a.items f)) (flow id) =
        List.map (pktOf flow size) (a.items (flow id)) := hst
    simp only [MQ.step, MQ.doPut, RR.sched, postToken, ht', if_true, countIn, enqueue]
    simp only [toM, pktOf, hck, hst', setKey_dictOf _ hn, bump_dictOf _ hfn _ _ _ (fun h0 => absurd hkf h0), addKey_of_mem _ _ hkf,
      bump_dictOf _ hn _ _ _ h0b, hrc]
    congr 3
    rw [← upd_map]
    simp [pktOf]
  | srcPutPlain id arr h htot =>
    have hs := hi.src
    rw [h] at hs
    obtain ⟨hqp, hfid, -⟩ := hs
    have hck : ckeys cfg.flows a.run = cfg.flows := by
      cases hr : a.run with
      | init q0 =>
        rw [hr] at hrun
        exact (hi.not_prio_lt hmin (mem_run (by simp [hr, RPhase.entries])) hrun.1 (by rw [hrun.2.1, hqp]; decide)).elim
      | _ => rfl
    have hkf : flow id ∈ cfg.flows := (mem_flows hi _).mpr hfid
    have hst := storeOf_toM (size := size) hi q.time (flow id) hfid
    have h0b : flow id ∉ a.keys → a.byt (flow id) = 0 := fun hk => (hi.keysOK.2 _ hfid hk).2.2
    have hrc : (a.recv + 1).toNat = a.recv.toNat + 1 := by omega
    show LtsOK flow size cfg a q.time _ (insOf (.put (pktOf flow size id))) (outOf .accepted)
    refine ltsOK_one (.put (pktOf flow size id)) .accepted ?_
    have ht : ¬ MQ.total (toM cfg.flows flow size a q.time).queueCount = 0 := by rw [total_toM hi]; exact htot
    have ht' : ¬ MQ.total ({ toM cfg.flows flow size a q.time with ctl := (toM cfg.flows flow size a q.time).ctl } : MQState ℚ RR.Pc).queueCount = 0 := ht
    have hst' : storeOf (dictOf a.keys fun f => List.map (pktOf flow size) (a.items f)) (flow id) =
        List.map (pktOf flow size) (a.items (flow id)) := hst
    simp only [MQ.step, MQ.doPut, RR.sched, postToken, ht', if_false, countIn, enqueue]
    simp only [toM, pktOf, hck, hst', setKey_dictOf _ hn, bump_dictOf _ hfn _ _ _ (fun h0 => absurd hkf h0), addKey_of_mem _ _ hkf,
      bump_dictOf _ hn _ _ _ h0b, hrc]
    congr 3
    rw [← upd_map]
    simp [pktOf]
  | srcEnd h => exact ltsOK_nothing rfl
  | pendNoop r l1 l2 hpe hno => exact ltsOK_nothing rfl
  | pendHand g t l1 l2 hpe h htk =>
    refine ltsOK_one .tokenHandoff .nothing ?_
    have hph : (toM cfg.flows flow size a q.time).phase = .waitToken := by simp [toM, phaseOf, h]
    have htk' : (toM cfg.flows flow size a q.time).tokens = t + 1 := htk
    simp only [MQ.step, hph, htk']
    simp only [toM, ctlOf, phaseOf, h, ckeys_init, ckeys_W, ckeys_K, ckeys_H, ckeys_S, ckeys_T, ckeys_F]

/-! ## the clock -/

/-- the LTS accepts the clock advance to the next entry -/
theorem lts_tick (hi : AInv flow F cfg a now) (hq : IsMin a q) (h : now < q.time) :
    MQ.step (RR.sched cfg) (toM cfg.flows flow size a now) (.tick q.time) = .ok (toM cfg.flows flow size a q.time, .nothing) := by
  have hne : ∀ x ∈ a.entries, x.time ≠ now := fun x hx hxt => absurd (hi.time_eq hq hx hxt) (ne_of_gt h)
  have hp := hi.run
  have hnlt : ¬ q.time < now := not_lt.mpr (le_of_lt h)
  cases hr : a.run with
  | init q0 => rw [hr] at hp; exact absurd hp.1 (hne q0 (mem_run (by simp [hr, RPhase.entries])))
  | K g q0 => rw [hr] at hp; exact absurd hp.1 (hne q0 (mem_run (by simp [hr, RPhase.entries])))
  | H g i id q0 => rw [hr] at hp; exact absurd hp.1 (hne q0 (mem_run (by simp [hr, RPhase.entries])))
  | S p i id q0 => rw [hr] at hp; exact absurd hp.1 (hne q0 (mem_run (by simp [hr, RPhase.entries])))
  | F p i id q0 => rw [hr] at hp; exact absurd hp.1 (hne q0 (mem_run (by simp [hr, RPhase.entries])))
  | T p t i id q0 =>
    have h2 : ¬ q0.time < q.time := not_lt.mpr (not_keyLt_time (hq.2 q0 (mem_run (by simp [hr, RPhase.entries]))))
    simp [MQ.step, doTick, toM, phaseOf, ctlOf, hr, hnlt, h2]
  | W g =>
    rw [hr] at hp
    have htk : a.tokens = 0 := by
      by_contra hc
      obtain ⟨u, hu⟩ := hp.2.1 hc
      exact hne u (mem_pend hu) (hi.pend _ hu).1
    simp [MQ.step, doTick, toM, phaseOf, ctlOf, hr, hnlt, htk]

/-- zero or one `tick` brings the LTS to the instant of the next entry -/
theorem lts_advance (hi : AInv flow F cfg a now) (hq : IsMin a q) :
    ∃ acts, runActs (RR.sched cfg) (toM cfg.flows flow size a now) acts = .ok (toM cfg.flows flow size a q.time, [], []) := by
  rcases eq_or_lt_of_le (hi.now_le hq) with h | h
  · exact ⟨[], by rw [← h]; rfl⟩
  · refine ⟨[.tick q.time], ?_⟩
    simp only [runActs, lts_tick hi hq h]
    rfl

/-! ## what the LTS side needs of a configuration besides `AInv`: the dict keys and `packets_received` -/

/-- the ids handed to `put` so far -/
def putIds : List (HEv ℚ) → List Int
  | [] => []
  | .put id _ :: r => id :: putIds r
  | _ :: r => putIds r

theorem putIds_append (l1 l2 : List (HEv ℚ)) : putIds (l1 ++ l2) = putIds l1 ++ putIds l2 := by
  induction l1 with
  | nil => rfl
  | cons x r ih => cases x <;> simp [putIds, ih]

theorem putPk_append (l1 l2 : List (HEv ℚ)) : putPk flow size (l1 ++ l2) = putPk flow size l1 ++ putPk flow size l2 := by
  induction l1 with
  | nil => rfl
  | cons x r ih => cases x <;> simp [putPk, ih]

theorem outPk_append (l1 l2 : List (HEv ℚ)) : outPk flow size (l1 ++ l2) = outPk flow size l1 ++ outPk flow size l2 := by
  induction l1 with
  | nil => rfl
  | cons x r ih => cases x <;> simp [outPk, ih]

structure LInv (flow : Int → Nat) (a : A) (hist : List (HEv ℚ)) : Prop where
  keys : a.keys = keysOf flow (putIds hist)
  recv : a.recv = ((putIds hist).length : Nat)

theorem keysOf_append (ids : List Int) (id : Int) : keysOf flow (ids ++ [id]) = addKey (keysOf flow ids) (flow id) := by
  simp [keysOf, List.foldl_append]

theorem addKey_nodup (l : List Nat) (k : Nat) (h : l.Nodup) : (addKey l k).Nodup := by
  by_cases hk : k ∈ l
  · rw [addKey_of_mem _ _ hk]; exact h
  · rw [addKey_of_not_mem _ _ hk]
    exact List.nodup_append.mpr ⟨h, by simp, by
      intro x hx y hy hxy
      simp only [List.mem_singleton] at hy
      exact hk (hy ▸ hxy ▸ hx)⟩

theorem keysOf_nodup (ids : List Int) : (keysOf flow ids).Nodup := by
  have : ∀ (ids : List Int) (acc : List Nat), acc.Nodup → (ids.foldl (fun l id => addKey l (flow id)) acc).Nodup := by
    intro ids
    induction ids with
    | nil => intro acc h; exact h
    | cons x r ih => intro acc h; exact ih _ (addKey_nodup _ _ h)
  exact this ids [] List.nodup_nil

theorem LInv.nodup {hist : List (HEv ℚ)} (h : LInv flow a hist) : a.keys.Nodup := by
  rw [h.keys]; exact keysOf_nodup _

theorem LInv.recv_nonneg {hist : List (HEv ℚ)} (h : LInv flow a hist) : 0 ≤ a.recv := by
  rw [h.recv]; exact Int.natCast_nonneg _

theorem linv_step {a' : A} {hist new : List (HEv ℚ)} (h : LInv flow a hist) (hs : AStep F flow size cfg n e a q a' new) :
    LInv flow a' (hist ++ new) := by
  cases hs <;> first
    | exact ⟨by simpa [putIds_append, putIds] using h.keys, by simpa [putIds_append, putIds] using h.recv⟩
    | (refine ⟨?_, ?_⟩
       · show addKey a.keys _ = _
         rw [putIds_append, h.keys]
         simp only [putIds]
         rw [keysOf_append]
       · show a.recv + 1 = _
         rw [putIds_append, h.recv]
         simp [putIds])

end RRK
