import OnlVerif.Lemmas.REDKBasic
import OnlVerif.Lemmas.StrandFrame
/-!
# Generator → REDPort → sink on the kernel model: what a kernel step leaves alone

Live events are told apart by their callback lists (`[resume 2]`/`[]` source, `[resume 0]`/`[trigPut 0, resume 0]` port,
`[trigGet 0]` pending `StorePut`): a step that only touches events with callback lists in `ex` (and allocates new
ones) keeps everything the invariant says about the others.
-/

set_option linter.unusedSimpArgs false

namespace REDK
open REDOnK

/-- all live events whose callback list is not in `ex` are the same in `S` -/
def EvFrame (s S : KS) (ex : List (List Cb)) : Prop :=
  ∀ e k c o, EvIs s e k c o → c ∉ ex → EvIs S e k c o

theorem evFrame_of {s S : KS} (ex : List (List Cb))
    (h : ∀ x, x < s.events.size → (∀ c, (s.ev x).cbs = some c → c ∉ ex) → S.ev x = s.ev x) : EvFrame s S ex := by
  intro e k c o he hc
  have hlt : e < s.events.size := KState.lt_of_cbs he.2.1
  have : S.ev e = s.ev e := h e hlt (by intro c' hc'; rw [he.2.1] at hc'; cases hc'; exact hc)
  unfold EvIs
  rw [this]
  exact he

theorem PortEv.frame {s S : KS} {ph : PPhase} {ex : List (List Cb)} (h : PortEv s ph) (hf : EvFrame s S ex)
    (h1 : [Cb.resume 0] ∉ ex) (h2 : [Cb.trigPut 0, Cb.resume 0] ∉ ex) (hp : S.proc? 0 = s.proc? 0) : PortEv S ph := by
  cases ph with
  | init q => exact ⟨h.1, hf _ _ _ _ h.2.1 h1, hp ▸ h.2.2⟩
  | W g => exact ⟨hf _ _ _ _ h.1 h2, hp ▸ h.2⟩
  | H g id q => exact ⟨h.1, hf _ _ _ _ h.2.1 h2, hp ▸ h.2.2⟩
  | T t id q => exact ⟨h.1, hf _ _ _ _ h.2.1 h1, hp ▸ h.2.2⟩

theorem SrcEv.frame {s S : KS} {ph : SPhase} {ex : List (List Cb)} (h : SrcEv s ph) (hf : EvFrame s S ex)
    (h1 : [Cb.resume 2] ∉ ex) (h2 : ([] : List Cb) ∉ ex) (hp : S.proc? 2 = s.proc? 2) : SrcEv S ph := by
  cases ph with
  | init q gaps sizes us => exact ⟨h.1, hf _ _ _ _ h.2.1 h1, hp ▸ h.2.2.1, hf _ _ _ _ h.2.2.2 h2⟩
  | delay q gaps sizes us => exact ⟨hf _ _ _ _ h.1 h1, hp ▸ h.2.1, hf _ _ _ _ h.2.2 h2⟩
  | wait n z gaps sizes us q => exact ⟨hf _ _ _ _ h.1 h1, hp ▸ h.2.1, hf _ _ _ _ h.2.2 h2⟩
  | ending q => exact ⟨h.1, hf _ _ _ _ h.2 h2⟩
  | done => trivial

theorem pend_frame {s S : KS} {pe : Option (QEntry ℚ)} {ex : List (List Cb)}
    (h : ∀ u, pe = some u → EvIs s u.ev (.put 0) [.trigGet 0] (some (.ok .none))) (hf : EvFrame s S ex)
    (h1 : [Cb.trigGet 0] ∉ ex) : ∀ u, pe = some u → EvIs S u.ev (.put 0) [.trigGet 0] (some (.ok .none)) :=
  fun u hu => hf _ _ _ _ (h u hu) h1

/-! ## the agenda after a step -/

theorem wf_same {s1 S : KS} (h : AgendaWF s1) (hn : S.now = s1.now) (ha : S.agenda = s1.agenda) (he : S.eid = s1.eid) :
    AgendaWF S := by
  refine ⟨?_, ?_, ?_⟩
  · rw [ha, hn]; exact h.due
  · rw [ha, he]; exact h.eid_lt
  · rw [ha]; exact h.distinct

theorem wf_push1 {s1 S : KS} (h : AgendaWF s1) (x : QEntry ℚ) (hn : S.now = s1.now) (ha : S.agenda = x :: s1.agenda)
    (he : S.eid = s1.eid + 1) (hx : x.eid = s1.eid) (ht : s1.now ≤ x.time) : AgendaWF S := by
  refine ⟨?_, ?_, ?_⟩
  · rw [ha, hn]; intro y hy
    rcases List.mem_cons.mp hy with rfl | hy
    · exact ht
    · exact h.due y hy
  · rw [ha, he]; intro y hy
    rcases List.mem_cons.mp hy with rfl | hy
    · omega
    · have := h.eid_lt y hy; omega
  · rw [ha, List.pairwise_cons]
    refine ⟨?_, h.distinct⟩
    intro y hy
    have := h.eid_lt y hy; omega

theorem wf_push2 {s1 S : KS} (h : AgendaWF s1) (x y : QEntry ℚ) (hn : S.now = s1.now)
    (ha : S.agenda = x :: y :: s1.agenda) (he : S.eid = s1.eid + 2) (hx : x.eid = s1.eid + 1) (hy : y.eid = s1.eid)
    (htx : s1.now ≤ x.time) (hty : s1.now ≤ y.time) : AgendaWF S := by
  have h1 : AgendaWF ({ s1 with agenda := y :: s1.agenda, eid := s1.eid + 1 } : KS) :=
    wf_push1 (S := { s1 with agenda := y :: s1.agenda, eid := s1.eid + 1 }) h y rfl rfl rfl hy hty
  exact wf_push1 h1 x hn ha he hx htx

/-! ## observations -/

theorem viewsOf_push (tr : Array (Obs ℚ)) (o : Obs ℚ) : viewsOf (tr.push o) = viewsOf tr ++ (viewOf o).toList := by
  unfold viewsOf
  rw [Array.toList_push, List.filterMap_append]
  cases h : viewOf o <;> simp [List.filterMap, h]

@[simp] theorem viewOf_resumed (p : EvId) (r : Resume) (t : ℚ) : viewOf (Obs.resumed p r t) = none := rfl
@[simp] theorem viewOf_ended (p : EvId) (o : Outcome) (t : ℚ) : viewOf (Obs.ended p o t) = none := rfl
@[simp] theorem viewOf_gen (p : EvId) (i : Int) (t : ℚ) : viewOf (Obs.log p "gen" (.int i) t) = some (.gen i t) := by
  simp [viewOf]
@[simp] theorem viewOf_out (p : EvId) (i : Int) (t : ℚ) : viewOf (Obs.log p "out" (.int i) t) = some (.out i t) := by
  simp [viewOf]
@[simp] theorem viewOf_sink (p : EvId) (i : Int) (t : ℚ) : viewOf (Obs.log p "sink" (.int i) t) = some (.sink i t) := by
  simp [viewOf]
@[simp] theorem viewOf_drop (p : EvId) (i : Int) (t : ℚ) : viewOf (Obs.log p "drop" (.int i) t) = none := by
  simp [viewOf]
@[simp] theorem viewOf_u (p : EvId) (x t : ℚ) : viewOf (Obs.log p "u" (TimeCell.enc x) t) = some (.u x) := by
  simp [viewOf]
@[simp] theorem viewOf_avg (p : EvId) (x t : ℚ) : viewOf (Obs.log p "avg" (TimeCell.enc x) t) = none := by
  simp only [viewOf]
  rw [if_neg (by decide)]
  rfl
@[simp] theorem viewOf_draw (p : EvId) (x t : ℚ) : viewOf (Obs.log p "draw" (TimeCell.enc x) t) = none := by
  simp only [viewOf]
  rw [if_neg (by decide)]
  rfl

/-! ## cells -/

theorem lookup_cons (l : List (Nat × Val)) (k k' : Nat) (v : Val) :
    lookup ((k', v) :: l) k = if k = k' then v else lookup l k := by
  by_cases h : k = k'
  · subst h; simp
  · rw [if_neg h, lookup_cons_ne _ _ _ _ (Ne.symm h)]

attribute [redk] lookup_cons lookup_filter_ne proc?_eq

/-- symbolic execution of the kernel model on flat states -/
syntax "ksimp" (" [" Lean.Parser.Tactic.simpLemma,* "]")? (Lean.Parser.Tactic.location)? : tactic
macro_rules
  | `(tactic| ksimp $[$loc]?) =>
    `(tactic| simp [-Array.getD_eq_getD_getElem?, -List.filter_filter, redk] $[$loc]?)
  | `(tactic| ksimp [$args,*] $[$loc]?) =>
    `(tactic| simp [-Array.getD_eq_getD_getElem?, -List.filter_filter, redk, $args,*] $[$loc]?)


/-- discharge the frame condition of `evFrame_of` on a flat state -/
macro "frame_ev" hfr:ident : tactic =>
  `(tactic| (intro x hx hc; have hxg := $hfr x hx hc; ksimp [Nat.ne_of_lt hx, Nat.ne_of_lt (Nat.lt_succ_of_lt hx), hxg]))

end REDK
