import OnlVerif.Net.WireOnK
/-!
# Running the Wire-on-kernel program (driver mode `wirek`)

```
CASE <id> <loss_rate bits | None>
arr <gap bits>            -- one per packet, in order
loss <draw bits>          -- what random.uniform(0, 1) returns at its 1st, 2nd, … call
delay <bits>              -- what delay_dist() returns at its 1st, 2nd, … call
END
```
The driver runs `WireOnK.body` on the kernel model at `Float` time with `run()` (`runAll`) and prints how the run ended,
every `out.put` observation `out <id> <env.now bits>`, `packets_rec` and the final clock.  The harness runs the real `Wire`
with a real source process on the real kernel and compares line for line.
-/

namespace WireOnK

def wkb (s : String) : Float := Float.ofBitsStr s

def cellIntStr (s : KState Float (WSt Float)) (k : Nat) : String :=
  match ((s.shared.find? (·.1 == k)).map (·.2)).getD Val.none with
  | .int n => toString n
  | _ => "?"

def showRun (r : RunResult Float (WSt Float)) : List String :=
  let (tag, s) := match r with
    | .returned _ s => ("RET", s)
    | .raised x s => (s!"RAISED {x.ty}", s)
    | .outOfFuel s => ("FUEL", s)
  [tag] ++ (outsOf s.trace).map (fun o => s!"out {o.1} {o.2.bitsStr}") ++
    [s!"cells rec={cellIntStr s cRec}", s!"now {s.now.bitsStr}"]

partial def readWork (h : IO.FS.Stream) (arr loss del : List Float) : IO (List Float × List Float × List Float) := do
  let line ← h.getLine
  if line.isEmpty then return (arr.reverse, loss.reverse, del.reverse)
  let ws := (line.trimAscii.toString.splitOn " ").filter (· ≠ "")
  match ws with
  | ["END"] => return (arr.reverse, loss.reverse, del.reverse)
  | ["arr", g] => readWork h (wkb g :: arr) loss del
  | ["loss", x] => readWork h arr (wkb x :: loss) del
  | ["delay", d] => readWork h arr loss (wkb d :: del)
  | _ => readWork h arr loss del

end WireOnK

partial def wirekLoop (h : IO.FS.Stream) : IO Unit := do
  let line ← h.getLine
  if line.isEmpty then return
  let ws := (line.trimAscii.toString.splitOn " ").filter (· ≠ "")
  match ws with
  | ["CASE", id, lr] =>
    IO.println s!"CASE {id}"
    let (arr, loss, del) ← WireOnK.readWork h [] [] []
    let cfg : WireCfg Float := { lossRate := if lr == "None" then none else some (WireOnK.wkb lr) }
    let r := runAll (WireOnK.body cfg loss del) 1 (5 * arr.length + 8) (WireOnK.initState arr)
    for l in WireOnK.showRun r do IO.println l
    IO.println "ENDCASE"
    wirekLoop h
  | [] => wirekLoop h
  | _ => IO.println s!"BADLINE {line.trimAscii.toString}"; wirekLoop h
