import OnlVerif.Net.VCOnK
/-!
# Running the VC-on-kernel program (driver mode `vck`)

```
CASE <id> <rate bits> <F>
vt <class> <vtick bits>                    -- the `vticks` dict, in insertion order
arr <gap bits> <packet id> <flow> <size>   -- one per packet, in order (ids 0, 1, 2, …)
END
```
The driver runs `VCOnK.prog` on the kernel model at `Float` time with `run()` (`runAll`) and prints how the run ended, the
`put` / `stamp` / `get` / `serve` / `out` observations in the order of the trace (with `env.now` resp. the stamp as bit
patterns), the attribute cells (`vc` / `aux_vc` in the key order of `vticks`), the key order of `queue_count`, the number of
items left in the store, the final clock and the verdict of the property's oracle (`VCOnK.orun` at `Float`) on this history.
The harness runs the real `VC` with a real source process on the real kernel and compares line for line.
-/

namespace VCOnK

def skb (s : String) : Float := Float.ofBitsStr s

def natTable (tbl : List (Int × Nat)) (i : Int) : Nat := ((tbl.find? (·.1 == i)).map (·.2)).getD 0

def showHEv : HEv Float → String
  | .put id t => s!"put {id} {t.bitsStr}"
  | .stamp x => s!"stamp {x.bitsStr}"
  | .get t => s!"get {t.bitsStr}"
  | .serve id t => s!"serve {id} {t.bitsStr}"
  | .out id t => s!"out {id} {t.bitsStr}"

def showCur (s : KState Float (VcKSt Float)) : String :=
  match cellVal s cCur with
  | .int id => toString id
  | _ => "None"

/-- does the oracle of the property (`VCOnK.orun`, here at `Float`) accept the history and end drained? -/
def oracleLine (flow size : Int → Nat) (cfg : VcCfg Float) (s : KState Float (VcKSt Float)) : String :=
  match orun flow size cfg oInit (histOf s.trace) with
  | some o => if drained o then "oracle ok" else "oracle pending"
  | none => "oracle REJECT"

def showRun (F : Nat) (flow : Int → Nat) (cfg : VcCfg Float) (r : RunResult Float (VcKSt Float)) : List String :=
  let (tag, s) := match r with
    | .returned _ s => ("RET", s)
    | .raised x s => (s!"RAISED {x.ty}", s)
    | .outOfFuel s => ("FUEL", s)
  [tag] ++ (histOf s.trace).map showHEv ++
    [s!"cells rc={cellInt s cRecv} cur={showCur s} len={(s.res pst).items.length}"] ++
    (List.range F).map (fun f => s!"flow {f} count={cellInt s (cCount f)} bytes={cellInt s (cBytes f)}") ++
    cfg.vticks.map (fun kv => s!"class {kv.1} vc={(cellNum s (cVc kv.1)).bitsStr} aux={(cellNum s (cAux kv.1)).bitsStr}") ++
    [s!"keys {keysOf flow ((putsOf s.trace).map (·.1))}", s!"now {s.now.bitsStr}"]

structure Work where
  vts : List (Nat × Float) := []
  arr : List (Float × Int × Nat × Nat) := []

partial def readWork (h : IO.FS.Stream) (w : Work) : IO Work := do
  let line ← h.getLine
  if line.isEmpty then return w
  let ws := (line.trimAscii.toString.splitOn " ").filter (· ≠ "")
  match ws with
  | ["END"] => return w
  | ["vt", c, x] => readWork h { w with vts := w.vts ++ [(c.toNat!, skb x)] }
  | ["arr", gap, pid, f, sz] => readWork h { w with arr := w.arr ++ [(skb gap, pid.toInt!, f.toNat!, sz.toNat!)] }
  | _ => readWork h w

end VCOnK

partial def vckLoop (h : IO.FS.Stream) : IO Unit := do
  let line ← h.getLine
  if line.isEmpty then return
  let ws := (line.trimAscii.toString.splitOn " ").filter (· ≠ "")
  match ws with
  | ["CASE", id, rate, nf] =>
    IO.println s!"CASE {id}"
    let w ← VCOnK.readWork h {}
    let F := nf.toNat!
    let flow := VCOnK.natTable (w.arr.map fun x => (x.2.1, x.2.2.1))
    let size := VCOnK.natTable (w.arr.map fun x => (x.2.1, x.2.2.2))
    let arrivals : List (Float × Int) := w.arr.map fun x => (x.1, x.2.1)
    let cfg : VcCfg Float := { rate := VCOnK.skb rate, vticks := w.vts, flow2class := (List.range F).map fun f => (f, f) }
    let r := runAll (VCOnK.prog flow size cfg w.arr.length 1) 1 (10 * w.arr.length + 10) (VCOnK.initState F cfg arrivals)
    for l in VCOnK.showRun F flow cfg r do IO.println l
    match r with
    | .returned _ s => IO.println (VCOnK.oracleLine flow size cfg s)
    | _ => IO.println "oracle -"
    IO.println "ENDCASE"
    vckLoop h
  | [] => vckLoop h
  | _ => IO.println s!"BADLINE {line.trimAscii.toString}"; vckLoop h
