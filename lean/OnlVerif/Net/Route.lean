/-!
# Dispatch models: `FlowDemux`, `FIBDemux`, the two packet switches, `Hub`, `Splitter`, `NSplitter`

Source: `onl/netdev/demux.py`, `switch.py`, `hub.py`, `splitter.py` (hand-written models, one small function
per branch of the Python `put`; `OnlVerif/Generated/Route.lean` holds the machine translation of three of them).  A *dispatch* is what one call `dev.put(packet)` hands downstream: the list of
`(device, packet object)` pairs in call order, or the Python exception that leaves `put`.

* Downstream devices are opaque identities `Dev` (the harness numbers its recording devices).
* A packet object is identified by `PktRef = (id, copy)`: `copy = 0` is the object that entered, every
  `copy.copy(packet)` allocates the next unused copy number.  Header contents live in a `Heap` keyed by `PktRef`,
  so "a separate copy whose header fields can be changed independently" is a statement about that heap.
* Python `dict`s are association lists with `dget`/`dset` (overwrite in place, else append: insertion order).
* Every partial Python operation is an explicit `PyErr`.

This file imports nothing.
-/

namespace Route

/-- identity of a downstream device object -/
abbrev Dev := Nat

/-- identity of a packet object: the packet and how many `copy()` calls away from the original it is -/
structure PktRef where
  id : Nat
  copy : Nat
deriving DecidableEq, Repr, Inhabited

/-- what `put` reads from the packet: its identity, `flow_id`, `src` (element ids are interned as numbers) -/
structure Pkt where
  ref : PktRef
  flowId : Int
  src : Nat := 0
deriving Repr, Inhabited

inductive PyErr where
  | valueError | assertionError | indexError | keyError | attributeError | typeError
deriving DecidableEq, Repr

def PyErr.name : PyErr → String
  | .valueError => "ValueError"
  | .assertionError => "AssertionError"
  | .indexError => "IndexError"
  | .keyError => "KeyError"
  | .attributeError => "AttributeError"
  | .typeError => "TypeError"

abbrev Delivery := Dev × PktRef
abbrev Result := Except PyErr (List Delivery)

/-! ### Python containers -/

/-- `d[k]` / `k in d` on an association list (first match) -/
def dget {κ β : Type} [DecidableEq κ] : List (κ × β) → κ → Option β
  | [], _ => none
  | (k', v) :: r, k => if k' = k then some v else dget r k

/-- `d[k] = v`: overwrite in place, else append (Python keeps the first insertion position) -/
def dset {κ β : Type} [DecidableEq κ] : List (κ × β) → κ → β → List (κ × β)
  | [], k, v => [(k, v)]
  | (k', v') :: r, k, v => if k' = k then (k', v) :: r else (k', v') :: dset r k v

/-- `l[i]` for a Python `int` index: negative indices count from the end, out of range is `IndexError` (`none`) -/
def pyIndex {α : Type} (l : List α) (i : Int) : Option α :=
  if 0 ≤ i then l[i.toNat]?
  else if -(l.length : Int) ≤ i then l[((l.length : Int) + i).toNat]?
  else none

/-! ### FlowDemux -/

structure FlowDemuxCfg where
  outs : List Dev
  default : Option Dev := none
deriving Repr

/-- `if self.default_out: self.default_out.put(packet)` -/
def toDefault (d : Option Dev) (p : Pkt) : List Delivery :=
  match d with
  | some d => [(d, p.ref)]
  | none => []

/-- `FlowDemux.put` -/
def FlowDemux.put (c : FlowDemuxCfg) (p : Pkt) : Result :=
  if p.flowId < (c.outs.length : Int) then
    match pyIndex c.outs p.flowId with
    | some d => .ok [(d, p.ref)]
    | none => .error .indexError
  else .ok (toDefault c.default p)

/-! ### FIBDemux -/

structure FIBDemuxCfg where
  /-- `outs` (`None` is the constructor default) -/
  outs : Option (List Dev) := none
  /-- flow id → end device -/
  ends : List (Int × Dev) := []
  /-- flow id → output port; `none` is `fib is None` -/
  fib : Option (List (Int × Int)) := none
  default : Option Dev := none
deriving Repr

/-- the `try:` block once the `if not self.outs` test has passed: `self.outs[self._fib[flow]].put(packet)`,
`KeyError`/`IndexError` handled by the default output -/
def FIBDemux.lookup (outs : List Dev) (fib : List (Int × Int)) (dflt : Option Dev) (p : Pkt) : List Delivery :=
  match dget fib p.flowId with
  | none => toDefault dflt p                -- KeyError
  | some port =>
    match pyIndex outs port with
    | none => toDefault dflt p              -- IndexError
    | some d => [(d, p.ref)]

/-- the `else:` branch: `if not self.outs: raise IndexError(...)` inside the `try` — without output devices (`None` or
empty list) every flow is an unknown flow and goes to the default output -/
def FIBDemux.viaTable (c : FIBDemuxCfg) (fib : List (Int × Int)) (p : Pkt) : List Delivery :=
  match c.outs with
  | none => toDefault c.default p
  | some [] => toDefault c.default p
  | some (o :: os) => FIBDemux.lookup (o :: os) fib c.default p

/-- `FIBDemux.put` -/
def FIBDemux.put (c : FIBDemuxCfg) (p : Pkt) : Result :=
  match c.fib with
  | none => .error .valueError
  | some fib =>
    match dget c.ends p.flowId with
    | some d => .ok [(d, p.ref)]
    | none => .ok (FIBDemux.viaTable c fib p)

/-! ### the packet switches (what their constructors wire; output `i` is the switch's `i`-th egress) -/

/-- `SimplePacketSwitch(env, nports, …)`: `FlowDemux(self.ports, None)` -/
def SimplePacketSwitch.mk (nports : Nat) : FlowDemuxCfg := { outs := List.range nports, default := none }

def schedulerNames : List String := ["SP", "VirtualClock", "WFQ", "DRR"]

/-- `FairPacketSwitch(env, nports, …, server, …)`: an unknown scheduler name is refused when the first port is built;
`FIBDemux(fib=None, outs=self.egress_ports, default_out=None)` -/
def FairPacketSwitch.mk (nports : Nat) (server : String) : Except PyErr FIBDemuxCfg :=
  if 0 < nports ∧ ¬ server ∈ schedulerNames then .error .valueError
  else .ok { outs := some (List.range nports), ends := [], fib := none, default := none }

/-- `switch.demux.fib = table` -/
def FIBDemuxCfg.setFib (c : FIBDemuxCfg) (fib : List (Int × Int)) : FIBDemuxCfg := { c with fib := some fib }

/-- `switch.demux.ends[flow] = device` -/
def FIBDemuxCfg.setEnd (c : FIBDemuxCfg) (flow : Int) (d : Dev) : FIBDemuxCfg := { c with ends := dset c.ends flow d }

/-! ### Hub -/

structure HubEndpoint where
  /-- the endpoint's `element_id` -/
  eid : Nat
  dev : Dev
  /-- the port device in front of it, if one was given -/
  port : Option Dev
deriving Repr, DecidableEq

abbrev HubCfg := List HubEndpoint

/-- `self.outs[idx]`: the port device when given, else the endpoint itself -/
def HubEndpoint.out (e : HubEndpoint) : Dev :=
  match e.port with
  | some p => p
  | none => e.dev

/-- `Hub.add_endpoint` -/
def Hub.addEndpoint (c : HubCfg) (eid : Nat) (dev : Dev) (port : Option Dev) : HubCfg := c ++ [{ eid, dev, port }]

/-- `ports[idx] if ports else None` (called only when the lengths agree or `ports` is empty) -/
def Hub.portAt (ports : List (Option Dev)) (idx : Nat) : Option Dev :=
  match ports[idx]? with
  | some p => p
  | none => none

def Hub.addAll (ports : List (Option Dev)) : Nat → List (Nat × Dev) → HubCfg → HubCfg
  | _, [], c => c
  | idx, (eid, dev) :: r, c => Hub.addAll ports (idx + 1) r (Hub.addEndpoint c eid dev (Hub.portAt ports idx))

/-- `Hub(env, endpoints, ports)` -/
def Hub.mk (endpoints : List (Nat × Dev)) (ports : List (Option Dev)) : Except PyErr HubCfg :=
  if ¬ ports = [] ∧ ports.length ≠ endpoints.length then .error .valueError
  else .ok (Hub.addAll ports 0 endpoints [])

/-- `Hub.put`: the loop over `enumerate(self.endpoints)` with its `continue` -/
def Hub.put : HubCfg → Pkt → List Delivery
  | [], _ => []
  | e :: rest, p => if e.eid = p.src then Hub.put rest p else (e.out, p.ref) :: Hub.put rest p

/-- what `add_endpoint` wires: `port.out = endpoint` for every endpoint that has a port device -/
def Hub.wiring : HubCfg → List (Dev × Dev)
  | [] => []
  | e :: rest => (match e.port with | some p => [(p, e.dev)] | none => []) ++ Hub.wiring rest

/-! ### Splitter / NSplitter -/

/-- `if out: out.put(packet)` with the object that came in -/
def giveOriginal (o : Option Dev) (p : Pkt) : List Delivery :=
  match o with
  | some d => [(d, p.ref)]
  | none => []

/-- `for out in outs: if out: out.put(copy(packet))`; `fresh` is the next unused copy number -/
def giveCopies (ref : PktRef) : Nat → List (Option Dev) → List Delivery
  | _, [] => []
  | fresh, none :: r => giveCopies ref fresh r
  | fresh, some d :: r => (d, { id := ref.id, copy := fresh }) :: giveCopies ref (fresh + 1) r

structure SplitterCfg where
  out1 : Option Dev := none
  out2 : Option Dev := none
deriving Repr

/-- `Splitter.put` -/
def Splitter.put (c : SplitterCfg) (p : Pkt) (fresh : Nat) : List Delivery :=
  giveOriginal c.out1 p ++ giveCopies p.ref fresh [c.out2]

/-- `NSplitter(N)`: `[None] * N`, `N <= 1` refused -/
def NSplitter.mk (n : Int) : Except PyErr (List (Option Dev)) :=
  if n ≤ 1 then .error .valueError else .ok (List.replicate n.toNat none)

/-- `NSplitter.put` (`self.outs[0]` on an empty list would be an `IndexError`; the constructor excludes it) -/
def NSplitter.put (outs : List (Option Dev)) (p : Pkt) (fresh : Nat) : Result :=
  match outs with
  | [] => .error .indexError
  | o :: rest => .ok (giveOriginal o p ++ giveCopies p.ref fresh rest)

/-! ### packet objects on a heap (for "independent copies")

A packet object has scalar header fields (`time`, `size`, `src`, `dst`, `flow_id`, …: rebinding an attribute) and two
table-valued attributes, `perhop_time` and `priorities`, that are *references* to dict objects which ports and schedulers
update in place.  `Packet.__copy__` gives the copy the same field values and **new** tables with the same contents. -/

/-- the table-valued attributes of a packet -/
inductive Tab where
  | perhop | priorities
deriving DecidableEq, Repr

/-- identity of a dict object: the packet object it was created for, and for which attribute -/
abbrev TabRef := PktRef × Tab

structure Obj where
  /-- scalar header fields -/
  hdr : Nat → Int
  /-- which dict object each table-valued attribute refers to -/
  tab : Tab → TabRef

structure Heap where
  objs : PktRef → Option Obj
  /-- contents of the dict objects -/
  tabs : TabRef → Nat → Option Int

/-- `obj.field = v` (rebinding an attribute) -/
def Heap.setField (h : Heap) (r : PktRef) (f : Nat) (v : Int) : Heap :=
  { h with objs := fun x => if x = r then (h.objs x).map (fun o => { o with hdr := fun g => if g = f then v else o.hdr g })
                            else h.objs x }

/-- `obj.<table>[k] = v` (in-place update of the dict the attribute refers to) -/
def Heap.tabWrite (h : Heap) (r : PktRef) (w : Tab) (k : Nat) (v : Int) : Heap :=
  match h.objs r with
  | none => h
  | some o => { h with tabs := fun t => if t = o.tab w then (fun k' => if k' = k then some v else h.tabs t k') else h.tabs t }

/-- `obj.field` -/
def Heap.readField (h : Heap) (r : PktRef) (f : Nat) : Option Int := (h.objs r).map fun o => o.hdr f

/-- `obj.<table>.get(k)` -/
def Heap.readTab (h : Heap) (r : PktRef) (w : Tab) (k : Nat) : Option (Option Int) :=
  (h.objs r).map fun o => h.tabs (o.tab w) k

/-- `Packet.__copy__`: the new object `r` gets the field values of `orig` and new dicts with the contents of `orig`'s -/
def Heap.copyPkt (h : Heap) (orig r : PktRef) : Heap :=
  match h.objs orig with
  | none => h
  | some o =>
    { objs := fun x => if x = r then some { hdr := o.hdr, tab := fun w => (r, w) } else h.objs x,
      tabs := fun t => if t.1 = r then h.tabs (o.tab t.2) else h.tabs t }

/-- the heap after a splitter dispatch: every delivered object other than the original was made by `copy(orig)` -/
def splitHeap (h : Heap) (orig : PktRef) : List Delivery → Heap
  | [] => h
  | (_, r) :: rest => splitHeap (if r = orig then h else h.copyPkt orig r) orig rest

end Route
