import OnlVerif.Net.DRROnK
/-!
# Running the DRR-on-kernel program (driver mode `drrk`)

```
CASE <id> <rate bits> <F>
decl <class> <weight>                      -- the `weights` dict, in insertion order
arr <gap bits> <packet id> <flow> <size>   -- one per packet, in order
END
```
The driver runs `DRROnK.prog` on the kernel model at `Float` time with `run()` (`runAll`) and prints how the run ended, the
observations in the order of the trace (`put` / `serve` / `out` / `park` / `done <id> <env.now bits>`, `visit` / `reset <class>
<env.now bits>`, `idle <env.now bits>`, and after every write of `deficit` the value written, `credit <bits>`), the attribute
cells, the number of wake-up tokens left, the keys of the dicts as the abstraction function computes them, the final clock and
the verdict of the property's oracle (`DRROnK.orun` at `Float`) on this history.  The harness runs the real `DRR` with a real
source process on the real kernel and compares line for line.
-/

namespace DRROnK

def dkb (s : String) : Float := Float.ofBitsStr s

def natTable (tbl : List (Int × Nat)) (i : Int) : Nat := ((tbl.find? (·.1 == i)).map (·.2)).getD 0

def showObs : Obs Float → Option String
  | .log _ w (.int v) now =>
    if w = "credit" then some s!"credit {v}"
    else if w = "put" ∨ w = "serve" ∨ w = "out" ∨ w = "visit" ∨ w = "park" ∨ w = "done" ∨ w = "reset" then
      some s!"{w} {v} {now.bitsStr}"
    else none
  | .log _ w .none now => if w = "idle" then some s!"idle {now.bitsStr}" else none
  | _ => none

def showCur (s : KState Float (DrrSt Float)) : String :=
  match cellVal s cCur with
  | .int id => toString id
  | _ => "None"

def showHol (s : KState Float (DrrSt Float)) (c : Nat) : String :=
  match cellVal s (cHol c) with
  | .int id => toString id
  | _ => "None"

/-- does the oracle of the property (`DRROnK.orun`, here at `Float`) accept the history and end drained? -/
def oracleLine (F : Nat) (flow size : Int → Nat) (cfg : DRR.Cfg Float) (s : KState Float (DrrSt Float)) : String :=
  match orun F flow size cfg oInit (histOf s.trace) with
  | some o => if drained F o then "oracle ok" else "oracle pending"
  | none => "oracle REJECT"

def showRun (F : Nat) (cfg : DRR.Cfg Float) (flow size : Int → Nat) (r : RunResult Float (DrrSt Float)) : List String :=
  let (tag, s) := match r with
    | .returned _ s => ("RET", s)
    | .raised x s => (s!"RAISED {x.ty}", s)
    | .outOfFuel s => ("FUEL", s)
  let m := absDRR cfg flow size s
  [tag] ++ s.trace.toList.filterMap showObs ++
    [s!"cells rc={cellInt s cRecv} cur={showCur s} tokens={(s.res tokStore).items.length}"] ++
    (List.range F).map (fun f => s!"class {f} count={cellInt s (cCount f)} bytes={cellInt s (cBytes f)} ccount={cellInt s (cCls f)} deficit={(cellTime s (cDef f)).bitsStr} quantum={(cellTime s (cQuant f)).bitsStr} hol={showHol s f} len={(s.res (flowStore f)).items.length}") ++
    [s!"keys count={m.queueCount.map (·.1)} bytes={m.queueBytes.map (·.1)} stores={m.stores.map (·.1)} deficit={m.ctl.deficit.map (·.1)} ccount={m.ctl.classCount.map (·.1)}",
     s!"now {s.now.bitsStr}"]

structure Work where
  ws : List (Nat × Nat) := []
  arr : List (Float × Int × Nat × Nat) := []

partial def readWork (h : IO.FS.Stream) (w : Work) : IO Work := do
  let line ← h.getLine
  if line.isEmpty then return w
  let ws := (line.trimAscii.toString.splitOn " ").filter (· ≠ "")
  match ws with
  | ["END"] => return w
  | ["decl", f, wt] => readWork h { w with ws := w.ws ++ [(f.toNat!, wt.toNat!)] }
  | ["arr", gap, pid, f, sz] => readWork h { w with arr := w.arr ++ [(dkb gap, pid.toInt!, f.toNat!, sz.toNat!)] }
  | _ => readWork h w

end DRROnK

partial def drrkLoop (h : IO.FS.Stream) : IO Unit := do
  let line ← h.getLine
  if line.isEmpty then return
  let ws := (line.trimAscii.toString.splitOn " ").filter (· ≠ "")
  match ws with
  | ["CASE", id, rate, nf] =>
    IO.println s!"CASE {id}"
    let w ← DRROnK.readWork h {}
    let F := nf.toNat!
    let flow := DRROnK.natTable (w.arr.map fun x => (x.2.1, x.2.2.1))
    let size := DRROnK.natTable (w.arr.map fun x => (x.2.1, x.2.2.2))
    let arrivals : List (Float × Int) := w.arr.map fun x => (x.1, x.2.1)
    let cfg : DRR.Cfg Float := { rate := DRROnK.dkb rate, weights := w.ws }
    let lmax := (w.arr.map fun x => x.2.2.2).foldl max 0
    let r := runAll (DRROnK.prog F flow size cfg (DRROnK.passBound lmax)) 1 (10 * w.arr.length + 10) (DRROnK.initState F cfg arrivals)
    for l in DRROnK.showRun F cfg flow size r do IO.println l
    match r with
    | .returned _ s => IO.println (DRROnK.oracleLine F flow size cfg s)
    | _ => IO.println "oracle -"
    IO.println "ENDCASE"
    drrkLoop h
  | [] => drrkLoop h
  | _ => IO.println s!"BADLINE {line.trimAscii.toString}"; drrkLoop h
