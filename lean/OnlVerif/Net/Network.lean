/-!
# A network of element accounts (C08, composition)

Every element LTS of this tree (`Net/Fifo.lean`, `Net/MultiQueue.lean`, `Net/StampServer.lean`, the dispatchers of
`Net/Route.lean`) carries the same four lists: what was handed in, what it forwarded, what it discarded by its rule and
what it still holds.  This file wires such *accounts* into a network:

* nodes are the elements of an arbitrary index type `ι` (`Fin N` for every `N`, or `Nat`); the account of node `a` is
  `Acct`: `inn` (handed in, in order), `made` (copies a splitter created), `out` (forwarded, in order), `dropped` (discarded,
  with the number of the rule), `held`;
* the wiring is a function `next : ι → π → Dest ι` **of the packet** (`a.out = b`, `outs[i]`, `ends[f]`, a demultiplexer's
  table); `Dest.sink k` leaves the network (a sink, or "nowhere" under a sink number of its own);
* `out.put(p)` is a plain Python call, so a hand-over is *synchronous*: in the very step in which `a` forwards `p` the
  packet is accepted by `next a p`, or refused-and-dropped by it, or delivered to a sink;
* sources inject packets with fresh keys; splitter nodes create copies with fresh keys (`copy.copy(packet)` is a new object).

The model is executable (`step`, `run`), generic in the node type `ι`, the packet type `π` and its key `key : π → κ`
(`NPkt` with key `(id, copy)` is the concrete instance the driver replays), and — second half of the file — generic in the
*local* transition relation of every node (`Node`, `NodeLaw`, `LStep`): the three skeletons instantiate it.

This file imports nothing.
-/

namespace Net

/-- the packet record of the network model: the identifying fields of `onl.packet.Packet` (the creation time as the bit
pattern of the float, the payload interned as a number) and `copy`: 0 for the object a source created, `n` for the `n`-th
`copy.copy()` a splitter made of it -/
structure NPkt where
  id : Nat
  copy : Nat := 0
  flow : Nat := 0
  src : Nat := 0
  size : Nat := 0
  time : Nat := 0
  payload : Nat := 0
deriving DecidableEq, Repr, Inhabited

/-- what the receiving element does with a packet handed to it: keep it, or refuse it by rule number `rule` (tail drop, RED) -/
inductive Outcome where
  | acc
  | ref (rule : Nat)
deriving DecidableEq, Repr

/-- the account of one element -/
structure Acct (π : Type) where
  /-- handed in (`put(p)` was called), in call order -/
  inn : List π := []
  /-- copies created here (splitters only) -/
  made : List π := []
  /-- forwarded (`out.put(p)` was called), in call order -/
  out : List π := []
  /-- discarded, with the rule that asked for it -/
  dropped : List (π × Nat) := []
  held : List π := []

/-- where a forwarded packet goes -/
inductive Dest (ι : Type) where
  | node (b : ι)
  | sink (k : Nat)
deriving DecidableEq, Repr

/-- the lists of a network state, by name -/
inductive Slot (ι : Type) where
  | inn (a : ι)
  | made (a : ι)
  | out (a : ι)
  | dropped (a : ι)
  | held (a : ι)
  | sink (k : Nat)
deriving DecidableEq, Repr

/-- the three kinds of *places* a packet can be in: held by a node, dropped by a node, delivered to a sink -/
def Slot.isPlace {ι : Type} : Slot ι → Bool
  | .held _ => true
  | .dropped _ => true
  | .sink _ => true
  | _ => false

/-- wiring and configuration -/
structure Wiring (ι π κ : Type) where
  /-- the identity of a packet object -/
  key : π → κ
  next : ι → π → Dest ι
  splitter : ι → Bool := fun _ => false
  /-- `isCopy p c`: `c` is what `copy.copy(p)` may return (same fields, another object) -/
  isCopy : π → π → Bool := fun _ _ => false

structure GState (ι π : Type) where
  acct : ι → Acct π := fun _ => {}
  /-- packets sources have injected, in order -/
  injected : List π := []
  /-- (copy, original) pairs, in order of creation -/
  copies : List (π × π) := []
  /-- (sink, packet) in order of delivery -/
  delivered : List (Nat × π) := []

/-- a global step -/
inductive GEv (ι π : Type) where
  /-- a source hands the fresh packet `p` to node `a` -/
  | inject (a : ι) (p : π) (o : Outcome)
  /-- node `a` forwards `p`; `next a p` accepts / refuses it, or it is delivered (then `o` is `acc`) -/
  | fwd (a : ι) (p : π) (o : Outcome)
  /-- node `a` discards the held packet `p` by rule `rule` (wire loss, no route) -/
  | drop (a : ι) (p : π) (rule : Nat)
  /-- splitter `a` makes the fresh copy `c` of the held packet `p` -/
  | copy (a : ι) (p c : π)
  /-- an internal step of node `a` (a timeout, a hand-off, the clock): no packet moves -/
  | tau (a : ι)

section Model
variable {ι π κ : Type} [DecidableEq ι] [DecidableEq π] [DecidableEq κ]

def upd {β : Type} (f : ι → β) (a : ι) (v : β) : ι → β := fun x => if x = a then v else f x

/-! ### atomic effects -/

/-- change the account of node `a` -/
def GState.modify (g : GState ι π) (a : ι) (f : Acct π → Acct π) : GState ι π :=
  { g with acct := upd g.acct a (f (g.acct a)) }

/-- append packet `p` (with rule `r`, for `dropped`) to the list `s` -/
def GState.app (g : GState ι π) (s : Slot ι) (p : π) (r : Nat := 0) : GState ι π :=
  match s with
  | .inn a => g.modify a fun A => { A with inn := A.inn ++ [p] }
  | .made a => g.modify a fun A => { A with made := A.made ++ [p] }
  | .out a => g.modify a fun A => { A with out := A.out ++ [p] }
  | .dropped a => g.modify a fun A => { A with dropped := A.dropped ++ [(p, r)] }
  | .held a => g.modify a fun A => { A with held := A.held ++ [p] }
  | .sink k => { g with delivered := g.delivered ++ [(k, p)] }

/-- node `a` lets go of the held packet `p` -/
def GState.del (g : GState ι π) (a : ι) (p : π) : GState ι π :=
  g.modify a fun A => { A with held := A.held.erase p }

/-- the content of a list, as packets -/
def GState.recs (g : GState ι π) : Slot ι → List π
  | .inn a => (g.acct a).inn
  | .made a => (g.acct a).made
  | .out a => (g.acct a).out
  | .dropped a => (g.acct a).dropped.map (·.1)
  | .held a => (g.acct a).held
  | .sink k => (g.delivered.filter (fun d => decide (d.1 = k))).map (·.2)

/-- every packet that was ever introduced: injected by a source or created as a copy -/
def GState.introduced (g : GState ι π) : List π := g.injected ++ g.copies.map (·.1)

def usedKeys (n : Wiring ι π κ) (g : GState ι π) : List κ := g.introduced.map n.key

/-- `p` is handed to `d`: a node accepts or refuses-and-drops it; a sink takes it -/
def GState.arrive (g : GState ι π) (d : Dest ι) (p : π) (o : Outcome) : GState ι π :=
  match d, o with
  | .node b, .acc => (g.app (.inn b) p).app (.held b) p
  | .node b, .ref r => (g.app (.inn b) p).app (.dropped b) p r
  | .sink k, _ => g.app (.sink k) p

/-! ### the global step -/

def apply (n : Wiring ι π κ) (g : GState ι π) : GEv ι π → GState ι π
  | .inject a p o => ({ g with injected := g.injected ++ [p] } : GState ι π).arrive (.node a) p o
  | .fwd a p o => ((g.del a p).app (.out a) p).arrive (n.next a p) p o
  | .drop a p r => (g.del a p).app (.dropped a) p r
  | .copy a p c => ((({ g with copies := g.copies ++ [(c, p)] } : GState ι π).app (.made a) c).app (.held a) c)
  | .tau _ => g

/-- why a step is not a legal global step (`none`: it is legal) -/
def illegal (n : Wiring ι π κ) (g : GState ι π) : GEv ι π → Option String
  | .inject _ p _ => if n.key p ∈ usedKeys n g then some "inject: the packet's key is not fresh" else none
  | .fwd a p o =>
    if p ∉ (g.acct a).held then some "forward: the node does not hold this packet" else
    match n.next a p, o with
    | .sink _, .ref _ => some "forward: a sink does not refuse"
    | _, _ => none
  | .drop a p _ => if p ∉ (g.acct a).held then some "drop: the node does not hold this packet" else none
  | .copy a p c =>
    if n.splitter a = false then some "copy: the node is not a splitter" else
    if p ∉ (g.acct a).held then some "copy: the node does not hold the original" else
    if n.isCopy p c = false then some "copy: not a copy of the original" else
    if n.key c ∈ usedKeys n g then some "copy: the copy's key is not fresh" else none
  | .tau _ => none

def step (n : Wiring ι π κ) (g : GState ι π) (e : GEv ι π) : Except String (GState ι π) :=
  match illegal n g e with
  | some m => .error m
  | none => .ok (apply n g e)

def run (n : Wiring ι π κ) : GState ι π → List (GEv ι π) → Except String (GState ι π)
  | g, [] => .ok g
  | g, e :: es =>
    match step n g e with
    | .error m => .error m
    | .ok g1 => run n g1 es

end Model

/-! ### the concrete packet instance -/

/-- `c` is `copy.copy(p)`: every field but the copy number agrees -/
def NPkt.isCopyOf (p c : NPkt) : Bool := decide (c = { p with copy := c.copy }) && decide (c.copy ≠ p.copy)

/-- wiring over `NPkt` with key `(id, copy)` -/
def nwiring {ι : Type} (next : ι → NPkt → Dest ι) (splitter : ι → Bool := fun _ => false) : Wiring ι NPkt (Nat × Nat) :=
  { key := fun p => (p.id, p.copy), next := next, splitter := splitter, isCopy := NPkt.isCopyOf }

/-! ## Networks of local transition systems

The account network above lets a node forward *any* packet it holds at *any* time.  A real element is a transition system
of its own (`Fifo.step`, `MQ.step`, `Stamp.step`, a dispatcher's `put`): `Node` is the interface through which it takes part in
a network — its local labelled transition relation, the list of packets it holds, its invariant and its notion of
quiescence — and `NodeLaw` is what the network needs of it.  `LStep` is the global step of a network of such nodes: the same five
kinds of step, each requiring the *local* transitions of the nodes involved (sender first, then — in the same step — the
receiver), with the accounts kept as ghost state. -/

/-- one local transition of a node, as seen at its boundary -/
inductive LEv (π : Type) where
  /-- `put(p)`: accepted, or refused by a rule -/
  | recv (p : π) (o : Outcome)
  /-- `out.put(p)` -/
  | emit (p : π)
  /-- the node discards `p` by rule `rule` -/
  | discard (p : π) (rule : Nat)
  /-- the node makes the copy `c` of `p` -/
  | make (p c : π)
  | tau

structure Node (π σ : Type) where
  step : σ → LEv π → σ → Prop
  /-- the packets the element holds in state `s` (store contents, packet in hand, in transmission, parked) -/
  heldOf : σ → List π
  Inv : σ → Prop
  Quiescent : σ → Prop

/-- what the network needs of a node: its invariant is kept, and each kind of local transition changes the held packets
in the one way its label says: a packet that is accepted is held afterwards; a held packet that is emitted or discarded is
held no longer (once); nothing else changes what is held. -/
structure NodeLaw {π σ : Type} (nd : Node π σ) : Prop where
  recv_acc : ∀ s p s', nd.Inv s → nd.step s (.recv p .acc) s' → nd.Inv s' ∧ (nd.heldOf s').Perm (nd.heldOf s ++ [p])
  recv_ref : ∀ s p r s', nd.Inv s → nd.step s (.recv p (.ref r)) s' → nd.Inv s' ∧ (nd.heldOf s').Perm (nd.heldOf s)
  emit : ∀ s p s', nd.Inv s → nd.step s (.emit p) s' → p ∈ nd.heldOf s →
    nd.Inv s' ∧ (nd.heldOf s).Perm (p :: nd.heldOf s')
  discard : ∀ s p r s', nd.Inv s → nd.step s (.discard p r) s' → p ∈ nd.heldOf s →
    nd.Inv s' ∧ (nd.heldOf s).Perm (p :: nd.heldOf s')
  make : ∀ s p c s', nd.Inv s → nd.step s (.make p c) s' →
    nd.Inv s' ∧ p ∈ nd.heldOf s ∧ (nd.heldOf s').Perm (nd.heldOf s ++ [c])
  tau : ∀ s s', nd.Inv s → nd.step s .tau s' → nd.Inv s' ∧ (nd.heldOf s').Perm (nd.heldOf s)
  drained : ∀ s, nd.Inv s → nd.Quiescent s → nd.heldOf s = []

/-- the assumption on local steps behind "forwarded as the very same packet": what a node emits or discards is a record it
holds — it was handed in (or made here) as exactly this record, and no local step has changed any of its fields -/
def IdPreserving {π σ : Type} (nd : Node π σ) : Prop :=
  ∀ s p s', nd.Inv s → (nd.step s (.emit p) s' ∨ ∃ r, nd.step s (.discard p r) s') → p ∈ nd.heldOf s

/-- state of a network of local transition systems: the local states and the (ghost) accounts -/
structure LState (ι π σ : Type) where
  loc : ι → σ
  g : GState ι π := {}

section Layer
variable {ι π κ σ : Type} [DecidableEq ι] [DecidableEq π] [DecidableEq κ]

/-- the receiving side of a hand-over: node `b` performs `recv p o` in the same step; a sink has no state -/
def Arrives (nd : ι → Node π σ) (loc : ι → σ) (d : Dest ι) (p : π) (o : Outcome) (loc' : ι → σ) : Prop :=
  match d with
  | .node b => ∃ s', (nd b).step (loc b) (.recv p o) s' ∧ loc' = upd loc b s'
  | .sink _ => o = .acc ∧ loc' = loc

/-- the global step of a network of local transition systems; the account is updated by `apply` (unchecked: that the
step is a legal step of the account network is a *theorem*, `Net.lstep_legal`) -/
inductive LStep (n : Wiring ι π κ) (nd : ι → Node π σ) : LState ι π σ → GEv ι π → LState ι π σ → Prop
  | inject (L : LState ι π σ) (a : ι) (p : π) (o : Outcome) (s' : σ)
      (fresh : n.key p ∉ usedKeys n L.g) (h : (nd a).step (L.loc a) (.recv p o) s') :
      LStep n nd L (.inject a p o) { loc := upd L.loc a s', g := apply n L.g (.inject a p o) }
  | fwd (L : LState ι π σ) (a : ι) (p : π) (o : Outcome) (s1 : σ) (loc' : ι → σ)
      (h : (nd a).step (L.loc a) (.emit p) s1) (h2 : Arrives nd (upd L.loc a s1) (n.next a p) p o loc') :
      LStep n nd L (.fwd a p o) { loc := loc', g := apply n L.g (.fwd a p o) }
  | drop (L : LState ι π σ) (a : ι) (p : π) (r : Nat) (s' : σ) (h : (nd a).step (L.loc a) (.discard p r) s') :
      LStep n nd L (.drop a p r) { loc := upd L.loc a s', g := apply n L.g (.drop a p r) }
  | copy (L : LState ι π σ) (a : ι) (p c : π) (s' : σ) (hs : n.splitter a = true) (hc : n.isCopy p c = true)
      (fresh : n.key c ∉ usedKeys n L.g) (h : (nd a).step (L.loc a) (.make p c) s') :
      LStep n nd L (.copy a p c) { loc := upd L.loc a s', g := apply n L.g (.copy a p c) }
  | tau (L : LState ι π σ) (a : ι) (s' : σ) (h : (nd a).step (L.loc a) .tau s') :
      LStep n nd L (.tau a) { loc := upd L.loc a s', g := L.g }

/-- runs of a network of local transition systems, with the list of global steps taken -/
inductive LReach (n : Wiring ι π κ) (nd : ι → Node π σ) (loc0 : ι → σ) : LState ι π σ → List (GEv ι π) → Prop
  | init : LReach n nd loc0 { loc := loc0 } []
  | snoc (L L' : LState ι π σ) (es : List (GEv ι π)) (e : GEv ι π) (h : LReach n nd loc0 L es) (hs : LStep n nd L e L') :
      LReach n nd loc0 L' (es ++ [e])

end Layer

/-- the canonical node: its local state *is* its list of held packets; it may forward or discard whatever it holds
(the account network is the network of such nodes) -/
def acctNode (π : Type) [DecidableEq π] : Node π (List π) where
  step := fun s e s' =>
    match e with
    | .recv p .acc => s' = s ++ [p]
    | .recv _ (.ref _) => s' = s
    | .emit p => p ∈ s ∧ s' = s.erase p
    | .discard p _ => p ∈ s ∧ s' = s.erase p
    | .make p c => p ∈ s ∧ s' = s ++ [c]
    | .tau => s' = s
  heldOf := fun s => s
  Inv := fun _ => True
  Quiescent := fun s => s = []

end Net
