import OnlVerif.Net.RROnK
/-!
# Running the RR-on-kernel program (driver mode `rrk`)

```
CASE <id> <rate bits> <F>
decl <flow>                                -- the `flows` list, in declaration order
arr <gap bits> <packet id> <flow> <size>   -- one per packet, in order
END
```
The driver runs `RROnK.prog` on the kernel model at `Float` time with `run()` (`runAll`) and prints how the run ended, the
`put` / `serve` / `out` observations in the order of the trace (`<what> <id> <env.now bits>`), the attribute cells, the number
of wake-up tokens left, the keys of `queue_count` / `queue_byte_size` as the abstraction function computes them, the final clock and the verdict of the property's oracle (`RROnK.orun` at `Float`) on this
history.  The harness runs the real `RR` with a real source process on the real kernel
and compares line for line.
-/

namespace RROnK

def rkb (s : String) : Float := Float.ofBitsStr s

def natTable (tbl : List (Int × Nat)) (i : Int) : Nat := ((tbl.find? (·.1 == i)).map (·.2)).getD 0

def showHEv : HEv Float → String
  | .put id t => s!"put {id} {t.bitsStr}"
  | .serve id t => s!"serve {id} {t.bitsStr}"
  | .out id t => s!"out {id} {t.bitsStr}"

def showCur (s : KState Float (RrSt Float)) : String :=
  match cellVal s cCur with
  | .int id => toString id
  | _ => "None"

/-- does the oracle of the property (`RROnK.orun`, here at `Float`) accept the history and end drained? -/
def oracleLine (F : Nat) (flow size : Int → Nat) (cfg : RR.Cfg Float) (s : KState Float (RrSt Float)) : String :=
  match orun F flow size cfg oInit (histOf s.trace) with
  | some o => if drained F o then "oracle ok" else "oracle pending"
  | none => "oracle REJECT"

def showRun (F : Nat) (flows : List Nat) (flow size : Int → Nat) (r : RunResult Float (RrSt Float)) : List String :=
  let (tag, s) := match r with
    | .returned _ s => ("RET", s)
    | .raised x s => (s!"RAISED {x.ty}", s)
    | .outOfFuel s => ("FUEL", s)
  [tag] ++ (histOf s.trace).map showHEv ++
    [s!"cells rc={cellInt s cRecv} cur={showCur s} tokens={(s.res tokStore).items.length}"] ++
    (List.range F).map (fun f => s!"flow {f} count={cellInt s (cCount f)} bytes={cellInt s (cBytes f)} len={(s.res (flowStore f)).items.length}") ++
    [s!"keys count={(absRR flows flow size s).queueCount.map (·.1)} bytes={(absRR flows flow size s).queueBytes.map (·.1)} stores={(absRR flows flow size s).stores.map (·.1)}",
     s!"now {s.now.bitsStr}"]

structure Work where
  flows : List Nat := []
  arr : List (Float × Int × Nat × Nat) := []

partial def readWork (h : IO.FS.Stream) (w : Work) : IO Work := do
  let line ← h.getLine
  if line.isEmpty then return w
  let ws := (line.trimAscii.toString.splitOn " ").filter (· ≠ "")
  match ws with
  | ["END"] => return w
  | ["decl", f] => readWork h { w with flows := w.flows ++ [f.toNat!] }
  | ["arr", gap, pid, f, sz] => readWork h { w with arr := w.arr ++ [(rkb gap, pid.toInt!, f.toNat!, sz.toNat!)] }
  | _ => readWork h w

end RROnK

partial def rrkLoop (h : IO.FS.Stream) : IO Unit := do
  let line ← h.getLine
  if line.isEmpty then return
  let ws := (line.trimAscii.toString.splitOn " ").filter (· ≠ "")
  match ws with
  | ["CASE", id, rate, nf] =>
    IO.println s!"CASE {id}"
    let w ← RROnK.readWork h {}
    let F := nf.toNat!
    let flow := RROnK.natTable (w.arr.map fun x => (x.2.1, x.2.2.1))
    let size := RROnK.natTable (w.arr.map fun x => (x.2.1, x.2.2.2))
    let arrivals : List (Float × Int) := w.arr.map fun x => (x.1, x.2.1)
    let cfg : RR.Cfg Float := { rate := RROnK.rkb rate, flows := w.flows }
    let r := runAll (RROnK.prog F flow size cfg) 1 (10 * w.arr.length + 10) (RROnK.initState F arrivals)
    for l in RROnK.showRun F w.flows flow size r do IO.println l
    match r with
    | .returned _ s => IO.println (RROnK.oracleLine F flow size cfg s)
    | _ => IO.println "oracle -"
    IO.println "ENDCASE"
    rrkLoop h
  | [] => rrkLoop h
  | _ => IO.println s!"BADLINE {line.trimAscii.toString}"; rrkLoop h
