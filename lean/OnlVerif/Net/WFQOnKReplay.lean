import OnlVerif.Net.WFQOnK
/-!
# Running the WFQ-on-kernel program (driver mode `wfqk`)

```
CASE <id> <rate bits> <F>
w <class> <weight bits>                    -- the `weights` dict, in insertion order
arr <gap bits> <packet id> <flow> <size>   -- one per packet, in order (ids 0, 1, 2, …)
END
```
The driver runs `WFQOnK.prog` on the kernel model at `Float` time with `run()` (`runAll`) and prints how the run ended, the
`put` / `vtime` / `stamp` / `get` / `serve` / `out` / `done` observations in the order of the trace (with `env.now` resp. the
stamp / the virtual time as bit patterns), the attribute cells (`vtime`, `last_time`; per class in the key order of `weights`:
`finish_times`, `class_count` — `-` for a missing key — and the membership in `active_set`), the key orders of `queue_count`
and `class_count`, the number of items left in the store, the final clock and the verdict of the property's oracle
(`WFQOnK.orun` at `Float`) on this history.  The harness runs the real `WFQ` with a real source process on the real kernel and
compares line for line.
-/

namespace WFQOnK

def skb (s : String) : Float := Float.ofBitsStr s

def natTable (tbl : List (Int × Nat)) (i : Int) : Nat := ((tbl.find? (·.1 == i)).map (·.2)).getD 0

def showHEv : HEv Float → String
  | .put id t => s!"put {id} {t.bitsStr}"
  | .vtime v => s!"vtime {v.bitsStr}"
  | .stamp x => s!"stamp {x.bitsStr}"
  | .get t => s!"get {t.bitsStr}"
  | .serve id t => s!"serve {id} {t.bitsStr}"
  | .out id t => s!"out {id} {t.bitsStr}"
  | .done v => s!"done {v.bitsStr}"

def showCur (s : KState Float (WfqKSt Float)) : String :=
  match cellVal s cCur with
  | .int id => toString id
  | _ => "None"

/-- a dict entry of scalars: the bit pattern, `-` for a missing key -/
def showNumKey (s : KState Float (WfqKSt Float)) (k : Nat) : String :=
  match (TimeCell.dec (cellVal s k) : Option Float) with
  | some x => x.bitsStr
  | none => "-"

/-- a dict entry of integers: `-` for a missing key -/
def showIntKey (s : KState Float (WfqKSt Float)) (k : Nat) : String :=
  match cellVal s k with
  | .int n => toString n
  | _ => "-"

/-- does the oracle of the property (`WFQOnK.orun`, here at `Float`) accept the history and end drained? -/
def oracleLine (F : Nat) (flow size : Int → Nat) (cfg : WfqCfg Float) (s : KState Float (WfqKSt Float)) : String :=
  match orun F flow size cfg oInit (histOf s.trace) with
  | some o => if drained o then "oracle ok" else "oracle pending"
  | none => "oracle REJECT"

def showRun (F : Nat) (flow : Int → Nat) (cfg : WfqCfg Float) (r : RunResult Float (WfqKSt Float)) : List String :=
  let (tag, s) := match r with
    | .returned _ s => ("RET", s)
    | .raised x s => (s!"RAISED {x.ty}", s)
    | .outOfFuel s => ("FUEL", s)
  [tag] ++ (histOf s.trace).map showHEv ++
    [s!"cells rc={cellInt s cRecv} cur={showCur s} len={(s.res pst).items.length}"] ++
    (List.range F).map (fun f => s!"flow {f} count={cellInt s (cCount f)} bytes={cellInt s (cBytes f)}") ++
    [s!"vtime {(cellNum s cVtime).bitsStr} last_time {(cellNum s cLast).bitsStr}"] ++
    cfg.weights.map (fun kv => s!"class {kv.1} finish={showNumKey s (cFin kv.1)} count={showIntKey s (cCls kv.1)} active={cellInt s (cAct kv.1)}") ++
    [s!"keys {keysOf flow ((putsOf s.trace).map (·.1))}",
     s!"ckeys {(keysOf flow ((putsOf s.trace).map (·.1))).filter fun c => (cellVal s (cCls c)) != Val.none}",
     s!"now {s.now.bitsStr}"]

structure Work where
  ws : List (Nat × Float) := []
  arr : List (Float × Int × Nat × Nat) := []

partial def readWork (h : IO.FS.Stream) (w : Work) : IO Work := do
  let line ← h.getLine
  if line.isEmpty then return w
  let ws := (line.trimAscii.toString.splitOn " ").filter (· ≠ "")
  match ws with
  | ["END"] => return w
  | ["w", c, x] => readWork h { w with ws := w.ws ++ [(c.toNat!, skb x)] }
  | ["arr", gap, pid, f, sz] => readWork h { w with arr := w.arr ++ [(skb gap, pid.toInt!, f.toNat!, sz.toNat!)] }
  | _ => readWork h w

end WFQOnK

partial def wfqkLoop (h : IO.FS.Stream) : IO Unit := do
  let line ← h.getLine
  if line.isEmpty then return
  let ws := (line.trimAscii.toString.splitOn " ").filter (· ≠ "")
  match ws with
  | ["CASE", id, rate, nf] =>
    IO.println s!"CASE {id}"
    let w ← WFQOnK.readWork h {}
    let F := nf.toNat!
    let flow := WFQOnK.natTable (w.arr.map fun x => (x.2.1, x.2.2.1))
    let size := WFQOnK.natTable (w.arr.map fun x => (x.2.1, x.2.2.2))
    let arrivals : List (Float × Int) := w.arr.map fun x => (x.1, x.2.1)
    let cfg : WfqCfg Float := { rate := WFQOnK.skb rate, weights := w.ws, flow2class := (List.range F).map fun f => (f, f) }
    let r := runAll (WFQOnK.prog F flow size cfg w.arr.length 1) 1 (10 * w.arr.length + 10) (WFQOnK.initState F arrivals)
    for l in WFQOnK.showRun F flow cfg r do IO.println l
    match r with
    | .returned _ s => IO.println (WFQOnK.oracleLine F flow size cfg s)
    | _ => IO.println "oracle -"
    IO.println "ENDCASE"
    wfqkLoop h
  | [] => wfqkLoop h
  | _ => IO.println s!"BADLINE {line.trimAscii.toString}"; wfqkLoop h
