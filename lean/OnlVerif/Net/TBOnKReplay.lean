import OnlVerif.Net.TBOnK
/-!
# Running the token-bucket-on-kernel program (driver mode `tbk`)

```
CASE <id> <rate bits> <bucket_size bits> <peak bits | None>
arr <gap bits> <size>      -- one per packet, in order
END
```
The driver runs `TBOnK.body` on the kernel model at `Float` time with `run()` (`runAll`) and prints how the run ended, the
`put` / `out` observations in the order of the trace (`<what> <id> <env.now bits>`), `packets_received`, `packets_sent`,
`current_bucket`, `update_time`, the final clock and the verdict of the property's oracle (`TBOnK.orun` at `Float`) on this
history.  The harness runs the real `TokenBucket` with a real source process on the real kernel and compares line for line.
-/

namespace TBOnK

def tkb (s : String) : Float := Float.ofBitsStr s

def showHEv : HEv Float → String
  | .put id t => s!"put {id} {t.bitsStr}"
  | .out id t => s!"out {id} {t.bitsStr}"

def oracleLine (size : Int → Nat) (cfg : TbCfg Float) (s : KState Float (TbS Float)) : String :=
  match orun size cfg (oInit cfg) (histOf s.trace) with
  | some o => if o.waiting.isEmpty then "oracle ok" else "oracle pending"
  | none => "oracle REJECT"

def showRun (size : Int → Nat) (cfg : TbCfg Float) (r : RunResult Float (TbS Float)) : List String :=
  let (tag, s) := match r with
    | .returned _ s => ("RET", s)
    | .raised x s => (s!"RAISED {x.ty}", s)
    | .outOfFuel s => ("FUEL", s)
  [tag] ++ (histOf s.trace).map showHEv ++
    [s!"cells rc={cellNat s cRecv} sn={cellNat s cSent} cb={(cellTime s cLevel).bitsStr} ut={(cellTime s cUpd).bitsStr}",
     s!"now {s.now.bitsStr}",
     match r with | .returned _ _ => oracleLine size cfg s | _ => "oracle -"]

partial def readWork (h : IO.FS.Stream) (arr : List (Float × Nat)) : IO (List (Float × Nat)) := do
  let line ← h.getLine
  if line.isEmpty then return arr.reverse
  let ws := (line.trimAscii.toString.splitOn " ").filter (· ≠ "")
  match ws with
  | ["END"] => return arr.reverse
  | ["arr", g, sz] => readWork h ((tkb g, sz.toNat!) :: arr)
  | _ => readWork h arr

end TBOnK

partial def tbkLoop (h : IO.FS.Stream) : IO Unit := do
  let line ← h.getLine
  if line.isEmpty then return
  let ws := (line.trimAscii.toString.splitOn " ").filter (· ≠ "")
  match ws with
  | ["CASE", id, rate, bucket, peak] =>
    IO.println s!"CASE {id}"
    let arr ← TBOnK.readWork h []
    let cfg : TbCfg Float := { rate := TBOnK.tkb rate, bucket := TBOnK.tkb bucket,
                               peak := if peak == "None" then none else some (TBOnK.tkb peak) }
    let size : Int → Nat := fun i => (arr.map (·.2)).getD i.toNat 0
    let r := runAll (TBOnK.body size cfg) 1 (6 * arr.length + 8) (TBOnK.initState cfg (arr.map (·.1)))
    for l in TBOnK.showRun size cfg r do IO.println l
    IO.println "ENDCASE"
    tbkLoop h
  | [] => tbkLoop h
  | _ => IO.println s!"BADLINE {line.trimAscii.toString}"; tbkLoop h
