import OnlVerif.Kernel.Step
import OnlVerif.Kernel.TimeCell
import OnlVerif.Net.Wire
/-!
# The Wire as a process *on the kernel model `K`*

`OnlVerif/Net/Wire.lean` describes `onl.netdev.Wire` as an instance of the FifoServer LTS (model `E`), whose
admissibility rules *assume* what the kernel guarantees.  This file writes the same device as a program of the kernel
model (`OnlVerif/Kernel`): the generator `Wire.run` and a packet source that calls `Wire.put` are `Burst` programs, the
`Store` of the wire is a `Store` resource of `K`, and nothing is assumed about scheduling.  `OnlVerif/Props/C10K.lean`
proves that the `out.put` observations of every run are exactly the delivery recurrence of C10.

```python
def run(self, env):                                              def put(self, packet):
    while True:                                                      self.packets_rec += 1
        packet = yield self.store.get()                              packet.current_time = self.env.now
        if not self.loss_rate or random.uniform(0, 1) >= self.loss_rate:   self.store.put(packet)
            queued_time = self.env.now - packet.current_time
            delay = self.delay_dist()
            if queued_time < delay:
                yield env.timeout(delay - queued_time)
            self.out.put(packet)
```

Encoding:

* the `k`-th packet handed to `put` has id `k`; the store is resource `0` (unbounded `Store`); `packets_rec` is cell 0;
  `packet.current_time` of packet `k` is cell `10 + k` (through the codec `TimeCell`, `Val` has no scalar constructor);
* the draws are part of the workload: `losses` is what `random.uniform(0, 1)` returns at its 1st, 2nd, … call (it is called
  once per packet taken from the store, and only if `loss_rate` is truthy), `delays` what `delay_dist()` returns at its
  1st, 2nd, … call (it is called once per packet that is *not* lost).  The wire generator counts its calls in its local state;
  a list that runs out yields `0`;
* `self.out.put(packet)` is the observation `log "out" (int id)` (recorded with `env.now` in `KState.trace`); a dropped
  packet is the observation `log "lost" (int id)` (the debug print of the code);
* `K` has no call that reads `env.now`: every generator carries the instant of its next resumption in its local state
  (`now + delay` for a sleep — the kernel's own expression).  `Wire.run` resumes from `store.get()` either in the instant
  of the call (an item was there) or in the instant of the `put` that serves it, which is the packet's `current_time`: so
  `env.now` at that point is `max(instant of the get call, packet.current_time)`.  That these are `env.now` whenever the
  generator runs is part of the proved invariant; the observations record the kernel's own clock;
* the source is the process `for gap in arrivals: yield env.timeout(gap); wire.put(packet)`.
-/

/-- local states of the two generator functions (where each one is suspended, the instant it resumes at, its counters) -/
inductive WSt (τ : Type) where
  /-- the source: resumes at `now` (not started / after the sleep before the `put` of packet `next`); `pending` = that `put`
  is due; then the gaps still to come -/
  | src (now : τ) (pending : Bool) (next : Nat) (rest : List τ)
  /-- `Wire.run` not started (created at `now`) -/
  | wStart (now : τ)
  /-- `Wire.run` suspended in `packet = yield self.store.get()`, called at `now`; `nl`/`nd` = calls of `random.uniform` /
  `delay_dist` made so far -/
  | wGet (now : τ) (nl nd : Nat)
  /-- `Wire.run` suspended in `yield env.timeout(delay - queued_time)` holding packet `id`, due at `wake` -/
  | wTx (id : Int) (wake : τ) (nl nd : Nat)

namespace WireOnK
variable {τ : Type} [Num τ] [TimeCell τ]

def storeId : ResId := 0
def cRec : Nat := 0
/-- the cell of `packet.current_time` of packet `id` -/
def cPkt (id : Int) : Nat := 10 + id.toNat

def typeErr : Exc := ⟨"TypeError", []⟩

/-- what a program does with a reply it cannot use (never happens in the runs of this program) -/
def bad : Reply → Burst τ (WSt τ)
  | .err x => .raise x
  | _ => .raise typeErr

def loadInt (k : Nat) (cont : Int → Burst τ (WSt τ)) : Burst τ (WSt τ) :=
  .call (.load k) fun rp => match rp with
    | .val (.int n) => cont n
    | rp => bad rp

def loadTime (k : Nat) (cont : τ → Burst τ (WSt τ)) : Burst τ (WSt τ) :=
  .call (.load k) fun rp => match rp with
    | .val v => (match TimeCell.dec v with
      | some x => cont x
      | none => .raise typeErr)
    | rp => bad rp

/-- `Wire.put(packet)` at instant `now`, followed by `cont` -/
def wirePut (now : τ) (id : Int) (cont : Burst τ (WSt τ)) : Burst τ (WSt τ) :=
  loadInt cRec fun n =>
  .call (.store cRec (.int (n + 1))) fun _ =>                   -- self.packets_rec += 1
  .call (.store (cPkt id) (TimeCell.enc now)) fun _ =>          -- packet.current_time = self.env.now
  .call (.sput storeId id) fun _ =>                             -- self.store.put(packet)
  cont

/-- the source loop from its head at instant `now`: `for gap in rest: yield env.timeout(gap); …` -/
def srcLoop (now : τ) (next : Nat) : List τ → Burst τ (WSt τ)
  | [] => .ret .none
  | gap :: rest => .call (.timeout gap .none) fun rp => match rp with
      | .ev e => .yield e (.src (now + gap) true next rest)
      | rp => bad rp

/-- `packet = yield self.store.get()` at instant `now` -/
def wireLoop (now : τ) (nl nd : Nat) : Burst τ (WSt τ) :=
  .call (.sget storeId 0) fun rp => match rp with
    | .ev g => .yield g (.wGet now nl nd)
    | rp => bad rp

/-- `self.out.put(packet)` at instant `now`, then the loop -/
def wireOut (now : τ) (id : Int) (nl nd : Nat) : Burst τ (WSt τ) :=
  .call (.log "out" (.int id)) fun _ => wireLoop now nl nd

/-- the packet is dropped (`if self.debug: print("Dropped on wire …")`: the observation `lost`), then the loop -/
def wireLost (now : τ) (id : Int) (nl nd : Nat) : Burst τ (WSt τ) :=
  .call (.log "lost" (.int id)) fun _ => wireLoop now nl nd

/-- the `k`-th draw of a list (`0` when it has run out) -/
def draw (l : List τ) (k : Nat) : τ := l.getD k Num.zero

/-- `Wire.run` from the point where `store.get()` has delivered packet `id`; `t0` = the instant `get` was called at -/
def wireServe (cfg : WireCfg τ) (losses delays : List τ) (t0 : τ) (nl nd : Nat) (id : Int) : Burst τ (WSt τ) :=
  loadTime (cPkt id) fun ct =>
  let now := Num.pymax t0 ct                                    -- (env.now: see the header)
  match Wire.lossOn cfg with
  | some r =>
    if draw losses nl < r then wireLost now id (nl + 1) nd      -- lost: `random.uniform(0, 1) >= loss_rate` is false
    else
      if now - ct < draw delays nd then                         -- if queued_time < delay:
        .call (.timeout (draw delays nd - (now - ct)) .none) fun rp => match rp with
          | .ev t => .yield t (.wTx id (now + (draw delays nd - (now - ct))) (nl + 1) (nd + 1))
          | rp => bad rp
      else wireOut now id (nl + 1) (nd + 1)
  | none =>                                                     -- `not self.loss_rate`: no draw
    if now - ct < draw delays nd then
      .call (.timeout (draw delays nd - (now - ct)) .none) fun rp => match rp with
        | .ev t => .yield t (.wTx id (now + (draw delays nd - (now - ct))) nl (nd + 1))
        | rp => bad rp
    else wireOut now id nl (nd + 1)

/-- the two generator functions as one `K` program -/
def body (cfg : WireCfg τ) (losses delays : List τ) : WSt τ → Resume → Burst τ (WSt τ)
  | .src now pending next rest, _ =>
    if pending then wirePut now (next : Int) (srcLoop now (next + 1) rest) else srcLoop now next rest
  | .wStart now, _ => wireLoop now 0 0
  | .wGet t0 nl nd, .value (.int id) => wireServe cfg losses delays t0 nl nd id
  | .wGet _ _ _, _ => .raise typeErr
  | .wTx id now nl nd, _ => wireOut now id nl nd

/-- event ids of the two processes -/
def wireProc : EvId := 0
def srcProc : EvId := 2

/-- a fresh environment at instant 0 with the wire's `Store`, after `Wire.__init__` (`env.process(self.run(env))`) and
`env.process(source(...))` -/
def initState (arrivals : List τ) : KState τ (WSt τ) :=
  [Call.spawn (WSt.wStart Num.zero), Call.spawn (WSt.src Num.zero false 0 arrivals)].foldl (fun s c => (doCall s 0 c).1)
    { now := Num.zero, resources := #[{ kind := .store, capacity := none }], shared := [(cRec, .int 0)] }

/-- the `out.put(packet)` observations of a trace: `(id, env.now)` in order -/
def outOf : Obs τ → Option (Int × τ)
  | .log _ what (.int id) now => if what = "out" then some (id, now) else none
  | _ => none

def outsOf (tr : Array (Obs τ)) : List (Int × τ) := tr.toList.filterMap outOf

/-- the packets that left the wire, forwarded (`out`) or dropped (`lost`), in order -/
def leftOf : Obs τ → Option Int
  | .log _ what (.int id) _ => if what = "out" ∨ what = "lost" then some id else none
  | _ => none

def leftsOf (tr : Array (Obs τ)) : List Int := tr.toList.filterMap leftOf

/-- is the packet lost, given the draw of `random.uniform(0, 1)`? (`Wire.lostNow` of the LTS) -/
def isLost (cfg : WireCfg τ) (x : τ) : Bool := Wire.lostNow cfg x

/-- the loss-draw counter after one more packet has been taken from the store: `random.uniform` is called only when
`loss_rate` is truthy -/
def nlNext (cfg : WireCfg τ) (nl : Nat) : Nat := match Wire.lossOn cfg with | some _ => nl + 1 | none => nl

/-- **the delivery recurrence of C10**: packet `k` arrives at `a_k` (the sum of the first `k + 1` gaps); if its loss draw
says "lost" it is never delivered and delays nobody; otherwise it is delivered at `max(a_k + d, previous delivery)` with `d`
the next unused delay.  `t` = the previous arrival instant, `prev` = the previous delivery (`none` before the first),
`k` = the id of the next packet, `nl`/`nd` = draws used so far (no loss draw is taken when `loss_rate` is falsy) -/
def deliveries (cfg : WireCfg τ) (losses delays : List τ) : Option τ → τ → Nat → Nat → Nat → List τ → List (Int × τ)
  | _, _, _, _, _, [] => []
  | prev, t, k, nl, nd, gap :: rest =>
    let a := t + gap
    let nl' := nlNext cfg nl
    if isLost cfg (draw losses nl) then deliveries cfg losses delays prev a (k + 1) nl' nd rest
    else
      let d := match prev with
        | none => a + draw delays nd
        | some p => Num.pymax (a + draw delays nd) p
      ((k : Int), d) :: deliveries cfg losses delays (some d) a (k + 1) nl' (nd + 1) rest

/-! ## the abstraction function -/

/-- the packet object behind an id, as the LTS sees it, with its arrival stamp -/
def pktOf (ct : τ) (id : Int) : Pkt τ := { id := id.toNat, flow := 0, size := 0, ctime := ct, draw := Num.zero }

def cellVal (s : KState τ (WSt τ)) (k : Nat) : Val := ((s.shared.find? (·.1 == k)).map (·.2)).getD Val.none

/-- `packet.current_time` of packet `id`, read from its cell -/
def ctCell (s : KState τ (WSt τ)) (id : Int) : τ := (TimeCell.dec (cellVal s (cPkt id))).getD Num.zero

def recCell (s : KState τ (WSt τ)) : Nat :=
  match cellVal s cRec with
  | .int n => n.toNat
  | _ => 0

/-- **abstraction function**: the LTS state (`Net/Fifo.lean` with `Wire.dev`) a kernel state of this program stands for,
read off the wire process (where it is suspended, whether the event it waits for is triggered), the store and the cells.
The ghost fields of the LTS's device state (`lastDone`, `curD`, `log`: no decision reads them) are left at their initial
values; `setGhost` puts any values there. -/
def absWire (s : KState τ (WSt τ)) : FState τ (WireSt τ) :=
  let base : FState τ (WireSt τ) :=
    { now := s.now, dev := { packetsRec := recCell s, lastDone := Num.zero, curD := Num.zero },
      items := (s.res storeId).items.map fun i => pktOf (ctCell s i) i }
  match s.proc? wireProc with
  | some { st := .wGet _ _ _, target := some g } =>
    match (s.ev g).out with
    | some (.ok (.int id)) => { base with started := true, handed := some (pktOf (ctCell s id) id) }
    | _ => { base with started := true, getPending := true }
  | some { st := .wTx id w _ _, target := some _ } =>
    { base with started := true, tx := some (pktOf (ctCell s id) id, w, 0) }
  | _ => base

/-- the same LTS state with other values in the ghost fields of the device state -/
def setGhost (st : FState τ (WireSt τ)) (gh : WireSt τ) : FState τ (WireSt τ) :=
  { st with dev := { gh with packetsRec := st.dev.packetsRec } }

/-- the final state of `run()` if it returned, else `none` -/
def finalState (r : RunResult τ (WSt τ)) : Option (KState τ (WSt τ)) :=
  match r with
  | .returned _ s => some s
  | _ => none

end WireOnK
