import OnlVerif.Net.REDOnK
import OnlVerif.Net.FifoReplay
/-!
# Running the generator → REDPort → sink program on the kernel model (driver mode `redk`)

```
CASE <id> <rate bits> <qlimit> <max_th bits> <min_th bits> <max_p bits> <weight_factor> <limit_bytes 0|1> <initial_delay bits> <finish bits|inf> <flow>
g <gap bits> <size>          -- what arrival_dist() / size_dist() return, in call order (equally long scripts)
…
u <draw bits>                -- what random.uniform(0, 1) returns, in call order
…
END
```
The driver runs `REDOnK.body` on the kernel model at `Float` time with `run()` (`runAll`) and prints how the run ended,
then in trace order one line per observation (`gen`, `avg`, `draw`, `drop`, `out`, `sink`; the ghost `u` is skipped),
the attribute cells and the final clock.  The harness runs the real `DistPacketGenerator`, `REDPort` and `PacketSink`
on the real kernel (with two taps between them) and compares line for line.
-/

namespace REDOnK

/-- one output line per observation of the program (none for the ghost `u` and for the kernel's own records) -/
def showObs (tr : Array (Obs Float)) : Obs Float → Option String
  | .log _ what v now =>
    if what = "avg" then (TimeCell.dec v).map fun (x : Float) => s!"avg {x.bitsStr} {now.bitsStr}"
    else if what = "draw" then (TimeCell.dec v).map fun (x : Float) => s!"draw {x.bitsStr}"
    else match v with
      | .int id =>
        if what = "gen" then some s!"gen {id} {now.bitsStr}"
        else if what = "drop" then some s!"drop {id} {now.bitsStr}"
        else if what = "out" then some s!"out {id} {now.bitsStr}"
        else if what = "sink" then some s!"sink {id} {now.bitsStr} {(now - genTime tr id).bitsStr}"
        else none
      | _ => none
  | _ => none

def showRun (r : RunResult Float (RSt Float)) : List String :=
  let (tag, s) := match r with
    | .returned _ s => ("RET", s)
    | .raised x s => (s!"RAISED {x.ty}", s)
    | .outOfFuel s => ("FUEL", s)
  [tag] ++ s.trace.toList.filterMap (showObs s.trace) ++
    [s!"cells bs={cellInt s cByteSize} rc={cellInt s cReceived} dr={cellInt s cDropped} busy={cellInt s cBusy} bsz={cellInt s cBusySize} avg={(cellSc s cAvg : Float).bitsStr} scnt={cellInt s cSinkCnt} sbytes={cellInt s cSinkBytes}",
     s!"now {s.now.bitsStr}"]

/-- the two scripts of a case: `g` lines (gap, size) and `u` lines (draw), up to `END` -/
partial def readScripts (h : IO.FS.Stream) (gs : List (Float × Nat)) (us : List Float) :
    IO (List (Float × Nat) × List Float) := do
  let line ← h.getLine
  if line.isEmpty then return (gs.reverse, us.reverse)
  let ws := (line.trimAscii.toString.splitOn " ").filter (· ≠ "")
  match ws with
  | ["END"] => return (gs.reverse, us.reverse)
  | ["g", gap, sz] => readScripts h ((fb gap, sz.toNat!) :: gs) us
  | ["u", x] => readScripts h gs (fb x :: us)
  | _ => readScripts h gs us

end REDOnK

partial def redkLoop (h : IO.FS.Stream) : IO Unit := do
  let line ← h.getLine
  if line.isEmpty then return
  let ws := (line.trimAscii.toString.splitOn " ").filter (· ≠ "")
  match ws with
  | ["CASE", id, rate, ql, maxTh, minTh, maxP, w, lb, idelay, fin, flow] =>
    IO.println s!"CASE {id}"
    let (gs, us) ← REDOnK.readScripts h [] []
    let gaps := gs.map (·.1)
    let sizes := gs.map (·.2)
    let c : REDOnK.Cfg Float :=
      { rate := fb rate, qlimit := ql.toNat!, maxTh := fb maxTh, minTh := fb minTh, maxP := fb maxP, w := w.toNat!,
        limitBytes := lb == "1", initialDelay := fb idelay, finish := if fin == "inf" then none else some (fb fin),
        flow := flow.toNat! }
    let r := runAll (REDOnK.body c sizes) 1 (8 * gs.length + 32) (REDOnK.initState gaps sizes us)
    for l in REDOnK.showRun r do IO.println l
    IO.println "ENDCASE"
    redkLoop h
  | [] => redkLoop h
  | _ => IO.println s!"BADLINE {line.trimAscii.toString}"; redkLoop h
