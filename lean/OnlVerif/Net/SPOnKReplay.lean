import OnlVerif.Net.SPOnK
/-!
# Running the SP-on-kernel program (driver mode `spk`)

```
CASE <id> <rate bits> <F>
prio <flow> <priority>                     -- the `priorities` dict, in insertion order
arr <gap bits> <packet id> <flow> <size>   -- one per packet, in order
END
```
The driver runs `SPOnK.prog` on the kernel model at `Float` time with `run()` (`runAll`) and prints how the run ended, the
`put` / `serve` / `out` observations in the order of the trace (`<what> <id> <env.now bits>`), the attribute cells, the number
of wake-up tokens left, the final clock and the verdict of the property's oracle (`SPOnK.orun` at `Float`) on this
history.  The harness runs the real `SP` with a real source process on the real kernel
and compares line for line.
-/

namespace SPOnK

def skb (s : String) : Float := Float.ofBitsStr s

def natTable (tbl : List (Int × Nat)) (i : Int) : Nat := ((tbl.find? (·.1 == i)).map (·.2)).getD 0

def showHEv : HEv Float → String
  | .put id t => s!"put {id} {t.bitsStr}"
  | .serve id t => s!"serve {id} {t.bitsStr}"
  | .out id t => s!"out {id} {t.bitsStr}"

def showCur (s : KState Float (SpSt Float)) : String :=
  match cellVal s cCur with
  | .int id => toString id
  | _ => "None"

/-- does the oracle of the property (`SPOnK.orun`, here at `Float`) accept the history and end drained? -/
def oracleLine (F : Nat) (flow size : Int → Nat) (cfg : SP.Cfg Float) (s : KState Float (SpSt Float)) : String :=
  match orun F flow size cfg oInit (histOf s.trace) with
  | some o => if drained F o then "oracle ok" else "oracle pending"
  | none => "oracle REJECT"

def showRun (F : Nat) (r : RunResult Float (SpSt Float)) : List String :=
  let (tag, s) := match r with
    | .returned _ s => ("RET", s)
    | .raised x s => (s!"RAISED {x.ty}", s)
    | .outOfFuel s => ("FUEL", s)
  [tag] ++ (histOf s.trace).map showHEv ++
    [s!"cells rc={cellInt s cRecv} cur={showCur s} tokens={(s.res tokStore).items.length}"] ++
    (List.range F).map (fun f => s!"flow {f} count={cellInt s (cCount f)} bytes={cellInt s (cBytes f)} len={(s.res (flowStore f)).items.length}") ++
    [s!"now {s.now.bitsStr}"]

structure Work where
  prios : List (Nat × Int) := []
  arr : List (Float × Int × Nat × Nat) := []

partial def readWork (h : IO.FS.Stream) (w : Work) : IO Work := do
  let line ← h.getLine
  if line.isEmpty then return w
  let ws := (line.trimAscii.toString.splitOn " ").filter (· ≠ "")
  match ws with
  | ["END"] => return w
  | ["prio", f, p] => readWork h { w with prios := w.prios ++ [(f.toNat!, p.toInt!)] }
  | ["arr", gap, pid, f, sz] => readWork h { w with arr := w.arr ++ [(skb gap, pid.toInt!, f.toNat!, sz.toNat!)] }
  | _ => readWork h w

end SPOnK

partial def spkLoop (h : IO.FS.Stream) : IO Unit := do
  let line ← h.getLine
  if line.isEmpty then return
  let ws := (line.trimAscii.toString.splitOn " ").filter (· ≠ "")
  match ws with
  | ["CASE", id, rate, nf] =>
    IO.println s!"CASE {id}"
    let w ← SPOnK.readWork h {}
    let F := nf.toNat!
    let flow := SPOnK.natTable (w.arr.map fun x => (x.2.1, x.2.2.1))
    let size := SPOnK.natTable (w.arr.map fun x => (x.2.1, x.2.2.2))
    let arrivals : List (Float × Int) := w.arr.map fun x => (x.1, x.2.1)
    let cfg : SP.Cfg Float := { rate := SPOnK.skb rate, prios := w.prios }
    let r := runAll (SPOnK.prog F flow size cfg) 1 (10 * w.arr.length + 10) (SPOnK.initState F arrivals)
    for l in SPOnK.showRun F r do IO.println l
    match r with
    | .returned _ s => IO.println (SPOnK.oracleLine F flow size cfg s)
    | _ => IO.println "oracle -"
    IO.println "ENDCASE"
    spkLoop h
  | [] => spkLoop h
  | _ => IO.println s!"BADLINE {line.trimAscii.toString}"; spkLoop h
