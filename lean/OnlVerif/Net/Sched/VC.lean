import OnlVerif.Net.StampServer
/-!
# `onl.scheduler.VC` — VirtualClock

`put` mirrored literally, the `if self.vc[c] == 0` quirk included (a class whose `vc` is 0 — initially, or
again whenever the sum happens to be 0 — restarts from the real time).  `run` has no bookkeeping.
-/

structure VcCfg (α : Type) where
  rate : α
  /-- `vticks`: class ↦ virtual tick -/
  vticks : List (Nat × α)
  flow2class : List (Nat × Nat)

structure VcSt (α : Type) where
  vc : List (Nat × α)
  aux : List (Nat × α)

namespace VC
open Stamp
variable {α : Type} [Num α]

/-- `if self.vc[c] == 0: self.vc[c] = now` -/
def vcBase (v now : α) : α := if Num.eqb v Num.zero then now else v

/-- `aux_vc[c] = max(now, aux_vc[c]); aux_vc[c] += vticks[c]` -/
def auxOf (now a vt : α) : α := Num.pymax now a + vt

/-- `vc[c] = vc[c] + vticks[c] * size * 8.0` -/
def vcOf (v now vt : α) (size : Nat) : α := vcBase v now + vt * Num.ofNat size * Num.ofNat 8

def put (c : VcCfg α) (st : VcSt α) (now : α) (_total : Int) (p : SPkt) : Except SErr (VcSt α × α) :=
  match lookup c.flow2class p.flow with
  | none => .error (.raise "KeyError")
  | some cls =>
    match lookup st.vc cls with
    | none => .error (.raise "KeyError")
    | some v =>
      match lookup st.aux cls with
      | none => .error (.raise "KeyError")
      | some a =>
        match lookup c.vticks cls with
        | none => .error (.raise "KeyError")
        | some vt =>
          .ok ({ vc := setKey st.vc cls (vcOf v now vt p.size), aux := setKey st.aux cls (auxOf now a vt) },
               auxOf now a vt)

def done (st : VcSt α) (_now : α) (_p : SPkt) : Except SErr (VcSt α) := .ok st

def sched (c : VcCfg α) : Sched α (VcSt α) :=
  { rate := c.rate, onPut := put c, onDone := done }

/-- `for class_id in vticks.keys(): aux_vc[class_id] = 0; vc[class_id] = 0` -/
def init0 (c : VcCfg α) : VcSt α :=
  { vc := c.vticks.map fun kv => (kv.1, Num.zero), aux := c.vticks.map fun kv => (kv.1, Num.zero) }

end VC
