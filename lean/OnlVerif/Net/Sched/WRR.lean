import OnlVerif.Net.MultiQueue
/-!
# `onl.scheduler.wrr.WRR` — weighted round robin

```python
def run(self, env):
    while True:
        for flow_id, weight in self.weights.items():
            for _ in range(weight):
                if self.queue_count[flow_id] > 0:
                    store = self.stores.get(flow_id)
                    assert store
                    packet = yield store.get()
                    yield env.process(self.send_packet(packet))
                else:
                    break
        if self.total_packets == 0:
            yield self.packets_available.get()
```
-/

namespace WRR

inductive Pc where
  /-- at the head of the inner `for` body: entry `i` of `weights`, `j` packets already sent in this visit -/
  | at (i j : Nat)
  | got (i j : Nat)
  | sent (i j : Nat)
  | endPass
deriving DecidableEq, Repr

structure Cfg (α : Type) where
  rate : α
  /-- the `weights` dict in insertion order -/
  weights : List (Nat × Nat)

variable {α : Type} [Num α]

def micro (c : Cfg α) (k : Pc) (v : MQ.View) : MQ.Micro Pc :=
  match k with
  | .at i j =>
    match c.weights[i]? with
    | none => .goto .endPass
    | some (f, w) =>
      if j < w then
        if 0 < v.count f then
          if v.hasStore f then .get f (.got i j) else .fail "AssertionError: assert store"
        else .goto (.at (i + 1) 0)
      else .goto (.at (i + 1) 0)
  | .endPass => if v.total = 0 then .block (.at 0 0) else .goto (.at 0 0)
  | .got _ _ => .fail "model: micro at a yield point"
  | .sent _ _ => .fail "model: micro at a yield point"

def reads (c : Cfg α) (k : Pc) : Option Nat :=
  match k with
  | .at i j =>
    match c.weights[i]? with
    | some (f, w) => if j < w then some f else none
    | none => none
  | _ => none

def onPkt (k : Pc) (_v : MQ.View) (_c : Nat) (_p : MPkt) : MQ.PktDec Pc :=
  match k with
  | .got i j => .send false (.sent i j)
  | _ => .fail "model: packet at a wrong control point"

def onDone (k : Pc) (_p : MPkt) : Except String Pc :=
  match k with
  | .sent i j => .ok (.at i (j + 1))
  | _ => .error "model: sender ended at a wrong control point"

def sched (c : Cfg α) : MQ.Sched α Pc :=
  { rate := c.rate
    classOf := fun f => some f
    onPut := fun k _ _ => .ok k
    reads := reads c
    micro := micro c
    onPkt := onPkt
    onDone := onDone
    fuel := fun _ => 2 * c.weights.length + 6 }

end WRR
