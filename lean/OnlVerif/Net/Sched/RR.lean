import OnlVerif.Net.MultiQueue
/-!
# `onl.scheduler.rr.RR` — round robin

```python
def run(self, env):
    while True:
        for flow_id in self.flows:
            if self.queue_count[flow_id] > 0:
                store = self.stores.get(flow_id)
                assert store
                packet = yield store.get()
                yield env.process(self.send_packet(packet))
        if self.total_packets == 0:
            yield self.packets_available.get()
```
-/

namespace RR

inductive Pc where
  /-- at the head of the `for` body with index `i` into `flows` -/
  | at (i : Nat)
  | got (i : Nat)
  | sent (i : Nat)
  | endPass
deriving DecidableEq, Repr

structure Cfg (α : Type) where
  rate : α
  flows : List Nat

variable {α : Type} [Num α]

def micro (c : Cfg α) (k : Pc) (v : MQ.View) : MQ.Micro Pc :=
  match k with
  | .at i =>
    match c.flows[i]? with
    | none => .goto .endPass
    | some f =>
      if 0 < v.count f then
        if v.hasStore f then .get f (.got i) else .fail "AssertionError: assert store"
      else .goto (.at (i + 1))
  | .endPass => if v.total = 0 then .block (.at 0) else .goto (.at 0)
  | .got _ => .fail "model: micro at a yield point"
  | .sent _ => .fail "model: micro at a yield point"

def reads (c : Cfg α) (k : Pc) : Option Nat :=
  match k with
  | .at i => c.flows[i]?
  | _ => none

def onPkt (k : Pc) (_v : MQ.View) (_c : Nat) (_p : MPkt) : MQ.PktDec Pc :=
  match k with
  | .got i => .send false (.sent i)
  | _ => .fail "model: packet at a wrong control point"

def onDone (k : Pc) (_p : MPkt) : Except String Pc :=
  match k with
  | .sent i => .ok (.at (i + 1))
  | _ => .error "model: sender ended at a wrong control point"

def sched (c : Cfg α) : MQ.Sched α Pc :=
  { rate := c.rate
    classOf := fun f => some f
    onPut := fun k _ _ => .ok k
    reads := reads c
    micro := micro c
    onPkt := onPkt
    onDone := onDone
    fuel := fun _ => 2 * c.flows.length + 6 }

end RR
