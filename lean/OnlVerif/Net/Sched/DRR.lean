import OnlVerif.Net.MultiQueue
/-!
# `onl.scheduler.drr.DRR` — deficit round robin

```python
MIN_QUANTUM = 1500
def __init__(...):
    min_weight = min(weights.values())
    for class_id, weight in weights.items():
        self.deficit[class_id] = 0.0; self.queue_count[class_id] = 0; self.class_count[class_id] = 0
        self.quantum[class_id] = self.MIN_QUANTUM * weight / min_weight
def run(self, env):
    while True:
        while self.total_packets > 0:                                          # top
            for class_id, count in self.class_count.items():                   # visit i
                if count > 0:
                    self.deficit[class_id] += self.quantum[class_id]
                while self.deficit[class_id] > 0 and self.class_count[class_id] > 0:   # inner i
                    if class_id in self.head_of_line:
                        packet = self.head_of_line[class_id]; del self.head_of_line[class_id]
                    else:
                        packet = yield self.stores[class_id].get()
                    if packet.size <= self.deficit[class_id]:                  # gotPkt i
                        self.current_packet = packet
                    assert class_id == self.flow2class(packet.flow_id)
                    if packet.size <= self.deficit[class_id]:
                        yield env.process(self.send_packet(packet))            # sent i
                        self.class_count[class_id] -= 1
                        self.deficit[class_id] -= packet.size
                        if self.class_count[class_id] == 0:
                            self.deficit[class_id] = 0.0
                    else:
                        assert not class_id in self.head_of_line
                        self.head_of_line[class_id] = packet
                        break
        if self.total_packets == 0:
            yield self.packets_available.get()
def put(self, packet):
    class_id = self.flow2class(packet.flow_id)
    if self.total_packets == 0: self.packets_available.put(True)
    self.add_packet_to_queue(packet)
    self.class_count[class_id] += 1
    self.stores[class_id].put(packet)
```
-/

namespace DRR

inductive Pc where
  /-- at `while self.total_packets > 0` -/
  | top
  /-- at the head of the `for` body, entry `i` of `class_count` -/
  | visit (i : Nat)
  /-- at the test of the inner `while` for entry `i` -/
  | inner (i : Nat)
  /-- the loop receives a packet of entry `i` -/
  | gotPkt (i : Nat)
  /-- waiting for the sender -/
  | sent (i : Nat)
deriving DecidableEq, Repr

structure Cfg (α : Type) where
  rate : α
  /-- the `weights` dict in insertion order: class → weight -/
  weights : List (Nat × Nat)
  /-- `flow2class` as a table (`none`: the identity) -/
  flowMap : Option (List (Nat × Nat)) := none

structure Ctl (α : Type) where
  pc : Pc := .top
  /-- `deficit` -/
  deficit : List (Nat × α)
  /-- `class_count` -/
  classCount : List (Nat × Int)
  /-- ghost: number of times the quantum was added to the class's credit -/
  visits : List (Nat × Int) := []
  /-- ghost: bytes of the class whose transmission has been booked (`deficit -= size`) -/
  sentBytes : List (Nat × Int) := []
  /-- ghost: credit forgotten when the class emptied -/
  forfeited : List (Nat × α) := []

variable {α : Type} [Num α]

/-- `min(weights.values())` -/
def minWeight : List (Nat × Nat) → Nat
  | [] => 0
  | [(_, w)] => w
  | (_, w) :: r => if minWeight r < w then minWeight r else w

/-- `MIN_QUANTUM * weight / min_weight` -/
def quantumW (c : Cfg α) (w : Nat) : α := Num.ofNat (1500 * w) / Num.ofNat (minWeight c.weights)

/-- `self.quantum[class_id]` -/
def quantum (c : Cfg α) (cls : Nat) : Option α := (MQ.lookup c.weights cls).map (quantumW c)

def classOf (c : Cfg α) (f : Nat) : Option Nat :=
  match c.flowMap with
  | none => some f
  | some m => MQ.lookup m f

def acc (m : List (Nat × α)) (k : Nat) : α := (MQ.lookup m k).getD Num.zero

/-- `if count > 0: self.deficit[class_id] += self.quantum[class_id]` -/
def addQuantum (k : Ctl α) (cls : Nat) (d q : α) : Ctl α :=
  { k with deficit := MQ.setKey k.deficit cls (d + q), visits := MQ.bump k.visits cls 1 }

/-- bookkeeping after a transmission of `p` for class `cls` with credit `d` and `n` packets counted -/
def book (k : Ctl α) (cls : Nat) (d : α) (n : Int) (p : MPkt) : Ctl α :=
  let d1 := d - Num.ofNat p.size
  let k1 := { k with classCount := MQ.setKey k.classCount cls (n - 1), sentBytes := MQ.bump k.sentBytes cls p.size }
  if n - 1 = 0 then
    { k1 with deficit := MQ.setKey k.deficit cls Num.zero, forfeited := MQ.setKey k.forfeited cls (acc k.forfeited cls + d1) }
  else { k1 with deficit := MQ.setKey k.deficit cls d1 }

def micro (_c : Cfg α) (q : Nat → Option α) (k : Ctl α) (v : MQ.View) : MQ.Micro (Ctl α) :=
  match k.pc with
  | .top =>
    if 0 < v.total then .goto { k with pc := .visit 0 }
    else if v.total = 0 then .block { k with pc := .top }
    else .goto { k with pc := .top }
  | .visit i =>
    match k.classCount[i]? with
    | none => .goto { k with pc := .top }
    | some (cls, n) =>
      if 0 < n then
        match MQ.lookup k.deficit cls, q cls with
        | some d, some qq => .goto { addQuantum k cls d qq with pc := .inner i }
        | _, _ => .fail "KeyError: deficit/quantum"
      else .goto { k with pc := .inner i }
  | .inner i =>
    match k.classCount[i]? with
    | none => .fail "model: inner loop without a class"
    | some (cls, n) =>
      match MQ.lookup k.deficit cls with
      | none => .fail "KeyError: deficit"
      | some d =>
        if Num.zero < d ∧ 0 < n then
          match v.parked cls with
          | some _ => .take cls { k with pc := .gotPkt i }
          | none => .get cls { k with pc := .gotPkt i }
        else .goto { k with pc := .visit (i + 1) }
  | .gotPkt _ => .fail "model: micro at a yield point"
  | .sent _ => .fail "model: micro at a yield point"

def onPkt (c : Cfg α) (k : Ctl α) (_v : MQ.View) (cls : Nat) (p : MPkt) : MQ.PktDec (Ctl α) :=
  match k.pc with
  | .gotPkt i =>
    match MQ.lookup k.deficit cls with
    | none => .fail "KeyError: deficit"
    | some d =>
      if classOf c p.flow = some cls then
        if (Num.ofNat p.size : α) ≤ d then .send true { k with pc := .sent i }
        else .park { k with pc := .visit (i + 1) }
      else .fail "AssertionError: class_id == flow2class(flow_id)"
  | _ => .fail "model: packet at a wrong control point"

def onDone (k : Ctl α) (p : MPkt) : Except String (Ctl α) :=
  match k.pc with
  | .sent i =>
    match k.classCount[i]? with
    | none => .error "model: sender ended without a class"
    | some (cls, n) =>
      match MQ.lookup k.deficit cls with
      | none => .error "KeyError: deficit"
      | some d => .ok { book k cls d n p with pc := .inner i }
  | _ => .error "model: sender ended at a wrong control point"

/-- `self.class_count[class_id] += 1` -/
def onPut (k : Ctl α) (cls : Nat) (_p : MPkt) : Except String (Ctl α) :=
  match MQ.lookup k.classCount cls with
  | none => .error "KeyError: class_count"
  | some n => .ok { k with classCount := MQ.setKey k.classCount cls (n + 1) }

def maxSize : List (Nat × Option MPkt) → Nat
  | [] => 0
  | (_, some p) :: r => if maxSize r < p.size then p.size else maxSize r
  | (_, none) :: r => maxSize r

def sched (c : Cfg α) : MQ.Sched α (Ctl α) :=
  { rate := c.rate
    classOf := classOf c
    onPut := onPut
    reads := fun _ => none
    micro := micro c (quantum c)
    onPkt := onPkt c
    onDone := onDone
    fuel := fun hol => (2 * c.weights.length + 3) * (maxSize hol / 1500 + 3) }

/-- the control state after `__init__` -/
def ctl0 (c : Cfg α) : Ctl α :=
  { deficit := c.weights.map fun (cls, _) => (cls, Num.zero)
    classCount := c.weights.map fun (cls, _) => (cls, 0) }

/-- `queue_count` after `__init__`: every class id is a key -/
def counts0 (c : Cfg α) : List (Nat × Int) := c.weights.map fun (cls, _) => (cls, 0)

end DRR
