import OnlVerif.Net.StampServer
/-!
# `onl.scheduler.WFQ` — the stamp state of weighted fair queueing

`put`, `update_vtime`, `reset_vtime` and the bookkeeping of `run` are mirrored literally, with the same float
operation order.  Every dict access that can miss and every division that can hit zero is an explicit
`raise`.  `active_set` is a Python set of small ints; it is kept here as a strictly ascending list.
`weight_sum` is accumulated by the implementation in set iteration order and here in ascending class order:
the two agree bit for bit when the weights are integers or dyadic floats (every partial sum is exact).
-/

structure WfqCfg (α : Type) where
  rate : α
  /-- `weights`: class ↦ weight, in the dict's key order -/
  weights : List (Nat × α)
  /-- `flow2class` as a finite map flow ↦ class -/
  flow2class : List (Nat × Nat)

structure WfqSt (α : Type) where
  vtime : α
  lastTime : α
  /-- `finish_times` -/
  finish : List (Nat × α) := []
  /-- `active_set`, ascending -/
  active : List Nat := []
  /-- `class_count` -/
  classCount : List (Nat × Int) := []

namespace WFQ
open Stamp
variable {α : Type} [Num α]

/-- `active_set.add(c)` -/
def insertAsc (c : Nat) : List Nat → List Nat
  | [] => [c]
  | x :: xs => if c < x then c :: x :: xs else if c = x then x :: xs else x :: insertAsc c xs

/-- `weight_sum = 0.0; for i in active_set: weight_sum += weights[i]` -/
def weightSum (w : List (Nat × α)) : List Nat → α → Except SErr α
  | [], acc => .ok acc
  | c :: cs, acc =>
    match lookup w c with
    | none => .error (.raise "KeyError")
    | some x => weightSum w cs (acc + x)

/-- `update_vtime` -/
def updateVtime (c : WfqCfg α) (st : WfqSt α) (now : α) : Except SErr (WfqSt α) :=
  match weightSum c.weights st.active Num.zero with
  | .error e => .error e
  | .ok ws =>
    if Num.eqb ws Num.zero then .error (.raise "ZeroDivisionError")
    else .ok { st with vtime := st.vtime + (now - st.lastTime) / ws }

/-- `for class_id in weights.keys(): finish_times[class_id] = 0.0` -/
def zeroFinish (fin : List (Nat × α)) : List (Nat × α) → List (Nat × α)
  | [] => fin
  | (k, _) :: r => zeroFinish (setKey fin k Num.zero) r

/-- `reset_vtime` -/
def resetVtime (c : WfqCfg α) (st : WfqSt α) : WfqSt α :=
  { st with vtime := Num.zero, finish := zeroFinish st.finish c.weights }

/-- the first statement pair of `put`: `if self.total_packets == 0: reset_vtime() else: update_vtime()` — a new busy
period starts when nothing is waiting or in transmission (the run loop may not yet have cleared the active set when
the packet arrives in the very instant the last transmission ended) -/
def advance (c : WfqCfg α) (st : WfqSt α) (now : α) (total : Int) : Except SErr (WfqSt α) :=
  if total = 0 then .ok (resetVtime c st) else updateVtime c st now

/-- `max(finish_times[c], vtime) + size * 8.0 / (rate * weights[c])` -/
def stampOf (c : WfqCfg α) (f v w : α) (size : Nat) : α :=
  Num.pymax f v + Num.ofNat (size * 8) / (c.rate * w)

/-- the state after the stamp `F` of class `cls` has been computed at `now` -/
def commit (st : WfqSt α) (cls : Nat) (F now : α) : WfqSt α :=
  { st with finish := setKey st.finish cls F,
            classCount := setKey st.classCount cls ((match lookup st.classCount cls with | some n => n | none => 0) + 1),
            active := insertAsc cls st.active,
            lastTime := now }

/-- the stamp computation once virtual time has been advanced -/
def stampPut (c : WfqCfg α) (st : WfqSt α) (now : α) (cls size : Nat) : Except SErr (WfqSt α × α) :=
  match lookup st.finish cls with
  | none => .error (.raise "KeyError")
  | some f =>
    match lookup c.weights cls with
    | none => .error (.raise "KeyError")
    | some w =>
      if Num.eqb (c.rate * w) Num.zero then .error (.raise "ZeroDivisionError")
      else .ok (commit st cls (stampOf c f st.vtime w size) now, stampOf c f st.vtime w size)

/-- `WFQ.put` up to `add_packet_to_queue` / `store.put` (which are the skeleton's) -/
def put (c : WfqCfg α) (st : WfqSt α) (now : α) (total : Int) (p : SPkt) : Except SErr (WfqSt α × α) :=
  match lookup c.flow2class p.flow with
  | none => .error (.raise "KeyError")
  | some cls =>
    match advance c st now total with
    | .error e => .error e
    | .ok st1 => stampPut c st1 now cls p.size

/-- `class_count[c] -= 1; if class_count[c] == 0: active_set.remove(c)` -/
def leave (st : WfqSt α) (cls : Nat) : Except SErr (WfqSt α) :=
  match lookup st.classCount cls with
  | none => .error (.raise "KeyError")
  | some n =>
    if n - 1 = 0 then
      if st.active.contains cls then
        .ok { st with classCount := setKey st.classCount cls (n - 1), active := st.active.filter (· ≠ cls) }
      else .error (.raise "KeyError")
    else .ok { st with classCount := setKey st.classCount cls (n - 1) }

/-- `if len(active_set) == 0: reset_vtime()` then `last_time = now` -/
def settle (c : WfqCfg α) (st : WfqSt α) (now : α) : WfqSt α :=
  { (if st.active.isEmpty then resetVtime c st else st) with lastTime := now }

/-- the bookkeeping of `WFQ.run` after a transmission -/
def done (c : WfqCfg α) (st : WfqSt α) (now : α) (p : SPkt) : Except SErr (WfqSt α) :=
  match updateVtime c st now with
  | .error e => .error e
  | .ok st1 =>
    match lookup c.flow2class p.flow with
    | none => .error (.raise "KeyError")
    | some cls =>
      match leave st1 cls with
      | .error e => .error e
      | .ok st2 => .ok (settle c st2 now)

def sched (c : WfqCfg α) : Sched α (WfqSt α) :=
  { rate := c.rate, onPut := put c, onDone := done c }

/-- `WFQ.__init__` -/
def init0 : WfqSt α := { vtime := Num.zero, lastTime := Num.zero }

end WFQ
