import OnlVerif.Net.MultiQueue
/-!
# `onl.scheduler.sp.SP` — static priority

```python
self.priorities = sorted(priorities.items(), key=lambda item: item[1], reverse=True)
def run(self, env):
    while True:
        for flow_id, prio in self.priorities:
            if prio > 0:
                store = self.stores[flow_id]
                if store.size() == 0:
                    continue
                packet = yield store.get()
                packet.priorities[self.flow2class(packet.flow_id)] = prio   # annotation only, not modelled
                yield env.process(self.send_packet(packet))
                break                                  # rescan from the highest priority
        if self.total_packets == 0:
            yield self.packets_available.get()
```
-/

namespace SP

/-- `a` stood before everything in the sorted tail: it goes behind the strictly larger priorities and before the
equal ones (Python's sort is stable, also with `reverse=True`) -/
def insertDesc (a : Nat × Int) : List (Nat × Int) → List (Nat × Int)
  | [] => [a]
  | b :: r => if a.2 < b.2 then b :: insertDesc a r else a :: b :: r

/-- `sorted(items, key=priority, reverse=True)` -/
def sortDesc : List (Nat × Int) → List (Nat × Int)
  | [] => []
  | a :: r => insertDesc a (sortDesc r)

/-- control points of `run` -/
inductive Pc where
  /-- at the head of the `for` body with index `i` into the sorted table -/
  | scan (i : Nat)
  /-- waiting for `store.get()` of entry `i` -/
  | got (i : Nat)
  /-- waiting for the sender -/
  | sent
  /-- at `if self.total_packets == 0` -/
  | endPass
deriving DecidableEq, Repr

structure Cfg (α : Type) where
  rate : α
  /-- the `priorities` dict in insertion order -/
  prios : List (Nat × Int)

variable {α : Type} [Num α]

def table (c : Cfg α) : List (Nat × Int) := sortDesc c.prios

def micro (c : Cfg α) (k : Pc) (v : MQ.View) : MQ.Micro Pc :=
  match k with
  | .scan i =>
    match (table c)[i]? with
    | none => .goto .endPass
    | some (f, pr) =>
      if 0 < pr then
        if v.storeLen f = 0 then .goto (.scan (i + 1)) else .get f (.got i)
      else .goto (.scan (i + 1))
  | .endPass => if v.total = 0 then .block (.scan 0) else .goto (.scan 0)
  | .got _ => .fail "model: micro at a yield point"
  | .sent => .fail "model: micro at a yield point"

def onPkt (k : Pc) (_v : MQ.View) (_c : Nat) (_p : MPkt) : MQ.PktDec Pc :=
  match k with
  | .got _ => .send false .sent
  | _ => .fail "model: packet at a wrong control point"

def onDone (k : Pc) (_p : MPkt) : Except String Pc :=
  match k with
  | .sent => .ok .endPass
  | _ => .error "model: sender ended at a wrong control point"

def sched (c : Cfg α) : MQ.Sched α Pc :=
  { rate := c.rate
    classOf := fun f => some f
    onPut := fun k _ _ => .ok k
    reads := fun _ => none
    micro := micro c
    onPkt := onPkt
    onDone := onDone
    fuel := fun _ => 2 * c.prios.length + 6 }

/-- the priority of a flow (`none`: not configured) -/
def prioOf (c : Cfg α) (f : Nat) : Option Int := MQ.lookup c.prios f

end SP
