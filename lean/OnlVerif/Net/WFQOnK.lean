import OnlVerif.Kernel.Step
import OnlVerif.Kernel.TimeCell
import OnlVerif.Kernel.StampCode
import OnlVerif.Net.StampServer
import OnlVerif.Net.Sched.WFQ
/-!
# The WFQ scheduler as processes *on the kernel model `K`*

`OnlVerif/Net/StampServer.lean` with `OnlVerif/Net/Sched/WFQ.lean` describes `onl.scheduler.WFQ` as a labelled transition
system over its atomic bursts (model `E`); its admissibility rules *assume* what the kernel guarantees.  This file writes
the same device as a program of the kernel model (`OnlVerif/Kernel`): `WFQ.put` (with `update_vtime` / `reset_vtime`),
`Scheduler.send_packet` (a child process per transmission, joined by the server with `yield process`), `WFQ.run` (with its
bookkeeping after each transmission) and a packet source are `Burst` programs, the `PriorityStore` is a `pstore` resource of
`K`, and nothing is assumed about scheduling: `K`'s `step` decides what runs when.  The arithmetic is that of the pure
functions of `Net/Sched/WFQ.lean` (`WFQ.stampOf`; the virtual-time update is the same expression in the same operation order),
which the replay of the LTS already compares bit for bit with Python.  This file holds the program, what statements about it
are made with (observations, abstraction function, oracle, executable refinement check) and no proofs;
`OnlVerif/Props/C14K.lean` proves that every run of this program is an admissible run of the LTS (refinement) and has the
properties C12/C14 name, and evaluates concrete runs.

```python
def put(self, packet):                                              def run(self, env):
    class_id = self.flow2class(packet.flow_id)                          while True:
    now = self.env.now                                                      item = yield self.store.get()
    if self.total_packets == 0:                                             packet = item.item
        self.reset_vtime()                                                  yield env.process(self.send_packet(packet))
    else:                                                                   self.update_vtime()
        self.update_vtime()                                                 class_id = self.flow2class(packet.flow_id)
    self.finish_times[class_id] = max(                                      self.class_count[class_id] -= 1
        self.finish_times[class_id], self.vtime                             if self.class_count[class_id] == 0:
    ) + packet.size * 8.0 / (self.rate * self.weights[class_id])                self.active_set.remove(class_id)
    self.add_packet_to_queue(packet)                                        if len(self.active_set) == 0:
    self.class_count[class_id] = self.class_count.get(class_id, 0) + 1          self.reset_vtime()
    self.active_set.add(class_id)                                           self.last_time = env.now
    self.last_time = now
    self.store.put(PriorityItem((self.finish_times[class_id], now),  def send_packet(self, packet):
                                packet))                                 self.current_packet = packet
                                                                         yield self.env.timeout(packet.size * 8.0 / self.rate)
def update_vtime(self):                                                  flow_id = packet.flow_id
    weight_sum = 0.0                                                     self.queue_count[flow_id] -= 1
    now = self.env.now                                                   self.queue_byte_size[flow_id] -= packet.size
    for i in self.weights:                                               if self.out: self.out.put(packet)
        if i in self.active_set:                                         self.current_packet = None
            weight_sum += self.weights[i]
    self.vtime += (now - self.last_time) / weight_sum                def reset_vtime(self):
                                                                         self.vtime = 0
                                                                         for class_id in self.weights.keys():
                                                                             self.finish_times[class_id] = 0.0
```

Encoding (modelling devices, all of them):

* classes are `0 … F-1`, `flow2class` is the identity (the default `lambda f: f`); a packet is its `Int` id,
  `flow : Int → Nat` gives `packet.flow_id`, `size : Int → Nat` gives `packet.size`; the packets of the workload carry the ids
  of a strictly increasing sequence in `0 … N-1` (`N` is a parameter of the program); an `out` is attached;
* resource `0` is `self.store`, a `PriorityStore` (`ResKind.pstore`, unbounded).  **The key** (exactly as in `VCOnK.lean`).
  `K`'s `pstore` holds integers and hands out the least one; the real store holds `PriorityItem((finish, now), packet)` and
  `heapq` compares `(finish, now)` as a tuple.  The program puts the integer `code(finish) · N + id`
  (`Kernel/StampCode.lean`): `code` is an order-preserving integer code of the scalar (at `Float` the bit pattern of the
  non-negative double; at `ℚ` the floor of `scale · finish`, which preserves `<` on the grid `ℤ/scale` — every finite rational
  workload with whole weights lives on such a grid for a suitable `scale`: `WFQK.GridOK`, `C14K.wfq_grid_exists`; that virtual time
  and the finish times stay on it although `update_vtime` divides by the weight sum is part of the proved invariant).  The second key component `now` is carried by the packet id: one
  source hands the packets over in id order, so `now` is non-decreasing in the id and `(finish, now)` and `(finish, id)` order
  every pair of items the same way unless stamp *and* instant are equal — for those `heapq`'s choice depends on the heap layout
  (outside every model of this tree; the LTS accepts either) and the program takes the earlier arrival.  `item.item` is the
  remainder mod `N`;
* the attributes live in the shared cells of `K` (`Call.load/store`): cell 0 = `packets_received`, 1 = `current_packet`
  (`None` or the packet), 2 = `vtime`, 3 = `last_time` (scalars, through the codec `TimeCell`; preset to 0),
  `10 + 5c` = `queue_count[c]`, `11 + 5c` = `queue_byte_size[c]` (preset to 0, what the `defaultdict(int)` yields for a missing
  key; the *key order* of the two dicts — first `put` of each flow — is recovered by the abstraction function from the `put`
  observations), `12 + 5c` = `finish_times[c]` (a scalar; **no cell until `reset_vtime` creates it**: `finish_times` starts as
  the empty dict, and reading a class without a cell raises `KeyError` as the dict would), `13 + 5c` = `class_count[c]` (an
  integer; no cell until the first `put` of the class: `class_count.get(c, 0)` reads a missing cell as 0,
  `class_count[c] -= 1` raises `KeyError` on it), `14 + 5c` = *membership of `c` in `active_set`* (0 / 1, preset to 0:
  `add` stores 1, `remove` stores 0 and raises `KeyError` if it was 0);
* `for i in self.weights: if i in self.active_set: weight_sum += self.weights[i]` scans the membership cells of the classes
  `0 … F-1` **in ascending class order** — the key order of the weight tables of the harness's `wfqk` leg — tests each and adds
  the weights of the members to `0.0`: the order `WFQ.weightSum` of the LTS record uses over its ascending list.  (Python walks
  the table in its key order; for a table in another key order the doubles agree when the weights are integers or dyadic,
  every partial sum being exact — the theorems assume whole weights, `CfgOK`.)  A zero weight sum raises `ZeroDivisionError`, as the LTS
  record says (Python's float division does).  `len(self.active_set)` is the sum of the membership cells;
  `self.total_packets` (`sum(self.queue_count.values())`) is the sum of the `queue_count` cells of the flows `0 … F-1`;
* `weights` and `rate` are never assigned and are read from the configuration (`Stamp.lookup cfg.weights c`, `KeyError` for a
  class without a weight; `reset_vtime` walks `cfg.weights` in its key order); a zero `rate * weights[c]` raises
  `ZeroDivisionError`, as the LTS record says;
* `K` has no call that reads `env.now`.  The source carries the instant of its next resumption in its local state
  (`now + gap`, the kernel's own expression), and `put` / its `update_vtime` use that.  `run` needs `env.now` after
  `yield env.process(self.send_packet(packet))` (for `update_vtime()` and `self.last_time = env.now`).  When `run` resumes from
  `store.get()` the clock equals the attribute `last_time`: every `put` and every pass of the loop ends with
  `last_time = now`, and the `get` is served in the instant of a `put` or of the loop's own `get` call.  `run` therefore reads
  the `last_time` cell at that point — a **ghost read** (no Python statement reads the attribute there; that it equals
  `env.now` at that point is part of the proved invariant: `AInv.run`, phase `H`, in `Lemmas/WFQKDefs.lean`) — and carries `t + 8·size/rate` (the kernel's own expression
  `now + delay` for the timeout of the sender it spawns in that instant) in its local state `.runSend id wake` as the instant it
  resumes at.  That these carried instants are `env.now` whenever the generator runs is part of the proved invariant (`RunEv` / `SrcEv`); the
  observations record the kernel's own clock, and `refineCheck` below checks it on concrete runs (the LTS books the
  transmission end with *its* clock);
* observations (each recorded with `env.now` in `KState.trace`): the call of `put` is `log "put" (int id)`; the virtual time
  right after `reset_vtime()` / `update_vtime()` in `put` is `log "vtime" (enc vtime)`; the finish time `put` computes is
  `log "stamp" (enc finish)`; the call `self.store.get()` of `run` is `log "get" None`; the call `self.send_packet(packet)` is
  `log "serve" (int id)`; `self.out.put(packet)` is `log "out" (int id)`; the end of a pass of the loop (after
  `self.last_time = env.now`) is `log "done" (enc vtime)` — so a pass ends with `done` and the next one starts with `get`;
* the source is the process `for (gap, id) in arrivals: yield env.timeout(gap); wfq.put(packet id)`;
* the local state of a suspended generator names its `yield` and the locals it still needs.

Besides the program the file holds the observations of a trace, the executable abstraction function `absWFQ` (kernel state ↦
LTS state), the property restated as an executable oracle over the `put` / `vtime` / `stamp` / `get` / `serve` / `out` / `done`
history (`ostep`, `orun`), and a label inference with an executable refinement check (`refineCheck`) for the `example`s.
-/

/-- local states of the generator functions (where each one is suspended) -/
inductive WfqKSt (τ : Type) where
  /-- the source: resumes at `now`; suspended on the timeout before `put(pending)` (`none`: not started), then the arrivals
  still to come -/
  | src (now : τ) (pending : Option Int) (rest : List (τ × Int))
  /-- `WFQ.run` not started -/
  | runStart
  /-- `WFQ.run` suspended in `item = yield self.store.get()` -/
  | runGet
  /-- `WFQ.run` suspended in `yield env.process(self.send_packet(packet))`; it resumes at `wake` -/
  | runSend (id : Int) (wake : τ)
  /-- `send_packet(packet)` not started -/
  | sendStart (id : Int)
  /-- `send_packet(packet)` suspended in `yield self.env.timeout(packet.size * 8.0 / self.rate)` -/
  | sendTx (id : Int)

namespace WFQOnK
variable {τ : Type} [Num τ] [TimeCell τ] [StampCode τ]

def pst : Nat := 0
def cRecv : Nat := 0
def cCur : Nat := 1
def cVtime : Nat := 2
def cLast : Nat := 3
def cCount (f : Nat) : Nat := 10 + 5 * f
def cBytes (f : Nat) : Nat := 11 + 5 * f
def cFin (c : Nat) : Nat := 12 + 5 * c
def cCls (c : Nat) : Nat := 13 + 5 * c
def cAct (c : Nat) : Nat := 14 + 5 * c

def typeErr : Exc := ⟨"TypeError", []⟩
def keyErr : Exc := ⟨"KeyError", []⟩
def zeroDiv : Exc := ⟨"ZeroDivisionError", []⟩

/-- what a program does with a reply it cannot use (never happens in the runs of this program) -/
def bad : Reply → Burst τ (WfqKSt τ)
  | .err x => .raise x
  | _ => .raise typeErr

/-- read an integer attribute -/
def loadInt (k : Nat) (cont : Int → Burst τ (WfqKSt τ)) : Burst τ (WfqKSt τ) :=
  .call (.load k) fun rp => match rp with
    | .val (.int n) => cont n
    | rp => bad rp

/-- `attr += d` on an integer attribute -/
def addInt (k : Nat) (d : Int) (cont : Burst τ (WfqKSt τ)) : Burst τ (WfqKSt τ) :=
  loadInt k fun n => .call (.store k (.int (n + d))) fun _ => cont

/-- `d[class_id]` on a dict of scalars (also the scalar attributes `vtime`, `last_time`): `KeyError` when the class has no
entry -/
def loadKey (k : Nat) (cont : τ → Burst τ (WfqKSt τ)) : Burst τ (WfqKSt τ) :=
  .call (.load k) fun rp => match rp with
    | .val v => (match TimeCell.dec v with
      | some x => cont x
      | none => .raise keyErr)
    | rp => bad rp

/-- `d.get(class_id)` on a dict of integers: `none` when the class has no entry -/
def loadIntKey (k : Nat) (cont : Option Int → Burst τ (WfqKSt τ)) : Burst τ (WfqKSt τ) :=
  .call (.load k) fun rp => match rp with
    | .val (.int n) => cont (some n)
    | .val .none => cont none
    | rp => bad rp

/-- `sum(self.queue_count.values())`, the counters of flows `f, f + 1, …, f + n - 1` added to `acc` -/
def sumCounts : Nat → Nat → Int → (Int → Burst τ (WfqKSt τ)) → Burst τ (WfqKSt τ)
  | _, 0, acc, cont => cont acc
  | f, n + 1, acc, cont => loadInt (cCount f) fun c => sumCounts (f + 1) n (acc + c) cont

/-- `self.total_packets` -/
def totalPackets (F : Nat) (cont : Int → Burst τ (WfqKSt τ)) : Burst τ (WfqKSt τ) := sumCounts 0 F 0 cont

/-- `for i in self.weights: if i in self.active_set: weight_sum += self.weights[i]` over the classes `c, c + 1, …, c + n - 1`,
ascending (the table's key order) -/
def sumWeights (cfg : WfqCfg τ) : Nat → Nat → τ → (τ → Burst τ (WfqKSt τ)) → Burst τ (WfqKSt τ)
  | _, 0, acc, cont => cont acc
  | c, n + 1, acc, cont => loadInt (cAct c) fun a =>              -- is `c` in self.active_set?
      if a = 1 then                                               -- if i in self.active_set:
        match Stamp.lookup cfg.weights c with                     -- self.weights[i]
        | none => .raise keyErr
        | some w => sumWeights cfg (c + 1) n (acc + w) cont       -- weight_sum += self.weights[i]
      else sumWeights cfg (c + 1) n acc cont

/-- `len(self.active_set)`: the membership cells of the classes `c, …, c + n - 1` added to `acc` -/
def sumActive : Nat → Nat → Int → (Int → Burst τ (WfqKSt τ)) → Burst τ (WfqKSt τ)
  | _, 0, acc, cont => cont acc
  | c, n + 1, acc, cont => loadInt (cAct c) fun a => sumActive (c + 1) n (acc + a) cont

/-- `self.update_vtime()` at instant `now` -/
def updateVtime (F : Nat) (cfg : WfqCfg τ) (now : τ) (cont : Burst τ (WfqKSt τ)) : Burst τ (WfqKSt τ) :=
  sumWeights cfg 0 F Num.zero fun ws =>                           -- weight_sum = 0.0; now = self.env.now; for i in self.weights: …
  loadKey cVtime fun v =>                                         -- self.vtime
  loadKey cLast fun lt =>                                         -- self.last_time
  if Num.eqb ws Num.zero then .raise zeroDiv else                 -- … / weight_sum
  .call (.store cVtime (TimeCell.enc (v + (now - lt) / ws))) fun _ => cont   -- self.vtime += (now - self.last_time) / weight_sum

/-- `for class_id in self.weights.keys(): self.finish_times[class_id] = 0.0` -/
def zeroFinish : List (Nat × τ) → Burst τ (WfqKSt τ) → Burst τ (WfqKSt τ)
  | [], cont => cont
  | (c, _) :: r, cont => .call (.store (cFin c) (TimeCell.enc (Num.zero : τ))) fun _ => zeroFinish r cont

/-- `self.reset_vtime()` -/
def resetVtime (cfg : WfqCfg τ) (cont : Burst τ (WfqKSt τ)) : Burst τ (WfqKSt τ) :=
  .call (.store cVtime (TimeCell.enc (Num.zero : τ))) fun _ =>    -- self.vtime = 0
  zeroFinish cfg.weights cont                                     -- for class_id in self.weights.keys(): self.finish_times[class_id] = 0.0

/-- `add_packet_to_queue(packet)` -/
def addPacket (flow size : Int → Nat) (id : Int) (cont : Burst τ (WfqKSt τ)) : Burst τ (WfqKSt τ) :=
  addInt cRecv 1 <|                                               -- self.packets_received += 1
  addInt (cCount (flow id)) 1 <|                                  -- self.queue_count[flow_id] += 1
  addInt (cBytes (flow id)) (size id) cont                        -- self.queue_byte_size[flow_id] += packet.size

/-- `WFQ.put(packet)` at instant `now`, followed by `cont` -/
def wfqPut (F : Nat) (flow size : Int → Nat) (cfg : WfqCfg τ) (N scale : Nat) (now : τ) (id : Int)
    (cont : Burst τ (WfqKSt τ)) : Burst τ (WfqKSt τ) :=
  .call (.log "put" (.int id)) fun _ =>                           -- class_id = self.flow2class(packet.flow_id); now = self.env.now
  totalPackets F fun tot =>                                       -- if self.total_packets == 0:
  (if tot = 0 then resetVtime cfg                                 --     self.reset_vtime()
   else updateVtime F cfg now) <|                                 -- else: self.update_vtime()
  loadKey (cFin (flow id)) fun f =>                               -- self.finish_times[class_id]
  loadKey cVtime fun v =>                                         -- self.vtime
  .call (.log "vtime" (TimeCell.enc v)) fun _ =>
  match Stamp.lookup cfg.weights (flow id) with                   -- self.weights[class_id]
  | none => .raise keyErr
  | some w =>
    if Num.eqb (cfg.rate * w) Num.zero then .raise zeroDiv else   -- … / (self.rate * self.weights[class_id])
    .call (.store (cFin (flow id)) (TimeCell.enc (WFQ.stampOf cfg f v w (size id)))) fun _ =>
                                                                  -- self.finish_times[class_id] = max(finish_times[class_id], vtime) + size * 8.0 / (rate * w)
    .call (.log "stamp" (TimeCell.enc (WFQ.stampOf cfg f v w (size id)))) fun _ =>
    addPacket flow size id <|                                     -- self.add_packet_to_queue(packet)
    loadIntKey (cCls (flow id)) fun n =>                          -- self.class_count.get(class_id, 0)
    .call (.store (cCls (flow id)) (.int (n.getD 0 + 1))) fun _ =>   -- self.class_count[class_id] = … + 1
    .call (.store (cAct (flow id)) (.int 1)) fun _ =>             -- self.active_set.add(class_id)
    .call (.store cLast (TimeCell.enc now)) fun _ =>              -- self.last_time = now
    .call (.sput pst (stampItem scale N (WFQ.stampOf cfg f v w (size id)) id)) fun rp => match rp with
      | .ev _ => cont                                             -- self.store.put(PriorityItem((finish_times[class_id], now), packet))
      | rp => bad rp

/-- the source loop from its head at instant `now`: `for gap, id in rest: yield env.timeout(gap); …` -/
def srcLoop (now : τ) : List (τ × Int) → Burst τ (WfqKSt τ)
  | [] => .ret .none
  | (gap, id) :: rest => .call (.timeout gap .none) fun rp => match rp with
      | .ev e => .yield e (.src (now + gap) (some id) rest)
      | rp => bad rp

/-- `item = yield self.store.get()` -/
def runLoop : Burst τ (WfqKSt τ) :=
  .call (.log "get" .none) fun _ =>
  .call (.sget pst 0) fun rp => match rp with
    | .ev g => .yield g .runGet
    | rp => bad rp

/-- transmission time `packet.size * 8.0 / self.rate` -/
def txTime (size : Int → Nat) (rate : τ) (id : Int) : τ := Num.ofNat (size id * 8) / rate

/-- `run` has the item: `packet = item.item; yield env.process(self.send_packet(packet))`.  The ghost read of `last_time`
gives the instant `t` of this resumption; the sender spawned here sleeps until `t + 8·size/rate`, when `run` resumes -/
def runServe (size : Int → Nat) (rate : τ) (id : Int) : Burst τ (WfqKSt τ) :=
  loadKey cLast fun t =>                                          -- (ghost) env.now
  .call (.log "serve" (.int id)) fun _ =>
  .call (.spawn (.sendStart id)) fun rp => match rp with
    | .ev p => .yield p (.runSend id (t + txTime size rate id))
    | rp => bad rp

/-- the bookkeeping of `run` after `yield env.process(self.send_packet(packet))`, at instant `now`, then the next pass -/
def runDone (F : Nat) (flow : Int → Nat) (cfg : WfqCfg τ) (now : τ) (id : Int) : Burst τ (WfqKSt τ) :=
  updateVtime F cfg now <|                                        -- self.update_vtime()
  loadIntKey (cCls (flow id)) fun n =>                            -- class_id = self.flow2class(packet.flow_id); self.class_count[class_id]
  match n with
  | none => .raise keyErr
  | some n =>
    .call (.store (cCls (flow id)) (.int (n - 1))) fun _ =>       -- self.class_count[class_id] -= 1
    (fun (k : Burst τ (WfqKSt τ)) =>
      if n - 1 = 0 then                                           -- if self.class_count[class_id] == 0:
        loadInt (cAct (flow id)) fun a =>                         --     self.active_set.remove(class_id)
        if a = 1 then .call (.store (cAct (flow id)) (.int 0)) fun _ => k else .raise keyErr
      else k) <|
    sumActive 0 F 0 fun m =>                                      -- if len(self.active_set) == 0:
    (if m = 0 then resetVtime cfg else fun k => k) <|             --     self.reset_vtime()
    .call (.store cLast (TimeCell.enc now)) fun _ =>              -- self.last_time = env.now
    loadKey cVtime fun v =>
    .call (.log "done" (TimeCell.enc v)) fun _ =>
    runLoop                                                       -- while True:

/-- `send_packet(packet)` up to its `yield` -/
def sendBegin (size : Int → Nat) (rate : τ) (id : Int) : Burst τ (WfqKSt τ) :=
  .call (.store cCur (.int id)) fun _ =>                          -- self.current_packet = packet
  .call (.timeout (txTime size rate id) .none) fun rp => match rp with
    | .ev t => .yield t (.sendTx id)                              -- yield self.env.timeout(packet.size * 8.0 / self.rate)
    | rp => bad rp

/-- `send_packet(packet)` after the transmission delay -/
def sendEnd (flow size : Int → Nat) (id : Int) : Burst τ (WfqKSt τ) :=
  addInt (cCount (flow id)) (-1) <|                               -- self.queue_count[flow_id] -= 1
  addInt (cBytes (flow id)) (-(size id : Int)) <|                 -- self.queue_byte_size[flow_id] -= packet.size
  .call (.log "out" (.int id)) fun _ =>                           -- self.out.put(packet)
  .call (.store cCur .none) fun _ =>                              -- self.current_packet = None
  .ret .none

/-- the generator functions as one `K` program -/
def prog (F : Nat) (flow size : Int → Nat) (cfg : WfqCfg τ) (N scale : Nat) : WfqKSt τ → Resume → Burst τ (WfqKSt τ)
  | .src now pending rest, _ =>
    match pending with
    | none => srcLoop now rest
    | some id => wfqPut F flow size cfg N scale now id (srcLoop now rest)
  | .runStart, _ => runLoop
  | .runGet, .value (.int item) => runServe size cfg.rate (itemPkt N item)   -- packet = item.item
  | .runGet, _ => .raise typeErr
  | .runSend id wake, _ => runDone F flow cfg wake id
  | .sendStart id, _ => sendBegin size cfg.rate id
  | .sendTx id, _ => sendEnd flow size id

/-- event ids of the two processes that exist from the start -/
def runProc : EvId := 0
def srcProc : EvId := 2

/-- the counter cells and the `active_set` membership cell of flows / classes `f, …, f + n - 1` -/
def flowCells : Nat → Nat → List (Nat × Val)
  | _, 0 => []
  | f, n + 1 => (cCount f, .int 0) :: (cBytes f, .int 0) :: (cAct f, .int 0) :: flowCells (f + 1) n

def storeRes : ResRec := { kind := .pstore, capacity := none }

/-- a fresh environment with the `PriorityStore`, the attributes at 0 / `None` / empty, after `WFQ.__init__`
(`env.process(self.run(env))`) and `env.process(source(...))` -/
def initState (F : Nat) (arrivals : List (τ × Int)) : KState τ (WfqKSt τ) :=
  [Call.spawn WfqKSt.runStart, Call.spawn (WfqKSt.src Num.zero none arrivals)].foldl (fun s c => (doCall s 0 c).1)
    { now := Num.zero, resources := #[storeRes],
      shared := (cRecv, .int 0) :: (cCur, .none) :: (cVtime, TimeCell.enc (Num.zero : τ)) ::
                (cLast, TimeCell.enc (Num.zero : τ)) :: flowCells 0 F }

/-! ## observations -/

/-- the observations of the property, in the order of the trace -/
inductive HEv (τ : Type) where
  | put (id : Int) (t : τ)
  | vtime (v : τ)
  | stamp (x : τ)
  | get (t : τ)
  | serve (id : Int) (t : τ)
  | out (id : Int) (t : τ)
  | done (v : τ)

def histOf1 : Obs τ → Option (HEv τ)
  | .log _ w v now =>
    if w = "put" then (match v with | .int id => some (.put id now) | _ => none)
    else if w = "vtime" then (TimeCell.dec v).map HEv.vtime
    else if w = "stamp" then (TimeCell.dec v).map HEv.stamp
    else if w = "get" then some (.get now)
    else if w = "serve" then (match v with | .int id => some (.serve id now) | _ => none)
    else if w = "out" then (match v with | .int id => some (.out id now) | _ => none)
    else if w = "done" then (TimeCell.dec v).map HEv.done
    else none
  | _ => none

def histOf (tr : Array (Obs τ)) : List (HEv τ) := tr.toList.filterMap histOf1

/-- the packets handed to `put`: `(id, env.now)` in order -/
def putsOf (tr : Array (Obs τ)) : List (Int × τ) := (histOf tr).filterMap fun | .put id t => some (id, t) | _ => none
/-- the finish times `put` computed, in order -/
def stampsOf (tr : Array (Obs τ)) : List τ := (histOf tr).filterMap fun | .stamp x => some x | _ => none
/-- the virtual times: at every arrival (after `reset_vtime()` / `update_vtime()`) and at the end of every pass of the loop -/
def vtimesOf (tr : Array (Obs τ)) : List τ := (histOf tr).filterMap fun | .vtime v => some v | .done v => some v | _ => none
/-- the packets `run` has handed to `send_packet` -/
def servesOf (tr : Array (Obs τ)) : List (Int × τ) := (histOf tr).filterMap fun | .serve id t => some (id, t) | _ => none
/-- the `out.put(packet)` observations -/
def outsOf (tr : Array (Obs τ)) : List (Int × τ) := (histOf tr).filterMap fun | .out id t => some (id, t) | _ => none

/-! ## the abstraction function -/

/-- value of an attribute cell -/
def cellVal (s : KState τ (WfqKSt τ)) (k : Nat) : Val := ((s.shared.find? (·.1 == k)).map (·.2)).getD Val.none

/-- value of an integer attribute cell (0 if unset) -/
def cellInt (s : KState τ (WfqKSt τ)) (k : Nat) : Int :=
  match cellVal s k with
  | Val.int n => n
  | _ => 0

/-- value of a scalar attribute cell (0 if unset) -/
def cellNum (s : KState τ (WfqKSt τ)) (k : Nat) : τ := (TimeCell.dec (cellVal s k)).getD Num.zero

/-- the packet object behind an id, as the LTS sees it -/
def pktOf (flow size : Int → Nat) (id : Int) : SPkt := { id := id.toNat, flow := flow id, size := size id }

/-- a dict key is inserted at its first use -/
def addKey (l : List Nat) (k : Nat) : List Nat := if l.contains k then l else l ++ [k]

/-- the keys of `queue_count` / `queue_byte_size` / `class_count` in insertion order: the flows (= classes) in the order of
their first `put` -/
def keysOf (flow : Int → Nat) (ids : List Int) : List Nat := ids.foldl (fun l id => addKey l (flow id)) []

/-- the `(finish, now)` key `put` gave packet `id`: the `k`-th `put` observation goes with the `k`-th `stamp` observation -/
def keyOf (tr : Array (Obs τ)) (id : Int) : τ × τ :=
  match ((putsOf tr).zip (stampsOf tr)).find? (·.1.1 == id) with
  | some ((_, t), x) => (x, t)
  | none => (Num.zero, Num.zero)

/-- the `PriorityItem` a carried integer stands for -/
def itemOf (flow size : Int → Nat) (N : Nat) (tr : Array (Obs τ)) (item : Int) : Item τ :=
  { stamp := (keyOf tr (itemPkt N item)).1, arr := (keyOf tr (itemPkt N item)).2, pkt := pktOf flow size (itemPkt N item) }

/-- the instant at which the agenda entry of event `t` is due -/
def dueOf (s : KState τ (WfqKSt τ)) (t : EvId) : τ :=
  ((s.agenda.find? (·.ev == t)).map (·.time)).getD s.now

/-- where the server loop and its sender stand, read off the process records and the events they wait for -/
structure Ph (τ : Type) where
  started : Bool := true
  getPending : Bool := false
  handed : Option Int := none
  spawned : Option Int := none
  tx : Option (Int × τ) := none
  fin : Option Int := none

def absPhase (s : KState τ (WfqKSt τ)) : Ph τ :=
  match s.proc? runProc with
  | some { st := .runStart, target := _ } => { started := false }
  | some { st := .runGet, target := some g } =>
    match (s.ev g).out with
    | some (.ok (.int item)) => { handed := some item }
    | _ => { getPending := true }
  | some { st := .runSend id _, target := some p } =>
    if (s.ev p).out.isSome then { fin := some id } else
    match s.proc? p with
    | some { st := .sendTx _, target := some t } => { tx := some (id, dueOf s t) }
    | _ => { spawned := some id }
  | _ => {}

/-- `finish_times`: the classes of `weights` (in its key order, the order `reset_vtime` inserts them in) that have a cell —
none before the first `put` (the dict is empty until `reset_vtime` has run once), all of them afterwards -/
def absFinish (cfg : WfqCfg τ) (s : KState τ (WfqKSt τ)) : List (Nat × τ) :=
  cfg.weights.filterMap fun kv => (TimeCell.dec (cellVal s (cFin kv.1))).map fun x => (kv.1, x)

/-- **abstraction function**: the state of the StampServer LTS (with the WFQ record) a kernel state of this program stands
for, read off the process records, the store, the attribute cells and the `put` / `stamp` observations (key order of the
dicts, keys of the items) -/
def absWFQ (F : Nat) (flow size : Int → Nat) (cfg : WfqCfg τ) (N : Nat) (s : KState τ (WfqKSt τ)) : StState τ (WfqSt τ) :=
  let keys := keysOf flow ((putsOf s.trace).map (·.1))
  let ph := absPhase s
  { now := s.now
    sch := { vtime := cellNum s cVtime,
             lastTime := cellNum s cLast,
             finish := absFinish cfg s,
             active := (List.range F).filter fun c => cellInt s (cAct c) == 1,
             classCount := keys.map fun c => (c, cellInt s (cCls c)) }
    items := (s.res pst).items.map (itemOf flow size N s.trace)
    getPending := ph.getPending
    handed := ph.handed.map (itemOf flow size N s.trace)
    spawned := ph.spawned.map (pktOf flow size)
    tx := ph.tx.map fun x => (pktOf flow size x.1, x.2)
    fin := ph.fin.map (pktOf flow size)
    currentPacket := match cellVal s cCur with
      | .int id => some (pktOf flow size id)
      | _ => none
    queueCount := keys.map fun f => (f, cellInt s (cCount f))
    queueBytes := keys.map fun f => (f, cellInt s (cBytes f))
    started := ph.started }

/-- the final state of `run()` if it returned, else `none` -/
def finalState (r : RunResult τ (WfqKSt τ)) : Option (KState τ (WfqKSt τ)) :=
  match r with
  | .returned _ s => some s
  | _ => none

/-! ## the property restated as an oracle over the `put` / `vtime` / `stamp` / `get` / `serve` / `out` / `done` history

The oracle keeps the virtual time `V` and the finish time `F_c` per class as the WFQ rules prescribe them, the instant of the
last event (arrival or booked service end), the packets handed to `put` and not yet handed to `send_packet` with their
`(stamp, arrival instant)`, the *candidates* of the hand-off that is under way (the packets that were waiting when `run`
called `store.get()`; if none was, the first packet to arrive after it), the packet in transmission with the instant its
service started, the packet that has left but has not yet been booked out by the loop, and the instant of the last departure.
The *active* classes are those with a packet waiting, in transmission, or just departed and not yet booked out; their weights
are added in ascending class order (`WFQ.weightSum`).  It accepts

* `put id t`, then `vtime v` only if `v = 0` when the scheduler is **empty** at the arrival (no packet waiting or in
  transmission; then all `F_c` become 0 as well), else `v = V + (t − last event instant) / Σ weights of the active classes`
  (**virtual time at every arrival**);
* then `stamp x` only if `x = max(F_c, V) + 8·size/(rate·w_c)` for the class `c` of the packet (**the stamp rule at every
  arrival**; the operation order is `WFQ.stampOf`'s);
* `get t` only if nothing is in transmission, no hand-off is under way and the last departure has been booked out, at instant
  0 for the first one and **at the instant of the last departure** afterwards (never idle with a backlog);
* `serve id t` only if `id` is one of the candidates, **no candidate has a smaller `(stamp, arrival instant)`**, it is the
  oldest waiting packet of its flow, and `t` is the instant of the hand-off (the instant of the `get` if a packet was
  waiting then, else the arrival instant of the packet: the store never keeps a packet back);
* `out id t` only if `id` is the packet in transmission and `t` is exactly its service start plus `8·size/rate`;
* `done v` only after an `out` that has not been booked yet: with `V' = V + (instant of that departure − last event
  instant) / Σ weights of the active classes` (the departed packet's class included), `v = V'` if a packet is still
  waiting, else `v = 0` and all `F_c` become 0 (**virtual time at every service end; a busy period that ends resets it**).

Everything the task names is restated; nothing about `vtime` is left out.  Not restated: the final attribute cells (the
harness compares them line by line instead). -/

/-- `a = b` on times, through `<` -/
def eqT (a b : τ) : Prop := ¬ a < b ∧ ¬ b < a

instance (a b : τ) : Decidable (eqT a b) := by unfold eqT; infer_instance

/-- a waiting packet: id, stamp, arrival instant -/
abbrev WItem (τ : Type) := Int × τ × τ

/-- Python's `(stamp₁, now₁) < (stamp₂, now₂)` -/
def keyLt (a b : WItem τ) : Prop := a.2.1 < b.2.1 ∨ (¬ b.2.1 < a.2.1 ∧ a.2.2 < b.2.2)

instance (a b : WItem τ) : Decidable (keyLt a b) := by unfold keyLt; infer_instance

structure OSt (τ : Type) where
  /-- the virtual time, as the rules prescribe it -/
  vt : τ
  /-- `finish_times` per class, as the stamp rule prescribes it -/
  fin : Nat → τ
  /-- the instant of the last arrival or booked service end (`last_time`) -/
  last : τ
  /-- the `put` whose `stamp` observation is still to come; the flag says that its `vtime` observation has been seen -/
  pend : Option (Int × τ × Bool)
  /-- the packets handed to `put` and not yet to `send_packet`, oldest first -/
  waiting : List (WItem τ)
  /-- a hand-off is under way (`store.get()` called, `send_packet` not yet): its candidates and its instant -/
  cand : Option (List (WItem τ) × τ)
  /-- the packet in transmission with the instant its service started -/
  busy : Option (Int × τ)
  /-- the packet that has left and has not yet been booked out by the loop -/
  leaving : Option Int
  /-- the instant of the last departure -/
  lastOut : Option τ

/-- nothing has happened yet -/
def oInit : OSt τ :=
  { vt := Num.zero, fin := fun _ => Num.zero, last := Num.zero, pend := none, waiting := [], cand := none, busy := none,
    leaving := none, lastOut := none }

/-- `g[c] := v` -/
def setA (g : Nat → τ) (c : Nat) (v : τ) : Nat → τ := fun x => if x = c then v else g x

/-- no packet waiting or in transmission (`total_packets == 0`) -/
def isEmpty (o : OSt τ) : Bool := o.waiting.isEmpty && o.busy.isNone

/-- the active classes, ascending: those with a packet waiting, in transmission, or departed and not yet booked out -/
def actives (F : Nat) (flow : Int → Nat) (o : OSt τ) : List Nat :=
  (List.range F).filter fun c =>
    (o.waiting.any fun y => flow y.1 == c) || (match o.busy with | some (i, _) => flow i == c | none => false) ||
    (match o.leaving with | some i => flow i == c | none => false)

/-- `V + (t − last event instant) / Σ weights of the active classes` -/
def advV (F : Nat) (flow : Int → Nat) (cfg : WfqCfg τ) (o : OSt τ) (t : τ) : Option τ :=
  match WFQ.weightSum cfg.weights (actives F flow o) Num.zero with
  | .ok ws => if Num.eqb ws Num.zero then none else some (o.vt + (t - o.last) / ws)
  | .error _ => none

/-- the virtual time an arrival at `t` sees: 0 if the scheduler is empty, else advanced -/
def VtimeOK (F : Nat) (flow : Int → Nat) (cfg : WfqCfg τ) (o : OSt τ) (t v : τ) : Prop :=
  if isEmpty o then eqT v Num.zero else
  match advV F flow cfg o t with
  | some v' => eqT v v'
  | none => False

instance (F : Nat) (flow : Int → Nat) (cfg : WfqCfg τ) (o : OSt τ) (t v : τ) : Decidable (VtimeOK F flow cfg o t v) := by
  unfold VtimeOK; split
  · infer_instance
  · split <;> infer_instance

/-- the stamp rule: `x = max(F_c, V) + 8·size/(rate·w_c)` -/
def StampOK (flow size : Int → Nat) (cfg : WfqCfg τ) (o : OSt τ) (id : Int) (x : τ) : Prop :=
  ∃ kv ∈ cfg.weights, kv.1 = flow id ∧ eqT x (WFQ.stampOf cfg (o.fin (flow id)) o.vt kv.2 (size id))

instance (flow size : Int → Nat) (cfg : WfqCfg τ) (o : OSt τ) (id : Int) (x : τ) : Decidable (StampOK flow size cfg o id x) := by
  unfold StampOK; infer_instance

/-- the instant a `get` is due at: 0 for the first one, the last departure afterwards -/
def GetOK (o : OSt τ) (t : τ) : Prop :=
  o.busy.isNone = true ∧ o.cand.isNone = true ∧ o.pend.isNone = true ∧ o.leaving.isNone = true ∧
  match o.lastOut with
  | some d => eqT d t
  | none => eqT t Num.zero

instance (o : OSt τ) (t : τ) : Decidable (GetOK o t) := by
  unfold GetOK; cases o.lastOut <;> infer_instance

/-- what the property demands when `run` hands packet `id` to `send_packet` at instant `t` -/
def ServeOK (flow : Int → Nat) (o : OSt τ) (id : Int) (t : τ) : Prop :=
  o.busy.isNone = true ∧ o.pend.isNone = true ∧
  match o.cand with
  | none => False
  | some (l, th) =>
    eqT t th ∧                                                             -- in the instant of the hand-off
    ∃ w ∈ l, w.1 = id ∧ (∀ w' ∈ l, ¬ keyLt w' w) ∧                         -- a candidate with a minimal key
      ((o.waiting.filter fun y => flow y.1 = flow id).head?.map (·.1)) = some id   -- the oldest of its flow

instance (flow : Int → Nat) (o : OSt τ) (id : Int) (t : τ) : Decidable (ServeOK flow o id t) := by
  unfold ServeOK
  cases o.cand with
  | none => infer_instance
  | some x => cases x; infer_instance

/-- what the property demands when packet `id` is handed to `out.put` at instant `t` -/
def OutOK (size : Int → Nat) (rate : τ) (o : OSt τ) (id : Int) (t : τ) : Prop :=
  match o.busy with
  | some (id', s) => id' = id ∧ eqT t (s + txTime size rate id)
  | none => False

instance (size : Int → Nat) (rate : τ) (o : OSt τ) (id : Int) (t : τ) : Decidable (OutOK size rate o id t) := by
  unfold OutOK
  cases o.busy with
  | none => infer_instance
  | some x => cases x; infer_instance

/-- the virtual time the rules prescribe at the end of a pass of the loop: advanced to the instant of the departure with the
departed packet's class still active; 0 if no packet is waiting then -/
def doneV (F : Nat) (flow : Int → Nat) (cfg : WfqCfg τ) (o : OSt τ) : Option τ :=
  match o.lastOut with
  | none => none
  | some t => (advV F flow cfg o t).map fun v' => if o.waiting.isEmpty then Num.zero else v'

/-- what the property demands of the virtual time `v` at the end of a pass of the loop -/
def DoneOK (F : Nat) (flow : Int → Nat) (cfg : WfqCfg τ) (o : OSt τ) (v : τ) : Prop :=
  o.leaving.isSome = true ∧ o.busy.isNone = true ∧ o.pend.isNone = true ∧
  match doneV F flow cfg o with
  | some v' => eqT v v'
  | none => False

instance (F : Nat) (flow : Int → Nat) (cfg : WfqCfg τ) (o : OSt τ) (v : τ) : Decidable (DoneOK F flow cfg o v) := by
  unfold DoneOK; split <;> infer_instance

/-- the candidates after packet `w` has arrived: a `get` blocked on the empty store is served with it at once -/
def candPut (c : Option (List (WItem τ) × τ)) (w : WItem τ) : Option (List (WItem τ) × τ) :=
  match c with
  | some ([], _) => some ([w], w.2.2)
  | c => c

/-- one observation -/
def ostep (F : Nat) (flow size : Int → Nat) (cfg : WfqCfg τ) (o : OSt τ) : HEv τ → Option (OSt τ)
  | .put id t => if o.pend.isNone then some { o with pend := some (id, t, false) } else none
  | .vtime v =>
    match o.pend with
    | some (id, t, false) =>
      if VtimeOK F flow cfg o t v then
        some { o with pend := some (id, t, true), vt := v, fin := if isEmpty o then fun _ => Num.zero else o.fin }
      else none
    | _ => none
  | .stamp x =>
    match o.pend with
    | some (id, t, true) =>
      if StampOK flow size cfg o id x then
        some { o with pend := none, fin := setA o.fin (flow id) x, waiting := o.waiting ++ [(id, x, t)],
                      cand := candPut o.cand (id, x, t), last := t }
      else none
    | _ => none
  | .get t => if GetOK o t then some { o with cand := some (o.waiting, t) } else none
  | .serve id t =>
    if ServeOK flow o id t then
      some { o with waiting := o.waiting.filter (fun y => y.1 ≠ id), cand := none, busy := some (id, t) }
    else none
  | .out id t =>
    if OutOK size cfg.rate o id t then some { o with busy := none, leaving := some id, lastOut := some t } else none
  | .done v =>
    if DoneOK F flow cfg o v then
      some { o with leaving := none, vt := v, last := o.lastOut.getD o.last,
                    fin := if o.waiting.isEmpty then fun _ => Num.zero else o.fin }
    else none

/-- a history -/
def orun (F : Nat) (flow size : Int → Nat) (cfg : WfqCfg τ) : OSt τ → List (HEv τ) → Option (OSt τ)
  | o, [] => some o
  | o, ev :: r => (ostep F flow size cfg o ev).bind fun o' => orun F flow size cfg o' r

/-- everything has been served: nothing waits, nothing is in transmission or unbooked, the server waits for the next packet -/
def drained (o : OSt τ) : Bool :=
  o.busy.isNone && o.waiting.isEmpty && o.pend.isNone && o.leaving.isNone &&
  (match o.cand with | some ([], _) => true | _ => false)

/-- the arrival instants of a workload: packet `k` arrives at the sum of the first `k + 1` gaps -/
def arrivalsFrom (t : τ) : List (τ × Int) → List (Int × τ)
  | [] => []
  | (gap, id) :: r => (id, t + gap) :: arrivalsFrom (t + gap) r

/-! ## label inference and an executable refinement check (used by the `example`s of `Props/C14K.lean`)

The functions below *compute* the LTS action sequence of a kernel step from the abstractions of the two states (as
`harness/stamp.py` does from the public attributes of the real scheduler) and replay it through the LTS
(`Stamp.step (WFQ.sched cfg)`), so that concrete runs can be checked by evaluation: each kernel step commutes with the
abstraction function. -/

/-- the LTS actions of one kernel step, read off the abstractions before and after it and the packets `put` in it -/
def inferActs (pre post : StState τ (WfqSt τ)) (newPuts : List SPkt) : List (StAct τ) :=
  (if pre.now < post.now then [StAct.tick post.now] else []) ++
  (if !pre.started && post.started then [StAct.init (post.handed.map (·.pkt.id))] else []) ++
  (newPuts.map fun p => StAct.put p) ++
  (if pre.getPending then (match post.handed with | some it => [StAct.handoff it.pkt.id] | none => []) else []) ++
  (if pre.handed.isSome && post.spawned.isSome then [StAct.resume] else []) ++
  (if pre.spawned.isSome && post.tx.isSome then [StAct.sendInit] else []) ++
  (if pre.tx.isSome && post.fin.isSome then [StAct.sendFire] else []) ++
  (if pre.fin.isSome && post.fin.isNone then [StAct.sendDone (post.handed.map (·.pkt.id))] else [])

def sameAssoc (a b : List (Nat × τ)) : Bool :=
  a.length == b.length && (a.zip b).all fun x => x.1.1 == x.2.1 && Num.eqb x.1.2 x.2.2

def sameItem (a b : Item τ) : Bool := Num.eqb a.stamp b.stamp && Num.eqb a.arr b.arr && decide (a.pkt = b.pkt)

def sameOpt {β : Type} (f : β → β → Bool) : Option β → Option β → Bool
  | none, none => true
  | some a, some b => f a b
  | _, _ => false

/-- equality of the scheduler records, field by field -/
def sameSch (a b : WfqSt τ) : Bool :=
  Num.eqb a.vtime b.vtime && Num.eqb a.lastTime b.lastTime && sameAssoc a.finish b.finish &&
  decide (a.active = b.active) && decide (a.classCount = b.classCount)

/-- equality of LTS states, field by field -/
def sameState (a b : StState τ (WfqSt τ)) : Bool :=
  Num.eqb a.now b.now && sameSch a.sch b.sch &&
  (a.items.length == b.items.length && (a.items.zip b.items).all fun x => sameItem x.1 x.2) &&
  a.getPending == b.getPending && sameOpt sameItem a.handed b.handed && decide (a.spawned = b.spawned) &&
  sameOpt (fun x y => decide (x.1 = y.1) && Num.eqb x.2 y.2) a.tx b.tx && decide (a.fin = b.fin) &&
  decide (a.currentPacket = b.currentPacket) && decide (a.queueCount = b.queueCount) &&
  decide (a.queueBytes = b.queueBytes) && a.started == b.started

/-- run a list of actions through the LTS -/
def runLts (sc : Sched τ (WfqSt τ)) : StState τ (WfqSt τ) → List (StAct τ) → Except SErr (StState τ (WfqSt τ))
  | s, [] => .ok s
  | s, a :: as =>
    match Stamp.step sc s a with
    | .ok (s', _) => runLts sc s' as
    | .error m => .error m

/-- run the kernel model for at most `n` steps from `s`; after every step replay the inferred actions through the LTS from
`absWFQ` of the state before and compare with `absWFQ` of the state after.  `some k`: the agenda ran empty after `k` steps and
every step was accepted and commuted; `none`: a step crashed, was rejected, did not commute, or the budget ran out -/
def refineCheck (F : Nat) (flow size : Int → Nat) (cfg : WfqCfg τ) (N scale : Nat) :
    Nat → KState τ (WfqKSt τ) → Nat → Option Nat
  | 0, _, _ => none
  | n + 1, s, k =>
    match step (prog F flow size cfg N scale) 1 s with
    | .ok s' =>
      let newPuts := (((putsOf s'.trace).drop (putsOf s.trace).length).map (·.1)).map (pktOf flow size)
      match runLts (WFQ.sched cfg) (absWFQ F flow size cfg N s)
          (inferActs (absWFQ F flow size cfg N s) (absWFQ F flow size cfg N s') newPuts) with
      | .ok m => if sameState m (absWFQ F flow size cfg N s') then refineCheck F flow size cfg N scale n s' (k + 1) else none
      | .error _ => none
    | .empty => some k
    | _ => none

/-- a debugging variant of `refineCheck`: where it fails (step index and what went wrong) -/
def refineDebug (F : Nat) (flow size : Int → Nat) (cfg : WfqCfg τ) (N scale : Nat) :
    Nat → KState τ (WfqKSt τ) → Nat → String
  | 0, _, k => s!"budget ran out after {k} steps"
  | n + 1, s, k =>
    match step (prog F flow size cfg N scale) 1 s with
    | .ok s' =>
      let newPuts := (((putsOf s'.trace).drop (putsOf s.trace).length).map (·.1)).map (pktOf flow size)
      let pre := absWFQ F flow size cfg N s
      let post := absWFQ F flow size cfg N s'
      match runLts (WFQ.sched cfg) pre (inferActs pre post newPuts) with
      | .ok m =>
        if sameState m post then refineDebug F flow size cfg N scale n s' (k + 1)
        else s!"step {k}: does not commute: now {Num.eqb m.now post.now} vtime {Num.eqb m.sch.vtime post.sch.vtime} " ++
          s!"last {Num.eqb m.sch.lastTime post.sch.lastTime} finish {sameAssoc m.sch.finish post.sch.finish} " ++
          s!"active {decide (m.sch.active = post.sch.active)} classCount {decide (m.sch.classCount = post.sch.classCount)} " ++
          s!"items {m.items.length == post.items.length && (m.items.zip post.items).all fun x => sameItem x.1 x.2} " ++
          s!"getPending {m.getPending == post.getPending} handed {sameOpt sameItem m.handed post.handed} " ++
          s!"spawned {decide (m.spawned = post.spawned)} fin {decide (m.fin = post.fin)} " ++
          s!"tx {sameOpt (fun x y => decide (x.1 = y.1) && Num.eqb x.2 y.2) m.tx post.tx} " ++
          s!"cur {decide (m.currentPacket = post.currentPacket)} qc {decide (m.queueCount = post.queueCount)} " ++
          s!"qb {decide (m.queueBytes = post.queueBytes)} started {m.started == post.started}"
      | .error (.reject msg) => s!"step {k}: the LTS rejects: {msg}"
      | .error (.raise x) => s!"step {k}: the LTS raises {x}"
    | .empty => s!"ok {k}"
    | .crash x _ => s!"step {k}: crash {x.ty}"
    | .stopped _ _ => s!"step {k}: stopped"

end WFQOnK
