import OnlVerif.Basic.Truthy
import OnlVerif.Net.Fifo
/-!
# `onl.netdev.Wire`, `Cable`

`Wire.put` stamps `packet.current_time = now` and stores the packet.  `Wire.run`, when it gets a packet:
draws the loss (only if `loss_rate` is truthy) — `x` of `resume x y`; if not lost computes
`queued_time = now - packet.current_time`, `delay = delay_dist()` — `y` of `resume x y`; sleeps
`delay - queued_time` if `queued_time < delay`; forwards.

The fields `lastDone`, `curD`, `log` are *ghost*: no decision reads them and no snapshot shows them; they
record, for the theorems, when each packet left.
-/

structure WireCfg (α : Type) where
  /-- `loss_rate`; `None` = no loss -/
  lossRate : Option α

/-- ghost record of one packet that left the wire (forwarded or discarded) -/
structure WireRec (α : Type) where
  id : Nat
  /-- arrival instant (`Packet.current_time`) -/
  a : α
  /-- the delay drawn for it (meaningless when lost: none is drawn) -/
  d : α
  /-- instant at which the server finished with the predecessor (start instant if none) -/
  prev : α
  /-- instant at which it left -/
  t : α
  lost : Bool

structure WireSt (α : Type) where
  /-- `packets_rec` -/
  packetsRec : Nat := 0
  /-- ghost: instant at which the server last forwarded or discarded a packet -/
  lastDone : α
  /-- ghost: delay drawn for the packet in hand -/
  curD : α
  /-- ghost: packets that left, newest first -/
  log : List (WireRec α) := []

namespace Wire
variable {α : Type} [Num α]

/-- `Wire.put`: count, stamp `current_time`, always accept -/
def admitPkt (d : WireSt α) (now : α) (_waiting : Nat) (p : Pkt α) : WireSt α × Bool × Pkt α :=
  ({ d with packetsRec := d.packetsRec + 1 }, true, { p with ctime := now })

/-- the loss rate when `self.loss_rate` is truthy -/
def lossOn (c : WireCfg α) : Option α := Num.optOn c.lossRate

/-- `not (not self.loss_rate or random.uniform(0, 1) >= self.loss_rate)` with draw `x` -/
def lostNow (c : WireCfg α) (x : α) : Bool :=
  match lossOn c with
  | some r => decide (x < r)
  | none => false

def logLost (d : WireSt α) (now : α) (p : Pkt α) : WireSt α :=
  { d with lastDone := now,
           log := { id := p.id, a := p.ctime, d := d.curD, prev := d.lastDone, t := now, lost := true } :: d.log }

def logOut (d : WireSt α) (now : α) (p : Pkt α) : WireSt α :=
  { d with lastDone := now,
           log := { id := p.id, a := p.ctime, d := d.curD, prev := d.lastDone, t := now, lost := false } :: d.log }

def setD (d : WireSt α) (y : α) : WireSt α := { d with curD := y }

/-- `queued_time = now - packet.current_time` -/
def queued (now : α) (p : Pkt α) : α := now - p.ctime

def onResume (c : WireCfg α) (d : WireSt α) (now x y : α) (p : Pkt α) : WireSt α × Pkt α × Next α :=
  if lostNow c x then (logLost d now p, p, .lose)
  else if queued now p < y then (setD d y, p, .wait (y - queued now p))
  else (logOut (setD d y) now p, p, .emit)

def onFire (d : WireSt α) (now : α) (_k : Nat) (p : Pkt α) : WireSt α × Pkt α × Next α :=
  (logOut d now p, p, .emit)

def onDone (d : WireSt α) (_p : Pkt α) : WireSt α := d

def dev (c : WireCfg α) : Dev α (WireSt α) :=
  { admitPkt := admitPkt, onResume := onResume c, onFire := onFire, onDone := onDone }

/-- a wire that starts at `t0` -/
def st0 (t0 : α) : WireSt α := { lastDone := t0, curD := Num.zero }

end Wire

/-! ## Cable: two wires that share nothing but the clock -/

/-- an action of a cable: an action of one of its wires, or the clock advancing for both -/
inductive CableAct (α : Type) where
  | w1 (a : FAct α)
  | w2 (a : FAct α)
  | tick (t : α)

namespace Cable
variable {α : Type} [Num α]

abbrev St (α : Type) := FState α (WireSt α) × FState α (WireSt α)

def isTick : FAct α → Bool
  | .tick _ => true
  | _ => false

/-- `Cable(env, delay_dist, loss_rate)` builds both wires with the same parameters -/
def step (c : WireCfg α) (s : St α) : CableAct α → Except String (St α × FOut α)
  | .w1 a =>
    if isTick a then .error "reject: the clock belongs to the cable" else
    match Fifo.step (Wire.dev c) s.1 a with
    | .ok (s1, o) => .ok ((s1, s.2), o)
    | .error m => .error m
  | .w2 a =>
    if isTick a then .error "reject: the clock belongs to the cable" else
    match Fifo.step (Wire.dev c) s.2 a with
    | .ok (s2, o) => .ok ((s.1, s2), o)
    | .error m => .error m
  | .tick t => match Fifo.step (Wire.dev c) s.1 (.tick t), Fifo.step (Wire.dev c) s.2 (.tick t) with
    | .ok (s1, _), .ok (s2, _) => .ok ((s1, s2), .nothing)
    | .error m, _ => .error m
    | _, .error m => .error m

end Cable
