import OnlVerif.Kernel.Step
import OnlVerif.Net.MultiQueue
import OnlVerif.Net.Sched.WRR
/-!
# The weighted round-robin scheduler as processes *on the kernel model `K`*

`OnlVerif/Net/MultiQueue.lean` with `OnlVerif/Net/Sched/WRR.lean` describes `onl.scheduler.wrr.WRR` as a labelled transition
system over its atomic bursts (model `E`).  This file writes the same device as a program of the kernel model, with the
encoding of `OnlVerif/Net/RROnK.lean` (which see for `put`, `send_packet`, the cells, the dict keys and `assert store`); only
`run` differs:

```python
def run(self, env):
    while True:
        for flow_id, weight in self.weights.items():
            for _ in range(weight):
                if self.queue_count[flow_id] > 0:
                    store = self.stores.get(flow_id)
                    assert store
                    packet = yield store.get()
                    yield env.process(self.send_packet(packet))
                else:
                    break
        if self.total_packets == 0:
            yield self.packets_available.get()
```

What is particular to this file:

* `weights` = `self.weights.items()` in insertion order, weights natural numbers; the local state of `run` names entry `m` of
  the outer `for` and the number `jj` of iterations of the inner `for` already completed;
* the call `self.packets_available.get()` is the observation `log "idle" None` (the harness replaces the public attribute
  `packets_available` by a `Store` that notes its `get` calls): after an idle period the loop restarts its pass at the first
  entry, which no `put` / `serve` / `out` observation tells apart from a visit that simply goes on — the oracle needs it to
  count the packets of a visit exactly;
* **dict keys.**  The first burst of `run` precedes every `put` and reads `queue_count[f]` for every entry with a positive
  weight, in declaration order; from then on the keys of `queue_count` are these flows followed by the other flows in the
  order of their first `put` (`absWRR` computes exactly this).
-/

/-- local states of the generator functions (where each one is suspended) -/
inductive WrrSt (τ : Type) where
  /-- the source: suspended on the timeout before `put(pending)` (`none`: not started), then the arrivals still to come -/
  | src (pending : Option Int) (rest : List (τ × Int))
  /-- `WRR.run` not started -/
  | runStart
  /-- `WRR.run` suspended in `yield self.packets_available.get()` -/
  | runTok
  /-- `WRR.run` suspended in `packet = yield store.get()` at entry `m` of `weights`, iteration `jj` of the inner loop -/
  | runGet (m jj : Nat)
  /-- `WRR.run` suspended in `yield env.process(self.send_packet(packet))` at entry `m`, iteration `jj` -/
  | runSend (id : Int) (m jj : Nat)
  /-- `send_packet(packet)` not started -/
  | sendStart (id : Int)
  /-- `send_packet(packet)` suspended in `yield self.env.timeout(packet.size * 8.0 / self.rate)` -/
  | sendTx (id : Int)

namespace WRROnK
variable {τ : Type} [Num τ]

def tokStore : Nat := 0
def flowStore (f : Nat) : Nat := 1 + f
def cRecv : Nat := 0
def cCur : Nat := 1
def cCount (f : Nat) : Nat := 10 + 3 * f
def cBytes (f : Nat) : Nat := 11 + 3 * f
def cHas (f : Nat) : Nat := 12 + 3 * f

def typeErr : Exc := ⟨"TypeError", []⟩
def assertErr : Exc := ⟨"AssertionError", []⟩
/-- the `for` loop would be repeated for ever without a `yield` -/
def hangErr : Exc := ⟨"Hang", []⟩

/-- what a program does with a reply it cannot use (never happens in the runs of this program) -/
def bad : Reply → Burst τ (WrrSt τ)
  | .err x => .raise x
  | _ => .raise typeErr

/-- read an integer attribute -/
def loadInt (k : Nat) (cont : Int → Burst τ (WrrSt τ)) : Burst τ (WrrSt τ) :=
  .call (.load k) fun rp => match rp with
    | .val (.int n) => cont n
    | rp => bad rp

/-- `attr += d` on an integer attribute -/
def addInt (k : Nat) (d : Int) (cont : Burst τ (WrrSt τ)) : Burst τ (WrrSt τ) :=
  loadInt k fun n => .call (.store k (.int (n + d))) fun _ => cont

/-- `sum(self.queue_count.values())`, the counters of flows `f, f + 1, …, f + n - 1` added to `acc` -/
def sumCounts : Nat → Nat → Int → (Int → Burst τ (WrrSt τ)) → Burst τ (WrrSt τ)
  | _, 0, acc, cont => cont acc
  | f, n + 1, acc, cont => loadInt (cCount f) fun c => sumCounts (f + 1) n (acc + c) cont

/-- `self.total_packets` -/
def totalPackets (F : Nat) (cont : Int → Burst τ (WrrSt τ)) : Burst τ (WrrSt τ) := sumCounts 0 F 0 cont

/-- `add_packet_to_queue(packet)`, the debug print, `self.stores[flow_id].put(packet)` (and the note that `stores` has that key) -/
def putTail (flow size : Int → Nat) (id : Int) (cont : Burst τ (WrrSt τ)) : Burst τ (WrrSt τ) :=
  addInt cRecv 1 <|                                               -- self.packets_received += 1
  addInt (cCount (flow id)) 1 <|                                  -- self.queue_count[flow_id] += 1
  addInt (cBytes (flow id)) (size id) <|                          -- self.queue_byte_size[flow_id] += packet.size
  .call (.log "put" (.int id)) fun _ =>                           -- self.dprint("received packet …")
  .call (.sput (flowStore (flow id)) id) fun rp => match rp with  -- self.stores[flow_id].put(packet)
    | .ev _ => .call (.store (cHas (flow id)) (.int 1)) fun _ => cont   --   (`stores` has the key `flow_id` now)
    | rp => bad rp

/-- `MultiQueueScheduler.put(packet)`, followed by `cont` -/
def schedPut (F : Nat) (flow size : Int → Nat) (id : Int) (cont : Burst τ (WrrSt τ)) : Burst τ (WrrSt τ) :=
  totalPackets F fun tot =>
  if tot = 0 then                                                 -- if self.total_packets == 0:
    .call (.sput tokStore 1) fun rp => match rp with              --   self.packets_available.put(True)
      | .ev _ => putTail flow size id cont
      | rp => bad rp
  else putTail flow size id cont

/-- the source loop from its head: `for gap, id in rest: yield env.timeout(gap); …` -/
def srcLoop : List (τ × Int) → Burst τ (WrrSt τ)
  | [] => .ret .none
  | (gap, id) :: rest => .call (.timeout gap .none) fun rp => match rp with
      | .ev e => .yield e (.src (some id) rest)
      | rp => bad rp

/-- `yield self.packets_available.get()` -/
def runWait : Burst τ (WrrSt τ) :=
  .call (.log "idle" .none) fun _ =>                              -- (the call of self.packets_available.get())
  .call (.sget tokStore 0) fun rp => match rp with
    | .ev g => .yield g .runTok
    | rp => bad rp

/-- `packet = yield store.get()` at entry `m`, iteration `jj` (flow `f`) -/
def runTake (m jj f : Nat) : Burst τ (WrrSt τ) :=
  .call (.sget (flowStore f) 0) fun rp => match rp with
    | .ev g => .yield g (.runGet m jj)
    | rp => bad rp

/-- the two nested `for` loops from entry `m`, iteration `jj` on (`ws` = the entries still to look at, the current one
first); `onEnd` = what follows the outer loop -/
def scanW (onEnd : Burst τ (WrrSt τ)) : Nat → Nat → List (Nat × Nat) → Burst τ (WrrSt τ)
  | _, _, [] => onEnd
  | m, jj, (f, w) :: rest =>
    if jj < w then                                                -- for _ in range(weight):   (iteration jj)
      loadInt (cCount f) fun c =>
      if 0 < c then                                               --   if self.queue_count[flow_id] > 0:
        loadInt (cHas f) fun h =>                                 --     store = self.stores.get(flow_id)
        if h = 0 then .raise assertErr                            --     assert store
        else runTake m jj f                                       --     packet = yield store.get()
      else scanW onEnd (m + 1) 0 rest                             --   else: break
    else scanW onEnd (m + 1) 0 rest                               -- the inner loop is over

/-- the end of a pass that followed a pass without a `yield`: `if self.total_packets == 0: yield
self.packets_available.get()`, else the same pass again, for ever -/
def endPass2 (F : Nat) : Burst τ (WrrSt τ) :=
  totalPackets F fun tot => if tot = 0 then runWait else .raise hangErr

/-- the outer `for` loop has ended: `if self.total_packets == 0: yield self.packets_available.get()`, else the next pass -/
def endPass (F : Nat) (ws : List (Nat × Nat)) : Burst τ (WrrSt τ) :=
  totalPackets F fun tot => if tot = 0 then runWait else scanW (endPass2 F) 0 0 ws

/-- the loops from entry `m`, iteration `jj` on, and what follows them -/
def runPass (F : Nat) (ws : List (Nat × Nat)) (m jj : Nat) : Burst τ (WrrSt τ) := scanW (endPass F ws) m jj (ws.drop m)

/-- `run` has the packet taken at entry `m`, iteration `jj`: `yield env.process(self.send_packet(packet))` -/
def runServe (id : Int) (m jj : Nat) : Burst τ (WrrSt τ) :=
  .call (.log "serve" (.int id)) fun _ =>                         -- self.send_packet(packet)
  .call (.spawn (.sendStart id)) fun rp => match rp with          -- yield env.process(…)
    | .ev p => .yield p (.runSend id m jj)
    | rp => bad rp

/-- transmission time `packet.size * 8.0 / self.rate` -/
def txTime (size : Int → Nat) (rate : τ) (id : Int) : τ := Num.ofNat (size id * 8) / rate

/-- `send_packet(packet)` up to its `yield` -/
def sendBegin (size : Int → Nat) (rate : τ) (id : Int) : Burst τ (WrrSt τ) :=
  .call (.store cCur (.int id)) fun _ =>                          -- self.current_packet = packet
  .call (.timeout (txTime size rate id) .none) fun rp => match rp with
    | .ev t => .yield t (.sendTx id)                              -- yield self.env.timeout(packet.size * 8.0 / self.rate)
    | rp => bad rp

/-- `send_packet(packet)` after the transmission delay -/
def sendEnd (flow size : Int → Nat) (id : Int) : Burst τ (WrrSt τ) :=
  addInt (cCount (flow id)) (-1) <|                               -- self.queue_count[flow_id] -= 1
  addInt (cBytes (flow id)) (-(size id : Int)) <|                 -- self.queue_byte_size[flow_id] -= packet.size
  .call (.log "out" (.int id)) fun _ =>                           -- self.out.put(packet)
  .call (.store cCur .none) fun _ =>                              -- self.current_packet = None
  .ret .none

/-- the generator functions as one `K` program; `ws` = `self.weights.items()` -/
def body (F : Nat) (flow size : Int → Nat) (rate : τ) (ws : List (Nat × Nat)) : WrrSt τ → Resume → Burst τ (WrrSt τ)
  | .src pending rest, _ =>
    match pending with
    | none => srcLoop rest
    | some id => schedPut F flow size id (srcLoop rest)
  | .runStart, _ => runPass F ws 0 0
  | .runTok, _ => runPass F ws 0 0
  | .runGet m jj, .value (.int id) => runServe id m jj
  | .runGet _ _, _ => .raise typeErr
  | .runSend _ m jj, _ => runPass F ws m (jj + 1)
  | .sendStart id, _ => sendBegin size rate id
  | .sendTx id, _ => sendEnd flow size id

/-- the program of a `WRR(env, rate, weights)` -/
def prog (F : Nat) (flow size : Int → Nat) (cfg : WRR.Cfg τ) : WrrSt τ → Resume → Burst τ (WrrSt τ) :=
  body F flow size cfg.rate cfg.weights

/-- event ids of the two processes that exist from the start -/
def runProc : EvId := 0
def srcProc : EvId := 2

/-- the counter cells of flows `f, …, f + n - 1` -/
def flowCells : Nat → Nat → List (Nat × Val)
  | _, 0 => []
  | f, n + 1 => (cCount f, .int 0) :: (cBytes f, .int 0) :: (cHas f, .int 0) :: flowCells (f + 1) n

def storeRes : ResRec := { kind := .store, capacity := none }

/-- a fresh environment with the `F + 1` stores, the attributes at 0 / `None`, after `WRR.__init__`
(`env.process(self.run(env))`) and `env.process(source(...))` -/
def initState (F : Nat) (arrivals : List (τ × Int)) : KState τ (WrrSt τ) :=
  [Call.spawn WrrSt.runStart, Call.spawn (WrrSt.src none arrivals)].foldl (fun s c => (doCall s 0 c).1)
    { now := Num.zero, resources := (List.replicate (F + 1) storeRes).toArray,
      shared := (cRecv, .int 0) :: (cCur, .none) :: flowCells 0 F }

/-! ## observations -/

/-- the observations `what` of a trace: `(id, env.now)` in order -/
def obsOf (what : String) : Obs τ → Option (Int × τ)
  | .log _ w (.int id) now => if w = what then some (id, now) else none
  | _ => none

def logsOf (what : String) (tr : Array (Obs τ)) : List (Int × τ) := tr.toList.filterMap (obsOf what)

/-- the `out.put(packet)` observations -/
def outsOf (tr : Array (Obs τ)) : List (Int × τ) := logsOf "out" tr
/-- the packets handed to `put` -/
def putsOf (tr : Array (Obs τ)) : List (Int × τ) := logsOf "put" tr
/-- the packets `run` has taken from a store -/
def servesOf (tr : Array (Obs τ)) : List (Int × τ) := logsOf "serve" tr

/-- the four kinds of observation of the property, in the order of the trace -/
inductive HEv (τ : Type) where
  | put (id : Int) (t : τ)
  | serve (id : Int) (t : τ)
  | out (id : Int) (t : τ)
  /-- `run` calls `self.packets_available.get()` -/
  | idle (t : τ)

def histOf1 : Obs τ → Option (HEv τ)
  | .log _ w (.int id) now =>
    if w = "put" then some (.put id now) else if w = "serve" then some (.serve id now)
    else if w = "out" then some (.out id now) else none
  | .log _ w .none now => if w = "idle" then some (.idle now) else none
  | _ => none

def histOf (tr : Array (Obs τ)) : List (HEv τ) := tr.toList.filterMap histOf1

/-! ## the abstraction function -/

/-- value of an attribute cell -/
def cellVal (s : KState τ (WrrSt τ)) (k : Nat) : Val := ((s.shared.find? (·.1 == k)).map (·.2)).getD Val.none

/-- value of an integer attribute cell (0 if unset) -/
def cellInt (s : KState τ (WrrSt τ)) (k : Nat) : Int :=
  match cellVal s k with
  | Val.int n => n
  | _ => 0

/-- the packet object behind an id, as the LTS sees it -/
def pktOf (flow size : Int → Nat) (id : Int) : MPkt := { id := id.toNat, flow := flow id, size := size id }

/-- a dict key is inserted at its first use -/
def addKey (l : List Nat) (k : Nat) : List Nat := if l.contains k then l else l ++ [k]

/-- the keys of `queue_byte_size` / `stores` in insertion order: the flows in the order of their first `put` -/
def keysOf (flow : Int → Nat) (ids : List Int) : List Nat := ids.foldl (fun l id => addKey l (flow id)) []

/-- the keys of `queue_count` in insertion order: once `run` has started, the flows of the entries with a positive weight in
declaration order (its first burst reads `queue_count[f]` for each of them before any `put`), then the other flows in the
order of their first `put` -/
def countKeys (ws : List (Nat × Nat)) (started : Bool) (flow : Int → Nat) (ids : List Int) : List Nat :=
  ids.foldl (fun l id => addKey l (flow id))
    (if started then ((ws.filter fun e => 0 < e.2).map (·.1)).foldl addKey [] else [])

/-- the instant at which the agenda entry of event `t` is due -/
def dueOf (s : KState τ (WrrSt τ)) (t : EvId) : τ :=
  ((s.agenda.find? (·.ev == t)).map (·.time)).getD s.now

/-- where the server loop and its sender stand, read off the process records and the events they wait for -/
def absPhase (flow size : Int → Nat) (s : KState τ (WrrSt τ)) : MQ.Phase τ × WRR.Pc :=
  match s.proc? runProc with
  | some { st := .runTok, target := some g } =>
    if (s.ev g).out.isSome then (.tokenHanded, .at 0 0) else (.waitToken, .at 0 0)
  | some { st := .runGet m jj, target := some g } =>
    match (s.ev g).out with
    | some (.ok (.int id)) => (.pktHanded (flow id) (pktOf flow size id), .got m jj)
    | _ => (.running, .got m jj)
  | some { st := .runSend id m jj, target := some p } =>
    if (s.ev p).out.isSome then (.finished (pktOf flow size id), .sent m jj) else
    match s.proc? p with
    | some { st := .sendTx _, target := some t } => (.sending (pktOf flow size id) (dueOf s t), .sent m jj)
    | _ => (.spawned (pktOf flow size id), .sent m jj)
  | _ => (.idle, .at 0 0)

/-- has `run` executed its first burst? -/
def started (s : KState τ (WrrSt τ)) : Bool :=
  match s.proc? runProc with
  | some { st := .runStart, target := _ } => false
  | _ => true

/-- **abstraction function**: the state of the MultiQueueServer LTS (with the WRR record) a kernel state of this program
stands for, read off the process records, the stores, the attribute cells and (for the key order of the dicts) the `put`
observations and whether `run` has started -/
def absWRR (ws : List (Nat × Nat)) (flow size : Int → Nat) (s : KState τ (WrrSt τ)) : MQ.MQState τ WRR.Pc :=
  let keys := keysOf flow ((putsOf s.trace).map (·.1))
  let ckeys := countKeys ws (started s) flow ((putsOf s.trace).map (·.1))
  let ph := absPhase flow size s
  { now := s.now
    ctl := ph.2
    stores := keys.map fun f => (f, (s.res (flowStore f)).items.map (pktOf flow size))
    hol := []
    queueCount := ckeys.map fun f => (f, cellInt s (cCount f))
    queueBytes := keys.map fun f => (f, cellInt s (cBytes f))
    tokens := (s.res tokStore).items.length
    phase := ph.1
    currentPacket := match cellVal s cCur with
      | .int id => some (pktOf flow size id)
      | _ => none
    received := (cellInt s cRecv).toNat }

/-- the final state of `run()` if it returned, else `none` -/
def finalState (r : RunResult τ (WrrSt τ)) : Option (KState τ (WrrSt τ)) :=
  match r with
  | .returned _ s => some s
  | _ => none

/-! ## the property restated as an oracle over the `put` / `serve` / `out` / `idle` history

The oracle keeps, per flow, the packets handed to `put` and not yet taken by `run` (with the instant of the `put`), the
packet in transmission (with the instant its service started), the instant of the last departure, and the *visit*: the entry
`cm` of `weights` being visited and the number `cj` of packets sent in this visit (entry 0, no packet at the start and after
an idle period).  It accepts

* `serve id t` only if nothing is in transmission, `id` is the *oldest* waiting packet of its flow, its flow is entry `j` of
  `weights`, and **either the visit goes on** (`j = cm` and `cj` is below the weight of the entry: at most `weight` packets
  per visit) **or the visit is over** — its allowance is used up (`cj ≥ weight`) or its class has no packet waiting from an
  earlier instant — **and no entry that the cyclic order puts between `cm` and `j` has a packet that was put in an earlier
  instant and still waits**; the service starts either at the instant of the last departure or at the instant at which every
  waiting packet was put (never idle with a backlog); the visit becomes `(cm, cj + 1)` resp. `(j, 1)`;
* `out id t` only if `id` is the packet in transmission and `t` is exactly its service start plus `8·size/rate`;
* `idle t` (the loop waits for the wake-up token) only if nothing waits and nothing is in transmission. -/

/-- `a = b` on times, through `<` -/
def eqT (a b : τ) : Prop := ¬ a < b ∧ ¬ b < a

instance (a b : τ) : Decidable (eqT a b) := by unfold eqT; infer_instance

structure OSt (τ : Type) where
  /-- per flow: the packets handed to `put` and not yet taken by `run`, with the instant of the `put`, oldest first -/
  waiting : Nat → List (Int × τ)
  /-- the packet in transmission with the instant its service started -/
  busy : Option (Int × τ)
  /-- the instant of the last departure -/
  lastOut : Option τ
  /-- the entry of `weights` being visited -/
  cm : Nat
  /-- the number of packets sent in this visit -/
  cj : Nat

/-- nothing has happened yet -/
def oInit : OSt τ := { waiting := fun _ => [], busy := none, lastOut := none, cm := 0, cj := 0 }

/-- `w[f] := l` -/
def setQ (w : Nat → List (Int × τ)) (f : Nat) (l : List (Int × τ)) : Nat → List (Int × τ) := fun x => if x = f then l else w x

/-- the entries the cyclic order visits from entry `c` before it reaches entry `j` (`n` = the number of entries) -/
def skipped (n c j : Nat) : List Nat := if c ≤ j then List.range' c (j - c) else List.range' c (n - c) ++ List.range j

/-- flow and weight of entry `j` of `weights`, the entry of a flow -/
def flowAt (ws : List (Nat × Nat)) (j : Nat) : Nat := (ws.getD j (0, 0)).1
def weightAt (ws : List (Nat × Nat)) (j : Nat) : Nat := (ws.getD j (0, 0)).2
def posOf (ws : List (Nat × Nat)) (f : Nat) : Nat := (ws.map (·.1)).idxOf f

/-- the last departure was at `t` -/
def lastIs : Option τ → τ → Prop
  | some d, t => eqT d t
  | none, _ => False

instance (o : Option τ) (t : τ) : Decidable (lastIs o t) := by
  cases o <;> unfold lastIs <;> infer_instance

/-- the visit of entry `cm` goes on with a packet of entry `j` -/
def Continues (ws : List (Nat × Nat)) (o : OSt τ) (j : Nat) : Prop := j = o.cm ∧ o.cj < weightAt ws o.cm

instance (ws : List (Nat × Nat)) (o : OSt τ) (j : Nat) : Decidable (Continues ws o j) := by unfold Continues; infer_instance

/-- what the property demands when `run` starts the service of packet `id` at instant `t` -/
def ServeOK (F : Nat) (flow : Int → Nat) (ws : List (Nat × Nat)) (o : OSt τ) (id : Int) (t : τ) : Prop :=
  o.busy.isNone = true ∧                                                  -- one at a time
  (o.waiting (flow id)).head?.map (·.1) = some id ∧                       -- the oldest waiting packet of its flow
  (posOf ws (flow id) < ws.length ∧                                       -- at most `weight` per visit, cyclic order
    (Continues ws o (posOf ws (flow id)) ∨
      ((weightAt ws o.cm ≤ o.cj ∨ ∀ x ∈ o.waiting (flowAt ws o.cm), ¬ x.2 < t) ∧
        ∀ j' ∈ skipped ws.length (o.cm + 1) (posOf ws (flow id)), ∀ x ∈ o.waiting (flowAt ws j'), ¬ x.2 < t))) ∧
  (lastIs o.lastOut t ∨ ∀ f ∈ List.range F, ∀ x ∈ o.waiting f, eqT x.2 t)  -- never idle with a backlog

instance (F : Nat) (flow : Int → Nat) (ws : List (Nat × Nat)) (o : OSt τ) (id : Int) (t : τ) :
    Decidable (ServeOK F flow ws o id t) := by unfold ServeOK; infer_instance

/-- what the property demands when packet `id` is handed to `out.put` at instant `t` -/
def OutOK (size : Int → Nat) (rate : τ) (o : OSt τ) (id : Int) (t : τ) : Prop :=
  match o.busy with
  | some (id', s) => id' = id ∧ eqT t (s + txTime size rate id)
  | none => False

instance (size : Int → Nat) (rate : τ) (o : OSt τ) (id : Int) (t : τ) : Decidable (OutOK size rate o id t) := by
  unfold OutOK
  cases o.busy with
  | none => infer_instance
  | some x => cases x; infer_instance

/-- what the property demands when the loop goes idle: nothing in the system -/
def IdleOK (F : Nat) (o : OSt τ) : Prop := o.busy.isNone = true ∧ ∀ f ∈ List.range F, (o.waiting f).isEmpty = true

instance (F : Nat) (o : OSt τ) : Decidable (IdleOK F o) := by unfold IdleOK; infer_instance

/-- one observation -/
def ostep (F : Nat) (flow size : Int → Nat) (cfg : WRR.Cfg τ) (o : OSt τ) : HEv τ → Option (OSt τ)
  | .put id t => some { o with waiting := setQ o.waiting (flow id) (o.waiting (flow id) ++ [(id, t)]) }
  | .serve id t =>
    if ServeOK F flow cfg.weights o id t then
      if Continues cfg.weights o (posOf cfg.weights (flow id)) then
        some { o with waiting := setQ o.waiting (flow id) (o.waiting (flow id)).tail, busy := some (id, t), cj := o.cj + 1 }
      else
        some { o with waiting := setQ o.waiting (flow id) (o.waiting (flow id)).tail, busy := some (id, t),
                      cm := posOf cfg.weights (flow id), cj := 1 }
    else none
  | .out id t => if OutOK size cfg.rate o id t then some { o with busy := none, lastOut := some t } else none
  | .idle _ => if IdleOK F o then some { o with cm := 0, cj := 0 } else none

/-- a history -/
def orun (F : Nat) (flow size : Int → Nat) (cfg : WRR.Cfg τ) : OSt τ → List (HEv τ) → Option (OSt τ)
  | o, [] => some o
  | o, ev :: r => (ostep F flow size cfg o ev).bind fun o' => orun F flow size cfg o' r

/-- everything has been served: nothing waits, nothing is in transmission -/
def drained (F : Nat) (o : OSt τ) : Bool := o.busy.isNone && (List.range F).all fun f => (o.waiting f).isEmpty

/-- the arrival instants of a workload: packet `k` arrives at the sum of the first `k + 1` gaps -/
def arrivalsFrom (t : τ) : List (τ × Int) → List (Int × τ)
  | [] => []
  | (gap, id) :: r => (id, t + gap) :: arrivalsFrom (t + gap) r

/-! ## label inference and an executable refinement check (used by the `example`s of `Props/C15K.lean`)

`Props/C15K.lean` proves that every kernel step is an action sequence the LTS accepts between the abstractions of the two
states.  The functions below *compute* such a sequence from the two abstractions (as `harness/mq.py` does from the public
attributes of the real scheduler) and replay it through the LTS, so that concrete runs can be checked by evaluation. -/

/-- the LTS actions of one kernel step, read off the abstractions before and after it and the packets `put` in it -/
def inferActs (pre post : MQ.MQState τ WRR.Pc) (newPuts : List MPkt) : List (MQ.MAct τ) :=
  (if pre.now < post.now then [MQ.MAct.tick post.now] else []) ++
  (newPuts.map fun p => MQ.MAct.put p) ++
  (match pre.phase, post.phase with
   | .idle, .idle => []
   | .idle, _ => [.init]
   | .waitToken, .tokenHanded => [.tokenHandoff]
   | .tokenHanded, .tokenHanded => if post.tokens < pre.tokens then [.wake] else []
   | .tokenHanded, _ => [.wake]
   | .pktHanded _ _, .spawned _ => [.pktResume]
   | .spawned _, .sending _ _ => [.sendInit]
   | .sending _ _, .finished _ => [.sendFire]
   | .finished _, .finished _ => []
   | .finished _, _ => [.sendDone]
   | _, _ => [])

def samePhase : MQ.Phase τ → MQ.Phase τ → Bool
  | .idle, .idle => true
  | .running, .running => true
  | .waitToken, .waitToken => true
  | .tokenHanded, .tokenHanded => true
  | .pktHanded c p, .pktHanded c' p' => decide (c = c' ∧ p = p')
  | .spawned p, .spawned p' => decide (p = p')
  | .sending p d, .sending p' d' => decide (p = p') && Num.eqb d d'
  | .finished p, .finished p' => decide (p = p')
  | _, _ => false

/-- equality of LTS states, field by field -/
def sameState (a b : MQ.MQState τ WRR.Pc) : Bool :=
  Num.eqb a.now b.now && decide (a.ctl = b.ctl) && decide (a.stores = b.stores) && decide (a.hol = b.hol) &&
  decide (a.queueCount = b.queueCount) && decide (a.queueBytes = b.queueBytes) && decide (a.tokens = b.tokens) &&
  samePhase a.phase b.phase && decide (a.currentPacket = b.currentPacket) && decide (a.received = b.received)

/-- run a list of actions through the LTS -/
def runLts (sc : MQ.Sched τ WRR.Pc) : MQ.MQState τ WRR.Pc → List (MQ.MAct τ) → Except String (MQ.MQState τ WRR.Pc)
  | s, [] => .ok s
  | s, a :: as =>
    match MQ.step sc s a with
    | .ok (s', _) => runLts sc s' as
    | .error m => .error m

/-- run the kernel model for at most `n` steps from `s`; after every step replay the inferred actions through the LTS from
`absWRR` of the state before and compare with `absWRR` of the state after.  `some k`: the agenda ran empty after `k` steps and
every step was accepted and commuted; `none`: a step crashed, was rejected, did not commute, or the budget ran out -/
def refineCheck (F : Nat) (flow size : Int → Nat) (cfg : WRR.Cfg τ) : Nat → KState τ (WrrSt τ) → Nat → Option Nat
  | 0, _, _ => none
  | n + 1, s, k =>
    match step (prog F flow size cfg) 1 s with
    | .ok s' =>
      let newPuts := (((putsOf s'.trace).drop (putsOf s.trace).length).map (·.1)).map (pktOf flow size)
      match runLts (WRR.sched cfg) (absWRR cfg.weights flow size s) (inferActs (absWRR cfg.weights flow size s) (absWRR cfg.weights flow size s') newPuts) with
      | .ok m => if sameState m (absWRR cfg.weights flow size s') then refineCheck F flow size cfg n s' (k + 1) else none
      | .error _ => none
    | .empty => some k
    | _ => none

end WRROnK
