import OnlVerif.Basic.Truthy
import OnlVerif.Net.Fifo
/-!
# `onl.netdev.TwoRateTokenBucket`

`run`, when it gets a packet at `now`: refills the committed bucket (`min(cbs, commit + cir*(now-update_time)/8.0)`)
and, if `pir` is truthy, the peak bucket (`assert self.pbs`; `min(pbs, peak + pir*(now-update_time)/8.0)`), sets
`update_time = now`, then

* with `pir`: `size > peak` → sleep `(size-peak)*8.0/pir`, then `peak = 0.0`, **red**, `update_time = now`;
  `size > commit` → `peak -= size`, `commit = 0.0`, **yellow**; else both `-= size`, **green**;
* without: `size > commit` → sleep `(size-commit)*8.0/cir`, then `commit = 0.0`, **yellow**, `update_time = now`;
  else `commit -= size`, **green**;

and forwards the packet.  Colours: 1 green, 2 yellow, 3 red.  `log` is *ghost*: (debit instant, size, colour).
-/

structure TrCfg (α : Type) where
  cir : α
  cbs : α
  pir : Option α
  pbs : Option α

structure TrSt (α : Type) where
  /-- `current_bucket_commit` -/
  commit : α
  /-- `current_bucket_peak` (`None` when no `pbs` was given) -/
  peak : Option α
  /-- `update_time` -/
  upd : α
  received : Nat := 0
  sent : Nat := 0
  /-- ghost: (debit instant, size, colour), newest first -/
  log : List (α × Nat × Nat) := []

namespace TwoRate
variable {α : Type} [Num α]

def green : Nat := 1
def yellow : Nat := 2
def red : Nat := 3

def admitPkt (d : TrSt α) (_now : α) (_waiting : Nat) (p : Pkt α) : TrSt α × Bool × Pkt α :=
  ({ d with received := d.received + 1 }, true, p)

def pirOn (c : TrCfg α) : Option α := Num.optOn c.pir
def pbsOn (c : TrCfg α) : Option α := Num.optOn c.pbs

/-- `min(cap, level + rate * (now - update_time) / 8.0)` -/
def refillLevel (cap level rate upd now : α) : α := Num.pymin cap (level + rate * (now - upd) / Num.ofNat 8)

/-- `(packet.size - level) * 8.0 / rate` -/
def tokenWait (level rate : α) (p : Pkt α) : α := (Num.ofNat p.size - level) * Num.ofNat 8 / rate

def paint (p : Pkt α) (c : Nat) : Pkt α := { p with color := c }

def logDebit (d : TrSt α) (now : α) (p : Pkt α) (col : Nat) : TrSt α := { d with log := (now, p.size, col) :: d.log }

/-- both buckets refilled, `update_time = now` -/
def setLevels (d : TrSt α) (cm : α) (pk : Option α) (now : α) : TrSt α := { d with commit := cm, peak := pk, upd := now }

/-- green with PIR: both buckets pay -/
def payBoth (d : TrSt α) (cm pk : α) (now : α) (p : Pkt α) : TrSt α :=
  logDebit (setLevels d (cm - Num.ofNat p.size) (some (pk - Num.ofNat p.size)) now) now p green

/-- yellow with PIR: the peak bucket pays, the committed bucket is emptied -/
def payPeak (d : TrSt α) (pk : α) (now : α) (p : Pkt α) : TrSt α :=
  logDebit (setLevels d Num.zero (some (pk - Num.ofNat p.size)) now) now p yellow

/-- green without PIR -/
def payCommit (d : TrSt α) (cm : α) (now : α) (p : Pkt α) : TrSt α :=
  logDebit (setLevels d (cm - Num.ofNat p.size) d.peak now) now p green

/-- the decision with PIR `k`, PBS `b`, current peak level `pl` -/
def resumePir (c : TrCfg α) (d : TrSt α) (now : α) (p : Pkt α) (k b pl : α) : TrSt α × Pkt α × Next α :=
  let cm := refillLevel c.cbs d.commit c.cir d.upd now
  let pk := refillLevel b pl k d.upd now
  if pk < Num.ofNat p.size then (setLevels d cm (some pk) now, p, .wait (tokenWait pk k p))
  else if cm < Num.ofNat p.size then (payPeak d pk now p, paint p yellow, .emit)
  else (payBoth d cm pk now p, paint p green, .emit)

/-- the decision without PIR -/
def resumeCir (c : TrCfg α) (d : TrSt α) (now : α) (p : Pkt α) : TrSt α × Pkt α × Next α :=
  let cm := refillLevel c.cbs d.commit c.cir d.upd now
  if cm < Num.ofNat p.size then (setLevels d cm d.peak now, p, .wait (tokenWait cm c.cir p))
  else (payCommit d cm now p, paint p green, .emit)

def onResume (c : TrCfg α) (d : TrSt α) (now _x _y : α) (p : Pkt α) : TrSt α × Pkt α × Next α :=
  match pirOn c with
  | some k =>
    match pbsOn c, d.peak with
    | some b, some pl => resumePir c d now p k b pl
    | none, _ => (d, p, .fail "AssertionError")
    | some _, none => (d, p, .fail "TypeError")
  | none => resumeCir c d now p

/-- after the wait with PIR: `peak = 0.0`, red -/
def fireRed (d : TrSt α) (now : α) (p : Pkt α) : TrSt α :=
  logDebit { d with peak := some Num.zero, upd := now } now p red

/-- after the wait without PIR: `commit = 0.0`, yellow -/
def fireYellow (d : TrSt α) (now : α) (p : Pkt α) : TrSt α :=
  logDebit { d with commit := Num.zero, upd := now } now p yellow

def onFire (c : TrCfg α) (d : TrSt α) (now : α) (_k : Nat) (p : Pkt α) : TrSt α × Pkt α × Next α :=
  match pirOn c with
  | some _ => (fireRed d now p, paint p red, .emit)
  | none => (fireYellow d now p, paint p yellow, .emit)

def onDone (d : TrSt α) (_p : Pkt α) : TrSt α := { d with sent := d.sent + 1 }

def dev (c : TrCfg α) : Dev α (TrSt α) :=
  { admitPkt := admitPkt, onResume := onResume c, onFire := onFire c, onDone := onDone }

/-- `TwoRateTokenBucket(env, cir, cbs, pir, pbs)`: both buckets start full, `update_time = 0.0` -/
def st0 (c : TrCfg α) : TrSt α := { commit := c.cbs, peak := c.pbs, upd := Num.zero }

end TwoRate
