import OnlVerif.Basic.Num
/-!
# `FifoServer`: the common skeleton of Port, Wire, TokenBucket and TwoRateTokenBucket

All four devices have the same shape: `put()` decides admission and appends the packet to an
unbounded kernel `Store`; one server process loops `packet = yield store.get()`, then computes,
possibly sleeps on timeouts, and forwards the packet with `out.put(packet)` (or discards it).

The device is modelled as a labelled transition system whose actions are its *atomic bursts* —
the units the kernel executes without interleaving:

* `init`     the server's `Initialize` event is processed: it issues its first `store.get()`
* `put p`    an external call of `put(p)`
* `handoff`  a `StorePut` event is processed while the server waits: the store hands the head item over
* `resume`   the `StoreGet` event is processed: the server continues with the packet
* `fire`     the timeout the server sleeps on is processed
* `tick t`   the clock advances to `t`

Admissibility of `tick` encodes the kernel guarantees proved for model `K` (C01): time does not go back;
a timeout fires exactly when due; everything triggered is processed before the clock advances.
The device-specific behaviour is a record `Dev` of pure functions.
-/

structure Pkt (α : Type) where
  id : Nat
  flow : Nat
  size : Nat
  /-- `Packet.color`: 0 unset, 1 green, 2 yellow, 3 red -/
  color : Nat := 0
  /-- `Packet.current_time` (set by `Wire.put`) -/
  ctime : α
  /-- a `random.uniform(0, 1)` draw the implementation consumed while admitting this packet (RED); model input -/
  draw : α

/-- what the server does next with the packet in hand -/
inductive Next (α : Type) where
  | emit               -- forward it now
  | wait (dt : α)      -- sleep `dt` first
  | lose               -- discard it (wire loss)
  | fail (msg : String) -- the implementation would raise here

/-- device-specific behaviour; `δ` is the device's own state (counters, token levels, …) -/
structure Dev (α δ : Type) where
  /-- `put(p)` at time `now` with `n` packets waiting in the store: new device state, accepted?, the packet as stored -/
  admitPkt : δ → (now : α) → (waiting : Nat) → Pkt α → δ × Bool × Pkt α
  /-- the server got packet `p` from the store at `now`; `x`, `y` are the random draws the implementation consumed
  in this burst (wire: loss draw and delay), model inputs -/
  onResume : δ → (now : α) → (x y : α) → Pkt α → δ × Pkt α × Next α
  /-- a timeout the server slept on has fired at `now`; `k` counts the timeouts already taken for this packet -/
  onFire : δ → (now : α) → (k : Nat) → Pkt α → δ × Pkt α × Next α
  /-- the packet leaves (forwarded or discarded) -/
  onDone : δ → Pkt α → δ

structure FState (α δ : Type) where
  now : α
  dev : δ
  /-- `store.items` -/
  items : List (Pkt α) := []
  /-- the server is blocked in `store.get()` -/
  getPending : Bool := false
  /-- the get event is triggered with this item, the server has not resumed yet -/
  handed : Option (Pkt α) := none
  /-- packet in hand while sleeping: due instant and number of timeouts taken so far -/
  tx : Option (Pkt α × α × Nat) := none
  started : Bool := false

inductive FAct (α : Type) where
  | init
  | put (p : Pkt α)
  | handoff
  | resume (x y : α)
  | fire
  | tick (t : α)

inductive FOut (α : Type) where
  | nothing
  | accepted
  | dropped
  | depart (p : Pkt α)
  | lost (p : Pkt α)

namespace Fifo
variable {α δ : Type} [Num α]

/-- the server loop calls `store.get()`: served at once if an item is there, else it blocks -/
def issueGet (s : FState α δ) : FState α δ :=
  match s.items with
  | p :: rest => { s with items := rest, handed := some p }
  | [] => { s with getPending := true }

/-- continue the server with packet `p` after `onResume`/`onFire` said `nx`; `k` timeouts taken so far -/
def proceed (d : Dev α δ) (s : FState α δ) (p : Pkt α) (k : Nat) (nx : Next α) : Except String (FState α δ × FOut α) :=
  match nx with
  | .emit => .ok (issueGet { s with dev := d.onDone s.dev p, tx := none }, .depart p)
  | .lose => .ok (issueGet { s with dev := d.onDone s.dev p, tx := none }, .lost p)
  | .wait dt => .ok ({ s with tx := some (p, s.now + dt, k) }, .nothing)
  | .fail m => .error m

def step (d : Dev α δ) (s : FState α δ) : FAct α → Except String (FState α δ × FOut α)
  | .init => if s.started then .error "reject: init twice" else .ok (issueGet { s with started := true }, .nothing)
  | .put p =>
    let r := d.admitPkt s.dev s.now s.items.length p
    if r.2.1 then .ok ({ s with dev := r.1, items := s.items ++ [r.2.2] }, .accepted)
    else .ok ({ s with dev := r.1 }, .dropped)
  | .handoff =>
    if s.getPending then
      match s.items with
      | p :: rest => .ok ({ s with items := rest, handed := some p, getPending := false }, .nothing)
      | [] => .error "reject: handoff without item"
    else .error "reject: handoff without pending get"
  | .resume x y =>
    match s.handed with
    | none => .error "reject: resume without handed item"
    | some p =>
      let r := d.onResume s.dev s.now x y p
      proceed d { s with handed := none, dev := r.1 } r.2.1 0 r.2.2
  | .fire =>
    match s.tx with
    | none => .error "reject: fire without timeout"
    | some (p, due, k) =>
      if s.now < due then .error "reject: fire early" else
      if due < s.now then .error "reject: fire late" else
      let r := d.onFire s.dev s.now k p
      proceed d { s with tx := none, dev := r.1 } r.2.1 (k + 1) r.2.2
  | .tick t =>
    if t < s.now then .error "reject: time goes back" else
    if !s.started then .error "reject: tick before the server started" else
    if s.handed.isSome then .error "reject: tick with a triggered get pending" else
    if s.getPending && !s.items.isEmpty then .error "reject: tick with a hand-off pending" else
    match s.tx with
    | some (_, due, _) => if due < t then .error "reject: tick past a due timeout" else .ok ({ s with now := t }, .nothing)
    | none => .ok ({ s with now := t }, .nothing)

/-- phase of the server loop as visible through `Process.target`:
I not started, W blocked in get, H get triggered, T sleeping -/
def phase (s : FState α δ) : String :=
  if !s.started then "I" else if s.handed.isSome then "H" else if s.tx.isSome then "T" else "W"

end Fifo
