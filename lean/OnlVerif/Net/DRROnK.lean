import OnlVerif.Kernel.Step
import OnlVerif.Kernel.TimeCell
import OnlVerif.Net.MultiQueue
import OnlVerif.Net.Sched.DRR
/-!
# The deficit round-robin scheduler as processes *on the kernel model `K`*

`OnlVerif/Net/MultiQueue.lean` with `OnlVerif/Net/Sched/DRR.lean` describes `onl.scheduler.drr.DRR` as a labelled transition
system over its atomic bursts (model `E`).  This file writes the same device as a program of the kernel model: `DRR.put`,
`Scheduler.send_packet` (a child process per transmission, joined with `yield process`), `DRR.__init__` (the quanta) and
`DRR.run`, plus a packet source, for the classes `0 … F-1` declared in an arbitrary order with the identity `flow2class`.

```python
def run(self, env):
    while True:
        while self.total_packets > 0:                                            # passes
            for class_id, count in self.class_count.items():                     # visitFrom (entry m)
                if count > 0:
                    self.deficit[class_id] += self.quantum[class_id]             #   observation "visit"
                while self.deficit[class_id] > 0 and self.class_count[class_id] > 0:   # innerAt
                    if class_id in self.head_of_line:
                        packet = self.head_of_line[class_id]; del self.head_of_line[class_id]
                    else:
                        packet = yield self.stores[class_id].get()               # runTake / resumeGot
                    if packet.size <= self.deficit[class_id]: self.current_packet = packet
                    assert class_id == self.flow2class(packet.flow_id)
                    if packet.size <= self.deficit[class_id]:
                        yield env.process(self.send_packet(packet))              # runServe / resumeDone
                        self.class_count[class_id] -= 1
                        self.deficit[class_id] -= packet.size                    #   observation "done"
                        if self.class_count[class_id] == 0:
                            self.deficit[class_id] = 0.0                         #   observation "reset"
                    else:
                        assert not class_id in self.head_of_line
                        self.head_of_line[class_id] = packet                     #   observation "park"
                        break
        if self.total_packets == 0:
            yield self.packets_available.get()                                   #   observation "idle"
```

Encoding (modelling devices, all of them):

* packet ids are integers; `flow, size : Int → Nat` give `packet.flow_id` and `packet.size`; the wake-up store
  `packets_available` is resource 0, `stores[c]` is resource `1 + c`; an `out` is attached;
* the attributes live in the shared cells of `K`: `packets_received` (0), `current_packet` (1) and, per class `c`,
  `queue_count[c]`, `queue_byte_size[c]` (`defaultdict(int)`: a cell that does not exist reads as 0), `class_count[c]`
  (integers), `deficit[c]` and `quantum[c]` (scalars, through the codec `TimeCell`: `Val` has no scalar constructor),
  `head_of_line.get(c)` (a packet id or `None`).  The cells of `class_count`,
  `deficit`, `quantum` exist exactly for the declared classes (`DRR.__init__` writes them, the quanta as
  `MIN_QUANTUM * weight / min_weight`): `put` of an undeclared class raises the `KeyError` of `self.class_count[class_id] += 1`;
* **one ghost cell per class**, `cForf c`: the credit forgotten so far when the class emptied (the LTS keeps the same ghost;
  no decision reads it);
* observations (`KState.trace`, each with `env.now`): `put id` (the call of `put`), `serve id` (the call of
  `self.send_packet(packet)`), `out id` (`self.out.put(packet)`), `idle` (the call of `self.packets_available.get()`), and the
  writes of the two public dicts of the round: `visit c` (`deficit[c] += quantum[c]`), `done id` (`deficit[c] -= packet.size`),
  `reset c` (`deficit[c] = 0.0`), each followed by `credit v` with the value written, and `park id`
  (`head_of_line[c] = packet`).  The harness reads them off the real object by replacing the public attributes `deficit`,
  `head_of_line` by logging dicts;
* the two nested yield-free loops (`while total_packets > 0` / `for`) run at most `P` passes in one burst; a further pass is
  the exception `Hang` (a burst that never yields is a Python hang).  `Props/C15KD.lean` proves it unreachable when
  `1500·(P-1)` bounds the packet sizes (a pass without a `yield` adds a quantum `≥ 1500` to the credit of every backlogged
  class, each of which holds an unaffordable parked head);
* **dict keys.**  `queue_count`, `class_count`, `deficit`, `quantum` have the declared classes as keys, in declaration order,
  from `__init__` on; `queue_byte_size` and `stores` get the key of a class at its first `put`; the ghost dicts of the LTS
  (`visits`, `sentBytes`, `forfeited`) and its `hol` list get a key at the first `visit` / `done` / `reset` / `park` of the
  class: `absDRR` computes these orders from the observations.
-/

/-- local states of the generator functions (where each one is suspended) -/
inductive DrrSt (τ : Type) where
  /-- the source: suspended on the timeout before `put(pending)` (`none`: not started), then the arrivals still to come -/
  | src (pending : Option Int) (rest : List (τ × Int))
  /-- `DRR.run` not started -/
  | runStart
  /-- `DRR.run` suspended in `yield self.packets_available.get()` -/
  | runTok
  /-- `DRR.run` suspended in `packet = yield store.get()` at entry `m` of `class_count` -/
  | runGet (m : Nat)
  /-- `DRR.run` suspended in `yield env.process(self.send_packet(packet))` at entry `m` -/
  | runSend (id : Int) (m : Nat)
  /-- `send_packet(packet)` not started -/
  | sendStart (id : Int)
  /-- `send_packet(packet)` suspended in `yield self.env.timeout(packet.size * 8.0 / self.rate)` -/
  | sendTx (id : Int)

namespace DRROnK
variable {τ : Type} [Num τ] [TimeCell τ]

def tokStore : Nat := 0
def flowStore (f : Nat) : Nat := 1 + f
def cRecv : Nat := 0
def cCur : Nat := 1
def cCount (f : Nat) : Nat := 10 + 7 * f
def cBytes (f : Nat) : Nat := 11 + 7 * f
def cCls (f : Nat) : Nat := 12 + 7 * f
def cDef (f : Nat) : Nat := 13 + 7 * f
def cHol (f : Nat) : Nat := 14 + 7 * f
def cQuant (f : Nat) : Nat := 15 + 7 * f
/-- ghost: credit forgotten when the class emptied -/
def cForf (f : Nat) : Nat := 16 + 7 * f

def typeErr : Exc := ⟨"TypeError", []⟩
def assertErr : Exc := ⟨"AssertionError", []⟩
def keyErr : Exc := ⟨"KeyError", []⟩
/-- the loops would be repeated for ever without a `yield` -/
def hangErr : Exc := ⟨"Hang", []⟩

/-- what a program does with a reply it cannot use (never happens in the runs of this program) -/
def bad : Reply → Burst τ (DrrSt τ)
  | .err x => .raise x
  | _ => .raise typeErr

/-- read an integer attribute -/
def loadInt (k : Nat) (cont : Int → Burst τ (DrrSt τ)) : Burst τ (DrrSt τ) :=
  .call (.load k) fun rp => match rp with
    | .val (.int n) => cont n
    | rp => bad rp

/-- read an entry of a dict with integer values that exists only for the declared classes -/
def loadKey (k : Nat) (cont : Int → Burst τ (DrrSt τ)) : Burst τ (DrrSt τ) :=
  .call (.load k) fun rp => match rp with
    | .val (.int n) => cont n
    | .val .none => .raise keyErr
    | rp => bad rp

/-- read a scalar attribute -/
def loadTime (k : Nat) (cont : τ → Burst τ (DrrSt τ)) : Burst τ (DrrSt τ) :=
  .call (.load k) fun rp => match rp with
    | .val v => (match TimeCell.dec v with
      | some x => cont x
      | none => .raise typeErr)
    | rp => bad rp

/-- `attr += d` on an integer attribute -/
def addInt (k : Nat) (d : Int) (cont : Burst τ (DrrSt τ)) : Burst τ (DrrSt τ) :=
  loadInt k fun n => .call (.store k (.int (n + d))) fun _ => cont

/-- read an entry of a `defaultdict(int)`: a missing key reads as 0 -/
def loadDD (k : Nat) (cont : Int → Burst τ (DrrSt τ)) : Burst τ (DrrSt τ) :=
  .call (.load k) fun rp => match rp with
    | .val (.int n) => cont n
    | .val .none => cont 0
    | rp => bad rp

/-- `d[key] += x` on a `defaultdict(int)` -/
def addDD (k : Nat) (d : Int) (cont : Burst τ (DrrSt τ)) : Burst τ (DrrSt τ) :=
  loadDD k fun n => .call (.store k (.int (n + d))) fun _ => cont

/-- `d[key] += x` on a dict that exists only for the declared classes -/
def addKeyInt (k : Nat) (d : Int) (cont : Burst τ (DrrSt τ)) : Burst τ (DrrSt τ) :=
  loadKey k fun n => .call (.store k (.int (n + d))) fun _ => cont

/-- `sum(self.queue_count.values())`, the counters of flows `f, f + 1, …, f + n - 1` added to `acc` -/
def sumCounts : Nat → Nat → Int → (Int → Burst τ (DrrSt τ)) → Burst τ (DrrSt τ)
  | _, 0, acc, cont => cont acc
  | f, n + 1, acc, cont => loadInt (cCount f) fun c => sumCounts (f + 1) n (acc + c) cont

/-- `self.total_packets` -/
def totalPackets (F : Nat) (cont : Int → Burst τ (DrrSt τ)) : Burst τ (DrrSt τ) := sumCounts 0 F 0 cont

/-- `add_packet_to_queue(packet)`, `self.class_count[class_id] += 1`, the debug print, `self.stores[class_id].put(packet)` -/
def putTail (flow size : Int → Nat) (id : Int) (cont : Burst τ (DrrSt τ)) : Burst τ (DrrSt τ) :=
  addInt cRecv 1 <|                                               -- self.packets_received += 1
  addDD (cCount (flow id)) 1 <|                                   -- self.queue_count[flow_id] += 1
  addDD (cBytes (flow id)) (size id) <|                           -- self.queue_byte_size[flow_id] += packet.size
  addKeyInt (cCls (flow id)) 1 <|                                 -- self.class_count[class_id] += 1
  .call (.log "put" (.int id)) fun _ =>                           -- self.dprint("received packet …")
  .call (.sput (flowStore (flow id)) id) fun rp => match rp with  -- self.stores[class_id].put(packet)
    | .ev _ => cont
    | rp => bad rp

/-- `DRR.put(packet)`, followed by `cont` -/
def schedPut (F : Nat) (flow size : Int → Nat) (id : Int) (cont : Burst τ (DrrSt τ)) : Burst τ (DrrSt τ) :=
  totalPackets F fun tot =>
  if tot = 0 then                                                 -- if self.total_packets == 0:
    .call (.sput tokStore 1) fun rp => match rp with              --   self.packets_available.put(True)
      | .ev _ => putTail flow size id cont
      | rp => bad rp
  else putTail flow size id cont

/-- the source loop from its head: `for gap, id in rest: yield env.timeout(gap); …` -/
def srcLoop : List (τ × Int) → Burst τ (DrrSt τ)
  | [] => .ret .none
  | (gap, id) :: rest => .call (.timeout gap .none) fun rp => match rp with
      | .ev e => .yield e (.src (some id) rest)
      | rp => bad rp

/-- `yield self.packets_available.get()` -/
def runWait : Burst τ (DrrSt τ) :=
  .call (.log "idle" .none) fun _ =>                              -- (the call of self.packets_available.get())
  .call (.sget tokStore 0) fun rp => match rp with
    | .ev g => .yield g .runTok
    | rp => bad rp

/-- `packet = yield self.stores[class_id].get()` at entry `m` (class `c`) -/
def runTake (m c : Nat) : Burst τ (DrrSt τ) :=
  .call (.sget (flowStore c) 0) fun rp => match rp with
    | .ev g => .yield g (.runGet m)
    | rp => bad rp

/-- `yield env.process(self.send_packet(packet))` at entry `m` -/
def runServe (id : Int) (m : Nat) : Burst τ (DrrSt τ) :=
  .call (.log "serve" (.int id)) fun _ =>                         -- self.send_packet(packet)
  .call (.spawn (.sendStart id)) fun rp => match rp with          -- yield env.process(…)
    | .ev p => .yield p (.runSend id m)
    | rp => bad rp

/-- `run` holds packet `id` for class `c` at entry `m`: it is sent if the credit covers it, else parked as head of line, which
ends the visit (`next` = the rest of the `for` loop) -/
def gotPkt (flow size : Int → Nat) (next : Burst τ (DrrSt τ)) (m c : Nat) (id : Int) : Burst τ (DrrSt τ) :=
  loadTime (cDef c) fun d =>
  if (Num.ofNat (size id) : τ) ≤ d then                           -- if packet.size <= self.deficit[class_id]:
    .call (.store cCur (.int id)) fun _ =>                        --   self.current_packet = packet
    if flow id = c then runServe id m                             -- assert class_id == self.flow2class(packet.flow_id)
    else .raise assertErr
  else
    if flow id = c then
      .call (.load (cHol c)) fun rp => match rp with              -- assert not class_id in self.head_of_line
        | .val .none =>
          .call (.store (cHol c) (.int id)) fun _ =>              -- self.head_of_line[class_id] = packet
          .call (.log "park" (.int id)) fun _ => next             -- break
        | .val _ => .raise assertErr
        | rp => bad rp
    else .raise assertErr

/-- the inner `while` of entry `m` (class `c`) at its test; `next` = the rest of the `for` loop -/
def innerAt (flow size : Int → Nat) (next : Burst τ (DrrSt τ)) (m c : Nat) : Burst τ (DrrSt τ) :=
  loadTime (cDef c) fun d =>
  loadKey (cCls c) fun n =>
  if Num.zero < d ∧ 0 < n then                                    -- while self.deficit[c] > 0 and self.class_count[c] > 0:
    .call (.load (cHol c)) fun rp => match rp with
      | .val (.int id) =>                                         --   if class_id in self.head_of_line:
        .call (.store (cHol c) .none) fun _ =>                    --     packet = …; del self.head_of_line[class_id]
        gotPkt flow size next m c id
      | .val .none => runTake m c                                 --   else: packet = yield self.stores[class_id].get()
      | rp => bad rp
  else next

/-- the `for` loop over `class_count.items()` from entry `m` on (`ws` = the entries still to visit, the current one first);
`onEnd` = what follows the loop -/
def visitFrom (flow size : Int → Nat) (onEnd : Burst τ (DrrSt τ)) : Nat → List (Nat × Nat) → Burst τ (DrrSt τ)
  | _, [] => onEnd
  | m, (c, _) :: rest =>
    loadKey (cCls c) fun n =>                                     -- for class_id, count in counts:
    if 0 < n then                                                 --   if count > 0:
      loadTime (cDef c) fun d =>
      loadTime (cQuant c) fun q =>
      .call (.store (cDef c) (TimeCell.enc (d + q))) fun _ =>     --     self.deficit[class_id] += self.quantum[class_id]
      .call (.log "visit" (.int c)) fun _ =>
      .call (.log "credit" (TimeCell.enc (d + q))) fun _ =>
      innerAt flow size (visitFrom flow size onEnd (m + 1) rest) m c
    else innerAt flow size (visitFrom flow size onEnd (m + 1) rest) m c

/-- `run` at `while self.total_packets > 0`, with `k` passes of the `for` loop left before the burst counts as a hang -/
def passes (F : Nat) (flow size : Int → Nat) (ws : List (Nat × Nat)) : Nat → Burst τ (DrrSt τ)
  | 0 => .raise hangErr
  | k + 1 =>
    totalPackets F fun tot =>
    if 0 < tot then visitFrom flow size (passes F flow size ws k) 0 ws
    else if tot = 0 then runWait                                  -- if self.total_packets == 0: yield self.packets_available.get()
    else .raise hangErr                                           -- (`while True` again, for ever)

/-- `run` resumes with the packet taken from the store of entry `m` -/
def resumeGot (F : Nat) (flow size : Int → Nat) (ws : List (Nat × Nat)) (P m : Nat) (id : Int) : Burst τ (DrrSt τ) :=
  match ws.drop m with
  | (c, _) :: rest => gotPkt flow size (visitFrom flow size (passes F flow size ws P) (m + 1) rest) m c id
  | [] => .raise typeErr

/-- `run` resumes after the transmission of packet `id` taken at entry `m`: the bookkeeping, then the inner `while` again -/
def resumeDone (F : Nat) (flow size : Int → Nat) (ws : List (Nat × Nat)) (P m : Nat) (id : Int) : Burst τ (DrrSt τ) :=
  match ws.drop m with
  | (c, _) :: rest =>
    addKeyInt (cCls c) (-1) <|                                    -- self.class_count[class_id] -= 1
    loadTime (cDef c) fun d =>
    .call (.store (cDef c) (TimeCell.enc (d - Num.ofNat (size id)))) fun _ =>   -- self.deficit[class_id] -= packet.size
    .call (.log "done" (.int id)) fun _ =>
    .call (.log "credit" (TimeCell.enc (d - Num.ofNat (size id)))) fun _ =>
    loadKey (cCls c) fun n =>
    if n = 0 then                                                 -- if self.class_count[class_id] == 0:
      loadTime (cForf c) fun g =>                                 --   (ghost: the credit that is forgotten)
      .call (.store (cForf c) (TimeCell.enc (g + (d - Num.ofNat (size id))))) fun _ =>
      .call (.store (cDef c) (TimeCell.enc (Num.zero : τ))) fun _ =>            --   self.deficit[class_id] = 0.0
      .call (.log "reset" (.int c)) fun _ =>
      .call (.log "credit" (TimeCell.enc (Num.zero : τ))) fun _ =>
      innerAt flow size (visitFrom flow size (passes F flow size ws P) (m + 1) rest) m c
    else innerAt flow size (visitFrom flow size (passes F flow size ws P) (m + 1) rest) m c
  | [] => .raise typeErr

/-- transmission time `packet.size * 8.0 / self.rate` -/
def txTime (size : Int → Nat) (rate : τ) (id : Int) : τ := Num.ofNat (size id * 8) / rate

/-- `send_packet(packet)` up to its `yield` -/
def sendBegin (size : Int → Nat) (rate : τ) (id : Int) : Burst τ (DrrSt τ) :=
  .call (.store cCur (.int id)) fun _ =>                          -- self.current_packet = packet
  .call (.timeout (txTime size rate id) .none) fun rp => match rp with
    | .ev t => .yield t (.sendTx id)                              -- yield self.env.timeout(packet.size * 8.0 / self.rate)
    | rp => bad rp

/-- `send_packet(packet)` after the transmission delay -/
def sendEnd (flow size : Int → Nat) (id : Int) : Burst τ (DrrSt τ) :=
  addDD (cCount (flow id)) (-1) <|                                -- self.queue_count[flow_id] -= 1
  addDD (cBytes (flow id)) (-(size id : Int)) <|                  -- self.queue_byte_size[flow_id] -= packet.size
  .call (.log "out" (.int id)) fun _ =>                           -- self.out.put(packet)
  .call (.store cCur .none) fun _ =>                              -- self.current_packet = None
  .ret .none

/-- the generator functions as one `K` program; `ws` = `self.class_count.items()` = the `weights` dict in insertion order,
`P` = the bound on the passes of one burst -/
def body (F : Nat) (flow size : Int → Nat) (rate : τ) (ws : List (Nat × Nat)) (P : Nat) :
    DrrSt τ → Resume → Burst τ (DrrSt τ)
  | .src pending rest, _ =>
    match pending with
    | none => srcLoop rest
    | some id => schedPut F flow size id (srcLoop rest)
  | .runStart, _ => passes F flow size ws P
  | .runTok, _ => passes F flow size ws P
  | .runGet m, .value (.int id) => resumeGot F flow size ws P m id
  | .runGet _, _ => .raise typeErr
  | .runSend id m, _ => resumeDone F flow size ws P m id
  | .sendStart id, _ => sendBegin size rate id
  | .sendTx id, _ => sendEnd flow size id

/-- the program of a `DRR(env, rate, weights)` -/
def prog (F : Nat) (flow size : Int → Nat) (cfg : DRR.Cfg τ) (P : Nat) : DrrSt τ → Resume → Burst τ (DrrSt τ) :=
  body F flow size cfg.rate cfg.weights P

/-- the bound on the passes of one burst that suffices for packets of at most `L` bytes -/
def passBound (L : Nat) : Nat := L / 1500 + 2

/-- event ids of the two processes that exist from the start -/
def runProc : EvId := 0
def srcProc : EvId := 2

/-- `DRR.__init__`: the cells of the declared classes, in declaration order (`deficit[c] = 0.0; queue_count[c] = 0;
class_count[c] = 0; quantum[c] = MIN_QUANTUM * weight / min_weight`; `head_of_line` is empty) -/
def classCells (cfg : DRR.Cfg τ) : List (Nat × Nat) → List (Nat × Val)
  | [] => []
  | (c, w) :: rest =>
    (cCount c, .int 0) :: (cBytes c, .int 0) :: (cCls c, .int 0) :: (cDef c, TimeCell.enc (Num.zero : τ)) :: (cHol c, .none) ::
      (cQuant c, TimeCell.enc (DRR.quantumW cfg w)) :: (cForf c, TimeCell.enc (Num.zero : τ)) :: classCells cfg rest

def storeRes : ResRec := { kind := .store, capacity := none }

/-- a fresh environment with the `F + 1` stores, the attributes as `DRR.__init__` leaves them, after
`env.process(self.run(env))` and `env.process(source(...))` -/
def initState (F : Nat) (cfg : DRR.Cfg τ) (arrivals : List (τ × Int)) : KState τ (DrrSt τ) :=
  [Call.spawn DrrSt.runStart, Call.spawn (DrrSt.src none arrivals)].foldl (fun s c => (doCall s 0 c).1)
    { now := Num.zero, resources := (List.replicate (F + 1) storeRes).toArray,
      shared := (cRecv, .int 0) :: (cCur, .none) :: classCells cfg cfg.weights }

/-! ## observations -/

/-- the observations of the property, in the order of the trace -/
inductive HEv (τ : Type) where
  | put (id : Int) (t : τ)
  | serve (id : Int) (t : τ)
  | out (id : Int) (t : τ)
  /-- `run` calls `self.packets_available.get()` -/
  | idle (t : τ)
  /-- `deficit[c] += quantum[c]` -/
  | visit (c : Nat) (t : τ)
  /-- `head_of_line[c] = packet` -/
  | park (id : Int) (t : τ)
  /-- `deficit[c] -= packet.size` after the transmission of `packet` -/
  | done (id : Int) (t : τ)
  /-- `deficit[c] = 0.0` -/
  | reset (c : Nat) (t : τ)

def histOf1 : Obs τ → Option (HEv τ)
  | .log _ w (.int id) now =>
    if w = "put" then some (.put id now) else if w = "serve" then some (.serve id now)
    else if w = "out" then some (.out id now) else if w = "visit" then some (.visit id.toNat now)
    else if w = "park" then some (.park id now) else if w = "done" then some (.done id now)
    else if w = "reset" then some (.reset id.toNat now) else none
  | .log _ w .none now => if w = "idle" then some (.idle now) else none
  | _ => none

def histOf (tr : Array (Obs τ)) : List (HEv τ) := tr.toList.filterMap histOf1

/-- the ids of the `what` observations -/
def idsOf (what : String) (tr : Array (Obs τ)) : List (Int × τ) :=
  tr.toList.filterMap fun
    | .log _ w (.int id) now => if w = what then some (id, now) else none
    | _ => none

/-- the `out.put(packet)` observations / the packets handed to `put` / the service starts -/
def outsOf (tr : Array (Obs τ)) : List (Int × τ) := idsOf "out" tr
def putsOf (tr : Array (Obs τ)) : List (Int × τ) := idsOf "put" tr
def servesOf (tr : Array (Obs τ)) : List (Int × τ) := idsOf "serve" tr

/-! ## the abstraction function -/

/-- value of an attribute cell -/
def cellVal (s : KState τ (DrrSt τ)) (k : Nat) : Val := ((s.shared.find? (·.1 == k)).map (·.2)).getD Val.none

/-- value of an integer attribute cell (0 if unset) -/
def cellInt (s : KState τ (DrrSt τ)) (k : Nat) : Int :=
  match cellVal s k with
  | Val.int n => n
  | _ => 0

/-- value of a scalar attribute cell (0 if unset) -/
def cellTime (s : KState τ (DrrSt τ)) (k : Nat) : τ := (TimeCell.dec (cellVal s k)).getD Num.zero

/-- the packet object behind an id, as the LTS sees it -/
def pktOf (flow size : Int → Nat) (id : Int) : MPkt := { id := id.toNat, flow := flow id, size := size id }

/-- a dict key is inserted at its first use -/
def addKey (l : List Nat) (k : Nat) : List Nat := if l.contains k then l else l ++ [k]

/-- the ids handed to `put` so far -/
def putIds : List (HEv τ) → List Int
  | [] => []
  | .put id _ :: r => id :: putIds r
  | _ :: r => putIds r

/-- the keys of `queue_byte_size` / `stores` in insertion order: the classes in the order of their first `put` -/
def keysOf (flow : Int → Nat) (ids : List Int) : List Nat := ids.foldl (fun l id => addKey l (flow id)) []

/-- the ghost dict `visits` of the LTS: one more for the class at every `visit` observation -/
def visitsOf (h : List (HEv τ)) : List (Nat × Int) :=
  h.foldl (fun m ev => match ev with | .visit c _ => MQ.bump m c 1 | _ => m) []

/-- the ghost dict `sentBytes` of the LTS: the bytes booked per class (`done` observations) -/
def sentOf (flow size : Int → Nat) (h : List (HEv τ)) : List (Nat × Int) :=
  h.foldl (fun m ev => match ev with | .done id _ => MQ.bump m (flow id) (size id) | _ => m) []

/-- the keys of the ghost dict `forfeited` of the LTS: the classes in the order of their first `reset` -/
def forfKeys (h : List (HEv τ)) : List Nat :=
  h.foldl (fun l ev => match ev with | .reset c _ => addKey l c | _ => l) []

/-- the keys of the `hol` list of the LTS: the classes in the order of their first `park` -/
def parkKeys (flow : Int → Nat) (h : List (HEv τ)) : List Nat :=
  h.foldl (fun l ev => match ev with | .park id _ => addKey l (flow id) | _ => l) []

/-- the instant at which the agenda entry of event `t` is due -/
def dueOf (s : KState τ (DrrSt τ)) (t : EvId) : τ :=
  ((s.agenda.find? (·.ev == t)).map (·.time)).getD s.now

/-- where the server loop and its sender stand, read off the process records and the events they wait for -/
def absPhase (flow size : Int → Nat) (s : KState τ (DrrSt τ)) : MQ.Phase τ × DRR.Pc :=
  match s.proc? runProc with
  | some { st := .runTok, target := some g } =>
    if (s.ev g).out.isSome then (.tokenHanded, .top) else (.waitToken, .top)
  | some { st := .runGet m, target := some g } =>
    match (s.ev g).out with
    | some (.ok (.int id)) => (.pktHanded (flow id) (pktOf flow size id), .gotPkt m)
    | _ => (.running, .gotPkt m)
  | some { st := .runSend id m, target := some p } =>
    if (s.ev p).out.isSome then (.finished (pktOf flow size id), .sent m) else
    match s.proc? p with
    | some { st := .sendTx _, target := some t } => (.sending (pktOf flow size id) (dueOf s t), .sent m)
    | _ => (.spawned (pktOf flow size id), .sent m)
  | _ => (.idle, .top)

/-- `head_of_line.get(c)` -/
def holOf (flow size : Int → Nat) (s : KState τ (DrrSt τ)) (c : Nat) : Option MPkt :=
  match cellVal s (cHol c) with
  | .int id => some (pktOf flow size id)
  | _ => none

/-- **abstraction function**: the state of the MultiQueueServer LTS (with the DRR record) a kernel state of this program
stands for, read off the process records, the stores, the attribute cells and (for the key order of the dicts that grow, and
for the two ghost counters `visits`, `sentBytes`) the observations -/
def absDRR (cfg : DRR.Cfg τ) (flow size : Int → Nat) (s : KState τ (DrrSt τ)) : MQ.MQState τ (DRR.Ctl τ) :=
  let hist := histOf s.trace
  let keys := keysOf flow (putIds hist)
  let classes := cfg.weights.map (·.1)
  let ph := absPhase flow size s
  { now := s.now
    ctl := { pc := ph.2
             deficit := classes.map fun c => (c, cellTime s (cDef c))
             classCount := classes.map fun c => (c, cellInt s (cCls c))
             visits := visitsOf hist
             sentBytes := sentOf flow size hist
             forfeited := (forfKeys hist).map fun c => (c, cellTime s (cForf c)) }
    stores := keys.map fun f => (f, (s.res (flowStore f)).items.map (pktOf flow size))
    hol := (parkKeys flow hist).map fun c => (c, holOf flow size s c)
    queueCount := classes.map fun c => (c, cellInt s (cCount c))
    queueBytes := keys.map fun f => (f, cellInt s (cBytes f))
    tokens := (s.res tokStore).items.length
    phase := ph.1
    currentPacket := match cellVal s cCur with
      | .int id => some (pktOf flow size id)
      | _ => none
    received := (cellInt s cRecv).toNat }

/-- the final state of `run()` if it returned, else `none` -/
def finalState (r : RunResult τ (DrrSt τ)) : Option (KState τ (DrrSt τ)) :=
  match r with
  | .returned _ s => some s
  | _ => none

/-! ## the property restated as an oracle over the history of observations

The oracle keeps, per class, the packets handed to `put` and neither sent nor parked yet (with the instant of the `put`), the
parked head-of-line packet, its own copy of the credit and of `class_count` (puts minus booked transmissions), the packet in
transmission, the instant of the last departure, the entry `cur` of `class_count` whose visit is in progress and whether that
visit has ended with a parked head.  It accepts

* `visit c t` only if nothing is in transmission or unbooked, `c` is entry `j` of the declaration order and is backlogged
  (`count > 0`), **the visit in progress is over** (its head was parked, or its credit is not positive, or its class is empty)
  and **every entry the cyclic order passes between the entry after `cur` (entry 0 after an idle period) and `j` is empty**;
  the credit of `c` grows by its quantum `1500·w/min w`;
* `serve id t` only if nothing is in transmission, the class of `id` is the one being visited, its visit is not over and its
  credit is positive, `id` is **the parked head of the class if there is one, else the oldest waiting packet**, and
  `size ≤ credit`; the service starts at the instant of the last departure or at the instant at which every waiting packet
  was put (never idle with a backlog);
* `park id t` under the same conditions but `size > credit`: the packet becomes the parked head, the visit is over;
* `out id t` only if `id` is in transmission since `s` and `t = s + 8·size/rate`;
* `done id t` only for the packet that has just left: `credit −= size`, `count −= 1`; if the class is empty now the next
  observation must be `reset c`, which zeroes the credit, and `reset` is accepted only then;
* `idle t` only if nothing waits, is parked, is in transmission or unbooked. -/

/-- `a = b` on times, through `<` -/
def eqT (a b : τ) : Prop := ¬ a < b ∧ ¬ b < a

instance (a b : τ) : Decidable (eqT a b) := by unfold eqT; infer_instance

structure OSt (τ : Type) where
  /-- per class: the packets handed to `put` and neither sent nor parked yet, with the instant of the `put`, oldest first -/
  waiting : Nat → List (Int × τ)
  /-- per class: the parked head-of-line packet with the instant of its `put` -/
  parked : Nat → Option (Int × τ)
  /-- the packet in transmission with the instant its service started -/
  busy : Option (Int × τ)
  /-- the instant of the last departure -/
  lastOut : Option τ
  /-- the credit of each class -/
  credit : Nat → τ
  /-- packets of each class put and not yet booked -/
  count : Nat → Int
  /-- the entry of `class_count` whose visit is in progress -/
  cur : Option Nat
  /-- that visit has ended with a parked head -/
  closed : Bool
  /-- the packet that has left and is not booked yet -/
  toBook : Option Int
  /-- the class that has just emptied -/
  toReset : Option Nat

/-- nothing has happened yet -/
def oInit : OSt τ :=
  { waiting := fun _ => [], parked := fun _ => none, busy := none, lastOut := none, credit := fun _ => Num.zero,
    count := fun _ => 0, cur := none, closed := false, toBook := none, toReset := none }

/-- `w[f] := l` -/
def setQ {β : Type} (w : Nat → β) (f : Nat) (l : β) : Nat → β := fun x => if x = f then l else w x

/-- the entries the cyclic order visits from entry `c` before it reaches entry `j` (`n` = the number of entries) -/
def skipped (n c j : Nat) : List Nat := if c ≤ j then List.range' c (j - c) else List.range' c (n - c) ++ List.range j

/-- class and weight of entry `j` of `weights`, the entry of a class -/
def flowAt (ws : List (Nat × Nat)) (j : Nat) : Nat := (ws.getD j (0, 0)).1
def weightAt (ws : List (Nat × Nat)) (j : Nat) : Nat := (ws.getD j (0, 0)).2
def posOf (ws : List (Nat × Nat)) (f : Nat) : Nat := (ws.map (·.1)).idxOf f

/-- the entry the `for` loop looks at next -/
def nextOf (o : OSt τ) : Nat :=
  match o.cur with
  | some j => j + 1
  | none => 0

/-- the last departure was at `t` -/
def lastIs : Option τ → τ → Prop
  | some d, t => eqT d t
  | none, _ => False

instance (o : Option τ) (t : τ) : Decidable (lastIs o t) := by
  cases o <;> unfold lastIs <;> infer_instance

/-- nothing is in transmission, unbooked or about to be reset -/
def Quiet (o : OSt τ) : Prop := o.busy.isNone = true ∧ o.toBook.isNone = true ∧ o.toReset.isNone = true

instance (o : OSt τ) : Decidable (Quiet o) := by unfold Quiet; infer_instance

/-- the visit in progress is over -/
def VisitOver (ws : List (Nat × Nat)) (o : OSt τ) : Prop :=
  match o.cur with
  | some j => o.closed = true ∨ ¬ Num.zero < o.credit (flowAt ws j) ∨ ¬ 0 < o.count (flowAt ws j)
  | none => True

instance (ws : List (Nat × Nat)) (o : OSt τ) : Decidable (VisitOver ws o) := by
  unfold VisitOver
  cases o.cur <;> infer_instance

/-- what the property demands when the credit of class `c` grows by its quantum -/
def VisitOK (ws : List (Nat × Nat)) (o : OSt τ) (c : Nat) : Prop :=
  Quiet o ∧ posOf ws c < ws.length ∧ 0 < o.count c ∧ VisitOver ws o ∧
  ∀ j' ∈ skipped ws.length (nextOf o) (posOf ws c), ¬ 0 < o.count (flowAt ws j')

instance (ws : List (Nat × Nat)) (o : OSt τ) (c : Nat) : Decidable (VisitOK ws o c) := by unfold VisitOK; infer_instance

/-- `id` is the head of its class: the parked packet if there is one, else the oldest waiting packet -/
def IsHead (flow : Int → Nat) (o : OSt τ) (id : Int) : Prop :=
  match o.parked (flow id) with
  | some x => x.1 = id
  | none => (o.waiting (flow id)).head?.map (·.1) = some id

instance (flow : Int → Nat) (o : OSt τ) (id : Int) : Decidable (IsHead flow o id) := by
  unfold IsHead
  cases o.parked (flow id) <;> infer_instance

/-- the class of `id` is being visited, the visit goes on, `id` is its head; at the instant of the last departure or of the
`put` of everything that waits -/
def TakeOK (F : Nat) (flow : Int → Nat) (ws : List (Nat × Nat)) (o : OSt τ) (id : Int) (t : τ) : Prop :=
  Quiet o ∧ o.cur = some (posOf ws (flow id)) ∧ posOf ws (flow id) < ws.length ∧ o.closed = false ∧
  Num.zero < o.credit (flow id) ∧ IsHead flow o id ∧
  (lastIs o.lastOut t ∨ ∀ f ∈ List.range F, (∀ x ∈ o.waiting f, eqT x.2 t) ∧ ∀ x ∈ (o.parked f).toList, eqT x.2 t)

instance (F : Nat) (flow : Int → Nat) (ws : List (Nat × Nat)) (o : OSt τ) (id : Int) (t : τ) :
    Decidable (TakeOK F flow ws o id t) := by unfold TakeOK; infer_instance

/-- the head packet `id` of its class leaves the waiting packets (it is sent, or becomes the parked head) -/
def takeHead (flow : Int → Nat) (o : OSt τ) (id : Int) : OSt τ × Option (Int × τ) :=
  match o.parked (flow id) with
  | some x => ({ o with parked := setQ o.parked (flow id) none }, some x)
  | none => ({ o with waiting := setQ o.waiting (flow id) (o.waiting (flow id)).tail }, (o.waiting (flow id)).head?)

/-- what the property demands when packet `id` is handed to `out.put` at instant `t` -/
def OutOK (size : Int → Nat) (rate : τ) (o : OSt τ) (id : Int) (t : τ) : Prop :=
  match o.busy with
  | some (id', s) => id' = id ∧ eqT t (s + txTime size rate id) ∧ o.toBook.isNone = true ∧ o.toReset.isNone = true
  | none => False

instance (size : Int → Nat) (rate : τ) (o : OSt τ) (id : Int) (t : τ) : Decidable (OutOK size rate o id t) := by
  unfold OutOK
  cases o.busy with
  | none => infer_instance
  | some x => cases x; infer_instance

/-- what the property demands when the loop goes idle: nothing in the system -/
def IdleOK (F : Nat) (o : OSt τ) : Prop :=
  Quiet o ∧ ∀ f ∈ List.range F, (o.waiting f).isEmpty = true ∧ (o.parked f).isNone = true

instance (F : Nat) (o : OSt τ) : Decidable (IdleOK F o) := by unfold IdleOK; infer_instance

/-- the quantum of a class: `1500 · weight / min weight` -/
def quantumOf (cfg : DRR.Cfg τ) (c : Nat) : τ := DRR.quantumW cfg (weightAt cfg.weights (posOf cfg.weights c))

/-- one observation -/
def ostep (F : Nat) (flow size : Int → Nat) (cfg : DRR.Cfg τ) (o : OSt τ) : HEv τ → Option (OSt τ)
  | .put id t =>
    if o.toReset.isNone then
      some { o with waiting := setQ o.waiting (flow id) (o.waiting (flow id) ++ [(id, t)]),
                    count := setQ o.count (flow id) (o.count (flow id) + 1) }
    else none
  | .visit c _ =>
    if VisitOK cfg.weights o c then
      some { o with credit := setQ o.credit c (o.credit c + quantumOf cfg c), cur := some (posOf cfg.weights c), closed := false }
    else none
  | .serve id t =>
    if TakeOK F flow cfg.weights o id t ∧ (Num.ofNat (size id) : τ) ≤ o.credit (flow id) then
      some { (takeHead flow o id).1 with busy := some (id, t) }
    else none
  | .park id t =>
    if TakeOK F flow cfg.weights o id t ∧ ¬ (Num.ofNat (size id) : τ) ≤ o.credit (flow id) then
      some { (takeHead flow o id).1 with parked := setQ (takeHead flow o id).1.parked (flow id) (takeHead flow o id).2, closed := true }
    else none
  | .out id t => if OutOK size cfg.rate o id t then some { o with busy := none, lastOut := some t, toBook := some id } else none
  | .done id _ =>
    if o.toBook = some id ∧ o.toReset.isNone = true then
      some { o with credit := setQ o.credit (flow id) (o.credit (flow id) - Num.ofNat (size id)),
                    count := setQ o.count (flow id) (o.count (flow id) - 1), toBook := none,
                    toReset := if o.count (flow id) - 1 = 0 then some (flow id) else none }
    else none
  | .reset c _ =>
    if o.toReset = some c then some { o with credit := setQ o.credit c Num.zero, toReset := none } else none
  | .idle _ => if IdleOK F o then some { o with cur := none, closed := false } else none

/-- a history -/
def orun (F : Nat) (flow size : Int → Nat) (cfg : DRR.Cfg τ) : OSt τ → List (HEv τ) → Option (OSt τ)
  | o, [] => some o
  | o, ev :: r => (ostep F flow size cfg o ev).bind fun o' => orun F flow size cfg o' r

/-- everything has been served: nothing waits, is parked, is in transmission or unbooked -/
def drained (F : Nat) (o : OSt τ) : Bool :=
  o.busy.isNone && o.toBook.isNone && o.toReset.isNone &&
    (List.range F).all fun f => (o.waiting f).isEmpty && (o.parked f).isNone

/-- the arrival instants of a workload: packet `k` arrives at the sum of the first `k + 1` gaps -/
def arrivalsFrom (t : τ) : List (τ × Int) → List (Int × τ)
  | [] => []
  | (gap, id) :: r => (id, t + gap) :: arrivalsFrom (t + gap) r

/-! ## label inference and an executable refinement check (used by the `example`s of `Props/C15KD.lean`)

`Props/C15KD.lean` proves that every kernel step is an action sequence the LTS accepts between the abstractions of the two
states.  The functions below *compute* such a sequence from the two abstractions (as `harness/mq.py` does from the public
attributes of the real scheduler) and replay it through the LTS, so that concrete runs can be checked by evaluation. -/

/-- the LTS actions of one kernel step, read off the abstractions before and after it and the packets `put` in it -/
def inferActs (pre post : MQ.MQState τ (DRR.Ctl τ)) (newPuts : List MPkt) : List (MQ.MAct τ) :=
  (if pre.now < post.now then [MQ.MAct.tick post.now] else []) ++
  (newPuts.map fun p => MQ.MAct.put p) ++
  (match pre.phase, post.phase with
   | .idle, .idle => []
   | .idle, _ => [.init]
   | .waitToken, .tokenHanded => [.tokenHandoff]
   | .tokenHanded, .tokenHanded => if post.tokens < pre.tokens then [.wake] else []
   | .tokenHanded, _ => [.wake]
   | .pktHanded c p, .pktHanded c' p' => if c = c' ∧ p = p' then [] else [.pktResume]
   | .pktHanded _ _, _ => [.pktResume]
   | .spawned _, .sending _ _ => [.sendInit]
   | .sending _ _, .finished _ => [.sendFire]
   | .finished _, .finished _ => []
   | .finished _, _ => [.sendDone]
   | _, _ => [])

def samePhase : MQ.Phase τ → MQ.Phase τ → Bool
  | .idle, .idle => true
  | .running, .running => true
  | .waitToken, .waitToken => true
  | .tokenHanded, .tokenHanded => true
  | .pktHanded c p, .pktHanded c' p' => decide (c = c' ∧ p = p')
  | .spawned p, .spawned p' => decide (p = p')
  | .sending p d, .sending p' d' => decide (p = p') && Num.eqb d d'
  | .finished p, .finished p' => decide (p = p')
  | _, _ => false

/-- equality of dicts with scalar values -/
def sameDict : List (Nat × τ) → List (Nat × τ) → Bool
  | [], [] => true
  | (k, v) :: r, (k', v') :: r' => decide (k = k') && Num.eqb v v' && sameDict r r'
  | _, _ => false

def sameCtl (a b : DRR.Ctl τ) : Bool :=
  decide (a.pc = b.pc) && sameDict a.deficit b.deficit && decide (a.classCount = b.classCount) &&
  decide (a.visits = b.visits) && decide (a.sentBytes = b.sentBytes) && sameDict a.forfeited b.forfeited

/-- equality of LTS states, field by field -/
def sameState (a b : MQ.MQState τ (DRR.Ctl τ)) : Bool :=
  Num.eqb a.now b.now && sameCtl a.ctl b.ctl && decide (a.stores = b.stores) && decide (a.hol = b.hol) &&
  decide (a.queueCount = b.queueCount) && decide (a.queueBytes = b.queueBytes) && decide (a.tokens = b.tokens) &&
  samePhase a.phase b.phase && decide (a.currentPacket = b.currentPacket) && decide (a.received = b.received)

/-- run a list of actions through the LTS -/
def runLts (sc : MQ.Sched τ (DRR.Ctl τ)) : MQ.MQState τ (DRR.Ctl τ) → List (MQ.MAct τ) → Except String (MQ.MQState τ (DRR.Ctl τ))
  | s, [] => .ok s
  | s, a :: as =>
    match MQ.step sc s a with
    | .ok (s', _) => runLts sc s' as
    | .error m => .error m

/-- run the kernel model for at most `n` steps from `s`; after every step replay the inferred actions through the LTS from
`absDRR` of the state before and compare with `absDRR` of the state after.  `some k`: the agenda ran empty after `k` steps and
every step was accepted and commuted; `none`: a step crashed, was rejected, did not commute, or the budget ran out -/
def refineCheck (F : Nat) (flow size : Int → Nat) (cfg : DRR.Cfg τ) (P : Nat) : Nat → KState τ (DrrSt τ) → Nat → Option Nat
  | 0, _, _ => none
  | n + 1, s, k =>
    match step (prog F flow size cfg P) 1 s with
    | .ok s' =>
      let newPuts := ((putIds (histOf s'.trace)).drop (putIds (histOf s.trace)).length).map (pktOf flow size)
      match runLts (DRR.sched cfg) (absDRR cfg flow size s) (inferActs (absDRR cfg flow size s) (absDRR cfg flow size s') newPuts) with
      | .ok m => if sameState m (absDRR cfg flow size s') then refineCheck F flow size cfg P n s' (k + 1) else none
      | .error _ => none
    | .empty => some k
    | _ => none

end DRROnK
