import OnlVerif.Net.Route
/-!
# A tiny effect language for translated `put()` bodies

`py2lean/route.py` turns the source of `FlowDemux.put`, `FIBDemux.put` and `Splitter.put` into terms of this language
(`OnlVerif/Generated/Route.lean`).  An `Eff α` computation threads the deliveries made so far and the copy counter, and
may end in a Python exception; deliveries made before an exception are kept in the state (as in Python), `run` reports
the exception alone.  Imports only the dispatch model (for `Pkt`, `PyErr`, `pyIndex`, `dget`).
-/

namespace Route.Py

structure St where
  ds : List Delivery := []
  fresh : Nat := 1

def Eff (α : Type) := St → Except PyErr α × St

namespace Eff
variable {α β : Type}

def pure (a : α) : Eff α := fun s => (.ok a, s)

def bind (m : Eff α) (f : α → Eff β) : Eff β := fun s =>
  match m s with
  | (.ok a, s') => f a s'
  | (.error e, s') => (.error e, s')

/-- statement sequencing -/
def seq (m n : Eff Unit) : Eff Unit := bind m fun _ => n

/-- `pass`, a counter update, a `print` -/
def skip : Eff Unit := pure ()

def raise (e : PyErr) : Eff α := fun s => (.error e, s)

/-- `assert b` -/
def assert (b : Bool) : Eff Unit := if b then skip else raise .assertionError

/-- `try: m except (handled…): h` -/
def tryCatch (m : Eff Unit) (handled : List PyErr) (h : Eff Unit) : Eff Unit := fun s =>
  match m s with
  | (.error e, s') => if e ∈ handled then h s' else (.error e, s')
  | r => r

/-- `dev.put(packet)` -/
def put (d : Dev) (p : Pkt) : Eff Unit := fun s => (.ok (), { s with ds := s.ds ++ [(d, p.ref)] })

/-- `x.put(packet)` where `x` may be `None` -/
def putOpt (d : Option Dev) (p : Pkt) : Eff Unit :=
  match d with
  | some d => put d p
  | none => raise .attributeError

/-- `copy(packet)` -/
def copy (p : Pkt) : Eff Pkt := fun s =>
  (.ok { p with ref := { id := p.ref.id, copy := s.fresh } }, { s with fresh := s.fresh + 1 })

/-- `l[i]` on a list -/
def index (l : List α) (i : Int) : Eff α :=
  match pyIndex l i with
  | some a => pure a
  | none => raise .indexError

/-- `l[i]` where `l` may be `None` -/
def indexOpt (l : Option (List α)) (i : Int) : Eff α :=
  match l with
  | some l => index l i
  | none => raise .typeError

/-- `d[k]` on a dict -/
def item (d : List (Int × β)) (k : Int) : Eff β :=
  match dget d k with
  | some v => pure v
  | none => raise .keyError

/-- `d[k]` where `d` may be `None` -/
def itemOpt (d : Option (List (Int × β))) (k : Int) : Eff β :=
  match d with
  | some d => item d k
  | none => raise .typeError

/-- what one `put()` handed downstream, or the exception that left it -/
def run (m : Eff Unit) (fresh : Nat) : Result :=
  match m { ds := [], fresh } with
  | (.ok _, s) => .ok s.ds
  | (.error e, _) => .error e

end Eff

/-- truthiness of `None`-or-device -/
def truthyOpt {α : Type} (o : Option α) : Bool := o.isSome

/-- truthiness of `None`-or-list -/
def truthyOptList {α : Type} (o : Option (List α)) : Bool :=
  match o with
  | some (_ :: _) => true
  | _ => false

/-- `len(l)` -/
def pyLen {α : Type} (l : List α) : Int := (l.length : Int)

/-- `k in d` -/
def pyIn {β : Type} (k : Int) (d : List (Int × β)) : Bool := (dget d k).isSome

end Route.Py
