import OnlVerif.Kernel.Step
import OnlVerif.Kernel.TimeCell
import OnlVerif.Net.TwoRate
/-!
# The two-rate token bucket as a process *on the kernel model `K`*

`OnlVerif/Net/TwoRate.lean` describes `onl.netdev.TwoRateTokenBucket` as an instance of the FifoServer LTS (model `E`), whose
admissibility rules *assume* what the kernel guarantees.  This file writes the same device as a program of the kernel
model (`OnlVerif/Kernel`), with the encoding of `OnlVerif/Net/TBOnK.lean`: the generator `TwoRateTokenBucket.run` and a
packet source that calls `TwoRateTokenBucket.put` are `Burst` programs, the `Store` of the shaper is a `Store` resource of
`K`, and nothing is assumed about scheduling.  `OnlVerif/Props/C11K2.lean` proves that every run of this program is an
admissible run of the LTS (refinement) and that its `out.put` observations follow the recurrence and the colour rule of C11.

```python
def run(self, env):                                                   def put(self, packet):
    while True:                                                           self.packets_received += 1
        packet = yield self.store.get()                                   self.store.put(packet)
        now = env.now
        self.current_bucket_commit = min(self.cbs,
            self.current_bucket_commit + self.cir * (now - self.update_time) / 8.0)
        if self.pir:
            assert self.pbs
            self.current_bucket_peak = min(self.pbs,
                self.current_bucket_peak + self.pir * (now - self.update_time) / 8.0)
        self.update_time = now
        if self.pir:
            assert self.current_bucket_peak is not None
            if packet.size > self.current_bucket_peak:
                yield env.timeout((packet.size - self.current_bucket_peak) * 8.0 / self.pir)
                self.current_bucket_peak = 0.0;  packet.color = "red";  self.update_time = env.now
            elif packet.size > self.current_bucket_commit:
                self.current_bucket_peak -= packet.size
                self.current_bucket_commit = 0.0;  packet.color = "yellow";  self.update_time = env.now
            else:
                self.current_bucket_commit -= packet.size
                self.current_bucket_peak -= packet.size;  packet.color = "green";  self.update_time = env.now
        else:
            if packet.size > self.current_bucket_commit:
                yield env.timeout((packet.size - self.current_bucket_commit) * 8.0 / self.cir)
                self.current_bucket_commit = 0.0;  packet.color = "yellow";  self.update_time = env.now
            else:
                self.current_bucket_commit -= packet.size;  packet.color = "green";  self.update_time = env.now
        assert self.out
        self.out.put(packet)
        self.packets_sent += 1
```

Encoding (modelling devices, all of them; the first six are those of `TBOnK.lean`):

* the `k`-th packet handed to `put` has id `k`, `size : Int → Nat` gives `packet.size`; the store is resource `0` (unbounded
  `Store`); an `out` is attached (`assert self.out` holds);
* the attributes live in the shared cells of `K`: cell 0 = `packets_received`, 1 = `packets_sent`, 2 = `current_bucket_commit`,
  3 = `update_time`, 4 = `current_bucket_peak` (the last three through the codec `TimeCell`; cell 4 holds `Val.none` when
  `pbs` is `None`, and reading a number out of it then raises `TypeError`, as `None + float` does);
* both `assert`s are in the program: `assert self.pbs` raises `AssertionError` when `pbs` is `None` or `0`;
  `assert self.current_bucket_peak is not None` comes directly after the assignment of a number to that attribute;
* `self.out.put(packet)` is the observation `log "out" (id, colour)` — the pair is the value `outVal id colour` (`Val` has no
  pair constructor; the three-number constructor `Val.preempted` is used, as for the `TimeCell` of rationals), colours
  1 green, 2 yellow, 3 red as in `Net/Fifo.lean`; the call of `put` is the observation `log "put" (int id)` (each recorded
  with `env.now` in `KState.trace`);
* `K` has no call that reads `env.now`: every generator carries the instant of its next resumption in its local state; `put`
  records its instant in the *ghost* cell `10 + k` of packet `k`, so `env.now` after the `get` is
  `max(instant of the get call, instant of the put)`.  That these are `env.now` whenever the generator runs is part of the
  proved invariant; the observations record the kernel's own clock;
* the source is the process `for gap in arrivals: yield env.timeout(gap); shaper.put(packet)`.
-/

/-- local states of the two generator functions (where each one is suspended, the instant it resumes at) -/
inductive TrS (τ : Type) where
  /-- the source: resumes at `now` (not started / after the sleep before the `put` of packet `next`); `pending` = that `put`
  is due; then the gaps still to come -/
  | src (now : τ) (pending : Bool) (next : Nat) (rest : List τ)
  /-- `run` not started (created at `now`) -/
  | bStart (now : τ)
  /-- `run` suspended in `packet = yield self.store.get()`, called at `now` -/
  | bGet (now : τ)
  /-- `run` suspended in the wait for tokens (peak tokens with PIR, committed tokens without) holding packet `id`, due at
  `wake` -/
  | bTok (id : Int) (wake : τ)

namespace TwoRateOnK
variable {τ : Type} [Num τ] [TimeCell τ]

def storeId : Nat := 0
def cRecv : Nat := 0
def cSent : Nat := 1
def cCommit : Nat := 2
def cUpd : Nat := 3
def cPeak : Nat := 4
/-- the ghost cell holding the instant of the `put` of packet `id` -/
def cStamp (id : Int) : Nat := 10 + id.toNat

def typeErr : Exc := ⟨"TypeError", []⟩
def assertErr : Exc := ⟨"AssertionError", []⟩

/-- the packet with its colour, as handed to `out.put`: the pair (id, colour) -/
def outVal (id : Int) (col : Nat) : Val := .preempted (some col) id.toNat 0

/-- what a program does with a reply it cannot use (never happens in the runs of this program) -/
def bad : Reply → Burst τ (TrS τ)
  | .err x => .raise x
  | _ => .raise typeErr

def loadInt (k : Nat) (cont : Int → Burst τ (TrS τ)) : Burst τ (TrS τ) :=
  .call (.load k) fun rp => match rp with
    | .val (.int n) => cont n
    | rp => bad rp

def loadTime (k : Nat) (cont : τ → Burst τ (TrS τ)) : Burst τ (TrS τ) :=
  .call (.load k) fun rp => match rp with
    | .val v => (match TimeCell.dec v with
      | some x => cont x
      | none => .raise typeErr)
    | rp => bad rp

/-- the packet object behind an id, as the LTS sees it -/
def pktOf (size : Int → Nat) (id : Int) : Pkt τ := { id := id.toNat, flow := 0, size := size id, ctime := Num.zero, draw := Num.zero }

/-- what an optional number is kept as in a cell -/
def encOpt : Option τ → Val
  | some x => TimeCell.enc x
  | none => .none

/-- `TwoRateTokenBucket.put(packet)` at instant `now`, followed by `cont` -/
def trPut (now : τ) (id : Int) (cont : Burst τ (TrS τ)) : Burst τ (TrS τ) :=
  loadInt cRecv fun n =>
  .call (.store cRecv (.int (n + 1))) fun _ =>                  -- self.packets_received += 1
  .call (.log "put" (.int id)) fun _ =>
  .call (.store (cStamp id) (TimeCell.enc now)) fun _ =>        --   (ghost: the instant of this put)
  .call (.sput storeId id) fun _ =>                             -- self.store.put(packet)
  cont

/-- the source loop from its head at instant `now`: `for gap in rest: yield env.timeout(gap); …` -/
def srcLoop (now : τ) (next : Nat) : List τ → Burst τ (TrS τ)
  | [] => .ret .none
  | gap :: rest => .call (.timeout gap .none) fun rp => match rp with
      | .ev e => .yield e (.src (now + gap) true next rest)
      | rp => bad rp

/-- `packet = yield self.store.get()` at instant `now` -/
def trLoop (now : τ) : Burst τ (TrS τ) :=
  .call (.sget storeId 0) fun rp => match rp with
    | .ev g => .yield g (.bGet now)
    | rp => bad rp

/-- `self.out.put(packet); self.packets_sent += 1` at instant `now` for the packet painted `col`, then the loop -/
def trOut (now : τ) (id : Int) (col : Nat) : Burst τ (TrS τ) :=
  .call (.log "out" (outVal id col)) fun _ =>                   -- self.out.put(packet)
  loadInt cSent fun n =>
  .call (.store cSent (.int (n + 1))) fun _ =>                  -- self.packets_sent += 1
  trLoop now

/-- the second `if self.pir:` with PIR `k`, after both refills (`cm`, `pk` = the refilled levels) -/
def trDecidePir (size : Int → Nat) (k : τ) (now : τ) (id : Int) (cm pk : τ) : Burst τ (TrS τ) :=
  if pk < Num.ofNat (size id) then                              -- if packet.size > self.current_bucket_peak:
    .call (.timeout (TwoRate.tokenWait pk k (pktOf size id)) .none) fun rp => match rp with
      | .ev t => .yield t (.bTok id (now + TwoRate.tokenWait pk k (pktOf size id)))
      | rp => bad rp
  else if cm < Num.ofNat (size id) then                         -- elif packet.size > self.current_bucket_commit:
    .call (.store cPeak (TimeCell.enc (pk - Num.ofNat (size id)))) fun _ =>   -- self.current_bucket_peak -= packet.size
    .call (.store cCommit (TimeCell.enc (Num.zero : τ))) fun _ =>             -- self.current_bucket_commit = 0.0
    .call (.store cUpd (TimeCell.enc now)) fun _ =>                           -- self.update_time = env.now
    trOut now id TwoRate.yellow                                               --   (packet.color = "yellow")
  else
    .call (.store cCommit (TimeCell.enc (cm - Num.ofNat (size id)))) fun _ => -- self.current_bucket_commit -= packet.size
    .call (.store cPeak (TimeCell.enc (pk - Num.ofNat (size id)))) fun _ =>   -- self.current_bucket_peak -= packet.size
    .call (.store cUpd (TimeCell.enc now)) fun _ =>                           -- self.update_time = env.now
    trOut now id TwoRate.green                                                --   (packet.color = "green")

/-- the `else:` of the second `if self.pir:` (`cm` = the refilled committed level) -/
def trDecideCir (size : Int → Nat) (cfg : TrCfg τ) (now : τ) (id : Int) (cm : τ) : Burst τ (TrS τ) :=
  if cm < Num.ofNat (size id) then                              -- if packet.size > self.current_bucket_commit:
    .call (.timeout (TwoRate.tokenWait cm cfg.cir (pktOf size id)) .none) fun rp => match rp with
      | .ev t => .yield t (.bTok id (now + TwoRate.tokenWait cm cfg.cir (pktOf size id)))
      | rp => bad rp
  else
    .call (.store cCommit (TimeCell.enc (cm - Num.ofNat (size id)))) fun _ => -- self.current_bucket_commit -= packet.size
    .call (.store cUpd (TimeCell.enc now)) fun _ =>                           -- self.update_time = env.now
    trOut now id TwoRate.green                                                --   (packet.color = "green")

/-- `run` from the point where `store.get()` has delivered packet `id`; `t0` = the instant `get` was called at -/
def trServe (size : Int → Nat) (cfg : TrCfg τ) (t0 : τ) (id : Int) : Burst τ (TrS τ) :=
  loadTime (cStamp id) fun ct =>
  let now := Num.pymax t0 ct                                    -- now = env.now (see the header)
  loadTime cCommit fun c0 =>
  loadTime cUpd fun up =>
  let cm := TwoRate.refillLevel cfg.cbs c0 cfg.cir up now
  .call (.store cCommit (TimeCell.enc cm)) fun _ =>             -- self.current_bucket_commit = min(self.cbs, …)
  match TwoRate.pirOn cfg with                                  -- if self.pir:
  | some k =>
    match TwoRate.pbsOn cfg with
    | none => .raise assertErr                                  --   assert self.pbs
    | some b =>
      loadTime cPeak fun pl =>                                  --   (TypeError when current_bucket_peak is None)
      let pk := TwoRate.refillLevel b pl k up now
      .call (.store cPeak (TimeCell.enc pk)) fun _ =>           --   self.current_bucket_peak = min(self.pbs, …)
      .call (.store cUpd (TimeCell.enc now)) fun _ =>           -- self.update_time = now
      trDecidePir size k now id cm pk                           -- if self.pir: assert … is not None (a number was just assigned)
  | none =>
    .call (.store cUpd (TimeCell.enc now)) fun _ =>             -- self.update_time = now
    trDecideCir size cfg now id cm

/-- `run` after the wait for tokens, at instant `now` -/
def trAfterTok (cfg : TrCfg τ) (now : τ) (id : Int) : Burst τ (TrS τ) :=
  match TwoRate.pirOn cfg with
  | some _ =>
    .call (.store cPeak (TimeCell.enc (Num.zero : τ))) fun _ => -- self.current_bucket_peak = 0.0
    .call (.store cUpd (TimeCell.enc now)) fun _ =>             -- self.update_time = env.now
    trOut now id TwoRate.red                                    --   (packet.color = "red")
  | none =>
    .call (.store cCommit (TimeCell.enc (Num.zero : τ))) fun _ =>   -- self.current_bucket_commit = 0.0
    .call (.store cUpd (TimeCell.enc now)) fun _ =>             -- self.update_time = env.now
    trOut now id TwoRate.yellow                                 --   (packet.color = "yellow")

/-- the two generator functions as one `K` program -/
def body (size : Int → Nat) (cfg : TrCfg τ) : TrS τ → Resume → Burst τ (TrS τ)
  | .src now pending next rest, _ =>
    if pending then trPut now (next : Int) (srcLoop now (next + 1) rest) else srcLoop now next rest
  | .bStart now, _ => trLoop now
  | .bGet t0, .value (.int id) => trServe size cfg t0 id
  | .bGet _, _ => .raise typeErr
  | .bTok id now, _ => trAfterTok cfg now id

/-- event ids of the two processes -/
def trProc : EvId := 0
def srcProc : EvId := 2

/-- a fresh environment at instant 0 with the shaper's `Store`, after `TwoRateTokenBucket.__init__` (both buckets start
full, `update_time = 0.0`, `env.process(self.run(env))`) and `env.process(source(...))` -/
def initState (cfg : TrCfg τ) (arrivals : List τ) : KState τ (TrS τ) :=
  [Call.spawn (TrS.bStart Num.zero), Call.spawn (TrS.src Num.zero false 0 arrivals)].foldl (fun s c => (doCall s 0 c).1)
    { now := Num.zero, resources := #[{ kind := .store, capacity := none }],
      shared := [(cRecv, .int 0), (cSent, .int 0), (cCommit, TimeCell.enc cfg.cbs), (cUpd, TimeCell.enc (Num.zero : τ)),
                 (cPeak, encOpt cfg.pbs)] }

/-! ## observations -/

/-- the two kinds of observation of the property, in the order of the trace -/
inductive HEv (τ : Type) where
  | put (id : Int) (t : τ)
  | out (id : Int) (col : Nat) (t : τ)

def histOf1 : Obs τ → Option (HEv τ)
  | .log _ w (.int id) now => if w = "put" then some (.put id now) else none
  | .log _ w (.preempted (some c) i _) now => if w = "out" then some (.out (i : Int) c now) else none
  | _ => none

def histOf (tr : Array (Obs τ)) : List (HEv τ) := tr.toList.filterMap histOf1

/-- the `out.put(packet)` observations of a trace: `(id, colour, env.now)` in order -/
def outsOf (tr : Array (Obs τ)) : List (Int × Nat × τ) :=
  (histOf tr).filterMap fun | .out id c t => some (id, c, t) | _ => none

/-! ## the decision of `run` for the packet at the head, as a function of the two levels

`verdict` is what `run` does with a packet of the given size when it takes it at `now`, the committed and peak levels being
`cm0`, `pk0` (`none` = `None`) and `update_time` being `upd`: it either waits `dt` (levels after the refill) or forwards the
packet at once with a colour (levels after the debit), or an `assert` / the arithmetic on `None` fails. -/

inductive Dec (τ : Type) where
  | wait (dt cm : τ) (pk : Option τ)
  | emit (col : Nat) (cm : τ) (pk : Option τ)

def verdict (cfg : TrCfg τ) (cm0 : τ) (pk0 : Option τ) (upd now : τ) (p : Pkt τ) : Except String (Dec τ) :=
  let cm := TwoRate.refillLevel cfg.cbs cm0 cfg.cir upd now
  match TwoRate.pirOn cfg with
  | some k =>
    match TwoRate.pbsOn cfg, pk0 with
    | some b, some pl =>
      let pk := TwoRate.refillLevel b pl k upd now
      if pk < Num.ofNat p.size then .ok (.wait (TwoRate.tokenWait pk k p) cm (some pk))
      else if cm < Num.ofNat p.size then .ok (.emit TwoRate.yellow Num.zero (some (pk - Num.ofNat p.size)))
      else .ok (.emit TwoRate.green (cm - Num.ofNat p.size) (some (pk - Num.ofNat p.size)))
    | none, _ => .error "AssertionError"
    | some _, none => .error "TypeError"
  | none =>
    if cm < Num.ofNat p.size then .ok (.wait (TwoRate.tokenWait cm cfg.cir p) cm pk0)
    else .ok (.emit TwoRate.green (cm - Num.ofNat p.size) pk0)

/-- colour and levels when the wait is over: with PIR the peak bucket is emptied and the packet is red, without the
committed bucket is emptied and the packet is yellow -/
def afterWait (cfg : TrCfg τ) (cm : τ) (pk : Option τ) : Nat × τ × Option τ :=
  match TwoRate.pirOn cfg with
  | some _ => (TwoRate.red, cm, some Num.zero)
  | none => (TwoRate.yellow, Num.zero, pk)

/-! ## the recurrence and the colour rule of C11 as an oracle over the `put` / `out` history

The oracle keeps the packets handed to `put` and not yet forwarded (with the instant of the `put`), the two levels and the
instant they were last updated, and the instant of the last departure.  It accepts `out id colour t` only if `id` is the
oldest waiting packet and colour and `t` are what the rule prescribes: the packet reaches the head at `g = max(put instant,
last departure)`; there the buckets are refilled; with PIR it is green if both cover it, yellow if only the committed tokens
are short — it leaves at `g` in both cases — and red if the peak tokens are short: then it leaves `(size − peak)·8/PIR` later;
without PIR it is green if the committed bucket covers it, else yellow `(size − commit)·8/CIR` later. -/

/-- `a = b` on times, through `<` -/
def eqT (a b : τ) : Prop := ¬ a < b ∧ ¬ b < a

instance (a b : τ) : Decidable (eqT a b) := by unfold eqT; infer_instance

structure OSt (τ : Type) where
  waiting : List (Int × τ)
  commit : τ
  peak : Option τ
  upd : τ
  /-- the instant the server became free (0 before the first departure) -/
  free : τ

/-- the state of a fresh shaper -/
def oInit (cfg : TrCfg τ) : OSt τ := { waiting := [], commit := cfg.cbs, peak := cfg.pbs, upd := Num.zero, free := Num.zero }

/-- what the rule prescribes for the packet `id` put at `tp`: departure instant, colour, the two levels after it (the update
instant after it is the departure instant) -/
def oOut (size : Int → Nat) (cfg : TrCfg τ) (o : OSt τ) (id : Int) (tp : τ) : Option (τ × Nat × τ × Option τ) :=
  let g := Num.pymax o.free tp
  match verdict cfg o.commit o.peak o.upd g (pktOf size id) with
  | .ok (.wait dt cm pk) => some (g + dt, afterWait cfg cm pk)
  | .ok (.emit col cm pk) => some (g, col, cm, pk)
  | .error _ => none

def ostep (size : Int → Nat) (cfg : TrCfg τ) (o : OSt τ) : HEv τ → Option (OSt τ)
  | .put id t => some { o with waiting := o.waiting ++ [(id, t)] }
  | .out id col t =>
    match o.waiting with
    | [] => none
    | (id', tp) :: rest =>
      match oOut size cfg o id tp with
      | none => none
      | some r =>
        if id' = id ∧ col = r.2.1 ∧ eqT t r.1 then
          some { waiting := rest, commit := r.2.2.1, peak := r.2.2.2, upd := t, free := t }
        else none

def orun (size : Int → Nat) (cfg : TrCfg τ) : OSt τ → List (HEv τ) → Option (OSt τ)
  | o, [] => some o
  | o, ev :: r => (ostep size cfg o ev).bind fun o' => orun size cfg o' r

/-- the arrival instants of a workload: packet `k` arrives at the sum of the first `k + 1` gaps -/
def arrivalsFrom (t : τ) (k : Nat) : List τ → List (Int × τ)
  | [] => []
  | gap :: r => ((k : Int), t + gap) :: arrivalsFrom (t + gap) (k + 1) r

/-! ## the abstraction function -/

def cellVal (s : KState τ (TrS τ)) (k : Nat) : Val := ((s.shared.find? (·.1 == k)).map (·.2)).getD Val.none

def cellNat (s : KState τ (TrS τ)) (k : Nat) : Nat :=
  match cellVal s k with
  | .int n => n.toNat
  | _ => 0

def cellTime (s : KState τ (TrS τ)) (k : Nat) : τ := (TimeCell.dec (cellVal s k)).getD Num.zero

/-- an optional number in a cell (`Val.none` = `None`) -/
def cellOpt (s : KState τ (TrS τ)) (k : Nat) : Option τ :=
  match cellVal s k with
  | .none => none
  | v => TimeCell.dec v

/-- the instant at which the agenda entry of event `t` is due -/
def dueOf (s : KState τ (TrS τ)) (t : EvId) : τ :=
  ((s.agenda.find? (·.ev == t)).map (·.time)).getD s.now

/-- **abstraction function**: the LTS state (`Net/Fifo.lean` with `TwoRate.dev`) a kernel state of this program stands for,
read off the shaper process (where it is suspended, whether the event it waits for is triggered), the store and the cells.
The ghost field of the LTS's device state (`log`: no decision reads it) is left empty; `setGhost` puts any value there. -/
def absTR (size : Int → Nat) (s : KState τ (TrS τ)) : FState τ (TrSt τ) :=
  let base : FState τ (TrSt τ) :=
    { now := s.now
      dev := { commit := cellTime s cCommit, peak := cellOpt s cPeak, upd := cellTime s cUpd, received := cellNat s cRecv,
               sent := cellNat s cSent }
      items := (s.res storeId).items.map (pktOf size) }
  match s.proc? trProc with
  | some { st := .bGet _, target := some g } =>
    match (s.ev g).out with
    | some (.ok (.int id)) => { base with started := true, handed := some (pktOf size id) }
    | _ => { base with started := true, getPending := true }
  | some { st := .bTok id _, target := some t } =>
    { base with started := true, tx := some (pktOf size id, dueOf s t, 0) }
  | _ => base

/-- the same LTS state with another value in the ghost field of the device state -/
def setGhost (st : FState τ (TrSt τ)) (lg : List (τ × Nat × Nat)) : FState τ (TrSt τ) :=
  { st with dev := { st.dev with log := lg } }

/-- the final state of `run()` if it returned, else `none` -/
def finalState (r : RunResult τ (TrS τ)) : Option (KState τ (TrS τ)) :=
  match r with
  | .returned _ s => some s
  | _ => none

end TwoRateOnK
