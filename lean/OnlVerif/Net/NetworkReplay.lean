import OnlVerif.Net.Network
/-!
# Replaying whole pipelines through the network of accounts (driver mode `net`)

```
CASE <id> net <number of nodes>
nx <node> <all|orig|copy|flow f> <n b | s k>     wiring rules, first match wins (no match: sink 9999 = "nowhere")
spl <node>                                        the node is a splitter
inj <node> <id> <flow> <src> <size> <time bits> <payload> <acc | ref rule>
fwd <node> <id> <copy> <acc b | ref b rule | dlv k>   node forwards; what the taps saw happen to the packet next
drop <node> <id> <copy> <rule>
copy <node> <id> <copy> <new copy number>
tau <node>
END
```
Every event is run through `Net.step` (is it a legal global step?); for `fwd` the observed receiver must be the one the wiring
function names.  Answer: `verdicts <one letter per event: o legal, R refused>`, a `REJECT <event index> <reason>` line for each
refused event (the state is left unchanged by it), and at the end `loc <id> <copy> <held a | dropped a rule | sink k | count=n>`
for every introduced packet in order of introduction.
-/

namespace NetReplay
open Net

inductive Cond where
  | all | orig | copy | flow (f : Nat)

structure Rule where
  node : Nat
  cond : Cond
  dest : Dest Nat

def Cond.holds : Cond → NPkt → Bool
  | .all, _ => true
  | .orig, p => p.copy == 0
  | .copy, p => p.copy != 0
  | .flow f, p => p.flow == f

def nextOf (rules : List Rule) (a : Nat) (p : NPkt) : Dest Nat :=
  match rules.find? (fun r => r.node == a && r.cond.holds p) with
  | some r => r.dest
  | none => .sink 9999

/-- the same state with the account function tabulated (keeps look-ups short) -/
def normalize (N : Nat) (g : GState Nat NPkt) : GState Nat NPkt :=
  let tbl := (List.range N).map g.acct
  { g with acct := fun a => tbl.getD a {} }

def findHeld (g : GState Nat NPkt) (a id copy : Nat) : Option NPkt :=
  (g.acct a).held.find? (fun p => p.id == id && p.copy == copy)

/-- all places in which `p` is -/
def places (N : Nat) (g : GState Nat NPkt) (p : NPkt) : List String :=
  ((List.range N).flatMap fun a => ((g.acct a).held.filter (· == p)).map fun _ => s!"held {a}") ++
  ((List.range N).flatMap fun a => ((g.acct a).dropped.filter (·.1 == p)).map fun x => s!"dropped {a} {x.2}") ++
  ((g.delivered.filter (·.2 == p)).map fun x => s!"sink {x.1}")

def parseDest : List String → Option (Dest Nat)
  | ["n", b] => some (.node b.toNat!)
  | ["s", k] => some (.sink k.toNat!)
  | _ => none

def parseRule : List String → Option Rule
  | "nx" :: a :: "all" :: d => (parseDest d).map fun d => { node := a.toNat!, cond := .all, dest := d }
  | "nx" :: a :: "orig" :: d => (parseDest d).map fun d => { node := a.toNat!, cond := .orig, dest := d }
  | "nx" :: a :: "copy" :: d => (parseDest d).map fun d => { node := a.toNat!, cond := .copy, dest := d }
  | "nx" :: a :: "flow" :: f :: d => (parseDest d).map fun d => { node := a.toNat!, cond := .flow f.toNat!, dest := d }
  | _ => none

def destStr : Dest Nat → String
  | .node b => s!"node {b}"
  | .sink k => s!"sink {k}"

/-- one event line → the global step and, for `fwd`, the observed receiver -/
def parseEv (g : GState Nat NPkt) : List String → Except String (GEv Nat NPkt × Option (Dest Nat))
  | ["inj", a, id, fl, src, sz, tm, pl, "acc"] =>
    .ok (.inject a.toNat! { id := id.toNat!, flow := fl.toNat!, src := src.toNat!, size := sz.toNat!, time := tm.toNat!, payload := pl.toNat! } .acc, none)
  | ["inj", a, id, fl, src, sz, tm, pl, "ref", r] =>
    .ok (.inject a.toNat! { id := id.toNat!, flow := fl.toNat!, src := src.toNat!, size := sz.toNat!, time := tm.toNat!, payload := pl.toNat! } (.ref r.toNat!), none)
  | "fwd" :: a :: id :: cp :: rest =>
    match findHeld g a.toNat! id.toNat! cp.toNat! with
    | none => .error "forward: the node does not hold this packet"
    | some p =>
      match rest with
      | ["acc", b] => .ok (.fwd a.toNat! p .acc, some (.node b.toNat!))
      | ["ref", b, r] => .ok (.fwd a.toNat! p (.ref r.toNat!), some (.node b.toNat!))
      | ["dlv", k] => .ok (.fwd a.toNat! p .acc, some (.sink k.toNat!))
      | _ => .error "forward: malformed"
  | ["drop", a, id, cp, r] =>
    match findHeld g a.toNat! id.toNat! cp.toNat! with
    | none => .error "drop: the node does not hold this packet"
    | some p => .ok (.drop a.toNat! p r.toNat!, none)
  | ["copy", a, id, cp, k] =>
    match findHeld g a.toNat! id.toNat! cp.toNat! with
    | none => .error "copy: the node does not hold the original"
    | some p => .ok (.copy a.toNat! p { p with copy := k.toNat! }, none)
  | ["tau", a] => .ok (.tau a.toNat!, none)
  | _ => .error "malformed event"

/-- run one event: the new state, or why it is not a legal global step -/
def runEv (n : Wiring Nat NPkt (Nat × Nat)) (N : Nat) (g : GState Nat NPkt) (ws : List String) : Except String (GState Nat NPkt) :=
  match parseEv g ws with
  | .error m => .error m
  | .ok (e, seen) =>
    let wired : Option String :=
      match e, seen with
      | .fwd a p _, some d =>
        if n.next a p == d then none
        else some s!"forward: handed to {destStr d} but the wiring sends it to {destStr (n.next a p)}"
      | _, _ => none
    match wired with
    | some m => .error m
    | none =>
      match Net.step n g e with
      | .ok g' => .ok (normalize N g')
      | .error m => .error m

end NetReplay

partial def netReadRows (h : IO.FS.Stream) (acc : Array (List String)) : IO (Array (List String)) := do
  let line ← h.getLine
  if line.isEmpty then return acc
  let ws := (line.trimAscii.toString.splitOn " ").filter (· ≠ "")
  match ws with
  | ["END"] => return acc
  | [] => netReadRows h acc
  | _ => netReadRows h (acc.push ws)

partial def netLoop (h : IO.FS.Stream) : IO Unit := do
  let line ← h.getLine
  if line.isEmpty then return
  let ws := (line.trimAscii.toString.splitOn " ").filter (· ≠ "")
  match ws with
  | ["CASE", id, "net", nn] =>
    IO.println s!"CASE {id}"
    let N := nn.toNat!
    let rows ← netReadRows h #[]
    let rules := rows.toList.filterMap NetReplay.parseRule
    let spl := rows.toList.filterMap fun r => match r with | ["spl", a] => some a.toNat! | _ => none
    let n := Net.nwiring (NetReplay.nextOf rules) (fun a => spl.contains a)
    let mut g : Net.GState Nat Net.NPkt := {}
    let mut verdicts := ""
    let mut rejects : Array String := #[]
    let mut i := 0
    for r in rows do
      match r with
      | "nx" :: _ => pure ()
      | "spl" :: _ => pure ()
      | _ =>
        match NetReplay.runEv n N g r with
        | .ok g' => g := g'; verdicts := verdicts.push 'o'
        | .error m => verdicts := verdicts.push 'R'; rejects := rejects.push s!"REJECT {i} {m}"
        i := i + 1
    IO.println s!"verdicts {verdicts}"
    for m in rejects do IO.println m
    for p in g.introduced do
      match NetReplay.places N g p with
      | [pl] => IO.println s!"loc {p.id} {p.copy} {pl}"
      | l => IO.println s!"loc {p.id} {p.copy} count={l.length}"
    IO.println "ENDCASE"
    netLoop h
  | [] => netLoop h
  | _ => IO.println s!"BADLINE {line.trimAscii.toString}"; netLoop h
