import OnlVerif.Net.Fifo
/-!
# `onl.netdev.Port`, `REDPort`, `PortMonitor`
-/

structure PortCfg (α : Type) where
  rate : α
  /-- `None` = unlimited -/
  qlimit : Option Int
  limitBytes : Bool
  /-- `element_id` is truthy: `put` stamps `perhop_time` -/
  hasId : Bool
  /-- RED parameters (`none` for a plain Port): max_threshold, min_threshold, max_probability, weight_factor -/
  red : Option (α × α × α × Nat) := none

structure PortSt (α : Type) where
  byteSize : Int := 0
  received : Nat := 0
  dropped : Nat := 0
  busy : Bool := false
  busySize : Nat := 0
  /-- `REDPort.average_queue_size` -/
  avg : α
  /-- number of `perhop_time` stamps written -/
  stamps : Nat := 0

namespace Port
variable {α : Type} [Num α]

/-- the tail-drop test of `Port.put` -/
def tailDrop (c : PortCfg α) (byteSize : Int) (waiting : Nat) (size : Nat) : Bool :=
  match c.qlimit with
  | none => false
  | some q =>
    if c.limitBytes then decide (q < byteSize + (size : Int))
    else decide (q - 1 ≤ (waiting : Int))

def accept (d : PortSt α) (p : Pkt α) : PortSt α × Bool × Pkt α :=
  ({ d with byteSize := d.byteSize + p.size }, true, p)

def refuse (d : PortSt α) (p : Pkt α) : PortSt α × Bool × Pkt α :=
  ({ d with dropped := d.dropped + 1 }, false, p)

/-- `Port.put` -/
def admitPlain (c : PortCfg α) (d : PortSt α) (waiting : Nat) (p : Pkt α) : PortSt α × Bool × Pkt α :=
  let d := { d with received := d.received + 1, stamps := if c.hasId then d.stamps + 1 else d.stamps }
  if tailDrop c d.byteSize waiting p.size then refuse d p else accept d p

/-- the exponentially weighted average of `REDPort.put`: `alpha = 2 ** (-weight_factor)` -/
def redAvg (avg cur : α) (w : Nat) : α :=
  let alpha : α := Num.ofNat 1 / Num.ofNat (2 ^ w)
  avg * (Num.ofNat 1 - alpha) + cur * alpha

/-- RED's three-region decision for average `avg` and uniform draw `u`: `true` = drop -/
def redDrop (qlimit : α) (maxTh minTh maxP avg u : α) : Bool :=
  if qlimit ≤ avg then true
  else if maxTh ≤ avg then decide (u ≤ maxP)
  else if minTh ≤ avg then decide (u ≤ (avg - minTh) / (maxTh - minTh) * maxP)
  else false

/-- `qlimit` of a RED port as a scalar -/
def redLimit (c : PortCfg α) : α :=
  match c.qlimit with
  | some q => Num.ofNat q.toNat
  | none => Num.ofNat 0

/-- the queue figure RED averages: bytes held or packets waiting -/
def redCur (c : PortCfg α) (d : PortSt α) (waiting : Nat) : α :=
  if c.limitBytes then Num.ofNat d.byteSize.toNat else Num.ofNat waiting

/-- `REDPort.put` -/
def admitRed (c : PortCfg α) (red : α × α × α × Nat) (d : PortSt α) (waiting : Nat) (p : Pkt α) :
    PortSt α × Bool × Pkt α :=
  let d := { d with received := d.received + 1 }
  let avg := redAvg d.avg (redCur c d waiting) red.2.2.2
  let d := { d with avg := avg }
  if redDrop (redLimit c) red.1 red.2.1 red.2.2.1 avg p.draw then refuse d p else accept d p

def admitPkt (c : PortCfg α) (d : PortSt α) (_now : α) (waiting : Nat) (p : Pkt α) : PortSt α × Bool × Pkt α :=
  match c.red with
  | none => admitPlain c d waiting p
  | some red => admitRed c red d waiting p

/-- transmission time `size * 8 / rate` -/
def txTime (c : PortCfg α) (p : Pkt α) : α := Num.ofNat (p.size * 8) / c.rate

def onResume (c : PortCfg α) (d : PortSt α) (_now _x _y : α) (p : Pkt α) : PortSt α × Pkt α × Next α :=
  let d := { d with busy := true, busySize := p.size }
  if Num.zero < c.rate then (d, p, .wait (txTime c p)) else (d, p, .emit)

def onFire (_c : PortCfg α) (d : PortSt α) (_now : α) (_k : Nat) (p : Pkt α) : PortSt α × Pkt α × Next α :=
  (d, p, .emit)

def onDone (d : PortSt α) (p : Pkt α) : PortSt α :=
  { d with byteSize := d.byteSize - p.size, busy := false, busySize := 0 }

def dev (c : PortCfg α) : Dev α (PortSt α) :=
  { admitPkt := admitPkt c, onResume := onResume c, onFire := onFire c, onDone := onDone }

/-- one `PortMonitor` sample: (packets, bytes) with or without the packet in service -/
def monitorSample (s : FState α (PortSt α)) (included : Bool) : Int × Int :=
  if included then ((s.items.length : Int) + (if s.dev.busy then 1 else 0), s.dev.byteSize)
  else ((s.items.length : Int), s.dev.byteSize - s.dev.busySize)

end Port
