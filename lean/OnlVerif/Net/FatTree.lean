import OnlVerif.Net.Route
/-!
# `FatTree(k)` as a structural graph, and `generate_fib` as folds

Source: `onl/topo/fattree.py`.  With `h = k // 2` the constructor creates

* core switches `(a, b)`, `a, b < h`, numbered `a*h + b`                       (`0 … h² - 1`);
* per pod `p < k`: aggregation switches `(p, i)`, `i < h`, numbered `h² + k*p + i`, then edge switches `(p, j)`,
  `j < h`, numbered `h² + k*p + h + j`;
* hosts `(p, j, m)`, `m < h`, numbered `h² + k² + (p*h + j)*h + m` — the constructor walks the edge switches in
  node order and appends `h` hosts to each.

`networkx` keeps adjacency in insertion order and `generate_fib` numbers the ports of a node by position in
`nx.neighbors(topo, n)`, so the *order* of every neighbour list is part of the model:
pod edges first (`for u in aggr for v in edge`), then core–aggregation (`for core for pod`, aggregation switch
`h² + core // h + k*pod`), then edge–host.

`generate_fib` is modelled for an arbitrary graph given as ordered adjacency lists.
This file imports only `OnlVerif.Net.Route` (which imports nothing).
-/

namespace FatTree
open Route

inductive FNode where
  | core (a b : Nat)
  | aggr (p i : Nat)
  | edge (p j : Nat)
  | host (p j m : Nat)
deriving DecidableEq, Repr

/-- the node id the constructor assigns -/
def FNode.num (k : Nat) : FNode → Nat
  | .core a b => a * (k / 2) + b
  | .aggr p i => (k / 2) ^ 2 + k * p + i
  | .edge p j => (k / 2) ^ 2 + k * p + k / 2 + j
  | .host p j m => (k / 2) ^ 2 + k * k + (p * (k / 2) + j) * (k / 2) + m

/-- the `layer` node attribute -/
inductive Layer where
  | core | aggregation | edge | leaf
deriving DecidableEq, Repr

def Layer.name : Layer → String
  | .core => "core"
  | .aggregation => "aggregation"
  | .edge => "edge"
  | .leaf => "leaf"

def FNode.layer : FNode → Layer
  | .core .. => .core
  | .aggr .. => .aggregation
  | .edge .. => .edge
  | .host .. => .leaf

def FNode.isSwitch : FNode → Bool
  | .host .. => false
  | _ => true

/-- the `pod` attribute (core switches have none) -/
def FNode.pod : FNode → Option Nat
  | .core .. => none
  | .aggr p _ => some p
  | .edge p _ => some p
  | .host p _ _ => some p

/-- the node exists in `FatTree(k)` -/
def FNode.Valid (k : Nat) : FNode → Prop
  | .core a b => a < k / 2 ∧ b < k / 2
  | .aggr p i => p < k ∧ i < k / 2
  | .edge p j => p < k ∧ j < k / 2
  | .host p j m => p < k ∧ j < k / 2 ∧ m < k / 2

def cores (k : Nat) : List FNode :=
  (List.range (k / 2)).flatMap fun a => (List.range (k / 2)).map fun b => FNode.core a b

def aggrsOf (k p : Nat) : List FNode := (List.range (k / 2)).map (FNode.aggr p)
def edgesOf (k p : Nat) : List FNode := (List.range (k / 2)).map (FNode.edge p)

/-- aggregation then edge switches, pod by pod -/
def podSwitches (k : Nat) : List FNode := (List.range k).flatMap fun p => aggrsOf k p ++ edgesOf k p

def hostsOf (k p j : Nat) : List FNode := (List.range (k / 2)).map (FNode.host p j)

def hosts (k : Nat) : List FNode :=
  (List.range k).flatMap fun p => (List.range (k / 2)).flatMap fun j => hostsOf k p j

/-- all nodes in `topo.nodes()` order (= id order) -/
def nodes (k : Nat) : List FNode := cores k ++ podSwitches k ++ hosts k

/-- the nodes of one layer, in node order -/
def ofLayer (k : Nat) (l : Layer) : List FNode := (nodes k).filter fun n => n.layer = l

def nNodes (k : Nat) : Nat := (k / 2) ^ 2 + k * k + k * (k / 2) * (k / 2)

/-- neighbours in `networkx` insertion order: position = port number -/
def nbrs (k : Nat) : FNode → List FNode
  | .core a _ => (List.range k).map fun p => FNode.aggr p a
  | .aggr p i => edgesOf k p ++ (List.range (k / 2)).map (FNode.core i)
  | .edge p j => aggrsOf k p ++ hostsOf k p j
  | .host p j _ => [FNode.edge p j]

/-- `FatTree(k)` argument check (`k` is a Python `int`) -/
def ctorCheck (k : Int) : Except PyErr Nat :=
  if k < 1 ∨ k % 2 = 1 then .error .valueError else .ok k.toNat

/-! ### graphs as ordered adjacency lists -/

/-- `(node id, neighbour ids in insertion order)` in `topo.nodes()` order -/
abbrev Graph := List (Nat × List Nat)

def graph (k : Nat) : Graph := (nodes k).map fun n => (n.num k, (nbrs k n).map (FNode.num k))

/-! ### `generate_fib` -/

abbrev Dict := List (Nat × Nat)

structure NodeTab where
  portToNexthop : Dict := []
  nexthopToPort : Dict := []
  flowToPort : Dict := []
  flowToNexthop : Dict := []
deriving Repr, Inhabited

/-- one iteration of `for port, nh in enumerate(nx.neighbors(topo, n))` -/
def NodeTab.addPort (t : NodeTab) (port nh : Nat) : NodeTab :=
  { t with nexthopToPort := dset t.nexthopToPort nh port, portToNexthop := dset t.portToNexthop port nh }

/-- the enumerate loop, starting at port number `i` -/
def enumPorts : Nat → List Nat → NodeTab → NodeTab
  | _, [], t => t
  | i, nh :: r, t => enumPorts (i + 1) r (t.addPort i nh)

def initTab (nbrs : List Nat) : NodeTab := enumPorts 0 nbrs {}

abbrev Tables := List (Nat × NodeTab)

/-- first loop of `generate_fib`: fresh tables for every node -/
def initTables (g : Graph) : Tables := g.map fun (n, ns) => (n, initTab ns)

/-- `nodes[a]["flow_to_port"][key] = nodes[a]["nexthop_to_port"][z]; nodes[a]["flow_to_nexthop"][key] = z` -/
def NodeTab.setFlow (t : NodeTab) (key port z : Nat) : NodeTab :=
  { t with flowToPort := dset t.flowToPort key port, flowToNexthop := dset t.flowToNexthop key z }

def setFlow (t : Tables) (a key z : Nat) : Except PyErr Tables :=
  match dget t a with
  | none => .error .keyError                       -- `topo.nodes[a]`
  | some tab =>
    match dget tab.nexthopToPort z with
    | none => .error .keyError                     -- `["nexthop_to_port"][z]`
    | some port => .ok (dset t a (tab.setFlow key port z))

/-- the ACK class of flow `fid` -/
def ackClass (fid : Nat) : Nat := fid + 10000

/-- body of `for seg in path` -/
def segStep (tcp : Bool) (fid : Nat) (t : Tables) (seg : Nat × Nat) : Except PyErr Tables :=
  match setFlow t seg.1 fid seg.2 with
  | .error e => .error e
  | .ok t1 => if tcp then setFlow t1 seg.2 (ackClass fid) seg.1 else .ok t1

/-- `zip(path, path[1:])` -/
def segments : List Nat → List (Nat × Nat)
  | a :: z :: r => (a, z) :: segments (z :: r)
  | _ => []

def foldE {σ α : Type} (f : σ → α → Except PyErr σ) : σ → List α → Except PyErr σ
  | s, [] => .ok s
  | s, x :: r =>
    match f s x with
    | .error e => .error e
    | .ok s' => foldE f s' r

structure FlowRec where
  fid : Nat
  path : List Nat
deriving Repr

/-- body of `for f in all_flows` -/
def flowStep (tcp : Bool) (t : Tables) (fl : FlowRec) : Except PyErr Tables :=
  foldE (segStep tcp fl.fid) t (segments fl.path)

/-- `FatTree.generate_fib(all_flows, tcp)` on the graph `g` -/
def generateFib (g : Graph) (flows : List FlowRec) (tcp : Bool) : Except PyErr Tables :=
  foldE (flowStep tcp) (initTables g) flows

/-! ### reading the tables -/

def nexthopOf (t : Tables) (node key : Nat) : Option Nat :=
  match dget t node with
  | none => none
  | some tab => dget tab.flowToNexthop key

def portOf (t : Tables) (node key : Nat) : Option Nat :=
  match dget t node with
  | none => none
  | some tab => dget tab.flowToPort key

def portToNexthop (t : Tables) (node port : Nat) : Option Nat :=
  match dget t node with
  | none => none
  | some tab => dget tab.portToNexthop port

def nexthopToPort (t : Tables) (node nh : Nat) : Option Nat :=
  match dget t node with
  | none => none
  | some tab => dget tab.nexthopToPort nh

/-- follow `flow_to_nexthop[key]` from `cur` until there is no entry; the nodes visited, `cur` first -/
def walk (nh : Nat → Option Nat) : Nat → Nat → List Nat
  | 0, cur => [cur]
  | fuel + 1, cur =>
    match nh cur with
    | none => [cur]
    | some z => cur :: walk nh fuel z

/-! ### a network of `FIBDemux` switches wired as `tests/apps/fattree.py` does

Every node carries a `FairPacketSwitch` with `nports` ports whose demux has `fib = flow_to_port`; egress `i` of a node is
wired to the device of `port_to_nexthop[i]`; the sink of a flow class is registered in `demux.ends` of the node where the
class ends.  Schedulers and ports forward every packet they are given (C08), so one hop of a packet is one dispatch. -/

/-- device identities inside one switch: egress port `i`, or the sink registered for a flow class -/
def egressDev (port : Nat) : Dev := 2 * port
def sinkDev (key : Nat) : Dev := 2 * key + 1

/-- the demux configuration of the switch at a node with tables `tab`, given the flow classes whose sink is registered there -/
def switchCfg (tab : NodeTab) (nports : Nat) (sinksHere : List Nat) : FIBDemuxCfg :=
  { outs := some ((List.range nports).map egressDev),
    ends := sinksHere.map fun (key : Nat) => ((key : Int), sinkDev key),
    fib := some (tab.flowToPort.map fun fp => ((fp.1 : Int), (fp.2 : Int))),
    default := none }

/-- what happens to a packet of class `key` at a node -/
inductive Hop where
  | deliver (key : Nat)      -- handed to the sink registered for class `key`
  | forward (next : Nat)     -- sent out of a port, towards node `next`
  | lost                     -- handed to nobody / to an unwired port
  | fail (e : PyErr)
deriving DecidableEq, Repr

def hop (t : Tables) (nports : Nat) (sinks : Nat → List Nat) (key node : Nat) : Hop :=
  match dget t node with
  | none => .lost
  | some tab =>
    match FIBDemux.put (switchCfg tab nports (sinks node)) { ref := ⟨0, 0⟩, flowId := (key : Int) } with
    | .error e => .fail e
    | .ok [] => .lost
    | .ok ((d, _) :: _) =>
      if d % 2 = 1 then .deliver (d / 2)
      else
        match dget tab.portToNexthop (d / 2) with
        | some z => .forward z
        | none => .lost

/-- follow a packet hop by hop: the nodes it visits and how its journey ends (`lost` when the fuel runs out) -/
def follow (h : Nat → Hop) : Nat → Nat → List Nat × Hop
  | 0, _ => ([], .lost)
  | fuel + 1, cur =>
    match h cur with
    | .forward z => (cur :: (follow h fuel z).1, (follow h fuel z).2)
    | r => ([cur], r)

end FatTree
