import OnlVerif.Net.FatTree
import OnlVerif.Generated.Route
/-!
# Replaying routing cases through the model (line protocol, driver mode `route`)

Input, one record per line (`N` stands for Python `None`):
```
CASE <id> <flowdemux|fibdemux|simple|fair|hub|splitter|nsplitter|fattree>
OUTS N | OUTS <dev>…            output list (flowdemux, fibdemux)
DEFAULT N|<dev>
ENDS <flow>:<dev>…              fibdemux / fair: end devices, in insertion order
FIB N | FIB <flow>:<port>…      forwarding table (`FIB` alone is the empty table)
NPORTS <n>   SERVER <name>      simple / fair switch constructor arguments
EPS <eid>:<dev>…  PORTS [N|<dev>]…   Hub constructor arguments;  ADD <eid> <dev> N|<dev>  = add_endpoint afterwards
OUT1 N|<dev>  OUT2 N|<dev>      Splitter
NS <n>   SET <i> <dev>          NSplitter(n), outs[i] = dev
PKT <pid> <flow> <src>          one put(); several allowed
K <k>  TCP 0|1  DUMP 0|1  FLOW <fid> <node>…     fat tree
NET <nports>                    fat tree: also route one packet per flow class through a network of switches with
                                `nports` ports each, sinks registered at the flow's destination (ACK class: at its source)
END
```
Output per case: `CASE <id>`, the model's observations, `ENDCASE`.
Dispatch cases: optional `X <Err>` (constructor refused) / `W <port dev> <endpoint dev>` (hub wiring), then per packet
`P <pid>` followed by `D <dev> <id>.<copy>` lines or `X <Err>`; for splitters also `C j c` / `I i j f t q` (see `printHeapChecks`).
Fat tree: `CTOR ok|X <Err>`, `COUNT core aggr edge host total`, with `DUMP 1` one `N <id> <layer> <type> <pod|-> <nbrs>` per
node, `GEN ok|X <Err>`, `T <node> <port_to_nexthop> <nexthop_to_port> <flow_to_port> <flow_to_nexthop>` (all nodes with
`DUMP 1`, else nodes with flow entries), `V <key> <from> <nodes visited…>` per flow (and per ACK class with `TCP 1`),
with `NET n` also `R <key> <from> <nodes visited…> <deliver k|forward n|lost|fail E>` per flow class.
-/

namespace RouteReplay
open Route FatTree

structure RCase where
  id : String := ""
  kind : String := ""
  outs : Option (List Dev) := some []
  dflt : Option Dev := none
  ends : List (Int × Dev) := []
  fibGiven : Bool := false
  fib : Option (List (Int × Int)) := none
  nports : Nat := 0
  server : String := ""
  eps : List (Nat × Dev) := []
  ports : List (Option Dev) := []
  adds : Array (Nat × Dev × Option Dev) := #[]
  out1 : Option Dev := none
  out2 : Option Dev := none
  ns : Int := 2
  sets : Array (Nat × Dev) := #[]
  pkts : Array Pkt := #[]
  k : Int := 0
  tcp : Bool := false
  dump : Bool := false
  flows : Array FlowRec := #[]
  net : Nat := 0

def optDev (t : String) : Option Dev := if t == "N" then none else some t.toNat!

def pairOf (t : String) : Option (String × String) :=
  match t.splitOn ":" with
  | [a, b] => some (a, b)
  | _ => none

def fmtRef (r : PktRef) : String := s!"{r.id}.{r.copy}"

def printDeliveries (ds : List Delivery) : IO Unit := do
  for (d, r) in ds do
    IO.println s!"D {d} {fmtRef r}"

def printResult (r : Result) : IO Unit := do
  match r with
  | .ok ds => printDeliveries ds
  | .error e => IO.println s!"X {e.name}"

def sameResult (a b : Result) : Bool :=
  match a, b with
  | .ok x, .ok y => x == y
  | .error e, .error f => e == f
  | _, _ => false

/-- print the hand-written model's answer; if the definition generated from the source answers differently, say so -/
def printBoth (model gen : Result) : IO Unit := do
  printResult model
  if !sameResult model gen then
    IO.println "GENERATED-DIFFERS"
    printResult gen

/-- the heap part of a splitter dispatch: the entering packet owns its tables and carries one earlier stamp (key 7);
`C j c` says whether the `j`-th delivered object carries that stamp, `I i j f t q` whether rebinding a field of / writing in
place into `perhop_time` / `priorities` of the `i`-th delivered object is visible through the `j`-th (`0` = not visible) -/
def printHeapChecks (orig : PktRef) (r : Result) : IO Unit := do
  match r with
  | .error _ => pure ()
  | .ok l =>
    let h0 : Heap := {
      objs := fun x => if x = orig then some { hdr := fun _ => 0, tab := fun w => (orig, w) } else none,
      tabs := fun t k => if t.1 = orig ∧ k = 7 then some 3 else none }
    let H := splitHeap h0 orig l
    let refs := l.map (·.2)
    let b (x : Bool) : String := if x then "1" else "0"
    for (rj, j) in refs.zipIdx do
      IO.println s!"C {j} {b (H.readTab rj .perhop 7 == some (some 3) && H.readTab rj .priorities 7 == some (some 3))}"
    for (ri, i) in refs.zipIdx do
      for (rj, j) in refs.zipIdx do
        if i != j then
          let f := (H.setField ri 0 1).readField rj 0 != H.readField rj 0
          let t := (H.tabWrite ri .perhop 0 1).readTab rj .perhop 0 != H.readTab rj .perhop 0
          let q := (H.tabWrite ri .priorities 0 1).readTab rj .priorities 0 != H.readTab rj .priorities 0
          IO.println s!"I {i} {j} {b f} {b t} {b q}"

def fmtDict (d : Dict) : String :=
  if d.isEmpty then "-" else ",".intercalate (d.map fun (a, b) => s!"{a}:{b}")

def fmtNats (l : List Nat) : String :=
  if l.isEmpty then "-" else ",".intercalate (l.map toString)

def runPkts (c : RCase) (f : Pkt → IO Unit) : IO Unit := do
  for p in c.pkts do
    IO.println s!"P {p.ref.id}"
    f p

def setAt {α : Type} (l : List α) (i : Nat) (v : α) : List α := l.set i v

def fmtHop : Hop → String
  | .deliver k => s!"deliver {k}"
  | .forward n => s!"forward {n}"
  | .lost => "lost"
  | .fail e => s!"fail {e.name}"

/-- sinks as `tests/apps/fattree.py` registers them: class `fid` at the flow's destination, the ACK class at its source -/
def sinksOf (flows : List FlowRec) (tcp : Bool) (node : Nat) : List Nat :=
  flows.filterMap (fun f => if f.path.getLast? = some node then some f.fid else none) ++
  (if tcp then flows.filterMap (fun f => if f.path.head? = some node then some (ackClass f.fid) else none) else [])

def runFatTree (c : RCase) : IO Unit := do
  match ctorCheck c.k with
  | .error e => IO.println s!"CTOR X {e.name}"
  | .ok k =>
    IO.println "CTOR ok"
    let ns := nodes k
    IO.println s!"COUNT {(ofLayer k .core).length} {(ofLayer k .aggregation).length} {(ofLayer k .edge).length} {(ofLayer k .leaf).length} {ns.length}"
    let g := graph k
    if c.dump then
      for n in ns do
        let pod := match n.pod with | some p => toString p | none => "-"
        let ty := if n.isSwitch then "switch" else "host"
        IO.println s!"N {n.num k} {n.layer.name} {ty} {pod} {fmtNats ((nbrs k n).map (FNode.num k))}"
    match generateFib g c.flows.toList c.tcp with
    | .error e => IO.println s!"GEN X {e.name}"
    | .ok t =>
      IO.println "GEN ok"
      for (n, tab) in t do
        if c.dump || !tab.flowToPort.isEmpty || !tab.flowToNexthop.isEmpty then
          IO.println s!"T {n} {fmtDict tab.portToNexthop} {fmtDict tab.nexthopToPort} {fmtDict tab.flowToPort} {fmtDict tab.flowToNexthop}"
      let fuel := ns.length + 1
      for fl in c.flows do
        match fl.path.head? with
        | some src => IO.println s!"V {fl.fid} {src} {fmtNats (walk (fun n => nexthopOf t n fl.fid) fuel src)}"
        | none => pure ()
        if c.tcp then
          match fl.path.getLast? with
          | some dst => IO.println s!"V {ackClass fl.fid} {dst} {fmtNats (walk (fun n => nexthopOf t n (ackClass fl.fid)) fuel dst)}"
          | none => pure ()
      if c.net > 0 then
        let sinks := sinksOf c.flows.toList c.tcp
        for fl in c.flows do
          match fl.path.head?, fl.path.getLast? with
          | some src, some dst =>
            let r := follow (hop t c.net sinks fl.fid) fuel src
            IO.println s!"R {fl.fid} {src} {fmtNats r.1} {fmtHop r.2}"
            if c.tcp then
              let r := follow (hop t c.net sinks (ackClass fl.fid)) fuel dst
              IO.println s!"R {ackClass fl.fid} {dst} {fmtNats r.1} {fmtHop r.2}"
          | _, _ => pure ()

def runCase (c : RCase) : IO Unit := do
  IO.println s!"CASE {c.id}"
  match c.kind with
  | "flowdemux" =>
    let cfg : FlowDemuxCfg := { outs := c.outs.getD [], default := c.dflt }
    runPkts c fun p => printBoth (FlowDemux.put cfg p) ((Route.Gen.FlowDemux_put cfg p).run 1)
  | "fibdemux" =>
    let cfg : FIBDemuxCfg := { outs := c.outs, ends := c.ends, fib := c.fib, default := c.dflt }
    runPkts c fun p => printBoth (FIBDemux.put cfg p) ((Route.Gen.FIBDemux_put cfg p).run 1)
  | "simple" =>
    let cfg := SimplePacketSwitch.mk c.nports
    runPkts c fun p => printResult (FlowDemux.put cfg p)
  | "fair" =>
    match FairPacketSwitch.mk c.nports c.server with
    | .error e => IO.println s!"X {e.name}"
    | .ok cfg =>
      let cfg := match c.fib with | some f => cfg.setFib f | none => cfg
      let cfg := c.ends.foldl (fun cfg (f, d) => cfg.setEnd f d) cfg
      runPkts c fun p => printResult (FIBDemux.put cfg p)
  | "hub" =>
    match Hub.mk c.eps c.ports with
    | .error e => IO.println s!"X {e.name}"
    | .ok cfg =>
      let cfg := c.adds.foldl (fun cfg (e, d, p) => Hub.addEndpoint cfg e d p) cfg
      for (p, e) in Hub.wiring cfg do
        IO.println s!"W {p} {e}"
      runPkts c fun p => printDeliveries (Hub.put cfg p)
  | "splitter" =>
    let cfg : SplitterCfg := { out1 := c.out1, out2 := c.out2 }
    runPkts c fun p => do
      printBoth (.ok (Splitter.put cfg p 1)) ((Route.Gen.Splitter_put cfg p).run 1)
      printHeapChecks p.ref (.ok (Splitter.put cfg p 1))
  | "nsplitter" =>
    match NSplitter.mk c.ns with
    | .error e => IO.println s!"X {e.name}"
    | .ok outs =>
      let outs := c.sets.foldl (fun outs (i, d) => outs.set i (some d)) outs
      runPkts c fun p => do
        printResult (NSplitter.put outs p 1)
        printHeapChecks p.ref (NSplitter.put outs p 1)
  | "fattree" => runFatTree c
  | k => IO.println s!"BADKIND {k}"
  IO.println "ENDCASE"

def parseIntPairs (ts : List String) : List (Int × Int) :=
  ts.filterMap fun t => (pairOf t).map fun (a, b) => (a.toInt!, b.toInt!)

partial def routeLoopAux (h : IO.FS.Stream) (c : RCase) : IO Unit := do
  let line ← h.getLine
  if line.isEmpty then return
  let ws := (line.trimAscii.toString.splitOn " ").filter (· ≠ "")
  match ws with
  | ["CASE", id, kind] => routeLoopAux h { id, kind }
  | ["OUTS", "N"] => routeLoopAux h { c with outs := none }
  | "OUTS" :: ds => routeLoopAux h { c with outs := some (ds.map (·.toNat!)) }
  | ["DEFAULT", d] => routeLoopAux h { c with dflt := optDev d }
  | "ENDS" :: ps => routeLoopAux h { c with ends := ps.filterMap fun t => (pairOf t).map fun (a, b) => (a.toInt!, b.toNat!) }
  | ["FIB", "N"] => routeLoopAux h { c with fib := none }
  | "FIB" :: ps => routeLoopAux h { c with fib := some (parseIntPairs ps) }
  | ["NPORTS", n] => routeLoopAux h { c with nports := n.toNat! }
  | ["SERVER", s] => routeLoopAux h { c with server := s }
  | "EPS" :: ps => routeLoopAux h { c with eps := ps.filterMap fun t => (pairOf t).map fun (a, b) => (a.toNat!, b.toNat!) }
  | "PORTS" :: ps => routeLoopAux h { c with ports := ps.map optDev }
  | ["ADD", e, d, p] => routeLoopAux h { c with adds := c.adds.push (e.toNat!, d.toNat!, optDev p) }
  | ["OUT1", d] => routeLoopAux h { c with out1 := optDev d }
  | ["OUT2", d] => routeLoopAux h { c with out2 := optDev d }
  | ["NS", n] => routeLoopAux h { c with ns := n.toInt! }
  | ["SET", i, d] => routeLoopAux h { c with sets := c.sets.push (i.toNat!, d.toNat!) }
  | ["PKT", pid, flow, src] =>
    routeLoopAux h { c with pkts := c.pkts.push { ref := ⟨pid.toNat!, 0⟩, flowId := flow.toInt!, src := src.toNat! } }
  | ["K", k] => routeLoopAux h { c with k := k.toInt! }
  | ["TCP", b] => routeLoopAux h { c with tcp := b == "1" }
  | ["DUMP", b] => routeLoopAux h { c with dump := b == "1" }
  | ["NET", n] => routeLoopAux h { c with net := n.toNat! }
  | "FLOW" :: fid :: path => routeLoopAux h { c with flows := c.flows.push { fid := fid.toNat!, path := path.map (·.toNat!) } }
  | ["END"] => runCase c; routeLoopAux h {}
  | [] => routeLoopAux h c
  | _ => IO.println s!"BADLINE {line}"; routeLoopAux h c

end RouteReplay

partial def routeLoop (h : IO.FS.Stream) : IO Unit := RouteReplay.routeLoopAux h {}
