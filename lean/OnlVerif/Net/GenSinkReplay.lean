import OnlVerif.Net.GenSink
/-!
# Replaying generators and sinks (driver mode `gensink`)
```
CASE <id> gen <initial delay bits> <finish bits | inf>   then   d <gap bits> <size> …   END
CASE <id> sink <recArrivals> <absolute> <recWaits> <key> then   v <key> <now bits> <ptime bits> <size> … END
```
-/

def bitsList (l : List Float) : String := ",".intercalate (l.map Float.bitsStr)

partial def readUntilEnd (h : IO.FS.Stream) (acc : Array (List String)) : IO (Array (List String)) := do
  let line ← h.getLine
  if line.isEmpty then return acc
  let ws := (line.trimAscii.toString.splitOn " ").filter (· ≠ "")
  match ws with
  | ["END"] => return acc
  | [] => readUntilEnd h acc
  | _ => readUntilEnd h (acc.push ws)

partial def gensinkLoop (h : IO.FS.Stream) : IO Unit := do
  let line ← h.getLine
  if line.isEmpty then return
  let ws := (line.trimAscii.toString.splitOn " ").filter (· ≠ "")
  match ws with
  | ["CASE", id, "gen", ini, fin] =>
    IO.println s!"CASE {id}"
    let rows ← readUntilEnd h #[]
    let draws : List (Float × Nat) := rows.toList.filterMap fun r =>
      match r with
      | ["d", g, sz] => some (Float.ofBitsStr g, sz.toNat!)
      | _ => none
    let finish : Option Float := if fin == "inf" then none else some (Float.ofBitsStr fin)
    for p in Gen.run (0 : Float) (Float.ofBitsStr ini) finish draws do
      IO.println s!"pkt {p.id} {p.time.bitsStr} {p.size}"
    IO.println "ENDCASE"
    gensinkLoop h
  | ["CASE", id, "sink", ra, ab, rw, key] =>
    IO.println s!"CASE {id}"
    let rows ← readUntilEnd h #[]
    let ds : List (Delivery Float) := rows.toList.filterMap fun r =>
      match r with
      | ["v", k, now, pt, sz] => some { key := k.toNat!, now := Float.ofBitsStr now, ptime := Float.ofBitsStr pt, size := sz.toNat! }
      | _ => none
    let r := Sink.record { recArrivals := ra == "1", absolute := ab == "1", recWaits := rw == "1" } key.toNat! ds
    let first := match r.first with | some x => x.bitsStr | none => "None"
    IO.println s!"count={r.count} bytes={r.bytes} waits={bitsList r.waits} sizes={r.sizes} times={bitsList r.times} arrivals={bitsList r.arrivals} first={first} last={r.last.bitsStr}"
    IO.println "ENDCASE"
    gensinkLoop h
  | [] => gensinkLoop h
  | _ => IO.println s!"BADLINE {line.trimAscii.toString}"; gensinkLoop h
