import OnlVerif.Kernel.Step
import OnlVerif.Net.MultiQueue
import OnlVerif.Net.Sched.RR
/-!
# The round-robin scheduler as processes *on the kernel model `K`*

`OnlVerif/Net/MultiQueue.lean` with `OnlVerif/Net/Sched/RR.lean` describes `onl.scheduler.rr.RR` as a labelled transition
system over its atomic bursts (model `E`); its admissibility rules *assume* what the kernel guarantees.  This file writes the
same device as a program of the kernel model (`OnlVerif/Kernel`), with the encoding of `OnlVerif/Net/SPOnK.lean`:
`MultiQueueScheduler.put`, `Scheduler.send_packet` (a child process per transmission, joined by the server with
`yield process`), `RR.run` and a packet source are `Burst` programs, the per-flow stores and the wake-up store are `Store`
resources of `K`, and nothing is assumed about scheduling: `K`'s `step` decides what runs when.  `OnlVerif/Props/C15K.lean`
proves that every run of this program is an admissible run of the LTS (refinement) and has the properties C15/C12 name.

```python
def put(self, packet):                                   def send_packet(self, packet):
    flow_id = packet.flow_id                                 self.current_packet = packet
    if self.total_packets == 0:                              yield self.env.timeout(packet.size * 8.0 / self.rate)
        self.packets_available.put(True)                     flow_id = packet.flow_id
    self.add_packet_to_queue(packet)                         self.queue_count[flow_id] -= 1
    self.dprint(f"received packet …")                        self.queue_byte_size[flow_id] -= packet.size
    self.stores[flow_id].put(packet)                         if self.out: self.out.put(packet)
                                                             self.current_packet = None
def run(self, env):
    while True:
        for flow_id in self.flows:
            if self.queue_count[flow_id] > 0:
                store = self.stores.get(flow_id)
                assert store
                packet = yield store.get()
                yield env.process(self.send_packet(packet))
        if self.total_packets == 0:
            yield self.packets_available.get()
```

Encoding (modelling devices, all of them; those of `SPOnK.lean` unless said otherwise):

* flows are `0 … F-1`, `flows` = `self.flows` is the declaration order; a packet is its `Int` id, `flow : Int → Nat` gives
  `packet.flow_id`, `size : Int → Nat` gives `packet.size`; an `out` is attached;
* resource `0` is `packets_available`, resource `1 + f` is `stores[f]` (unbounded `Store`s, all created in advance); the
  wake-up token `True` is the item `1`;
* the attributes live in the shared cells of `K`: cell 0 = `packets_received`, 1 = `current_packet`, `10 + 3f` =
  `queue_count[f]`, `11 + 3f` = `queue_byte_size[f]`; the counters are preset to 0 (what the `defaultdict(int)` yields for a
  missing key);
* **dict keys.**  `self.queue_count[flow_id]` in the `for` loop *inserts* the key when it is missing (`defaultdict`), so the
  key order of `queue_count` depends on the scan.  For `RR` that is observable only once: `run` is created in `__init__`,
  its first burst precedes every `put` and reads `queue_count[f]` for every declared flow in declaration order (all are 0:
  the `for` loop visits every entry); from then on the keys of `queue_count` are `flows` (declaration order, duplicates
  dropped) followed by the undeclared flows in the order of their first `put`, and no later scan changes them (it iterates
  `self.flows`, not the dict).  The abstraction function `absRR` computes exactly this from "has `run` started" and the
  `put` observations; the keys of `queue_byte_size` and `stores` are the flows in the order of their first `put`
  (`self.stores.get(flow_id)` does not insert).  That `absRR` follows the LTS — whose `touch` inserts the key at every
  read — is part of the refinement theorem;
* `assert store`: `self.stores.get(flow_id)` is `None` until the first `put` of that flow; cell `12 + 3f` says whether
  `stores` has the key `f` (`put` sets it to 1 right after `self.stores[flow_id].put(packet)`, whose subscript creates the
  entry); the loop raises `AssertionError` when it reads 0 there (a `Store` object itself is always truthy);
* `total_packets` (`sum(self.queue_count.values())`) reads the `F` counters;
* `self.out.put(packet)` is the observation `log "out" (int id)`, the debug print of `put` is `log "put" (int id)`, the call
  `self.send_packet(packet)` is `log "serve" (int id)` (each recorded with `env.now` in `KState.trace`; the harness taps the
  same three calls of the real class);
* a pass of the `for` loop that serves nothing while `total_packets != 0` would be repeated for ever without a `yield` (a
  Python hang; it needs a packet of a flow that is not declared): the model raises `Hang` there; the theorems show that this
  point is never reached when every flow of the workload is declared;
* the source is the process `for (gap, id) in arrivals: yield env.timeout(gap); rr.put(packet id)`;
* the local state of a suspended generator names its `yield` and the locals it still needs (the position `i` of the `for`
  iterator, the `packet` it holds); no generator reads `env.now`, so none carries the clock.

Besides the program the file holds what the theorems of `Props/C15K.lean` are stated with: the observations of a trace, the
executable abstraction function `absRR` (kernel state ↦ LTS state), the property restated as an executable oracle over the
`put` / `serve` / `out` history (`ostep`, `orun`), and a label inference with an executable refinement check (`refineCheck`)
for the `example`s.
-/

/-- local states of the generator functions (where each one is suspended) -/
inductive RrSt (τ : Type) where
  /-- the source: suspended on the timeout before `put(pending)` (`none`: not started), then the arrivals still to come -/
  | src (pending : Option Int) (rest : List (τ × Int))
  /-- `RR.run` not started -/
  | runStart
  /-- `RR.run` suspended in `yield self.packets_available.get()` -/
  | runTok
  /-- `RR.run` suspended in `packet = yield store.get()` at entry `i` of `flows` -/
  | runGet (i : Nat)
  /-- `RR.run` suspended in `yield env.process(self.send_packet(packet))` at entry `i` of `flows` -/
  | runSend (id : Int) (i : Nat)
  /-- `send_packet(packet)` not started -/
  | sendStart (id : Int)
  /-- `send_packet(packet)` suspended in `yield self.env.timeout(packet.size * 8.0 / self.rate)` -/
  | sendTx (id : Int)

namespace RROnK
variable {τ : Type} [Num τ]

def tokStore : Nat := 0
def flowStore (f : Nat) : Nat := 1 + f
def cRecv : Nat := 0
def cCur : Nat := 1
def cCount (f : Nat) : Nat := 10 + 3 * f
def cBytes (f : Nat) : Nat := 11 + 3 * f
def cHas (f : Nat) : Nat := 12 + 3 * f

def typeErr : Exc := ⟨"TypeError", []⟩
def assertErr : Exc := ⟨"AssertionError", []⟩
/-- the `for` loop would be repeated for ever without a `yield` -/
def hangErr : Exc := ⟨"Hang", []⟩

/-- what a program does with a reply it cannot use (never happens in the runs of this program) -/
def bad : Reply → Burst τ (RrSt τ)
  | .err x => .raise x
  | _ => .raise typeErr

/-- read an integer attribute -/
def loadInt (k : Nat) (cont : Int → Burst τ (RrSt τ)) : Burst τ (RrSt τ) :=
  .call (.load k) fun rp => match rp with
    | .val (.int n) => cont n
    | rp => bad rp

/-- `attr += d` on an integer attribute -/
def addInt (k : Nat) (d : Int) (cont : Burst τ (RrSt τ)) : Burst τ (RrSt τ) :=
  loadInt k fun n => .call (.store k (.int (n + d))) fun _ => cont

/-- `sum(self.queue_count.values())`, the counters of flows `f, f + 1, …, f + n - 1` added to `acc` -/
def sumCounts : Nat → Nat → Int → (Int → Burst τ (RrSt τ)) → Burst τ (RrSt τ)
  | _, 0, acc, cont => cont acc
  | f, n + 1, acc, cont => loadInt (cCount f) fun c => sumCounts (f + 1) n (acc + c) cont

/-- `self.total_packets` -/
def totalPackets (F : Nat) (cont : Int → Burst τ (RrSt τ)) : Burst τ (RrSt τ) := sumCounts 0 F 0 cont

/-- `add_packet_to_queue(packet)`, the debug print, `self.stores[flow_id].put(packet)` (and the note that `stores` has that key) -/
def putTail (flow size : Int → Nat) (id : Int) (cont : Burst τ (RrSt τ)) : Burst τ (RrSt τ) :=
  addInt cRecv 1 <|                                               -- self.packets_received += 1
  addInt (cCount (flow id)) 1 <|                                  -- self.queue_count[flow_id] += 1
  addInt (cBytes (flow id)) (size id) <|                          -- self.queue_byte_size[flow_id] += packet.size
  .call (.log "put" (.int id)) fun _ =>                           -- self.dprint("received packet …")
  .call (.sput (flowStore (flow id)) id) fun rp => match rp with  -- self.stores[flow_id].put(packet)
    | .ev _ => .call (.store (cHas (flow id)) (.int 1)) fun _ => cont   --   (`stores` has the key `flow_id` now)
    | rp => bad rp

/-- `MultiQueueScheduler.put(packet)`, followed by `cont` -/
def schedPut (F : Nat) (flow size : Int → Nat) (id : Int) (cont : Burst τ (RrSt τ)) : Burst τ (RrSt τ) :=
  totalPackets F fun tot =>
  if tot = 0 then                                                 -- if self.total_packets == 0:
    .call (.sput tokStore 1) fun rp => match rp with              --   self.packets_available.put(True)
      | .ev _ => putTail flow size id cont
      | rp => bad rp
  else putTail flow size id cont

/-- the source loop from its head: `for gap, id in rest: yield env.timeout(gap); …` -/
def srcLoop : List (τ × Int) → Burst τ (RrSt τ)
  | [] => .ret .none
  | (gap, id) :: rest => .call (.timeout gap .none) fun rp => match rp with
      | .ev e => .yield e (.src (some id) rest)
      | rp => bad rp

/-- `yield self.packets_available.get()` -/
def runWait : Burst τ (RrSt τ) :=
  .call (.sget tokStore 0) fun rp => match rp with
    | .ev g => .yield g .runTok
    | rp => bad rp

/-- `packet = yield store.get()` at entry `i` (flow `f`) -/
def runTake (i f : Nat) : Burst τ (RrSt τ) :=
  .call (.sget (flowStore f) 0) fun rp => match rp with
    | .ev g => .yield g (.runGet i)
    | rp => bad rp

/-- the `for flow_id in self.flows` loop from entry `i` on (`fl` = the entries still to look at); `onEnd` = what follows the
loop -/
def scanFor (onEnd : Burst τ (RrSt τ)) : Nat → List Nat → Burst τ (RrSt τ)
  | _, [] => onEnd
  | i, f :: rest =>
    loadInt (cCount f) fun c =>
    if 0 < c then                                                 -- if self.queue_count[flow_id] > 0:
      loadInt (cHas f) fun h =>                                   --   store = self.stores.get(flow_id)
      if h = 0 then .raise assertErr                              --   assert store
      else runTake i f                                            --   packet = yield store.get()
    else scanFor onEnd (i + 1) rest

/-- the end of a pass that followed a pass without a `yield`: `if self.total_packets == 0: yield
self.packets_available.get()`, else the same pass again, for ever -/
def endPass2 (F : Nat) : Burst τ (RrSt τ) :=
  totalPackets F fun tot => if tot = 0 then runWait else .raise hangErr

/-- the `for` loop has ended: `if self.total_packets == 0: yield self.packets_available.get()`, else the next pass -/
def endPass (F : Nat) (flows : List Nat) : Burst τ (RrSt τ) :=
  totalPackets F fun tot => if tot = 0 then runWait else scanFor (endPass2 F) 0 flows

/-- the `for` loop from entry `i` on, and what follows it -/
def runPass (F : Nat) (flows : List Nat) (i : Nat) : Burst τ (RrSt τ) := scanFor (endPass F flows) i (flows.drop i)

/-- `run` has the packet taken at entry `i`: `yield env.process(self.send_packet(packet))` -/
def runServe (id : Int) (i : Nat) : Burst τ (RrSt τ) :=
  .call (.log "serve" (.int id)) fun _ =>                         -- self.send_packet(packet)
  .call (.spawn (.sendStart id)) fun rp => match rp with          -- yield env.process(…)
    | .ev p => .yield p (.runSend id i)
    | rp => bad rp

/-- transmission time `packet.size * 8.0 / self.rate` -/
def txTime (size : Int → Nat) (rate : τ) (id : Int) : τ := Num.ofNat (size id * 8) / rate

/-- `send_packet(packet)` up to its `yield` -/
def sendBegin (size : Int → Nat) (rate : τ) (id : Int) : Burst τ (RrSt τ) :=
  .call (.store cCur (.int id)) fun _ =>                          -- self.current_packet = packet
  .call (.timeout (txTime size rate id) .none) fun rp => match rp with
    | .ev t => .yield t (.sendTx id)                              -- yield self.env.timeout(packet.size * 8.0 / self.rate)
    | rp => bad rp

/-- `send_packet(packet)` after the transmission delay -/
def sendEnd (flow size : Int → Nat) (id : Int) : Burst τ (RrSt τ) :=
  addInt (cCount (flow id)) (-1) <|                               -- self.queue_count[flow_id] -= 1
  addInt (cBytes (flow id)) (-(size id : Int)) <|                 -- self.queue_byte_size[flow_id] -= packet.size
  .call (.log "out" (.int id)) fun _ =>                           -- self.out.put(packet)
  .call (.store cCur .none) fun _ =>                              -- self.current_packet = None
  .ret .none

/-- the generator functions as one `K` program; `flows` = `self.flows` -/
def body (F : Nat) (flow size : Int → Nat) (rate : τ) (flows : List Nat) : RrSt τ → Resume → Burst τ (RrSt τ)
  | .src pending rest, _ =>
    match pending with
    | none => srcLoop rest
    | some id => schedPut F flow size id (srcLoop rest)
  | .runStart, _ => runPass F flows 0
  | .runTok, _ => runPass F flows 0
  | .runGet i, .value (.int id) => runServe id i
  | .runGet _, _ => .raise typeErr
  | .runSend _ i, _ => runPass F flows (i + 1)
  | .sendStart id, _ => sendBegin size rate id
  | .sendTx id, _ => sendEnd flow size id

/-- the program of an `RR(env, rate, flows)` -/
def prog (F : Nat) (flow size : Int → Nat) (cfg : RR.Cfg τ) : RrSt τ → Resume → Burst τ (RrSt τ) :=
  body F flow size cfg.rate cfg.flows

/-- event ids of the two processes that exist from the start -/
def runProc : EvId := 0
def srcProc : EvId := 2

/-- the counter cells of flows `f, …, f + n - 1` -/
def flowCells : Nat → Nat → List (Nat × Val)
  | _, 0 => []
  | f, n + 1 => (cCount f, .int 0) :: (cBytes f, .int 0) :: (cHas f, .int 0) :: flowCells (f + 1) n

def storeRes : ResRec := { kind := .store, capacity := none }

/-- a fresh environment with the `F + 1` stores, the attributes at 0 / `None`, after `RR.__init__`
(`env.process(self.run(env))`) and `env.process(source(...))` -/
def initState (F : Nat) (arrivals : List (τ × Int)) : KState τ (RrSt τ) :=
  [Call.spawn RrSt.runStart, Call.spawn (RrSt.src none arrivals)].foldl (fun s c => (doCall s 0 c).1)
    { now := Num.zero, resources := (List.replicate (F + 1) storeRes).toArray,
      shared := (cRecv, .int 0) :: (cCur, .none) :: flowCells 0 F }

/-! ## observations -/

/-- the observations `what` of a trace: `(id, env.now)` in order -/
def obsOf (what : String) : Obs τ → Option (Int × τ)
  | .log _ w (.int id) now => if w = what then some (id, now) else none
  | _ => none

def logsOf (what : String) (tr : Array (Obs τ)) : List (Int × τ) := tr.toList.filterMap (obsOf what)

/-- the `out.put(packet)` observations -/
def outsOf (tr : Array (Obs τ)) : List (Int × τ) := logsOf "out" tr
/-- the packets handed to `put` -/
def putsOf (tr : Array (Obs τ)) : List (Int × τ) := logsOf "put" tr
/-- the packets `run` has taken from a store -/
def servesOf (tr : Array (Obs τ)) : List (Int × τ) := logsOf "serve" tr

/-- the three kinds of observation of the property, in the order of the trace -/
inductive HEv (τ : Type) where
  | put (id : Int) (t : τ)
  | serve (id : Int) (t : τ)
  | out (id : Int) (t : τ)

def histOf1 : Obs τ → Option (HEv τ)
  | .log _ w (.int id) now =>
    if w = "put" then some (.put id now) else if w = "serve" then some (.serve id now)
    else if w = "out" then some (.out id now) else none
  | _ => none

def histOf (tr : Array (Obs τ)) : List (HEv τ) := tr.toList.filterMap histOf1

/-! ## the abstraction function -/

/-- value of an attribute cell -/
def cellVal (s : KState τ (RrSt τ)) (k : Nat) : Val := ((s.shared.find? (·.1 == k)).map (·.2)).getD Val.none

/-- value of an integer attribute cell (0 if unset) -/
def cellInt (s : KState τ (RrSt τ)) (k : Nat) : Int :=
  match cellVal s k with
  | Val.int n => n
  | _ => 0

/-- the packet object behind an id, as the LTS sees it -/
def pktOf (flow size : Int → Nat) (id : Int) : MPkt := { id := id.toNat, flow := flow id, size := size id }

/-- a dict key is inserted at its first use -/
def addKey (l : List Nat) (k : Nat) : List Nat := if l.contains k then l else l ++ [k]

/-- the keys of `queue_byte_size` / `stores` in insertion order: the flows in the order of their first `put` -/
def keysOf (flow : Int → Nat) (ids : List Int) : List Nat := ids.foldl (fun l id => addKey l (flow id)) []

/-- the keys of `queue_count` in insertion order: once `run` has started, the declared flows in declaration order (its first
burst reads `queue_count[f]` for each of them before any `put`), then the other flows in the order of their first `put` -/
def countKeys (flows : List Nat) (started : Bool) (flow : Int → Nat) (ids : List Int) : List Nat :=
  ids.foldl (fun l id => addKey l (flow id)) (if started then flows.foldl addKey [] else [])

/-- the instant at which the agenda entry of event `t` is due -/
def dueOf (s : KState τ (RrSt τ)) (t : EvId) : τ :=
  ((s.agenda.find? (·.ev == t)).map (·.time)).getD s.now

/-- where the server loop and its sender stand, read off the process records and the events they wait for -/
def absPhase (flow size : Int → Nat) (s : KState τ (RrSt τ)) : MQ.Phase τ × RR.Pc :=
  match s.proc? runProc with
  | some { st := .runTok, target := some g } =>
    if (s.ev g).out.isSome then (.tokenHanded, .at 0) else (.waitToken, .at 0)
  | some { st := .runGet i, target := some g } =>
    match (s.ev g).out with
    | some (.ok (.int id)) => (.pktHanded (flow id) (pktOf flow size id), .got i)
    | _ => (.running, .got i)
  | some { st := .runSend id i, target := some p } =>
    if (s.ev p).out.isSome then (.finished (pktOf flow size id), .sent i) else
    match s.proc? p with
    | some { st := .sendTx _, target := some t } => (.sending (pktOf flow size id) (dueOf s t), .sent i)
    | _ => (.spawned (pktOf flow size id), .sent i)
  | _ => (.idle, .at 0)

/-- has `run` executed its first burst? -/
def started (s : KState τ (RrSt τ)) : Bool :=
  match s.proc? runProc with
  | some { st := .runStart, target := _ } => false
  | _ => true

/-- **abstraction function**: the state of the MultiQueueServer LTS (with the RR record) a kernel state of this program
stands for, read off the process records, the stores, the attribute cells and (for the key order of the dicts) the `put`
observations and whether `run` has started (see the header) -/
def absRR (flows : List Nat) (flow size : Int → Nat) (s : KState τ (RrSt τ)) : MQ.MQState τ RR.Pc :=
  let keys := keysOf flow ((putsOf s.trace).map (·.1))
  let ckeys := countKeys flows (started s) flow ((putsOf s.trace).map (·.1))
  let ph := absPhase flow size s
  { now := s.now
    ctl := ph.2
    stores := keys.map fun f => (f, (s.res (flowStore f)).items.map (pktOf flow size))
    hol := []
    queueCount := ckeys.map fun f => (f, cellInt s (cCount f))
    queueBytes := keys.map fun f => (f, cellInt s (cBytes f))
    tokens := (s.res tokStore).items.length
    phase := ph.1
    currentPacket := match cellVal s cCur with
      | .int id => some (pktOf flow size id)
      | _ => none
    received := (cellInt s cRecv).toNat }

/-- the final state of `run()` if it returned, else `none` -/
def finalState (r : RunResult τ (RrSt τ)) : Option (KState τ (RrSt τ)) :=
  match r with
  | .returned _ s => some s
  | _ => none

/-! ## the property restated as an oracle over the `put` / `serve` / `out` history

The oracle keeps, per flow, the packets handed to `put` and not yet taken by `run` (with the instant of the `put`), the
packet in transmission (with the instant its service started), the instant of the last departure, and the *cursor*: the
entry of `flows` behind the one served last (0 at the start).  It accepts

* `serve id t` only if nothing is in transmission, `id` is the *oldest* waiting packet of its flow, its flow is entry `j` of
  `flows`, and **no entry that the cyclic order puts before `j` — from the cursor up to `j`, wrapping at the end of `flows` —
  has a packet that was put in an earlier instant and still waits** (a packet put later in the same instant is not waiting
  at the decision: the decision burst precedes this observation within the instant); the service starts **either at the
  instant of the last departure or at the instant at which every waiting packet was put** (never idle with a backlog); the
  cursor moves to `j + 1` (one packet per visit);
* `out id t` only if `id` is the packet in transmission and `t` is exactly its service start plus `8·size/rate`. -/

/-- `a = b` on times, through `<` -/
def eqT (a b : τ) : Prop := ¬ a < b ∧ ¬ b < a

instance (a b : τ) : Decidable (eqT a b) := by unfold eqT; infer_instance

structure OSt (τ : Type) where
  /-- per flow: the packets handed to `put` and not yet taken by `run`, with the instant of the `put`, oldest first -/
  waiting : Nat → List (Int × τ)
  /-- the packet in transmission with the instant its service started -/
  busy : Option (Int × τ)
  /-- the instant of the last departure -/
  lastOut : Option τ
  /-- the entry of `flows` behind the one served last -/
  cursor : Nat

/-- nothing has happened yet -/
def oInit : OSt τ := { waiting := fun _ => [], busy := none, lastOut := none, cursor := 0 }

/-- `w[f] := l` -/
def setQ (w : Nat → List (Int × τ)) (f : Nat) (l : List (Int × τ)) : Nat → List (Int × τ) := fun x => if x = f then l else w x

/-- the entries the cyclic order visits from entry `c` before it reaches entry `j` (`n` = the number of entries) -/
def skipped (n c j : Nat) : List Nat := if c ≤ j then List.range' c (j - c) else List.range' c (n - c) ++ List.range j

/-- the last departure was at `t` -/
def lastIs : Option τ → τ → Prop
  | some d, t => eqT d t
  | none, _ => False

instance (o : Option τ) (t : τ) : Decidable (lastIs o t) := by
  cases o <;> unfold lastIs <;> infer_instance

/-- what the property demands when `run` starts the service of packet `id` at instant `t` -/
def ServeOK (F : Nat) (flow : Int → Nat) (flows : List Nat) (o : OSt τ) (id : Int) (t : τ) : Prop :=
  o.busy.isNone = true ∧                                                  -- one at a time
  (o.waiting (flow id)).head?.map (·.1) = some id ∧                       -- the oldest waiting packet of its flow
  (flows.idxOf (flow id) < flows.length ∧                                 -- cyclic order, empty classes skipped
    ∀ j' ∈ skipped flows.length o.cursor (flows.idxOf (flow id)), ∀ x ∈ o.waiting (flows.getD j' 0), ¬ x.2 < t) ∧
  (lastIs o.lastOut t ∨ ∀ f ∈ List.range F, ∀ x ∈ o.waiting f, eqT x.2 t)  -- never idle with a backlog

instance (F : Nat) (flow : Int → Nat) (flows : List Nat) (o : OSt τ) (id : Int) (t : τ) :
    Decidable (ServeOK F flow flows o id t) := by unfold ServeOK; infer_instance

/-- what the property demands when packet `id` is handed to `out.put` at instant `t` -/
def OutOK (size : Int → Nat) (rate : τ) (o : OSt τ) (id : Int) (t : τ) : Prop :=
  match o.busy with
  | some (id', s) => id' = id ∧ eqT t (s + txTime size rate id)
  | none => False

instance (size : Int → Nat) (rate : τ) (o : OSt τ) (id : Int) (t : τ) : Decidable (OutOK size rate o id t) := by
  unfold OutOK
  cases o.busy with
  | none => infer_instance
  | some x => cases x; infer_instance

/-- one observation -/
def ostep (F : Nat) (flow size : Int → Nat) (cfg : RR.Cfg τ) (o : OSt τ) : HEv τ → Option (OSt τ)
  | .put id t => some { o with waiting := setQ o.waiting (flow id) (o.waiting (flow id) ++ [(id, t)]) }
  | .serve id t =>
    if ServeOK F flow cfg.flows o id t then
      some { o with waiting := setQ o.waiting (flow id) (o.waiting (flow id)).tail, busy := some (id, t),
                    cursor := cfg.flows.idxOf (flow id) + 1 }
    else none
  | .out id t => if OutOK size cfg.rate o id t then some { o with busy := none, lastOut := some t } else none

/-- a history -/
def orun (F : Nat) (flow size : Int → Nat) (cfg : RR.Cfg τ) : OSt τ → List (HEv τ) → Option (OSt τ)
  | o, [] => some o
  | o, ev :: r => (ostep F flow size cfg o ev).bind fun o' => orun F flow size cfg o' r

/-- everything has been served: nothing waits, nothing is in transmission -/
def drained (F : Nat) (o : OSt τ) : Bool := o.busy.isNone && (List.range F).all fun f => (o.waiting f).isEmpty

/-- the arrival instants of a workload: packet `k` arrives at the sum of the first `k + 1` gaps -/
def arrivalsFrom (t : τ) : List (τ × Int) → List (Int × τ)
  | [] => []
  | (gap, id) :: r => (id, t + gap) :: arrivalsFrom (t + gap) r

/-! ## label inference and an executable refinement check (used by the `example`s of `Props/C15K.lean`)

`Props/C15K.lean` proves that every kernel step is an action sequence the LTS accepts between the abstractions of the two
states.  The functions below *compute* such a sequence from the two abstractions (as `harness/mq.py` does from the public
attributes of the real scheduler) and replay it through the LTS, so that concrete runs can be checked by evaluation. -/

/-- the LTS actions of one kernel step, read off the abstractions before and after it and the packets `put` in it -/
def inferActs (pre post : MQ.MQState τ RR.Pc) (newPuts : List MPkt) : List (MQ.MAct τ) :=
  (if pre.now < post.now then [MQ.MAct.tick post.now] else []) ++
  (newPuts.map fun p => MQ.MAct.put p) ++
  (match pre.phase, post.phase with
   | .idle, .idle => []
   | .idle, _ => [.init]
   | .waitToken, .tokenHanded => [.tokenHandoff]
   | .tokenHanded, .tokenHanded => if post.tokens < pre.tokens then [.wake] else []
   | .tokenHanded, _ => [.wake]
   | .pktHanded _ _, .spawned _ => [.pktResume]
   | .spawned _, .sending _ _ => [.sendInit]
   | .sending _ _, .finished _ => [.sendFire]
   | .finished _, .finished _ => []
   | .finished _, _ => [.sendDone]
   | _, _ => [])

def samePhase : MQ.Phase τ → MQ.Phase τ → Bool
  | .idle, .idle => true
  | .running, .running => true
  | .waitToken, .waitToken => true
  | .tokenHanded, .tokenHanded => true
  | .pktHanded c p, .pktHanded c' p' => decide (c = c' ∧ p = p')
  | .spawned p, .spawned p' => decide (p = p')
  | .sending p d, .sending p' d' => decide (p = p') && Num.eqb d d'
  | .finished p, .finished p' => decide (p = p')
  | _, _ => false

/-- equality of LTS states, field by field -/
def sameState (a b : MQ.MQState τ RR.Pc) : Bool :=
  Num.eqb a.now b.now && decide (a.ctl = b.ctl) && decide (a.stores = b.stores) && decide (a.hol = b.hol) &&
  decide (a.queueCount = b.queueCount) && decide (a.queueBytes = b.queueBytes) && decide (a.tokens = b.tokens) &&
  samePhase a.phase b.phase && decide (a.currentPacket = b.currentPacket) && decide (a.received = b.received)

/-- run a list of actions through the LTS -/
def runLts (sc : MQ.Sched τ RR.Pc) : MQ.MQState τ RR.Pc → List (MQ.MAct τ) → Except String (MQ.MQState τ RR.Pc)
  | s, [] => .ok s
  | s, a :: as =>
    match MQ.step sc s a with
    | .ok (s', _) => runLts sc s' as
    | .error m => .error m

/-- run the kernel model for at most `n` steps from `s`; after every step replay the inferred actions through the LTS from
`absRR` of the state before and compare with `absRR` of the state after.  `some k`: the agenda ran empty after `k` steps and
every step was accepted and commuted; `none`: a step crashed, was rejected, did not commute, or the budget ran out -/
def refineCheck (F : Nat) (flow size : Int → Nat) (cfg : RR.Cfg τ) : Nat → KState τ (RrSt τ) → Nat → Option Nat
  | 0, _, _ => none
  | n + 1, s, k =>
    match step (prog F flow size cfg) 1 s with
    | .ok s' =>
      let newPuts := (((putsOf s'.trace).drop (putsOf s.trace).length).map (·.1)).map (pktOf flow size)
      match runLts (RR.sched cfg) (absRR cfg.flows flow size s) (inferActs (absRR cfg.flows flow size s) (absRR cfg.flows flow size s') newPuts) with
      | .ok m => if sameState m (absRR cfg.flows flow size s') then refineCheck F flow size cfg n s' (k + 1) else none
      | .error _ => none
    | .empty => some k
    | _ => none

end RROnK
