import OnlVerif.Kernel.Step
import OnlVerif.Kernel.TimeCell
import OnlVerif.Kernel.StampCode
import OnlVerif.Net.StampServer
import OnlVerif.Net.Sched.VC
/-!
# The VirtualClock scheduler as processes *on the kernel model `K`*

`OnlVerif/Net/StampServer.lean` with `OnlVerif/Net/Sched/VC.lean` describes `onl.scheduler.VC` as a labelled transition
system over its atomic bursts (model `E`); its admissibility rules *assume* what the kernel guarantees.  This file writes
the same device as a program of the kernel model (`OnlVerif/Kernel`): `VC.put`, `Scheduler.send_packet` (a child process per
transmission, joined by the server with `yield process`), `VC.run` and a packet source are `Burst` programs, the
`PriorityStore` is a `pstore` resource of `K`, and nothing is assumed about scheduling: `K`'s `step` decides what runs when.
`OnlVerif/Props/C14K.lean` proves that every run of this program is an admissible run of the LTS (refinement) and has the
properties C12/C14 name.

```python
def put(self, packet):                                              def run(self, env):
    class_id = self.flow2class(packet.flow_id)                          while True:
    now = self.env.now                                                      item = yield self.store.get()
    if self.vc[class_id] == 0:                                              packet = item.item
        self.vc[class_id] = self.env.now                                    yield env.process(self.send_packet(packet))
    self.aux_vc[class_id] = max(now, self.aux_vc[class_id])
    self.vc[class_id] = (self.vc[class_id]                          def send_packet(self, packet):
        + self.vticks[class_id] * packet.size * 8.0)                    self.current_packet = packet
    self.aux_vc[class_id] += self.vticks[class_id]                      yield self.env.timeout(packet.size * 8.0 / self.rate)
    self.add_packet_to_queue(packet)                                    flow_id = packet.flow_id
    self.store.put(PriorityItem((self.aux_vc[class_id], now),           self.queue_count[flow_id] -= 1
                                packet))                                self.queue_byte_size[flow_id] -= packet.size
                                                                        if self.out: self.out.put(packet)
                                                                        self.current_packet = None
```

Encoding (modelling devices, all of them):

* classes are `0 … F-1`, `flow2class` is the identity; a packet is its `Int` id, `flow : Int → Nat` gives `packet.flow_id`,
  `size : Int → Nat` gives `packet.size`; the packets of the workload carry the ids of a strictly increasing sequence in
  `0 … N-1` (`N` is a parameter of the program); an `out` is attached;
* resource `0` is `self.store`, a `PriorityStore` (`ResKind.pstore`, unbounded).  **The key.**  `K`'s `pstore` holds integers
  and hands out the least one; the real store holds `PriorityItem((stamp, now), packet)` and `heapq` compares `(stamp, now)`
  as a tuple.  The program puts the integer `code(stamp) · N + id` (`Kernel/StampCode.lean`): `code` is an order-preserving
  integer code of the scalar (at `Float` the bit pattern of the non-negative double; at `ℚ` the floor of `scale · stamp`, which
  preserves `<` on the grid `ℤ/scale` — the theorems assume that the vticks and the gaps lie on that grid, which every finite
  rational workload does for a suitable `scale`, and prove that then every stamp does).  The second key component `now` is carried by the packet
  id: one source hands the packets over in id order, so `now` is non-decreasing in the id and `(stamp, now)` and `(stamp, id)`
  order every pair of items the same way unless stamp *and* instant are equal — for those `heapq`'s choice depends on the heap
  layout (outside every model of this tree; the LTS accepts either) and the program takes the earlier arrival.  `item.item` is the
  remainder mod `N`;
* the attributes live in the shared cells of `K` (`Call.load/store`): cell 0 = `packets_received`, 1 = `current_packet`
  (`None` or the packet), `10 + 4c` = `queue_count[c]`, `11 + 4c` = `queue_byte_size[c]` (preset to 0, what the
  `defaultdict(int)` yields for a missing key; the *key order* of the two dicts — first `put` of each flow — is recovered by
  the abstraction function from the `put` observations), `12 + 4c` = `vc[c]`, `13 + 4c` = `aux_vc[c]` (scalars, through the
  codec `TimeCell`; set to 0 for the classes of `vticks`, a class without a cell makes `put` raise `KeyError` as the dict
  would); `vticks` is never assigned and is read from the configuration;
* `K` has no call that reads `env.now`: the source carries the instant of its next resumption in its local state (`now + gap`,
  the kernel's own expression); that it is `env.now` whenever `put` runs is part of the proved invariant; the observations
  record the kernel's own clock.  No other generator reads the clock;
* observations (each recorded with `env.now` in `KState.trace`): the call of `put` is `log "put" (int id)`, the stamp it
  computes is `log "stamp" (enc stamp)`, the call `self.store.get()` of `run` is `log "get" None`, the call
  `self.send_packet(packet)` is `log "serve" (int id)`, `self.out.put(packet)` is `log "out" (int id)`;
* the source is the process `for (gap, id) in arrivals: yield env.timeout(gap); vc.put(packet id)`;
* the local state of a suspended generator names its `yield` and the locals it still needs.

Besides the program the file holds what the theorems of `Props/C14K.lean` are stated with: the observations of a trace, the
executable abstraction function `absVC` (kernel state ↦ LTS state), the property restated as an executable oracle over the
`put` / `stamp` / `get` / `serve` / `out` history (`ostep`, `orun`), and a label inference with an executable refinement check
(`refineCheck`) for the `example`s.
-/

/-- local states of the generator functions (where each one is suspended) -/
inductive VcKSt (τ : Type) where
  /-- the source: resumes at `now`; suspended on the timeout before `put(pending)` (`none`: not started), then the arrivals
  still to come -/
  | src (now : τ) (pending : Option Int) (rest : List (τ × Int))
  /-- `VC.run` not started -/
  | runStart
  /-- `VC.run` suspended in `item = yield self.store.get()` -/
  | runGet
  /-- `VC.run` suspended in `yield env.process(self.send_packet(packet))` -/
  | runSend (id : Int)
  /-- `send_packet(packet)` not started -/
  | sendStart (id : Int)
  /-- `send_packet(packet)` suspended in `yield self.env.timeout(packet.size * 8.0 / self.rate)` -/
  | sendTx (id : Int)

namespace VCOnK
variable {τ : Type} [Num τ] [TimeCell τ] [StampCode τ]

def pst : Nat := 0
def cRecv : Nat := 0
def cCur : Nat := 1
def cCount (f : Nat) : Nat := 10 + 4 * f
def cBytes (f : Nat) : Nat := 11 + 4 * f
def cVc (c : Nat) : Nat := 12 + 4 * c
def cAux (c : Nat) : Nat := 13 + 4 * c

def typeErr : Exc := ⟨"TypeError", []⟩
def keyErr : Exc := ⟨"KeyError", []⟩

/-- what a program does with a reply it cannot use (never happens in the runs of this program) -/
def bad : Reply → Burst τ (VcKSt τ)
  | .err x => .raise x
  | _ => .raise typeErr

/-- read an integer attribute -/
def loadInt (k : Nat) (cont : Int → Burst τ (VcKSt τ)) : Burst τ (VcKSt τ) :=
  .call (.load k) fun rp => match rp with
    | .val (.int n) => cont n
    | rp => bad rp

/-- `attr += d` on an integer attribute -/
def addInt (k : Nat) (d : Int) (cont : Burst τ (VcKSt τ)) : Burst τ (VcKSt τ) :=
  loadInt k fun n => .call (.store k (.int (n + d))) fun _ => cont

/-- `d[class_id]` on a dict of scalars: `KeyError` when the class has no entry -/
def loadKey (k : Nat) (cont : τ → Burst τ (VcKSt τ)) : Burst τ (VcKSt τ) :=
  .call (.load k) fun rp => match rp with
    | .val v => (match TimeCell.dec v with
      | some x => cont x
      | none => .raise keyErr)
    | rp => bad rp

/-- `add_packet_to_queue(packet)` -/
def addPacket (flow size : Int → Nat) (id : Int) (cont : Burst τ (VcKSt τ)) : Burst τ (VcKSt τ) :=
  addInt cRecv 1 <|                                               -- self.packets_received += 1
  addInt (cCount (flow id)) 1 <|                                  -- self.queue_count[flow_id] += 1
  addInt (cBytes (flow id)) (size id) cont                        -- self.queue_byte_size[flow_id] += packet.size

/-- `VC.put(packet)` at instant `now`, followed by `cont` -/
def vcPut (flow size : Int → Nat) (cfg : VcCfg τ) (N scale : Nat) (now : τ) (id : Int) (cont : Burst τ (VcKSt τ)) :
    Burst τ (VcKSt τ) :=
  .call (.log "put" (.int id)) fun _ =>
  loadKey (cVc (flow id)) fun v =>                                -- self.vc[class_id]
  loadKey (cAux (flow id)) fun a =>                               -- self.aux_vc[class_id]
  match Stamp.lookup cfg.vticks (flow id) with                    -- self.vticks[class_id]
  | none => .raise keyErr
  | some vt =>
    .call (.store (cVc (flow id)) (TimeCell.enc (VC.vcOf v now vt (size id)))) fun _ =>
    .call (.store (cAux (flow id)) (TimeCell.enc (VC.auxOf now a vt))) fun _ =>
    .call (.log "stamp" (TimeCell.enc (VC.auxOf now a vt))) fun _ =>
    addPacket flow size id <|                                     -- self.add_packet_to_queue(packet)
    .call (.sput pst (stampItem scale N (VC.auxOf now a vt) id)) fun rp => match rp with
      | .ev _ => cont                                             -- self.store.put(PriorityItem((aux_vc, now), packet))
      | rp => bad rp

/-- the source loop from its head at instant `now`: `for gap, id in rest: yield env.timeout(gap); …` -/
def srcLoop (now : τ) : List (τ × Int) → Burst τ (VcKSt τ)
  | [] => .ret .none
  | (gap, id) :: rest => .call (.timeout gap .none) fun rp => match rp with
      | .ev e => .yield e (.src (now + gap) (some id) rest)
      | rp => bad rp

/-- `item = yield self.store.get()` -/
def runLoop : Burst τ (VcKSt τ) :=
  .call (.log "get" .none) fun _ =>
  .call (.sget pst 0) fun rp => match rp with
    | .ev g => .yield g .runGet
    | rp => bad rp

/-- `run` has the item: `packet = item.item; yield env.process(self.send_packet(packet))` -/
def runServe (id : Int) : Burst τ (VcKSt τ) :=
  .call (.log "serve" (.int id)) fun _ =>
  .call (.spawn (.sendStart id)) fun rp => match rp with
    | .ev p => .yield p (.runSend id)
    | rp => bad rp

/-- transmission time `packet.size * 8.0 / self.rate` -/
def txTime (size : Int → Nat) (rate : τ) (id : Int) : τ := Num.ofNat (size id * 8) / rate

/-- `send_packet(packet)` up to its `yield` -/
def sendBegin (size : Int → Nat) (rate : τ) (id : Int) : Burst τ (VcKSt τ) :=
  .call (.store cCur (.int id)) fun _ =>                          -- self.current_packet = packet
  .call (.timeout (txTime size rate id) .none) fun rp => match rp with
    | .ev t => .yield t (.sendTx id)                              -- yield self.env.timeout(packet.size * 8.0 / self.rate)
    | rp => bad rp

/-- `send_packet(packet)` after the transmission delay -/
def sendEnd (flow size : Int → Nat) (id : Int) : Burst τ (VcKSt τ) :=
  addInt (cCount (flow id)) (-1) <|                               -- self.queue_count[flow_id] -= 1
  addInt (cBytes (flow id)) (-(size id : Int)) <|                 -- self.queue_byte_size[flow_id] -= packet.size
  .call (.log "out" (.int id)) fun _ =>                           -- self.out.put(packet)
  .call (.store cCur .none) fun _ =>                              -- self.current_packet = None
  .ret .none

/-- the generator functions as one `K` program -/
def prog (flow size : Int → Nat) (cfg : VcCfg τ) (N scale : Nat) : VcKSt τ → Resume → Burst τ (VcKSt τ)
  | .src now pending rest, _ =>
    match pending with
    | none => srcLoop now rest
    | some id => vcPut flow size cfg N scale now id (srcLoop now rest)
  | .runStart, _ => runLoop
  | .runGet, .value (.int item) => runServe (itemPkt N item)      -- packet = item.item
  | .runGet, _ => .raise typeErr
  | .runSend _, _ => runLoop
  | .sendStart id, _ => sendBegin size cfg.rate id
  | .sendTx id, _ => sendEnd flow size id

/-- event ids of the two processes that exist from the start -/
def runProc : EvId := 0
def srcProc : EvId := 2

/-- the counter cells of flows `f, …, f + n - 1` -/
def flowCells : Nat → Nat → List (Nat × Val)
  | _, 0 => []
  | f, n + 1 => (cCount f, .int 0) :: (cBytes f, .int 0) :: flowCells (f + 1) n

/-- `for class_id in vticks.keys(): self.aux_vc[class_id] = 0; self.vc[class_id] = 0` -/
def classCells : List (Nat × τ) → List (Nat × Val)
  | [] => []
  | (c, _) :: r => (cVc c, TimeCell.enc (Num.zero : τ)) :: (cAux c, TimeCell.enc (Num.zero : τ)) :: classCells r

def storeRes : ResRec := { kind := .pstore, capacity := none }

/-- a fresh environment with the `PriorityStore`, the attributes at 0 / `None`, after `VC.__init__`
(`env.process(self.run(env))`) and `env.process(source(...))` -/
def initState (F : Nat) (cfg : VcCfg τ) (arrivals : List (τ × Int)) : KState τ (VcKSt τ) :=
  [Call.spawn VcKSt.runStart, Call.spawn (VcKSt.src Num.zero none arrivals)].foldl (fun s c => (doCall s 0 c).1)
    { now := Num.zero, resources := #[storeRes],
      shared := (cRecv, .int 0) :: (cCur, .none) :: (flowCells 0 F ++ classCells cfg.vticks) }

/-! ## observations -/

/-- the observations of the property, in the order of the trace -/
inductive HEv (τ : Type) where
  | put (id : Int) (t : τ)
  | stamp (x : τ)
  | get (t : τ)
  | serve (id : Int) (t : τ)
  | out (id : Int) (t : τ)

def histOf1 : Obs τ → Option (HEv τ)
  | .log _ w v now =>
    if w = "put" then (match v with | .int id => some (.put id now) | _ => none)
    else if w = "stamp" then (TimeCell.dec v).map HEv.stamp
    else if w = "get" then some (.get now)
    else if w = "serve" then (match v with | .int id => some (.serve id now) | _ => none)
    else if w = "out" then (match v with | .int id => some (.out id now) | _ => none)
    else none
  | _ => none

def histOf (tr : Array (Obs τ)) : List (HEv τ) := tr.toList.filterMap histOf1

/-- the packets handed to `put`: `(id, env.now)` in order -/
def putsOf (tr : Array (Obs τ)) : List (Int × τ) := (histOf tr).filterMap fun | .put id t => some (id, t) | _ => none
/-- the stamps `put` computed, in order -/
def stampsOf (tr : Array (Obs τ)) : List τ := (histOf tr).filterMap fun | .stamp x => some x | _ => none
/-- the packets `run` has handed to `send_packet` -/
def servesOf (tr : Array (Obs τ)) : List (Int × τ) := (histOf tr).filterMap fun | .serve id t => some (id, t) | _ => none
/-- the `out.put(packet)` observations -/
def outsOf (tr : Array (Obs τ)) : List (Int × τ) := (histOf tr).filterMap fun | .out id t => some (id, t) | _ => none

/-! ## the abstraction function -/

/-- value of an attribute cell -/
def cellVal (s : KState τ (VcKSt τ)) (k : Nat) : Val := ((s.shared.find? (·.1 == k)).map (·.2)).getD Val.none

/-- value of an integer attribute cell (0 if unset) -/
def cellInt (s : KState τ (VcKSt τ)) (k : Nat) : Int :=
  match cellVal s k with
  | Val.int n => n
  | _ => 0

/-- value of a scalar attribute cell (0 if unset) -/
def cellNum (s : KState τ (VcKSt τ)) (k : Nat) : τ := (TimeCell.dec (cellVal s k)).getD Num.zero

/-- the packet object behind an id, as the LTS sees it -/
def pktOf (flow size : Int → Nat) (id : Int) : SPkt := { id := id.toNat, flow := flow id, size := size id }

/-- a dict key is inserted at its first use -/
def addKey (l : List Nat) (k : Nat) : List Nat := if l.contains k then l else l ++ [k]

/-- the keys of `queue_count` / `queue_byte_size` in insertion order: the flows in the order of their first `put` -/
def keysOf (flow : Int → Nat) (ids : List Int) : List Nat := ids.foldl (fun l id => addKey l (flow id)) []

/-- the `(stamp, now)` key `put` gave packet `id`: the `k`-th `put` observation goes with the `k`-th `stamp` observation -/
def keyOf (tr : Array (Obs τ)) (id : Int) : τ × τ :=
  match ((putsOf tr).zip (stampsOf tr)).find? (·.1.1 == id) with
  | some ((_, t), x) => (x, t)
  | none => (Num.zero, Num.zero)

/-- the `PriorityItem` a carried integer stands for -/
def itemOf (flow size : Int → Nat) (N : Nat) (tr : Array (Obs τ)) (item : Int) : Item τ :=
  { stamp := (keyOf tr (itemPkt N item)).1, arr := (keyOf tr (itemPkt N item)).2, pkt := pktOf flow size (itemPkt N item) }

/-- the instant at which the agenda entry of event `t` is due -/
def dueOf (s : KState τ (VcKSt τ)) (t : EvId) : τ :=
  ((s.agenda.find? (·.ev == t)).map (·.time)).getD s.now

/-- where the server loop and its sender stand, read off the process records and the events they wait for -/
structure Ph (τ : Type) where
  started : Bool := true
  getPending : Bool := false
  handed : Option Int := none
  spawned : Option Int := none
  tx : Option (Int × τ) := none
  fin : Option Int := none

def absPhase (s : KState τ (VcKSt τ)) : Ph τ :=
  match s.proc? runProc with
  | some { st := .runStart, target := _ } => { started := false }
  | some { st := .runGet, target := some g } =>
    match (s.ev g).out with
    | some (.ok (.int item)) => { handed := some item }
    | _ => { getPending := true }
  | some { st := .runSend id, target := some p } =>
    if (s.ev p).out.isSome then { fin := some id } else
    match s.proc? p with
    | some { st := .sendTx _, target := some t } => { tx := some (id, dueOf s t) }
    | _ => { spawned := some id }
  | _ => {}

/-- **abstraction function**: the state of the StampServer LTS (with the VC record) a kernel state of this program stands
for, read off the process records, the store, the attribute cells and the `put` / `stamp` observations (key order of the
dicts, keys of the items) -/
def absVC (flow size : Int → Nat) (cfg : VcCfg τ) (N : Nat) (s : KState τ (VcKSt τ)) : StState τ (VcSt τ) :=
  let keys := keysOf flow ((putsOf s.trace).map (·.1))
  let ph := absPhase s
  { now := s.now
    sch := { vc := cfg.vticks.map fun kv => (kv.1, cellNum s (cVc kv.1)),
             aux := cfg.vticks.map fun kv => (kv.1, cellNum s (cAux kv.1)) }
    items := (s.res pst).items.map (itemOf flow size N s.trace)
    getPending := ph.getPending
    handed := ph.handed.map (itemOf flow size N s.trace)
    spawned := ph.spawned.map (pktOf flow size)
    tx := ph.tx.map fun x => (pktOf flow size x.1, x.2)
    fin := ph.fin.map (pktOf flow size)
    currentPacket := match cellVal s cCur with
      | .int id => some (pktOf flow size id)
      | _ => none
    queueCount := keys.map fun f => (f, cellInt s (cCount f))
    queueBytes := keys.map fun f => (f, cellInt s (cBytes f))
    started := ph.started }

/-- the final state of `run()` if it returned, else `none` -/
def finalState (r : RunResult τ (VcKSt τ)) : Option (KState τ (VcKSt τ)) :=
  match r with
  | .returned _ s => some s
  | _ => none

/-! ## the property restated as an oracle over the `put` / `stamp` / `get` / `serve` / `out` history

The oracle keeps `aux_vc` per class as the stamp rule prescribes it, the packets handed to `put` and not yet handed to
`send_packet` with their `(stamp, arrival instant)`, the *candidates* of the hand-off that is under way (the packets that
were waiting when `run` called `store.get()`; if none was, the first packet to arrive after it), the packet in transmission
with the instant its service started, and the instant of the last departure.  It accepts

* `put id t` then `stamp x` only if `x = max(t, aux[c]) + vtick[c]` for the class `c` of the packet (**the stamp rule at
  every arrival**);
* `get t` only if nothing is in transmission and no hand-off is under way, at instant 0 for the first one and **at the
  instant of the last departure** afterwards (never idle with a backlog: the server asks for the next packet in the very
  instant a transmission ends);
* `serve id t` only if `id` is one of the candidates, **no candidate has a smaller `(stamp, arrival instant)`**, it is the
  oldest waiting packet of its flow, and `t` is the instant of the hand-off (the instant of the `get` if a packet was
  waiting then, else the arrival instant of the packet: the store never keeps a packet back);
* `out id t` only if `id` is the packet in transmission and `t` is exactly its service start plus `8·size/rate`. -/

/-- `a = b` on times, through `<` -/
def eqT (a b : τ) : Prop := ¬ a < b ∧ ¬ b < a

instance (a b : τ) : Decidable (eqT a b) := by unfold eqT; infer_instance

/-- a waiting packet: id, stamp, arrival instant -/
abbrev WItem (τ : Type) := Int × τ × τ

/-- Python's `(stamp₁, now₁) < (stamp₂, now₂)` -/
def keyLt (a b : WItem τ) : Prop := a.2.1 < b.2.1 ∨ (¬ b.2.1 < a.2.1 ∧ a.2.2 < b.2.2)

instance (a b : WItem τ) : Decidable (keyLt a b) := by unfold keyLt; infer_instance

structure OSt (τ : Type) where
  /-- `aux_vc` per class, as the stamp rule prescribes it -/
  aux : Nat → τ
  /-- the `put` whose `stamp` observation is still to come -/
  pend : Option (Int × τ)
  /-- the packets handed to `put` and not yet to `send_packet`, oldest first -/
  waiting : List (WItem τ)
  /-- a hand-off is under way (`store.get()` called, `send_packet` not yet): its candidates and its instant -/
  cand : Option (List (WItem τ) × τ)
  /-- the packet in transmission with the instant its service started -/
  busy : Option (Int × τ)
  /-- the instant of the last departure -/
  lastOut : Option τ

/-- nothing has happened yet -/
def oInit : OSt τ := { aux := fun _ => Num.zero, pend := none, waiting := [], cand := none, busy := none, lastOut := none }

/-- `g[c] := v` -/
def setA (g : Nat → τ) (c : Nat) (v : τ) : Nat → τ := fun x => if x = c then v else g x

/-- the stamp rule: `x = max(t, aux[c]) + vtick[c]` -/
def StampOK (flow : Int → Nat) (cfg : VcCfg τ) (o : OSt τ) (id : Int) (t x : τ) : Prop :=
  ∃ kv ∈ cfg.vticks, kv.1 = flow id ∧ eqT x (Num.pymax t (o.aux (flow id)) + kv.2)

instance (flow : Int → Nat) (cfg : VcCfg τ) (o : OSt τ) (id : Int) (t x : τ) : Decidable (StampOK flow cfg o id t x) := by
  unfold StampOK; infer_instance

/-- the instant a `get` is due at: 0 for the first one, the last departure afterwards -/
def GetOK (o : OSt τ) (t : τ) : Prop :=
  o.busy.isNone = true ∧ o.cand.isNone = true ∧ o.pend.isNone = true ∧
  match o.lastOut with
  | some d => eqT d t
  | none => eqT t Num.zero

instance (o : OSt τ) (t : τ) : Decidable (GetOK o t) := by
  unfold GetOK; cases o.lastOut <;> infer_instance

/-- what the property demands when `run` hands packet `id` to `send_packet` at instant `t` -/
def ServeOK (flow : Int → Nat) (o : OSt τ) (id : Int) (t : τ) : Prop :=
  o.busy.isNone = true ∧ o.pend.isNone = true ∧
  match o.cand with
  | none => False
  | some (l, th) =>
    eqT t th ∧                                                             -- in the instant of the hand-off
    ∃ w ∈ l, w.1 = id ∧ (∀ w' ∈ l, ¬ keyLt w' w) ∧                         -- a candidate with a minimal key
      ((o.waiting.filter fun y => flow y.1 = flow id).head?.map (·.1)) = some id   -- the oldest of its flow

instance (flow : Int → Nat) (o : OSt τ) (id : Int) (t : τ) : Decidable (ServeOK flow o id t) := by
  unfold ServeOK
  cases o.cand with
  | none => infer_instance
  | some x => cases x; infer_instance

/-- what the property demands when packet `id` is handed to `out.put` at instant `t` -/
def OutOK (size : Int → Nat) (rate : τ) (o : OSt τ) (id : Int) (t : τ) : Prop :=
  match o.busy with
  | some (id', s) => id' = id ∧ eqT t (s + txTime size rate id)
  | none => False

instance (size : Int → Nat) (rate : τ) (o : OSt τ) (id : Int) (t : τ) : Decidable (OutOK size rate o id t) := by
  unfold OutOK
  cases o.busy with
  | none => infer_instance
  | some x => cases x; infer_instance

/-- the candidates after packet `w` has arrived: a `get` blocked on the empty store is served with it at once -/
def candPut (c : Option (List (WItem τ) × τ)) (w : WItem τ) : Option (List (WItem τ) × τ) :=
  match c with
  | some ([], _) => some ([w], w.2.2)
  | c => c

/-- one observation -/
def ostep (flow size : Int → Nat) (cfg : VcCfg τ) (o : OSt τ) : HEv τ → Option (OSt τ)
  | .put id t => if o.pend.isNone then some { o with pend := some (id, t) } else none
  | .stamp x =>
    match o.pend with
    | none => none
    | some (id, t) =>
      if StampOK flow cfg o id t x then
        some { o with pend := none, aux := setA o.aux (flow id) x, waiting := o.waiting ++ [(id, x, t)],
                      cand := candPut o.cand (id, x, t) }
      else none
  | .get t => if GetOK o t then some { o with cand := some (o.waiting, t) } else none
  | .serve id t =>
    if ServeOK flow o id t then
      some { o with waiting := o.waiting.filter (fun y => y.1 ≠ id), cand := none, busy := some (id, t) }
    else none
  | .out id t => if OutOK size cfg.rate o id t then some { o with busy := none, lastOut := some t } else none

/-- a history -/
def orun (flow size : Int → Nat) (cfg : VcCfg τ) : OSt τ → List (HEv τ) → Option (OSt τ)
  | o, [] => some o
  | o, ev :: r => (ostep flow size cfg o ev).bind fun o' => orun flow size cfg o' r

/-- everything has been served: nothing waits, nothing is in transmission, the server waits for the next packet -/
def drained (o : OSt τ) : Bool :=
  o.busy.isNone && o.waiting.isEmpty && o.pend.isNone && (match o.cand with | some ([], _) => true | _ => false)

/-- the arrival instants of a workload: packet `k` arrives at the sum of the first `k + 1` gaps -/
def arrivalsFrom (t : τ) : List (τ × Int) → List (Int × τ)
  | [] => []
  | (gap, id) :: r => (id, t + gap) :: arrivalsFrom (t + gap) r

/-! ## label inference and an executable refinement check (used by the `example`s of `Props/C14K.lean`)

`Props/C14K.lean` proves that every kernel step is an action sequence the LTS accepts between the abstractions of the two
states.  The functions below *compute* such a sequence from the two abstractions (as `harness/stamp.py` does from the public
attributes of the real scheduler) and replay it through the LTS, so that concrete runs can be checked by evaluation. -/

/-- the LTS actions of one kernel step, read off the abstractions before and after it and the packets `put` in it -/
def inferActs (pre post : StState τ (VcSt τ)) (newPuts : List SPkt) : List (StAct τ) :=
  (if pre.now < post.now then [StAct.tick post.now] else []) ++
  (if !pre.started && post.started then [StAct.init (post.handed.map (·.pkt.id))] else []) ++
  (newPuts.map fun p => StAct.put p) ++
  (if pre.getPending then (match post.handed with | some it => [StAct.handoff it.pkt.id] | none => []) else []) ++
  (if pre.handed.isSome && post.spawned.isSome then [StAct.resume] else []) ++
  (if pre.spawned.isSome && post.tx.isSome then [StAct.sendInit] else []) ++
  (if pre.tx.isSome && post.fin.isSome then [StAct.sendFire] else []) ++
  (if pre.fin.isSome && post.fin.isNone then [StAct.sendDone (post.handed.map (·.pkt.id))] else [])

def sameAssoc (a b : List (Nat × τ)) : Bool :=
  a.length == b.length && (a.zip b).all fun x => x.1.1 == x.2.1 && Num.eqb x.1.2 x.2.2

def sameItem (a b : Item τ) : Bool := Num.eqb a.stamp b.stamp && Num.eqb a.arr b.arr && decide (a.pkt = b.pkt)

def sameOpt {β : Type} (f : β → β → Bool) : Option β → Option β → Bool
  | none, none => true
  | some a, some b => f a b
  | _, _ => false

/-- equality of LTS states, field by field -/
def sameState (a b : StState τ (VcSt τ)) : Bool :=
  Num.eqb a.now b.now && sameAssoc a.sch.vc b.sch.vc && sameAssoc a.sch.aux b.sch.aux &&
  (a.items.length == b.items.length && (a.items.zip b.items).all fun x => sameItem x.1 x.2) &&
  a.getPending == b.getPending && sameOpt sameItem a.handed b.handed && decide (a.spawned = b.spawned) &&
  sameOpt (fun x y => decide (x.1 = y.1) && Num.eqb x.2 y.2) a.tx b.tx && decide (a.fin = b.fin) &&
  decide (a.currentPacket = b.currentPacket) && decide (a.queueCount = b.queueCount) &&
  decide (a.queueBytes = b.queueBytes) && a.started == b.started

/-- run a list of actions through the LTS -/
def runLts (sc : Sched τ (VcSt τ)) : StState τ (VcSt τ) → List (StAct τ) → Except SErr (StState τ (VcSt τ))
  | s, [] => .ok s
  | s, a :: as =>
    match Stamp.step sc s a with
    | .ok (s', _) => runLts sc s' as
    | .error m => .error m

/-- run the kernel model for at most `n` steps from `s`; after every step replay the inferred actions through the LTS from
`absVC` of the state before and compare with `absVC` of the state after.  `some k`: the agenda ran empty after `k` steps and
every step was accepted and commuted; `none`: a step crashed, was rejected, did not commute, or the budget ran out -/
def refineCheck (flow size : Int → Nat) (cfg : VcCfg τ) (N scale : Nat) : Nat → KState τ (VcKSt τ) → Nat → Option Nat
  | 0, _, _ => none
  | n + 1, s, k =>
    match step (prog flow size cfg N scale) 1 s with
    | .ok s' =>
      let newPuts := (((putsOf s'.trace).drop (putsOf s.trace).length).map (·.1)).map (pktOf flow size)
      match runLts (VC.sched cfg) (absVC flow size cfg N s) (inferActs (absVC flow size cfg N s) (absVC flow size cfg N s') newPuts) with
      | .ok m => if sameState m (absVC flow size cfg N s') then refineCheck flow size cfg N scale n s' (k + 1) else none
      | .error _ => none
    | .empty => some k
    | _ => none

end VCOnK
