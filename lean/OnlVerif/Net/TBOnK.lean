import OnlVerif.Kernel.Step
import OnlVerif.Kernel.TimeCell
import OnlVerif.Net.TokenBucket
/-!
# The token bucket as a process *on the kernel model `K`*

`OnlVerif/Net/TokenBucket.lean` describes `onl.netdev.TokenBucket` as an instance of the FifoServer LTS (model `E`), whose
admissibility rules *assume* what the kernel guarantees.  This file writes the same device as a program of the kernel
model (`OnlVerif/Kernel`): the generator `TokenBucket.run` and a packet source that calls `TokenBucket.put` are `Burst`
programs, the `Store` of the shaper is a `Store` resource of `K`, and nothing is assumed about scheduling.
`OnlVerif/Props/C11K.lean` proves that every run of this program is an admissible run of the LTS (refinement) and that its
`out.put` observations follow the token-bucket recurrence of C11.

```python
def run(self, env):                                                   def put(self, packet):
    while True:                                                           self.packets_received += 1
        packet = yield self.store.get()                                   self.store.put(packet)
        now = env.now
        self.current_bucket = min(self.bucket_size,
            self.current_bucket + self.rate * (now - self.update_time) / 8.0)
        self.update_time = now
        if packet.size > self.current_bucket:
            yield env.timeout((packet.size - self.current_bucket) * 8.0 / self.rate)
            self.current_bucket = 0.0
            self.update_time = env.now
        else:
            self.current_bucket -= packet.size
            self.update_time = env.now
        if self.peak:
            yield env.timeout(packet.size * 8.0 / self.peak)
        self.out.put(packet)
        self.packets_sent += 1
```

Encoding (modelling devices, all of them):

* the `k`-th packet handed to `put` has id `k`, `size : Int → Nat` gives `packet.size`; the store is resource `0` (unbounded
  `Store`); an `out` is attached;
* the attributes live in the shared cells of `K`: cell 0 = `packets_received`, 1 = `packets_sent`, 2 = `current_bucket`,
  3 = `update_time` (the last two through the codec `TimeCell`: `Val` has no scalar constructor);
* `self.out.put(packet)` is the observation `log "out" (int id)`, the call of `put` is the observation `log "put" (int id)`
  (each recorded with `env.now` in `KState.trace`);
* `K` has no call that reads `env.now`: every generator carries the instant of its next resumption in its local state
  (`now + delay` for a sleep — the kernel's own expression).  `run` resumes from `store.get()` either in the instant of the
  call (an item was there) or in the instant of the `put` that serves it; `put` records that instant in the *ghost* cell
  `10 + k` of packet `k` (the code has no such attribute), so `env.now` after the `get` is
  `max(instant of the get call, instant of the put)`.  That these are `env.now` whenever the generator runs is part of the
  proved invariant; the observations record the kernel's own clock;
* the local state of `run` in the peak-rate spacing also says whether the packet has already waited for tokens (a ghost
  counter of the sleeps taken for the packet, which the LTS keeps in `tx`; no decision reads it);
* the source is the process `for gap in arrivals: yield env.timeout(gap); shaper.put(packet)`.
-/

/-- local states of the two generator functions (where each one is suspended, the instant it resumes at) -/
inductive TbS (τ : Type) where
  /-- the source: resumes at `now` (not started / after the sleep before the `put` of packet `next`); `pending` = that `put`
  is due; then the gaps still to come -/
  | src (now : τ) (pending : Bool) (next : Nat) (rest : List τ)
  /-- `run` not started (created at `now`) -/
  | bStart (now : τ)
  /-- `run` suspended in `packet = yield self.store.get()`, called at `now` -/
  | bGet (now : τ)
  /-- `run` suspended in the wait for tokens holding packet `id`, due at `wake` -/
  | bTok (id : Int) (wake : τ)
  /-- `run` suspended in the peak-rate spacing holding packet `id`, due at `wake`; `k` = the sleeps already taken for this
  packet (ghost: 1 if it has waited for tokens, else 0 — the LTS counts them) -/
  | bPeak (id : Int) (wake : τ) (k : Nat)

namespace TBOnK
variable {τ : Type} [Num τ] [TimeCell τ]

def storeId : Nat := 0
def cRecv : Nat := 0
def cSent : Nat := 1
def cLevel : Nat := 2
def cUpd : Nat := 3
/-- the ghost cell holding the instant of the `put` of packet `id` -/
def cStamp (id : Int) : Nat := 10 + id.toNat

def typeErr : Exc := ⟨"TypeError", []⟩

/-- what a program does with a reply it cannot use (never happens in the runs of this program) -/
def bad : Reply → Burst τ (TbS τ)
  | .err x => .raise x
  | _ => .raise typeErr

def loadInt (k : Nat) (cont : Int → Burst τ (TbS τ)) : Burst τ (TbS τ) :=
  .call (.load k) fun rp => match rp with
    | .val (.int n) => cont n
    | rp => bad rp

def loadTime (k : Nat) (cont : τ → Burst τ (TbS τ)) : Burst τ (TbS τ) :=
  .call (.load k) fun rp => match rp with
    | .val v => (match TimeCell.dec v with
      | some x => cont x
      | none => .raise typeErr)
    | rp => bad rp

/-- the packet object behind an id, as the LTS sees it -/
def pktOf (size : Int → Nat) (id : Int) : Pkt τ := { id := id.toNat, flow := 0, size := size id, ctime := Num.zero, draw := Num.zero }

/-- `TokenBucket.put(packet)` at instant `now`, followed by `cont` -/
def tbPut (now : τ) (id : Int) (cont : Burst τ (TbS τ)) : Burst τ (TbS τ) :=
  loadInt cRecv fun n =>
  .call (.store cRecv (.int (n + 1))) fun _ =>                  -- self.packets_received += 1
  .call (.log "put" (.int id)) fun _ =>
  .call (.store (cStamp id) (TimeCell.enc now)) fun _ =>        --   (ghost: the instant of this put)
  .call (.sput storeId id) fun _ =>                             -- self.store.put(packet)
  cont

/-- the source loop from its head at instant `now`: `for gap in rest: yield env.timeout(gap); …` -/
def srcLoop (now : τ) (next : Nat) : List τ → Burst τ (TbS τ)
  | [] => .ret .none
  | gap :: rest => .call (.timeout gap .none) fun rp => match rp with
      | .ev e => .yield e (.src (now + gap) true next rest)
      | rp => bad rp

/-- `packet = yield self.store.get()` at instant `now` -/
def tbLoop (now : τ) : Burst τ (TbS τ) :=
  .call (.sget storeId 0) fun rp => match rp with
    | .ev g => .yield g (.bGet now)
    | rp => bad rp

/-- `self.out.put(packet); self.packets_sent += 1` at instant `now`, then the loop -/
def tbOut (now : τ) (id : Int) : Burst τ (TbS τ) :=
  .call (.log "out" (.int id)) fun _ =>                         -- self.out.put(packet)
  loadInt cSent fun n =>
  .call (.store cSent (.int (n + 1))) fun _ =>                  -- self.packets_sent += 1
  tbLoop now

/-- the tokens are debited: `if self.peak: yield env.timeout(packet.size * 8.0 / self.peak)`, then forward -/
def tbAfterDebit (size : Int → Nat) (cfg : TbCfg τ) (now : τ) (id : Int) (n : Nat) : Burst τ (TbS τ) :=
  match TokenBucket.peakOn cfg with
  | some k =>
    .call (.timeout (TokenBucket.peakWait k (pktOf size id)) .none) fun rp => match rp with
      | .ev t => .yield t (.bPeak id (now + TokenBucket.peakWait k (pktOf size id)) n)
      | rp => bad rp
  | none => tbOut now id

/-- `run` from the point where `store.get()` has delivered packet `id`; `t0` = the instant `get` was called at -/
def tbServe (size : Int → Nat) (cfg : TbCfg τ) (t0 : τ) (id : Int) : Burst τ (TbS τ) :=
  loadTime (cStamp id) fun ct =>
  let now := Num.pymax t0 ct                                    -- now = env.now (see the header)
  loadTime cLevel fun lv =>
  loadTime cUpd fun up =>
  let lv' := Num.pymin cfg.bucket (lv + cfg.rate * (now - up) / Num.ofNat 8)
  .call (.store cLevel (TimeCell.enc lv')) fun _ =>             -- self.current_bucket = min(self.bucket_size, …)
  .call (.store cUpd (TimeCell.enc now)) fun _ =>               -- self.update_time = now
  if lv' < Num.ofNat (size id) then                             -- if packet.size > self.current_bucket:
    .call (.timeout (TokenBucket.tokenWait cfg lv' (pktOf size id)) .none) fun rp => match rp with
      | .ev t => .yield t (.bTok id (now + TokenBucket.tokenWait cfg lv' (pktOf size id)))
      | rp => bad rp
  else
    .call (.store cLevel (TimeCell.enc (lv' - Num.ofNat (size id)))) fun _ =>   -- self.current_bucket -= packet.size
    .call (.store cUpd (TimeCell.enc now)) fun _ =>             -- self.update_time = env.now
    tbAfterDebit size cfg now id 0

/-- `run` after the wait for tokens, at instant `now` -/
def tbAfterTok (size : Int → Nat) (cfg : TbCfg τ) (now : τ) (id : Int) : Burst τ (TbS τ) :=
  .call (.store cLevel (TimeCell.enc (Num.zero : τ))) fun _ =>  -- self.current_bucket = 0.0
  .call (.store cUpd (TimeCell.enc now)) fun _ =>               -- self.update_time = env.now
  tbAfterDebit size cfg now id 1

/-- the two generator functions as one `K` program -/
def body (size : Int → Nat) (cfg : TbCfg τ) : TbS τ → Resume → Burst τ (TbS τ)
  | .src now pending next rest, _ =>
    if pending then tbPut now (next : Int) (srcLoop now (next + 1) rest) else srcLoop now next rest
  | .bStart now, _ => tbLoop now
  | .bGet t0, .value (.int id) => tbServe size cfg t0 id
  | .bGet _, _ => .raise typeErr
  | .bTok id now, _ => tbAfterTok size cfg now id
  | .bPeak id now _, _ => tbOut now id

/-- event ids of the two processes -/
def tbProc : EvId := 0
def srcProc : EvId := 2

/-- a fresh environment at instant 0 with the shaper's `Store`, after `TokenBucket.__init__` (the bucket starts full,
`update_time = 0.0`, `env.process(self.run(env))`) and `env.process(source(...))` -/
def initState (cfg : TbCfg τ) (arrivals : List τ) : KState τ (TbS τ) :=
  [Call.spawn (TbS.bStart Num.zero), Call.spawn (TbS.src Num.zero false 0 arrivals)].foldl (fun s c => (doCall s 0 c).1)
    { now := Num.zero, resources := #[{ kind := .store, capacity := none }],
      shared := [(cRecv, .int 0), (cSent, .int 0), (cLevel, TimeCell.enc cfg.bucket), (cUpd, TimeCell.enc (Num.zero : τ))] }

/-! ## observations -/

/-- the two kinds of observation of the property, in the order of the trace -/
inductive HEv (τ : Type) where
  | put (id : Int) (t : τ)
  | out (id : Int) (t : τ)

def histOf1 : Obs τ → Option (HEv τ)
  | .log _ w (.int id) now => if w = "put" then some (.put id now) else if w = "out" then some (.out id now) else none
  | _ => none

def histOf (tr : Array (Obs τ)) : List (HEv τ) := tr.toList.filterMap histOf1

/-- the `out.put(packet)` observations of a trace: `(id, env.now)` in order -/
def outsOf (tr : Array (Obs τ)) : List (Int × τ) :=
  (histOf tr).filterMap fun | .out id t => some (id, t) | _ => none

/-! ## the token-bucket recurrence of C11 as an oracle over the `put` / `out` history

The oracle keeps the packets handed to `put` and not yet forwarded (with the instant of the `put`), the token level and the
instant it was last updated, and the instant of the last departure.  It accepts `out id t` only if `id` is the oldest
waiting packet and `t` is what the recurrence prescribes: the packet reaches the head at `g = max(put instant, last
departure)`; the bucket is refilled to `min(bucket, level + rate·(g − updated)/8)`; if that is less than the packet size the
packet waits `(size − level)·8/rate` (the level becomes 0), otherwise the level is debited at once; with a truthy `peak` it
waits `size·8/peak` more; and it leaves exactly then. -/

/-- `a = b` on times, through `<` -/
def eqT (a b : τ) : Prop := ¬ a < b ∧ ¬ b < a

instance (a b : τ) : Decidable (eqT a b) := by unfold eqT; infer_instance

structure OSt (τ : Type) where
  waiting : List (Int × τ)
  level : τ
  upd : τ
  /-- the instant the server became free (0 before the first departure) -/
  free : τ

/-- the state of a fresh shaper -/
def oInit (cfg : TbCfg τ) : OSt τ := { waiting := [], level := cfg.bucket, upd := Num.zero, free := Num.zero }

/-- what the recurrence prescribes for the packet `id` put at `tp`: departure instant, level and update instant after it -/
def oOut (size : Int → Nat) (cfg : TbCfg τ) (o : OSt τ) (id : Int) (tp : τ) : τ × τ × τ :=
  let g := Num.pymax o.free tp
  let lv' := Num.pymin cfg.bucket (o.level + cfg.rate * (g - o.upd) / Num.ofNat 8)
  let pk (t : τ) : τ := match TokenBucket.peakOn cfg with
    | some k => t + TokenBucket.peakWait k (pktOf size id)
    | none => t
  if lv' < Num.ofNat (size id) then
    (pk (g + TokenBucket.tokenWait cfg lv' (pktOf size id)), Num.zero, g + TokenBucket.tokenWait cfg lv' (pktOf size id))
  else (pk g, lv' - Num.ofNat (size id), g)

def ostep (size : Int → Nat) (cfg : TbCfg τ) (o : OSt τ) : HEv τ → Option (OSt τ)
  | .put id t => some { o with waiting := o.waiting ++ [(id, t)] }
  | .out id t =>
    match o.waiting with
    | [] => none
    | (id', tp) :: rest =>
      if id' = id ∧ eqT t (oOut size cfg o id tp).1 then
        some { waiting := rest, level := (oOut size cfg o id tp).2.1, upd := (oOut size cfg o id tp).2.2, free := t }
      else none

def orun (size : Int → Nat) (cfg : TbCfg τ) : OSt τ → List (HEv τ) → Option (OSt τ)
  | o, [] => some o
  | o, ev :: r => (ostep size cfg o ev).bind fun o' => orun size cfg o' r

/-- the arrival instants of a workload: packet `k` arrives at the sum of the first `k + 1` gaps -/
def arrivalsFrom (t : τ) (k : Nat) : List τ → List (Int × τ)
  | [] => []
  | gap :: r => ((k : Int), t + gap) :: arrivalsFrom (t + gap) (k + 1) r

/-! ## the abstraction function -/

def cellVal (s : KState τ (TbS τ)) (k : Nat) : Val := ((s.shared.find? (·.1 == k)).map (·.2)).getD Val.none

def cellNat (s : KState τ (TbS τ)) (k : Nat) : Nat :=
  match cellVal s k with
  | .int n => n.toNat
  | _ => 0

def cellTime (s : KState τ (TbS τ)) (k : Nat) : τ := (TimeCell.dec (cellVal s k)).getD Num.zero

/-- the instant at which the agenda entry of event `t` is due -/
def dueOf (s : KState τ (TbS τ)) (t : EvId) : τ :=
  ((s.agenda.find? (·.ev == t)).map (·.time)).getD s.now

/-- **abstraction function**: the LTS state (`Net/Fifo.lean` with `TokenBucket.dev`) a kernel state of this program stands
for, read off the shaper process (where it is suspended, whether the event it waits for is triggered), the store and the
cells.  The ghost fields of the LTS's device state (`log`, `outLog`: no decision reads them) are left empty; `setGhost` puts
any values there. -/
def absTB (size : Int → Nat) (s : KState τ (TbS τ)) : FState τ (TbSt τ) :=
  let dev (w : Bool) : TbSt τ :=
    { level := cellTime s cLevel, upd := cellTime s cUpd, received := cellNat s cRecv, sent := cellNat s cSent, tokWait := w }
  let base : FState τ (TbSt τ) := { now := s.now, dev := dev false, items := (s.res storeId).items.map (pktOf size) }
  match s.proc? tbProc with
  | some { st := .bGet _, target := some g } =>
    match (s.ev g).out with
    | some (.ok (.int id)) => { base with started := true, handed := some (pktOf size id) }
    | _ => { base with started := true, getPending := true }
  | some { st := .bTok id _, target := some t } =>
    { base with started := true, dev := dev true, tx := some (pktOf size id, dueOf s t, 0) }
  | some { st := .bPeak id _ k, target := some t } =>
    { base with started := true, tx := some (pktOf size id, dueOf s t, k) }
  | _ => base

/-- the same LTS state with other values in the ghost fields of the device state -/
def setGhost (st : FState τ (TbSt τ)) (lg ol : List (τ × Nat)) : FState τ (TbSt τ) :=
  { st with dev := { st.dev with log := lg, outLog := ol } }

/-- the final state of `run()` if it returned, else `none` -/
def finalState (r : RunResult τ (TbS τ)) : Option (KState τ (TbS τ)) :=
  match r with
  | .returned _ s => some s
  | _ => none

end TBOnK
