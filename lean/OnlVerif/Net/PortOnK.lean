import OnlVerif.Kernel.Step
import OnlVerif.Net.Port
/-!
# The Port as a process *on the kernel model `K`*

`OnlVerif/Net/Port.lean` describes `onl.netdev.Port` as a labelled transition system over its atomic bursts
(model `E`); its admissibility rules *assume* what the kernel guarantees.  This file writes the same device as a
program of the kernel model (`OnlVerif/Kernel`): the generator `Port.run` and a packet source that calls
`Port.put` are `Burst` programs, the `Store` of the port is a `Store` resource of `K`, and nothing is assumed about
scheduling: `K`'s `step` decides what runs when.  `OnlVerif/Props/C09K.lean` proves that every run of this program
is an admissible run of the LTS (refinement) and satisfies the departure recurrence.

Encoding (`Port` without RED, `element_id` falsy, an `out` is attached; `qlimit` is `None` or a limit in bytes
(`limit_bytes = True`) — the packet-count limit reads `len(self.store.items)`, which no kernel call of the model exposes):

* a packet is its `Int` id; `size : Int → Nat` gives `packet.size`; the store is resource `0` (unbounded `Store`);
* the public attributes live in the shared cells of `K` (`Call.load/store`):
  cell 0 = `byte_size`, 1 = `packets_received`, 2 = `busy`, 3 = `busy_packet_size`, 4 = `packets_dropped`;
* `self.out.put(packet)` is the observation `log "out" (int id)` (recorded with `env.now` in `KState.trace`);
* the source is the process `for (gap, id) in arrivals: yield env.timeout(gap); port.put(packet id)`.
-/

/-- local states of the two generator functions (where each one is suspended) -/
inductive PSt (τ : Type) where
  /-- the source: suspended on the timeout before `put(pending)` (`none`: not started), then the arrivals still to come -/
  | src (pending : Option Int) (rest : List (τ × Int))
  /-- `Port.run` not started -/
  | portStart
  /-- `Port.run` suspended in `packet = yield self.store.get()` -/
  | portGet
  /-- `Port.run` suspended in `yield env.timeout(packet.size * 8 / self.rate)` holding `packet` -/
  | portTx (id : Int)

namespace PortOnK
variable {τ : Type} [Num τ]

def storeId : ResId := 0
def cByteSize : Nat := 0
def cReceived : Nat := 1
def cBusy : Nat := 2
def cBusySize : Nat := 3
def cDropped : Nat := 4

def typeErr : Exc := ⟨"TypeError", []⟩

/-- what a program does with a reply it cannot use (never happens in the runs of this program) -/
def bad : Reply → Burst τ (PSt τ)
  | .err x => .raise x
  | _ => .raise typeErr

/-- read an integer attribute -/
def loadInt (k : Nat) (cont : Int → Burst τ (PSt τ)) : Burst τ (PSt τ) :=
  .call (.load k) fun rp => match rp with
    | .val (.int n) => cont n
    | rp => bad rp

/-- the accepting branch of `Port.put`: `self.byte_size = byte_count; self.store.put(packet)` -/
def portAccept (size : Int → Nat) (id : Int) (b : Int) (cont : Burst τ (PSt τ)) : Burst τ (PSt τ) :=
  .call (.store cByteSize (.int (b + (size id : Int)))) fun _ =>   -- self.byte_size = byte_count
  .call (.sput storeId id) fun _ =>                             -- self.store.put(packet)
  cont

/-- `Port.put(packet)` with a falsy `element_id` and `limit_bytes = True`, followed by `cont` -/
def portPut (size : Int → Nat) (qlimit : Option Int) (id : Int) (cont : Burst τ (PSt τ)) : Burst τ (PSt τ) :=
  loadInt cReceived fun n =>
  .call (.store cReceived (.int (n + 1))) fun _ =>              -- self.packets_received += 1
  loadInt cByteSize fun b =>                                    -- byte_count = self.byte_size + packet.size
  match qlimit with
  | none => portAccept size id b cont                           -- if self.qlimit is None: …; return
  | some ql =>
    if ql < b + (size id : Int) then                            -- if self.limit_bytes and byte_count > self.qlimit:
      loadInt cDropped fun d =>
      .call (.store cDropped (.int (d + 1))) fun _ =>           --   self.packets_dropped += 1
      cont
    else portAccept size id b cont                              -- else: …

/-- the source loop from its head: `for gap, id in rest: yield env.timeout(gap); …` -/
def srcLoop : List (τ × Int) → Burst τ (PSt τ)
  | [] => .ret .none
  | (gap, id) :: rest => .call (.timeout gap .none) fun rp => match rp with
      | .ev e => .yield e (.src (some id) rest)
      | rp => bad rp

/-- `packet = yield self.store.get()` -/
def portLoop : Burst τ (PSt τ) :=
  .call (.sget storeId 0) fun rp => match rp with
    | .ev g => .yield g .portGet
    | rp => bad rp

/-- `Port.run` after the transmission delay -/
def portDone (size : Int → Nat) (id : Int) : Burst τ (PSt τ) :=
  loadInt cByteSize fun b =>
  .call (.store cByteSize (.int (b - (size id : Int)))) fun _ =>   -- self.byte_size -= packet.size
  .call (.log "out" (.int id)) fun _ =>                         -- self.out.put(packet)
  .call (.store cBusy (.int 0)) fun _ =>                        -- self.busy = 0
  .call (.store cBusySize (.int 0)) fun _ =>                    -- self.busy_packet_size = 0
  portLoop

/-- the transmission delay `packet.size * 8 / self.rate` -/
def txTime (size : Int → Nat) (rate : τ) (id : Int) : τ := Num.ofNat (size id * 8) / rate

/-- `Port.run` from the point where `store.get()` has delivered `packet` -/
def portServe (size : Int → Nat) (rate : τ) (id : Int) : Burst τ (PSt τ) :=
  .call (.store cBusy (.int 1)) fun _ =>                        -- self.busy = 1
  .call (.store cBusySize (.int (size id))) fun _ =>            -- self.busy_packet_size = packet.size
  if Num.zero < rate then                                       -- if self.rate > 0:
    .call (.timeout (txTime size rate id) .none) fun rp => match rp with
      | .ev t => .yield t (.portTx id)                          --   yield env.timeout(packet.size * 8 / self.rate)
      | rp => bad rp
  else portDone size id

/-- the two generator functions as one `K` program -/
def body (size : Int → Nat) (rate : τ) (qlimit : Option Int) : PSt τ → Resume → Burst τ (PSt τ)
  | .src pending rest, _ =>
    match pending with
    | none => srcLoop rest
    | some id => portPut size qlimit id (srcLoop rest)
  | .portStart, _ => portLoop
  | .portGet, .value (.int id) => portServe size rate id
  | .portGet, _ => .raise typeErr
  | .portTx id, _ => portDone size id

/-- event ids of the two processes -/
def portProc : EvId := 0
def srcProc : EvId := 2

/-- a fresh environment with the port's `Store`, the attributes at 0, after `Port.__init__` (`env.process(self.run(env))`)
and `env.process(source(...))` -/
def initState (arrivals : List (τ × Int)) : KState τ (PSt τ) :=
  [Call.spawn PSt.portStart, Call.spawn (PSt.src none arrivals)].foldl (fun s c => (doCall s 0 c).1)
    { now := Num.zero, resources := #[{ kind := .store, capacity := none }],
      shared := [(cByteSize, .int 0), (cReceived, .int 0), (cBusy, .int 0), (cBusySize, .int 0), (cDropped, .int 0)] }

/-- the `out.put(packet)` observations of a trace: `(id, env.now)` in order -/
def outOf : Obs τ → Option (Int × τ)
  | .log _ what (.int id) now => if what = "out" then some (id, now) else none
  | _ => none

def outsOf (tr : Array (Obs τ)) : List (Int × τ) := tr.toList.filterMap outOf

/-- value of an integer attribute cell (0 if unset) -/
def cellInt (s : KState τ (PSt τ)) (k : Nat) : Int :=
  match ((s.shared.find? (·.1 == k)).map (·.2)).getD Val.none with
  | Val.int n => n
  | _ => 0

/-- the packet object behind an id, as the LTS sees it -/
def pktOf (size : Int → Nat) (id : Int) : Pkt τ :=
  { id := id.toNat, flow := 0, size := size id, ctime := Num.zero, draw := Num.zero }

/-- configuration of the port for the LTS -/
def cfg (rate : τ) (qlimit : Option Int) : PortCfg τ :=
  { rate := rate, qlimit := qlimit, limitBytes := true, hasId := false }

/-- the public attributes as the LTS device state -/
def absDev (s : KState τ (PSt τ)) : PortSt τ :=
  { byteSize := cellInt s cByteSize, received := (cellInt s cReceived).toNat, dropped := (cellInt s cDropped).toNat,
    busy := cellInt s cBusy != 0, busySize := (cellInt s cBusySize).toNat, avg := Num.zero }

/-- the instant at which the agenda entry of event `t` is due -/
def dueOf (s : KState τ (PSt τ)) (t : EvId) : τ :=
  ((s.agenda.find? (·.ev == t)).map (·.time)).getD s.now

/-- **abstraction function**: the LTS state a kernel state of this program stands for, read off the port process
(where it is suspended, whether the event it waits for is triggered), the store and the attribute cells -/
def absPort (size : Int → Nat) (s : KState τ (PSt τ)) : FState τ (PortSt τ) :=
  let base : FState τ (PortSt τ) :=
    { now := s.now, dev := absDev s, items := (s.res storeId).items.map (pktOf size) }
  match s.proc? portProc with
  | some { st := .portGet, target := some g } =>
    match (s.ev g).out with
    | some (.ok (.int id)) => { base with started := true, handed := some (pktOf size id) }
    | _ => { base with started := true, getPending := true }
  | some { st := .portTx id, target := some t } =>
    { base with started := true, tx := some (pktOf size id, dueOf s t, 0) }
  | _ => base

/-- the time a packet spends in transmission: `8·size/rate`, nothing when `rate` is not positive (`if self.rate > 0`) -/
def txDelay (size : Int → Nat) (rate : τ) (id : Int) : τ :=
  if Num.zero < rate then txTime size rate id else Num.zero

/-- the departure recurrence of C09: packet `k` leaves at `max(a_k, d_{k-1}) + 8·size_k/rate`; `prev` = `d_{k-1}`
(`none` before the first packet), `t` = the previous arrival instant -/
def departures (size : Int → Nat) (rate : τ) : Option τ → τ → List (τ × Int) → List (Int × τ)
  | _, _, [] => []
  | prev, t, (gap, id) :: rest =>
    let a := t + gap
    let start := match prev with
      | none => a
      | some d => Num.pymax a d
    let d := start + txDelay size rate id
    (id, d) :: departures size rate (some d) a rest

/-- the instant of arrival `k` (0-based) of a source that is at instant `t`: `t` plus the first `k + 1` gaps -/
def arrivalAt (t : τ) : List (τ × Int) → Nat → τ
  | [], _ => t
  | (gap, _) :: _, 0 => t + gap
  | (gap, _) :: rest, k + 1 => arrivalAt (t + gap) rest k

/-- the final state of `run()` if it returned, else `none` -/
def finalState (r : RunResult τ (PSt τ)) : Option (KState τ (PSt τ)) :=
  match r with
  | .returned _ s => some s
  | _ => none

end PortOnK
