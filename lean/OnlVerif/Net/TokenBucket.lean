import OnlVerif.Basic.Truthy
import OnlVerif.Net.Fifo
/-!
# `onl.netdev.TokenBucket`

`run`, when it gets a packet at `now`: refills (`min(bucket_size, current_bucket + rate*(now-update_time)/8.0)`,
`update_time = now`); if the packet is larger than the level it sleeps `(size - level)*8.0/rate`, then sets the
level to `0.0` and `update_time = now`; otherwise debits at once.  With a truthy `peak` it then sleeps
`size*8.0/peak`; finally `out.put(packet)`, `packets_sent += 1`.

`tokWait` is the generator's program counter (suspended in the token wait or not).  `log` and `outLog` are
*ghost* (read by no decision, shown in no snapshot): token-debit instants and departure instants with sizes.
-/

structure TbCfg (α : Type) where
  rate : α
  /-- `bucket_size` -/
  bucket : α
  peak : Option α

structure TbSt (α : Type) where
  /-- `current_bucket` -/
  level : α
  /-- `update_time` -/
  upd : α
  received : Nat := 0
  sent : Nat := 0
  /-- the server sleeps for missing tokens (as opposed to the peak-rate spacing) -/
  tokWait : Bool := false
  /-- ghost: (debit instant, size), newest first -/
  log : List (α × Nat) := []
  /-- ghost: (departure instant, size), newest first -/
  outLog : List (α × Nat) := []

namespace TokenBucket
variable {α : Type} [Num α]

def admitPkt (d : TbSt α) (_now : α) (_waiting : Nat) (p : Pkt α) : TbSt α × Bool × Pkt α :=
  ({ d with received := d.received + 1 }, true, p)

/-- the level after crediting `rate*(now-update_time)/8.0` tokens, capped at the bucket size -/
def refillLevel (c : TbCfg α) (d : TbSt α) (now : α) : α :=
  Num.pymin c.bucket (d.level + c.rate * (now - d.upd) / Num.ofNat 8)

def refill (c : TbCfg α) (d : TbSt α) (now : α) : TbSt α :=
  { d with level := refillLevel c d now, upd := now }

/-- `(packet.size - self.current_bucket) * 8.0 / self.rate` -/
def tokenWait (c : TbCfg α) (level : α) (p : Pkt α) : α := (Num.ofNat p.size - level) * Num.ofNat 8 / c.rate

/-- `self.current_bucket -= packet.size; self.update_time = env.now` -/
def debitNow (d : TbSt α) (now : α) (p : Pkt α) : TbSt α :=
  { d with level := d.level - Num.ofNat p.size, upd := now, log := (now, p.size) :: d.log }

/-- after the token wait: `self.current_bucket = 0.0; self.update_time = env.now` -/
def debitAfterWait (d : TbSt α) (now : α) (p : Pkt α) : TbSt α :=
  { d with level := Num.zero, upd := now, tokWait := false, log := (now, p.size) :: d.log }

def startWait (d : TbSt α) : TbSt α := { d with tokWait := true }

def logOut (d : TbSt α) (now : α) (p : Pkt α) : TbSt α := { d with outLog := (now, p.size) :: d.outLog }

/-- the peak rate when `self.peak` is truthy -/
def peakOn (c : TbCfg α) : Option α := Num.optOn c.peak

/-- `packet.size * 8.0 / self.peak` -/
def peakWait (k : α) (p : Pkt α) : α := Num.ofNat p.size * Num.ofNat 8 / k

/-- the tokens are debited: sleep for the peak spacing if a peak is set, else forward -/
def afterDebit (c : TbCfg α) (d : TbSt α) (now : α) (p : Pkt α) : TbSt α × Pkt α × Next α :=
  match peakOn c with
  | some k => (d, p, .wait (peakWait k p))
  | none => (logOut d now p, p, .emit)

def onResume (c : TbCfg α) (d : TbSt α) (now _x _y : α) (p : Pkt α) : TbSt α × Pkt α × Next α :=
  if refillLevel c d now < Num.ofNat p.size then
    (startWait (refill c d now), p, .wait (tokenWait c (refillLevel c d now) p))
  else afterDebit c (debitNow (refill c d now) now p) now p

def onFire (c : TbCfg α) (d : TbSt α) (now : α) (_k : Nat) (p : Pkt α) : TbSt α × Pkt α × Next α :=
  if d.tokWait then afterDebit c (debitAfterWait d now p) now p
  else (logOut d now p, p, .emit)

def onDone (d : TbSt α) (_p : Pkt α) : TbSt α := { d with sent := d.sent + 1 }

def dev (c : TbCfg α) : Dev α (TbSt α) :=
  { admitPkt := admitPkt, onResume := onResume c, onFire := onFire c, onDone := onDone }

/-- `TokenBucket(env, rate, bucket_size, peak)`: the bucket starts full, `update_time = 0.0` -/
def st0 (c : TbCfg α) : TbSt α := { level := c.bucket, upd := Num.zero }

end TokenBucket
