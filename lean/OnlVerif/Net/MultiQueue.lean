import OnlVerif.Basic.Num
/-!
# `MultiQueueServer`: the common skeleton of the schedulers SP, RR, WRR and DRR

`onl.scheduler.base.MultiQueueScheduler`: `put()` posts a wake-up token into the store `packets_available`
when the system is empty, updates the per-flow counters and appends the packet to the per-class `Store`.
One server process (`run`) scans its classes, takes a packet with `yield store.get()`, transmits it with
`yield env.process(self.send_packet(packet))` and blocks on `packets_available.get()` when `total_packets == 0`.

The device is a labelled transition system whose actions are its *atomic bursts*:

* `init`          the loop's `Initialize` event is processed: first scan
* `put p`         an external call of `put(p)`
* `tokenHandoff`  the `StorePut` of a wake-up token is processed while the loop is blocked on the token store
* `wake`          the loop's `StoreGet` on the token store is processed: it rescans
* `pktResume`     the `StoreGet` on a per-class store is processed: the loop has the packet, spawns the sender
* `sendInit`      the sender's `Initialize` is processed: `current_packet = p`, timeout `size*8.0/rate` created
* `sendFire`      that timeout is processed: counters decremented, `out.put(p)`, `current_packet = None`
* `sendDone`      the sender's `Process` event is processed: the loop does its bookkeeping and rescans
* `tick t`        the clock advances to `t`
* `sample inc`    a `Monitor` reads the counters

`tick` is admissible only when nothing triggered is pending and no timeout would be passed (kernel guarantees,
theorems of model K, C01).  The scheduler-specific part is a record `Sched`: the loop's control state `κ` and how
it moves between two `yield`s (`micro`), what it does with a packet (`onPkt`) and after a transmission (`onDone`).
Every partial Python operation is an explicit error.
-/

structure MPkt where
  id : Nat
  flow : Nat
  size : Nat
deriving DecidableEq, Repr, Inhabited

namespace MQ

/-! ### Python dicts as insertion-ordered association lists -/

def lookup {β : Type} : List (Nat × β) → Nat → Option β
  | [], _ => none
  | (k', v) :: r, k => if k' = k then some v else lookup r k

/-- `m[k]` on a `defaultdict(int)` without inserting -/
def cnt (m : List (Nat × Int)) (k : Nat) : Int := (lookup m k).getD 0

/-- `m[k] += d` on a `defaultdict(int)` (a missing key is appended) -/
def bump : List (Nat × Int) → Nat → Int → List (Nat × Int)
  | [], k, d => [(k, d)]
  | (k', v) :: r, k, d => if k' = k then (k', v + d) :: r else (k', v) :: bump r k d

/-- `sum(m.values())` -/
def total : List (Nat × Int) → Int
  | [] => 0
  | (_, v) :: r => v + total r

/-- `m[k] = v` -/
def setKey {β : Type} : List (Nat × β) → Nat → β → List (Nat × β)
  | [], k, v => [(k, v)]
  | (k', v') :: r, k, v => if k' = k then (k', v) :: r else (k', v') :: setKey r k v

/-- `m.get(k, d)` -/
def lookupD {β : Type} (m : List (Nat × β)) (k : Nat) (d : β) : β := (lookup m k).getD d

/-- `stores[c].items` (empty when the store does not exist yet) -/
def storeOf (m : List (Nat × List MPkt)) (c : Nat) : List MPkt := lookupD m c []

/-! ### The scheduler-specific part -/

/-- what the loop can read between two `yield`s -/
structure View where
  /-- `queue_count[f]` -/
  count : Nat → Int
  /-- `len(stores[c].items)` -/
  storeLen : Nat → Nat
  /-- `stores.get(c)` is not `None` -/
  hasStore : Nat → Bool
  /-- `head_of_line.get(c)` -/
  parked : Nat → Option MPkt
  /-- `total_packets` -/
  total : Int

/-- one move of the loop between two `yield`s -/
inductive Micro (κ : Type) where
  /-- continue at control point `k` -/
  | goto (k : κ)
  /-- `packet = yield self.stores[c].get()`; the loop continues at `k` with the packet -/
  | get (c : Nat) (k : κ)
  /-- (DRR) `packet = self.head_of_line[c]; del self.head_of_line[c]`; continue at `k` with the packet -/
  | take (c : Nat) (k : κ)
  /-- `yield self.packets_available.get()`; the loop continues at `k` when woken -/
  | block (k : κ)
  | fail (msg : String)

/-- what the loop does with the packet it holds -/
inductive PktDec (κ : Type) where
  /-- `yield env.process(self.send_packet(packet))`; `early`: `current_packet` was set before -/
  | send (early : Bool) (k : κ)
  /-- (DRR) `self.head_of_line[c] = packet; break` -/
  | park (k : κ)
  | fail (msg : String)

structure Sched (α κ : Type) where
  rate : α
  /-- the key of the per-class store a packet of this flow goes to (`flow2class`); `none`: the call raises -/
  classOf : Nat → Option Nat
  /-- scheduler-specific part of `put` (DRR: `class_count[class_id] += 1`) -/
  onPut : κ → Nat → MPkt → Except String κ
  /-- the `queue_count` key the loop reads at this control point (`defaultdict`: the read inserts it) -/
  reads : κ → Option Nat
  micro : κ → View → Micro κ
  /-- the loop holds packet `p` taken for class `c` -/
  onPkt : κ → View → Nat → MPkt → PktDec κ
  /-- bookkeeping when `yield env.process(send_packet(p))` returns -/
  onDone : κ → MPkt → Except String κ
  /-- bound on the number of `goto`s in one burst; running out = the Python loop would spin for ever -/
  fuel : List (Nat × Option MPkt) → Nat

/-! ### State -/

/-- where the server loop (and its sender process) stands -/
inductive Phase (α : Type) where
  /-- `Initialize` not processed yet -/
  | idle
  /-- inside a burst (transient) -/
  | running
  /-- blocked in `packets_available.get()` -/
  | waitToken
  /-- that get has been triggered with a token -/
  | tokenHanded
  /-- `stores[c].get()` has been triggered with `p` -/
  | pktHanded (c : Nat) (p : MPkt)
  /-- sender process created, its `Initialize` pending -/
  | spawned (p : MPkt)
  /-- sender sleeps until `due` -/
  | sending (p : MPkt) (due : α)
  /-- sender ended, its `Process` event pending -/
  | finished (p : MPkt)

structure MQState (α κ : Type) where
  now : α
  ctl : κ
  /-- `stores`: class → items -/
  stores : List (Nat × List MPkt) := []
  /-- `head_of_line` (DRR): class → parked packet; `del head_of_line[c]` is written as `c ↦ none` -/
  hol : List (Nat × Option MPkt) := []
  queueCount : List (Nat × Int) := []
  queueBytes : List (Nat × Int) := []
  /-- `len(packets_available.items)` -/
  tokens : Nat := 0
  phase : Phase α := .idle
  currentPacket : Option MPkt := none
  received : Nat := 0

inductive MAct (α : Type) where
  | init
  | put (p : MPkt)
  | tokenHandoff
  | wake
  | pktResume
  | sendInit
  | sendFire
  | sendDone
  | tick (t : α)
  | sample (included : Bool)

inductive MOut (α : Type) where
  | nothing
  | accepted
  /-- a transmission starts -/
  | started (p : MPkt) (due : α)
  | depart (p : MPkt)
  /-- one Monitor round: (flow, packets, bytes) for every key of `queue_count` -/
  | samples (l : List (Nat × Int × Int))

variable {α κ : Type} [Num α]

def view (s : MQState α κ) : View :=
  { count := cnt s.queueCount
    storeLen := fun c => (storeOf s.stores c).length
    hasStore := fun c => (lookup s.stores c).isSome
    parked := fun c => lookupD s.hol c none
    total := total s.queueCount }

/-! ### atomic effects -/

/-- `if self.total_packets == 0: self.packets_available.put(True)` -/
def postToken (s : MQState α κ) : MQState α κ :=
  if total s.queueCount = 0 then { s with tokens := s.tokens + 1 } else s

/-- `add_packet_to_queue` -/
def countIn (s : MQState α κ) (p : MPkt) : MQState α κ :=
  { s with received := s.received + 1, queueCount := bump s.queueCount p.flow 1,
           queueBytes := bump s.queueBytes p.flow p.size }

/-- `self.stores[c].put(packet)` -/
def enqueue (s : MQState α κ) (c : Nat) (p : MPkt) : MQState α κ :=
  { s with stores := setKey s.stores c (storeOf s.stores c ++ [p]) }

/-- the counter updates of `send_packet` after its timeout -/
def countOut (s : MQState α κ) (p : MPkt) : MQState α κ :=
  { s with queueCount := bump s.queueCount p.flow (-1), queueBytes := bump s.queueBytes p.flow (-(p.size : Int)) }

/-- the loop reads `queue_count[f]` at its control point: a missing key is inserted with 0 -/
def touch (sc : Sched α κ) (s : MQState α κ) : MQState α κ :=
  match sc.reads s.ctl with
  | some f => { s with queueCount := bump s.queueCount f 0 }
  | none => s

/-- `yield self.packets_available.get()`: served at once if a token is there, else the loop blocks -/
def blockOnToken (s : MQState α κ) : MQState α κ :=
  match s.tokens with
  | n + 1 => { s with tokens := n, phase := .tokenHanded }
  | 0 => { s with phase := .waitToken }

/-- `yield self.stores[c].get()`: the loop only does this on a non-empty store (else it would block there) -/
def issueGet (s : MQState α κ) (c : Nat) : Except String (MQState α κ) :=
  match storeOf s.stores c with
  | p :: rest => .ok { s with stores := setKey s.stores c rest, phase := .pktHanded c p }
  | [] => .error "reject: get on an empty per-class store (the loop would block on it with a backlog elsewhere)"

/-- `yield env.process(self.send_packet(p))` -/
def spawn (s : MQState α κ) (p : MPkt) (early : Bool) : MQState α κ :=
  { s with phase := .spawned p, currentPacket := if early then some p else s.currentPacket }

/-- `assert not c in self.head_of_line; self.head_of_line[c] = p` -/
def park (s : MQState α κ) (c : Nat) (p : MPkt) : Except String (MQState α κ) :=
  match lookupD s.hol c none with
  | some _ => .error "AssertionError: head_of_line occupied"
  | none => .ok { s with hol := setKey s.hol c (some p) }

/-- the loop runs from its control point to its next `yield` -/
def settle (sc : Sched α κ) : Nat → MQState α κ → Except String (MQState α κ)
  | 0, _ => .error "reject: the loop would spin for ever (no configured class can be served)"
  | n + 1, s0 =>
    let s := touch sc s0
    match sc.micro s.ctl (view s) with
    | .goto k => settle sc n { s with ctl := k }
    | .get c k => issueGet { s with ctl := k } c
    | .block k => .ok (blockOnToken { s with ctl := k })
    | .fail m => .error m
    | .take c k =>
      match lookupD s.hol c none with
      | none => .error "KeyError: head_of_line"
      | some p =>
        let s1 := { s with ctl := k, hol := setKey s.hol c none }
        match sc.onPkt k (view s1) c p with
        | .send early k' => .ok (spawn { s1 with ctl := k' } p early)
        | .park k' =>
          match park { s1 with ctl := k' } c p with
          | .ok s2 => settle sc n s2
          | .error m => .error m
        | .fail m => .error m

/-- a burst of the loop: run to the next `yield` -/
def resumeLoop (sc : Sched α κ) (s : MQState α κ) : Except String (MQState α κ) :=
  settle sc (sc.fuel s.hol) { s with phase := .running }

/-- transmission time `size * 8.0 / rate` -/
def txTime (sc : Sched α κ) (p : MPkt) : α := Num.ofNat (p.size * 8) / sc.rate

/-- one Monitor round: `for flow_id in all_flows(): total = size(flow_id); total_bytes = byte_size(flow_id)`,
minus the packet in service when it is of that flow and `service_included` is false -/
def monitorSample (s : MQState α κ) (included : Bool) : List (Nat × Int × Int) :=
  s.queueCount.map fun (f, _) =>
    let n := cnt s.queueCount f
    let b := cnt s.queueBytes f
    if included then (f, n, b) else
    match s.currentPacket with
    | some p => if p.flow = f then (f, n - 1, b - p.size) else (f, n, b)
    | none => (f, n, b)

def withOut (o : MOut α) (r : Except String (MQState α κ)) : Except String (MQState α κ × MOut α) :=
  match r with
  | .ok s => .ok (s, o)
  | .error m => .error m

def doPut (sc : Sched α κ) (s : MQState α κ) (p : MPkt) : Except String (MQState α κ × MOut α) :=
  match sc.classOf p.flow with
  | none => .error "KeyError: flow2class"
  | some c =>
    match sc.onPut s.ctl c p with
    | .error m => .error m
    | .ok k => .ok (enqueue (countIn (postToken { s with ctl := k }) p) c p, .accepted)

def doPktResume (sc : Sched α κ) (s : MQState α κ) (c : Nat) (p : MPkt) : Except String (MQState α κ × MOut α) :=
  let s1 := { s with phase := Phase.running }
  match sc.onPkt s.ctl (view s1) c p with
  | .send early k => .ok (spawn { s1 with ctl := k } p early, .nothing)
  | .park k =>
    match park { s1 with ctl := k } c p with
    | .ok s2 => withOut .nothing (resumeLoop sc s2)
    | .error m => .error m
  | .fail m => .error m

def doSendDone (sc : Sched α κ) (s : MQState α κ) (p : MPkt) : Except String (MQState α κ × MOut α) :=
  match sc.onDone s.ctl p with
  | .error m => .error m
  | .ok k => withOut .nothing (resumeLoop sc { s with ctl := k })

def doTick (s : MQState α κ) (t : α) : Except String (MQState α κ × MOut α) :=
  if t < s.now then .error "reject: time goes back" else
  match s.phase with
  | .waitToken =>
    if s.tokens = 0 then .ok ({ s with now := t }, .nothing)
    else .error "reject: tick with a token hand-off pending"
  | .sending _ due =>
    if due < t then .error "reject: tick past a due timeout" else .ok ({ s with now := t }, .nothing)
  | .idle => .error "reject: tick before the server started"
  | _ => .error "reject: tick with a triggered event pending"

def step (sc : Sched α κ) (s : MQState α κ) : MAct α → Except String (MQState α κ × MOut α)
  | .init =>
    match s.phase with
    | .idle => withOut .nothing (resumeLoop sc s)
    | _ => .error "reject: init twice"
  | .put p => doPut sc s p
  | .tokenHandoff =>
    match s.phase, s.tokens with
    | .waitToken, n + 1 => .ok ({ s with tokens := n, phase := .tokenHanded }, .nothing)
    | .waitToken, 0 => .error "reject: hand-off without a token"
    | _, _ => .error "reject: hand-off while the loop is not blocked on the token store"
  | .wake =>
    match s.phase with
    | .tokenHanded => withOut .nothing (resumeLoop sc s)
    | _ => .error "reject: wake without a handed token"
  | .pktResume =>
    match s.phase with
    | .pktHanded c p => doPktResume sc s c p
    | _ => .error "reject: pktResume without a handed packet"
  | .sendInit =>
    match s.phase with
    | .spawned p =>
      .ok ({ s with currentPacket := some p, phase := .sending p (s.now + txTime sc p) }, .started p (s.now + txTime sc p))
    | _ => .error "reject: sendInit without a spawned sender"
  | .sendFire =>
    match s.phase with
    | .sending p due =>
      if s.now < due then .error "reject: fire early" else
      if due < s.now then .error "reject: fire late" else
      .ok ({ countOut s p with currentPacket := none, phase := .finished p }, .depart p)
    | _ => .error "reject: sendFire without a transmission"
  | .sendDone =>
    match s.phase with
    | .finished p => doSendDone sc s p
    | _ => .error "reject: sendDone without a finished sender"
  | .tick t => doTick s t
  | .sample inc => .ok (s, .samples (monitorSample s inc))

/-- phase letter as the harness reads it off `proc.target` -/
def phaseName (s : MQState α κ) : String :=
  match s.phase with
  | .idle => "I" | .running => "R" | .waitToken => "W" | .tokenHanded => "K" | .pktHanded _ _ => "H"
  | .spawned _ => "S" | .sending _ _ => "T" | .finished _ => "F"

/-- initial state -/
def init (k : κ) (t0 : α) (counts : List (Nat × Int) := []) : MQState α κ :=
  { now := t0, ctl := k, queueCount := counts }

end MQ
