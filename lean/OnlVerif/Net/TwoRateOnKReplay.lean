import OnlVerif.Net.TwoRateOnK
/-!
# Running the two-rate-token-bucket-on-kernel program (driver mode `trk`)

```
CASE <id> <cir bits> <cbs bits> <pir bits | None> <pbs bits | None>
arr <gap bits> <size>      -- one per packet, in order
END
```
The driver runs `TwoRateOnK.body` on the kernel model at `Float` time with `run()` (`runAll`) and prints how the run ended, the
`put` / `out` observations in the order of the trace (`put <id> <env.now bits>`, `out <id> <colour> <env.now bits>`),
`packets_received`, `packets_sent`, `current_bucket_commit`, `current_bucket_peak`, `update_time`, the final clock and the
verdict of the property's oracle (`TwoRateOnK.orun` at `Float`) on this history.  The harness runs the real
`TwoRateTokenBucket` with a real source process on the real kernel and compares line for line.
-/

namespace TwoRateOnK

def tkb (s : String) : Float := Float.ofBitsStr s

def showHEv : HEv Float → String
  | .put id t => s!"put {id} {t.bitsStr}"
  | .out id c t => s!"out {id} {c} {t.bitsStr}"

def oracleLine (size : Int → Nat) (cfg : TrCfg Float) (s : KState Float (TrS Float)) : String :=
  match orun size cfg (oInit cfg) (histOf s.trace) with
  | some o => if o.waiting.isEmpty then "oracle ok" else "oracle pending"
  | none => "oracle REJECT"

def showOpt : Option Float → String
  | some x => x.bitsStr
  | none => "None"

def showRun (size : Int → Nat) (cfg : TrCfg Float) (r : RunResult Float (TrS Float)) : List String :=
  let (tag, s) := match r with
    | .returned _ s => ("RET", s)
    | .raised x s => (s!"RAISED {x.ty}", s)
    | .outOfFuel s => ("FUEL", s)
  [tag] ++ (histOf s.trace).map showHEv ++
    [s!"cells rc={cellNat s cRecv} sn={cellNat s cSent} cm={(cellTime s cCommit).bitsStr} pk={showOpt (cellOpt s cPeak)} ut={(cellTime s cUpd).bitsStr}",
     s!"now {s.now.bitsStr}",
     match r with | .returned _ _ => oracleLine size cfg s | _ => "oracle -"]

partial def readWork (h : IO.FS.Stream) (arr : List (Float × Nat)) : IO (List (Float × Nat)) := do
  let line ← h.getLine
  if line.isEmpty then return arr.reverse
  let ws := (line.trimAscii.toString.splitOn " ").filter (· ≠ "")
  match ws with
  | ["END"] => return arr.reverse
  | ["arr", g, sz] => readWork h ((tkb g, sz.toNat!) :: arr)
  | _ => readWork h arr

def optOf (s : String) : Option Float := if s == "None" then none else some (tkb s)

end TwoRateOnK

partial def trkLoop (h : IO.FS.Stream) : IO Unit := do
  let line ← h.getLine
  if line.isEmpty then return
  let ws := (line.trimAscii.toString.splitOn " ").filter (· ≠ "")
  match ws with
  | ["CASE", id, cir, cbs, pir, pbs] =>
    IO.println s!"CASE {id}"
    let arr ← TwoRateOnK.readWork h []
    let cfg : TrCfg Float := { cir := TwoRateOnK.tkb cir, cbs := TwoRateOnK.tkb cbs, pir := TwoRateOnK.optOf pir,
                               pbs := TwoRateOnK.optOf pbs }
    let size : Int → Nat := fun i => (arr.map (·.2)).getD i.toNat 0
    let r := runAll (TwoRateOnK.body size cfg) 1 (5 * arr.length + 8) (TwoRateOnK.initState cfg (arr.map (·.1)))
    for l in TwoRateOnK.showRun size cfg r do IO.println l
    IO.println "ENDCASE"
    trkLoop h
  | [] => trkLoop h
  | _ => IO.println s!"BADLINE {line.trimAscii.toString}"; trkLoop h
