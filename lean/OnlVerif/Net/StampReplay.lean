import OnlVerif.Net.Sched.WFQ
import OnlVerif.Net.Sched.VC
/-!
# Replaying WFQ and VirtualClock through the StampServer model (driver mode `stamp`)

```
CASE <id> wfq <rate bits> W <n> (<class> <weight bits>)×n F <m> (<flow> <class>)×m
CASE <id> vc  <rate bits> W <n> (<class> <vtick bits>)×n  F <m> (<flow> <class>)×m
init [<id>] | put <id> <flow> <size> | handoff <id> | resume | sendInit | sendFire | sendDone [<id>]
  | tick <bits> | sample <0|1>
END
```
The driver answers every action line with `<action> <output> | <snapshot of the model state>`,
`REJECT <reason>` when the model does not enable the action, or `RAISE <exception>` when the model says the
implementation raises here (the state is left unchanged in both cases).
-/

namespace StampReplay
open Stamp

def fb (s : String) : Float := Float.ofBitsStr s

/-- insertion sort of association lists by key (canonical form of a dict) -/
def insKey {β : Type} (kv : Nat × β) : List (Nat × β) → List (Nat × β)
  | [] => [kv]
  | x :: xs => if kv.1 < x.1 then kv :: x :: xs else x :: insKey kv xs

def sortKeys {β : Type} (l : List (Nat × β)) : List (Nat × β) := l.foldl (fun acc kv => insKey kv acc) []

def showFloats (l : List (Nat × Float)) : String :=
  ",".intercalate ((sortKeys l).map fun kv => s!"{kv.1}:{kv.2.bitsStr}")

def showInts (l : List (Nat × Int)) : String :=
  ",".intercalate (l.map fun kv => s!"{kv.1}:{kv.2}")

/-- the store, sorted by packet id: `id:stamp:arrival` -/
def showItems (l : List (Item Float)) : String :=
  let keyed := sortKeys (l.map fun it => (it.pkt.id, it))
  ",".intercalate (keyed.map fun kv => s!"{kv.1}:{kv.2.stamp.bitsStr}:{kv.2.arr.bitsStr}")

def showOpt (p : Option SPkt) : String := match p with | some p => toString p.id | none => "-"

def fmtOut : StOut → String
  | .nothing => "-"
  | .accepted => "acc"
  | .depart p => s!"dep {p.id}"
  | .samples l => ",".intercalate (l.map fun x => s!"{x.1}:{x.2.1}:{x.2.2}")

def parseAct (ws : List String) : Option (StAct Float) :=
  match ws with
  | ["init"] => some (.init none)
  | ["init", i] => some (.init (some i.toNat!))
  | ["put", i, f, sz] => some (.put { id := i.toNat!, flow := f.toNat!, size := sz.toNat! })
  | ["handoff", i] => some (.handoff i.toNat!)
  | ["resume"] => some .resume
  | ["sendInit"] => some .sendInit
  | ["sendFire"] => some .sendFire
  | ["sendDone"] => some (.sendDone none)
  | ["sendDone", i] => some (.sendDone (some i.toNat!))
  | ["tick", t] => some (.tick (fb t))
  | ["sample", b] => some (.sample (b == "1"))
  | _ => none

def snapshot {σ : Type} (showSch : σ → String) (s : StState Float σ) : String :=
  s!"it={showItems s.items} ph={phase s} cur={showOpt s.currentPacket} qc={showInts s.queueCount} qb={showInts s.queueBytes} {showSch s.sch} now={s.now.bitsStr}"

partial def runStamp {σ : Type} (h : IO.FS.Stream) (d : Sched Float σ) (showSch : σ → String) (s : StState Float σ) :
    IO Unit := do
  let line ← h.getLine
  if line.isEmpty then return
  let ws := (line.trimAscii.toString.splitOn " ").filter (· ≠ "")
  match ws with
  | ["END"] => IO.println "ENDCASE"
  | [] => runStamp h d showSch s
  | _ =>
    match parseAct ws with
    | none => IO.println s!"BADLINE {line.trimAscii.toString}"; runStamp h d showSch s
    | some a =>
      match step d s a with
      | .error (.reject m) => IO.println s!"REJECT {m}"; runStamp h d showSch s
      | .error (.raise x) => IO.println s!"RAISE {x}"; runStamp h d showSch s
      | .ok (s', o) =>
        match a with
        | .sample _ => IO.println s!"sample {fmtOut o}"
        | _ => IO.println s!"{ws.headD ""} {fmtOut o} | {snapshot showSch s'}"
        runStamp h d showSch s'

def showWfq (st : WfqSt Float) : String :=
  let act := ",".intercalate (st.active.map toString)
  s!"vt={st.vtime.bitsStr} lt={st.lastTime.bitsStr} ft={showFloats st.finish} as={act} cc={showInts (sortKeys st.classCount)}"

def showVc (st : VcSt Float) : String := s!"vc={showFloats st.vc} aux={showFloats st.aux}"

/-- parse `<n> (<k> <v>)×n` off the front of a word list -/
def parsePairs {β : Type} (conv : String → β) : Nat → List String → List (Nat × β) × List String
  | 0, ws => ([], ws)
  | n + 1, k :: v :: ws => let r := parsePairs conv n ws; ((k.toNat!, conv v) :: r.1, r.2)
  | _, ws => ([], ws)

def parseTables (ws : List String) : Option (List (Nat × Float) × List (Nat × Nat)) :=
  match ws with
  | "W" :: n :: rest =>
    let (w, rest) := parsePairs fb n.toNat! rest
    match rest with
    | "F" :: m :: rest => some (w, (parsePairs (fun s => s.toNat!) m.toNat! rest).1)
    | _ => none
  | _ => none

end StampReplay

open StampReplay in
partial def stampLoop (h : IO.FS.Stream) : IO Unit := do
  let line ← h.getLine
  if line.isEmpty then return
  let ws := (line.trimAscii.toString.splitOn " ").filter (· ≠ "")
  match ws with
  | "CASE" :: id :: kind :: rate :: rest =>
    match parseTables rest with
    | none => IO.println s!"BADLINE {line.trimAscii.toString}"; stampLoop h
    | some (w, f2c) =>
      IO.println s!"CASE {id}"
      if kind == "wfq" then
        let cfg : WfqCfg Float := { rate := fb rate, weights := w, flow2class := f2c }
        runStamp h (WFQ.sched cfg) showWfq { now := 0, sch := WFQ.init0 }
      else
        let cfg : VcCfg Float := { rate := fb rate, vticks := w, flow2class := f2c }
        runStamp h (VC.sched cfg) showVc { now := 0, sch := VC.init0 cfg }
      stampLoop h
  | [] => stampLoop h
  | _ => IO.println s!"BADLINE {line.trimAscii.toString}"; stampLoop h
