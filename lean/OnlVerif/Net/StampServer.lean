import OnlVerif.Basic.Num
/-!
# `StampServer`: the common skeleton of the stamp-based schedulers WFQ and VirtualClock

Both schedulers have the same shape.  `put(p)` computes a stamp synchronously and calls
`store.put(PriorityItem((stamp, now), p))` on a `PriorityStore` (the item is `heappush`ed at once, the
`StorePut` event is processed later).  One loop process repeats

```
item = yield self.store.get()                       -- W (blocked) / H (get triggered, not yet resumed)
yield env.process(self.send_packet(item.item))      -- S (send process created) / T (transmitting) / D (finished)
<scheduler bookkeeping>                             -- WFQ only
```
and `send_packet` sets `current_packet`, sleeps `size*8.0/rate`, decrements the per-flow counters, forwards the
packet and clears `current_packet`.

The device is a labelled transition system over its *atomic bursts*:

* `init c`      the loop's `Initialize` is processed: first `store.get()` (served at once with item `c`, or blocks)
* `put p`       an external call of `put(p)`
* `handoff id`  a `StorePut` event is processed while the loop is blocked: the store hands the minimum over.
                Which of several items with an equal key `heapq` returns is its business: the action carries
                the packet id the implementation chose and the model *verifies* that its key is minimal.
* `resume`      the `StoreGet` event is processed: the loop takes the packet and spawns the send process
* `sendInit`    the send process's `Initialize` (URGENT): `current_packet` is set, the timeout is created
* `sendFire`    that timeout is processed: counters down, `out.put(packet)`, `current_packet = None`
* `sendDone c`  the send `Process` event is processed: scheduler bookkeeping, next `store.get()`
* `tick t`      the clock advances to `t`
* `sample b`    a `Monitor` samples every flow (`b` = `service_included`)

`tick` is admissible only when nothing triggered is pending and no timeout would be passed (kernel
guarantees G1–G3, theorems of model K).  The scheduler-specific stamp computation is a record `Sched`.
Errors are of two kinds: `reject` (the model does not enable the action: a wrong label) and `raise`
(the implementation would raise this Python exception here).
-/

/-- a packet as the schedulers see it -/
structure SPkt where
  id : Nat
  flow : Nat
  size : Nat
deriving DecidableEq, Repr

/-- a `PriorityItem((stamp, arrival instant), packet)` -/
structure Item (α : Type) where
  stamp : α
  arr : α
  pkt : SPkt

inductive SErr where
  /-- the model does not enable this action (the label is wrong) -/
  | reject (msg : String)
  /-- the implementation raises this exception at this point -/
  | raise (exc : String)
deriving DecidableEq, Repr

/-- scheduler-specific behaviour; `σ` is the scheduler's own stamp state -/
structure Sched (α σ : Type) where
  /-- line rate (bits per second) -/
  rate : α
  /-- `put(p)` at time `now` with `total` = `total_packets` (packets waiting or in transmission, all flows):
  new stamp state and the stamp of the packet -/
  onPut : σ → (now : α) → (total : Int) → SPkt → Except SErr (σ × α)
  /-- the loop's bookkeeping after `yield env.process(self.send_packet(p))` returned -/
  onDone : σ → (now : α) → SPkt → Except SErr σ

structure StState (α σ : Type) where
  now : α
  sch : σ
  /-- `store.items` (order of insertion; the heap layout is not modelled) -/
  items : List (Item α) := []
  /-- the loop is blocked in `store.get()` -/
  getPending : Bool := false
  /-- the get event is triggered with this item, the loop has not resumed yet -/
  handed : Option (Item α) := none
  /-- the send process exists, its `Initialize` has not been processed -/
  spawned : Option SPkt := none
  /-- in transmission until the due instant -/
  tx : Option (SPkt × α) := none
  /-- the send process has finished, the loop has not resumed yet -/
  fin : Option SPkt := none
  /-- `current_packet` -/
  currentPacket : Option SPkt := none
  /-- `queue_count` (a `defaultdict`; key order = insertion order = `all_flows()`) -/
  queueCount : List (Nat × Int) := []
  /-- `queue_byte_size` -/
  queueBytes : List (Nat × Int) := []
  started : Bool := false

inductive StAct (α : Type) where
  | init (choice : Option Nat)
  | put (p : SPkt)
  | handoff (id : Nat)
  | resume
  | sendInit
  | sendFire
  | sendDone (choice : Option Nat)
  | tick (t : α)
  | sample (included : Bool)

inductive StOut where
  | nothing
  | accepted
  | depart (p : SPkt)
  /-- one `Monitor` round: (flow, packets, bytes) for every flow of `all_flows()` -/
  | samples (l : List (Nat × Int × Int))

namespace Stamp
variable {α σ : Type} [Num α]

/-! ### finite maps (Python dicts) as association lists -/

def lookup {β : Type} : List (Nat × β) → Nat → Option β
  | [], _ => none
  | (k', v) :: r, k => if k' = k then some v else lookup r k

/-- `d[k] = v`: overwrite in place, or append a new key -/
def setKey {β : Type} : List (Nat × β) → Nat → β → List (Nat × β)
  | [], k, v => [(k, v)]
  | (k', v') :: r, k, v => if k' = k then (k', v) :: r else (k', v') :: setKey r k v

/-- `d[k]` of a `defaultdict(lambda: 0)` -/
def getD : List (Nat × Int) → Nat → Int
  | [], _ => 0
  | (k', v) :: r, k => if k' = k then v else getD r k

/-- `d[k] += δ` on a `defaultdict(lambda: 0)` -/
def bump : List (Nat × Int) → Nat → Int → List (Nat × Int)
  | [], k, d => [(k, d)]
  | (k', v) :: r, k, d => if k' = k then (k', v + d) :: r else (k', v) :: bump r k d

/-- `total_packets`: `sum(queue_count.values())` -/
def qcTotal : List (Nat × Int) → Int
  | [] => 0
  | (_, v) :: r => v + qcTotal r

/-! ### the priority store -/

/-- Python's `(stamp₁, arr₁) < (stamp₂, arr₂)` on tuples of floats -/
def keyLt (a b : Item α) : Bool :=
  decide (a.stamp < b.stamp) || (!decide (b.stamp < a.stamp) && decide (a.arr < b.arr))

/-- no item of the list has a key strictly below that of `it` -/
def isMin (it : Item α) (l : List (Item α)) : Bool := l.all fun x => !keyLt x it

/-- remove the first item carrying packet id `id` -/
def takeId (id : Nat) : List (Item α) → Option (Item α × List (Item α))
  | [] => none
  | x :: xs =>
    if x.pkt.id = id then some (x, xs)
    else match takeId id xs with
      | none => none
      | some (y, r) => some (y, x :: r)

/-- `heappop` as chosen by the implementation: the item with packet id `id`, verified to have a minimal key -/
def pick (l : List (Item α)) (id : Nat) : Except SErr (Item α × List (Item α)) :=
  match takeId id l with
  | none => .error (.reject "no item with this packet id in the store")
  | some (it, rest) =>
    if isMin it l then .ok (it, rest) else .error (.reject "the chosen item does not have a minimal key")

/-- the loop calls `store.get()`: served at once (choice `some id`) if an item is there, else it blocks -/
def issueGet (s : StState α σ) (choice : Option Nat) : Except SErr (StState α σ) :=
  match s.items, choice with
  | [], none => .ok { s with getPending := true }
  | [], some _ => .error (.reject "get served from an empty store")
  | _ :: _, none => .error (.reject "get blocks although the store holds items")
  | _ :: _, some id =>
    match pick s.items id with
    | .error e => .error e
    | .ok (it, rest) => .ok { s with items := rest, handed := some it }

/-! ### the bursts -/

/-- `add_packet_to_queue` + `store.put(PriorityItem((stamp, now), p))` -/
def enqueue (s : StState α σ) (sch : σ) (stamp : α) (p : SPkt) : StState α σ :=
  { s with sch := sch,
           queueCount := bump s.queueCount p.flow 1,
           queueBytes := bump s.queueBytes p.flow p.size,
           items := s.items ++ [{ stamp := stamp, arr := s.now, pkt := p }] }

def doPut (d : Sched α σ) (s : StState α σ) (p : SPkt) : Except SErr (StState α σ × StOut) :=
  match d.onPut s.sch s.now (qcTotal s.queueCount) p with
  | .error e => .error e
  | .ok (sch, stamp) => .ok (enqueue s sch stamp p, .accepted)

def doHandoff (s : StState α σ) (id : Nat) : Except SErr (StState α σ × StOut) :=
  if s.getPending then
    match pick s.items id with
    | .error e => .error e
    | .ok (it, rest) => .ok ({ s with items := rest, handed := some it, getPending := false }, .nothing)
  else .error (.reject "handoff without pending get")

def doResume (s : StState α σ) : Except SErr (StState α σ × StOut) :=
  match s.handed with
  | none => .error (.reject "resume without handed item")
  | some it => .ok ({ s with handed := none, spawned := some it.pkt }, .nothing)

/-- transmission time `packet.size * 8.0 / self.rate` -/
def txTime (d : Sched α σ) (p : SPkt) : α := Num.ofNat (p.size * 8) / d.rate

def doSendInit (d : Sched α σ) (s : StState α σ) : Except SErr (StState α σ × StOut) :=
  match s.spawned with
  | none => .error (.reject "sendInit without spawned send process")
  | some p =>
    if Num.eqb d.rate Num.zero then .error (.raise "ZeroDivisionError")
    else if txTime d p < Num.zero then .error (.raise "ValueError")
    else .ok ({ s with spawned := none, currentPacket := some p, tx := some (p, s.now + txTime d p) }, .nothing)

/-- the counters of `send_packet` after the timeout -/
def release (s : StState α σ) (p : SPkt) : StState α σ :=
  { s with queueCount := bump s.queueCount p.flow (-1),
           queueBytes := bump s.queueBytes p.flow (-(p.size : Int)),
           currentPacket := none, tx := none, fin := some p }

def doSendFire (s : StState α σ) : Except SErr (StState α σ × StOut) :=
  match s.tx with
  | none => .error (.reject "sendFire without transmission")
  | some (p, due) =>
    if s.now < due then .error (.reject "sendFire early") else
    if due < s.now then .error (.reject "sendFire late") else
    .ok (release s p, .depart p)

def doSendDone (d : Sched α σ) (s : StState α σ) (choice : Option Nat) : Except SErr (StState α σ × StOut) :=
  match s.fin with
  | none => .error (.reject "sendDone without finished send process")
  | some p =>
    match d.onDone s.sch s.now p with
    | .error e => .error e
    | .ok sch =>
      match issueGet { s with sch := sch, fin := none } choice with
      | .error e => .error e
      | .ok s' => .ok (s', .nothing)

def doInit (s : StState α σ) (choice : Option Nat) : Except SErr (StState α σ × StOut) :=
  if s.started then .error (.reject "init twice") else
  match issueGet { s with started := true } choice with
  | .error e => .error e
  | .ok s' => .ok (s', .nothing)

/-- may the clock advance to `t`? -/
def tickOk (s : StState α σ) (t : α) : Option String :=
  if t < s.now then some "time goes back" else
  if !s.started then some "tick before the loop started" else
  if s.handed.isSome then some "tick with a triggered get pending" else
  if s.spawned.isSome then some "tick with an unstarted send process" else
  if s.fin.isSome then some "tick with a finished send process pending" else
  if s.getPending && !s.items.isEmpty then some "tick with a hand-off pending" else
  match s.tx with
  | some (_, due) => if due < t then some "tick past a due timeout" else none
  | none => none

def doTick (s : StState α σ) (t : α) : Except SErr (StState α σ × StOut) :=
  match tickOk s t with
  | some m => .error (.reject m)
  | none => .ok ({ s with now := t }, .nothing)

/-- one line of a `Monitor` round for flow `f`: `size(f)`, `byte_size(f)`, minus the packet in service if
it belongs to `f` and `service_included` is false -/
def sampleFlow (s : StState α σ) (included : Bool) (f : Nat) : Nat × Int × Int :=
  match s.currentPacket with
  | some p =>
    if !included && p.flow = f then (f, getD s.queueCount f - 1, getD s.queueBytes f - p.size)
    else (f, getD s.queueCount f, getD s.queueBytes f)
  | none => (f, getD s.queueCount f, getD s.queueBytes f)

/-- a `Monitor` round over `all_flows()` -/
def sampleAll (s : StState α σ) (included : Bool) : List (Nat × Int × Int) :=
  s.queueCount.map fun kv => sampleFlow s included kv.1

def step (d : Sched α σ) (s : StState α σ) : StAct α → Except SErr (StState α σ × StOut)
  | .init c => doInit s c
  | .put p => doPut d s p
  | .handoff id => doHandoff s id
  | .resume => doResume s
  | .sendInit => doSendInit d s
  | .sendFire => doSendFire s
  | .sendDone c => doSendDone d s c
  | .tick t => doTick s t
  | .sample b => .ok (s, .samples (sampleAll s b))

/-- phase of the loop as visible through `Process.target`:
I not started, W blocked in get, H get triggered, S send process created, T transmitting, D send finished -/
def phase (s : StState α σ) : String :=
  if !s.started then "I" else if s.handed.isSome then "H" else if s.spawned.isSome then "S"
  else if s.tx.isSome then "T" else if s.fin.isSome then "D" else "W"

end Stamp
