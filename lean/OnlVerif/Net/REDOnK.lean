import OnlVerif.Kernel.Step
import OnlVerif.Kernel.TimeCell
import OnlVerif.Net.Port
import OnlVerif.Net.GenSink
/-!
# `DistPacketGenerator` → `REDPort` → `PacketSink` as processes *on the kernel model `K`*

`OnlVerif/Net/Port.lean` describes `onl.netdev.REDPort` as an instance of the FifoServer LTS (`admitRed`, `redAvg`,
`redDrop`), `OnlVerif/Net/GenSink.lean` describes the generator and the sink as state machines; all three *assume* what
the kernel guarantees.  This file writes the three classes as ONE program of the kernel model (`OnlVerif/Kernel`): the
generators `DistPacketGenerator.run` and `Port.run` are `Burst` programs, `REDPort.put` runs inside the generator's burst
(`self.out.put(packet)` is a plain call), `PacketSink.put` inside the port's burst, the `Store` of the port is a `Store`
resource of `K`, and nothing is assumed about scheduling.  `OnlVerif/Props/C09K2.lean` proves that every run of this
program is an admissible run of the RED LTS and obeys the generator and sink laws of C08.

```python
def run(self, env):                      # DistPacketGenerator        def put(self, packet):         # REDPort
    yield env.timeout(self.initial_delay)                                 self.packets_received += 1
    while env.now < self.finish:                                          if self.limit_bytes: current_queue_size = self.byte_size
        yield env.timeout(self.arrival_dist())                            else: current_queue_size = len(self.store.items)
        self.packets_send += 1                                            alpha = 2 ** (-self.weight_factor)
        packet = Packet(env.now, self.size_dist(), self.packets_send,     self.average_queue_size = (self.average_queue_size * (1 - alpha)
                        src=self.element_id, flow_id=self.flow_id)                                   + current_queue_size * alpha)
        if self.rec_flow: self.time_rec.append(packet.time); …            if self.average_queue_size >= self.qlimit: self.packets_dropped += 1
        self.out.put(packet)                                              elif self.average_queue_size >= self.max_threshold:
                                                                              rand = random.uniform(0, 1)
def run(self, env):                      # Port (inherited)                   if rand <= self.max_probability: self.packets_dropped += 1
    while True:                                                               else: self.byte_size += packet.size; self.store.put(packet)
        packet = yield self.store.get()                                   elif self.average_queue_size >= self.min_threshold:
        self.busy = 1; self.busy_packet_size = packet.size                    prob = (avg - min_th) / (max_th - min_th) * max_probability
        if self.rate > 0: yield env.timeout(packet.size * 8 / self.rate)      rand = random.uniform(0, 1)
        self.byte_size -= packet.size                                         if rand <= prob: self.packets_dropped += 1
        if self.out: self.out.put(packet)          # PacketSink.put           else: self.byte_size += packet.size; self.store.put(packet)
        self.busy = 0; self.busy_packet_size = 0                          else: self.byte_size += packet.size; self.store.put(packet)
```

Encoding (modelling devices, all of them):

* the three lists of draws are inputs: `gaps` (what `arrival_dist()` returns, in call order), `sizes` (`size_dist()`), `us`
  (`random.uniform(0, 1)`); the generator's local state holds what is left of each.  The loop head takes a gap *and* a size
  (the code calls `size_dist()` after the sleep; the two lists are separate, so the order of the two calls is not observable);
  `us` is consumed only in the two random regions of `REDPort.put`, one draw per arrival there, none elsewhere.  When `gaps` or
  `sizes` is exhausted at the loop head the generator returns (a scripted distribution that runs dry raises in the real
  generator: the harness resumes the run); an exhausted `us` in a random region raises `IndexError` (excluded in the theorems by
  `gaps.length ≤ us.length`: at most one draw per packet);
* packet `n` (the generator's `packets_send`) is the `Int` `n` in the store; `szOf sizes0 n` = the `n`-th entry of the size
  script gives `packet.size` to `Port.run` and to the sink (that this *is* the size the generator drew for packet `n` is part of
  the proved invariant); `packet.time` is the instant of the generator's observation `gen n` (`rec_flow`: `time_rec`);
* `K` has no call that reads `env.now`: the generator carries the instant of its next resumption in its local state
  (`now + delay` for a sleep — the kernel's own expression, starting from `0 + initial_delay`); that this is `env.now` whenever
  it runs (the loop test `env.now < self.finish`, `Packet(env.now, …)`) is part of the proved invariant; the observations record
  the kernel's own clock;
* the public attributes live in the shared cells of `K`: cell 0 = `byte_size`, 1 = `packets_received`, 2 = `busy`,
  3 = `busy_packet_size`, 4 = `packets_dropped`, 5 = `average_queue_size` (through the codec `TimeCell`: `Val` has no scalar
  constructor), 7 = the sink's `packets_received[flow]`, 8 = its `bytes_received[flow]`;
* `len(self.store.items)` (`limit_bytes = False`) is no kernel call of `K`: the *ghost* cell 6 counts accepted `store.put`s minus
  issued `store.get()`s (`+1` after `store.put`, `-1` before every `store.get()`), and `put` reads `max(cell 6, 0)`.  That this is
  the length of the `K` store's `items` at every `put` is part of the proved refinement (the LTS uses the real length);
* observations (each recorded with `env.now` in `KState.trace`): `gen n` = packet `n` is created and handed to `out.put`;
  `avg x` = `average_queue_size` after the update; `draw u` = `random.uniform` returned `u` (only when called);
  `u x` = *ghost*: the draw attached to this arrival for the LTS (`x = u` if one was consumed, else `0`), one per arrival, so that
  the abstraction function can rebuild `Pkt.draw` of a stored packet from its id; `drop n`; `out n` = `self.out.put(packet)`
  in `Port.run`; `sink n` = `PacketSink.put` appended to its per-flow records (arrival instant = the observation's clock,
  wait = that clock − the clock of `gen n`);
* one generator, one flow, `element_id` of the port falsy, `rec_flow_ids` (the record key is the flow id).
-/

/-- local states of the two generator functions (where each one is suspended) -/
inductive RSt (τ : Type) where
  /-- `DistPacketGenerator.run` not started; the three scripts -/
  | genStart (gaps : List τ) (sizes : List Nat) (us : List τ)
  /-- suspended in `yield env.timeout(self.initial_delay)`; resumes at instant `t` -/
  | genDelay (t : τ) (gaps : List τ) (sizes : List Nat) (us : List τ)
  /-- suspended in `yield env.timeout(self.arrival_dist())`; resumes at instant `t`; `n` packets sent so far;
  `z` = the size drawn for the packet it is about to create -/
  | genWait (t : τ) (n : Nat) (z : Nat) (gaps : List τ) (sizes : List Nat) (us : List τ)
  /-- `Port.run` not started -/
  | portStart
  /-- `Port.run` suspended in `packet = yield self.store.get()` -/
  | portGet
  /-- `Port.run` suspended in `yield env.timeout(packet.size * 8 / self.rate)` holding `packet` -/
  | portTx (id : Int)

namespace REDOnK

/-- the constructor arguments of the three objects -/
structure Cfg (τ : Type) where
  rate : τ
  qlimit : Nat
  maxTh : τ
  minTh : τ
  maxP : τ
  w : Nat
  limitBytes : Bool
  initialDelay : τ
  /-- `none` = `float("inf")` -/
  finish : Option τ
  flow : Nat := 0

variable {τ : Type} [Num τ] [TimeCell τ]

def storeId : ResId := 0
def cByteSize : Nat := 0
def cReceived : Nat := 1
def cBusy : Nat := 2
def cBusySize : Nat := 3
def cDropped : Nat := 4
def cAvg : Nat := 5
/-- ghost: accepted `store.put`s − issued `store.get()`s -/
def cLen : Nat := 6
def cSinkCnt : Nat := 7
def cSinkBytes : Nat := 8

def typeErr : Exc := ⟨"TypeError", []⟩
def indexErr : Exc := ⟨"IndexError", []⟩

/-- what a program does with a reply it cannot use (never happens in the runs of this program) -/
def bad : Reply → Burst τ (RSt τ)
  | .err x => .raise x
  | _ => .raise typeErr

/-- read an integer attribute -/
def loadInt (k : Nat) (cont : Int → Burst τ (RSt τ)) : Burst τ (RSt τ) :=
  .call (.load k) fun rp => match rp with
    | .val (.int n) => cont n
    | rp => bad rp

/-- read a scalar attribute -/
def loadSc (k : Nat) (cont : τ → Burst τ (RSt τ)) : Burst τ (RSt τ) :=
  .call (.load k) fun rp => match rp with
    | .val v => (match TimeCell.dec v with
      | some x => cont x
      | none => .raise typeErr)
    | rp => bad rp

/-- `packet.size` of packet `id`: the `id`-th entry of the size script -/
def szOf (sizes0 : List Nat) (id : Int) : Nat := sizes0.getD (id.toNat - 1) 0

/-! ## `REDPort.put` -/

/-- `self.packets_dropped += 1` -/
def redRefuse (id : Int) (cont : Burst τ (RSt τ)) : Burst τ (RSt τ) :=
  loadInt cDropped fun d =>
  .call (.store cDropped (.int (d + 1))) fun _ =>
  .call (.log "drop" (.int id)) fun _ =>
  cont

/-- `self.byte_size += packet.size; self.store.put(packet)` -/
def redAccept (id : Int) (z : Nat) (cont : Burst τ (RSt τ)) : Burst τ (RSt τ) :=
  loadInt cByteSize fun b =>
  .call (.store cByteSize (.int (b + (z : Int)))) fun _ =>      -- self.byte_size += packet.size
  .call (.sput storeId id) fun _ =>                             -- self.store.put(packet)
  loadInt cLen fun m =>
  .call (.store cLen (.int (m + 1))) fun _ =>                   --   (ghost: one more accepted put)
  cont

/-- `rand = random.uniform(0, 1)`: the next entry of the script; `k` gets the draw and what is left -/
def withDraw (us : List τ) (k : τ → List τ → Burst τ (RSt τ)) : Burst τ (RSt τ) :=
  match us with
  | [] => .raise indexErr
  | u :: us' =>
    .call (.log "draw" (TimeCell.enc u)) fun _ =>
    .call (.log "u" (TimeCell.enc u)) fun _ =>                  --   (ghost: the draw attached to this arrival)
    k u us'

/-- no draw is taken for this arrival: the LTS packet carries `0` -/
def noDraw (cont : Burst τ (RSt τ)) : Burst τ (RSt τ) :=
  .call (.log "u" (TimeCell.enc (Num.zero : τ))) fun _ => cont

/-- `current_queue_size` -/
def loadCur (c : Cfg τ) (cont : Nat → Burst τ (RSt τ)) : Burst τ (RSt τ) :=
  if c.limitBytes then loadInt cByteSize fun b => cont b.toNat  -- self.byte_size
  else loadInt cLen fun m => cont m.toNat                       -- len(self.store.items)  (= max(ghost counter, 0))

/-- the three-region decision of `REDPort.put` for the new average `avg`; `cont` gets what is left of the draws -/
def redDecide (c : Cfg τ) (id : Int) (z : Nat) (avg : τ) (us : List τ) (cont : List τ → Burst τ (RSt τ)) :
    Burst τ (RSt τ) :=
  if (Num.ofNat c.qlimit : τ) ≤ avg then                         -- if self.average_queue_size >= self.qlimit:
    noDraw (redRefuse id (cont us))
  else if c.maxTh ≤ avg then                                    -- elif self.average_queue_size >= self.max_threshold:
    withDraw us fun u us' =>                                    --   rand = random.uniform(0, 1)
    if u ≤ c.maxP then redRefuse id (cont us')                  --   if rand <= self.max_probability:
    else redAccept id z (cont us')
  else if c.minTh ≤ avg then                                    -- elif self.average_queue_size >= self.min_threshold:
    withDraw us fun u us' =>
    if u ≤ (avg - c.minTh) / (c.maxTh - c.minTh) * c.maxP then  --   if rand <= prob:
      redRefuse id (cont us')
    else redAccept id z (cont us')
  else noDraw (redAccept id z (cont us))

/-- `REDPort.put(packet)` for packet `id` of size `z` -/
def redPut (c : Cfg τ) (id : Int) (z : Nat) (us : List τ) (cont : List τ → Burst τ (RSt τ)) : Burst τ (RSt τ) :=
  loadInt cReceived fun n =>
  .call (.store cReceived (.int (n + 1))) fun _ =>              -- self.packets_received += 1
  loadCur c fun cur =>
  loadSc cAvg fun avg =>
  .call (.store cAvg (TimeCell.enc (Port.redAvg avg (Num.ofNat cur) c.w))) fun _ =>   -- self.average_queue_size = …
  .call (.log "avg" (TimeCell.enc (Port.redAvg avg (Num.ofNat cur) c.w))) fun _ =>
  redDecide c id z (Port.redAvg avg (Num.ofNat cur) c.w) us cont

/-! ## `DistPacketGenerator.run` -/

/-- the loop head at instant `now` with `n` packets sent: `while env.now < self.finish: yield env.timeout(self.arrival_dist())` -/
def genLoop (c : Cfg τ) (now : τ) (n : Nat) (gaps : List τ) (sizes : List Nat) (us : List τ) : Burst τ (RSt τ) :=
  if Gen.running c.finish now then
    match gaps with
    | [] => .ret .none
    | gap :: gaps' =>
      match sizes with
      | [] => .ret .none
      | z :: sizes' =>
        .call (.timeout gap .none) fun rp => match rp with
          | .ev e => .yield e (.genWait (now + gap) n z gaps' sizes' us)
          | rp => bad rp
  else .ret .none

/-- after the sleep, at instant `now`: create packet `n + 1`, hand it to `out.put`, back to the loop head -/
def genEmit (c : Cfg τ) (now : τ) (n : Nat) (z : Nat) (gaps : List τ) (sizes : List Nat) (us : List τ) : Burst τ (RSt τ) :=
  .call (.log "gen" (.int ((n : Int) + 1))) fun _ =>            -- self.packets_send += 1; packet = Packet(env.now, …)
  redPut c ((n : Int) + 1) z us fun us' =>                      -- self.out.put(packet)
  genLoop c now (n + 1) gaps sizes us'

/-- `yield env.timeout(self.initial_delay)` -/
def genBegin (c : Cfg τ) (gaps : List τ) (sizes : List Nat) (us : List τ) : Burst τ (RSt τ) :=
  .call (.timeout c.initialDelay .none) fun rp => match rp with
    | .ev e => .yield e (.genDelay (Num.zero + c.initialDelay) gaps sizes us)
    | rp => bad rp

/-! ## `Port.run` and `PacketSink.put` -/

/-- `packet = yield self.store.get()` -/
def portLoop : Burst τ (RSt τ) :=
  loadInt cLen fun m =>
  .call (.store cLen (.int (m - 1))) fun _ =>                   --   (ghost: one more issued get)
  .call (.sget storeId 0) fun rp => match rp with
    | .ev g => .yield g .portGet
    | rp => bad rp

/-- `PacketSink.put(packet)`: the per-flow counters and records -/
def sinkPut (sizes0 : List Nat) (id : Int) (cont : Burst τ (RSt τ)) : Burst τ (RSt τ) :=
  .call (.log "sink" (.int id)) fun _ =>                        -- self.waits[..].append(now - packet.time); self.arrivals[..].append(now)
  loadInt cSinkCnt fun n =>
  .call (.store cSinkCnt (.int (n + 1))) fun _ =>               -- self.packets_received[rec_index] += 1
  loadInt cSinkBytes fun b =>
  .call (.store cSinkBytes (.int (b + (szOf sizes0 id : Int)))) fun _ =>   -- self.bytes_received[rec_index] += packet.size
  cont

/-- `Port.run` after the transmission delay -/
def portDone (sizes0 : List Nat) (id : Int) : Burst τ (RSt τ) :=
  loadInt cByteSize fun b =>
  .call (.store cByteSize (.int (b - (szOf sizes0 id : Int)))) fun _ =>   -- self.byte_size -= packet.size
  .call (.log "out" (.int id)) fun _ =>                         -- self.out.put(packet)
  sinkPut sizes0 id (
  .call (.store cBusy (.int 0)) fun _ =>                        -- self.busy = 0
  .call (.store cBusySize (.int 0)) fun _ =>                    -- self.busy_packet_size = 0
  portLoop)

/-- the transmission delay `packet.size * 8 / self.rate` -/
def txTime (sizes0 : List Nat) (rate : τ) (id : Int) : τ := Num.ofNat (szOf sizes0 id * 8) / rate

/-- `Port.run` from the point where `store.get()` has delivered `packet` -/
def portServe (sizes0 : List Nat) (rate : τ) (id : Int) : Burst τ (RSt τ) :=
  .call (.store cBusy (.int 1)) fun _ =>                        -- self.busy = 1
  .call (.store cBusySize (.int (szOf sizes0 id))) fun _ =>     -- self.busy_packet_size = packet.size
  if Num.zero < rate then                                       -- if self.rate > 0:
    .call (.timeout (txTime sizes0 rate id) .none) fun rp => match rp with
      | .ev t => .yield t (.portTx id)                          --   yield env.timeout(packet.size * 8 / self.rate)
      | rp => bad rp
  else portDone sizes0 id

/-- the two generator functions (with the two `put` methods they call) as one `K` program; `sizes0` = the whole size script -/
def body (c : Cfg τ) (sizes0 : List Nat) : RSt τ → Resume → Burst τ (RSt τ)
  | .genStart gaps sizes us, _ => genBegin c gaps sizes us
  | .genDelay t gaps sizes us, _ => genLoop c t 0 gaps sizes us
  | .genWait t n z gaps sizes us, _ => genEmit c t n z gaps sizes us
  | .portStart, _ => portLoop
  | .portGet, .value (.int id) => portServe sizes0 c.rate id
  | .portGet, _ => .raise typeErr
  | .portTx id, _ => portDone sizes0 id

/-- event ids of the two processes -/
def portProc : EvId := 0
def genProc : EvId := 2

/-- a fresh environment with the port's `Store`, the attributes at their `__init__` values, after `REDPort.__init__`
(`env.process(self.run(env))`) and `DistPacketGenerator.__init__` (`env.process(self.run(env))`) -/
def initState (gaps : List τ) (sizes : List Nat) (us : List τ) : KState τ (RSt τ) :=
  [Call.spawn RSt.portStart, Call.spawn (RSt.genStart gaps sizes us)].foldl (fun s c => (doCall s 0 c).1)
    { now := Num.zero, resources := #[{ kind := .store, capacity := none }],
      shared := [(cByteSize, .int 0), (cReceived, .int 0), (cBusy, .int 0), (cBusySize, .int 0), (cDropped, .int 0),
                 (cAvg, TimeCell.enc (Num.zero : τ)), (cLen, .int 0), (cSinkCnt, .int 0), (cSinkBytes, .int 0)] }

/-! ## observations -/

/-- what the theorems read off the trace -/
inductive View (τ : Type) where
  /-- the generator created packet `id` at `t` and handed it to `REDPort.put` -/
  | gen (id : Int) (t : τ)
  /-- the draw attached to an arrival (ghost) -/
  | u (x : τ)
  /-- `Port.run` called `out.put(packet)` at `t` -/
  | out (id : Int) (t : τ)
  /-- `PacketSink.put` recorded packet `id` at `t` -/
  | sink (id : Int) (t : τ)

def viewOf : Obs τ → Option (View τ)
  | .log _ what v now =>
    if what = "u" then (TimeCell.dec v).map View.u
    else match v with
      | .int id =>
        if what = "gen" then some (.gen id now)
        else if what = "out" then some (.out id now)
        else if what = "sink" then some (.sink id now)
        else none
      | _ => none
  | _ => none

def viewsOf (tr : Array (Obs τ)) : List (View τ) := tr.toList.filterMap viewOf

def View.gen? : View τ → Option (Int × τ) | .gen i t => some (i, t) | _ => none
def View.u? : View τ → Option τ | .u x => some x | _ => none
def View.out? : View τ → Option (Int × τ) | .out i t => some (i, t) | _ => none
def View.sink? : View τ → Option (Int × τ) | .sink i t => some (i, t) | _ => none

/-- the packets the generator emitted: `(id, env.now)` in order -/
def gensOf (tr : Array (Obs τ)) : List (Int × τ) := (viewsOf tr).filterMap View.gen?
/-- the draw attached to each arrival, in arrival order -/
def usOf (tr : Array (Obs τ)) : List τ := (viewsOf tr).filterMap View.u?
/-- the `out.put(packet)` calls of `Port.run`: `(id, env.now)` in order -/
def outsOf (tr : Array (Obs τ)) : List (Int × τ) := (viewsOf tr).filterMap View.out?
/-- the records of the sink: `(id, env.now)` in order -/
def sinksOf (tr : Array (Obs τ)) : List (Int × τ) := (viewsOf tr).filterMap View.sink?

/-- scalar observations with a given tag (`avg`, `draw`), with the clock -/
def scalarsOf (tag : String) (tr : Array (Obs τ)) : List (τ × τ) :=
  tr.toList.filterMap fun o => match o with
    | .log _ what v now => if what = tag then (TimeCell.dec v).map (fun x => (x, now)) else none
    | _ => none

/-- integer observations with a given tag (`drop`), with the clock -/
def intsOf (tag : String) (tr : Array (Obs τ)) : List (Int × τ) :=
  tr.toList.filterMap fun o => match o with
    | .log _ what (.int i) now => if what = tag then some (i, now) else none
    | _ => none

/-! ## the abstraction function -/

/-- value of an integer attribute cell (0 if unset) -/
def cellInt (s : KState τ (RSt τ)) (k : Nat) : Int :=
  match ((s.shared.find? (·.1 == k)).map (·.2)).getD Val.none with
  | Val.int n => n
  | _ => 0

/-- value of a scalar attribute cell (0 if unset) -/
def cellSc (s : KState τ (RSt τ)) (k : Nat) : τ :=
  (TimeCell.dec (((s.shared.find? (·.1 == k)).map (·.2)).getD Val.none)).getD Num.zero

/-- the packet object behind an id, as the LTS sees it; `ulog` = the draws attached to the arrivals so far -/
def pktOf (c : Cfg τ) (sizes0 : List Nat) (ulog : List τ) (id : Int) : Pkt τ :=
  { id := id.toNat, flow := c.flow, size := szOf sizes0 id, ctime := Num.zero, draw := ulog.getD (id.toNat - 1) Num.zero }

/-- configuration of the port for the LTS -/
def cfg (c : Cfg τ) : PortCfg τ :=
  { rate := c.rate, qlimit := some (c.qlimit : Int), limitBytes := c.limitBytes, hasId := false,
    red := some (c.maxTh, c.minTh, c.maxP, c.w) }

/-- the public attributes as the LTS device state -/
def absDev (s : KState τ (RSt τ)) : PortSt τ :=
  { byteSize := cellInt s cByteSize, received := (cellInt s cReceived).toNat, dropped := (cellInt s cDropped).toNat,
    busy := cellInt s cBusy != 0, busySize := (cellInt s cBusySize).toNat, avg := cellSc s cAvg }

/-- the instant at which the agenda entry of event `t` is due -/
def dueOf (s : KState τ (RSt τ)) (t : EvId) : τ :=
  ((s.agenda.find? (·.ev == t)).map (·.time)).getD s.now

/-- **abstraction function**: the LTS state a kernel state of this program stands for, read off the port process
(where it is suspended, whether the event it waits for is triggered), the store, the attribute cells and, for the draw
each stored packet was admitted with, the trace -/
def absRED (c : Cfg τ) (sizes0 : List Nat) (s : KState τ (RSt τ)) : FState τ (PortSt τ) :=
  let pk := pktOf c sizes0 (usOf s.trace)
  let base : FState τ (PortSt τ) :=
    { now := s.now, dev := absDev s, items := (s.res storeId).items.map pk }
  match s.proc? portProc with
  | some { st := .portGet, target := some g } =>
    match (s.ev g).out with
    | some (.ok (.int id)) => { base with started := true, handed := some (pk id) }
    | _ => { base with started := true, getPending := true }
  | some { st := .portTx id, target := some t } =>
    { base with started := true, tx := some (pk id, dueOf s t, 0) }
  | _ => base

/-- what is left of the uniform draws: read off the generator's local state -/
def drawsLeft (s : KState τ (RSt τ)) : List τ :=
  match s.proc? genProc with
  | some { st := .genStart _ _ us, .. } => us
  | some { st := .genDelay _ _ _ us, .. } => us
  | some { st := .genWait _ _ _ _ _ us, .. } => us
  | _ => []

/-- does `REDPort.put` call `random.uniform` for the average `avg`? -/
def needsDraw (c : Cfg τ) (avg : τ) : Bool :=
  !decide ((Num.ofNat c.qlimit : τ) ≤ avg) && (decide (c.maxTh ≤ avg) || decide (c.minTh ≤ avg))

/-- the instant the generator created packet `id` (`packet.time`) -/
def genTime (tr : Array (Obs τ)) (id : Int) : τ := (((gensOf tr).find? (·.1 == id)).map (·.2)).getD Num.zero

/-- the deliveries the sink saw, as `Net/GenSink.lean` takes them -/
def deliveries (c : Cfg τ) (sizes0 : List Nat) (tr : Array (Obs τ)) : List (Delivery τ) :=
  (sinksOf tr).map fun x => { key := c.flow, now := x.2, ptime := genTime tr x.1, size := szOf sizes0 x.1 }

/-- the final state of `run()` if it returned, else `none` -/
def finalState (r : RunResult τ (RSt τ)) : Option (KState τ (RSt τ)) :=
  match r with
  | .returned _ s => some s
  | _ => none

end REDOnK
