import OnlVerif.Net.PortOnK
import OnlVerif.Net.FifoReplay
/-!
# Running the Port-on-kernel program (driver mode `portk`)

```
CASE <id> <rate bits> <qlimit|None>
arr <gap bits> <packet id> <size>
…
END
```
The driver runs `PortOnK.body` on the kernel model at `Float` time with `run()` (`runAll`) and prints how the run
ended, every `out.put` observation `out <id> <env.now bits>`, the attribute cells and the final clock.  The harness
runs the real `Port` with a real source process on the real kernel and compares line for line.
-/

namespace PortOnK

def sizeTable (tbl : List (Int × Nat)) (i : Int) : Nat := ((tbl.find? (·.1 == i)).map (·.2)).getD 0

def showRun (r : RunResult Float (PSt Float)) : List String :=
  let (tag, s) := match r with
    | .returned _ s => ("RET", s)
    | .raised x s => (s!"RAISED {x.ty}", s)
    | .outOfFuel s => ("FUEL", s)
  [tag] ++ (outsOf s.trace).map (fun o => s!"out {o.1} {o.2.bitsStr}") ++
    [s!"cells bs={cellInt s cByteSize} rc={cellInt s cReceived} dr={cellInt s cDropped} busy={cellInt s cBusy} bsz={cellInt s cBusySize}",
     s!"now {s.now.bitsStr}"]

partial def readArrivals (h : IO.FS.Stream) (acc : List (Float × Int × Nat)) : IO (List (Float × Int × Nat)) := do
  let line ← h.getLine
  if line.isEmpty then return acc.reverse
  let ws := (line.trimAscii.toString.splitOn " ").filter (· ≠ "")
  match ws with
  | ["END"] => return acc.reverse
  | ["arr", gap, pid, sz] => readArrivals h ((fb gap, pid.toInt!, sz.toNat!) :: acc)
  | _ => readArrivals h acc

end PortOnK

partial def portkLoop (h : IO.FS.Stream) : IO Unit := do
  let line ← h.getLine
  if line.isEmpty then return
  let ws := (line.trimAscii.toString.splitOn " ").filter (· ≠ "")
  match ws with
  | ["CASE", id, rate, ql] =>
    IO.println s!"CASE {id}"
    let arr ← PortOnK.readArrivals h []
    let size := PortOnK.sizeTable (arr.map fun x => (x.2.1, x.2.2))
    let arrivals : List (Float × Int) := arr.map fun x => (x.1, x.2.1)
    let r := runAll (PortOnK.body size (fb rate) (parseOptInt ql)) 1 (4 * arr.length + 8) (PortOnK.initState arrivals)
    for l in PortOnK.showRun r do IO.println l
    IO.println "ENDCASE"
    portkLoop h
  | [] => portkLoop h
  | _ => IO.println s!"BADLINE {line.trimAscii.toString}"; portkLoop h
