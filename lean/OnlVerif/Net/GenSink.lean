import OnlVerif.Basic.Num
/-!
# `DistPacketGenerator` and `PacketSink` (`onl/packet/dist_generator.py`, `onl/packet/sink.py`)

The generator's random draws (inter-arrival gaps, sizes) are inputs of the model.
-/

structure GenPkt (α : Type) where
  id : Nat
  time : α
  size : Nat

namespace Gen
variable {α : Type} [Num α]

/-- the loop test `env.now < self.finish` (`none` = `inf`) -/
def running (finish : Option α) (now : α) : Bool :=
  match finish with
  | some f => decide (now < f)
  | none => true

/-- `DistPacketGenerator.run` after the initial delay: `now` is the clock, `n` packets were sent so far;
the loop test is made *before* the next gap is drawn -/
def emit (finish : Option α) : (now : α) → (n : Nat) → List (α × Nat) → List (GenPkt α)
  | _, _, [] => []
  | now, n, (gap, size) :: rest =>
    if running finish now then
      { id := n + 1, time := now + gap, size := size } :: emit finish (now + gap) (n + 1) rest
    else []

/-- the packets a generator emits: `yield timeout(initial_delay)` first, then the loop -/
def run (t0 initialDelay : α) (finish : Option α) (draws : List (α × Nat)) : List (GenPkt α) :=
  emit finish (t0 + initialDelay) 0 draws

end Gen

/-- what a `PacketSink` records for one key (flow id or source) -/
structure SinkRec (α : Type) where
  waits : List α := []
  sizes : List Nat := []
  times : List α := []
  arrivals : List α := []
  count : Nat := 0
  bytes : Nat := 0
  first : Option α := none
  last : α

/-- one delivery as the sink sees it: the record key, the clock, the packet's creation time and size -/
structure Delivery (α : Type) where
  key : Nat
  now : α
  ptime : α
  size : Nat

namespace Sink
variable {α : Type} [Num α]

structure Cfg where
  recArrivals : Bool := true
  absolute : Bool := true
  recWaits : Bool := true

/-- `PacketSink.put` restricted to the record of the packet's key -/
def put1 (c : Cfg) (r : SinkRec α) (d : Delivery α) : SinkRec α :=
  let r := if c.recWaits then
      { r with waits := r.waits ++ [d.now - d.ptime], sizes := r.sizes ++ [d.size], times := r.times ++ [d.ptime] }
    else r
  let r := if c.recArrivals then
      { r with arrivals := r.arrivals ++ [if c.absolute then d.now else d.now - r.last],
               first := if r.arrivals.isEmpty then some d.now else r.first,
               last := d.now }
    else r
  { r with count := r.count + 1, bytes := r.bytes + d.size }

/-- the record of key `k` after a sequence of deliveries (`defaultdict`: a fresh record on first use) -/
def record (c : Cfg) (k : Nat) (ds : List (Delivery α)) : SinkRec α :=
  (ds.filter (·.key == k)).foldl (put1 c) { last := Num.zero }

end Sink
