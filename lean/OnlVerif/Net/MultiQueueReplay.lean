import OnlVerif.Net.Sched.SP
import OnlVerif.Net.Sched.RR
import OnlVerif.Net.Sched.WRR
import OnlVerif.Net.Sched.DRR
/-!
# Replaying the multi-queue schedulers through their model (driver mode `mq`)

```
CASE <id> sp  <rate bits> <n> <flow> <prio> …
CASE <id> rr  <rate bits> <n> <flow> …
CASE <id> wrr <rate bits> <n> <flow> <weight> …
CASE <id> drr <rate bits> <n> <class> <weight> … <m> <flow> <class> …      (m = 0: identity flow2class)
init | tick <bits> | put <id> <flow> <size> | tokenHandoff | wake | pktResume | sendInit | sendFire | sendDone | sample <0|1>
END
```
Every action line is answered by `<action> <output> | <snapshot of the model state>` or `REJECT <reason>`
(state unchanged).
-/

namespace MQReplay
open MQ

def fbits (s : String) : Float := Float.ofBitsStr s

def join (l : List String) : String := ",".intercalate l

def fmtOut : MOut Float → String
  | .nothing => "-"
  | .accepted => "acc"
  | .started p _ => s!"start {p.id}"
  | .depart p => s!"dep {p.id}"
  | .samples l => "samples " ++ join (l.map fun (f, n, b) => s!"{f}:{n}:{b}")

def parseAct (ws : List String) : Option (MAct Float) :=
  match ws with
  | ["init"] => some .init
  | ["tick", t] => some (.tick (fbits t))
  | ["put", i, f, sz] => some (.put { id := i.toNat!, flow := f.toNat!, size := sz.toNat! })
  | ["tokenHandoff"] => some .tokenHandoff
  | ["wake"] => some .wake
  | ["pktResume"] => some .pktResume
  | ["sendInit"] => some .sendInit
  | ["sendFire"] => some .sendFire
  | ["sendDone"] => some .sendDone
  | ["sample", inc] => some (.sample (inc == "1"))
  | _ => none

/-- the part of the state every scheduler shows: counters in key order, total, packet in service, store lengths
of the configured classes, parked packets, token store, phase -/
def snapshot {κ : Type} (classes : List Nat) (s : MQState Float κ) : String :=
  let qc := join (s.queueCount.map fun (f, n) => s!"{f}:{n}:{cnt s.queueBytes f}")
  let st := join (classes.map fun c => s!"{c}:{(storeOf s.stores c).length}")
  let hol := join (classes.filterMap fun c => (lookupD s.hol c none).map fun p => s!"{c}:{p.id}")
  let cur := match s.currentPacket with | some p => toString p.id | none => "-"
  let gq := match s.phase with | .waitToken => 1 | _ => 0
  s!"qc={qc} tot={total s.queueCount} cur={cur} st={st} hol={hol} tok={s.tokens} gq={gq} ph={phaseName s} rc={s.received}"

partial def runCase {κ : Type} (h : IO.FS.Stream) (sc : Sched Float κ) (classes : List Nat) (showCtl : κ → String)
    (s : MQState Float κ) : IO Unit := do
  let line ← h.getLine
  if line.isEmpty then return
  let ws := (line.trimAscii.toString.splitOn " ").filter (· ≠ "")
  match ws with
  | ["END"] => IO.println "ENDCASE"
  | [] => runCase h sc classes showCtl s
  | _ =>
    match parseAct ws with
    | none => IO.println s!"BADLINE {line.trimAscii.toString}"; runCase h sc classes showCtl s
    | some a =>
      match step sc s a with
      | .error m => IO.println s!"REJECT {m}"; runCase h sc classes showCtl s
      | .ok (s', o) =>
        IO.println s!"{ws.headD ""} {fmtOut o} | {snapshot classes s'}{showCtl s'.ctl} now={s'.now.bitsStr}"
        runCase h sc classes showCtl s'

def pairs : List String → List (Nat × Nat)
  | a :: b :: r => (a.toNat!, b.toNat!) :: pairs r
  | _ => []

def pairsInt : List String → List (Nat × Int)
  | a :: b :: r => (a.toNat!, b.toInt!) :: pairsInt r
  | _ => []

def showDrr (k : DRR.Ctl Float) : String :=
  let d := join (k.deficit.map fun (c, x) => s!"{c}:{x.bitsStr}")
  let cc := join (k.classCount.map fun (c, n) => s!"{c}:{n}")
  s!" def={d} cc={cc}"

end MQReplay

open MQReplay in
partial def mqLoop (h : IO.FS.Stream) : IO Unit := do
  let line ← h.getLine
  if line.isEmpty then return
  let ws := (line.trimAscii.toString.splitOn " ").filter (· ≠ "")
  match ws with
  | "CASE" :: id :: "sp" :: rate :: n :: rest =>
    IO.println s!"CASE {id}"
    let cfg : SP.Cfg Float := { rate := fbits rate, prios := pairsInt (rest.take (2 * n.toNat!)) }
    runCase h (SP.sched cfg) (cfg.prios.map (·.1)) (fun _ => "") (MQ.init (SP.Pc.scan 0) 0)
    mqLoop h
  | "CASE" :: id :: "rr" :: rate :: n :: rest =>
    IO.println s!"CASE {id}"
    let cfg : RR.Cfg Float := { rate := fbits rate, flows := (rest.take n.toNat!).map String.toNat! }
    runCase h (RR.sched cfg) cfg.flows (fun _ => "") (MQ.init (RR.Pc.at 0) 0)
    mqLoop h
  | "CASE" :: id :: "wrr" :: rate :: n :: rest =>
    IO.println s!"CASE {id}"
    let cfg : WRR.Cfg Float := { rate := fbits rate, weights := pairs (rest.take (2 * n.toNat!)) }
    runCase h (WRR.sched cfg) (cfg.weights.map (·.1)) (fun _ => "") (MQ.init (WRR.Pc.at 0 0) 0)
    mqLoop h
  | "CASE" :: id :: "drr" :: rate :: n :: rest =>
    IO.println s!"CASE {id}"
    let ws := pairs (rest.take (2 * n.toNat!))
    let rest2 := rest.drop (2 * n.toNat!)
    let m := (rest2.headD "0").toNat!
    let fm := pairs ((rest2.drop 1).take (2 * m))
    let cfg : DRR.Cfg Float := { rate := fbits rate, weights := ws, flowMap := if m == 0 then none else some fm }
    runCase h (DRR.sched cfg) (ws.map (·.1)) showDrr (MQ.init (DRR.ctl0 cfg) 0 (DRR.counts0 cfg))
    mqLoop h
  | [] => mqLoop h
  | _ => IO.println s!"BADLINE {line.trimAscii.toString}"; mqLoop h
