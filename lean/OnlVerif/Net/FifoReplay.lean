import OnlVerif.Net.Port
import OnlVerif.Net.Wire
import OnlVerif.Net.TokenBucket
import OnlVerif.Net.TwoRate
/-!
# Replaying FifoServer devices through their model (driver mode `fifo`)

```
CASE <id> port <rate> <qlimit|None> <limit_bytes 0|1> <has id 0|1> [red <max_th> <min_th> <max_p> <w>]
CASE <id> wire <loss_rate|None>
CASE <id> tb <rate> <bucket_size> <peak|None>
CASE <id> tworate <cir> <cbs> <pir|None> <pbs|None>
init | tick <bits> | put <id> <flow> <size> <draw bits> | handoff | resume <x bits> <y bits> | fire | sample <0|1>
END
```
The driver answers every action line with `<action> <output> | <snapshot of the model state>`, or
`REJECT <reason>` when the model does not enable the action (the state is then left unchanged).
-/

def fb (s : String) : Float := Float.ofBitsStr s

def pktIds {α} (l : List (Pkt α)) : String := ",".intercalate (l.map fun p => toString p.id)

def fmtOut : FOut Float → String
  | .nothing => "-"
  | .accepted => "acc"
  | .dropped => "drop"
  | .depart p => s!"dep {p.id} c{p.color}"
  | .lost p => s!"lost {p.id}"

def parseAct (ws : List String) : Option (FAct Float) :=
  match ws with
  | ["init"] => some .init
  | ["tick", t] => some (.tick (fb t))
  | ["put", i, f, sz, dr] => some (.put { id := i.toNat!, flow := f.toNat!, size := sz.toNat!, ctime := 0, draw := fb dr })
  | ["handoff"] => some .handoff
  | ["resume", x, y] => some (.resume (fb x) (fb y))
  | ["fire"] => some .fire
  | _ => none

/-- generic replay loop for one case of a FifoServer device -/
partial def runFifo {δ : Type} (h : IO.FS.Stream) (d : Dev Float δ) (showDev : FState Float δ → String)
    (extra : FState Float δ → List String → Option String) (s : FState Float δ) : IO Unit := do
  let line ← h.getLine
  if line.isEmpty then return
  let ws := (line.trimAscii.toString.splitOn " ").filter (· ≠ "")
  match ws with
  | ["END"] => IO.println "ENDCASE"
  | [] => runFifo h d showDev extra s
  | _ =>
    match extra s ws with
    | some out => IO.println out; runFifo h d showDev extra s
    | none =>
      match parseAct ws with
      | none => IO.println s!"BADLINE {line.trimAscii.toString}"; runFifo h d showDev extra s
      | some a =>
        match Fifo.step d s a with
        | .error m => IO.println s!"REJECT {m}"; runFifo h d showDev extra s
        | .ok (s', o) =>
          IO.println s!"{ws.headD ""} {fmtOut o} | it={pktIds s'.items} ph={Fifo.phase s'} {showDev s'} now={s'.now.bitsStr}"
          runFifo h d showDev extra s'

def showPort (s : FState Float (PortSt Float)) : String :=
  s!"bs={s.dev.byteSize} rc={s.dev.received} dr={s.dev.dropped} busy={if s.dev.busy then 1 else 0} bsz={s.dev.busySize} avg={s.dev.avg.bitsStr} st={s.dev.stamps}"

def portExtra (s : FState Float (PortSt Float)) (ws : List String) : Option String :=
  match ws with
  | ["sample", inc] =>
    let r := Port.monitorSample s (inc == "1")
    some s!"sample {r.1} {r.2}"
  | _ => none

def parseOptInt (t : String) : Option Int := if t == "None" then none else some t.toInt!

def parseOptF (t : String) : Option Float := if t == "None" then none else some (fb t)

def showOptF (x : Option Float) : String := match x with | some v => v.bitsStr | none => "None"

def noExtra {δ : Type} (_ : FState Float δ) (_ : List String) : Option String := none

/-- `Wire`: `packets_rec` -/
def showWire (s : FState Float (WireSt Float)) : String := s!"rec={s.dev.packetsRec}"

/-- `TokenBucket`: `current_bucket`, `update_time`, `packets_received`, `packets_sent` -/
def showTb (s : FState Float (TbSt Float)) : String :=
  s!"cb={s.dev.level.bitsStr} ut={s.dev.upd.bitsStr} rc={s.dev.received} sn={s.dev.sent}"

/-- `TwoRateTokenBucket`: `current_bucket_commit`, `current_bucket_peak`, `update_time`, counters -/
def showTr (s : FState Float (TrSt Float)) : String :=
  s!"cc={s.dev.commit.bitsStr} cp={showOptF s.dev.peak} ut={s.dev.upd.bitsStr} rc={s.dev.received} sn={s.dev.sent}"

partial def fifoLoop (h : IO.FS.Stream) : IO Unit := do
  let line ← h.getLine
  if line.isEmpty then return
  let ws := (line.trimAscii.toString.splitOn " ").filter (· ≠ "")
  match ws with
  | "CASE" :: id :: "port" :: rate :: ql :: lb :: hid :: rest =>
    IO.println s!"CASE {id}"
    let red : Option (Float × Float × Float × Nat) := match rest with
      | ["red", a, b, c, w] => some (fb a, fb b, fb c, w.toNat!)
      | _ => none
    let cfg : PortCfg Float := { rate := fb rate, qlimit := parseOptInt ql, limitBytes := lb == "1", hasId := hid == "1", red }
    runFifo h (Port.dev cfg) showPort portExtra { now := 0, dev := { avg := 0 } }
    fifoLoop h
  | ["CASE", id, "wire", lr] =>
    IO.println s!"CASE {id}"
    let cfg : WireCfg Float := { lossRate := parseOptF lr }
    runFifo h (Wire.dev cfg) showWire noExtra { now := 0, dev := Wire.st0 0 }
    fifoLoop h
  | ["CASE", id, "tb", rate, bucket, peak] =>
    IO.println s!"CASE {id}"
    let cfg : TbCfg Float := { rate := fb rate, bucket := fb bucket, peak := parseOptF peak }
    runFifo h (TokenBucket.dev cfg) showTb noExtra { now := 0, dev := TokenBucket.st0 cfg }
    fifoLoop h
  | ["CASE", id, "tworate", cir, cbs, pir, pbs] =>
    IO.println s!"CASE {id}"
    let cfg : TrCfg Float := { cir := fb cir, cbs := fb cbs, pir := parseOptF pir, pbs := parseOptF pbs }
    runFifo h (TwoRate.dev cfg) showTr noExtra { now := 0, dev := TwoRate.st0 cfg }
    fifoLoop h
  | [] => fifoLoop h
  | _ => IO.println s!"BADLINE {line.trimAscii.toString}"; fifoLoop h
