import OnlVerif.Kernel.Step
import OnlVerif.Net.MultiQueue
import OnlVerif.Net.Sched.SP
/-!
# The static-priority scheduler as processes *on the kernel model `K`*

`OnlVerif/Net/MultiQueue.lean` with `OnlVerif/Net/Sched/SP.lean` describes `onl.scheduler.sp.SP` as a labelled
transition system over its atomic bursts (model `E`); its admissibility rules *assume* what the kernel guarantees.  This
file writes the same device as a program of the kernel model (`OnlVerif/Kernel`): `MultiQueueScheduler.put`,
`Scheduler.send_packet` (a child process per transmission, joined by the server with `yield process`), `SP.run` and a
packet source are `Burst` programs, the per-flow stores and the wake-up store are `Store` resources of `K`, and nothing is
assumed about scheduling: `K`'s `step` decides what runs when.  `OnlVerif/Props/C13K.lean` proves that every run of this
program is an admissible run of the LTS (refinement) and has the properties C12/C13 name.

```python
def put(self, packet):                                   def send_packet(self, packet):
    flow_id = packet.flow_id                                 self.current_packet = packet
    if self.total_packets == 0:                              yield self.env.timeout(packet.size * 8.0 / self.rate)
        self.packets_available.put(True)                     flow_id = packet.flow_id
    self.add_packet_to_queue(packet)                         self.queue_count[flow_id] -= 1
    self.dprint(f"received packet …")                        self.queue_byte_size[flow_id] -= packet.size
    self.stores[flow_id].put(packet)                         if self.out: self.out.put(packet)
                                                             self.current_packet = None
def run(self, env):
    while True:
        for flow_id, prio in self.priorities:            # sorted(priorities.items(), key=prio, reverse=True)
            if prio > 0:
                store = self.stores[flow_id]
                if store.size() == 0:
                    continue
                packet = yield store.get()
                print(packet)
                packet.priorities[…] = prio              # annotation only, not modelled
                yield env.process(self.send_packet(packet))
                break
        if self.total_packets == 0:
            yield self.packets_available.get()
```

Encoding (modelling devices, all of them):

* flows are `0 … F-1`; a packet is its `Int` id, `flow : Int → Nat` gives `packet.flow_id`, `size : Int → Nat` gives
  `packet.size`; `flow2class` is the identity; an `out` is attached;
* resource `0` is `packets_available`, resource `1 + f` is `stores[f]` (unbounded `Store`s, all created in advance: the
  `defaultdict` would create them at the first access); the wake-up token `True` is the item `1`;
* the attributes live in the shared cells of `K` (`Call.load/store`): cell 0 = `packets_received`, 1 = `current_packet`
  (`None` or the packet), `10 + 3f` = `queue_count[f]`, `11 + 3f` = `queue_byte_size[f]`; the counters are preset to 0 (what
  the `defaultdict(int)` yields for a missing key); the *key order* of the dicts (first `put` of each flow) is recovered by
  the abstraction function from the `put` observations;
* `K` has no call that reads `len(store.items)`: `store.size()` reads the mirror cell `12 + 3f`, which `put` increments
  right after `self.stores[flow_id].put(packet)` and `run` decrements together with its `store.get()`; that the mirror
  equals `len(stores[f].items)` whenever it is read is part of the proved invariant;
* `total_packets` (`sum(self.queue_count.values())`) reads the `F` counters;
* `self.out.put(packet)` is the observation `log "out" (int id)`, the debug print of `put` is `log "put" (int id)`, the
  `print(packet)` of `run` is `log "serve" (int id)` (each recorded with `env.now` in `KState.trace`);
* a pass of the `for` loop that serves nothing while `total_packets != 0` would be repeated for ever without a `yield`
  (a Python hang; it needs a packet of a flow that is not in the table or has a priority `≤ 0`): the model raises `Hang`
  there; the theorems show that this point is never reached when every flow of the workload has a positive priority;
* the source is the process `for (gap, id) in arrivals: yield env.timeout(gap); sp.put(packet id)`;
* the local state of a suspended generator names its `yield` and the locals it still needs (the position `i` of the `for`
  iterator, the `packet` it holds); no generator reads `env.now`, so none carries the clock.

Besides the program the file holds what the theorems of `Props/C13K.lean` are stated with: the observations of a trace,
the executable abstraction function `absSP` (kernel state ↦ LTS state), the property restated as an executable oracle over
the `put` / `serve` / `out` history (`ostep`, `orun`), and a label inference with an executable refinement check
(`refineCheck`) for the `example`s.
-/

/-- local states of the generator functions (where each one is suspended) -/
inductive SpSt (τ : Type) where
  /-- the source: suspended on the timeout before `put(pending)` (`none`: not started), then the arrivals still to come -/
  | src (pending : Option Int) (rest : List (τ × Int))
  /-- `SP.run` not started -/
  | runStart
  /-- `SP.run` suspended in `yield self.packets_available.get()` -/
  | runTok
  /-- `SP.run` suspended in `packet = yield store.get()` at entry `i` of the sorted table -/
  | runGet (i : Nat)
  /-- `SP.run` suspended in `yield env.process(self.send_packet(packet))` -/
  | runSend (id : Int)
  /-- `send_packet(packet)` not started -/
  | sendStart (id : Int)
  /-- `send_packet(packet)` suspended in `yield self.env.timeout(packet.size * 8.0 / self.rate)` -/
  | sendTx (id : Int)

namespace SPOnK
variable {τ : Type} [Num τ]

def tokStore : Nat := 0
def flowStore (f : Nat) : Nat := 1 + f
def cRecv : Nat := 0
def cCur : Nat := 1
def cCount (f : Nat) : Nat := 10 + 3 * f
def cBytes (f : Nat) : Nat := 11 + 3 * f
def cLen (f : Nat) : Nat := 12 + 3 * f

def typeErr : Exc := ⟨"TypeError", []⟩
/-- the `for` loop would be repeated for ever without a `yield` -/
def hangErr : Exc := ⟨"Hang", []⟩

/-- what a program does with a reply it cannot use (never happens in the runs of this program) -/
def bad : Reply → Burst τ (SpSt τ)
  | .err x => .raise x
  | _ => .raise typeErr

/-- read an integer attribute -/
def loadInt (k : Nat) (cont : Int → Burst τ (SpSt τ)) : Burst τ (SpSt τ) :=
  .call (.load k) fun rp => match rp with
    | .val (.int n) => cont n
    | rp => bad rp

/-- `attr += d` on an integer attribute -/
def addInt (k : Nat) (d : Int) (cont : Burst τ (SpSt τ)) : Burst τ (SpSt τ) :=
  loadInt k fun n => .call (.store k (.int (n + d))) fun _ => cont

/-- `sum(self.queue_count.values())`, the counters of flows `f, f + 1, …, f + n - 1` added to `acc` -/
def sumCounts : Nat → Nat → Int → (Int → Burst τ (SpSt τ)) → Burst τ (SpSt τ)
  | _, 0, acc, cont => cont acc
  | f, n + 1, acc, cont => loadInt (cCount f) fun c => sumCounts (f + 1) n (acc + c) cont

/-- `self.total_packets` -/
def totalPackets (F : Nat) (cont : Int → Burst τ (SpSt τ)) : Burst τ (SpSt τ) := sumCounts 0 F 0 cont

/-- `add_packet_to_queue(packet)`, the debug print, `self.stores[flow_id].put(packet)` (and the mirror of its length) -/
def putTail (flow size : Int → Nat) (id : Int) (cont : Burst τ (SpSt τ)) : Burst τ (SpSt τ) :=
  addInt cRecv 1 <|                                               -- self.packets_received += 1
  addInt (cCount (flow id)) 1 <|                                  -- self.queue_count[flow_id] += 1
  addInt (cBytes (flow id)) (size id) <|                          -- self.queue_byte_size[flow_id] += packet.size
  .call (.log "put" (.int id)) fun _ =>                           -- self.dprint("received packet …")
  .call (.sput (flowStore (flow id)) id) fun rp => match rp with  -- self.stores[flow_id].put(packet)
    | .ev _ => addInt (cLen (flow id)) 1 cont                     --   (mirror of len(stores[flow_id].items))
    | rp => bad rp

/-- `MultiQueueScheduler.put(packet)`, followed by `cont` -/
def schedPut (F : Nat) (flow size : Int → Nat) (id : Int) (cont : Burst τ (SpSt τ)) : Burst τ (SpSt τ) :=
  totalPackets F fun tot =>
  if tot = 0 then                                                 -- if self.total_packets == 0:
    .call (.sput tokStore 1) fun rp => match rp with              --   self.packets_available.put(True)
      | .ev _ => putTail flow size id cont
      | rp => bad rp
  else putTail flow size id cont

/-- the source loop from its head: `for gap, id in rest: yield env.timeout(gap); …` -/
def srcLoop : List (τ × Int) → Burst τ (SpSt τ)
  | [] => .ret .none
  | (gap, id) :: rest => .call (.timeout gap .none) fun rp => match rp with
      | .ev e => .yield e (.src (some id) rest)
      | rp => bad rp

/-- `yield self.packets_available.get()` -/
def runWait : Burst τ (SpSt τ) :=
  .call (.sget tokStore 0) fun rp => match rp with
    | .ev g => .yield g .runTok
    | rp => bad rp

/-- the `for` loop has ended without a `break`: `if self.total_packets == 0: yield self.packets_available.get()`, else
the same pass again, for ever -/
def runExhausted (F : Nat) : Burst τ (SpSt τ) :=
  totalPackets F fun tot => if tot = 0 then runWait else .raise hangErr

/-- `packet = yield store.get()` at entry `i` (flow `f`, `n` = `store.size()`) -/
def runTake (i f : Nat) (n : Int) : Burst τ (SpSt τ) :=
  .call (.sget (flowStore f) 0) fun rp => match rp with
    | .ev g => .call (.store (cLen f) (.int (n - 1))) fun _ =>    --   (mirror of len(stores[f].items))
               .yield g (.runGet i)
    | rp => bad rp

/-- the `for flow_id, prio in self.priorities` loop from entry `i` on (`tbl` = the entries still to look at) -/
def runScan (F : Nat) : Nat → List (Nat × Int) → Burst τ (SpSt τ)
  | _, [] => runExhausted F
  | i, (f, pr) :: rest =>
    if 0 < pr then                                                -- if prio > 0:
      loadInt (cLen f) fun n =>                                   --   store = self.stores[flow_id]
      if n = 0 then runScan F (i + 1) rest                        --   if store.size() == 0: continue
      else runTake i f n                                          --   packet = yield store.get()
    else runScan F (i + 1) rest

/-- after the `break`: `if self.total_packets == 0: yield self.packets_available.get()`, then the next pass -/
def runAfterSend (F : Nat) (tbl : List (Nat × Int)) : Burst τ (SpSt τ) :=
  totalPackets F fun tot => if tot = 0 then runWait else runScan F 0 tbl

/-- `run` has the packet: `print(packet); yield env.process(self.send_packet(packet))` -/
def runServe (id : Int) : Burst τ (SpSt τ) :=
  .call (.log "serve" (.int id)) fun _ =>                         -- print(packet)
  .call (.spawn (.sendStart id)) fun rp => match rp with          -- yield env.process(self.send_packet(packet))
    | .ev p => .yield p (.runSend id)
    | rp => bad rp

/-- transmission time `packet.size * 8.0 / self.rate` -/
def txTime (size : Int → Nat) (rate : τ) (id : Int) : τ := Num.ofNat (size id * 8) / rate

/-- `send_packet(packet)` up to its `yield` -/
def sendBegin (size : Int → Nat) (rate : τ) (id : Int) : Burst τ (SpSt τ) :=
  .call (.store cCur (.int id)) fun _ =>                          -- self.current_packet = packet
  .call (.timeout (txTime size rate id) .none) fun rp => match rp with
    | .ev t => .yield t (.sendTx id)                              -- yield self.env.timeout(packet.size * 8.0 / self.rate)
    | rp => bad rp

/-- `send_packet(packet)` after the transmission delay -/
def sendEnd (flow size : Int → Nat) (id : Int) : Burst τ (SpSt τ) :=
  addInt (cCount (flow id)) (-1) <|                               -- self.queue_count[flow_id] -= 1
  addInt (cBytes (flow id)) (-(size id : Int)) <|                 -- self.queue_byte_size[flow_id] -= packet.size
  .call (.log "out" (.int id)) fun _ =>                           -- self.out.put(packet)
  .call (.store cCur .none) fun _ =>                              -- self.current_packet = None
  .ret .none

/-- the generator functions as one `K` program; `tbl` = `self.priorities` (sorted) -/
def body (F : Nat) (flow size : Int → Nat) (rate : τ) (tbl : List (Nat × Int)) : SpSt τ → Resume → Burst τ (SpSt τ)
  | .src pending rest, _ =>
    match pending with
    | none => srcLoop rest
    | some id => schedPut F flow size id (srcLoop rest)
  | .runStart, _ => runScan F 0 tbl
  | .runTok, _ => runScan F 0 tbl
  | .runGet _, .value (.int id) => runServe id
  | .runGet _, _ => .raise typeErr
  | .runSend _, _ => runAfterSend F tbl
  | .sendStart id, _ => sendBegin size rate id
  | .sendTx id, _ => sendEnd flow size id

/-- the program of an `SP(env, rate, priorities)` -/
def prog (F : Nat) (flow size : Int → Nat) (cfg : SP.Cfg τ) : SpSt τ → Resume → Burst τ (SpSt τ) :=
  body F flow size cfg.rate (SP.table cfg)

/-- event ids of the two processes that exist from the start -/
def runProc : EvId := 0
def srcProc : EvId := 2

/-- the counter cells of flows `f, …, f + n - 1` -/
def flowCells : Nat → Nat → List (Nat × Val)
  | _, 0 => []
  | f, n + 1 => (cCount f, .int 0) :: (cBytes f, .int 0) :: (cLen f, .int 0) :: flowCells (f + 1) n

def storeRes : ResRec := { kind := .store, capacity := none }

/-- a fresh environment with the `F + 1` stores, the attributes at 0 / `None`, after `SP.__init__`
(`env.process(self.run(env))`) and `env.process(source(...))` -/
def initState (F : Nat) (arrivals : List (τ × Int)) : KState τ (SpSt τ) :=
  [Call.spawn SpSt.runStart, Call.spawn (SpSt.src none arrivals)].foldl (fun s c => (doCall s 0 c).1)
    { now := Num.zero, resources := (List.replicate (F + 1) storeRes).toArray,
      shared := (cRecv, .int 0) :: (cCur, .none) :: flowCells 0 F }

/-! ## observations -/

/-- the observations `what` of a trace: `(id, env.now)` in order -/
def obsOf (what : String) : Obs τ → Option (Int × τ)
  | .log _ w (.int id) now => if w = what then some (id, now) else none
  | _ => none

def logsOf (what : String) (tr : Array (Obs τ)) : List (Int × τ) := tr.toList.filterMap (obsOf what)

/-- the `out.put(packet)` observations -/
def outsOf (tr : Array (Obs τ)) : List (Int × τ) := logsOf "out" tr
/-- the packets handed to `put` -/
def putsOf (tr : Array (Obs τ)) : List (Int × τ) := logsOf "put" tr
/-- the packets `run` has taken from a store -/
def servesOf (tr : Array (Obs τ)) : List (Int × τ) := logsOf "serve" tr

/-- the three kinds of observation of the property, in the order of the trace -/
inductive HEv (τ : Type) where
  | put (id : Int) (t : τ)
  | serve (id : Int) (t : τ)
  | out (id : Int) (t : τ)

def histOf1 : Obs τ → Option (HEv τ)
  | .log _ w (.int id) now =>
    if w = "put" then some (.put id now) else if w = "serve" then some (.serve id now)
    else if w = "out" then some (.out id now) else none
  | _ => none

def histOf (tr : Array (Obs τ)) : List (HEv τ) := tr.toList.filterMap histOf1

/-! ## the abstraction function -/

/-- value of an attribute cell -/
def cellVal (s : KState τ (SpSt τ)) (k : Nat) : Val := ((s.shared.find? (·.1 == k)).map (·.2)).getD Val.none

/-- value of an integer attribute cell (0 if unset) -/
def cellInt (s : KState τ (SpSt τ)) (k : Nat) : Int :=
  match cellVal s k with
  | Val.int n => n
  | _ => 0

/-- the packet object behind an id, as the LTS sees it -/
def pktOf (flow size : Int → Nat) (id : Int) : MPkt := { id := id.toNat, flow := flow id, size := size id }

/-- a dict key is inserted at its first use -/
def addKey (l : List Nat) (k : Nat) : List Nat := if l.contains k then l else l ++ [k]

/-- the keys of `queue_count` / `queue_byte_size` / `stores` in insertion order: the flows in the order of their first `put` -/
def keysOf (flow : Int → Nat) (ids : List Int) : List Nat := ids.foldl (fun l id => addKey l (flow id)) []

/-- the instant at which the agenda entry of event `t` is due -/
def dueOf (s : KState τ (SpSt τ)) (t : EvId) : τ :=
  ((s.agenda.find? (·.ev == t)).map (·.time)).getD s.now

/-- where the server loop and its sender stand, read off the process records and the events they wait for -/
def absPhase (flow size : Int → Nat) (s : KState τ (SpSt τ)) : MQ.Phase τ × SP.Pc :=
  match s.proc? runProc with
  | some { st := .runTok, target := some g } =>
    if (s.ev g).out.isSome then (.tokenHanded, .scan 0) else (.waitToken, .scan 0)
  | some { st := .runGet i, target := some g } =>
    match (s.ev g).out with
    | some (.ok (.int id)) => (.pktHanded (flow id) (pktOf flow size id), .got i)
    | _ => (.running, .got i)
  | some { st := .runSend id, target := some p } =>
    if (s.ev p).out.isSome then (.finished (pktOf flow size id), .sent) else
    match s.proc? p with
    | some { st := .sendTx _, target := some t } => (.sending (pktOf flow size id) (dueOf s t), .sent)
    | _ => (.spawned (pktOf flow size id), .sent)
  | _ => (.idle, .scan 0)

/-- **abstraction function**: the state of the MultiQueueServer LTS (with the SP record) a kernel state of this program
stands for, read off the process records, the stores, the attribute cells and (for the key order of the dicts) the `put`
observations -/
def absSP (flow size : Int → Nat) (s : KState τ (SpSt τ)) : MQ.MQState τ SP.Pc :=
  let keys := keysOf flow ((putsOf s.trace).map (·.1))
  let ph := absPhase flow size s
  { now := s.now
    ctl := ph.2
    stores := keys.map fun f => (f, (s.res (flowStore f)).items.map (pktOf flow size))
    hol := []
    queueCount := keys.map fun f => (f, cellInt s (cCount f))
    queueBytes := keys.map fun f => (f, cellInt s (cBytes f))
    tokens := (s.res tokStore).items.length
    phase := ph.1
    currentPacket := match cellVal s cCur with
      | .int id => some (pktOf flow size id)
      | _ => none
    received := (cellInt s cRecv).toNat }

/-- the final state of `run()` if it returned, else `none` -/
def finalState (r : RunResult τ (SpSt τ)) : Option (KState τ (SpSt τ)) :=
  match r with
  | .returned _ s => some s
  | _ => none

/-! ## the property restated as an oracle over the `put` / `serve` / `out` history

The oracle keeps, per flow, the packets handed to `put` and not yet taken by `run` (with the instant of the `put`), the
packet in transmission (with the instant its service started) and the instant of the last departure.  It accepts

* `serve id t` only if nothing is in transmission, `id` is the *oldest* waiting packet of its flow, its flow has a positive
  priority `π` and **no packet that was put in an earlier instant and still waits belongs to a flow with a priority above
  `π`** (a packet put later in the same instant is not waiting at the start: the decision burst precedes this observation
  within the instant), and the service starts **either at the instant of the last departure or at the instant at which every
  waiting packet was put** (never idle with a backlog);
* `out id t` only if `id` is the packet in transmission and `t` is exactly its service start plus `8·size/rate`. -/

/-- `a = b` on times, through `<` -/
def eqT (a b : τ) : Prop := ¬ a < b ∧ ¬ b < a

instance (a b : τ) : Decidable (eqT a b) := by unfold eqT; infer_instance

structure OSt (τ : Type) where
  /-- per flow: the packets handed to `put` and not yet taken by `run`, with the instant of the `put`, oldest first -/
  waiting : Nat → List (Int × τ)
  /-- the packet in transmission with the instant its service started -/
  busy : Option (Int × τ)
  /-- the instant of the last departure -/
  lastOut : Option τ

/-- nothing has happened yet -/
def oInit : OSt τ := { waiting := fun _ => [], busy := none, lastOut := none }

/-- `w[f] := l` -/
def setQ (w : Nat → List (Int × τ)) (f : Nat) (l : List (Int × τ)) : Nat → List (Int × τ) := fun x => if x = f then l else w x

/-- flow `f'` has a priority strictly above `π` -/
def higher (prios : List (Nat × Int)) (π : Int) (f' : Nat) : Prop := ∃ e ∈ prios, e.1 = f' ∧ π < e.2

instance (prios : List (Nat × Int)) (π : Int) (f' : Nat) : Decidable (higher prios π f') := by unfold higher; infer_instance

/-- the last departure was at `t` -/
def lastIs : Option τ → τ → Prop
  | some d, t => eqT d t
  | none, _ => False

instance (o : Option τ) (t : τ) : Decidable (lastIs o t) := by
  cases o <;> unfold lastIs <;> infer_instance

/-- what the property demands when `run` starts the service of packet `id` at instant `t` -/
def ServeOK (F : Nat) (flow : Int → Nat) (prios : List (Nat × Int)) (o : OSt τ) (id : Int) (t : τ) : Prop :=
  o.busy.isNone = true ∧                                                  -- one at a time
  (o.waiting (flow id)).head?.map (·.1) = some id ∧                       -- the oldest waiting packet of its flow
  (∃ e ∈ prios, e.1 = flow id ∧ 0 < e.2 ∧                                 -- strict priority
    ∀ f' ∈ List.range F, higher prios e.2 f' → ∀ x ∈ o.waiting f', ¬ x.2 < t) ∧
  (lastIs o.lastOut t ∨ ∀ f ∈ List.range F, ∀ x ∈ o.waiting f, eqT x.2 t)  -- never idle with a backlog

instance (F : Nat) (flow : Int → Nat) (prios : List (Nat × Int)) (o : OSt τ) (id : Int) (t : τ) :
    Decidable (ServeOK F flow prios o id t) := by unfold ServeOK; infer_instance

/-- what the property demands when packet `id` is handed to `out.put` at instant `t` -/
def OutOK (size : Int → Nat) (rate : τ) (o : OSt τ) (id : Int) (t : τ) : Prop :=
  match o.busy with
  | some (id', s) => id' = id ∧ eqT t (s + txTime size rate id)
  | none => False

instance (size : Int → Nat) (rate : τ) (o : OSt τ) (id : Int) (t : τ) : Decidable (OutOK size rate o id t) := by
  unfold OutOK
  cases o.busy with
  | none => infer_instance
  | some x => cases x; infer_instance

/-- one observation -/
def ostep (F : Nat) (flow size : Int → Nat) (cfg : SP.Cfg τ) (o : OSt τ) : HEv τ → Option (OSt τ)
  | .put id t => some { o with waiting := setQ o.waiting (flow id) (o.waiting (flow id) ++ [(id, t)]) }
  | .serve id t =>
    if ServeOK F flow cfg.prios o id t then
      some { o with waiting := setQ o.waiting (flow id) (o.waiting (flow id)).tail, busy := some (id, t) }
    else none
  | .out id t => if OutOK size cfg.rate o id t then some { o with busy := none, lastOut := some t } else none

/-- a history -/
def orun (F : Nat) (flow size : Int → Nat) (cfg : SP.Cfg τ) : OSt τ → List (HEv τ) → Option (OSt τ)
  | o, [] => some o
  | o, ev :: r => (ostep F flow size cfg o ev).bind fun o' => orun F flow size cfg o' r

/-- everything has been served: nothing waits, nothing is in transmission -/
def drained (F : Nat) (o : OSt τ) : Bool := o.busy.isNone && (List.range F).all fun f => (o.waiting f).isEmpty

/-- the arrival instants of a workload: packet `k` arrives at the sum of the first `k + 1` gaps -/
def arrivalsFrom (t : τ) : List (τ × Int) → List (Int × τ)
  | [] => []
  | (gap, id) :: r => (id, t + gap) :: arrivalsFrom (t + gap) r

/-! ## label inference and an executable refinement check (used by the `example`s of `Props/C13K.lean`)

`Props/C13K.lean` proves that every kernel step is an action sequence the LTS accepts between the abstractions of the two
states.  The functions below *compute* such a sequence from the two abstractions (as `harness/mq.py` does from the public
attributes of the real scheduler) and replay it through the LTS, so that concrete runs can be checked by evaluation. -/

/-- the LTS actions of one kernel step, read off the abstractions before and after it and the packets `put` in it -/
def inferActs (pre post : MQ.MQState τ SP.Pc) (newPuts : List MPkt) : List (MQ.MAct τ) :=
  (if pre.now < post.now then [MQ.MAct.tick post.now] else []) ++
  (newPuts.map fun p => MQ.MAct.put p) ++
  (match pre.phase, post.phase with
   | .idle, .idle => []
   | .idle, _ => [.init]
   | .waitToken, .tokenHanded => [.tokenHandoff]
   | .tokenHanded, .tokenHanded => if post.tokens < pre.tokens then [.wake] else []
   | .tokenHanded, _ => [.wake]
   | .pktHanded _ _, .spawned _ => [.pktResume]
   | .spawned _, .sending _ _ => [.sendInit]
   | .sending _ _, .finished _ => [.sendFire]
   | .finished _, .finished _ => []
   | .finished _, _ => [.sendDone]
   | _, _ => [])

def samePhase : MQ.Phase τ → MQ.Phase τ → Bool
  | .idle, .idle => true
  | .running, .running => true
  | .waitToken, .waitToken => true
  | .tokenHanded, .tokenHanded => true
  | .pktHanded c p, .pktHanded c' p' => decide (c = c' ∧ p = p')
  | .spawned p, .spawned p' => decide (p = p')
  | .sending p d, .sending p' d' => decide (p = p') && Num.eqb d d'
  | .finished p, .finished p' => decide (p = p')
  | _, _ => false

/-- equality of LTS states, field by field -/
def sameState (a b : MQ.MQState τ SP.Pc) : Bool :=
  Num.eqb a.now b.now && decide (a.ctl = b.ctl) && decide (a.stores = b.stores) && decide (a.hol = b.hol) &&
  decide (a.queueCount = b.queueCount) && decide (a.queueBytes = b.queueBytes) && decide (a.tokens = b.tokens) &&
  samePhase a.phase b.phase && decide (a.currentPacket = b.currentPacket) && decide (a.received = b.received)

/-- run a list of actions through the LTS -/
def runLts (sc : MQ.Sched τ SP.Pc) : MQ.MQState τ SP.Pc → List (MQ.MAct τ) → Except String (MQ.MQState τ SP.Pc)
  | s, [] => .ok s
  | s, a :: as =>
    match MQ.step sc s a with
    | .ok (s', _) => runLts sc s' as
    | .error m => .error m

/-- run the kernel model for at most `n` steps from `s`; after every step replay the inferred actions through the LTS from
`absSP` of the state before and compare with `absSP` of the state after.  `some k`: the agenda ran empty after `k` steps and
every step was accepted and commuted; `none`: a step crashed, was rejected, did not commute, or the budget ran out -/
def refineCheck (F : Nat) (flow size : Int → Nat) (cfg : SP.Cfg τ) : Nat → KState τ (SpSt τ) → Nat → Option Nat
  | 0, _, _ => none
  | n + 1, s, k =>
    match step (prog F flow size cfg) 1 s with
    | .ok s' =>
      let newPuts := (((putsOf s'.trace).drop (putsOf s.trace).length).map (·.1)).map (pktOf flow size)
      match runLts (SP.sched cfg) (absSP flow size s) (inferActs (absSP flow size s) (absSP flow size s') newPuts) with
      | .ok m => if sameState m (absSP flow size s') then refineCheck F flow size cfg n s' (k + 1) else none
      | .error _ => none
    | .empty => some k
    | _ => none

end SPOnK
