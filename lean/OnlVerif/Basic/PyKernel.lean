import OnlVerif.Basic.PyNum
/-!
# What the *generated* kernel definitions (`OnlVerif/Generated/Kernel*.lean`, written by `py2lean/kernel.py`) use
besides `Num` and `PyNum`

Hand-written vocabulary, nothing here is derived from the source:

* `ExtInt` - a Python number that is an `int` or `float('inf')` (the capacity of a resource, container or store);
* `Py.keyLt`, `Py.entryLt` - Python's lexicographic `<` on the two tuple shapes the kernel compares
  (`PriorityRequest.key`, the entries of `Environment._queue`);
* `KEff` - the *effects* a translated kernel method can perform, one constructor per declared statement pattern.
  A translated method returns the list of effects it performed, in program order (field `eff` of the generated object);
  `OnlVerif/Lemmas/GenKernelDefs.lean` gives every constructor its meaning on the kernel model `K`.
-/

/-- `int` or `float('inf')` -/
inductive ExtInt where
  | fin (i : Int)
  | inf
  deriving DecidableEq, Repr

namespace ExtInt

/-- Python `a < b` (an int converts to a float exactly; `inf < inf` is false) -/
def lt : ExtInt → ExtInt → Bool
  | fin a, fin b => decide (a < b)
  | fin _, inf => true
  | inf, _ => false

/-- Python `a <= b` -/
def le : ExtInt → ExtInt → Bool
  | fin a, fin b => decide (a ≤ b)
  | _, inf => true
  | inf, fin _ => false

instance : LT ExtInt := ⟨fun a b => lt a b = true⟩
instance : LE ExtInt := ⟨fun a b => le a b = true⟩
instance (a b : ExtInt) : Decidable (a < b) := inferInstanceAs (Decidable (lt a b = true))
instance (a b : ExtInt) : Decidable (a ≤ b) := inferInstanceAs (Decidable (le a b = true))

/-- Python `a - i` for an int `i` (`inf - i` is `inf`) -/
def subInt : ExtInt → Int → ExtInt
  | fin a, i => fin (a - i)
  | inf, _ => inf

/-- Python `a + i` for an int `i` -/
def addInt : ExtInt → Int → ExtInt
  | fin a, i => fin (a + i)
  | inf, _ => inf

end ExtInt

namespace Py
variable {α : Type} [Num α]

/-- Python `a < b` on tuples `(int, float, bool)` (`PriorityRequest.key`): the first component that differs decides;
`False < True`; floats are equal iff neither is smaller (NaN never occurs in the modelled runs) -/
def keyLt (a b : Int × α × Bool) : Bool :=
  decide (a.1 < b.1) || (decide (a.1 = b.1) &&
    (decide (a.2.1 < b.2.1) || (!decide (b.2.1 < a.2.1) && (!a.2.2 && b.2.2))))

/-- Python `a < b` on the entries `(time, priority, eid, event)` of `Environment._queue`; the `eid`s of two entries are
different (a fresh counter value each), so the fourth component is never consulted -/
def entryLt (a b : α × Nat × Nat × Nat) : Bool :=
  decide (a.1 < b.1) || (!decide (b.1 < a.1) &&
    (decide (a.2.1 < b.2.1) || (decide (a.2.1 = b.2.1) && decide (a.2.2.1 < b.2.2.1))))

end Py

/-- effects of translated kernel methods (`event` = the request / operand event the method is called with, `self` = the
object the method belongs to).  The comment of each constructor is the statement pattern the translator accepts for it. -/
inductive KEff (α : Type) where
  /-- `self._users.append(event)` -/
  | usersAppendEvent
  /-- `event.usage_since = self._env.now` -/
  | setUsageSinceNow
  /-- `event.succeed()` -/
  | eventSucceedNone
  /-- `try: self._users.remove(event.request)` / `except ValueError: pass` -/
  | usersRemoveRequest
  /-- `self.users.remove(preempt)` where `preempt = sorted(self.users, key=lambda e: e.key)[-1]` -/
  | usersRemoveVictim
  /-- `preempt.proc.interrupt(Preempted(by=event.proc, usage_since=preempt.usage_since, resource=self))` -/
  | interruptVictim
  /-- `self._level = v` (also `+=`, `-=`: `v` is the new value) -/
  | setLevel (v : Int)
  /-- `self.items.append(event.item)` -/
  | itemsAppendItem
  /-- `event.succeed(self.items.pop(0))` -/
  | eventSucceedPopFirst
  /-- `heappush(self.items, event.item)` -/
  | itemsHeappushItem
  /-- `event.succeed(heappop(self.items))` -/
  | eventSucceedHeappop
  /-- `self.items.remove(item)` for the first `item` of `self.items` with `event.filter(item)` -/
  | itemsRemoveMatch
  /-- `event.succeed(item)` for that item -/
  | eventSucceedMatch
  /-- `self.resource.put_queue.remove(self)` -/
  | putQueueRemoveSelf
  /-- `self.resource.get_queue.remove(self)` -/
  | getQueueRemoveSelf
  /-- `self.resource._trigger_put(None)` -/
  | rescanPut
  /-- `self.resource._trigger_get(None)` -/
  | rescanGet
  /-- `super().__init__(<resource>)` of a request class (`Put.__init__` / `Get.__init__`: enqueue, subscribe, scan) -/
  | requestInit
  /-- `self.amount = amount` -/
  | setAmount (v : Int)
  /-- `self._count = v` (also `+=`) -/
  | setCount (v : Int)
  /-- `event._defused = True` -/
  | eventDefuse
  /-- `self.fail(event._value)` -/
  | selfFailWithEventValue
  /-- `self.succeed()` -/
  | selfSucceedNone
  /-- `super().__init__(env)` of an event class, or the inlined `self.env = …` -/
  | eventInit
  /-- `self.callbacks = [<bound method>]`: 0 = `process._resume`, 1 = `self._interrupt` -/
  | setCallbacks (which : Nat)
  /-- `self._ok = b` -/
  | setOk (b : Bool)
  /-- `self._value = <the value / exception / Interrupt(cause) / None the caller supplied>` -/
  | setValue
  /-- `self._defused = True` -/
  | selfDefuse
  /-- `self.process = process` -/
  | setProcess
  /-- `<env>.schedule(self, prio, delay)` with the defaults of `Environment.schedule` filled in -/
  | schedule (prio : Nat) (delay : α)
