/-!
# Scalars

The Python code computes with `int` and IEEE-754 `float`.  Every model in this library is
polymorphic in a scalar type `α` with the small interface `Num α` below, so that *one* definition is

* executed at `α := Float` by the driver (Lean's `Float` is the C `double`; `+ - * /` and `<`
  agree bit for bit with CPython, which the correspondence check re-confirms on every run), and
* reasoned about at `α := Rat` (exact arithmetic) in `OnlVerif/Props`.

This file imports nothing, so that the driver can be compiled to a native executable.
-/

class Num (α : Type) extends Add α, Sub α, Mul α, Div α, Neg α, LT α, LE α, Inhabited α where
  ofNat : Nat → α
  decLt : (a b : α) → Decidable (a < b)
  decLe : (a b : α) → Decidable (a ≤ b)

instance {α} [Num α] (a b : α) : Decidable (a < b) := Num.decLt a b
instance {α} [Num α] (a b : α) : Decidable (a ≤ b) := Num.decLe a b

instance : Num Rat where
  ofNat n := (n : Rat)
  decLt := inferInstance
  decLe := inferInstance

instance : Num Float where
  ofNat n := Float.ofNat n
  decLt := inferInstance
  decLe := inferInstance

namespace Num
variable {α : Type} [Num α]

/-- the scalar `0` -/
abbrev zero : α := Num.ofNat 0

/-- Equality of scalars expressed with `<` only (`Float` has no decidable `=`; NaN never occurs
in the modelled runs). Over `Rat` this is ordinary equality (`OnlVerif.Lemmas.Scalar`). -/
def eqb (a b : α) : Bool := !decide (a < b) && !decide (b < a)

/-- Python `min(a, b)`: the first argument unless the second is strictly smaller. -/
def pymin (a b : α) : α := if b < a then b else a

/-- Python `max(a, b)`: the first argument unless the second is strictly larger. -/
def pymax (a b : α) : α := if a < b then b else a

/-- Python `abs(a)` -/
def pyabs (a : α) : α := if a < zero then -a else a

end Num

/-- parse a decimal `UInt64` bit pattern into the `Float` it denotes -/
def Float.ofBitsStr (s : String) : Float := Float.ofBits (s.toNat!.toUInt64)

/-- canonical external form of a `Float`: its bit pattern in decimal -/
def Float.bitsStr (x : Float) : String := s!"{x.toBits.toNat}"
