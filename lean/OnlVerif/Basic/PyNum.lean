import OnlVerif.Basic.Truthy
import OnlVerif.Tcp.NumX
/-!
# Python ints next to the scalar: what the *generated* element definitions (`OnlVerif/Generated/*.lean`,
written by `py2lean/elem.py`) use besides `Num`

A Python `int` (counter, size, limit) is a Lean `Int` in generated code.  Where Python mixes an int with a float
(`packet.size * 8 / self.rate`, `self.average_queue_size >= self.qlimit`) CPython converts the int to a double —
exactly, for ints below 2^53, the only ones the modelled runs contain — and that conversion is `Num.ofInt`.
-/

namespace Num
variable {α : Type} [Num α]

/-- `float(i)` of a Python int -/
def ofInt (i : Int) : α :=
  match i with
  | .ofNat n => Num.ofNat n
  | .negSucc n => -(Num.ofNat (n + 1))

/-- Python `b ** (-w)` for an int `b > 0` and an int `w ≥ 0`: the float `1 / b**w` (`w = 0` gives the int `1`, the
same number); exact at `Float` when `b` is a power of two (RED's `2 ** (-weight_factor)`) -/
def powNeg (b w : Nat) : α := Num.ofNat 1 / Num.ofNat (b ^ w)

/-- an optional int used as a condition (`if self.pbs:`): set and not zero -/
def optOnInt (x : Option Int) : Option Int :=
  match x with
  | some v => if v = 0 then none else some v
  | none => none

end Num
