import OnlVerif.Basic.Num
/-! # Python truthiness of a number (`if x:` / `not x`) -/

namespace Num
variable {α : Type} [Num α]

/-- `bool(x)` of a Python number: everything except zero (NaN never occurs in the modelled runs) -/
def truthy (x : α) : Bool := decide (x < Num.zero) || decide (Num.zero < x)

/-- an optional numeric parameter used as a condition (`if self.peak:`): set and not zero -/
def optOn (x : Option α) : Option α :=
  match x with
  | some v => if truthy v then some v else none
  | none => none

end Num
