import OnlVerif.Tcp.Loop
/-!
# The closed loop: the vocabulary of the liveness results of C16

* `Quiescent l`: the simulation kernel has no event left - nothing is in flight on either path, no retransmission
  timer is pending, the `run` process is neither scheduled nor about to be handed a wake-up token.  The real run ends
  exactly in such a state.
* `Complete l n`: the sink holds the `n` bytes of the flow contiguously and the sender's acknowledged mark is `n`.
* `Fair l a`: the actions a loss-free stretch of a simulation run takes - every enabled burst may happen, in any order;
  the clock advances only when nothing is in flight, and then exactly to the next timer wake-up (`FairStep`).
* `BStep`: runs with a loss budget: a fair step, or the loss of a packet in flight, which consumes one unit.

Not executed by the driver.
-/

namespace Loop
variable {α : Type} [NumX α]

/-- the kernel's agenda is empty: no packet or ACK in flight, no live timer, `run` is not scheduled (`proc ≠ runnable`,
so no iteration of its sending loop can happen) and no wake-up token is waiting to be handed to it -/
def Quiescent (l : Loop α) : Prop :=
  l.data = [] ∧ l.acks = [] ∧ (∀ kv ∈ l.snd.timers, kv.2.live = false) ∧
  l.snd.proc ≠ .runnable ∧ ¬ (l.snd.proc = .blocked ∧ l.snd.tokens > 0)

instance (l : Loop α) : Decidable l.Quiescent := by
  unfold Quiescent
  exact inferInstance

/-- everything was delivered and acknowledged -/
def Complete (l : Loop α) (n : Nat) : Prop := l.sink = [(0, n)] ∧ l.snd.last_ack = n

instance (l : Loop α) (n : Nat) : Decidable (l.Complete n) := by
  unfold Complete
  exact inferInstance

/-- run a script of loop actions; `none` as soon as one is not accepted -/
def run (l : Loop α) : List (LAct α) → Option (Loop α)
  | [] => some l
  | a :: rest =>
    match l.step a with
    | some l' => run l' rest
    | none => none

/-! ## fair runs with finitely many losses -/

/-- What the simulation kernel does between losses.  Every burst that is enabled may be taken, in any order
(resumption of `run`, token hand-off, expiry of a due timer, delivery of the head of the data path, arrival of the head
of the ACK path).  The clock advances only when neither path holds a packet (deliveries are not postponed beyond a
timer expiry), strictly, and exactly to the wake-up instant of some live timer - `Sender.tickStep` itself refuses to
pass a timer that is due or a pending resumption/hand-off, so that instant is the earliest one: the kernel jumps to
its next event. -/
inductive Fair (l : Loop α) : LAct α → Prop
  | wake (fuel : Nat) : Fair l (.own (.wake fuel))
  | handoff : Fair l (.own .handoff)
  | fire (q : Nat) : Fair l (.own (.fire q))
  | deliver : Fair l .deliver
  | ackArrive : Fair l .ackArrive
  | tick (t : α) : l.data = [] → l.acks = [] → l.snd.now < t →
      (∃ kv ∈ l.snd.timers, kv.2.live = true ∧ Num.eqb kv.2.wake t = true) → Fair l (.own (.tick t))

/-- one loss-free step of a run -/
def FairStep (l l' : Loop α) : Prop := ∃ a, Fair l a ∧ l.step a = some l'

/-- a run with a loss budget: `(k, l)` may take a fair step, or - while `k > 0` - lose any packet or ACK in flight,
which leaves `k - 1` -/
inductive BStep : Nat × Loop α → Nat × Loop α → Prop
  | fair {k : Nat} {l l' : Loop α} : FairStep l l' → BStep (k, l) (k, l')
  | dropData {k : Nat} {l l' : Loop α} (i : Nat) : l.step (.dropData i) = some l' → BStep (k + 1, l) (k, l')
  | dropAck {k : Nat} {l l' : Loop α} (i : Nat) : l.step (.dropAck i) = some l' → BStep (k + 1, l) (k, l')

/-- `Fair` as a Boolean test -/
def fairB (l : Loop α) : LAct α → Bool
  | .own (.wake _) => true
  | .own .handoff => true
  | .own (.fire _) => true
  | .own (.ack _) => false
  | .own (.tick t) =>
    l.data.isEmpty && l.acks.isEmpty && decide (l.snd.now < t) &&
      l.snd.timers.any fun kv => kv.2.live && Num.eqb kv.2.wake t
  | .deliver => true
  | .ackArrive => true
  | .dropData _ => false
  | .dropAck _ => false

/-- is `a` a loss -/
def isDrop : LAct α → Bool
  | .dropData _ => true
  | .dropAck _ => true
  | _ => false

/-- run a script as a `BStep` run with loss budget `k`: every action must be accepted and be either fair or a loss
that the budget still allows -/
def runB (k : Nat) (l : Loop α) : List (LAct α) → Option (Nat × Loop α)
  | [] => some (k, l)
  | a :: rest =>
    match l.step a with
    | none => none
    | some l' =>
      if fairB l a then runB k l' rest
      else if isDrop a then
        match k with
        | 0 => none
        | k + 1 => runB k l' rest
      else none

end Loop

/-! ## paths with delay

The loop above abstracts the delay of a path as the interleaving of deliveries with clock ticks.  For termination the
delays must be finite: `TLoop` attaches to every packet in flight the instant by which the path delivers it (chosen
freely when the packet enters the path, not before the current instant).  Deliveries may happen at any moment, in
order; the clock cannot pass the delivery instant of a packet in flight, nor a due timer, and it advances from event
instant to event instant (a timer wake-up or a delivery instant), as a discrete-event kernel does.  Retransmission
timers may therefore expire while packets are in flight (round-trip time above the RTO). -/

/-- the closed loop over timed paths: `dT`, `aT` are the delivery instants of the packets in `l.data`, `l.acks` -/
structure TLoop (α : Type) where
  l : Loop α
  dT : List α
  aT : List α

namespace TLoop
variable {α : Type} [NumX α]

def init (s : Sender α) : TLoop α := { l := Loop.init s, dT := [], aT := [] }

/-- `t` is an event instant: a live timer wakes at `t`, or a packet in flight is due for delivery at `t` -/
def EventAt (L : TLoop α) (t : α) : Prop :=
  (∃ kv ∈ L.l.snd.timers, kv.2.live = true ∧ Num.eqb kv.2.wake t = true) ∨
  (∃ d ∈ L.dT, Num.eqb d t = true) ∨ (∃ d ∈ L.aT, Num.eqb d t = true)

/-- one loss-free step over timed paths.  `ts`/`t`: the delivery instants the paths assign to the packets that enter
them in this step (arbitrary, not in the past). -/
inductive TStep : TLoop α → TLoop α → Prop
  /-- a burst of the sender other than the clock: resumption of `run`, token hand-off, expiry of a due timer -/
  | burst {L : TLoop α} {l' : Loop α} (a : Act α) (ts : List α) :
      (∀ t, a ≠ .tick t) → L.l.step (.own a) = some l' → L.dT.length + ts.length = l'.data.length →
      (∀ t ∈ ts, l'.snd.now ≤ t) → TStep L { l := l', dT := L.dT ++ ts, aT := L.aT }
  /-- the clock advances to the next event instant, not beyond the delivery instant of any packet in flight -/
  | tick {L : TLoop α} {l' : Loop α} (t : α) :
      L.l.step (.own (.tick t)) = some l' → L.l.snd.now < t → (∀ d ∈ L.dT, t ≤ d) → (∀ d ∈ L.aT, t ≤ d) →
      L.EventAt t → TStep L { l := l', dT := L.dT, aT := L.aT }
  /-- the head of the data path reaches the sink; the ACK enters the ACK path -/
  | deliver {L : TLoop α} {l' : Loop α} (t : α) :
      L.l.step .deliver = some l' → L.l.snd.now ≤ t → TStep L { l := l', dT := L.dT.tail, aT := L.aT ++ [t] }
  /-- the head of the ACK path reaches the sender; retransmissions it causes enter the data path -/
  | ackArrive {L : TLoop α} {l' : Loop α} (ts : List α) :
      L.l.step .ackArrive = some l' → L.dT.length + ts.length = l'.data.length →
      (∀ t ∈ ts, l'.snd.now ≤ t) → TStep L { l := l', dT := L.dT ++ ts, aT := L.aT.tail }

/-- a run over timed paths with a loss budget -/
inductive TBStep : Nat × TLoop α → Nat × TLoop α → Prop
  | step {k : Nat} {L L' : TLoop α} : TStep L L' → TBStep (k, L) (k, L')
  | dropData {k : Nat} {L : TLoop α} {l' : Loop α} (i : Nat) : L.l.step (.dropData i) = some l' →
      TBStep (k + 1, L) (k, { l := l', dT := L.dT.eraseIdx i, aT := L.aT })
  | dropAck {k : Nat} {L : TLoop α} {l' : Loop α} (i : Nat) : L.l.step (.dropAck i) = some l' →
      TBStep (k + 1, L) (k, { l := l', dT := L.dT, aT := L.aT.eraseIdx i })

end TLoop

/-- a scripted step over timed paths: the action and the delivery instants the paths assign -/
inductive TAct (α : Type) where
  | burst (a : Act α) (ts : List α)
  | tick (t : α)
  | deliver (t : α)
  | ackArrive (ts : List α)
  | dropData (i : Nat)
  | dropAck (i : Nat)

namespace TLoop
variable {α : Type} [NumX α]

def isTick : Act α → Bool
  | .tick _ => true
  | _ => false

/-- `EventAt` as a Boolean test -/
def eventAtB (L : TLoop α) (t : α) : Bool :=
  (L.l.snd.timers.any fun kv => kv.2.live && Num.eqb kv.2.wake t) || (L.dT.any fun d => Num.eqb d t) ||
    (L.aT.any fun d => Num.eqb d t)

/-- one scripted step as a `TBStep` with budget `k`, `none` if it is not one -/
def stepT (k : Nat) (L : TLoop α) : TAct α → Option (Nat × TLoop α)
  | .burst a ts =>
    if isTick a then none
    else
      match L.l.step (.own a) with
      | none => none
      | some l' =>
        if L.dT.length + ts.length = l'.data.length ∧ (ts.all fun t => decide (l'.snd.now ≤ t)) = true then
          some (k, { l := l', dT := L.dT ++ ts, aT := L.aT })
        else none
  | .tick t =>
    match L.l.step (.own (.tick t)) with
    | none => none
    | some l' =>
      if (decide (L.l.snd.now < t) && (L.dT.all fun d => decide (t ≤ d)) && (L.aT.all fun d => decide (t ≤ d)) &&
          L.eventAtB t) = true then
        some (k, { l := l', dT := L.dT, aT := L.aT })
      else none
  | .deliver t =>
    match L.l.step .deliver with
    | none => none
    | some l' => if L.l.snd.now ≤ t then some (k, { l := l', dT := L.dT.tail, aT := L.aT ++ [t] }) else none
  | .ackArrive ts =>
    match L.l.step .ackArrive with
    | none => none
    | some l' =>
      if L.dT.length + ts.length = l'.data.length ∧ (ts.all fun t => decide (l'.snd.now ≤ t)) = true then
        some (k, { l := l', dT := L.dT ++ ts, aT := L.aT.tail })
      else none
  | .dropData i =>
    match L.l.step (.dropData i) with
    | none => none
    | some l' =>
      match k with
      | 0 => none
      | k + 1 => some (k, { l := l', dT := L.dT.eraseIdx i, aT := L.aT })
  | .dropAck i =>
    match L.l.step (.dropAck i) with
    | none => none
    | some l' =>
      match k with
      | 0 => none
      | k + 1 => some (k, { l := l', dT := L.dT, aT := L.aT.eraseIdx i })

/-- run a script over timed paths with loss budget `k` -/
def runT (k : Nat) (L : TLoop α) : List (TAct α) → Option (Nat × TLoop α)
  | [] => some (k, L)
  | a :: rest =>
    match stepT k L a with
    | some y => runT y.1 y.2 rest
    | none => none

end TLoop

/-- an action that loses nothing -/
def LAct.noDrop {α : Type} : LAct α → Bool
  | .dropData _ => false
  | .dropAck _ => false
  | _ => true
