import OnlVerif.Tcp.Loop
/-!
# The closed loop: the vocabulary of the liveness results of C16

* `Quiescent l`: the simulation kernel has no event left - nothing is in flight on either path, no retransmission
  timer is pending, the `run` process is neither scheduled nor about to be handed a wake-up token.  The real run ends
  exactly in such a state.
* `Complete l n`: the sink holds the `n` bytes of the flow contiguously and the sender's acknowledged mark is `n`.

Not executed by the driver.
-/

namespace Loop
variable {α : Type} [NumX α]

/-- the kernel's agenda is empty: no packet or ACK in flight, no live timer, `run` is not scheduled (`proc ≠ runnable`,
so no iteration of its sending loop can happen) and no wake-up token is waiting to be handed to it -/
def Quiescent (l : Loop α) : Prop :=
  l.data = [] ∧ l.acks = [] ∧ (∀ kv ∈ l.snd.timers, kv.2.live = false) ∧
  l.snd.proc ≠ .runnable ∧ ¬ (l.snd.proc = .blocked ∧ l.snd.tokens > 0)

instance (l : Loop α) : Decidable l.Quiescent := by
  unfold Quiescent
  exact inferInstance

/-- everything was delivered and acknowledged -/
def Complete (l : Loop α) (n : Nat) : Prop := l.sink = [(0, n)] ∧ l.snd.last_ack = n

instance (l : Loop α) (n : Nat) : Decidable (l.Complete n) := by
  unfold Complete
  exact inferInstance

/-- run a script of loop actions; `none` as soon as one is not accepted -/
def run (l : Loop α) : List (LAct α) → Option (Loop α)
  | [] => some l
  | a :: rest =>
    match l.step a with
    | some l' => run l' rest
    | none => none

end Loop
