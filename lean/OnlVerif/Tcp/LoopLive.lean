import OnlVerif.Tcp.Loop
/-!
# The closed loop: the vocabulary of the liveness results of C16

* `Quiescent l`: the simulation kernel has no event left - nothing is in flight on either path, no retransmission
  timer is pending, the `run` process is neither scheduled nor about to be handed a wake-up token.  The real run ends
  exactly in such a state.
* `Complete l n`: the sink holds the `n` bytes of the flow contiguously and the sender's acknowledged mark is `n`.
* `Fair l a`: the actions a loss-free stretch of a simulation run takes - every enabled burst may happen, in any order;
  the clock advances only when nothing is in flight, and then exactly to the next timer wake-up (`FairStep`).
* `BStep`: runs with a loss budget: a fair step, or the loss of a packet in flight, which consumes one unit.

Not executed by the driver.
-/

namespace Loop
variable {α : Type} [NumX α]

/-- the kernel's agenda is empty: no packet or ACK in flight, no live timer, `run` is not scheduled (`proc ≠ runnable`,
so no iteration of its sending loop can happen) and no wake-up token is waiting to be handed to it -/
def Quiescent (l : Loop α) : Prop :=
  l.data = [] ∧ l.acks = [] ∧ (∀ kv ∈ l.snd.timers, kv.2.live = false) ∧
  l.snd.proc ≠ .runnable ∧ ¬ (l.snd.proc = .blocked ∧ l.snd.tokens > 0)

instance (l : Loop α) : Decidable l.Quiescent := by
  unfold Quiescent
  exact inferInstance

/-- everything was delivered and acknowledged -/
def Complete (l : Loop α) (n : Nat) : Prop := l.sink = [(0, n)] ∧ l.snd.last_ack = n

instance (l : Loop α) (n : Nat) : Decidable (l.Complete n) := by
  unfold Complete
  exact inferInstance

/-- run a script of loop actions; `none` as soon as one is not accepted -/
def run (l : Loop α) : List (LAct α) → Option (Loop α)
  | [] => some l
  | a :: rest =>
    match l.step a with
    | some l' => run l' rest
    | none => none

/-! ## fair runs with finitely many losses -/

/-- What the simulation kernel does between losses.  Every burst that is enabled may be taken, in any order
(resumption of `run`, token hand-off, expiry of a due timer, delivery of the head of the data path, arrival of the head
of the ACK path).  The clock advances only when neither path holds a packet (deliveries are not postponed beyond a
timer expiry), strictly, and exactly to the wake-up instant of some live timer - `Sender.tickStep` itself refuses to
pass a timer that is due or a pending resumption/hand-off, so that instant is the earliest one: the kernel jumps to
its next event. -/
inductive Fair (l : Loop α) : LAct α → Prop
  | wake (fuel : Nat) : Fair l (.own (.wake fuel))
  | handoff : Fair l (.own .handoff)
  | fire (q : Nat) : Fair l (.own (.fire q))
  | deliver : Fair l .deliver
  | ackArrive : Fair l .ackArrive
  | tick (t : α) : l.data = [] → l.acks = [] → l.snd.now < t →
      (∃ kv ∈ l.snd.timers, kv.2.live = true ∧ Num.eqb kv.2.wake t = true) → Fair l (.own (.tick t))

/-- one loss-free step of a run -/
def FairStep (l l' : Loop α) : Prop := ∃ a, Fair l a ∧ l.step a = some l'

/-- a run with a loss budget: `(k, l)` may take a fair step, or - while `k > 0` - lose any packet or ACK in flight,
which leaves `k - 1` -/
inductive BStep : Nat × Loop α → Nat × Loop α → Prop
  | fair {k : Nat} {l l' : Loop α} : FairStep l l' → BStep (k, l) (k, l')
  | dropData {k : Nat} {l l' : Loop α} (i : Nat) : l.step (.dropData i) = some l' → BStep (k + 1, l) (k, l')
  | dropAck {k : Nat} {l l' : Loop α} (i : Nat) : l.step (.dropAck i) = some l' → BStep (k + 1, l) (k, l')

/-- `Fair` as a Boolean test -/
def fairB (l : Loop α) : LAct α → Bool
  | .own (.wake _) => true
  | .own .handoff => true
  | .own (.fire _) => true
  | .own (.ack _) => false
  | .own (.tick t) =>
    l.data.isEmpty && l.acks.isEmpty && decide (l.snd.now < t) &&
      l.snd.timers.any fun kv => kv.2.live && Num.eqb kv.2.wake t
  | .deliver => true
  | .ackArrive => true
  | .dropData _ => false
  | .dropAck _ => false

/-- is `a` a loss -/
def isDrop : LAct α → Bool
  | .dropData _ => true
  | .dropAck _ => true
  | _ => false

/-- run a script as a `BStep` run with loss budget `k`: every action must be accepted and be either fair or a loss
that the budget still allows -/
def runB (k : Nat) (l : Loop α) : List (LAct α) → Option (Nat × Loop α)
  | [] => some (k, l)
  | a :: rest =>
    match l.step a with
    | none => none
    | some l' =>
      if fairB l a then runB k l' rest
      else if isDrop a then
        match k with
        | 0 => none
        | k + 1 => runB k l' rest
      else none

end Loop

/-- an action that loses nothing -/
def LAct.noDrop {α : Type} : LAct α → Bool
  | .dropData _ => false
  | .dropAck _ => false
  | _ => true
